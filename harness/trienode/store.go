//go:build verif

// Package trienode hosts the runtime monitors for C06 (database-backed trie
// engine) and C07 (node codec round trip / decoder robustness).
package trienode

import (
	"bytes"

	"github.com/ChainSafe/gossamer/internal/database"
	"github.com/ChainSafe/gossamer/zz_verif/vcommon"
)

// Store is the harness key-value store behind TrieDB. Like Substrate's
// memory-db (and like the package's own test database) it serves the null
// node: any key that ends with BLAKE2b-256(0x00) reads as 0x00.
//
// Batches are ordered write logs. In deferred mode (the realistic one: pebble
// batches behave like this) a batch is applied on Flush and dropped on Close;
// in write-through mode every batch write is applied immediately (this is what
// the package's own MemoryBatch does).
type Store struct {
	data         map[string][]byte
	nullHash     []byte
	WriteThrough bool

	Gets, Puts, Dels, Flushes, DroppedBatches int
}

// NewStore returns an empty store.
func NewStore(writeThrough bool) *Store {
	h := vcommon.Blake256([]byte{0})
	return &Store{data: map[string][]byte{}, nullHash: h[:], WriteThrough: writeThrough}
}

func (s *Store) Get(key []byte) ([]byte, error) {
	s.Gets++
	if bytes.HasSuffix(key, s.nullHash) {
		return []byte{0}, nil
	}
	if v, ok := s.data[string(key)]; ok {
		return append([]byte{}, v...), nil
	}
	return nil, nil
}

func (s *Store) Put(key, value []byte) error {
	s.Puts++
	s.data[string(key)] = append([]byte{}, value...)
	return nil
}

func (s *Store) Del(key []byte) error {
	s.Dels++
	delete(s.data, string(key))
	return nil
}

func (s *Store) Flush() error { return nil }

// Len is the number of stored entries.
func (s *Store) Len() int { return len(s.data) }

type batchOp struct {
	del  bool
	k, v []byte
}

type storeBatch struct {
	s       *Store
	ops     []batchOp
	flushed bool
}

func (s *Store) NewBatch() database.Batch { return &storeBatch{s: s} }

func (b *storeBatch) Put(key, value []byte) error {
	if b.s.WriteThrough {
		return b.s.Put(key, value)
	}
	b.ops = append(b.ops, batchOp{false, append([]byte{}, key...), append([]byte{}, value...)})
	return nil
}

func (b *storeBatch) Del(key []byte) error {
	if b.s.WriteThrough {
		return b.s.Del(key)
	}
	b.ops = append(b.ops, batchOp{true, append([]byte{}, key...), nil})
	return nil
}

func (b *storeBatch) Flush() error {
	b.s.Flushes++
	for _, op := range b.ops {
		if op.del {
			_ = b.s.Del(op.k)
		} else {
			_ = b.s.Put(op.k, op.v)
		}
	}
	b.ops = nil
	b.flushed = true
	return nil
}

func (b *storeBatch) Close() error {
	if len(b.ops) > 0 {
		b.s.DroppedBatches++
	}
	b.ops = nil
	return nil
}

func (b *storeBatch) Reset()         { b.ops = nil }
func (b *storeBatch) ValueSize() int { return len(b.ops) }
