//go:build verif

package keystore_test

import (
	"bytes"
	"encoding/json"
	"fmt"
	"os"
	"path/filepath"
	"reflect"
	"sort"
	"strings"
	"testing"

	"github.com/ChainSafe/gossamer/lib/crypto"
	"github.com/ChainSafe/gossamer/lib/crypto/ed25519"
	"github.com/ChainSafe/gossamer/lib/crypto/secp256k1"
	"github.com/ChainSafe/gossamer/lib/crypto/sr25519"
	"github.com/ChainSafe/gossamer/lib/keystore"
	"github.com/ChainSafe/gossamer/zz_verif/vcommon"
)

var schemes = []string{crypto.Ed25519Type, crypto.Sr25519Type, crypto.Secp256k1Type}

// makeKey derives a valid private key of the scheme from 32 seed bytes.
func makeKey(scheme string, seed []byte) (crypto.PrivateKey, error) {
	switch scheme {
	case crypto.Ed25519Type:
		kp, err := ed25519.NewKeypairFromSeed(seed)
		if err != nil {
			return nil, err
		}
		return kp.Private(), nil
	case crypto.Sr25519Type:
		kp, err := sr25519.NewKeypairFromSeed(seed)
		if err != nil {
			return nil, err
		}
		return kp.Private(), nil
	default:
		s := append([]byte{}, seed...)
		if s[0] == 0xff { // stay below the group order
			s[0] = 0x7f
		}
		allZero := true
		for _, b := range s {
			if b != 0 {
				allZero = false
			}
		}
		if allZero {
			s[31] = 1
		}
		return secp256k1.NewPrivateKey(s)
	}
}

// sameKey decides "returns the same key": same concrete type, same encoding, same public key.
func sameKey(a, b crypto.PrivateKey) (bool, string) {
	if a == nil || b == nil || reflect.ValueOf(b).IsNil() {
		return false, "nil key"
	}
	if reflect.TypeOf(a) != reflect.TypeOf(b) {
		return false, fmt.Sprintf("type %T != %T", b, a)
	}
	if !bytes.Equal(a.Encode(), b.Encode()) {
		return false, "private key bytes differ"
	}
	pa, err1 := a.Public()
	pb, err2 := b.Public()
	if err1 != nil || err2 != nil {
		return false, fmt.Sprintf("Public(): %v / %v", err1, err2)
	}
	if !bytes.Equal(pa.Encode(), pb.Encode()) {
		return false, "public keys differ"
	}
	return true, ""
}

type pwClass struct {
	name string
	gen  func(r *vcommon.Rand) []byte
}

var pwClasses = []pwClass{
	{"empty", func(r *vcommon.Rand) []byte { return []byte{} }},
	{"nil", func(r *vcommon.Rand) []byte { return nil }},
	{"one_byte", func(r *vcommon.Rand) []byte { return []byte{byte(r.Intn(256))} }},
	{"ascii", func(r *vcommon.Rand) []byte {
		const a = "abcdefghijklmnopqrstuvwxyzABCDEFGHIJKLMNOPQRSTUVWXYZ0123456789 !#$%&'()*+,-./:;<=>?@[]^_{|}~\"\\"
		b := make([]byte, r.Range(2, 40))
		for i := range b {
			b[i] = a[r.Intn(len(a))]
		}
		return b
	}},
	{"unicode", func(r *vcommon.Rand) []byte {
		parts := []string{"пароль", "密码", "パスワード", "🔑", "ñ", "é", "é", "ß", "​", "Ω", "كلمة"}
		var sb strings.Builder
		for i, n := 0, r.Range(1, 6); i < n; i++ {
			sb.WriteString(vcommon.Pick(r, parts))
		}
		return []byte(sb.String())
	}},
	{"binary_with_zero_bytes", func(r *vcommon.Rand) []byte {
		b := r.Bytes(r.Range(1, 48))
		b[r.Intn(len(b))] = 0
		if r.Bool() {
			b[len(b)-1] = 0
		}
		return b
	}},
	{"all_zero_bytes", func(r *vcommon.Rand) []byte { return make([]byte, r.Range(1, 70)) }},
	{"long", func(r *vcommon.Rand) []byte {
		return r.Bytes(vcommon.Pick(r, []int{31, 32, 33, 63, 64, 65, 127, 128, 129, 1024, 4096, 65536}))
	}},
	{"long_repeated", func(r *vcommon.Rand) []byte { return bytes.Repeat([]byte("aB"), r.Range(16, 3000)) }},
}

// nearMisses returns passwords that differ from pw.
func nearMisses(r *vcommon.Rand, pw []byte) map[string][]byte {
	out := map[string][]byte{}
	cp := func() []byte { return append([]byte{}, pw...) }
	out["appended_zero_byte"] = append(cp(), 0)
	out["appended_space"] = append(cp(), ' ')
	out["appended_newline"] = append(cp(), '\n')
	out["prepended_byte"] = append([]byte{'x'}, pw...)
	out["doubled"] = append(cp(), pw...)
	if len(pw) == 0 {
		out["doubled"] = []byte{0, 0}
	}
	if len(pw) > 0 {
		out["empty"] = []byte{}
		out["last_byte_dropped"] = cp()[:len(pw)-1]
		out["first_byte_dropped"] = cp()[1:]
		b := cp()
		b[len(b)-1] ^= 1
		out["last_bit_flipped"] = b
		b = cp()
		b[0] ^= 0x80
		out["first_bit_flipped"] = b
		b = cp()
		b[r.Intn(len(b))] ^= byte(1 << uint(r.Intn(8)))
		out["random_bit_flipped"] = b
		b = cp()
		for i := range b {
			if b[i] >= 'a' && b[i] <= 'z' {
				b[i] -= 32
			} else if b[i] >= 'A' && b[i] <= 'Z' {
				b[i] += 32
			}
		}
		if !bytes.Equal(b, pw) {
			out["case_swapped"] = b
		}
	}
	if len(pw) > 32 {
		out["first_32_bytes_only"] = cp()[:32]
	}
	if len(pw) > 64 {
		out["first_64_bytes_only"] = cp()[:64]
	}
	if len(pw) > 1 {
		b := cp()
		b[0], b[len(b)-1] = b[len(b)-1], b[0]
		if !bytes.Equal(b, pw) {
			out["ends_swapped"] = b
		}
	}
	out["unrelated"] = r.Bytes(r.Range(1, 20))
	for k, v := range out {
		if bytes.Equal(v, pw) {
			delete(out, k)
		}
	}
	return out
}

type mon struct {
	c      *vcommon.Case
	scheme string
	key    crypto.PrivateKey
	pw     []byte
	info   map[string]any
	// ct is "the stored ciphertext" as the caller holds it (the slice handed to every decryption, directly or as a
	// derived slice sharing its backing array); ctCopy is a private copy never shown to the code under test.
	ct, ctCopy []byte
	ctModified int
}

// stored is the purity monitor: decryption is a function of (ciphertext, password) only, so the caller's stored
// ciphertext must hold the same bytes after ANY decryption attempt (otherwise the next decryption of the stored
// ciphertext with the same password no longer returns the same key). On a hit the buffer is re-synchronised from
// the private copy so that the following probes stay meaningful.
type stored struct {
	c         *vcommon.Case
	buf, priv []byte
	hits      int
}

func (s *stored) check(call string, wit func(ex map[string]any) map[string]any) bool {
	s.c.Eval(1)
	s.c.Count("stored_ciphertext_checked", 1)
	if bytes.Equal(s.buf, s.priv) {
		return true
	}
	after := vcommon.Hex(s.buf)
	first, changed, zeroed := -1, 0, 0
	for i := range s.buf {
		if s.buf[i] != s.priv[i] {
			if first < 0 {
				first = i
			}
			changed++
			if s.buf[i] == 0 {
				zeroed++
			}
		}
	}
	copy(s.buf, s.priv)
	s.hits++
	if s.hits > 3 { // bounded log; every hit is still counted
		s.c.Count("stored_ciphertext_modified_more", 1)
		return false
	}
	s.c.Violation("ciphertext-modified", fmt.Sprintf("%s modified the caller's stored ciphertext (decryption is not a pure function of ciphertext and password; a later decryption of the same slice cannot return the same key)", call),
		wit(map[string]any{"call": call, "stored_before": vcommon.Hex(s.priv), "stored_after": after,
			"first_changed_offset": first, "bytes_changed": changed, "of_which_now_zero": zeroed}))
	return false
}

func (m *mon) checkStored(call string, extra func() map[string]any) bool {
	s := &stored{c: m.c, buf: m.ct, priv: m.ctCopy, hits: m.ctModified}
	ok := s.check(call, func(ex map[string]any) map[string]any {
		if extra != nil {
			for k, v := range extra() {
				ex[k] = v
			}
		}
		return m.wit(ex)
	})
	m.ctModified = s.hits
	return ok
}

func (m *mon) decryptPK(data, pw []byte) (pk crypto.PrivateKey, err error, panicked any) {
	defer func() {
		if p := recover(); p != nil {
			panicked = p
		}
	}()
	pk, err = keystore.DecryptPrivateKey(data, pw, m.scheme)
	return
}

// retKey is a key handed out by an earlier decryption together with the bytes it exposed at that moment.
type retKey struct {
	k    crypto.PrivateKey
	enc  []byte
	step int
}

// stillSame decides "never a different key" for keys that were ALREADY returned: whatever happens afterwards to the
// ciphertext buffer (further decryptions, the caller overwriting it) must not turn them into another key.
func (m *mon) stillSame(got []retKey, after string, ops []string) bool {
	for _, g := range got {
		m.c.Eval(1)
		ok, why := sameKey(m.key, g.k)
		if ok && !bytes.Equal(g.k.Encode(), g.enc) {
			ok, why = false, "its Encode() bytes changed"
		}
		if !ok {
			m.c.Violation("returned-key-changed", fmt.Sprintf("the key returned by decryption #%d changed after %s: %s (the key shares memory with a buffer that later decryptions or the caller write)", g.step, after, why),
				m.wit(map[string]any{"ops": ops, "key_bytes_at_return": vcommon.Hex(g.enc), "key_bytes_now": vcommon.Hex(g.k.Encode())}))
			return false
		}
	}
	return true
}

func sortedNames(m map[string][]byte) []string {
	out := make([]string, 0, len(m))
	for k := range m {
		out = append(out, k)
	}
	sort.Strings(out)
	return out
}

// repeatedDecrypts decrypts the SAME stored slice again and again: right, wrong, right, right, then a seeded tail of
// right / wrong passwords and truncation / front-dropped probes passed as derived slices of the stored buffer. Each
// right-password attempt must return the same key, each other attempt an error, whatever was attempted before.
func (m *mon) repeatedDecrypts() {
	c, r := m.c, m.c.R
	nm := nearMisses(r, m.pw)
	names := sortedNames(nm)
	seq := []string{"right", "wrong", "right", "right"}
	for i, n := 0, r.Range(4, 8); i < n; i++ {
		seq = append(seq, vcommon.Pick(r, []string{"right", "right", "wrong", "wrong", "truncated", "truncated_cap_kept", "front_dropped"}))
	}
	seq = append(seq, "right")
	prev := "right" // runKeyCase already decrypted this slice once with the right password
	ops := []string{"DecryptPrivateKey(ct, right)"}
	var got []retKey
	for i, s := range seq {
		data, pw, desc := m.ct, m.pw, "DecryptPrivateKey(ct, right)"
		switch s {
		case "wrong":
			name := vcommon.Pick(r, names)
			pw, desc = nm[name], "DecryptPrivateKey(ct, wrong:"+name+")"
		case "truncated":
			n := r.Intn(len(m.ct))
			data, desc = m.ct[:n:n], fmt.Sprintf("DecryptPrivateKey(ct[:%d:%d], right)", n, n)
		case "truncated_cap_kept":
			n := r.Intn(len(m.ct))
			data, desc = m.ct[:n], fmt.Sprintf("DecryptPrivateKey(ct[:%d], right)", n)
		case "front_dropped":
			n := r.Range(1, 13)
			data, desc = m.ct[n:], fmt.Sprintf("DecryptPrivateKey(ct[%d:], right)", n)
		}
		ops = append(ops, desc)
		step := i + 2
		wit := func() map[string]any {
			w := map[string]any{"ops": ops, "step": step}
			if len(pw) <= 128 {
				w["password_used"] = vcommon.Hex(pw)
			}
			return w
		}
		pk, err, pan := m.decryptPK(data, pw)
		c.Eval(1)
		c.Count("repeat_decrypts_same_slice", 1)
		c.Count("repeat_decrypts_"+m.scheme, 1)
		if pan != nil {
			c.Violation("panic", fmt.Sprintf("%s (attempt #%d on the same stored ciphertext) panicked: %v", desc, step, pan), m.wit(wit()))
			return
		}
		intact := m.checkStored(fmt.Sprintf("attempt #%d on the same slice, %s,", step, desc), wit)
		if s == "right" {
			if err != nil {
				w := wit()
				w["stored_intact_before_call"] = true
				c.Violation("repeat-decrypt", fmt.Sprintf("attempt #%d on the same stored ciphertext with the right password (previous attempt: %s) failed: %v", step, prev, err), m.wit(w))
				return
			}
			if ok, why := sameKey(m.key, pk); !ok {
				c.Violation("repeat-decrypt", fmt.Sprintf("attempt #%d on the same stored ciphertext with the right password (previous attempt: %s) returned a different key: %s", step, prev, why), m.wit(wit()))
				return
			}
			got = append(got, retKey{k: pk, enc: append([]byte{}, pk.Encode()...), step: step})
			c.Count("right_after_"+prev+"_ok", 1)
			c.Count("right_after_"+prev+"_"+m.scheme, 1)
		} else {
			if err == nil {
				same, _ := sameKey(m.key, pk)
				w := wit()
				w["same_key"] = same
				c.Violation("tamper-accepted", fmt.Sprintf("%s (attempt #%d on the same stored ciphertext) returned a key, no error", desc, step), m.wit(w))
				return
			}
			c.Count("repeat_"+s+"_rejected", 1)
		}
		if !m.stillSame(got, desc, ops) || !intact {
			return
		}
		prev = s
	}
	c.Count("repeat_sequences_completed", 1)
	c.Count("repeat_sequences_"+m.scheme, 1)
}

// aliasing decides that a returned key and the ciphertext buffer it came from are independent objects, in both
// directions, on a scratch copy d of the stored ciphertext: writing the key bytes the key type exposes must leave d
// unchanged, and the caller overwriting d must leave the already returned key the same key.
func (m *mon) aliasing() {
	c := m.c
	d := append([]byte{}, m.ctCopy...)
	k, err, pan := m.decryptPK(d, m.pw)
	c.Eval(1)
	if pan != nil || err != nil {
		c.Violation("roundtrip", fmt.Sprintf("DecryptPrivateKey of a copy of the stored ciphertext: err=%v panic=%v", err, pan), m.wit(nil))
		return
	}
	if ok, why := sameKey(m.key, k); !ok {
		c.Violation("roundtrip", "DecryptPrivateKey of a copy of the stored ciphertext is a different key: "+why, m.wit(nil))
		return
	}
	s := &stored{c: c, buf: d, priv: m.ctCopy}
	s.check("DecryptPrivateKey(copy of ct, right)", m.wit)
	dNow := append([]byte{}, d...)
	// direction 1: key bytes -> ciphertext
	enc := k.Encode()
	encAtReturn := append([]byte{}, enc...)
	for i := range enc {
		enc[i] ^= 0xa5
	}
	exposed := !bytes.Equal(k.Encode(), encAtReturn)
	c.Eval(1)
	if !bytes.Equal(d, dNow) {
		c.Violation("key-aliases-ciphertext", "writing the bytes of the returned key changed the ciphertext buffer it was decrypted from",
			m.wit(map[string]any{"buffer_before": vcommon.Hex(dNow), "buffer_after": vcommon.Hex(d)}))
		return
	}
	if exposed {
		c.Count("key_bytes_exposed_and_mutated_"+m.scheme, 1)
		copy(enc, encAtReturn)
	} else {
		c.Count("key_bytes_not_exposed_"+m.scheme, 1)
	}
	// direction 2: ciphertext -> already returned key
	for i := range d {
		d[i] ^= 0x5a
	}
	if m.stillSame([]retKey{{k: k, enc: encAtReturn, step: 1}}, "the caller overwrote the ciphertext buffer", []string{"d := copy(ct)", "k := DecryptPrivateKey(d, right)", "d[i] ^= 0x5a for all i"}) {
		c.Count("ciphertext_overwritten_key_unchanged", 1)
		c.Count("alias_probe_"+m.scheme, 1)
	}
}

func (m *mon) wit(extra map[string]any) map[string]any {
	w := map[string]any{}
	for k, v := range m.info {
		w[k] = v
	}
	for k, v := range extra {
		w[k] = v
	}
	return w
}

// mustFail decides one tampered DecryptPrivateKey / Decrypt call: it has to return an error.
func (m *mon) mustFail(kind string, data, pw []byte, extra map[string]any) {
	c := m.c
	c.Eval(1)
	c.Count("tamper_"+kind, 1)
	mkex := func() map[string]any { // witness built only when needed (hex of 64 KiB passwords is not free)
		ex := map[string]any{"kind": kind, "data": vcommon.Hex(data), "password": vcommon.Hex(pw)}
		for k, v := range extra {
			ex[k] = v
		}
		return ex
	}
	var (
		pk  crypto.PrivateKey
		err error
	)
	before := append([]byte{}, data...)
	func() {
		defer func() {
			if p := recover(); p != nil {
				c.Violation("panic", fmt.Sprintf("DecryptPrivateKey panicked on %s: %v", kind, p), m.wit(mkex()))
				err = fmt.Errorf("panic")
			}
		}()
		pk, err = keystore.DecryptPrivateKey(data, pw, m.scheme)
	}()
	// the stored ciphertext survives every attempt (data is the stored slice, a derived slice sharing its backing
	// array, or a scratch copy); a scratch copy being rewritten is only counted
	if m.checkStored("DecryptPrivateKey on a "+kind+" input", func() map[string]any {
		ex := mkex()
		ex["data_before_call"] = vcommon.Hex(before)
		return ex
	}) && !bytes.Equal(data, before) {
		c.Count("unasserted_rejected_scratch_input_rewritten", 1)
	}
	if err == nil {
		same, _ := sameKey(m.key, pk)
		ex := mkex()
		ex["same_key"] = same
		c.Violation("tamper-accepted", fmt.Sprintf("DecryptPrivateKey accepted a %s ciphertext/password (returned the %s key, no error)",
			kind, map[bool]string{true: "same", false: "a DIFFERENT"}[same]), m.wit(ex))
	}
}

func (m *mon) tamperInMemory(ct []byte) {
	r := m.c.R
	// every truncation length
	for n := 0; n < len(ct); n++ {
		m.mustFail("truncated", ct[:n:n], m.pw, map[string]any{"kept": n})
		switch {
		case n < 12:
			m.c.Count("truncated_inside_nonce", 1)
		case n < 28:
			m.c.Count("truncated_shorter_than_nonce_plus_tag", 1)
		}
	}
	// every single-bit flip
	for i := 0; i < len(ct)*8; i++ {
		d := append([]byte{}, ct...)
		d[i/8] ^= 1 << uint(i%8)
		m.mustFail("bit_flipped", d, m.pw, map[string]any{"bit": i})
	}
	// appended bytes
	for _, tail := range [][]byte{{0}, {0, 0, 0, 0}, make([]byte, 16), make([]byte, 32), {0xff}, r.Bytes(r.Range(1, 32)), ct[len(ct)-16:], ct} {
		m.mustFail("appended", append(append([]byte{}, ct...), tail...), m.pw, map[string]any{"appended": len(tail)})
	}
	// prepended / dropped front
	m.mustFail("prepended", append([]byte{0}, ct...), m.pw, nil)
	m.mustFail("front_dropped", ct[1:], m.pw, nil)
	// multi-byte forgeries (sampled)
	for k := 0; k < 16; k++ {
		d := append([]byte{}, ct...)
		switch k % 4 {
		case 0: // random byte substitution
			i := r.Intn(len(d))
			d[i] ^= byte(1 + r.Intn(255))
		case 1: // swap two distinct 16-byte AES blocks of the body
			if len(d) >= 12+32 {
				copy(d[12:28], ct[28:44])
				copy(d[28:44], ct[12:28])
			}
		case 2: // zero the tag
			copy(d[len(d)-16:], make([]byte, 16))
		case 3: // replace nonce
			copy(d[:12], r.Bytes(12))
		}
		if bytes.Equal(d, ct) {
			continue
		}
		m.mustFail("multi_byte_forgery", d, m.pw, nil)
	}
	// wrong passwords
	for name, wp := range nearMisses(r, m.pw) {
		m.mustFail("wrong_password", ct, wp, map[string]any{"near_miss": name})
		m.c.Count("wrong_password_"+name, 1)
	}
}

func (m *mon) readFile(path string, pw []byte) (pk crypto.PrivateKey, err error, panicked any) {
	defer func() {
		if p := recover(); p != nil {
			panicked = p
		}
	}()
	pk, err = keystore.ReadFromFileAndDecrypt(path, pw)
	return
}

// repeatedFileReads reads the SAME stored key file again and again (right, wrong, right, right, seeded tail): the file
// content stays byte-identical, every right-password read returns the same key, every other read an error, and keys
// handed out earlier stay the same key (also after the caller scribbled over the bytes an earlier key exposes).
func (m *mon) repeatedFileReads(path string, raw []byte, first crypto.PrivateKey) bool {
	c, r := m.c, m.c.R
	nm := nearMisses(r, m.pw)
	names := sortedNames(nm)
	seq := []string{"right", "wrong", "right", "right"}
	for i, n := 0, r.Range(1, 3); i < n; i++ {
		seq = append(seq, vcommon.Pick(r, []string{"right", "wrong"}))
	}
	seq = append(seq, "right")
	ops := []string{"ReadFromFileAndDecrypt(file, right)"}
	got := []retKey{{k: first, enc: append([]byte{}, first.Encode()...), step: 1}}
	// the caller writes the key bytes the first key exposes, then restores them: later reads are unaffected
	if enc := first.Encode(); len(enc) > 0 {
		for i := range enc {
			enc[i] ^= 0xa5
		}
		if !bytes.Equal(first.Encode(), got[0].enc) {
			copy(enc, got[0].enc)
		}
	}
	prev := "right"
	for i, s := range seq {
		pw, desc := m.pw, "ReadFromFileAndDecrypt(file, right)"
		if s == "wrong" {
			name := vcommon.Pick(r, names)
			pw, desc = nm[name], "ReadFromFileAndDecrypt(file, wrong:"+name+")"
		}
		ops = append(ops, desc)
		step := i + 2
		pk, err, pan := m.readFile(path, pw)
		c.Eval(2)
		c.Count("file_repeat_reads", 1)
		w := map[string]any{"ops": ops, "step": step, "file": string(raw)}
		if pan != nil {
			c.Violation("panic", fmt.Sprintf("%s (read #%d of the same file) panicked: %v", desc, step, pan), m.wit(w))
			return false
		}
		now, rerr := os.ReadFile(path)
		if rerr != nil || !bytes.Equal(now, raw) {
			w["file_after"] = string(now)
			c.Violation("file-modified", fmt.Sprintf("%s (read #%d) changed the stored key file (read error: %v)", desc, step, rerr), m.wit(w))
			return false
		}
		if s == "right" {
			if err != nil {
				c.Violation("repeat-decrypt", fmt.Sprintf("read #%d of the same key file with the right password (previous read: %s) failed: %v", step, prev, err), m.wit(w))
				return false
			}
			if ok, why := sameKey(m.key, pk); !ok {
				c.Violation("repeat-decrypt", fmt.Sprintf("read #%d of the same key file with the right password (previous read: %s) returned a different key: %s", step, prev, why), m.wit(w))
				return false
			}
			got = append(got, retKey{k: pk, enc: append([]byte{}, pk.Encode()...), step: step})
			c.Count("file_right_after_"+prev+"_ok", 1)
		} else {
			if err == nil {
				c.Violation("tamper-accepted", fmt.Sprintf("%s (read #%d of the same file) returned a key, no error", desc, step), m.wit(w))
				return false
			}
			c.Count("file_repeat_wrong_rejected", 1)
		}
		if !m.stillSame(got, desc, ops) {
			return false
		}
		prev = s
	}
	c.Count("file_repeat_sequences_completed", 1)
	return true
}

func (m *mon) tamperFile(dir string) {
	c, r := m.c, m.c.R
	path := filepath.Join(dir, "k.key")
	func() {
		defer func() {
			if p := recover(); p != nil {
				c.Violation("panic", fmt.Sprintf("EncryptAndWriteToFile panicked: %v", p), m.wit(nil))
			}
		}()
		if err := keystore.EncryptAndWriteToFile(path, m.key, m.pw); err != nil {
			c.Violation("file-write", fmt.Sprintf("EncryptAndWriteToFile: %v", err), m.wit(nil))
		}
	}()
	if c.Failed() {
		return
	}
	raw0, _ := os.ReadFile(path) // the stored file as written, before any read
	c.Eval(1)
	pk, err, pan := m.readFile(path, m.pw)
	if pan != nil || err != nil {
		c.Violation("file-roundtrip", fmt.Sprintf("ReadFromFileAndDecrypt of the file just written: err=%v panic=%v", err, pan), m.wit(nil))
		return
	}
	if ok, why := sameKey(m.key, pk); !ok {
		c.Violation("file-roundtrip", "ReadFromFileAndDecrypt returned a different key: "+why, m.wit(nil))
		return
	}
	c.Count("file_roundtrips_ok", 1)
	raw, err := os.ReadFile(path)
	if err != nil {
		c.Inconclusive("cannot read back key file: " + err.Error())
		return
	}
	if raw0 != nil && !bytes.Equal(raw, raw0) {
		c.Violation("file-modified", "ReadFromFileAndDecrypt (right password) changed the key file", m.wit(map[string]any{"file_before": string(raw0), "file_after": string(raw)}))
		return
	}
	if !m.repeatedFileReads(path, raw, pk) {
		return
	}
	var ks keystore.EncryptedKeystore
	if err := json.Unmarshal(raw, &ks); err != nil {
		c.Violation("file-format", "key file is not JSON: "+err.Error(), m.wit(map[string]any{"file": string(raw)}))
		return
	}
	c.Eval(1)
	if ks.Type != m.scheme {
		c.Violation("file-format", fmt.Sprintf("key file Type=%q for a %s key", ks.Type, m.scheme), m.wit(nil))
	}
	tpath := filepath.Join(dir, "t.key")
	// (a) a genuinely modified Ciphertext inside an otherwise intact file: must fail
	writeCT := func(ct []byte) bool {
		k2 := ks
		k2.Ciphertext = ct
		b, err := json.MarshalIndent(&k2, "", "\t")
		if err != nil || os.WriteFile(tpath, b, 0o600) != nil {
			c.Inconclusive("cannot write tampered key file")
			return false
		}
		return true
	}
	fileMustFail := func(kind string, ct []byte, pw []byte, extra map[string]any) {
		if !writeCT(ct) {
			return
		}
		c.Eval(1)
		c.Count("file_tamper_"+kind, 1)
		pk, err, pan := m.readFile(tpath, pw)
		if pan == nil && err != nil {
			return
		}
		ex := map[string]any{"kind": kind, "ciphertext": vcommon.Hex(ct), "password": vcommon.Hex(pw)}
		for k, v := range extra {
			ex[k] = v
		}
		if pan != nil {
			c.Violation("panic", fmt.Sprintf("ReadFromFileAndDecrypt panicked on %s ciphertext: %v", kind, pan), m.wit(ex))
		} else if err == nil {
			same, _ := sameKey(m.key, pk)
			c.Violation("tamper-accepted", fmt.Sprintf("ReadFromFileAndDecrypt accepted a %s ciphertext (same key: %v)", kind, same), m.wit(ex))
		}
	}
	ct := ks.Ciphertext
	for n := 0; n < len(ct); n++ {
		if n > 30 && n < len(ct)-3 && !r.Chance(1, 4) {
			continue
		}
		fileMustFail("truncated", ct[:n:n], m.pw, map[string]any{"kept": n})
	}
	for k := 0; k < 24; k++ {
		i := r.Intn(len(ct) * 8)
		d := append([]byte{}, ct...)
		d[i/8] ^= 1 << uint(i%8)
		fileMustFail("bit_flipped", d, m.pw, map[string]any{"bit": i})
	}
	fileMustFail("appended", append(append([]byte{}, ct...), 0), m.pw, nil)
	fileMustFail("appended", append(append([]byte{}, ct...), r.Bytes(r.Range(1, 20))...), m.pw, nil)
	for name, wp := range nearMisses(r, m.pw) {
		if r.Chance(1, 2) {
			fileMustFail("wrong_password", ct, wp, map[string]any{"near_miss": name})
		}
	}
	// (b) raw modifications of the file bytes: error or the same key, never a different key, never a panic
	rawCheck := func(kind string, b []byte, extra map[string]any) {
		if os.WriteFile(tpath, b, 0o600) != nil {
			c.Inconclusive("cannot write tampered key file")
			return
		}
		c.Eval(1)
		pk, err, pan := m.readFile(tpath, m.pw)
		ex := map[string]any{"kind": kind, "file": string(b)}
		for k, v := range extra {
			ex[k] = v
		}
		switch {
		case pan != nil:
			c.Violation("panic", fmt.Sprintf("ReadFromFileAndDecrypt panicked on a %s key file: %v", kind, pan), m.wit(ex))
		case err != nil:
			c.Count("raw_file_"+kind+"_rejected", 1)
		default:
			if ok, why := sameKey(m.key, pk); !ok {
				c.Violation("different-key", fmt.Sprintf("ReadFromFileAndDecrypt of a %s key file returned a different key (%s)", kind, why), m.wit(ex))
			} else {
				c.Count("raw_file_"+kind+"_same_key_returned", 1)
			}
		}
	}
	for k := 0; k < 40; k++ {
		i := r.Intn(len(raw) * 8)
		d := append([]byte{}, raw...)
		d[i/8] ^= 1 << uint(i%8)
		rawCheck("bit_flipped", d, map[string]any{"bit": i})
	}
	for k := 0; k < 16; k++ {
		n := r.Intn(len(raw))
		if k < 4 {
			n = len(raw) - 1 - k
		}
		if k == 4 {
			n = 0
		}
		rawCheck("truncated", raw[:n:n], map[string]any{"kept": n})
	}
	// observed, not asserted: the Type field is outside the ciphertext
	if m.scheme != crypto.Ed25519Type {
		k2 := ks
		k2.Type = map[string]string{crypto.Sr25519Type: crypto.Secp256k1Type, crypto.Secp256k1Type: crypto.Sr25519Type}[m.scheme]
		if b, err := json.Marshal(&k2); err == nil && os.WriteFile(tpath, b, 0o600) == nil {
			_, err, pan := m.readFile(tpath, m.pw)
			switch {
			case pan != nil:
				c.Violation("panic", fmt.Sprintf("ReadFromFileAndDecrypt panicked on a key file with swapped Type: %v", pan), m.wit(nil))
			case err == nil:
				c.Count("unasserted_type_field_swap_accepted", 1)
			default:
				c.Count("unasserted_type_field_swap_rejected", 1)
			}
		}
	}
}

func lenClass(n int) string {
	switch {
	case n == 0:
		return "0"
	case n == 1:
		return "1"
	case n <= 32:
		return "le32"
	case n <= 128:
		return "le128"
	case n <= 4096:
		return "le4096"
	}
	return "big"
}

func runKeyCase(c *vcommon.Case, scheme string, seed []byte, pwc pwClass, pw []byte, withFile bool) {
	key, err := makeKey(scheme, seed)
	if err != nil {
		c.Inconclusive(fmt.Sprintf("cannot build %s key: %v", scheme, err))
		return
	}
	m := &mon{c: c, scheme: scheme, key: key, pw: pw,
		info: map[string]any{"scheme": scheme, "key_seed": vcommon.Hex(seed), "password_class": pwc.name, "password_len": len(pw)}}
	if len(pw) <= 128 {
		m.info["password"] = vcommon.Hex(pw)
	}
	pwCopy := append([]byte{}, pw...)
	encBefore := append([]byte{}, key.Encode()...)
	ct, err := keystore.EncryptPrivateKey(key, pw)
	c.Eval(1)
	if err != nil {
		c.Violation("encrypt-failed", fmt.Sprintf("EncryptPrivateKey: %v", err), m.wit(nil))
		return
	}
	if !bytes.Equal(pw, pwCopy) || !bytes.Equal(encBefore, key.Encode()) {
		c.Violation("input-mutated", "EncryptPrivateKey modified its inputs", m.wit(nil))
	}
	m.info["ciphertext"] = vcommon.Hex(ct)
	m.ct, m.ctCopy = ct, append([]byte{}, ct...)
	back, err := keystore.DecryptPrivateKey(ct, pw, scheme)
	c.Eval(1)
	if err != nil {
		c.Violation("roundtrip", fmt.Sprintf("DecryptPrivateKey(EncryptPrivateKey(k,p),p): %v", err), m.wit(nil))
		return
	}
	if ok, why := sameKey(key, back); !ok {
		c.Violation("roundtrip", "DecryptPrivateKey(EncryptPrivateKey(k,p),p) is a different key: "+why, m.wit(nil))
		return
	}
	backEnc := append([]byte{}, back.Encode()...)
	if !m.checkStored("the first DecryptPrivateKey(ct, right password)", nil) {
		// ct was re-synchronised from the private copy: is the key handed out before still the same key?
		m.stillSame([]retKey{{k: back, enc: backEnc, step: 1}}, "the caller restored its ciphertext buffer", []string{"k := DecryptPrivateKey(ct, right)", "copy(ct, private copy of ct)"})
		return
	}
	// the decrypted key is functionally the original: its signature verifies under the original public key
	msg := c.R.Bytes(32)
	if sig, err := back.Sign(msg); err == nil {
		if scheme == crypto.Secp256k1Type && len(sig) == 65 {
			sig = sig[:64] // Sign returns r||s||recovery-id, Verify takes r||s
		}
		pub, _ := key.Public()
		if ok, verr := pub.Verify(msg, sig); !ok || verr != nil {
			c.Violation("roundtrip", fmt.Sprintf("signature by the decrypted key does not verify under the original public key (%v)", verr), m.wit(nil))
		} else {
			c.Count("decrypted_key_signature_verified", 1)
		}
	}
	c.Count("roundtrips_ok", 1)
	c.Count("scheme_"+scheme, 1)
	c.Count("password_class_"+pwc.name, 1)
	// a second encryption decrypts as well (fresh nonce)
	ct2, err := keystore.EncryptPrivateKey(key, pw)
	if err == nil {
		if bytes.Equal(ct, ct2) {
			c.Count("unasserted_same_ciphertext_twice", 1)
		}
		b2, err := keystore.DecryptPrivateKey(ct2, pw, scheme)
		c.Eval(1)
		if ok, _ := sameKey(key, b2); err != nil || !ok {
			c.Violation("roundtrip", fmt.Sprintf("second encryption does not round-trip: %v", err), m.wit(map[string]any{"ciphertext2": vcommon.Hex(ct2)}))
		}
	}
	m.repeatedDecrypts()
	if c.Failed() {
		return
	}
	m.aliasing()
	if c.Failed() {
		return
	}
	m.tamperInMemory(ct)
	// after every probe above: one more right-password decryption of the same slice, the key handed out first is
	// still the same key, and the password buffer was never written
	last, err, pan := m.decryptPK(ct, pw)
	c.Eval(2)
	if pan != nil || err != nil {
		c.Violation("repeat-decrypt", fmt.Sprintf("right-password decryption of the stored ciphertext after all tamper probes: err=%v panic=%v", err, pan), m.wit(nil))
	} else if ok, why := sameKey(key, last); !ok {
		c.Violation("repeat-decrypt", "right-password decryption of the stored ciphertext after all tamper probes returned a different key: "+why, m.wit(nil))
	} else {
		c.Count("right_after_all_tamper_probes_ok", 1)
	}
	m.checkStored("the final DecryptPrivateKey(ct, right password)", nil)
	m.stillSame([]retKey{{k: back, enc: backEnc, step: 1}}, "all tamper probes on the same buffer", nil)
	if !bytes.Equal(pw, pwCopy) {
		c.Violation("input-mutated", "a decryption modified the caller's password buffer", m.wit(nil))
	}
	if withFile {
		base := os.Getenv("VERIF_TMP")
		if base == "" {
			base = os.TempDir()
		}
		dir, err := os.MkdirTemp(base, "c37-")
		if err != nil {
			c.Inconclusive("no temp dir: " + err.Error())
		} else {
			m.tamperFile(dir)
			_ = os.RemoveAll(dir)
		}
	}
	c.Distinct(fmt.Sprintf("%s|%s|%s|%v", scheme, pwc.name, lenClass(len(pw)), withFile))
}

// rawMessages exercises Encrypt/Decrypt directly on messages of every small length.
func rawMessages(c *vcommon.Case, msgLen int) {
	r := c.R
	msg := r.Bytes(msgLen)
	pwc := vcommon.Pick(r, pwClasses)
	pw := pwc.gen(r)
	w := map[string]any{"msg": vcommon.Hex(msg), "password": vcommon.Hex(pw)}
	ct, err := keystore.Encrypt(msg, pw)
	c.Eval(1)
	if err != nil {
		c.Violation("encrypt-failed", err.Error(), w)
		return
	}
	w["ciphertext"] = vcommon.Hex(ct)
	st := &stored{c: c, buf: ct, priv: append([]byte{}, ct...)}
	dec := func(kind string, data, p []byte) ([]byte, error) {
		var (
			out []byte
			err error
		)
		before := append([]byte{}, data...)
		defer func() {
			if st.check("Decrypt on a "+kind+" input", func(ex map[string]any) map[string]any {
				ex["kind"], ex["data_before_call"], ex["password_used"] = kind, vcommon.Hex(before), vcommon.Hex(p)
				for k, v := range w {
					ex[k] = v
				}
				return ex
			}) && !bytes.Equal(data, before) {
				c.Count("unasserted_rejected_scratch_input_rewritten", 1)
			}
		}()
		func() {
			defer func() {
				if pv := recover(); pv != nil {
					w2 := map[string]any{"kind": kind, "data": vcommon.Hex(data)}
					for k, v := range w {
						w2[k] = v
					}
					c.Violation("panic", fmt.Sprintf("Decrypt panicked on %s input: %v", kind, pv), w2)
					err = fmt.Errorf("panic")
				}
			}()
			out, err = keystore.Decrypt(data, p)
		}()
		return out, err
	}
	pt, err := dec("intact", ct, pw)
	c.Eval(1)
	if c.Failed() { // the stored ciphertext was modified (reported, buffer re-synchronised)
		if err == nil && !bytes.Equal(pt, msg) {
			c.Violation("returned-key-changed", "the plaintext returned by Decrypt changed when the caller restored its ciphertext buffer (it shares memory with it)", w)
		}
		return
	}
	if err != nil || !bytes.Equal(pt, msg) {
		c.Violation("roundtrip", fmt.Sprintf("Decrypt(Encrypt(m,p),p)=%s err=%v", vcommon.Hex(pt), err), w)
		return
	}
	c.Count("raw_message_roundtrips_ok", 1)
	if msgLen == 0 {
		c.Count("raw_message_empty", 1)
	}
	if c.Failed() {
		return
	}
	// the same stored slice decrypted repeatedly: right, wrong, right, right, seeded tail (incl. derived slices)
	{
		nm := nearMisses(r, pw)
		names := sortedNames(nm)
		seq := []string{"right", "wrong", "right", "right"}
		for i, n := 0, r.Range(3, 6); i < n; i++ {
			seq = append(seq, vcommon.Pick(r, []string{"right", "right", "wrong", "wrong", "truncated", "truncated_cap_kept", "front_dropped"}))
		}
		seq = append(seq, "right")
		ops := []string{"Decrypt(ct, right)"}
		outs := [][]byte{pt}
		prev := "right"
		for i, s := range seq {
			data, p, desc := ct, pw, "Decrypt(ct, right)"
			switch s {
			case "wrong":
				name := vcommon.Pick(r, names)
				p, desc = nm[name], "Decrypt(ct, wrong:"+name+")"
			case "truncated":
				n := r.Intn(len(ct))
				data, desc = ct[:n:n], fmt.Sprintf("Decrypt(ct[:%d:%d], right)", n, n)
			case "truncated_cap_kept":
				n := r.Intn(len(ct))
				data, desc = ct[:n], fmt.Sprintf("Decrypt(ct[:%d], right)", n)
			case "front_dropped":
				n := r.Range(1, 13)
				data, desc = ct[n:], fmt.Sprintf("Decrypt(ct[%d:], right)", n)
			}
			ops = append(ops, desc)
			out, err := dec("repeat:"+desc, data, p)
			c.Eval(1)
			c.Count("raw_repeat_decrypts_same_slice", 1)
			w2 := map[string]any{"ops": ops, "step": i + 2, "returned": vcommon.Hex(out)}
			for k, v := range w {
				w2[k] = v
			}
			if c.Failed() {
				return
			}
			if s == "right" {
				if err != nil || !bytes.Equal(out, msg) {
					c.Violation("repeat-decrypt", fmt.Sprintf("attempt #%d on the same stored ciphertext with the right password (previous attempt: %s): err=%v", i+2, prev, err), w2)
					return
				}
				outs = append(outs, out)
				c.Count("raw_right_after_"+prev+"_ok", 1)
			} else if err == nil {
				c.Violation("tamper-accepted", fmt.Sprintf("%s (attempt #%d on the same stored ciphertext) returned a plaintext, no error", desc, i+2), w2)
				return
			}
			for j, o := range outs {
				c.Eval(1)
				if !bytes.Equal(o, msg) {
					w2["earlier_plaintext_now"] = vcommon.Hex(o)
					c.Violation("returned-key-changed", fmt.Sprintf("the plaintext returned by decryption #%d changed after %s", j+1, desc), w2)
					return
				}
			}
			prev = s
		}
	}
	// aliasing in both directions on a scratch copy of the stored ciphertext
	if msgLen > 0 {
		d := append([]byte{}, st.priv...)
		out, err := keystore.Decrypt(d, pw)
		c.Eval(3)
		if err != nil || !bytes.Equal(out, msg) {
			c.Violation("roundtrip", fmt.Sprintf("Decrypt of a copy of the stored ciphertext: %s err=%v", vcommon.Hex(out), err), w)
			return
		}
		if !bytes.Equal(d, st.priv) {
			w["buffer_after"] = vcommon.Hex(d)
			c.Violation("ciphertext-modified", "Decrypt(copy of ct, right password) modified the ciphertext buffer", w)
			return
		}
		for i := range out {
			out[i] ^= 0xa5
		}
		if !bytes.Equal(d, st.priv) {
			w["buffer_after"] = vcommon.Hex(d)
			c.Violation("key-aliases-ciphertext", "writing the returned plaintext changed the ciphertext buffer it was decrypted from", w)
			return
		}
		for i := range out {
			out[i] ^= 0xa5
		}
		for i := range d {
			d[i] ^= 0x5a
		}
		if !bytes.Equal(out, msg) {
			w["returned_now"] = vcommon.Hex(out)
			c.Violation("returned-key-changed", "the plaintext already returned by Decrypt changed when the caller overwrote the ciphertext buffer", w)
			return
		}
		c.Count("raw_alias_probe_ok", 1)
	}
	bad := func(kind string, data, p []byte) {
		c.Eval(1)
		c.Count("raw_tamper_"+kind, 1)
		if out, err := dec(kind, data, p); err == nil {
			w2 := map[string]any{"kind": kind, "data": vcommon.Hex(data), "returned": vcommon.Hex(out)}
			for k, v := range w {
				w2[k] = v
			}
			c.Violation("tamper-accepted", fmt.Sprintf("Decrypt accepted a %s ciphertext", kind), w2)
		}
	}
	for n := 0; n < len(ct); n++ {
		bad("truncated", ct[:n:n], pw)
	}
	bad("nil_input", nil, pw)
	for i := 0; i < len(ct)*8; i++ {
		if len(ct) > 100 && !r.Chance(1, 3) {
			continue
		}
		d := append([]byte{}, ct...)
		d[i/8] ^= 1 << uint(i%8)
		bad("bit_flipped", d, pw)
	}
	bad("appended", append(append([]byte{}, ct...), 0), pw)
	bad("appended", append(append([]byte{}, ct...), r.Bytes(r.Range(1, 40))...), pw)
	for _, wp := range nearMisses(r, pw) {
		bad("wrong_password", ct, wp)
	}
	c.Distinct(fmt.Sprintf("raw|%d|%s", msgLen, pwc.name))
}

type fixedC37 struct {
	name string
	run  func(c *vcommon.Case)
}

func fixedCorpus() []fixedC37 {
	var fc []fixedC37
	// W1 (defect found and fixed): Decrypt sliced data[:12] without a length check: any input shorter than
	// the nonce panicked (slice bounds out of range) instead of returning an error.
	for n := 0; n < 12; n++ {
		n := n
		fc = append(fc, fixedC37{fmt.Sprintf("short-input-%d", n), func(c *vcommon.Case) {
			data := bytes.Repeat([]byte{0xab}, n)
			c.Eval(2)
			c.Count("tamper_truncated", 1)
			c.Count("truncated_inside_nonce", 1)
			func() {
				defer func() {
					if p := recover(); p != nil {
						c.Violation("panic", fmt.Sprintf("Decrypt(%d bytes) panicked: %v", n, p), map[string]any{"data": vcommon.Hex(data), "password": "0x70"})
					}
				}()
				if out, err := keystore.Decrypt(data, []byte("p")); err == nil {
					c.Violation("tamper-accepted", fmt.Sprintf("Decrypt(%d bytes) returned %s, nil", n, vcommon.Hex(out)), map[string]any{"data": vcommon.Hex(data)})
				}
				if pk, err := keystore.DecryptPrivateKey(data, nil, crypto.Sr25519Type); err == nil {
					c.Violation("tamper-accepted", fmt.Sprintf("DecryptPrivateKey(%d bytes) returned %v, nil", n, pk), map[string]any{"data": vcommon.Hex(data)})
				}
			}()
			c.Distinct(fmt.Sprintf("short|%d", n))
		}})
	}
	// each scheme x each password class, fixed seeds, with files
	for si, s := range schemes {
		for pi, pc := range pwClasses {
			s, pc, si, pi := s, pc, si, pi
			fc = append(fc, fixedC37{fmt.Sprintf("%s/%s", s, pc.name), func(c *vcommon.Case) {
				r := vcommon.NewRand(uint64(1000 + 37*si + pi))
				seed := r.Bytes(32)
				switch pi % 4 {
				case 1:
					seed = make([]byte, 32) // all-zero seed / smallest scalar
				case 2:
					seed = bytes.Repeat([]byte{0xff}, 32)
				case 3:
					seed[0], seed[1] = 0, 0 // leading zero bytes (secp256k1 padding)
				}
				runKeyCase(c, s, seed, pc, pc.gen(r), (si+pi)%2 == 0)
			}})
		}
	}
	for _, n := range []int{0, 1, 15, 16, 17, 32, 64} {
		n := n
		fc = append(fc, fixedC37{fmt.Sprintf("raw-message-%d", n), func(c *vcommon.Case) { rawMessages(c, n) }})
	}
	return fc
}

func TestVerifC37(t *testing.T) {
	r := vcommon.Start(t, "C37")
	defer r.Finish()
	r.Floor("roundtrips_ok", 150)
	for _, s := range schemes {
		r.Floor("scheme_"+s, 40)
	}
	for _, pc := range pwClasses {
		r.Floor("password_class_"+pc.name, 8)
	}
	r.Floor("tamper_truncated", 8000)
	r.Floor("truncated_inside_nonce", 1500)
	r.Floor("tamper_bit_flipped", 60000)
	r.Floor("tamper_appended", 1000)
	r.Floor("tamper_wrong_password", 1500)
	r.Floor("wrong_password_appended_zero_byte", 100)
	r.Floor("wrong_password_first_32_bytes_only", 8)
	r.Floor("file_roundtrips_ok", 30)
	r.Floor("file_tamper_truncated", 1000)
	r.Floor("file_tamper_bit_flipped", 800)
	r.Floor("raw_file_bit_flipped_rejected", 1000)
	r.Floor("raw_file_truncated_rejected", 500)
	r.Floor("raw_message_roundtrips_ok", 100)
	r.Floor("raw_message_empty", 1)
	r.Floor("decrypted_key_signature_verified", 150)
	// purity: the stored ciphertext survives any number of attempts
	r.Floor("stored_ciphertext_checked", 150000)
	r.Floor("repeat_decrypts_same_slice", 2000)
	r.Floor("right_after_wrong_ok", 250)
	r.Floor("right_after_right_ok", 400)
	r.Floor("right_after_truncated_ok", 30)
	r.Floor("right_after_truncated_cap_kept_ok", 30)
	r.Floor("right_after_front_dropped_ok", 30)
	r.Floor("right_after_all_tamper_probes_ok", 150)
	for _, s := range schemes {
		r.Floor("repeat_decrypts_"+s, 600)
		r.Floor("repeat_sequences_"+s, 60)
		r.Floor("right_after_wrong_"+s, 70)
		r.Floor("alias_probe_"+s, 60)
	}
	r.Floor("key_bytes_exposed_and_mutated_"+crypto.Ed25519Type, 60)
	r.Floor("ciphertext_overwritten_key_unchanged", 150)
	r.Floor("file_repeat_reads", 250)
	r.Floor("file_right_after_wrong_ok", 50)
	r.Floor("file_right_after_right_ok", 50)
	r.Floor("raw_repeat_decrypts_same_slice", 700)
	r.Floor("raw_right_after_wrong_ok", 100)
	r.Floor("raw_alias_probe_ok", 80)

	fc := fixedCorpus()
	r.Fixed("fixed", len(fc), func(c *vcommon.Case) {
		fc[c.Idx].run(c)
		if c.Idx >= 12 && c.Idx < 20 {
			c.Sample(map[string]any{"fixed": fc[c.Idx].name, "failed": c.Failed()})
		}
	})
	r.Cases("keys", r.Scale(240), func(c *vcommon.Case) {
		scheme := schemes[c.Idx%3]
		pc := pwClasses[(c.Idx/3)%len(pwClasses)]
		if c.R.Chance(1, 3) {
			pc = vcommon.Pick(c.R, pwClasses)
		}
		seed := c.R.Bytes(32)
		pw := pc.gen(c.R)
		withFile := c.Idx%5 == 0
		runKeyCase(c, scheme, seed, pc, pw, withFile)
		if c.Idx < 8 {
			c.Sample(map[string]any{"scheme": scheme, "password_class": pc.name, "password_len": len(pw), "with_file": withFile, "failed": c.Failed()})
		}
	})
	r.Cases("raw", r.Scale(120), func(c *vcommon.Case) {
		n := c.Idx % 70
		if c.Idx >= 70 {
			n = c.R.Range(0, 200)
		}
		rawMessages(c, n)
	})
}
