//go:build verif

package wazero_runtime

// Exports the allocator host functions and the runtime context key to the external harness package
// zz_verif/hostalloc (C28, host boundary). Nothing here changes behaviour: the variables alias the real functions.

import (
	"context"

	"github.com/tetratelabs/wazero/api"
)

// VerifHAContextKey is the key under which host functions look up *runtime.Context.
var VerifHAContextKey any = runtimeContextKey

// VerifExtMalloc is ext_allocator_malloc_version_1.
var VerifExtMalloc func(context.Context, api.Module, uint32) uint32 = ext_allocator_malloc_version_1

// VerifExtFree is ext_allocator_free_version_1.
var VerifExtFree func(context.Context, api.Module, uint32) = ext_allocator_free_version_1
