//go:build verif

// Package hostalloc is the second binary of C28: the allocator's shadow-interval + canary monitor (logic copied from
// harness/alloc/monitor.go) at the HOST BOUNDARY: ext_allocator_malloc_version_1 / ext_allocator_free_version_1 called
// with a real wazero api.Module, and FreeingBumpHeapAllocator driven directly on that module's real api.Memory
// (growth through Memory.Grow, refused at the memory maximum of the module / of the runtime configuration).
package hostalloc

import (
	"context"
	"errors"
	"fmt"
	"math/bits"
	"sort"
	"testing"

	"github.com/ChainSafe/gossamer/lib/runtime"
	"github.com/ChainSafe/gossamer/lib/runtime/allocator"
	wz "github.com/ChainSafe/gossamer/lib/runtime/wazero"
	"github.com/ChainSafe/gossamer/zz_verif/vcommon"
	"github.com/tetratelabs/wazero"
	"github.com/tetratelabs/wazero/api"
)

const (
	hdrSize  = 8
	pageSize = 65536
	maxAlloc = 32 << 20
	fullFill = 2048
	edgeFill = 256
	fourGiB  = uint64(1) << 32
)

func leb(v uint32) []byte {
	var out []byte
	for {
		b := byte(v & 0x7f)
		v >>= 7
		if v != 0 {
			out = append(out, b|0x80)
		} else {
			return append(out, b)
		}
	}
}

// memModule is (module (memory (export "memory") min [max])).
func memModule(min uint32, max int64) []byte {
	lim := []byte{0x00}
	lim = append(lim, leb(min)...)
	if max >= 0 {
		lim = append([]byte{0x01}, leb(min)...)
		lim = append(lim, leb(uint32(max))...)
	}
	sec := append([]byte{0x01}, lim...)
	out := []byte{0x00, 0x61, 0x73, 0x6d, 0x01, 0x00, 0x00, 0x00, 0x05, byte(len(sec))}
	out = append(out, sec...)
	return append(out, 0x07, 0x0a, 0x01, 0x06, 'm', 'e', 'm', 'o', 'r', 'y', 0x02, 0x00)
}

func blockSize(size uint32) uint64 {
	if size <= 8 {
		return 8
	}
	return uint64(1) << uint(bits.Len32(size-1))
}

func mix64(x uint64) uint64 {
	x += 0x9e3779b97f4a7c15
	x = (x ^ (x >> 30)) * 0xbf58476d1ce4e5b9
	x = (x ^ (x >> 27)) * 0x94d049bb133111eb
	return x ^ (x >> 31)
}

func canary(id int, off uint32) byte {
	return byte(mix64(uint64(id)<<34^uint64(off>>3)) >> (8 * (off & 7)))
}

func staticByte(i uint64) byte { return byte(0xA5 ^ (i * 7)) }

type liveAlloc struct {
	id        int
	ptr, size uint32
	blk       uint64
}

func (l *liveAlloc) start() uint64 { return uint64(l.ptr) - hdrSize }
func (l *liveAlloc) end() uint64   { return uint64(l.ptr) + l.blk }

// hostPanic is what a host function's panic is turned into.
type hostPanic struct{ v any }

func (h hostPanic) Error() string { return fmt.Sprintf("host function panicked: %v", h.v) }
func (h hostPanic) Unwrap() error {
	if e, ok := h.v.(error); ok {
		return e
	}
	return nil
}

type mon struct {
	c        *vcommon.Case
	rt       wazero.Runtime
	mod      api.Module
	a        *allocator.FreeingBumpHeapAllocator
	ctx      context.Context
	host     bool
	heapBase uint32
	staticN  uint64
	maxPages uint64

	live        []*liveAlloc
	byPtr       map[uint32]*liveAlloc
	freed       []uint32
	nextID      int
	mustPoison  bool
	maybePoison bool
	dead        bool
	ops         int
	since       int
	trace       []string
	lastSize    uint64
	growSteps   int
	hw          uint64
}

func (m *mon) mem() api.Memory { return m.mod.Memory() }

func (m *mon) logf(f string, a ...any) {
	if len(m.trace) >= 48 {
		m.trace = append(m.trace[:0], m.trace[16:]...)
	}
	m.trace = append(m.trace, fmt.Sprintf("#%d ", m.ops)+fmt.Sprintf(f, a...))
}

func (m *mon) viol(class, msg string, extra map[string]any) {
	m.dead = true
	w := map[string]any{"entry": m.entry(), "heap_base": m.heapBase, "memory_max_pages": m.maxPages, "mem_size": uint64(m.mem().Size()),
		"ops": m.ops, "live": len(m.live), "last_ops": append([]string{}, m.trace...)}
	for k, v := range extra {
		w[k] = v
	}
	m.c.Violation(class, msg, w)
}

func (m *mon) entry() string {
	if m.host {
		return "ext_allocator_malloc_version_1/ext_allocator_free_version_1"
	}
	return "FreeingBumpHeapAllocator on api.Memory"
}

// doAlloc / doFree reach the allocator through the chosen entry point. A panic of the host function (by design the
// way an allocator error traps the guest) becomes an error value.
func (m *mon) doAlloc(size uint32) (ptr uint32, err error) {
	if !m.host {
		return m.a.Allocate(m.mem(), size)
	}
	defer func() {
		if p := recover(); p != nil {
			m.c.Count("host_malloc_panicked_on_allocator_error", 1)
			ptr, err = 0, hostPanic{p}
		}
	}()
	return wz.VerifExtMalloc(m.ctx, m.mod, size), nil
}

func (m *mon) doFree(ptr uint32) (err error) {
	if !m.host {
		return m.a.Deallocate(m.mem(), ptr)
	}
	defer func() {
		if p := recover(); p != nil {
			m.c.Count("host_free_panicked_on_allocator_error", 1)
			err = hostPanic{p}
		}
	}()
	wz.VerifExtFree(m.ctx, m.mod, ptr)
	return nil
}

func isPoison(err error) bool { return errors.Is(err, allocator.ErrAllocatorPoisoned) }

func (m *mon) afterCall() {
	sz := uint64(m.mem().Size())
	if sz != m.lastSize {
		if sz < m.lastSize {
			m.viol("memory-shrunk", fmt.Sprintf("memory went from %d to %d bytes", m.lastSize, sz), nil)
			return
		}
		m.growSteps++
		m.c.Count("real_memory_grow_steps", 1)
		m.lastSize = sz
	}
	if sz > fourGiB || sz > m.maxPages*pageSize {
		m.viol("grew-past-limit", fmt.Sprintf("linear memory is %d bytes, maximum %d pages", sz, m.maxPages), nil)
	}
}

func (m *mon) ranges(l *liveAlloc) [][2]uint32 {
	if l.size <= fullFill {
		return [][2]uint32{{0, l.size}}
	}
	mid := edgeFill + uint32(mix64(uint64(l.id)*31)%uint64(l.size-2*edgeFill-16))
	return [][2]uint32{{0, edgeFill}, {mid, mid + 16}, {l.size - edgeFill, l.size}}
}

func (m *mon) fill(l *liveAlloc) bool {
	for _, rg := range m.ranges(l) {
		buf := make([]byte, rg[1]-rg[0])
		for i := range buf {
			buf[i] = canary(l.id, rg[0]+uint32(i))
		}
		if len(buf) > 0 && !m.mem().Write(l.ptr+rg[0], buf) {
			m.viol("outside-memory", fmt.Sprintf("cannot write bytes [%d,%d) of allocation ptr=%d size=%d: outside the real memory (%d bytes)", rg[0], rg[1], l.ptr, l.size, m.mem().Size()), nil)
			return false
		}
	}
	return true
}

func (m *mon) verifyOne(l *liveAlloc, when string) bool {
	m.c.Eval(1)
	for _, rg := range m.ranges(l) {
		if rg[1] == rg[0] {
			continue
		}
		buf, ok := m.mem().Read(l.ptr+rg[0], uint64(rg[1]-rg[0]))
		if !ok {
			m.viol("outside-memory", fmt.Sprintf("%s: live allocation ptr=%d size=%d is no longer inside the real memory", when, l.ptr, l.size), nil)
			return false
		}
		for i, b := range buf {
			if b != canary(l.id, rg[0]+uint32(i)) {
				m.viol("canary", fmt.Sprintf("%s: byte %d of live allocation ptr=%d size=%d changed: got 0x%02x want 0x%02x", when, rg[0]+uint32(i), l.ptr, l.size, b, canary(l.id, rg[0]+uint32(i))), nil)
				return false
			}
		}
	}
	return true
}

func (m *mon) checkAll(when string) {
	if m.dead {
		return
	}
	for _, l := range m.live {
		if !m.verifyOne(l, when) {
			return
		}
	}
	if m.staticN > 0 {
		m.c.Eval(1)
		buf, ok := m.mem().Read(0, m.staticN)
		for i := uint64(0); ok && i < m.staticN; i++ {
			if buf[i] != staticByte(i) {
				m.viol("below-heap-base-written", fmt.Sprintf("%s: byte %d below heap base %d changed", when, i, m.heapBase), nil)
				return
			}
		}
	}
	m.c.Count("host_full_canary_sweeps", 1)
}

func (m *mon) tick() {
	m.ops++
	m.since++
	if m.since >= 100 {
		m.since = 0
		m.checkAll("periodic")
	}
}

func (m *mon) pfx() string {
	if m.host {
		return "host_"
	}
	return "direct_"
}

func (m *mon) alloc(size uint32) (uint32, bool) {
	if m.dead {
		return 0, false
	}
	m.tick()
	ptr, err := m.doAlloc(size)
	m.c.Eval(1)
	m.afterCall()
	if m.dead {
		return 0, false
	}
	if m.mustPoison {
		m.logf("alloc(%d) -> %v", size, err)
		m.c.Count("host_calls_after_invalid_free", 1)
		if !isPoison(err) {
			m.viol("not-poisoned", fmt.Sprintf("malloc(%d) after a failed invalid free returned ptr=%d err=%v, want ErrAllocatorPoisoned", size, ptr, err), nil)
		}
		return 0, false
	}
	if err != nil {
		m.logf("alloc(%d) -> err %v", size, err)
		blk := blockSize(size)
		switch {
		case isPoison(err) && m.maybePoison:
			m.c.Count("host_poisoned_after_earlier_error", 1)
		case size > maxAlloc:
			m.c.Count("host_too_large_rejected", 1)
		case errors.Is(err, allocator.ErrCannotGrowLinearMemory):
			m.c.Count("real_memory_limit_reached_grow_refused", 1)
			if m.hw+hdrSize+blk <= m.maxPages*pageSize {
				// the doubling strategy asks for more pages than the maximum although the request would fit:
				// failing is allowed by the property, counted
				m.c.Count("unasserted_alloc_failed_with_room_below_memory_max", 1)
			}
		case errors.Is(err, allocator.ErrAllocatorOutOfSpace):
			m.c.Count("host_alloc_out_of_space", 1)
		default:
			m.c.Count("host_alloc_failed_other", 1)
		}
		m.maybePoison = true
		return 0, false
	}
	if size > maxAlloc {
		m.viol("too-large-accepted", fmt.Sprintf("malloc(%d) (> 32 MiB) returned ptr=%d", size, ptr), nil)
		return 0, false
	}
	blk := blockSize(size)
	l := &liveAlloc{id: m.nextID, ptr: ptr, size: size, blk: blk}
	m.nextID++
	m.logf("alloc(%d) -> %d (block %d)", size, ptr, blk)
	m.c.Eval(4)
	if ptr%8 != 0 {
		m.viol("unaligned", fmt.Sprintf("malloc(%d) returned ptr=%d, not 8-byte aligned", size, ptr), nil)
		return 0, false
	}
	if uint64(ptr) < uint64(m.heapBase)+hdrSize {
		m.viol("below-heap-base", fmt.Sprintf("malloc(%d) returned ptr=%d: its header is not above heap base %d", size, ptr, m.heapBase), nil)
		return 0, false
	}
	if l.end() > uint64(m.mem().Size()) {
		m.viol("outside-memory", fmt.Sprintf("malloc(%d) returned ptr=%d: block end %d > real memory size %d", size, ptr, l.end(), m.mem().Size()), nil)
		return 0, false
	}
	i := sort.Search(len(m.live), func(i int) bool { return m.live[i].ptr >= ptr })
	if i < len(m.live) && m.live[i].start() < l.end() {
		n := m.live[i]
		m.viol("overlap", fmt.Sprintf("malloc(%d) returned [%d,%d) overlapping live allocation ptr=%d [%d,%d)", size, l.start(), l.end(), n.ptr, n.start(), n.end()), nil)
		return 0, false
	}
	if i > 0 && m.live[i-1].end() > l.start() {
		n := m.live[i-1]
		m.viol("overlap", fmt.Sprintf("malloc(%d) returned [%d,%d) overlapping live allocation ptr=%d [%d,%d)", size, l.start(), l.end(), n.ptr, n.start(), n.end()), nil)
		return 0, false
	}
	m.live = append(m.live, nil)
	copy(m.live[i+1:], m.live[i:])
	m.live[i] = l
	m.byPtr[ptr] = l
	if l.end() > m.hw {
		m.hw = l.end()
	}
	if !m.fill(l) {
		return 0, false
	}
	m.c.Count(m.pfx()+"allocs_ok", 1)
	if m.growSteps > 0 {
		m.c.Count("allocs_ok_in_grown_memory", 1)
	}
	if m.maybePoison {
		m.c.Count("host_alloc_ok_after_earlier_error", 1)
	}
	return ptr, true
}

func (m *mon) free(ptr uint32) bool {
	l := m.byPtr[ptr]
	if m.dead || l == nil {
		return false
	}
	m.tick()
	if !m.mustPoison && !m.verifyOne(l, "before free") {
		return false
	}
	err := m.doFree(ptr)
	m.c.Eval(1)
	m.afterCall()
	if m.dead {
		return false
	}
	m.logf("free(%d) -> %v", ptr, err)
	if m.mustPoison {
		m.c.Count("host_calls_after_invalid_free", 1)
		if !isPoison(err) {
			m.viol("not-poisoned", fmt.Sprintf("free(%d) after a failed invalid free returned %v, want ErrAllocatorPoisoned", ptr, err), nil)
		}
		return false
	}
	if err != nil {
		if isPoison(err) && m.maybePoison {
			m.c.Count("host_poisoned_after_earlier_error", 1)
			return false
		}
		m.c.Count("host_valid_free_failed", 1)
		m.c.Inconclusive(fmt.Sprintf("free of live pointer %d (size %d) failed: %v", ptr, l.size, err))
		m.dead = true
		return false
	}
	i := sort.Search(len(m.live), func(i int) bool { return m.live[i].ptr >= ptr })
	m.live = append(m.live[:i], m.live[i+1:]...)
	delete(m.byPtr, ptr)
	m.freed = append(m.freed, ptr)
	m.c.Count(m.pfx()+"frees_ok", 1)
	return true
}

func (m *mon) looksOccupied(ptr uint32) bool {
	if ptr < hdrSize {
		return false
	}
	raw, ok := m.mem().ReadUint64Le(ptr - hdrSize)
	if !ok {
		return false
	}
	return raw&(1<<32) != 0 && uint32(raw) < 23
}

func (m *mon) badFree(ptr uint32, kind string) bool {
	if m.dead || m.mustPoison || m.maybePoison || m.byPtr[ptr] != nil {
		return false
	}
	if m.looksOccupied(ptr) {
		m.c.Count("host_invalid_free_skipped_header_reads_occupied", 1)
		return false
	}
	m.tick()
	err := m.doFree(ptr)
	m.c.Eval(1)
	m.afterCall()
	if m.dead {
		return false
	}
	m.logf("badfree[%s](%d) -> %v", kind, ptr, err)
	if err == nil {
		m.viol("invalid-free-accepted", fmt.Sprintf("free(%d) [%s: not a live allocation, header does not read occupied] reported no error", ptr, kind), map[string]any{"ptr": ptr, "kind": kind})
		return true
	}
	m.c.Count(m.pfx()+"invalid_free_rejected", 1)
	m.c.Count("host_invalid_free_"+kind, 1)
	m.mustPoison, m.maybePoison = true, true
	return true
}

func newMon(c *vcommon.Case, host bool, heapBase uint32, minPages uint32, maxPages uint64, limitByRuntime bool) (*mon, error) {
	ctx := context.Background()
	cfg := wazero.NewRuntimeConfigInterpreter()
	declared := int64(maxPages)
	if limitByRuntime {
		cfg = cfg.WithMemoryLimitPages(uint32(maxPages))
		declared = -1
	}
	rt := wazero.NewRuntimeWithConfig(ctx, cfg)
	mod, err := rt.Instantiate(ctx, memModule(minPages, declared))
	if err != nil {
		_ = rt.Close(ctx)
		return nil, err
	}
	m := &mon{c: c, rt: rt, mod: mod, host: host, heapBase: heapBase, maxPages: maxPages, byPtr: map[uint32]*liveAlloc{},
		a: allocator.NewFreeingBumpHeapAllocator(heapBase)}
	m.ctx = context.WithValue(ctx, wz.VerifHAContextKey, &runtime.Context{Allocator: m.a})
	m.lastSize = uint64(mod.Memory().Size())
	m.staticN = uint64(heapBase)
	if m.staticN > m.lastSize {
		m.staticN = m.lastSize
	}
	if m.staticN > 4096 {
		m.staticN = 4096
	}
	if m.staticN > 0 {
		buf := make([]byte, m.staticN)
		for i := range buf {
			buf[i] = staticByte(uint64(i))
		}
		// (only the first 4 KiB of a larger static region carry the sentinel)
		mod.Memory().Write(0, buf)
	}
	m.hw = (uint64(heapBase) + 7) &^ 7
	return m, nil
}

func (m *mon) close() { _ = m.rt.Close(context.Background()) }

func (m *mon) finish() {
	m.checkAll("end of sequence")
	if m.growSteps >= 3 {
		m.c.Count("cases_with_3plus_real_grow_steps", 1)
	}
	if uint64(m.mem().Size()) == m.maxPages*pageSize {
		m.c.Count("real_memory_at_maximum", 1)
	}
}

type caseCfg struct {
	host           bool
	heapBase       uint32
	minPages       uint32
	maxPages       uint64
	limitByRuntime bool
	policy         string
	ending         string
	nops           int
	bigShift       uint // largest request is maxBytes >> bigShift
}

func genSize(r *vcommon.Rand, maxBytes uint64, bigShift uint) uint32 {
	big := maxBytes >> bigShift
	if big > maxAlloc {
		big = maxAlloc
	}
	if big < 64 {
		big = 64
	}
	switch r.Intn(10) {
	case 0, 1:
		return uint32(r.Intn(65))
	case 2, 3, 4:
		k := uint(r.Range(3, bits.Len64(big)-1))
		return uint32(int64(1)<<k + int64(r.Range(-1, 1)))
	case 5, 6:
		return uint32(r.Range(1, int(big)))
	default:
		return uint32(r.Range(int(big/4)+1, int(big)))
	}
}

func runCase(c *vcommon.Case, cfg caseCfg) {
	r := c.R
	m, err := newMon(c, cfg.host, cfg.heapBase, cfg.minPages, cfg.maxPages, cfg.limitByRuntime)
	if err != nil {
		c.Inconclusive("cannot instantiate the memory-only module: " + err.Error())
		return
	}
	defer m.close()
	maxBytes := cfg.maxPages * pageSize
	for i := 0; i < cfg.nops && !m.dead && !m.mustPoison; i++ {
		doFree := false
		switch cfg.policy {
		case "none":
		case "bursts":
			doFree = len(m.live) > 0 && (i/16)%2 == 1
		default:
			doFree = len(m.live) > 0 && r.Chance(2, 5)
		}
		if m.maybePoison && r.Chance(1, 2) && len(m.live) > 0 {
			doFree = true
		}
		if doFree {
			var p uint32
			switch cfg.policy {
			case "lifo":
				best := m.live[0]
				for _, l := range m.live {
					if l.id > best.id {
						best = l
					}
				}
				p = best.ptr
			case "fifo":
				best := m.live[0]
				for _, l := range m.live {
					if l.id < best.id {
						best = l
					}
				}
				p = best.ptr
			default:
				p = m.live[r.Intn(len(m.live))].ptr
			}
			m.free(p)
		} else {
			m.alloc(genSize(r, maxBytes, cfg.bigShift))
		}
		if m.maybePoison && i > cfg.nops/2 {
			break
		}
	}
	switch cfg.ending {
	case "fill_to_limit":
		// keep asking for blocks until the real memory refuses to grow
		sz := uint32(maxBytes / 8)
		if sz > maxAlloc {
			sz = maxAlloc
		}
		for k := 0; k < 64 && !m.dead && !m.maybePoison; k++ {
			m.alloc(sz)
		}
		for k := 0; k < 4 && !m.dead; k++ { // after the failure: error / poison, never a pointer
			if r.Bool() || len(m.live) == 0 {
				m.alloc(uint32(r.Range(1, 4096)))
			} else {
				m.free(m.live[r.Intn(len(m.live))].ptr)
			}
		}
	case "too_large":
		m.alloc(uint32(maxAlloc + 1 + r.Intn(1<<20)))
		m.alloc(8)
	case "invalid_free":
		kinds := []string{"double_free", "inside_live_block", "below_8", "beyond_memory", "never_used", "unaligned"}
		kind := vcommon.Pick(r, kinds)
		done := false
		switch kind {
		case "double_free":
			if len(m.live) > 0 {
				p := m.live[r.Intn(len(m.live))].ptr
				if m.free(p) {
					done = m.badFree(p, kind)
				}
			}
		case "inside_live_block":
			if len(m.live) > 0 {
				l := m.live[r.Intn(len(m.live))]
				if l.size >= 16 {
					done = m.badFree(l.ptr+8*uint32(r.Range(1, int(l.size/8)-1+1)), kind)
				}
			}
		case "below_8":
			done = m.badFree(uint32(r.Intn(8)), kind)
		case "beyond_memory":
			done = m.badFree(uint32(uint64(m.mem().Size())+uint64(r.Intn(4096))*8), kind)
		case "never_used":
			if m.hw+64 < uint64(m.mem().Size()) {
				done = m.badFree(uint32((m.hw+32)&^7), kind)
			}
		case "unaligned":
			if len(m.live) > 0 {
				done = m.badFree(m.live[r.Intn(len(m.live))].ptr+uint32(r.Range(1, 7)), kind)
			}
		}
		if !done && !m.dead && !m.maybePoison {
			m.badFree(uint32(r.Intn(8)), "below_8")
		}
		for k := 0; k < 4 && !m.dead; k++ {
			if r.Bool() || len(m.live) == 0 {
				m.alloc(uint32(r.Range(0, 512)))
			} else {
				m.free(m.live[r.Intn(len(m.live))].ptr)
			}
		}
	}
	m.finish()
	c.Distinct(fmt.Sprintf("%v|hb%d|min%d|max%d|rt%v|%s|%s|g%d", cfg.host, cfg.heapBase, cfg.minPages, cfg.maxPages, cfg.limitByRuntime, cfg.policy, cfg.ending, m.growSteps))
}

var (
	heapBases = []uint32{0, 1, 7, 8, 1000, 65536, 70001}
	maxPagesL = []uint64{4, 16, 64, 256, 1024}
	policies  = []string{"none", "lifo", "fifo", "random", "bursts"}
	endings   = []string{"plain", "fill_to_limit", "fill_to_limit", "invalid_free", "invalid_free", "too_large"}
)

func TestVerifC28Host(t *testing.T) {
	r := vcommon.Start(t, "C28")
	defer r.Finish()
	r.Floor("host_allocs_ok", 8000)
	r.Floor("host_frees_ok", 2000)
	r.Floor("direct_allocs_ok", 3000)
	r.Floor("direct_frees_ok", 800)
	r.Floor("real_memory_grow_steps", 600)
	r.Floor("cases_with_3plus_real_grow_steps", 100)
	r.Floor("allocs_ok_in_grown_memory", 5000)
	r.Floor("real_memory_limit_reached_grow_refused", 60)
	r.Floor("real_memory_at_maximum", 20)
	r.Floor("host_malloc_panicked_on_allocator_error", 80)
	r.Floor("host_free_panicked_on_allocator_error", 40)
	r.Floor("host_invalid_free_rejected", 40)
	r.Floor("direct_invalid_free_rejected", 15)
	r.Floor("host_calls_after_invalid_free", 150)
	r.Floor("host_too_large_rejected", 10)
	r.Floor("host_full_canary_sweeps", 300)

	// fixed: every ending x both entries on a 16-page memory, heap base inside page 0
	r.Fixed("host-fixed", 2*len(endings)*2, func(c *vcommon.Case) {
		i := c.Idx
		cfg := caseCfg{host: i%2 == 0, heapBase: 1000, minPages: 1, maxPages: 16, limitByRuntime: (i/2/len(endings))%2 == 1,
			policy: policies[i%len(policies)], ending: endings[(i/2)%len(endings)], nops: 120, bigShift: 4}
		runCase(c, cfg)
	})
	r.Cases("host", r.Scale(360), func(c *vcommon.Case) {
		rr := c.R
		cfg := caseCfg{host: c.Idx%3 != 2, heapBase: heapBases[c.Idx%len(heapBases)], maxPages: maxPagesL[(c.Idx/3)%len(maxPagesL)],
			limitByRuntime: rr.Chance(1, 4), policy: vcommon.Pick(rr, policies), ending: vcommon.Pick(rr, endings),
			nops: rr.Range(20, 400), bigShift: uint(rr.Range(3, 8))}
		cfg.minPages = uint32(vcommon.Pick(rr, []int{0, 1, 2, 3, 17}))
		if uint64(cfg.minPages) > cfg.maxPages {
			cfg.minPages = uint32(cfg.maxPages)
		}
		if cfg.maxPages >= 1024 { // 64 MiB memories: fewer, shorter
			cfg.nops = rr.Range(20, 120)
		}
		runCase(c, cfg)
		if c.Idx < 6 {
			c.Sample(map[string]any{"host_functions": cfg.host, "heap_base": cfg.heapBase, "min_pages": cfg.minPages, "max_pages": cfg.maxPages,
				"limit_by_runtime_config": cfg.limitByRuntime, "policy": cfg.policy, "ending": cfg.ending, "failed": c.Failed()})
		}
	})
}
