//go:build verif

package digest

// C23 at the dot/digest entry point (engine `authdigest`, third binary of property C23).
//
// The ONLY production caller of GrandpaState.ApplyScheduledChanges is
// digest.Handler.handleBlockFinalisation, a goroutine fed by the finalised-block notifier of
// BlockState (GetFinalisedNotifierChannel / notifyFinalized, triggered inside SetFinalisedHash).
// The other two binaries of C23 (authset, authcore) call ApplyScheduledChanges by hand right after
// SetFinalisedHash, so that caller and the notifier were outside the monitored loop. Here
//
//	import:    BlockState.AddBlock -> BlockImportHandler.HandleDigests -> GrandpaState.ApplyForcedChanges
//	           (dot/core handleBlock order, as in authset)
//	finalise:  BlockState.SetFinalisedHash                       <- the ONLY thing the harness does
//	           ... notifyFinalized -> chan -> REAL digest.Handler goroutine (NewHandler + Start)
//	           -> EpochState.FinalizeBABENext{Epoch,Config}Data (fake) -> GrandpaState.ApplyScheduledChanges
//
// and after the handler became quiescent the public queries are compared with the AuthSet model
// (zz_verif_c23digest_model_test.go, a copy of authset's model): current set id, authorities of
// every set, NextGrandpaAuthorityChange for every known block and - only in authset's sound scope -
// GetSetIDByBlockNumber.
//
// Quiescence is never decided by a clock. The GrandpaState handed to the Handler is a pass-through
// observer (vdGrandpa) that records which header every ApplyScheduledChanges call received and
// when it returned; the harness polls that record (scheduler yields / short sleeps only pace the
// polling). When the expected number of calls does not show up, all goroutine stacks are sampled:
//
//	idle  <=>  on two consecutive samples no goroutine of BlockState.notifyFinalized is alive, the
//	           notifier channel of the handler is empty, and the handler goroutine is either gone
//	           or parked in the select of handleBlockFinalisation itself (state "select", only
//	           runtime frames above it). Nobody is left who could ever deliver the notification,
//	           so the state is final and is compared (wrong state => VIOLATION).
//	otherwise the handler is still runnable / working: keep waiting; expiry of the generous bound
//	           without the evidence above => INCONCLUSIVE.

import (
	"bytes"
	"encoding/json"
	"errors"
	"fmt"
	"os"
	"runtime"
	"strings"
	"sync"
	"testing"
	"time"

	"github.com/ChainSafe/gossamer/dot/state"
	"github.com/ChainSafe/gossamer/dot/types"
	"github.com/ChainSafe/gossamer/internal/database"
	"github.com/ChainSafe/gossamer/internal/log"
	"github.com/ChainSafe/gossamer/lib/common"
	"github.com/ChainSafe/gossamer/pkg/scale"
	"github.com/ChainSafe/gossamer/pkg/trie"
	"github.com/ChainSafe/gossamer/zz_verif/vcommon"
)

// ---------------------------------------------------------------- fakes / observers

type vdTelemetry struct{}

func (vdTelemetry) SendMessage(json.Marshaler) {}

// vdEpoch: C23 does not talk about BABE. The handler calls FinalizeBABENextEpochData and
// FinalizeBABENextConfigData before ApplyScheduledChanges and only logs their errors; with
// failMode != 0 the fake returns errors (hostile neighbour), the GRANDPA change must still be applied.
type vdEpoch struct {
	failMode int // 0 never, 1 epoch data fails, 2 both fail
	mu       sync.Mutex
	calls    int
}

var errVdEpoch = errors.New("verif: fake epoch state fails")

func (e *vdEpoch) GetEpochForBlock(*types.Header) (uint64, error) { return 0, nil }
func (e *vdEpoch) HandleBABEDigest(*types.Header, types.BabeConsensusDigest) error {
	return nil
}
func (e *vdEpoch) FinalizeBABENextEpochData(*types.Header) error {
	e.mu.Lock()
	e.calls++
	e.mu.Unlock()
	if e.failMode >= 1 {
		return errVdEpoch
	}
	return nil
}
func (e *vdEpoch) FinalizeBABENextConfigData(*types.Header) error {
	if e.failMode >= 2 {
		return errVdEpoch
	}
	return nil
}

type vdCall struct {
	hash   common.Hash
	number uint
	err    error
	done   bool
}

// vdGrandpa is the GrandpaState given to the real digest.Handler: a pass-through to the real
// state.GrandpaState that records every ApplyScheduledChanges call (header, returned error, completion).
type vdGrandpa struct {
	gs    *state.GrandpaState
	mu    sync.Mutex
	calls []vdCall
	done  int
}

func (w *vdGrandpa) HandleGRANDPADigest(h *types.Header, d types.GrandpaConsensusDigest) error {
	return w.gs.HandleGRANDPADigest(h, d)
}

func (w *vdGrandpa) ApplyScheduledChanges(h *types.Header) error {
	w.mu.Lock()
	idx := len(w.calls)
	w.calls = append(w.calls, vdCall{hash: h.Hash(), number: h.Number})
	w.mu.Unlock()
	err := w.gs.ApplyScheduledChanges(h)
	w.mu.Lock()
	w.calls[idx].err = err
	w.calls[idx].done = true
	w.done++
	w.mu.Unlock()
	return err
}

func (w *vdGrandpa) completed() int {
	w.mu.Lock()
	defer w.mu.Unlock()
	return w.done
}

func (w *vdGrandpa) snapshot() []vdCall {
	w.mu.Lock()
	defer w.mu.Unlock()
	return append([]vdCall(nil), w.calls...)
}

// ---------------------------------------------------------------- scenario

type vdOp struct {
	Kind string `json:"op"` // "import" | "finalise" | "burst"
	Node int    `json:"node,omitempty"`
	// burst: SetFinalisedHash for every node (each a descendant of the previous) back to back,
	// without waiting for the handler in between
	Nodes []int `json:"nodes,omitempty"`
}

type vdScenario struct {
	Name      string  `json:"name,omitempty"`
	Nodes     []vNode `json:"nodes"` // Nodes[0] is genesis
	Ops       []vdOp  `json:"ops"`
	EpochFail int     `json:"epoch_fail,omitempty"`
	// OneP: bursts run with GOMAXPROCS(1) (hostile scheduling: the notifier goroutines of a burst
	// queue up behind the harness goroutine instead of being picked up by idle Ps immediately)
	OneP bool `json:"one_p,omitempty"`
}

func (s *vdScenario) String() string {
	var sb strings.Builder
	for i, n := range s.Nodes {
		if i == 0 {
			continue
		}
		fmt.Fprintf(&sb, "%d<-%d", n.Parent, i)
		if n.Sched != nil {
			fmt.Fprintf(&sb, "S%d", n.Sched.Delay)
		}
		if n.Forced != nil {
			fmt.Fprintf(&sb, "F%dm%d", n.Forced.Delay, n.Forced.Median)
			if n.ForcedFirst {
				sb.WriteByte('f')
			}
		}
		sb.WriteByte(' ')
	}
	sb.WriteByte('|')
	for _, o := range s.Ops {
		switch o.Kind {
		case "import":
			fmt.Fprintf(&sb, "i%d ", o.Node)
		case "finalise":
			fmt.Fprintf(&sb, "f%d ", o.Node)
		default:
			sb.WriteString("b")
			for j, n := range o.Nodes {
				if j > 0 {
					sb.WriteByte('+')
				}
				fmt.Fprintf(&sb, "%d", n)
			}
			sb.WriteByte(' ')
		}
	}
	if s.EpochFail != 0 {
		fmt.Fprintf(&sb, "|ef%d", s.EpochFail)
	}
	if s.OneP {
		sb.WriteString("|1p")
	}
	return sb.String()
}

// vdAuthsRaw is authority list number id: 1..3 voters, key bytes (id, i, 0xA5..), weight i+1.
func vdAuthsRaw(id int) []types.GrandpaAuthoritiesRaw {
	n := 1 + id%3
	out := make([]types.GrandpaAuthoritiesRaw, n)
	for i := range out {
		for j := range out[i].Key {
			out[i].Key[j] = 0xA5
		}
		out[i].Key[0] = byte(id)
		out[i].Key[1] = byte(i)
		out[i].ID = uint64(i + 1)
	}
	return out
}

func vdGrandpaDigest(val any) (types.ConsensusDigest, error) {
	d := types.NewGrandpaConsensusDigest()
	if err := d.SetValue(val); err != nil {
		return types.ConsensusDigest{}, err
	}
	enc, err := scale.Marshal(d)
	if err != nil {
		return types.ConsensusDigest{}, err
	}
	return types.ConsensusDigest{ConsensusEngineID: types.GrandpaEngineID, Data: enc}, nil
}

func vdBuildHeaders(sc *vdScenario, genesis *types.Header) ([]*types.Header, error) {
	hs := make([]*types.Header, len(sc.Nodes))
	hs[0] = genesis
	for i := 1; i < len(sc.Nodes); i++ {
		n := sc.Nodes[i]
		if n.Parent < 0 || n.Parent >= i {
			return nil, fmt.Errorf("node %d: parent %d not earlier", i, n.Parent)
		}
		if n.Number != sc.Nodes[n.Parent].Number+1 {
			return nil, fmt.Errorf("node %d: number %d, parent number %d", i, n.Number, sc.Nodes[n.Parent].Number)
		}
		dg := types.NewDigest()
		pre, err := types.NewBabeSecondaryPlainPreDigest(0, uint64(1000+i)).ToPreRuntimeDigest()
		if err != nil {
			return nil, err
		}
		if err := dg.Add(*pre); err != nil {
			return nil, err
		}
		var items []types.ConsensusDigest
		if n.Sched != nil {
			d, err := vdGrandpaDigest(types.GrandpaScheduledChange{Auths: vdAuthsRaw(n.Sched.Auths), Delay: n.Sched.Delay})
			if err != nil {
				return nil, err
			}
			items = append(items, d)
		}
		if n.Forced != nil {
			d, err := vdGrandpaDigest(types.GrandpaForcedChange{BestFinalizedBlock: n.Forced.Median,
				Auths: vdAuthsRaw(n.Forced.Auths), Delay: n.Forced.Delay})
			if err != nil {
				return nil, err
			}
			if n.ForcedFirst {
				items = append([]types.ConsensusDigest{d}, items...)
			} else {
				items = append(items, d)
			}
		}
		switch n.Noise { // GRANDPA digests that must not touch the authority set bookkeeping
		case 1:
			d, err := vdGrandpaDigest(types.GrandpaPause{Delay: 2})
			if err != nil {
				return nil, err
			}
			items = append([]types.ConsensusDigest{d}, items...)
		case 2:
			d, err := vdGrandpaDigest(types.GrandpaResume{Delay: 1})
			if err != nil {
				return nil, err
			}
			items = append(items, d)
		case 3:
			d, err := vdGrandpaDigest(types.GrandpaOnDisabled{ID: 1})
			if err != nil {
				return nil, err
			}
			items = append(items, d)
		}
		for _, it := range items {
			if err := dg.Add(it); err != nil {
				return nil, err
			}
		}
		hs[i] = &types.Header{ParentHash: hs[n.Parent].Hash(), Number: n.Number, StateRoot: trie.EmptyHash, Digest: dg}
	}
	return hs, nil
}

// ---------------------------------------------------------------- goroutine-state evidence

const (
	vdHandlerFn = "github.com/ChainSafe/gossamer/dot/digest.(*Handler).handleBlockFinalisation"
	vdSenderFn  = "github.com/ChainSafe/gossamer/dot/state.(*BlockState).notifyFinalized"

	vdYieldPolls = 200                    // first polls: runtime.Gosched only
	vdPollGap    = 250 * time.Microsecond // afterwards: short sleeps (pace the polling, never decide)
	vdGracePolls = 120                    // sleeping polls before the first stack sample (~30 ms)
	vdSampleStep = 400                    // sleeping polls between later stack samples (~100 ms)
	vdMaxPolls   = 160000                 // ~40 s of sleeping polls; expiry without idle evidence => inconclusive
)

type vdSample struct {
	handlers     int    // goroutines with a frame of handleBlockFinalisation
	parked       int    // ... of which parked in the select of handleBlockFinalisation itself
	senders      int    // goroutines of BlockState.notifyFinalized still alive
	chanLen      int    // notifications buffered in the handler's channel
	handlerState string // scheduler state(s) of the handler goroutine(s)
	handlerStack string
}

// idle: nobody is left who could still deliver a finalisation notification to GrandpaState.
func (s vdSample) idle() bool {
	return s.senders == 0 && s.chanLen == 0 && s.handlers <= 1 && s.parked == s.handlers
}

func vdSampleStacks(h *Handler) vdSample {
	buf := make([]byte, 1<<18)
	for {
		n := runtime.Stack(buf, true)
		if n < len(buf) {
			buf = buf[:n]
			break
		}
		buf = make([]byte, 2*len(buf))
	}
	var s vdSample
	for _, blk := range strings.Split(string(buf), "\n\n") {
		if !strings.HasPrefix(blk, "goroutine ") {
			continue
		}
		lines := strings.Split(blk, "\n")
		st := lines[0]
		if i := strings.IndexByte(st, '['); i >= 0 {
			st = st[i+1:]
		}
		if i := strings.IndexAny(st, ",]"); i >= 0 {
			st = st[:i]
		}
		// own frames: function line followed by a "\tfile:line" line; "created by" ends them
		var frames []string
		for i := 1; i+1 < len(lines); i += 2 {
			if strings.HasPrefix(lines[i], "created by ") {
				break
			}
			frames = append(frames, lines[i])
		}
		isHandler, isSender, onlyRuntimeAbove := false, false, true
		for _, fn := range frames {
			if strings.HasPrefix(fn, vdHandlerFn+"(") {
				isHandler = true
				break
			}
			if strings.HasPrefix(fn, vdSenderFn) {
				isSender = true
				break
			}
			if !strings.HasPrefix(fn, "runtime.") {
				onlyRuntimeAbove = false
			}
		}
		switch {
		case isHandler:
			s.handlers++
			s.handlerState += st + ";"
			s.handlerStack += blk + "\n"
			if st == "select" && onlyRuntimeAbove {
				s.parked++
			}
		case isSender:
			s.senders++
		}
	}
	if h != nil {
		s.chanLen = len(h.finalised)
	}
	return s
}

// ---------------------------------------------------------------- environment (real gossamer objects)

type vdEnv struct {
	db      database.Database
	bs      *state.BlockState
	gs      *state.GrandpaState
	obs     *vdGrandpa
	ep      *vdEpoch
	imp     *BlockImportHandler
	h       *Handler
	headers []*types.Header
}

func vdNewEnv(sc *vdScenario) (*vdEnv, error) {
	dir, err := os.MkdirTemp(os.Getenv("VERIF_TMP"), "c23digest")
	if err != nil {
		return nil, err
	}
	defer os.RemoveAll(dir)
	db, err := database.LoadDatabase(dir, true)
	if err != nil {
		return nil, err
	}
	genesis := &types.Header{Number: 0, StateRoot: trie.EmptyHash, Digest: types.NewDigest()}
	bs, err := state.NewBlockStateFromGenesis(db, state.NewTries(), genesis, vdTelemetry{})
	if err != nil {
		_ = db.Close()
		return nil, err
	}
	voters, err := types.NewGrandpaVotersFromAuthoritiesRaw(vdAuthsRaw(0))
	if err != nil {
		_ = db.Close()
		return nil, err
	}
	gs, err := state.NewGrandpaStateFromGenesis(db, bs, voters, vdTelemetry{})
	if err != nil {
		_ = db.Close()
		return nil, err
	}
	hs, err := vdBuildHeaders(sc, genesis)
	if err != nil {
		_ = db.Close()
		return nil, err
	}
	obs := &vdGrandpa{gs: gs}
	ep := &vdEpoch{failMode: sc.EpochFail}
	h, err := NewHandler(bs, ep, obs)
	if err != nil {
		_ = db.Close()
		return nil, err
	}
	if err := h.Start(); err != nil {
		_ = db.Close()
		return nil, err
	}
	return &vdEnv{db: db, bs: bs, gs: gs, obs: obs, ep: ep, imp: NewBlockImportHandler(nil, gs), h: h, headers: hs}, nil
}

// close stops the handler and waits (goroutine evidence, not a clock) until its goroutine is gone, so
// that the next case's idle decision never sees a handler of an earlier case.
func (e *vdEnv) close(c *vcommon.Case) {
	_ = e.h.Stop()
	gone := false
	for i := 0; i < 4000 && !gone; i++ {
		if s := vdSampleStacks(nil); s.handlers == 0 && s.senders == 0 {
			gone = true
			break
		}
		if i < 50 {
			runtime.Gosched()
		} else {
			time.Sleep(vdPollGap)
		}
	}
	if !gone {
		c.Count("digest_handler_goroutine_still_alive_after_stop", 1)
	}
	_ = e.db.Close()
}

// ---------------------------------------------------------------- the monitor

type vdRun struct {
	c        *vcommon.Case
	sc       *vdScenario
	t        *vTree
	e        *vdEnv
	m        *authSet
	imported []bool
	dead     []bool // import refused (the block does not exist for Substrate)
	deadDep  []bool // see authset NOTES: refused for a forced dependency and announcing nothing itself
	gFinal   int
	maxNum   uint
	step     int
	round    uint64
	expected int // ApplyScheduledChanges calls the handler owes so far (one per notified finalisation)
	trace    []string
	applied  int
	byHand   int // changes the HANDLER enacted (scheduled)
	stop     bool
	lastWait string
}

func (r *vdRun) witness(extra map[string]any) map[string]any {
	var calls []string
	for _, cl := range r.e.obs.snapshot() {
		s := fmt.Sprintf("ApplyScheduledChanges(#%d %s) done=%v", cl.number, cl.hash.Short(), cl.done)
		if cl.err != nil {
			s += " err=" + cl.err.Error()
		}
		calls = append(calls, s)
	}
	w := map[string]any{"scenario": r.sc, "scenario_short": r.sc.String(), "step": r.step, "trace": r.trace,
		"handler_calls": calls, "handler_calls_owed": r.expected, "last_wait": r.lastWait,
		"model_roots": renderRoots(r.m.roots), "model_forced": renderForced(r.m.forced), "model_set_id": r.m.setID}
	for k, v := range extra {
		w[k] = v
	}
	return w
}

func (r *vdRun) violation(class, msg string, extra map[string]any) {
	r.c.Violation(class, msg, r.witness(extra))
	r.stop = true
}

func (r *vdRun) live(b int) bool { return b >= 0 && r.imported[b] && !r.dead[b] }

// expectedNext: gossamer's documented query NextGrandpaAuthorityChange(best) evaluated
// on the MODEL's bookkeeping (same definition as in the authset engine).
func (r *vdRun) expectedNext(b int) (uint, bool) {
	num := r.t.nodes[b].Number
	var next uint
	for _, root := range r.m.roots {
		if r.t.ancOrEq(root.ch.canon, b) && root.ch.eff() <= num {
			next = root.ch.eff()
			break
		}
	}
	for _, fc := range r.m.forced {
		if r.t.ancOrEq(fc.canon, b) && fc.eff() <= num {
			if fc.eff() < next || next == 0 {
				next = fc.eff()
			}
			break
		}
	}
	return next, next != 0
}

func vdRenderOpt(c *mChange) string {
	if c == nil {
		return "none"
	}
	return renderChange(c)
}

func vdVotersEqual(got []types.GrandpaVoter, id int) bool {
	want := vdAuthsRaw(id)
	if len(got) != len(want) {
		return false
	}
	for i := range got {
		if !bytes.Equal(got[i].Key.Encode(), want[i].Key[:]) || got[i].ID != want[i].ID {
			return false
		}
	}
	return true
}

// compare checks the public observables of the property against the model (authcore's comparisons).
// It is only called while the handler is quiescent.
func (r *vdRun) compare(where string) {
	c := r.c
	gs := r.e.gs
	c.Eval(1)
	cur, err := gs.GetCurrentSetID()
	if err != nil || cur != r.m.setID {
		r.violation("set_id", fmt.Sprintf("%s: GetCurrentSetID=%d err=%v, model %d", where, cur, err, r.m.setID), nil)
		return
	}
	for id := uint64(0); id <= r.m.setID; id++ {
		c.Eval(1)
		got, err := gs.GetAuthorities(id)
		if err != nil || !vdVotersEqual(got, r.m.auths[id]) {
			r.violation("authorities", fmt.Sprintf("%s: GetAuthorities(%d)=%v err=%v, model list a%d", where, id, got, err, r.m.auths[id]), nil)
			return
		}
	}
	if _, err := gs.GetAuthorities(r.m.setID + 1); err == nil {
		r.violation("extra_set", fmt.Sprintf("%s: authorities stored for set %d although the current set is %d", where, r.m.setID+1, r.m.setID), nil)
		return
	}
	for b := range r.t.nodes {
		if !(r.live(b) || r.deadDep[b]) || !r.t.ancOrEq(r.gFinal, b) {
			continue
		}
		c.Eval(1)
		want, has := r.expectedNext(b)
		got, err := gs.NextGrandpaAuthorityChange(r.e.headers[b].Hash(), r.t.nodes[b].Number)
		switch {
		case err != nil && !errors.Is(err, state.ErrNoNextAuthorityChange):
			r.violation("next_change_error", fmt.Sprintf("%s: NextGrandpaAuthorityChange(best=%d): %v", where, b, err), nil)
			return
		case has != (err == nil) || (has && got != want):
			r.violation("next_change", fmt.Sprintf("%s: NextGrandpaAuthorityChange(best=%d)=%d err=%v, model %d (has=%v)", where, b, got, err, want, has), nil)
			return
		}
		if has {
			c.Count("digest_next_change_reported", 1)
		}
	}
	for n := uint(0); n <= r.maxNum+2; n++ {
		got, err := gs.GetSetIDByBlockNumber(n)
		want := r.m.setIDOf(n)
		if r.m.exact {
			c.Eval(1)
			c.Count("digest_mapping_compared_exact", 1)
			if err != nil || got != want {
				r.violation("set_id_by_number", fmt.Sprintf("%s: GetSetIDByBlockNumber(%d)=%d err=%v, model %d (changes %v)", where, n, got, err, want, r.m.changes), nil)
				return
			}
		} else if err != nil || got != want {
			// out of the sound scope (DESIGN §4 C23): finalisation jumped past an effective block, or a forced change
			c.Count("digest_class_mapping_differs_after_jump_or_forced", 1)
		} else {
			c.Count("digest_class_mapping_agrees_after_jump_or_forced", 1)
		}
	}
}

func (r *vdRun) doImport(b int) {
	c := r.c
	n := r.t.nodes[b]
	if r.imported[b] || !r.live(n.Parent) || !r.t.ancOrEq(r.gFinal, n.Parent) {
		c.Count("digest_ops_skipped_not_importable", 1)
		return
	}
	hdr := r.e.headers[b]
	if err := r.e.bs.AddBlock(&types.Block{Header: *hdr, Body: *types.NewBody([]types.Extrinsic{})}); err != nil {
		c.Inconclusive(fmt.Sprintf("AddBlock(%d): %v", b, err))
		r.stop = true
		return
	}
	r.imported[b] = true
	if n.Number > r.maxNum {
		r.maxNum = n.Number
	}
	r.trace = append(r.trace, fmt.Sprintf("import %d (#%d)", b, n.Number))
	mApplied, mErr := r.m.importBlock(b)
	gErr := r.e.imp.HandleDigests(hdr)
	stage := "HandleDigests"
	if gErr == nil {
		stage = "ApplyForcedChanges"
		gErr = r.e.gs.ApplyForcedChanges(hdr)
	}
	c.Eval(1)
	c.Count("digest_blocks_imported", 1)
	switch {
	case mErr != nil && gErr == nil:
		r.violation("import_accepted", fmt.Sprintf("import %d: model rejects (%v), gossamer accepted", b, mErr), nil)
		return
	case mErr == nil && gErr != nil:
		r.violation("import_rejected", fmt.Sprintf("import %d: gossamer %s failed: %v; model accepts", b, stage, gErr), nil)
		return
	case mErr != nil:
		// the sentinels are unexported in dot/state: errAlreadyHasForcedChange / errPendingScheduledChanges
		ok := (errors.Is(mErr, errMMultiple) && strings.Contains(gErr.Error(), "already has a forced change")) ||
			(errors.Is(mErr, errMDependency) && strings.Contains(gErr.Error(), "pending scheduled changes needs to be applied"))
		if !ok {
			r.violation("import_error_kind", fmt.Sprintf("import %d: model %v, gossamer %v", b, mErr, gErr), nil)
			return
		}
		if errors.Is(mErr, errMDependency) {
			r.deadDep[b] = n.Forced == nil && n.Sched == nil
		}
		c.Count("digest_import_refused_by_both", 1)
		r.dead[b] = true
		r.trace = append(r.trace, fmt.Sprintf("  refused by both: %v", mErr))
	}
	if mApplied != nil {
		r.applied++
		c.Count("digest_forced_applied_on_import", 1)
		r.trace = append(r.trace, fmt.Sprintf("  model: forced change %s applied -> set %d", renderChange(mApplied), r.m.setID))
	}
	r.compare(fmt.Sprintf("after import %d", b))
}

// await waits until the handler completed `want` ApplyScheduledChanges calls in total, or is idle for
// good (see the file comment). ok: all calls seen; idle: decided from goroutine states that no further
// call can ever come; neither: the generous bound expired while the handler was still runnable/working.
func (r *vdRun) await(want int) (ok, idle bool) {
	var prevIdle bool
	sleeping := 0
	for i := 0; ; i++ {
		if r.e.obs.completed() >= want {
			r.lastWait = fmt.Sprintf("%d calls completed after %d polls", want, i)
			return true, false
		}
		if i < vdYieldPolls {
			runtime.Gosched()
			continue
		}
		time.Sleep(vdPollGap)
		sleeping++
		if sleeping >= vdMaxPolls {
			s := vdSampleStacks(r.e.h)
			r.lastWait = fmt.Sprintf("bound expired: %d/%d calls, handler state %q senders=%d chan=%d stack=%s", r.e.obs.completed(), want,
				s.handlerState, s.senders, s.chanLen, s.handlerStack)
			return false, false
		}
		if sleeping == vdGracePolls || (sleeping > vdGracePolls && (sleeping-vdGracePolls)%vdSampleStep == 0) {
			// two consecutive samples, a few scheduler yields and a short pause apart
			for k := 0; k < 2; k++ {
				s := vdSampleStacks(r.e.h)
				if r.e.obs.completed() >= want {
					break
				}
				if s.idle() && prevIdle {
					r.lastWait = fmt.Sprintf("handler idle for good with %d/%d calls: handlers=%d state %q senders=%d chan=%d", r.e.obs.completed(), want,
						s.handlers, s.handlerState, s.senders, s.chanLen)
					return false, true
				}
				prevIdle = s.idle()
				for y := 0; y < 32; y++ {
					runtime.Gosched()
				}
				time.Sleep(4 * vdPollGap)
			}
			prevIdle = false
		}
	}
}

// modelFinalise applies one finalisation to model m the way the sequential engines do: Substrate's
// apply_standard_changes plus the forced-change classes of authset/authcore (gossamer's documented
// pruneChanges convention for forced changes announced at or below the finalised block).
func (r *vdRun) modelFinalise(m *authSet, f int, count bool) (*mChange, error) {
	c := r.c
	number := r.t.nodes[f].Number
	forcedBefore := append([]*mChange(nil), m.forced...)
	mApplied, _, mErr := m.applyStandard(f, number)
	if mErr != nil {
		return nil, mErr
	}
	var keep []*mChange
	for _, fc := range forcedBefore {
		switch {
		case r.t.isDescendentOf(f, fc.canon):
			keep = append(keep, fc)
		case fc.canon == f:
			keep = append(keep, fc)
			if count {
				c.Count("digest_class_forced_announced_by_finalised_block_kept_gossamer_convention", 1)
			}
		case r.t.isDescendentOf(fc.canon, f):
			if count {
				c.Count("digest_class_forced_below_finalised_block_dropped_gossamer_convention", 1)
			}
		default:
			if count {
				c.Count("digest_forced_on_abandoned_fork_discarded", 1)
			}
		}
	}
	m.forced = keep
	return mApplied, nil
}

// doFinalise finalises fs[0], fs[1], ... (each a descendant of the previous one) by calling
// BlockState.SetFinalisedHash back to back - nothing else - and lets the real handler goroutine apply
// the scheduled changes. len(fs) > 1 is a "rapid succession": the later SetFinalisedHash calls happen
// before the harness gave the handler any chance to run.
func (r *vdRun) doFinalise(fs []int) {
	c := r.c
	prev := r.gFinal
	for _, f := range fs {
		if !r.live(f) || !r.t.isDescendentOf(prev, f) {
			c.Count("digest_ops_skipped_not_finalisable", 1)
			return
		}
		prev = f
	}
	burst := len(fs) > 1
	callsBefore := r.expected
	setBefore := r.m.setID

	// classification of what these finalisations meet (coverage of the corner cases the property names)
	for _, root := range r.m.roots {
		last := fs[len(fs)-1]
		if !r.t.ancOrEq(root.ch.canon, last) && !r.t.isDescendentOf(last, root.ch.canon) {
			c.Count("digest_scheduled_on_abandoned_fork_discarded", 1)
		}
	}

	oldProcs := 0
	if burst && r.sc.OneP {
		oldProcs = runtime.GOMAXPROCS(1)
	}
	for _, f := range fs {
		hdr := r.e.headers[f]
		r.round++
		if err := r.e.bs.SetFinalisedHash(hdr.Hash(), r.round, r.m.setID); err != nil {
			if oldProcs > 0 {
				runtime.GOMAXPROCS(oldProcs)
			}
			c.Inconclusive(fmt.Sprintf("SetFinalisedHash(%d): %v", f, err))
			r.stop = true
			return
		}
		r.expected++
		number := r.t.nodes[f].Number
		if number-r.t.nodes[r.gFinal].Number > 1 {
			c.Count("digest_finalisations_skipping_blocks", 1)
		}
		r.gFinal = f
		r.trace = append(r.trace, fmt.Sprintf("SetFinalisedHash %d (#%d) round %d", f, number, r.round))
		c.Count("digest_blocks_finalised", 1)
	}
	ok, idle := r.await(r.expected)
	if oldProcs > 0 {
		runtime.GOMAXPROCS(oldProcs)
	}
	if !ok && !idle {
		c.Inconclusive("handler did not become quiescent within the bound and is not provably idle: " + r.lastWait)
		r.stop = true
		return
	}
	if burst {
		c.Count("digest_rapid_successions", 1)
	}
	if r.sc.EpochFail != 0 {
		c.Count("digest_finalisations_with_failing_babe_epoch_state", len(fs))
	}
	calls := r.e.obs.snapshot()
	if len(calls) > callsBefore {
		calls = calls[callsBefore:]
	} else {
		calls = nil
	}
	if !ok {
		c.Count("digest_handler_idle_without_owed_call", 1)
		r.trace = append(r.trace, "  "+r.lastWait)
	}

	// delivery order: which headers did the handler pass to ApplyScheduledChanges, in which order
	inOrder := len(calls) == len(fs)
	perm := len(calls) == len(fs)
	if perm {
		seen := map[common.Hash]int{}
		for _, f := range fs {
			seen[r.e.headers[f].Hash()]++
		}
		for i, cl := range calls {
			if cl.hash != r.e.headers[fs[i]].Hash() {
				inOrder = false
			}
			seen[cl.hash]--
		}
		for _, v := range seen {
			if v != 0 {
				perm = false
			}
		}
	}
	for _, cl := range calls {
		r.trace = append(r.trace, fmt.Sprintf("  handler: ApplyScheduledChanges(#%d) err=%v", cl.number, cl.err))
	}

	if perm && !inOrder {
		r.reordered(fs, calls, setBefore)
		return
	}
	if !perm {
		// fewer / other headers than finalised: the expectation stays the sequential one, the state decides
		c.Count("digest_handler_calls_differ_from_finalised_headers", 1)
	} else {
		c.Count("digest_handler_calls_in_finalisation_order", len(fs))
	}

	// expected: the finalisations applied one after the other (Substrate applies them synchronously)
	for i, f := range fs {
		number := r.t.nodes[f].Number
		for _, root := range r.m.roots {
			if r.t.ancOrEq(root.ch.canon, f) && root.ch.eff() > number {
				c.Count("digest_finalised_between_announcement_and_effective_block", 1)
			}
		}
		setNow := r.m.setID
		mApplied, mErr := r.modelFinalise(r.m, f, true)
		c.Eval(1)
		var gErr error
		if perm {
			gErr = calls[i].err
		}
		if mErr != nil {
			// Substrate refuses the finalisation altogether (changes must be finalised in order); the
			// authority set must stay untouched. The histories diverge by construction: end of case.
			c.Count("digest_unfinalized_ancestor_refused", 1)
			r.stop = true
			if perm && (gErr == nil || !strings.Contains(gErr.Error(), "unfinalized ancestor")) {
				r.violation("unfinalized_ancestor", fmt.Sprintf("finalise %d skips a change that must be finalised first (model: %v); ApplyScheduledChanges returned %v",
					f, mErr, gErr), nil)
				return
			}
			if i == len(fs)-1 {
				if cur, _ := r.e.gs.GetCurrentSetID(); cur != setNow {
					r.violation("unfinalized_ancestor", fmt.Sprintf("finalise %d skips a change that must be finalised first (model: %v); set id %d (was %d)",
						f, mErr, cur, setNow), nil)
				}
			}
			return
		}
		if perm && gErr != nil {
			r.violation("finalise_error", fmt.Sprintf("finalise %d: ApplyScheduledChanges (called by the handler): %v; model: applied=%v", f, gErr, vdRenderOpt(mApplied)), nil)
			return
		}
		if mApplied != nil {
			r.applied++
			r.byHand++
			c.Count("digest_scheduled_applied_by_handler", 1)
			if mApplied.eff() == number {
				c.Count("digest_applied_at_effective_block", 1)
			} else {
				c.Count("digest_applied_past_effective_block", 1)
			}
			c.Count(fmt.Sprintf("digest_applied_delay_%d", mApplied.delay), 1)
			if burst {
				c.Count("digest_applied_within_rapid_succession", 1)
			}
			if r.sc.EpochFail != 0 {
				c.Count("digest_applied_although_babe_epoch_state_failed", 1)
			}
			r.trace = append(r.trace, fmt.Sprintf("  model: scheduled change %s applied -> set %d", renderChange(mApplied), r.m.setID))
		}
	}
	if burst && r.m.setID-setBefore >= 2 {
		c.Count("digest_two_changes_within_one_rapid_succession", 1)
	}
	where := fmt.Sprintf("after finalise %v", fs)
	if !ok {
		where += " (the handler goroutine is idle for good WITHOUT having made the owed ApplyScheduledChanges call: " + r.lastWait + ")"
	}
	r.compare(where)
}

// reordered: the notifications of a rapid succession reached the handler in another order than the
// finalisations happened. Substrate has no such history (it applies the changes synchronously inside
// the finalisation), and the property text fixes outcomes, not the delivery order. So only the outcome
// is judged: both finalisations are done and the handler is quiescent, hence every scheduled change
// whose effective block was finalised must be in effect - the state must equal the SEQUENTIAL result.
// An out-of-order delivery with the same outcome is only counted; one that leaves a change unapplied
// (the later notification is refused with "unfinalized ancestor", the earlier one then enacts only the
// first change) is a violation of "a scheduled change takes effect when its effective block ... is
// finalised" (class change_not_applied_out_of_order_delivery; defect fixed by `fix: finalisation
// notifications reach the subscribers in finalisation order`, see NOTES.md).
func (r *vdRun) reordered(fs []int, calls []vdCall, setBefore uint64) {
	c := r.c
	c.Count("digest_class_rapid_succession_delivered_out_of_order", 1)
	seq := r.m.snapshot()
	for _, f := range fs {
		if _, mErr := r.modelFinalise(seq, f, false); mErr != nil {
			c.Count("digest_class_reordered_and_unfinalized_ancestor", 1)
			r.stop = true
			return
		}
	}
	c.Eval(1)
	cur, err := r.e.gs.GetCurrentSetID()
	if err != nil || cur < setBefore || cur > seq.setID {
		r.violation("set_id", fmt.Sprintf("after out-of-order delivery of %v: GetCurrentSetID=%d err=%v, before %d, sequential model %d", fs, cur, err, setBefore, seq.setID), nil)
		return
	}
	for id := uint64(0); id <= cur; id++ {
		c.Eval(1)
		got, err := r.e.gs.GetAuthorities(id)
		if err != nil || !vdVotersEqual(got, seq.auths[id]) {
			r.violation("authorities", fmt.Sprintf("after out-of-order delivery of %v: GetAuthorities(%d)=%v err=%v, model list a%d", fs, id, got, err, seq.auths[id]), nil)
			return
		}
	}
	if cur < seq.setID {
		c.Count("digest_out_of_order_delivery_left_a_change_unapplied", 1)
		r.violation("change_not_applied_out_of_order_delivery", fmt.Sprintf("finalisations %v were both/all carried out and the handler is quiescent, but the notifications reached it out of order: "+
			"set id %d, sequential (Substrate) result %d - a scheduled change whose effective block is finalised is not in effect", fs, cur, seq.setID), nil)
		return
	}
	c.Count("digest_class_out_of_order_delivery_same_outcome", 1)
	applied := int(seq.setID - r.m.setID)
	r.applied += applied
	r.byHand += applied
	c.Count("digest_scheduled_applied_by_handler", applied)
	*r.m = *seq
	r.compare(fmt.Sprintf("after finalise %v (delivered out of order)", fs))
}

func vdRunScenario(c *vcommon.Case, sc *vdScenario) {
	t := &vTree{nodes: sc.Nodes}
	e, err := vdNewEnv(sc)
	if err != nil {
		c.Inconclusive("environment: " + err.Error())
		return
	}
	defer e.close(c)
	r := &vdRun{c: c, sc: sc, t: t, e: e, m: newAuthSet(t), imported: make([]bool, len(sc.Nodes)), dead: make([]bool, len(sc.Nodes)),
		deadDep: make([]bool, len(sc.Nodes))}
	r.imported[0] = true
	r.compare("at genesis")
	for i, op := range sc.Ops {
		if r.stop {
			break
		}
		r.step = i
		bad := false
		nodes := op.Nodes
		if op.Kind != "burst" {
			nodes = []int{op.Node}
		}
		for _, n := range nodes {
			if n <= 0 || n >= len(sc.Nodes) {
				bad = true
			}
		}
		if bad || len(nodes) == 0 {
			continue
		}
		if op.Kind == "import" {
			r.doImport(op.Node)
		} else {
			r.doFinalise(nodes)
		}
	}
	c.Count("digest_scenarios", 1)
	if r.e.obs.completed() > r.expected {
		// more ApplyScheduledChanges calls than notified finalisations: not a verdict by itself (the state decides)
		c.Count("digest_handler_calls_more_than_owed", 1)
	}
	kids := map[int]int{}
	for i := 1; i < len(sc.Nodes); i++ {
		kids[sc.Nodes[i].Parent]++
	}
	for _, k := range kids {
		if k > 1 {
			c.Count("digest_scenarios_with_competing_forks", 1)
			break
		}
	}
	if r.byHand > 0 {
		c.Count("digest_scenarios_with_change_applied_by_handler", 1)
		c.Distinct(sc.String())
		c.Sample(map[string]any{"scenario": sc.String(), "trace": r.trace, "final_set_id": r.m.setID})
	}
}

// ---------------------------------------------------------------- generator

func vdGenScenario(rnd *vcommon.Rand) *vdScenario {
	n := rnd.Range(3, 10)
	sc := &vdScenario{Nodes: []vNode{{Parent: -1}}}
	pSched, pForced, pFork := rnd.Range(25, 60), 0, 30
	if rnd.Chance(1, 3) {
		pForced = rnd.Range(5, 20)
	}
	if rnd.Chance(1, 4) {
		pFork = 10 // long chains: room for rapid successions
	}
	if rnd.Chance(1, 5) {
		sc.EpochFail = rnd.Range(1, 2)
	}
	sc.OneP = rnd.Chance(1, 3)
	for i := 1; i <= n; i++ {
		p := i - 1
		if rnd.Chance(pFork, 100) {
			p = rnd.Intn(i)
		}
		nd := vNode{Parent: p, Number: sc.Nodes[p].Number + 1}
		if rnd.Chance(pSched, 100) {
			nd.Sched = &vAnn{Delay: uint32(rnd.Intn(4)), Auths: 1 + rnd.Intn(40)}
		}
		if rnd.Chance(pForced, 100) {
			nd.Forced = &vAnn{Delay: uint32(rnd.Intn(4)), Auths: 41 + rnd.Intn(40)}
			if rnd.Bool() {
				nd.Forced.Median = uint32(rnd.Intn(int(nd.Number) + 2))
			}
			nd.ForcedFirst = rnd.Bool()
		}
		if rnd.Chance(1, 10) {
			nd.Noise = rnd.Range(1, 3)
		}
		sc.Nodes = append(sc.Nodes, nd)
	}
	t := &vTree{nodes: sc.Nodes}
	imported := make([]bool, n+1)
	imported[0] = true
	fin := 0
	stepwise := rnd.Range(35, 95)
	pBurst := rnd.Range(20, 70)
	pImport := rnd.Range(55, 85) // high: most blocks are there before finality moves (room for bursts)
	for steps := 0; steps < 4*n+8; steps++ {
		var imps, fins []int
		for b := 1; b <= n; b++ {
			if !imported[b] && imported[sc.Nodes[b].Parent] && t.ancOrEq(fin, sc.Nodes[b].Parent) {
				imps = append(imps, b)
			}
			if imported[b] && t.isDescendentOf(fin, b) {
				fins = append(fins, b)
			}
		}
		if len(imps) == 0 && len(fins) == 0 {
			break
		}
		if len(imps) > 0 && (len(fins) == 0 || rnd.Chance(pImport, 100)) {
			b := imps[0]
			if rnd.Chance(1, 2) {
				b = vcommon.Pick(rnd, imps)
			}
			imported[b] = true
			sc.Ops = append(sc.Ops, vdOp{Kind: "import", Node: b})
			continue
		}
		if len(imps) == 0 && rnd.Chance(1, 8) {
			break
		}
		pick := func(from int, cands []int) int {
			var next []int
			for _, b := range cands {
				if sc.Nodes[b].Number == sc.Nodes[from].Number+1 {
					next = append(next, b)
				}
			}
			if len(next) > 0 && rnd.Chance(stepwise, 100) {
				return vcommon.Pick(rnd, next)
			}
			return vcommon.Pick(rnd, cands)
		}
		f := pick(fin, fins)
		burst := []int{f}
		if rnd.Chance(pBurst, 100) {
			want := rnd.Range(2, 3)
			for len(burst) < want {
				last := burst[len(burst)-1]
				var desc []int
				for _, b := range fins {
					if t.isDescendentOf(last, b) {
						desc = append(desc, b)
					}
				}
				if len(desc) == 0 {
					break
				}
				burst = append(burst, pick(last, desc))
			}
		}
		fin = burst[len(burst)-1]
		if len(burst) == 1 {
			sc.Ops = append(sc.Ops, vdOp{Kind: "finalise", Node: f})
		} else {
			sc.Ops = append(sc.Ops, vdOp{Kind: "burst", Nodes: burst})
		}
	}
	return sc
}

// ---------------------------------------------------------------- fixed regression corpus

func vdChain(n int) []vNode {
	ns := []vNode{{Parent: -1}}
	for i := 1; i <= n; i++ {
		ns = append(ns, vNode{Parent: i - 1, Number: uint(i)})
	}
	return ns
}

// vdOps: "i3" import node 3, "f3" finalise node 3, "b3+4+5" rapid succession f3 f4 f5 without waiting.
func vdOps(spec string) []vdOp {
	var ops []vdOp
	for _, f := range strings.Fields(spec) {
		switch f[0] {
		case 'i', 'f':
			var n int
			fmt.Sscanf(f[1:], "%d", &n)
			kind := "import"
			if f[0] == 'f' {
				kind = "finalise"
			}
			ops = append(ops, vdOp{Kind: kind, Node: n})
		case 'b':
			var ns []int
			for _, p := range strings.Split(f[1:], "+") {
				var n int
				fmt.Sscanf(p, "%d", &n)
				ns = append(ns, n)
			}
			ops = append(ops, vdOp{Kind: "burst", Nodes: ns})
		}
	}
	return ops
}

func vdFixedCorpus() []*vdScenario {
	var out []*vdScenario
	add := func(name string, nodes []vNode, ops string, mods ...func(*vdScenario)) {
		sc := &vdScenario{Name: name, Nodes: nodes, Ops: vdOps(ops)}
		for _, m := range mods {
			m(sc)
		}
		out = append(out, sc)
	}
	oneP := func(s *vdScenario) { s.OneP = true }
	epochFail := func(k int) func(*vdScenario) { return func(s *vdScenario) { s.EpochFail = k } }
	for d := uint32(0); d <= 3; d++ { // delays 0..3, finalised block by block: enacted exactly at the effective block
		ns := vdChain(6)
		ns[1].Sched = &vAnn{Delay: d, Auths: 1 + int(d)}
		add(fmt.Sprintf("scheduled #1+%d, finalised block by block", d), ns, "i1 i2 i3 i4 i5 f1 f2 f3 f4 f5")
	}
	{ // finalisation jumping past the effective block: only the final block of the jump is notified
		ns := vdChain(6)
		ns[1].Sched = &vAnn{Delay: 1, Auths: 5}
		add("scheduled #1+1, finalise #4 directly (jump past #2)", ns, "i1 i2 i3 i4 f4 i5 f5")
		ns2 := vdChain(6)
		ns2[2].Sched = &vAnn{Delay: 2, Auths: 6}
		add("scheduled #2+2, finalise #3 (between) then #4 (exact)", ns2, "i1 i2 i3 i4 i5 f3 f4 f5")
		add("scheduled #2+2, finalise #2 (announcing block itself), then jump to #5", ns2, "i1 i2 i3 i4 i5 f2 f5")
	}
	{ // abandoned forks
		fk := []vNode{{Parent: -1}, {Parent: 0, Number: 1}, {Parent: 1, Number: 2}, {Parent: 1, Number: 2}, {Parent: 2, Number: 3}, {Parent: 3, Number: 3}, {Parent: 4, Number: 4}}
		fk[2].Sched = &vAnn{Delay: 1, Auths: 1}
		fk[3].Sched = &vAnn{Delay: 0, Auths: 2}
		add("forks A(#2+1)/B(#2+0), finalise A block by block", fk, "i1 i2 i3 i4 i5 i6 f1 f2 f4 f6")
		add("forks A(#2+1)/B(#2+0), finalise B", fk, "i1 i2 i3 i4 i5 i6 f1 f3 f5")
		add("forks A(#2+1)/B(#2+0), finalise A in one rapid succession", fk, "i1 i2 i3 i4 i5 i6 b1+2+4 f6")
	}
	{ // rapid successions
		ns := vdChain(6)
		ns[1].Sched = &vAnn{Delay: 1, Auths: 1}
		add("scheduled #1+1, rapid succession f1 f2", ns, "i1 i2 i3 i4 b1+2 f3")
		add("scheduled #1+1, rapid succession f1 f2 (one P)", ns, "i1 i2 i3 i4 b1+2 f3", oneP)
		add("scheduled #1+1, rapid succession f2 f3 (first is the effective block)", ns, "i1 i2 i3 i4 f1 b2+3 f4")
		add("scheduled #1+1, rapid succession f3 f4 (first jumps past)", ns, "i1 i2 i3 i4 b3+4")
		ns2 := vdChain(6)
		ns2[1].Sched = &vAnn{Delay: 1, Auths: 1}
		ns2[3].Sched = &vAnn{Delay: 1, Auths: 2}
		add("two changes #1+1 and #3+1, rapid succession f2 f4 (each exactly at its effective block)", ns2, "i1 i2 i3 i4 i5 f1 b2+4 f5")
		add("two changes #1+1 and #3+1, rapid succession f2 f4 (one P)", ns2, "i1 i2 i3 i4 i5 f1 b2+4 f5", oneP)
		add("two changes #1+1 and #3+1, rapid succession f2 f3 f4", ns2, "i1 i2 i3 i4 i5 b2+3+4 f5")
		ns3 := vdChain(5)
		ns3[1].Sched = &vAnn{Delay: 0, Auths: 1}
		ns3[2].Sched = &vAnn{Delay: 0, Auths: 2}
		ns3[3].Sched = &vAnn{Delay: 0, Auths: 3}
		add("changes #1+0 #2+0 #3+0, rapid succession f1 f2 f3", ns3, "i1 i2 i3 i4 b1+2+3 f4")
		add("changes #1+0 #2+0 #3+0, rapid succession f1 f2 f3 (one P)", ns3, "i1 i2 i3 i4 b1+2+3 f4", oneP)
	}
	{ // a failing BABE epoch state must not keep the GRANDPA change from being applied
		ns := vdChain(4)
		ns[1].Sched = &vAnn{Delay: 1, Auths: 7}
		add("scheduled #1+1, FinalizeBABENextEpochData fails", ns, "i1 i2 i3 f1 f2 f3", epochFail(1))
		add("scheduled #1+1, both BABE finalisation hooks fail", ns, "i1 i2 i3 f1 f2 f3", epochFail(2))
	}
	{ // forced change pending across a finalisation handled by the handler; forced + scheduled
		ns := vdChain(6)
		ns[1].Sched = &vAnn{Delay: 0, Auths: 1}
		ns[2].Forced = &vAnn{Delay: 2, Auths: 41, Median: 1}
		add("scheduled #1+0 finalised by the handler, then forced #2+2 (median 1) enacted on import of #4", ns, "i1 f1 i2 i3 i4 i5 f5")
		fk := []vNode{{Parent: -1}, {Parent: 0, Number: 1}, {Parent: 1, Number: 2}, {Parent: 1, Number: 2}, {Parent: 2, Number: 3}, {Parent: 3, Number: 3}}
		fk[2].Forced = &vAnn{Delay: 3, Auths: 41, Median: 0}
		fk[3].Sched = &vAnn{Delay: 1, Auths: 1}
		add("fork A forced #2+3 pending, fork B scheduled #2+1: finalise B (A's forced change discarded)", fk, "i1 i3 i2 i5 i4 f1 f3 f5")
	}
	return out
}

// ---------------------------------------------------------------- test

func TestVerifC23Digest(t *testing.T) {
	r := vcommon.Start(t, "C23")
	defer r.Finish()
	log.Patch(log.SetLevel(log.Critical)) // global logger: propagates to the loggers of dot/state and dot/digest

	// counters are summed over all binaries of the property: every name of this engine starts with digest_
	r.Floor("digest_scheduled_applied_by_handler", 400)
	r.Floor("digest_applied_at_effective_block", 200)
	r.Floor("digest_applied_past_effective_block", 30)
	r.Floor("digest_rapid_successions", 250)
	r.Floor("digest_applied_within_rapid_succession", 100)
	r.Floor("digest_two_changes_within_one_rapid_succession", 10)
	r.Floor("digest_scheduled_on_abandoned_fork_discarded", 60)
	r.Floor("digest_finalised_between_announcement_and_effective_block", 100)
	r.Floor("digest_applied_although_babe_epoch_state_failed", 40)
	r.Floor("digest_scenarios_with_competing_forks", 250)
	r.Floor("digest_next_change_reported", 100)
	for d := 0; d <= 3; d++ {
		r.Floor(fmt.Sprintf("digest_applied_delay_%d", d), 25)
	}

	if err := vModelSelfCheck(); err != nil {
		r.Fixed("digest-model-selfcheck", 1, func(c *vcommon.Case) { c.Inconclusive("AuthSet model self-validation failed: " + err.Error()) })
		return
	}
	r.Count("digest_model_selfcheck_ok", 1)

	fixed := vdFixedCorpus()
	r.Fixed("digest-corpus", len(fixed), func(c *vcommon.Case) { vdRunScenario(c, fixed[c.Idx]) })
	r.Cases("digest", r.Scale(1000), func(c *vcommon.Case) { vdRunScenario(c, vdGenScenario(c.R)) })
}
