//go:build verif

package digest

// FAITHFUL COPY of /verif/harness/authset/inject/dot__state/zz_verif_c23_model_test.go
// (engine `authset`, property C23). Only the package clause and this paragraph
// differ; `diff` of the two files must show nothing else. The model is
// self-contained Go, so the same oracle decides C23 at the dot/digest entry point
// (engine `authdigest`, TestVerifC23Digest). Change the model in authset first and
// copy it here again.

// Reference model "AuthSet" for property C23: Substrate's
// client/consensus/grandpa/src/authorities.rs (AuthoritySet) on top of
// utils/fork-tree (ForkTree), restricted to what C23 observes. Every rule is
// quoted (as `//S:` lines, Substrate source as recalled) next to the code that
// implements it, so the model can be audited without trusting the author. The
// model never calls gossamer code: ancestry is computed on the scenario's own
// parent array (the ideal, never-pruned block tree).

import (
	"errors"
	"fmt"
	"sort"
	"strings"
)

// ---------------------------------------------------------------- scenario tree

type vAnn struct {
	Delay  uint32 `json:"delay"`
	Auths  int    `json:"auths"`            // authority-list id (see vAuthsRaw)
	Median uint32 `json:"median,omitempty"` // forced only: median_last_finalized / BestFinalizedBlock
}

type vNode struct {
	Parent int   `json:"parent"` // index into nodes; node 0 is genesis (parent -1)
	Number uint  `json:"number"`
	Sched  *vAnn `json:"sched,omitempty"`
	Forced *vAnn `json:"forced,omitempty"`
	// ForcedFirst: the forced-change digest precedes the scheduled one in the header
	ForcedFirst bool `json:"forced_first,omitempty"`
	// Noise: 0 none, 1 GrandpaPause, 2 GrandpaResume, 3 GrandpaOnDisabled digest in the header
	Noise int `json:"noise,omitempty"`
}

type vTree struct{ nodes []vNode }

// isDescendentOf is Substrate's is_descendent_of(base, block): STRICT
// ("block" is a proper descendant of "base").
// S: sc_client_api::utils::is_descendent_of: `if base == hash { return Ok(false) }`
func (t *vTree) isDescendentOf(base, block int) bool {
	if base == block {
		return false
	}
	for x := t.nodes[block].Parent; x >= 0; x = t.nodes[x].Parent {
		if x == base {
			return true
		}
	}
	return false
}

func (t *vTree) ancOrEq(a, b int) bool { return a == b || t.isDescendentOf(a, b) }

// ---------------------------------------------------------------- model state

type mChange struct {
	canon  int  // announcing block (canon_hash)
	num    uint // canon_height
	delay  uint
	auths  int
	forced bool
	median uint // DelayKind::Best{median_last_finalized}
}

// S: PendingChange::effective_number(): `self.canon_height + self.delay`
func (c *mChange) eff() uint { return c.num + c.delay }

type mFork struct {
	ch       *mChange
	children []*mFork
}

type mSetChange struct {
	setID uint64
	last  uint // last block number of set setID
}

type authSet struct {
	t     *vTree
	setID uint64
	auths map[uint64]int // authority-list id of every set so far (Substrate keeps only the current one)
	roots []*mFork       // pending_standard_changes: ForkTree
	bestF *uint          // ForkTree.best_finalized_number
	// pending_forced_changes, "ordered first by effective number and then by signal-block number"
	forced  []*mChange
	changes []mSetChange // authority_set_changes
	// exact: every change applied so far was a standard change finalised exactly at its effective block
	exact bool
}

func newAuthSet(t *vTree) *authSet {
	return &authSet{t: t, auths: map[uint64]int{0: 0}, exact: true}
}

var (
	errMDuplicate     = errors.New("model: DuplicateAuthoritySetChange")
	errMMultiple      = errors.New("model: MultiplePendingForcedAuthoritySetChanges")
	errMDependency    = errors.New("model: ForcedAuthoritySetChangeDependencyUnsatisfied")
	errMUnfinalized   = errors.New("model: fork_tree UnfinalizedAncestor")
	errMRevert        = errors.New("model: fork_tree Revert")
	errMForkDuplicate = errors.New("model: fork_tree Duplicate")
)

func cloneFork(n *mFork) *mFork {
	c := &mFork{ch: n.ch}
	for _, k := range n.children {
		c.children = append(c.children, cloneFork(k))
	}
	return c
}

func (a *authSet) snapshot() *authSet {
	b := &authSet{t: a.t, setID: a.setID, auths: map[uint64]int{}, exact: a.exact}
	for k, v := range a.auths {
		b.auths[k] = v
	}
	for _, r := range a.roots {
		b.roots = append(b.roots, cloneFork(r))
	}
	if a.bestF != nil {
		v := *a.bestF
		b.bestF = &v
	}
	b.forced = append([]*mChange(nil), a.forced...)
	b.changes = append([]mSetChange(nil), a.changes...)
	return b
}

// ---------------------------------------------------------------- add_pending_change

// findNodeWhere: S: ForkTree::find_node_where — "Find a node in the tree that
// is the deepest ancestor of the given block hash and which passes the given
// predicate" (predicate is `|_| true` for import). A node qualifies when
// node.number < number and is_descendent_of(node.hash, hash).
func (a *authSet) findDeepestAncestor(list []*mFork, block int, number uint) *mFork {
	for _, n := range list {
		if n.ch.num < number && a.t.isDescendentOf(n.ch.canon, block) {
			if d := a.findDeepestAncestor(n.children, block, number); d != nil {
				return d
			}
			return n
		}
	}
	return nil
}

// addStandard: S: AuthoritySet::add_standard_change:
//
//	self.pending_standard_changes.import(hash, number, pending, is_descendent_of)?
//
// S: ForkTree::import:
//
//	if let Some(ref best_finalized_number) = self.best_finalized_number {
//	    if number <= *best_finalized_number { return Err(Error::Revert) } }
//	let children = match self.find_node_where_mut(&hash, &number, is_descendent_of, &|_| true)? {
//	    Some(parent) => &mut parent.children, None => &mut self.roots };
//	if children.iter().any(|elem| elem.hash == hash) { return Err(Error::Duplicate) }
//	children.push(Node { data, hash, number, children: Default::default() });
func (a *authSet) addStandard(c *mChange) error {
	if a.bestF != nil && c.num <= *a.bestF {
		return errMRevert
	}
	list := &a.roots
	if p := a.findDeepestAncestor(a.roots, c.canon, c.num); p != nil {
		list = &p.children
	}
	for _, n := range *list {
		if n.ch.canon == c.canon {
			return errMForkDuplicate
		}
	}
	*list = append(*list, &mFork{ch: c})
	return nil
}

// addForced: S: AuthoritySet::add_forced_change:
//
//	for change in &self.pending_forced_changes {
//	    if change.canon_hash == pending.canon_hash { return Err(Error::DuplicateAuthoritySetChange) }
//	    if is_descendent_of(&change.canon_hash, &pending.canon_hash)? {
//	        return Err(Error::MultiplePendingForcedAuthoritySetChanges) } }
//	// ordered first by effective number and then by signal-block number.
//	let key = (pending.effective_number(), pending.canon_height.clone());
//	let idx = self.pending_forced_changes.binary_search_by_key(&key, |change| (
//	    change.effective_number(), change.canon_height.clone())).unwrap_or_else(|i| i);
//	self.pending_forced_changes.insert(idx, pending);
func (a *authSet) addForced(c *mChange) error {
	for _, p := range a.forced {
		if p.canon == c.canon {
			return errMDuplicate
		}
		if a.t.isDescendentOf(p.canon, c.canon) {
			return errMMultiple
		}
	}
	idx := sort.Search(len(a.forced), func(i int) bool {
		p := a.forced[i]
		return p.eff() > c.eff() || (p.eff() == c.eff() && p.num >= c.num)
	})
	a.forced = append(a.forced, nil)
	copy(a.forced[idx+1:], a.forced[idx:])
	a.forced[idx] = c
	return nil
}

// applyForced: S: AuthoritySet::apply_forced_changes(best_hash, best_number, ..):
//
//	for change in self.pending_forced_changes.iter()
//	    .take_while(|c| c.effective_number() <= best_number) // to prevent iterating too far
//	    .filter(|c| c.effective_number() == best_number)
//	{
//	    // check if the given best block is in the same branch as the block that signaled the change.
//	    if change.canon_hash == best_hash || is_descendent_of(&change.canon_hash, &best_hash)? {
//	        let median_last_finalized = match change.delay_kind { DelayKind::Best { ref median_last_finalized } => .. };
//	        // check if there's any pending standard change that we depend on
//	        for (_, _, standard_change) in self.pending_standard_changes.roots() {
//	            if standard_change.effective_number() <= median_last_finalized &&
//	                is_descendent_of(&standard_change.canon_hash, &change.canon_hash)?
//	            { return Err(Error::ForcedAuthoritySetChangeDependencyUnsatisfied(..)) } }
//	        // apply this change: make the set canonical
//	        let mut authority_set_changes = self.authority_set_changes.clone();
//	        authority_set_changes.append(self.set_id, median_last_finalized.clone());
//	        new_set = Some((median_last_finalized, AuthoritySet {
//	            current_authorities: change.next_authorities.clone(),
//	            set_id: self.set_id + 1,
//	            pending_standard_changes: ForkTree::new(), // new set, new changes.
//	            pending_forced_changes: Vec::new(),
//	            authority_set_changes, }));
//	        break } }
func (a *authSet) applyForced(best int, number uint) (*mChange, error) {
	for _, c := range a.forced {
		if c.eff() > number {
			break
		}
		if c.eff() != number {
			continue
		}
		if c.canon == best || a.t.isDescendentOf(c.canon, best) {
			for _, r := range a.roots {
				if r.ch.eff() <= c.median && a.t.isDescendentOf(r.ch.canon, c.canon) {
					return nil, errMDependency
				}
			}
			a.changes = append(a.changes, mSetChange{a.setID, c.median})
			a.setID++
			a.auths[a.setID] = c.auths
			a.roots = nil
			a.bestF = nil
			a.forced = nil
			a.exact = false
			return c, nil
		}
	}
	return nil, nil
}

// importBlock models GrandpaBlockImport::make_authorities_changes for block b:
// S: check_new_change: a forced-change digest takes priority over a scheduled one
//
//	"check for forced change" first (`find_forced_change`), only otherwise `find_scheduled_change`
//
// then add_pending_change, then apply_forced_changes; on any error the import
// of the block fails and the authority set is restored (PendingSetChanges guard).
func (a *authSet) importBlock(b int) (applied *mChange, err error) {
	n := &a.t.nodes[b]
	snap := a.snapshot()
	switch {
	case n.Forced != nil:
		err = a.addForced(&mChange{canon: b, num: n.Number, delay: uint(n.Forced.Delay), auths: n.Forced.Auths,
			forced: true, median: uint(n.Forced.Median)})
	case n.Sched != nil:
		err = a.addStandard(&mChange{canon: b, num: n.Number, delay: uint(n.Sched.Delay), auths: n.Sched.Auths})
	}
	if err == nil {
		applied, err = a.applyForced(b, n.Number)
	}
	if err != nil {
		*a = *snap
		return nil, err
	}
	return applied, nil
}

// ---------------------------------------------------------------- apply_standard_changes

// finalizeWithDescendentIf: S: ForkTree::finalize_with_descendent_if(hash, number, is_descendent_of, predicate)
// with predicate = |change| change.effective_number() <= finalized_number:
//
//	if let Some(ref best_finalized_number) = self.best_finalized_number {
//	    if number <= *best_finalized_number { return Err(Error::Revert) } }
//	// check if the given hash is equal or a descendent of any root, if we find a valid root that
//	// passes the predicate then we must ensure that we're not finalizing past any children node.
//	let mut position = None;
//	for (i, root) in self.roots.iter().enumerate() {
//	    if predicate(&root.data) && (root.hash == *hash || is_descendent_of(&root.hash, hash)?) {
//	        for child in root.children.iter() {
//	            if child.number <= number && (child.hash == *hash || is_descendent_of(&child.hash, hash)?)
//	                && predicate(&child.data)
//	            { return Err(Error::UnfinalizedAncestor) } }
//	        position = Some(i); break } }
//	let node_data = position.map(|i| { let node = self.roots.swap_remove(i);
//	    self.roots = node.children; self.best_finalized_number = Some(node.number); node.data });
//	// if the block being finalized is earlier than a given root, then it must be its ancestor,
//	// otherwise we can prune the root. if there's a root at the same height then the hashes must
//	// match. otherwise the node being finalized is higher than the root so it must be its descendent
//	// (in this case the node wasn't finalized earlier presumably because the predicate didn't pass).
//	let mut changed = false;
//	for root in roots {
//	    let retain = root.number > number && is_descendent_of(hash, &root.hash)?
//	        || root.number == number && root.hash == *hash
//	        || is_descendent_of(&root.hash, hash)?;
//	    if retain { self.roots.push(root) } else { changed = true } }
//	self.best_finalized_number = Some(number);
//	match (node_data, changed) { (Some(data), _) => Changed(Some(data)), (None, true) => Changed(None),
//	    (None, false) => Unchanged }
func (a *authSet) finalizeWithDescendentIf(f int, number uint) (applied *mChange, changed bool, err error) {
	if a.bestF != nil && number <= *a.bestF {
		return nil, false, errMRevert
	}
	pred := func(c *mChange) bool { return c.eff() <= number }
	pos := -1
	for i, r := range a.roots {
		if pred(r.ch) && a.t.ancOrEq(r.ch.canon, f) {
			for _, ch := range r.children {
				if ch.ch.num <= number && a.t.ancOrEq(ch.ch.canon, f) && pred(ch.ch) {
					return nil, false, errMUnfinalized
				}
			}
			pos = i
			break
		}
	}
	if pos >= 0 {
		applied = a.roots[pos].ch
		a.roots = append([]*mFork(nil), a.roots[pos].children...)
	}
	var keep []*mFork
	for _, r := range a.roots {
		retain := (r.ch.num > number && a.t.isDescendentOf(f, r.ch.canon)) ||
			(r.ch.num == number && r.ch.canon == f) ||
			a.t.isDescendentOf(r.ch.canon, f)
		if retain {
			keep = append(keep, r)
		} else {
			changed = true
		}
	}
	a.roots = keep
	nn := number
	a.bestF = &nn
	return applied, changed || applied != nil, nil
}

// applyStandard: S: AuthoritySet::apply_standard_changes(finalized_hash, finalized_number, ..):
//
//	match self.pending_standard_changes.finalize_with_descendent_if(&finalized_hash, finalized_number,
//	        is_descendent_of, |change| change.effective_number() <= finalized_number)? {
//	    FinalizationResult::Changed(change) => {
//	        // we will keep all forced changes for any later blocks and that are a
//	        // descendent of the finalized block (i.e. they are part of this branch).
//	        for change in pending_forced_changes {
//	            if change.effective_number() > finalized_number &&
//	                is_descendent_of(&finalized_hash, &change.canon_hash)? { self.pending_forced_changes.push(change) } }
//	        if let Some(change) = change {
//	            // Store the set_id together with the last block_number for the set
//	            self.authority_set_changes.append(self.set_id, finalized_number.clone());
//	            self.current_authorities = change.next_authorities;
//	            self.set_id += 1; } }
//	    FinalizationResult::Unchanged => {} }
//
// Forced-change pruning is returned as a proposal (substrateKeeps) instead of
// being applied: the harness compares it class by class (see vForcedAfterFinalise).
func (a *authSet) applyStandard(f int, number uint) (applied *mChange, treeChanged bool, err error) {
	applied, treeChanged, err = a.finalizeWithDescendentIf(f, number)
	if err != nil {
		return nil, false, err
	}
	if applied != nil {
		a.changes = append(a.changes, mSetChange{a.setID, number})
		a.setID++
		a.auths[a.setID] = applied.auths
		if applied.eff() != number {
			a.exact = false
		}
	}
	return applied, treeChanged, nil
}

// substrateKeepsForced is the retention rule quoted in applyStandard.
func (a *authSet) substrateKeepsForced(c *mChange, f int, number uint, treeChanged bool) bool {
	if !treeChanged {
		return true
	}
	return c.eff() > number && a.t.isDescendentOf(f, c.canon)
}

// setIDOf: S: AuthoritySetChanges::get_set_id(block_number):
//
//	"the set id for the given block number: the first (set_id, last_block_number) entry with
//	last_block_number >= block_number, otherwise the block belongs to the latest (current) set"
func (a *authSet) setIDOf(n uint) uint64 {
	for _, c := range a.changes {
		if c.last >= n {
			return c.setID
		}
	}
	return a.setID
}

// ---------------------------------------------------------------- canonical renderings

func renderChange(c *mChange) string {
	if c.forced {
		return fmt.Sprintf("F@%d+%d/a%d/m%d", c.canon, c.delay, c.auths, c.median)
	}
	return fmt.Sprintf("S@%d+%d/a%d", c.canon, c.delay, c.auths)
}

func renderFork(n *mFork) string {
	var ks []string
	for _, k := range n.children {
		ks = append(ks, renderFork(k))
	}
	sort.Strings(ks)
	return renderChange(n.ch) + "[" + strings.Join(ks, ",") + "]"
}

func renderRoots(rs []*mFork) string {
	var ks []string
	for _, r := range rs {
		ks = append(ks, renderFork(r))
	}
	sort.Strings(ks)
	return strings.Join(ks, " ")
}

func renderForced(fs []*mChange) string {
	var ks []string
	for _, c := range fs {
		ks = append(ks, renderChange(c))
	}
	sort.Strings(ks)
	return strings.Join(ks, " ")
}

// ---------------------------------------------------------------- self-validation

// vModelSelfCheck replays, on the model, the expectations of Substrate's own unit
// tests of authorities.rs as recalled independently of the rules above
// (apply_change, disallow_multiple_changes_being_finalized_at_once, forced_changes,
// forced_changes_blocked_by_standard_changes). A failure makes the whole check
// inconclusive: the oracle would not be trustworthy.
func vModelSelfCheck() error {
	chain := func(ns []vNode, from int, n int) ([]vNode, []int) {
		var ids []int
		p := from
		for i := 0; i < n; i++ {
			ns = append(ns, vNode{Parent: p, Number: ns[p].Number + 1})
			p = len(ns) - 1
			ids = append(ids, p)
		}
		return ns, ids
	}
	importAll := func(a *authSet, ids []int) error {
		for _, b := range ids {
			if _, err := a.importBlock(b); err != nil {
				return fmt.Errorf("import %d: %w", b, err)
			}
		}
		return nil
	}
	changesAre := func(a *authSet, want ...mSetChange) bool {
		if len(a.changes) != len(want) {
			return false
		}
		for i := range want {
			if a.changes[i] != want[i] {
				return false
			}
		}
		return true
	}

	{ // apply_change: forks A and B both signal at #5 (delay 10); finalising A#11 prunes B's, keeps A's; A#15 enacts it
		ns := []vNode{{Parent: -1}}
		ns, A := chain(ns, 0, 15)
		ns, B := chain(ns, 0, 5)
		ns[A[4]].Sched = &vAnn{Delay: 10, Auths: 1}
		ns[B[4]].Sched = &vAnn{Delay: 10, Auths: 2}
		a := newAuthSet(&vTree{nodes: ns})
		if err := importAll(a, append(append([]int{}, A...), B...)); err != nil {
			return err
		}
		ap, changed, err := a.applyStandard(A[10], 11)
		if err != nil || ap != nil || !changed || len(a.roots) != 1 || a.roots[0].ch.canon != A[4] || a.setID != 0 {
			return fmt.Errorf("apply_change step 1: applied=%v changed=%v err=%v roots=%s", ap, changed, err, renderRoots(a.roots))
		}
		ap, _, err = a.applyStandard(A[14], 15)
		if err != nil || ap == nil || a.setID != 1 || a.auths[1] != 1 || len(a.roots) != 0 || !changesAre(a, mSetChange{0, 15}) {
			return fmt.Errorf("apply_change step 2: applied=%v err=%v set=%d changes=%v", ap, err, a.setID, a.changes)
		}
		if a.setIDOf(15) != 0 || a.setIDOf(16) != 1 || a.setIDOf(0) != 0 {
			return fmt.Errorf("apply_change: get_set_id wrong")
		}
	}
	{ // disallow_multiple_changes_being_finalized_at_once: #5+10 and its descendant #30+10
		ns := []vNode{{Parent: -1}}
		ns, C := chain(ns, 0, 40)
		ns[C[4]].Sched = &vAnn{Delay: 10, Auths: 1}
		ns[C[29]].Sched = &vAnn{Delay: 10, Auths: 2}
		a := newAuthSet(&vTree{nodes: ns})
		if err := importAll(a, C); err != nil {
			return err
		}
		before := renderRoots(a.roots)
		if _, _, err := a.applyStandard(C[39], 40); !errors.Is(err, errMUnfinalized) || renderRoots(a.roots) != before || a.setID != 0 {
			return fmt.Errorf("disallow_multiple step 1: err=%v roots=%s", err, renderRoots(a.roots))
		}
		if ap, _, err := a.applyStandard(C[14], 15); err != nil || ap == nil || a.setID != 1 || !changesAre(a, mSetChange{0, 15}) ||
			len(a.roots) != 1 || a.roots[0].ch.canon != C[29] {
			return fmt.Errorf("disallow_multiple step 2: err=%v set=%d roots=%s", err, a.setID, renderRoots(a.roots))
		}
		if ap, _, err := a.applyStandard(C[39], 40); err != nil || ap == nil || a.setID != 2 || !changesAre(a, mSetChange{0, 15}, mSetChange{1, 40}) {
			return fmt.Errorf("disallow_multiple step 3: err=%v set=%d changes=%v", err, a.setID, a.changes)
		}
	}
	{ // forced_changes: A#5 (delay 10, median 42), B#5 (delay 10, median 0); too early / too late / on time; one per fork
		ns := []vNode{{Parent: -1}}
		ns, A := chain(ns, 0, 16)
		ns, B := chain(ns, 0, 5)
		ns[A[4]].Forced = &vAnn{Delay: 10, Auths: 41, Median: 42}
		ns[B[4]].Forced = &vAnn{Delay: 10, Auths: 42, Median: 0}
		ns[A[6]].Forced = &vAnn{Delay: 1, Auths: 43, Median: 0}
		a := newAuthSet(&vTree{nodes: ns})
		if err := importAll(a, append(append([]int{}, A[:6]...), B...)); err != nil {
			return err
		}
		if len(a.forced) != 2 {
			return fmt.Errorf("forced_changes: %d pending, want 2", len(a.forced))
		}
		if _, err := a.importBlock(A[6]); !errors.Is(err, errMMultiple) || len(a.forced) != 2 {
			return fmt.Errorf("forced_changes: second forced change on fork A: err=%v", err)
		}
		if ap, _, err := a.applyStandard(A[5], 6); err != nil || ap != nil || len(a.forced) != 2 {
			return fmt.Errorf("forced_changes: standard finalisation touched forced changes (Unchanged tree)")
		}
		if ap, err := a.snapshot().applyForced(A[9], 10); ap != nil || err != nil {
			return fmt.Errorf("forced_changes: applied too early")
		}
		if ap, err := a.snapshot().applyForced(A[15], 16); ap != nil || err != nil {
			return fmt.Errorf("forced_changes: applied too late")
		}
		ap, err := a.applyForced(A[14], 15)
		if err != nil || ap == nil || ap.auths != 41 || a.setID != 1 || !changesAre(a, mSetChange{0, 42}) || len(a.forced) != 0 || len(a.roots) != 0 {
			return fmt.Errorf("forced_changes: on time: ap=%v err=%v set=%d changes=%v", ap, err, a.setID, a.changes)
		}
	}
	{ // forced_changes_blocked_by_standard_changes: standard #10+5, #20+0, #30+5; forced #40+5 median 31
		ns := []vNode{{Parent: -1}}
		ns, C := chain(ns, 0, 45)
		ns[C[9]].Sched = &vAnn{Delay: 5, Auths: 1}
		ns[C[19]].Sched = &vAnn{Delay: 0, Auths: 2}
		ns[C[29]].Sched = &vAnn{Delay: 5, Auths: 3}
		ns[C[39]].Forced = &vAnn{Delay: 5, Auths: 41, Median: 31}
		a := newAuthSet(&vTree{nodes: ns})
		if err := importAll(a, C[:44]); err != nil {
			return err
		}
		if _, err := a.importBlock(C[44]); !errors.Is(err, errMDependency) {
			return fmt.Errorf("blocked_by_standard step 1: err=%v", err)
		}
		if ap, _, err := a.applyStandard(C[14], 15); err != nil || ap == nil || len(a.forced) != 1 {
			return fmt.Errorf("blocked_by_standard step 2: err=%v forced=%d", err, len(a.forced))
		}
		if _, err := a.importBlock(C[44]); !errors.Is(err, errMDependency) {
			return fmt.Errorf("blocked_by_standard step 3: err=%v", err)
		}
		if ap, _, err := a.applyStandard(C[19], 20); err != nil || ap == nil {
			return fmt.Errorf("blocked_by_standard step 4: err=%v", err)
		}
		ap, err := a.importBlock(C[44])
		if err != nil || ap == nil || a.setID != 3 || !changesAre(a, mSetChange{0, 15}, mSetChange{1, 20}, mSetChange{2, 31}) || len(a.roots) != 0 {
			return fmt.Errorf("blocked_by_standard step 5: ap=%v err=%v set=%d changes=%v", ap, err, a.setID, a.changes)
		}
	}
	return nil
}
