//go:build verif

package babe

// C25 at its call sites — the threshold VALUE the authoring and verifying paths actually carry.
//
// TestVerifC25 judges CalculateThreshold itself; the C24 scenarios use the thresholds production
// derives (Service.buildEpochData -> epochData.threshold for the lottery, Service.initiateEpoch ->
// epochDescriptor.data.threshold for the epoch handler, VerificationManager.getVerifierInfo ->
// verifierInfo.threshold for import) but only through accept/reject verdicts. Here the value found at
// each of those sites is handed to the same thr-* oracles (vfJudgeThreshold: bit-exact double
// pipeline where determined, ulp-level and exact-rational tolerances elsewhere, c = 1 saturation) for
// THAT epoch's (c1, c2, number of authorities): a site that passes other arguments (authority count of
// another epoch, c2/c1 swapped, a stale threshold) is a violation under C25. Case group thr-sites,
// counters prefixed site_.

import (
	"context"
	"fmt"
	"math/big"
	"testing"

	"github.com/ChainSafe/gossamer/pkg/scale"
	"github.com/ChainSafe/gossamer/zz_verif/vcommon"
)

func vfSiteJudge(c *vcommon.Case, site string, c1, c2 uint64, n int, thr *scale.Uint128, extra map[string]any) *big.Int {
	c.Count("site_"+site, 1)
	w := map[string]any{"site": site}
	for k, v := range extra {
		w[k] = v
	}
	if thr == nil {
		c.Eval(1)
		c.Violation("thr-site", fmt.Sprintf("%s carries no threshold for c=%d/%d, n=%d", site, c1, c2, n), w)
		return nil
	}
	v, _ := vfJudgeThreshold(c, "site_", c1, c2, n, thr, nil, w)
	return v
}

func TestVerifC25Sites(t *testing.T) {
	r := vcommon.Start(t, "C25")
	defer r.Finish()
	if err := vfMathSelfCheck(); err != nil {
		r.Fixed("sites-selfcheck", r.Shards, func(c *vcommon.Case) {
			c.Inconclusive("reference model self-validation failed: " + err.Error())
		})
		return
	}
	r.Floor("site_thr_calls", 600)
	r.Floor("site_buildEpochData", 200)
	r.Floor("site_getVerifierInfo", 100)
	r.Floor("site_initiateEpoch", 60)
	r.Floor("site_thr_c_eq_1", 30)
	r.Floor("site_thr_exact_compared", 200)
	r.Floor("site_thr_bit_exact_checked", 20)
	r.Floor("site_thr_ulp_checked", 150)
	r.Floor("site_same_value_at_author_and_verifier", 100)

	// verify side + lottery side of the C24 scenarios
	r.Cases("thr-sites", r.Scale(160), func(c *vcommon.Case) {
		n := c.R.Range(1, 5)
		allowed := byte(c.R.Intn(3))
		var c1, c2 uint64
		if c.R.Bool() {
			cc := vcommon.Pick(c.R, [][2]uint64{{1, 4}, {1, 2}, {1, 1}, {3, 4}, {1, 10}, {2, 3}, {7, 9}})
			c1, c2 = cc[0], cc[1]
		} else {
			c1, c2 = vfPickC(c.R)
		}
		sc, err := vfNewScenario(c.R, n, allowed, c1, c2)
		if err != nil {
			c.Inconclusive("scenario: " + err.Error())
			return
		}
		desc := sc.describe()
		var author *big.Int
		for i, ed := range sc.eds {
			v := vfSiteJudge(c, "buildEpochData", c1, c2, n, ed.threshold, map[string]any{"scenario": desc, "authority": i})
			if i == 0 {
				author = v
			}
		}
		bs, es, ss := sc.states()
		h := sc.unsealed()
		var info *verifierInfo
		g := vfGuard(func() error {
			var err error
			info, err = NewVerificationManager(bs, ss, es).getVerifierInfo(sc.epoch, h)
			return err
		})
		if g.panicked != nil || g.err != nil || info == nil {
			c.Eval(1)
			c.Violation("thr-site", fmt.Sprintf("getVerifierInfo failed on an in-domain configuration: err=%v panic=%v", g.err, g.panicked),
				map[string]any{"scenario": desc})
			return
		}
		verifier := vfSiteJudge(c, "getVerifierInfo", c1, c2, n, info.threshold, map[string]any{"scenario": desc})
		// one epoch, one (c, n): lottery and verification must use the SAME number (CalculateThreshold is a function)
		if author != nil && verifier != nil {
			c.Eval(1)
			c.Count("site_same_value_at_author_and_verifier", 1)
			if author.Cmp(verifier) != 0 {
				c.Violation("thr-site", fmt.Sprintf("epoch data threshold %s != verifier info threshold %s for the same epoch (c=%d/%d, n=%d)",
					author, verifier, c1, c2, n), map[string]any{"scenario": desc})
			}
		}
		c.Distinct(fmt.Sprintf("site|%d|%d|%d|%d", c1, c2, n, allowed))
		if c.Idx < 6 {
			c.Sample(map[string]any{"kind": "threshold at call sites", "c1": c1, "c2": c2, "n": n,
				"epochData.threshold": fmt.Sprint(author), "verifierInfo.threshold": fmt.Sprint(verifier)})
		}
	})

	// authoring side: the node picks the epoch data itself (initiateEpoch over the stub epoch state of the C24 author family)
	r.Cases("thr-sites-author", r.Scale(120), func(c *vcommon.Case) {
		kind := vcommon.Pick(c.R, []string{"genesis", "same", "next"})
		plan := vaPlan{steps: []string{kind}, L: uint64(c.R.Range(3, 12)), decoy: 0}
		if c.R.Bool() {
			c1, c2 := vfPickC(c.R)
			plan.c = &[2]uint64{c1, c2}
		}
		w, err := vaNewWorld(c.R, plan)
		if err != nil {
			c.Inconclusive("world: " + err.Error())
			return
		}
		svc := &Service{ctx: context.Background(), authority: true, keypair: w.node, pause: make(chan struct{}),
			blockState: &vaABlockState{w: w}, epochState: &vaAEpochState{w: w},
			constants: constants{slotDuration: w.slotDur, epochLength: w.L}}
		e := w.p
		switch kind {
		case "genesis":
			e = 0
		case "next":
			e = w.p + 1
		}
		D := w.stored[e]
		if D == nil {
			c.Count("site_author_no_data", 1)
			return
		}
		var d *epochDescriptor
		g := vfGuard(func() error {
			var err error
			d, err = svc.initiateEpoch(e)
			return err
		})
		wit := w.describe(kind, "initiateEpoch", e, D)
		if g.panicked != nil {
			c.Violation("panic", fmt.Sprintf("initiateEpoch(%d) panicked: %v", e, g.panicked), wit)
			return
		}
		if g.err != nil || d == nil || d.data == nil {
			if D.nodeIdx < 0 {
				c.Count("site_author_not_an_authority", 1)
			} else {
				c.Count("site_author_initiation_failed", 1) // C24's author family reports this; not a threshold matter
			}
			return
		}
		vfSiteJudge(c, "initiateEpoch", D.c1, D.c2, len(D.auths), d.data.threshold, wit)
		c.Distinct(fmt.Sprintf("site-author|%s|%d|%d|%d", kind, D.c1, D.c2, len(D.auths)))
	})
}
