//go:build verif

package babe

// C24, competing forks: ONE VerificationManager verifies blocks of two forks that are in the same epoch NUMBER but
// whose epoch data for that number differ (authorities / randomness / secondary-slot kind / c), interleaved in a
// PRNG-chosen order. The expected verdict of every block is computed from the data of the block's own fork:
// "accept iff its author had the right to produce it" does not depend on what the manager verified before.

import (
	"errors"
	"fmt"
	"time"

	"github.com/ChainSafe/gossamer/dot/types"
	"github.com/ChainSafe/gossamer/lib/common"
	"github.com/ChainSafe/gossamer/pkg/scale"
	"github.com/ChainSafe/gossamer/zz_verif/vcommon"
)

type vfForkBlockState struct {
	BlockState
	forks []*vfScenario
}

func (s *vfForkBlockState) GenesisHash() common.Hash { return common.Hash{0xee} }
func (s *vfForkBlockState) GetHeader(h common.Hash) (*types.Header, error) {
	for _, f := range s.forks {
		if f.parent.Hash() == h {
			return f.parent, nil
		}
	}
	return nil, errors.New("vf: unknown header")
}

type vfForkEpochState struct {
	EpochState
	forks []*vfScenario
}

// forkOf: the fork a header belongs to (a fork's parent itself, or a block extending it).
func (s *vfForkEpochState) forkOf(h *types.Header) (*vfScenario, bool) {
	for _, f := range s.forks {
		if h == f.parent {
			return f, true
		}
	}
	for _, f := range s.forks {
		if h.ParentHash == f.parent.Hash() {
			return f, false
		}
	}
	return nil, false
}

func (s *vfForkEpochState) GetEpochForBlock(h *types.Header) (uint64, error) {
	f, isParent := s.forkOf(h)
	if f == nil {
		return 0, errors.New("vf: header on no fork")
	}
	if isParent {
		return f.parentEpoch, nil
	}
	return f.epoch, nil
}
func (s *vfForkEpochState) GetSlotDuration() (time.Duration, error) { return 6 * time.Second, nil }
func (s *vfForkEpochState) GetEpochDataRaw(_ uint64, h *types.Header) (*types.EpochDataRaw, error) {
	f, _ := s.forkOf(h)
	if f == nil {
		return nil, errors.New("vf: header on no fork")
	}
	return &types.EpochDataRaw{Authorities: f.auths, Randomness: f.rnd}, nil
}
func (s *vfForkEpochState) GetConfigData(_ uint64, h *types.Header) (*types.ConfigData, error) {
	f, _ := s.forkOf(h)
	if f == nil {
		return nil, errors.New("vf: header on no fork")
	}
	return &types.ConfigData{C1: f.c1, C2: f.c2, SecondarySlots: f.allowed}, nil
}

type vfForkBlock struct {
	fork   int
	label  string
	honest bool
	h      *types.Header
	note   map[string]any
}

var vfForkVariants = []string{"all_differ", "authorities_differ", "randomness_differs", "secondary_kind_differs", "c_differs"}

// vfRunForks builds the two forks for the given variant and runs the interleaved verification.
func vfRunForks(c *vcommon.Case, variant string) {
	r := c.R
	epoch := uint64(r.Range(1, 6))
	if r.Chance(1, 4) {
		epoch = r.Uint64()>>uint(r.Range(8, 60)) + 1
	}
	pk := func() string { return vcommon.Pick(r, []string{"same-epoch", "previous-epoch"}) }
	cs := [][2]uint64{{1, 4}, {1, 2}, {1, 1}}
	nA := r.Range(1, 5)
	allowedA := byte(r.Intn(3))
	cA := vcommon.Pick(r, cs)
	if variant == "c_differs" {
		cA = [2]uint64{1, 1}
	}
	if variant == "secondary_kind_differs" && r.Bool() {
		allowedA = byte(r.Range(1, 2))
	}
	A, err := vfNewScenarioOpts(r, nA, allowedA, cA[0], cA[1], vfOpts{epoch: &epoch, parentKind: pk()})
	if err != nil {
		c.Inconclusive("scenario: " + err.Error())
		return
	}
	o := vfOpts{epoch: &epoch, parentKind: pk()}
	nB, allowedB, cB := nA, allowedA, cA
	switch variant {
	case "all_differ":
		nB, allowedB, cB = r.Range(1, 5), byte(r.Intn(3)), vcommon.Pick(r, cs)
	case "authorities_differ":
		o.rnd = &A.rnd
	case "randomness_differs":
		o.seeds = A.seeds
	case "secondary_kind_differs":
		o.seeds, o.rnd = A.seeds, &A.rnd
		for allowedB == allowedA {
			allowedB = byte(r.Intn(3))
		}
	case "c_differs":
		o.seeds, o.rnd = A.seeds, &A.rnd
		cB = vcommon.Pick(r, [][2]uint64{{1, 4}, {1, 10}, {1, 2}})
	}
	B, err := vfNewScenarioOpts(r, nB, allowedB, cB[0], cB[1], o)
	if err != nil {
		c.Inconclusive("scenario: " + err.Error())
		return
	}
	forks := []*vfScenario{A, B}
	if r.Bool() {
		forks = []*vfScenario{B, A}
	}
	c.Count("fork_variant_"+variant, 1)
	c.Count("shared_manager_same_epoch_different_fork_data", 1)

	var blocks []vfForkBlock
	for fi, F := range forks {
		G := forks[1-fi]
		// honest blocks of F
		for k := 0; k < 2; k++ {
			i := r.Intn(F.n)
			if pre, slot, ok := F.ownClaim(r, i); ok {
				blocks = append(blocks, vfForkBlock{fi, "fork_own_claim", true, vfSeal(F.unsealed(*pre), F.kps[i]),
					map[string]any{"author": i, "slot": slot, "kind": vfPreKind(pre)}})
			} else {
				c.Count("skipped_own_claim_no_slot_in_600", 1)
			}
		}
		if F.allowed >= 1 {
			s := F.slot0 + uint64(r.Intn(1<<16))
			a := F.secondaryAuthor(s)
			blocks = append(blocks, vfForkBlock{fi, "fork_secondary_by_assigned_author", true,
				vfSeal(F.unsealed(*F.preSecondary(F.allowed, uint32(a), s, F.kps[a])), F.kps[a]), map[string]any{"author": a, "slot": s}})
		}
		// a block that would be authorised with the OTHER fork's epoch data, placed on F
		switch variant {
		case "all_differ", "authorities_differ":
			i := r.Intn(G.n)
			if pre, slot, ok := G.ownClaim(r, i); ok {
				blocks = append(blocks, vfForkBlock{fi, "cross_author_of_other_fork", false, vfSeal(F.unsealed(*pre), G.kps[i]),
					map[string]any{"other_fork_author": i, "slot": slot, "kind": vfPreKind(pre)}})
			}
		case "randomness_differs":
			i := r.Intn(G.n)
			if s, ok := G.findSlot(r, func(s uint64) bool { return G.primaryWin(i, s) }); ok {
				blocks = append(blocks, vfForkBlock{fi, "cross_vrf_for_other_forks_randomness", false,
					vfSeal(F.unsealed(*G.prePrimary(uint32(i), s, G.kps[i])), G.kps[i]), map[string]any{"author": i, "slot": s}})
			}
		case "secondary_kind_differs":
			if G.allowed >= 1 {
				s := G.slot0 + uint64(r.Intn(1<<16))
				a := G.secondaryAuthor(s) // same assignment on F: same randomness and authority count
				blocks = append(blocks, vfForkBlock{fi, "cross_secondary_kind_of_other_fork", false,
					vfSeal(F.unsealed(*G.preSecondary(G.allowed, uint32(a), s, G.kps[a])), G.kps[a]), map[string]any{"author": a, "slot": s, "kind": G.allowed}})
			}
		case "c_differs":
			if F.c1*G.c2 >= G.c1*F.c2 { // only the fork with the smaller c can refuse the other's claims
				break
			}
			i := r.Intn(G.n)
			if s, ok := G.findSlot(r, func(s uint64) bool { return G.primaryWin(i, s) && !F.primaryWin(i, s) }); ok {
				blocks = append(blocks, vfForkBlock{fi, "cross_primary_under_other_forks_threshold", false,
					vfSeal(F.unsealed(*G.prePrimary(uint32(i), s, G.kps[i])), G.kps[i]), map[string]any{"author": i, "slot": s}})
			}
		}
	}
	// order: PRNG permutation; make sure the first two blocks come from different forks
	perm := r.Perm(len(blocks))
	ord := make([]vfForkBlock, len(blocks))
	for i, p := range perm {
		ord[i] = blocks[p]
	}
	for j := 1; j < len(ord); j++ {
		if ord[j].fork != ord[0].fork {
			ord[1], ord[j] = ord[j], ord[1]
			break
		}
	}

	bs := &vfForkBlockState{forks: forks}
	es := &vfForkEpochState{forks: forks}
	vm := NewVerificationManager(bs, &vfSlotState{}, es)
	desc := []map[string]any{forks[0].describe(), forks[1].describe()}
	var history []string
	for k, b := range ord {
		if k > 0 && ord[k-1].fork != b.fork {
			c.Count("shared_manager_fork_switches", 1)
		}
		enc, _ := scale.Marshal(*b.h)
		hc := vfCloneHeader(b.h)
		v := vfGuard(func() error { return vm.VerifyBlock(hc) })
		c.Eval(1)
		c.Count("shared_manager_blocks", 1)
		c.Count("label_"+b.label, 1)
		history = append(history, fmt.Sprintf("%d:fork%d:%s:%s", k, b.fork, b.label, vfErrClass(v.err)))
		F := forks[b.fork]
		w := map[string]any{"variant": variant, "position": k, "fork": b.fork, "label": b.label, "honest": b.honest, "forks": desc,
			"header_scale": vcommon.Hex(enc), "note": b.note, "history": append([]string(nil), history...)}
		c.Distinct(fmt.Sprintf("forks|%s|%s|pos%d|sec%d/%d|n%d/%d", variant, b.label, k, forks[0].allowed, forks[1].allowed, forks[0].n, forks[1].n))
		switch {
		case v.panicked != nil:
			w["panic"] = fmt.Sprint(v.panicked)
			c.Violation("panic", fmt.Sprintf("VerifyBlock (shared manager) panicked on %q: %v", b.label, v.panicked), w)
		case b.honest && v.err != nil:
			w["error"] = v.err.Error()
			c.Violation("reject-authorised", fmt.Sprintf("shared manager, forks differ by %s: block %d (%s) authorised by its own fork's epoch data "+
				"(SecondarySlots=%d, c=%d/%d, n=%d) was rejected: %v", variant, k, b.label, F.allowed, F.c1, F.c2, F.n, v.err), w)
		case !b.honest && v.err == nil:
			c.Violation("accept-unauthorised", fmt.Sprintf("shared manager, forks differ by %s: block %d (%s) is not authorised by its own fork's "+
				"epoch data (SecondarySlots=%d, c=%d/%d, n=%d) but was accepted", variant, k, b.label, F.allowed, F.c1, F.c2, F.n), w)
		case !b.honest:
			c.Count("rej__"+b.label+"__"+vfErrClass(v.err), 1)
		}
	}
	if c.Idx < 2 {
		c.Sample(map[string]any{"kind": "shared_manager_forks", "variant": variant, "epoch": epoch, "order_and_verdicts": history})
	}
}
