//go:build verif

package babe

// C25: BABE lottery arithmetic matches the specification.
//
// Deciding oracles (all independent of gossamer, see zz_verif_refmath_test.go):
//   thr-f64-exact n == 1 (pow(x,1)=x), or 1-c rounding to 0 or 1: impl == floor(2^128 * double(1 - pow)) BIT-EXACT, the
//                 doubles c64 = f64(c1)/f64(c2), q = 1-c64 computed by the harness (correctly rounded IEEE operations)
//   thr-pipeline  n > 1: |impl - 2^128*(1-q^theta64)| <= 2^128*(2*(1+theta|ln q|)*2^-52*q^theta + 2^-53), theta64 = 1/f64(n),
//                 power taken with 512-bit arithmetic (a few ulps of the double power; libm pow may be ~1 ulp off)
//   thr-exact     |impl - floor(2^128*(1-(1-c)^(1/n)))| <= 2^128*(2^-47 + dq*theta*q_lo^(theta-1)) for the exact
//                 rational c (first-order bound for the rounding dq of 1-c; skipped and counted when ill-conditioned)
//   thr-c1        c1 == c2  =>  impl == MaxUint128
//   thr-mono      c_a < c_b with (c_b-c_a) >= n*2^-46  =>  impl(c_a) <= impl(c_b)
//   cmp           checkPrimaryThreshold(out, T) is the step function  [v < T]  of a single 128-bit value v
//   sec           getSecondarySlotAuthor == BE(BLAKE2b-256(randomness || LE64(slot))) mod n
//   sec-verify    verifySecondarySlotPlain(idx,slot,n,randomness) succeeds iff idx is that index - also when the same slot
//                 and n were seen under another randomness before (order A,B,A)
//   concurrent    all of the above on the returns of G = 2..16 simultaneous callers with different inputs
//                 (zz_verif_c25_conc_test.go)

import (
	"fmt"
	"math/big"
	"testing"

	"github.com/ChainSafe/gossamer/lib/crypto/sr25519"
	"github.com/ChainSafe/gossamer/pkg/scale"
	"github.com/ChainSafe/gossamer/zz_verif/vcommon"
)

var (
	vfTwo128   = new(big.Int).Lsh(big.NewInt(1), 128)
	vfMaxU128  = new(big.Int).Sub(vfTwo128, big.NewInt(1))
	vfTolFloor = vfF().SetMantExp(vfFi(1), 128-47)
)

func vfU128Big(u *scale.Uint128) *big.Int {
	v := new(big.Int).SetUint64(u.Upper)
	v.Lsh(v, 64)
	return v.Add(v, new(big.Int).SetUint64(u.Lower))
}

func vfBigU128(v *big.Int) *scale.Uint128 {
	lo := new(big.Int).And(v, new(big.Int).SetUint64(^uint64(0))).Uint64()
	hi := new(big.Int).Rsh(v, 64).Uint64()
	return &scale.Uint128{Upper: hi, Lower: lo}
}

func vfAbsDiff(impl *big.Int, ref *big.Float) *big.Float {
	d := vfSub(vfF().SetInt(impl), ref)
	return d.Abs(d)
}

// vfCheckThreshold runs CalculateThreshold on an in-domain input (0 < c1 <= c2, n >= 1) and applies the
// thr-* oracles. It returns the implementation's value (nil when the call failed).
func vfCheckThreshold(c *vcommon.Case, c1, c2 uint64, n int) *big.Int {
	thr, err := CalculateThreshold(c1, c2, n)
	impl, _ := vfJudgeThreshold(c, "", c1, c2, n, thr, err, nil)
	return impl
}

// vfJudgeThreshold applies the thr-* oracles to one observed return (thr, err) of CalculateThreshold(c1,c2,n). The
// verdict depends on the call's own input only. pfx prefixes the counters (the concurrent family keeps its own), extra
// is added to the witness of a violation. Returns the value (nil when the call failed) and whether an oracle refuted it.
func vfJudgeThreshold(c *vcommon.Case, pfx string, c1, c2 uint64, n int, thr *scale.Uint128, err error,
	extra map[string]any) (value *big.Int, refuted bool) {
	w := map[string]any{"c1": c1, "c2": c2, "n": n}
	for k, v := range extra {
		w[k] = v
	}
	viol := func(class, msg string) {
		refuted = true
		c.Violation(class, msg, w)
	}
	c.Count(pfx+"thr_calls", 1)
	if err != nil || thr == nil {
		c.Eval(1)
		viol("thr-error", fmt.Sprintf("CalculateThreshold(%d,%d,%d) failed on an in-domain input: %v", c1, c2, n, err))
		return nil, refuted
	}
	impl := vfU128Big(thr)
	w["impl"] = impl.String()

	if c1 == c2 {
		c.Count(pfx+"thr_c_eq_1", 1)
		c.Eval(1)
		if impl.Cmp(vfMaxU128) != 0 {
			viol("thr-c1", fmt.Sprintf("c=1 (c1=c2=%d), n=%d: threshold %s, want MaxUint128", c1, n, impl))
		}
		return impl, refuted
	}

	// thr-pipeline: Substrate's value is a deterministic function of IEEE-754 double operations. Where the power is
	// fixed by IEEE / libm semantics (theta == 1: pow(x,1) == x; base 0 or 1) the result must be BIT-EXACT
	// floor(2^128 * double(1 - pow)); elsewhere pow may differ from the exact power by the accuracy of a composed
	// exp(theta*log(q)) (<= (1+theta|ln q|) * 2^-52 relative), doubled for margin, plus the rounding of 1 - y.
	pipe, q64 := vfThresholdPipeline(c1, c2, n)
	c.Eval(1)
	if n == 1 || q64 == 0 || q64 == 1 {
		p64 := float64(1 - q64) // pow(q,1) = q, pow(0,t) = 0, pow(1,t) = 1
		want := new(big.Int).Set(vfMaxU128)
		if p64 < 1 {
			pr := new(big.Rat).SetFloat64(p64)
			want = new(big.Int).Div(new(big.Int).Mul(vfTwo128, pr.Num()), pr.Denom())
		}
		c.Count(pfx+"thr_bit_exact_checked", 1)
		if float64(float64(c1)/float64(c2)) < 0.5 && n == 1 {
			if cr := new(big.Rat).SetFrac(new(big.Int).SetUint64(c1), new(big.Int).SetUint64(c2)); !cr.Denom().IsInt64() ||
				cr.Denom().Int64()&(cr.Denom().Int64()-1) != 0 {
				c.Count(pfx+"thr_bit_exact_nondyadic_c_below_half_n1", 1) // 1-(1-c) != c in doubles: shortcuts show
			}
		}
		if impl.Cmp(want) != 0 {
			w["f64_reference"] = want.String()
			viol("thr-f64-exact", fmt.Sprintf("CalculateThreshold(%d,%d,%d)=%s; the double pipeline 1-(1-c1/c2)^(1/n) is exactly "+
				"determined here and gives floor(2^128*p)=%s", c1, c2, n, impl, want))
		}
	} else {
		y := vfSub(vfFi(1), vfF().SetMantExp(pipe, -128)) // exact q^theta
		lnq := vfLn(vfFf(q64))
		lnq.Abs(lnq)
		rel := vfAdd(vfFi(1), vfQuo(lnq, vfFi(int64(n))))                                  // 1 + theta|ln q|
		tol := vfAdd(vfF().SetMantExp(vfMul(rel, y), -51), vfF().SetMantExp(vfFi(1), -53)) // 2*rel*y*2^-52 + 2^-53
		tol.SetMantExp(tol, 128)
		d := vfAbsDiff(impl, pipe)
		c.Count(pfx+"thr_ulp_checked", 1)
		if vfMul(d, vfFi(4)).Cmp(tol) > 0 {
			c.Count(pfx+"thr_ulp_diff_above_quarter_tolerance", 1) // observation: how close a correct pipeline comes
		}
		if d.Cmp(tol) > 0 {
			w["pipeline_value"] = pipe.Text('f', 0)
			w["abs_diff_log2"] = d.MantExp(nil)
			w["tol_log2"] = tol.MantExp(nil)
			viol("thr-pipeline", fmt.Sprintf("CalculateThreshold(%d,%d,%d)=%s differs from 2^128*(1-(1-c)^(1/n)) "+
				"evaluated on the double inputs (%s) by 2^%d > ulp-level tolerance 2^%d", c1, c2, n, impl, pipe.Text('f', 0),
				d.MantExp(nil), tol.MantExp(nil)))
		}
	}
	switch {
	case q64 == 1:
		c.Count(pfx+"thr_1_minus_c_rounds_to_1", 1)
	case q64 == 0:
		c.Count(pfx+"thr_c_rounds_to_1", 1)
	case q64 < 1.0/1024:
		c.Count(pfx+"thr_c_near_1", 1)
	}
	if n == 1 {
		c.Count(pfx+"thr_n_eq_1", 1)
	} else if n >= 512 {
		c.Count(pfx+"thr_n_ge_512", 1)
	}

	// thr-exact
	floor, real := vfThresholdExact(c1, c2, n)
	dq := vfF().SetMantExp(vfFi(1), -53)
	if c1 > 1<<53 || c2 > 1<<53 {
		dq = vfF().SetMantExp(vfFi(1), -51)
	}
	cr := new(big.Rat).SetFrac(new(big.Int).SetUint64(c1), new(big.Int).SetUint64(c2))
	qex := vfFr(new(big.Rat).Sub(big.NewRat(1, 1), cr))
	qlo := vfSub(qex, dq)
	wellCond := false
	var tol *big.Float
	if qlo.Sign() > 0 {
		amp := vfFi(1)
		if n > 1 {
			theta := vfQuo(vfFi(1), vfFi(int64(n)))
			amp = vfQuo(theta, vfPow(qlo, vfSub(vfFi(1), theta))) // theta * q_lo^(theta-1)
		}
		slack := vfMul(vfMul(dq, amp), vfFf(1.01))
		if slack.MantExp(nil) <= -44 { // dq*amp < 2^-44
			wellCond = true
			tol = vfAdd(vfTolFloor, vfF().SetMantExp(slack, 128))
		}
	}
	if wellCond {
		c.Count(pfx+"thr_exact_compared", 1)
		c.Eval(1)
		if d := vfAbsDiff(impl, real); d.Cmp(tol) > 0 {
			w["exact_floor"] = floor.String()
			w["abs_diff_log2"] = d.MantExp(nil)
			w["tol_log2"] = tol.MantExp(nil)
			viol("thr-exact", fmt.Sprintf("CalculateThreshold(%d,%d,%d)=%s, exact floor(2^128*(1-(1-c)^(1/n)))=%s, "+
				"|diff|=2^%d > tolerance 2^%d", c1, c2, n, impl, floor, d.MantExp(nil), tol.MantExp(nil)))
		}
	} else {
		c.Count(pfx+"thr_exact_skipped_illconditioned", 1)
	}
	c.Distinct(fmt.Sprintf("thr|%d|%d|%d", c1, c2, n))
	if c.Idx%3 == 1 && c.Idx < 12 {
		c.Sample(map[string]any{"kind": "threshold", "c1": c1, "c2": c2, "n": n, "impl": impl.String(), "exact_floor": floor.String(),
			"exact_compared": wellCond})
	}
	return impl, refuted
}

// vfPickN draws an authority count in 1..1024 biased to the edges.
func vfPickN(r *vcommon.Rand) int {
	switch r.Intn(6) {
	case 0:
		return r.Range(1, 5)
	case 2:
		if r.Chance(1, 2) {
			return 1
		}
		return r.Range(1, 1024)
	case 1:
		return vcommon.Pick(r, []int{1, 2, 3, 4, 7, 8, 16, 100, 297, 511, 512, 1000, 1023, 1024})
	default:
		return r.Range(1, 1024)
	}
}

// vfPickC draws (c1,c2) with 0 < c1 <= c2.
func vfPickC(r *vcommon.Rand) (uint64, uint64) {
	var c2 uint64
	switch r.Intn(8) {
	case 0, 1, 2:
		c2 = uint64(r.Range(1, 64))
	case 3:
		c2 = uint64(r.Range(1, 1<<20))
	case 4:
		c2 = r.Uint64()>>11 | 1 // < 2^53
	case 5:
		c2 = r.Uint64() | 1<<63 // > 2^63: conversions to double round
	case 6:
		c2 = uint64(1) << uint(r.Range(1, 63))
	default:
		c2 = uint64(r.Range(2, 1000))
	}
	var c1 uint64
	switch r.Intn(8) {
	case 0:
		c1 = c2 // c = 1
	case 1:
		c1 = 1 // smallest ratio for this denominator
	case 2:
		if c2 > 1 {
			c1 = c2 - 1 // closest to one
		} else {
			c1 = 1
		}
	default:
		c1 = r.Uint64()%c2 + 1
	}
	return c1, c2
}

type vfThr struct {
	c1, c2 uint64
	n      int
}

func vfFixedThresholds() []vfThr {
	var out []vfThr
	ns := []int{1, 2, 3, 4, 5, 10, 100, 297, 1000, 1024}
	for _, n := range ns {
		out = append(out,
			vfThr{1, 4, n}, vfThr{1, 2, n}, vfThr{1, 1, n}, vfThr{3, 4, n}, vfThr{7, 7, n},
			vfThr{1, 1 << 63, n},             // 1-c rounds to 1: p = 0 in doubles
			vfThr{1<<63 - 1, 1 << 63, n},     // both convert to 2^63: c rounds to 1
			vfThr{1<<53 - 1, 1 << 53, n},     // 1-c = 2^-53, the smallest positive value
			vfThr{1023, 1024, n},             // boundary of the well-conditioned region
			vfThr{^uint64(0), ^uint64(0), n}, // c = 1 with the largest operands
			vfThr{1, ^uint64(0), n},
		)
	}
	// non-dyadic ratios below 1/2 with a single authority: 1-(1-c) differs from c in the low mantissa bits
	for _, x := range [][2]uint64{{1, 3}, {1, 7}, {1, 10}, {3, 10}, {1, 99}, {2, 5}, {1, 1000}, {49, 100}, {1, 6}, {5, 11}} {
		out = append(out, vfThr{x[0], x[1], 1}, vfThr{x[0], x[1], 2})
	}
	return out
}

func vfCheckMonotone(c *vcommon.Case, n int, cs [][2]uint64) {
	type pt struct {
		c1, c2 uint64
		r      *big.Rat
		v      *big.Int
	}
	var pts []pt
	for _, x := range cs {
		v := vfCheckThreshold(c, x[0], x[1], n)
		if v == nil {
			return
		}
		pts = append(pts, pt{x[0], x[1], new(big.Rat).SetFrac(new(big.Int).SetUint64(x[0]), new(big.Int).SetUint64(x[1])), v})
	}
	minGap := new(big.Rat).SetFrac(big.NewInt(int64(n)), new(big.Int).Lsh(big.NewInt(1), 46))
	for i := range pts {
		for j := range pts {
			a, b := pts[i], pts[j]
			if a.r.Cmp(b.r) >= 0 {
				continue
			}
			gap := new(big.Rat).Sub(b.r, a.r)
			if gap.Cmp(minGap) < 0 {
				c.Count("mono_pairs_gap_below_resolution", 1)
				continue
			}
			c.Count("mono_pairs", 1)
			if new(big.Rat).Sub(gap, minGap).Cmp(minGap) < 0 {
				c.Count("mono_pairs_near_min_gap", 1)
			}
			c.Eval(1)
			if a.v.Cmp(b.v) > 0 {
				c.Violation("thr-mono", fmt.Sprintf("n=%d: c=%d/%d < %d/%d but threshold %s > %s", n, a.c1, a.c2, b.c1, b.c2, a.v, b.v),
					map[string]any{"n": n, "c_a": []uint64{a.c1, a.c2}, "c_b": []uint64{b.c1, b.c2}, "thr_a": a.v.String(), "thr_b": b.v.String()})
			}
			if a.v.Cmp(b.v) == 0 && b.v.Cmp(vfMaxU128) != 0 && a.v.Sign() != 0 {
				c.Count("mono_pairs_equal_thresholds", 1)
			}
		}
	}
}

// vfCheckCompare decides that checkPrimaryThreshold is the predicate [v < T] of one 128-bit number v.
func vfCheckCompare(c *vcommon.Case) {
	kp, err := sr25519.NewKeypairFromSeed(c.R.Bytes(32))
	if err != nil {
		c.Inconclusive("keypair: " + err.Error())
		return
	}
	var rnd Randomness
	copy(rnd[:], c.R.Bytes(32))
	slot, epoch := c.R.Uint64(), c.R.Uint64()%1000
	out, _, err := kp.VrfSign(makeTranscript(rnd, slot, epoch))
	if err != nil {
		c.Inconclusive("vrf sign: " + err.Error())
		return
	}
	pub := kp.Public().(*sr25519.PublicKey)
	f := func(T *big.Int) bool {
		ok, err := checkPrimaryThreshold(rnd, slot, epoch, out, vfBigU128(T), pub)
		if err != nil {
			panic(fmt.Sprintf("checkPrimaryThreshold on an honest output: %v", err))
		}
		return ok
	}
	w := map[string]any{"seed_case": c.ID, "output": vcommon.Hex(out[:]), "slot": slot, "epoch": epoch, "randomness": vcommon.Hex(rnd[:])}
	c.Eval(2)
	if f(big.NewInt(0)) {
		c.Violation("cmp-zero", "checkPrimaryThreshold true with threshold 0", w)
		return
	}
	if !f(vfMaxU128) {
		c.Count("cmp_value_is_max", 1) // v == 2^128-1: legitimate, probability 2^-128
		return
	}
	lo, hi := big.NewInt(0), new(big.Int).Set(vfMaxU128) // f(lo)=false, f(hi)=true
	for new(big.Int).Sub(hi, lo).Cmp(big.NewInt(1)) > 0 {
		mid := new(big.Int).Add(lo, hi)
		mid.Rsh(mid, 1)
		if f(mid) {
			hi = mid
		} else {
			lo = mid
		}
	}
	v := lo // f(v) false, f(v+1) true  =>  candidate value
	w["v"] = v.String()
	// the value itself: u128::from_le_bytes(inout.make_bytes(16, "substrate-babe-vrf")); the comparison is strict
	direct, err := vfLotteryValue(out, pub, rnd, slot, epoch)
	if err != nil {
		c.Inconclusive("make_bytes: " + err.Error())
		return
	}
	c.Eval(1)
	c.Count("cmp_value_vs_make_bytes", 1)
	if direct.Cmp(v) != 0 {
		w["make_bytes_le"] = direct.String()
		c.Violation("cmp-strict", fmt.Sprintf("checkPrimaryThreshold switches to true at T=%s, but the VRF value is %s: want [value < T] "+
			"(true first at value+1)", new(big.Int).Add(v, big.NewInt(1)), direct), w)
		return
	}
	probes := []*big.Int{new(big.Int).Set(v), new(big.Int).Add(v, big.NewInt(1)), big.NewInt(1), new(big.Int).Sub(vfMaxU128, big.NewInt(1))}
	if v.Sign() > 0 {
		probes = append(probes, new(big.Int).Sub(v, big.NewInt(1)))
	}
	// byte-reversed neighbours expose a lexicographic / wrong-endian comparison
	vb := v.FillBytes(make([]byte, 16))
	rev := make([]byte, 16)
	for i := range vb {
		rev[15-i] = vb[i]
	}
	probes = append(probes, new(big.Int).SetBytes(rev))
	for i := 0; i < 16; i++ { // change one byte of v
		b := append([]byte(nil), vb...)
		b[i] ^= byte(1 << uint(c.R.Intn(8)))
		probes = append(probes, new(big.Int).SetBytes(b))
	}
	for i := 0; i < 12; i++ {
		probes = append(probes, new(big.Int).SetBytes(c.R.Bytes(16)))
	}
	for _, T := range probes {
		c.Eval(1)
		c.Count("cmp_probes", 1)
		want := T.Cmp(v) > 0
		if got := f(T); got != want {
			w["T"] = T.String()
			c.Violation("cmp-step", fmt.Sprintf("checkPrimaryThreshold(T=%s)=%v but the value located by bisection is v=%s (want v<T = %v)",
				T, got, v, want), w)
			return
		}
	}
	c.Count("cmp_outputs", 1)
	c.Distinct("cmp|" + v.String())
	if c.Idx < 2 {
		c.Sample(map[string]any{"kind": "compare", "output": vcommon.Hex(out[:]), "located_value": v.String(), "probes": len(probes)})
	}
}

func vfCheckSecondary(c *vcommon.Case, rnd Randomness, slot uint64, n uint64) {
	c.Eval(1)
	c.Count("sec_calls", 1)
	got, err := getSecondarySlotAuthor(slot, int(n), rnd)
	want := vfSecondaryAuthor(rnd, slot, n)
	w := map[string]any{"randomness": vcommon.Hex(rnd[:]), "slot": slot, "n": n, "got": got, "want": want}
	if err != nil {
		c.Violation("sec-error", fmt.Sprintf("getSecondarySlotAuthor failed: %v", err), w)
		return
	}
	if uint64(got) != want {
		c.Violation("sec-author", fmt.Sprintf("getSecondarySlotAuthor(slot=%d,n=%d)=%d, BE(BLAKE2b-256(randomness||LE64(slot))) mod n = %d",
			slot, n, got, want), w)
	}
	if n > 1 {
		c.Distinct(fmt.Sprintf("sec|%x|%d|%d", rnd[:4], slot, n))
	}
	if slot > 1<<32 {
		c.Count("sec_slot_above_2^32", 1)
	}
	if n > 1024 {
		c.Count("sec_n_above_1024", 1)
	}
	if c.Idx%7 == 3 && c.Idx < 40 {
		w["kind"] = "secondary_author"
		c.Sample(w)
	}
}

func TestVerifC25(t *testing.T) {
	r := vcommon.Start(t, "C25")
	defer r.Finish()

	selfErr := vfBlake2bSelfCheck()
	if selfErr == nil {
		selfErr = vfMathSelfCheck()
	}
	r.Fixed("selfcheck", r.Shards, func(c *vcommon.Case) {
		c.Eval(1)
		if selfErr != nil {
			c.Inconclusive("reference model self-validation failed: " + selfErr.Error())
		} else {
			c.Count("selfcheck_ok", 1)
		}
	})
	if selfErr != nil {
		return
	}

	r.Floor("thr_calls", 1500)
	r.Floor("thr_c_eq_1", 50)
	r.Floor("thr_exact_compared", 800)
	r.Floor("thr_n_ge_512", 100)
	r.Floor("thr_n_eq_1", 20)
	r.Floor("thr_bit_exact_checked", 150)
	r.Floor("thr_bit_exact_nondyadic_c_below_half_n1", 40)
	r.Floor("thr_ulp_checked", 1000)
	r.Floor("thr_1_minus_c_rounds_to_1", 10)
	r.Floor("mono_pairs", 1500)
	r.Floor("mono_pairs_near_min_gap", 100)
	r.Floor("cmp_outputs", 20)
	r.Floor("cmp_value_vs_make_bytes", 20)
	r.Floor("sec_calls", 2000)
	r.Floor("sec_slot_above_2^32", 200)
	r.Floor("sec_verify_same_slot_same_n_after_other_randomness", 1000)
	r.Floor("sec_verify_same_slot_same_n_author_differs_between_randomness", 500)
	for _, g := range []int{2, 4, 8, 16} {
		r.Floor(fmt.Sprintf("conc_cases_G%d", g), 4)
	}
	r.Floor("conc_thr_calls", 5000)
	r.Floor("conc_thr_calls_with_another_caller_inside", 500)
	r.Floor("conc_thr_c_eq_1_inputs_judged", 100)
	r.Floor("conc_thr_near_boundary_inputs_judged", 200)
	r.Floor("conc_judged_thr_bit_exact_checked", 50)
	r.Floor("conc_judged_thr_ulp_checked", 500)
	r.Floor("conc_sec_calls", 1000)
	r.Floor("conc_secverify_calls", 1000)
	r.Floor("conc_cmp_calls", 100)
	r.Floor("conc_shared_slot_same_n_own_randomness_calls", 500)
	r.Floor("conc_shared_slot_cases_where_author_differs_between_randomness", 8)

	fixed := vfFixedThresholds()
	r.Fixed("thr-fixed", len(fixed), func(c *vcommon.Case) {
		x := fixed[c.Idx]
		vfCheckThreshold(c, x.c1, x.c2, x.n)
	})
	// minimal-gap chains: c2 = 2^k with 2^-k the smallest admissible gap for n
	fixedN := []int{1, 2, 3, 64, 1000, 1024}
	r.Fixed("mono-fixed", len(fixedN), func(c *vcommon.Case) {
		n := fixedN[c.Idx]
		k := uint(46)
		for (1 << (46 - k)) < n {
			k--
		}
		c2 := uint64(1) << k
		var cs [][2]uint64
		for _, base := range []uint64{1, c2 / 4, c2 / 2, c2 - 6} {
			for d := uint64(0); d < 5; d++ {
				cs = append(cs, [2]uint64{base + d, c2})
			}
		}
		vfCheckMonotone(c, n, cs)
	})

	r.Cases("thr", r.Scale(1500), func(c *vcommon.Case) {
		c1, c2 := vfPickC(c.R)
		vfCheckThreshold(c, c1, c2, vfPickN(c.R))
	})

	r.Cases("mono", r.Scale(250), func(c *vcommon.Case) {
		n := vfPickN(c.R)
		var cs [][2]uint64
		switch c.R.Intn(3) {
		case 0: // small fractions with mixed denominators
			for i := 0; i < 6; i++ {
				c2 := uint64(c.R.Range(1, 40))
				cs = append(cs, [2]uint64{c.R.Uint64()%c2 + 1, c2})
			}
		case 1: // consecutive numerators at the finest admissible denominator
			k := uint(46)
			for (1 << (46 - k)) < n {
				k--
			}
			c2 := uint64(1) << k
			base := c.R.Uint64()%(c2-8) + 1
			for d := uint64(0); d < 6; d++ {
				cs = append(cs, [2]uint64{base + d, c2})
			}
		default: // one denominator, spread numerators, ending at c = 1
			c2 := uint64(c.R.Range(2, 1<<20))
			for i := 0; i < 5; i++ {
				cs = append(cs, [2]uint64{c.R.Uint64()%c2 + 1, c2})
			}
			cs = append(cs, [2]uint64{c2, c2})
		}
		vfCheckMonotone(c, n, cs)
	})

	r.Cases("cmp", r.Scale(24), vfCheckCompare)

	// concurrent callers, each judged on its own inputs (zz_verif_c25_conc_test.go)
	vfConcFamily(r, "conc", r.Scale(32), 400)

	type secIn struct {
		rnd  Randomness
		slot uint64
		n    uint64
	}
	var secFixed []secIn
	var ff Randomness
	for i := range ff {
		ff[i] = 0xff
	}
	for _, rnd := range []Randomness{{}, ff, {1}, {31: 1}} {
		for _, slot := range []uint64{0, 1, 255, 256, 1 << 32, 1<<63 - 1, 1 << 63, ^uint64(0), 0x0102030405060708} {
			for _, n := range []uint64{1, 2, 3, 5, 256, 1024, 1<<31 - 1, 1 << 32} {
				secFixed = append(secFixed, secIn{rnd, slot, n})
			}
		}
	}
	r.Fixed("sec-fixed", len(secFixed), func(c *vcommon.Case) {
		x := secFixed[c.Idx]
		vfCheckSecondary(c, x.rnd, x.slot, x.n)
	})
	r.Cases("sec", r.Scale(3000), func(c *vcommon.Case) {
		var rnd Randomness
		copy(rnd[:], c.R.Bytes(32))
		slot := c.R.Uint64()
		switch c.R.Intn(4) {
		case 0:
			slot = uint64(c.R.Intn(1 << 20))
		case 1:
			slot = uint64(1)<<uint(c.R.Range(0, 63)) - uint64(c.R.Intn(2))
		}
		n := uint64(vfPickN(c.R))
		if c.R.Chance(1, 10) {
			n = c.R.Uint64()%(1<<32) + 1
		}
		vfCheckSecondary(c, rnd, slot, n)
	})
	// the same slot and authority count under different randomness, A,B,A
	r.Cases("sec-reuse", r.Scale(300), vfCheckSecReuse)
}
