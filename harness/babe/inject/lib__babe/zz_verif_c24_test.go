//go:build verif

package babe

// C24: BABE verification accepts exactly authorised blocks.
//
// Metamorphic oracle: the harness builds every header itself, with the node's own lottery (buildEpochData,
// claimSlot, claimPrimarySlot, makeTranscript) and the node's own seal (BlockBuilder.buildBlockSeal), for a
// generated epoch (1..5 sr25519 authorities, AllowedSlots 0/1/2, c in {1/4,1/2,1}); each header carries a label that
// says by construction whether it is authorised. Dishonest labels change exactly one ingredient of an honest
// header. Expected verdict of VerificationManager.VerifyBlock and of verifier.verifyAuthorshipRight:
// accept iff the label is honest. The slot's secondary author is taken from the harness' own BLAKE2b model.

import (
	"errors"
	"fmt"
	"math/big"
	"testing"
	"time"

	"github.com/ChainSafe/gossamer/dot/types"
	"github.com/ChainSafe/gossamer/lib/common"
	"github.com/ChainSafe/gossamer/lib/crypto/sr25519"
	"github.com/ChainSafe/gossamer/pkg/scale"
	"github.com/ChainSafe/gossamer/zz_verif/vcommon"
)

// ---------------------------------------------------------------- stub states (only what verification reads)

type vfBlockState struct {
	BlockState // nil: any other method panics and is reported
	genesis    common.Hash
	parent     *types.Header
}

func (s *vfBlockState) GenesisHash() common.Hash { return s.genesis }
func (s *vfBlockState) GetHeader(h common.Hash) (*types.Header, error) {
	if s.parent != nil && h == s.parent.Hash() {
		return s.parent, nil
	}
	return nil, errors.New("vf: unknown header")
}

type vfEpochState struct {
	EpochState
	parent      *types.Header
	parentEpoch uint64
	curEpoch    uint64
	raw         *types.EpochDataRaw
	cfg         *types.ConfigData
	dataAsked   []uint64
}

func (s *vfEpochState) GetEpochForBlock(h *types.Header) (uint64, error) {
	if h == s.parent {
		return s.parentEpoch, nil
	}
	return s.curEpoch, nil
}
func (s *vfEpochState) GetSlotDuration() (time.Duration, error) { return 6 * time.Second, nil }
func (s *vfEpochState) GetEpochDataRaw(epoch uint64, _ *types.Header) (*types.EpochDataRaw, error) {
	s.dataAsked = append(s.dataAsked, epoch)
	return s.raw, nil
}
func (s *vfEpochState) GetConfigData(epoch uint64, _ *types.Header) (*types.ConfigData, error) {
	return s.cfg, nil
}

// vfSlotState is a fresh, empty slot table: never an equivocation (C27's concern is kept out).
type vfSlotState struct {
	calls  int
	slot   uint64
	signer types.AuthorityID
}

func (s *vfSlotState) CheckEquivocation(_, slot uint64, _ *types.Header, signer types.AuthorityID) (
	*types.BabeEquivocationProof, error) {
	s.calls++
	s.slot, s.signer = slot, signer
	return nil, nil
}

// ---------------------------------------------------------------- scenario

type vfScenario struct {
	n        int
	seeds    [][]byte
	kps      []*sr25519.Keypair
	outsider *sr25519.Keypair
	outSeed  []byte
	auths    []types.AuthorityRaw
	rnd      Randomness
	c1, c2   uint64
	allowed  byte // ConfigData.SecondarySlots: 0 primary only, 1 +secondary plain, 2 +secondary VRF
	epoch    uint64
	slot0    uint64
	eds      []*epochData // the nodes' own epoch data, built by Service.buildEpochData

	parentKind  string // "genesis", "same-epoch", "previous-epoch", "skipped-epochs"
	parent      *types.Header
	parentEpoch uint64
	number      uint
	stateRoot   common.Hash
	extRoot     common.Hash

	winMemo map[[2]uint64]bool
}

// vfOpts pins parts of a scenario (used to build competing forks that share keys / randomness / epoch number).
type vfOpts struct {
	seeds      [][]byte    // authority key seeds (len n) or nil
	rnd        *Randomness // epoch randomness or nil
	epoch      *uint64
	parentKind string // "" = drawn
}

func vfNewScenario(r *vcommon.Rand, n int, allowed byte, c1, c2 uint64) (*vfScenario, error) {
	return vfNewScenarioOpts(r, n, allowed, c1, c2, vfOpts{})
}

func vfNewScenarioOpts(r *vcommon.Rand, n int, allowed byte, c1, c2 uint64, o vfOpts) (*vfScenario, error) {
	sc := &vfScenario{n: n, allowed: allowed, c1: c1, c2: c2, winMemo: map[[2]uint64]bool{}}
	for i := 0; i < n; i++ {
		seed := r.Bytes(32)
		if o.seeds != nil {
			seed = o.seeds[i]
		}
		kp, err := sr25519.NewKeypairFromSeed(seed)
		if err != nil {
			return nil, err
		}
		sc.seeds = append(sc.seeds, seed)
		sc.kps = append(sc.kps, kp)
		sc.auths = append(sc.auths, *types.NewAuthority(kp.Public(), 1).ToRaw())
	}
	sc.outSeed = r.Bytes(32)
	var err error
	if sc.outsider, err = sr25519.NewKeypairFromSeed(sc.outSeed); err != nil {
		return nil, err
	}
	copy(sc.rnd[:], r.Bytes(32))
	sc.epoch = uint64(r.Intn(5))
	if r.Chance(1, 3) {
		sc.epoch = r.Uint64() >> uint(r.Range(1, 60))
	}
	sc.slot0 = r.Uint64() >> uint(r.Range(2, 50))
	if o.rnd != nil {
		sc.rnd = *o.rnd
	}
	if o.epoch != nil {
		sc.epoch = *o.epoch
	}
	raw := &types.EpochDataRaw{Authorities: sc.auths, Randomness: sc.rnd}
	cfg := &types.ConfigData{C1: c1, C2: c2, SecondarySlots: allowed}
	for i := 0; i < n; i++ {
		svc := &Service{authority: true, keypair: sc.kps[i]}
		ed, err := svc.buildEpochData(raw, cfg)
		if err != nil {
			return nil, fmt.Errorf("buildEpochData: %w", err)
		}
		sc.eds = append(sc.eds, ed)
	}
	copy(sc.stateRoot[:], r.Bytes(32))
	copy(sc.extRoot[:], r.Bytes(32))
	switch k := r.Intn(10); {
	case k < 3 || sc.epoch == 0:
		sc.parentKind = "genesis"
	case k < 7:
		sc.parentKind, sc.parentEpoch = "same-epoch", sc.epoch
	case k < 9 || sc.epoch < 3:
		sc.parentKind, sc.parentEpoch = "previous-epoch", sc.epoch-1
	default:
		sc.parentKind, sc.parentEpoch = "skipped-epochs", sc.epoch-3
	}
	if sc.epoch == 0 && sc.parentKind != "genesis" {
		sc.parentKind = "genesis"
	}
	switch o.parentKind {
	case "same-epoch":
		sc.parentKind, sc.parentEpoch = "same-epoch", sc.epoch
	case "previous-epoch":
		sc.parentKind, sc.parentEpoch = "previous-epoch", sc.epoch-1
	}
	if sc.parentKind == "genesis" {
		sc.parent = &types.Header{Number: 0, Digest: types.NewDigest()}
		copy(sc.parent.StateRoot[:], r.Bytes(32))
		sc.number = 1
	} else {
		sc.parent = &types.Header{Number: uint(r.Range(1, 1<<20)), Digest: types.NewDigest()}
		copy(sc.parent.ParentHash[:], r.Bytes(32))
		copy(sc.parent.StateRoot[:], r.Bytes(32))
		sc.number = sc.parent.Number + 1
	}
	return sc, nil
}

func (sc *vfScenario) describe() map[string]any {
	keys := make([]string, sc.n)
	seeds := make([]string, sc.n)
	for i := range keys {
		keys[i] = vcommon.Hex(sc.auths[i].Key[:])
		seeds[i] = vcommon.Hex(sc.seeds[i])
	}
	return map[string]any{"n": sc.n, "authority_keys": keys, "authority_seeds": seeds, "outsider_seed": vcommon.Hex(sc.outSeed),
		"randomness": vcommon.Hex(sc.rnd[:]), "c1": sc.c1, "c2": sc.c2, "secondary_slots": sc.allowed, "epoch": sc.epoch,
		"parent": sc.parentKind, "parent_epoch": sc.parentEpoch}
}

// secondaryAuthor is the harness' own model (zz_verif_refmath_test.go), not getSecondarySlotAuthor.
func (sc *vfScenario) secondaryAuthor(slot uint64) int {
	return int(vfSecondaryAuthor(sc.rnd, slot, uint64(sc.n)))
}

// primaryWin asks the node's own lottery whether authority i may claim slot as primary.
func (sc *vfScenario) primaryWin(i int, slot uint64) bool {
	k := [2]uint64{uint64(i), slot}
	if v, ok := sc.winMemo[k]; ok {
		return v
	}
	_, err := claimPrimarySlot(sc.rnd, slot, sc.epoch, sc.eds[i].threshold, sc.kps[i])
	if err != nil && !errors.Is(err, errOverPrimarySlotThreshold) {
		panic(fmt.Sprintf("claimPrimarySlot: %v", err))
	}
	sc.winMemo[k] = err == nil
	return err == nil
}

func (sc *vfScenario) findSlot(r *vcommon.Rand, pred func(slot uint64) bool) (uint64, bool) {
	start := sc.slot0 + uint64(r.Intn(1<<16))
	for s := start; s < start+600; s++ {
		if pred(s) {
			return s, true
		}
	}
	return 0, false
}

func vfVRF(kp *sr25519.Keypair, rnd Randomness, slot, epoch uint64) (out [sr25519.VRFOutputLength]byte, proof [sr25519.VRFProofLength]byte) {
	out, proof, err := kp.VrfSign(makeTranscript(rnd, slot, epoch))
	if err != nil {
		panic(fmt.Sprintf("VrfSign: %v", err))
	}
	return out, proof
}

func vfPre(d interface {
	ToPreRuntimeDigest() (*types.PreRuntimeDigest, error)
}) *types.PreRuntimeDigest {
	p, err := d.ToPreRuntimeDigest()
	if err != nil {
		panic(fmt.Sprintf("ToPreRuntimeDigest: %v", err))
	}
	return p
}

func (sc *vfScenario) prePrimary(idx uint32, slot uint64, signer *sr25519.Keypair) *types.PreRuntimeDigest {
	out, proof := vfVRF(signer, sc.rnd, slot, sc.epoch)
	return vfPre(*types.NewBabePrimaryPreDigest(idx, slot, out, proof))
}

func (sc *vfScenario) preSecondary(kind byte, idx uint32, slot uint64, signer *sr25519.Keypair) *types.PreRuntimeDigest {
	if kind == 1 {
		return vfPre(*types.NewBabeSecondaryPlainPreDigest(idx, slot))
	}
	out, proof := vfVRF(signer, sc.rnd, slot, sc.epoch)
	return vfPre(*types.NewBabeSecondaryVRFPreDigest(idx, slot, out, proof))
}

// unsealed builds the header that the runtime would return from FinalizeBlock: pre-digest first, then any
// further items.
func (sc *vfScenario) unsealed(items ...any) *types.Header {
	h := &types.Header{ParentHash: sc.parent.Hash(), Number: sc.number, StateRoot: sc.stateRoot, ExtrinsicsRoot: sc.extRoot,
		Digest: types.NewDigest()}
	for _, it := range items {
		if err := h.Digest.Add(it); err != nil {
			panic(fmt.Sprintf("digest add: %v", err))
		}
	}
	return h
}

// seal appends the node's own seal (BlockBuilder.buildBlockSeal) made with kp.
func vfSeal(h *types.Header, kp *sr25519.Keypair) *types.Header {
	s, err := (&BlockBuilder{keypair: kp}).buildBlockSeal(h)
	if err != nil {
		panic(fmt.Sprintf("buildBlockSeal: %v", err))
	}
	if err := h.Digest.Add(*s); err != nil {
		panic(err)
	}
	return h
}

func vfCloneHeader(h *types.Header) *types.Header {
	return &types.Header{ParentHash: h.ParentHash, Number: h.Number, StateRoot: h.StateRoot, ExtrinsicsRoot: h.ExtrinsicsRoot,
		Digest: append(types.NewDigest(), h.Digest...)}
}

// vfReindex re-encodes a BABE pre-digest with another authority index / slot and optional VRF tampering.
func vfReindex(pre *types.PreRuntimeDigest, f func(idx *uint32, slot *uint64, out *[sr25519.VRFOutputLength]byte, proof *[sr25519.VRFProofLength]byte)) *types.PreRuntimeDigest {
	d, err := types.DecodeBabePreDigest(pre.Data)
	if err != nil {
		panic(err)
	}
	switch v := d.(type) {
	case types.BabePrimaryPreDigest:
		f(&v.AuthorityIndex, &v.SlotNumber, &v.VRFOutput, &v.VRFProof)
		return vfPre(v)
	case types.BabeSecondaryVRFPreDigest:
		f(&v.AuthorityIndex, &v.SlotNumber, &v.VrfOutput, &v.VrfProof)
		return vfPre(v)
	case types.BabeSecondaryPlainPreDigest:
		f(&v.AuthorityIndex, &v.SlotNumber, nil, nil)
		return vfPre(v)
	}
	panic("unknown pre-digest")
}

func vfPreKind(pre *types.PreRuntimeDigest) string {
	d, err := types.DecodeBabePreDigest(pre.Data)
	if err != nil {
		return "undecodable"
	}
	switch d.(type) {
	case types.BabePrimaryPreDigest:
		return "primary"
	case types.BabeSecondaryPlainPreDigest:
		return "secondary_plain"
	case types.BabeSecondaryVRFPreDigest:
		return "secondary_vrf"
	}
	return "?"
}

// ---------------------------------------------------------------- verdicts

func vfErrClass(err error) string {
	switch {
	case err == nil:
		return "accepted"
	case errors.Is(err, ErrBadSlotClaim):
		return "ErrBadSlotClaim"
	case errors.Is(err, ErrBadSecondarySlotClaim):
		return "ErrBadSecondarySlotClaim"
	case errors.Is(err, ErrBadSignature):
		return "ErrBadSignature"
	case errors.Is(err, ErrVRFOutputOverThreshold):
		return "ErrVRFOutputOverThreshold"
	case errors.Is(err, ErrInvalidBlockProducerIndex):
		return "ErrInvalidBlockProducerIndex"
	case errors.Is(err, errMissingDigestItems):
		return "errMissingDigestItems"
	case errors.Is(err, errLastDigestItemNotSeal):
		return "errLastDigestItemNotSeal"
	case errors.Is(err, types.ErrNoFirstPreDigest):
		return "ErrNoFirstPreDigest"
	}
	return "other_error"
}

type vfVerdict struct {
	err      error
	panicked any
	slotSt   *vfSlotState
}

func vfGuard(f func() error) (v vfVerdict) {
	defer func() {
		if p := recover(); p != nil {
			v.panicked = p
		}
	}()
	v.err = f()
	return v
}

func (sc *vfScenario) states() (*vfBlockState, *vfEpochState, *vfSlotState) {
	bs := &vfBlockState{parent: sc.parent}
	if sc.parentKind == "genesis" {
		bs.genesis = sc.parent.Hash()
	} else {
		bs.genesis = common.Hash{0xee}
	}
	es := &vfEpochState{parent: sc.parent, parentEpoch: sc.parentEpoch, curEpoch: sc.epoch,
		raw: &types.EpochDataRaw{Authorities: sc.auths, Randomness: sc.rnd},
		cfg: &types.ConfigData{C1: sc.c1, C2: sc.c2, SecondarySlots: sc.allowed}}
	return bs, es, &vfSlotState{}
}

// viaManager: the whole import-time path.
func (sc *vfScenario) viaManager(h *types.Header) vfVerdict {
	bs, es, ss := sc.states()
	vm := NewVerificationManager(bs, ss, es)
	v := vfGuard(func() error { return vm.VerifyBlock(h) })
	v.slotSt = ss
	return v
}

// viaVerifier: epoch info from the manager's own mapping of the configuration, then the verifier directly.
func (sc *vfScenario) viaVerifier(h *types.Header) vfVerdict {
	bs, es, ss := sc.states()
	vm := NewVerificationManager(bs, ss, es)
	v := vfGuard(func() error {
		info, err := vm.getVerifierInfo(sc.epoch, h)
		if err != nil {
			return fmt.Errorf("getVerifierInfo: %w", err)
		}
		return newVerifier(bs, ss, sc.epoch, info, 6*time.Second).verifyAuthorshipRight(h)
	})
	v.slotSt = ss
	return v
}

// viaVerifierT: as viaVerifier, with the epoch threshold replaced (boundary cases of "output below the threshold").
func (sc *vfScenario) viaVerifierT(thr *scale.Uint128) func(h *types.Header) vfVerdict {
	return func(h *types.Header) vfVerdict {
		bs, es, ss := sc.states()
		vm := NewVerificationManager(bs, ss, es)
		v := vfGuard(func() error {
			info, err := vm.getVerifierInfo(sc.epoch, h)
			if err != nil {
				return fmt.Errorf("getVerifierInfo: %w", err)
			}
			info.threshold = thr
			return newVerifier(bs, ss, sc.epoch, info, 6*time.Second).verifyAuthorshipRight(h)
		})
		v.slotSt = ss
		return v
	}
}

type vfEntry struct {
	name string
	run  func(*types.Header) vfVerdict
}

// judge runs both entry points on copies of h and compares with the label.
func (sc *vfScenario) judge(c *vcommon.Case, label string, honest bool, h *types.Header, note map[string]any) {
	sc.judgeWith(c, label, honest, h, note, []vfEntry{{"VerifyBlock", sc.viaManager}, {"verifyAuthorshipRight", sc.viaVerifier}})
}

func (sc *vfScenario) judgeWith(c *vcommon.Case, label string, honest bool, h *types.Header, note map[string]any, entries []vfEntry) {
	enc, encErr := scale.Marshal(*h)
	kind := "no_pre_digest"
	if len(h.Digest) > 0 {
		if v, err := h.Digest[0].Value(); err == nil {
			if p, ok := v.(types.PreRuntimeDigest); ok {
				kind = vfPreKind(&p)
			}
		}
	}
	c.Count("label_"+label, 1)
	if honest {
		c.Count("honest_"+kind, 1)
		c.Count("honest_total", 1)
	} else {
		c.Count("dishonest_total", 1)
	}
	c.Distinct(fmt.Sprintf("%s|%s|sec%d|c%d/%d|n%d|%s", label, kind, sc.allowed, sc.c1, sc.c2, sc.n, sc.parentKind))
	verdicts := map[string]string{}
	for _, ep := range entries {
		hc := vfCloneHeader(h)
		v := ep.run(hc)
		c.Eval(1)
		w := map[string]any{"label": label, "honest": honest, "entry": ep.name, "scenario": sc.describe(), "claim_kind": kind,
			"header_scale": vcommon.Hex(enc), "note": note}
		if v.panicked != nil {
			w["panic"] = fmt.Sprint(v.panicked)
			c.Violation("panic", fmt.Sprintf("%s panicked on a %q header: %v", ep.name, label, v.panicked), w)
			continue
		}
		cls := vfErrClass(v.err)
		verdicts[ep.name] = cls
		if v.err != nil {
			w["error"] = v.err.Error()
		}
		accepted := v.err == nil
		switch {
		case honest && !accepted:
			c.Violation("reject-authorised", fmt.Sprintf("%s rejected an authorised block (%s, %s, SecondarySlots=%d, c=%d/%d, n=%d): %v",
				ep.name, label, kind, sc.allowed, sc.c1, sc.c2, sc.n, v.err), w)
		case !honest && accepted:
			c.Violation("accept-unauthorised", fmt.Sprintf("%s accepted an unauthorised block (%s, %s, SecondarySlots=%d, c=%d/%d, n=%d)",
				ep.name, label, kind, sc.allowed, sc.c1, sc.c2, sc.n), w)
		case !honest:
			c.Count("rej__"+label+"__"+cls, 1)
		}
		if accepted {
			if v.slotSt == nil {
				// shared-manager run: slot table owned by the caller
			} else if v.slotSt.calls == 1 {
				c.Count("accepted_then_equivocation_checked_once", 1)
			} else {
				c.Count("accepted_equivocation_calls_not_1", 1)
			}
		}
		if encErr == nil {
			if after, err := scale.Marshal(*hc); err != nil || string(after) != string(enc) {
				c.Count("header_encoding_changed_by_verification", 1) // observation only
			}
		}
	}
	if vfSampleLabels[label] && !vfSampled[label] {
		vfSampled[label] = true
		c.Sample(map[string]any{"label": label, "expected": map[bool]string{true: "accept", false: "reject"}[honest], "claim_kind": kind,
			"secondary_slots": sc.allowed, "c": fmt.Sprintf("%d/%d", sc.c1, sc.c2), "n": sc.n, "parent": sc.parentKind,
			"verdicts": verdicts, "note": note})
	}
}

var vfSampled = map[string]bool{}
var vfSampleLabels = map[string]bool{"own_claim": true, "wrong_kind_plain_under_cfg2": true, "wrong_kind_vrf_under_cfg1": true,
	"primary_over_threshold": true, "seal_over_different_header": true, "secondary_by_unassigned_authority": true}

// ---------------------------------------------------------------- operators

// ownClaim runs the node's lottery for authority i from a random slot until it yields a claim.
func (sc *vfScenario) ownClaim(r *vcommon.Rand, i int) (*types.PreRuntimeDigest, uint64, bool) {
	start := sc.slot0 + uint64(r.Intn(1<<16))
	for s := start; s < start+600; s++ {
		pre, err := claimSlot(sc.epoch, s, sc.eds[i], sc.kps[i])
		if err == nil {
			return pre, s, true
		}
		if !errors.Is(err, errNotOurTurnToPropose) && !errors.Is(err, errOverPrimarySlotThreshold) {
			panic(fmt.Sprintf("claimSlot: %v", err))
		}
	}
	return nil, 0, false
}

func vfFlipBit(b []byte, bit int) { b[bit/8] ^= 1 << uint(bit%8) }

func (sc *vfScenario) other(r *vcommon.Rand, i int) int {
	j := r.Intn(sc.n - 1)
	if j >= i {
		j++
	}
	return j
}

func vfConsensusItem(r *vcommon.Rand) types.ConsensusDigest {
	return types.ConsensusDigest{ConsensusEngineID: types.BabeEngineID, Data: r.Bytes(r.Range(1, 40))}
}

// runAll applies every operator that the scenario admits.
func (sc *vfScenario) runAll(c *vcommon.Case) {
	r := c.R
	n := sc.n
	skip := func(what string) { c.Count("skipped_"+what, 1) }

	// ---- honest: the node's own claims (completeness)
	for i := 0; i < n; i++ {
		pre, slot, ok := sc.ownClaim(r, i)
		if !ok {
			skip("own_claim_no_slot_in_600")
			continue
		}
		sc.judge(c, "own_claim", true, vfSeal(sc.unsealed(*pre), sc.kps[i]), map[string]any{"author": i, "slot": slot})
	}
	i := r.Intn(n)
	pre, slot, ok := sc.ownClaim(r, i)
	if !ok {
		skip("own_claim_no_slot_in_600")
		return
	}
	honestH := func() *types.Header { return vfSeal(sc.unsealed(*pre), sc.kps[i]) }
	base := map[string]any{"author": i, "slot": slot}
	sc.judge(c, "own_claim_with_consensus_item_before_seal", true,
		vfSeal(sc.unsealed(*pre, vfConsensusItem(r)), sc.kps[i]), base)

	// honest: assigned secondary author claims although it could (or could not) claim primary
	if sc.allowed >= 1 {
		s := sc.slot0 + uint64(r.Intn(1<<16))
		a := sc.secondaryAuthor(s)
		if sc.primaryWin(a, s) {
			c.Count("secondary_claim_where_primary_possible", 1)
		}
		sc.judge(c, "secondary_by_assigned_author", true,
			vfSeal(sc.unsealed(*sc.preSecondary(sc.allowed, uint32(a), s, sc.kps[a])), sc.kps[a]), map[string]any{"author": a, "slot": s})
	}
	// honest: a primary claim under any configuration
	if s, ok := sc.findSlot(r, func(s uint64) bool { return sc.primaryWin(i, s) }); ok {
		sc.judge(c, "primary_under_threshold", true, vfSeal(sc.unsealed(*sc.prePrimary(uint32(i), s, sc.kps[i])), sc.kps[i]),
			map[string]any{"author": i, "slot": s})
	} else {
		skip("primary_no_slot_in_600")
	}

	// ---- the threshold is strict: value == threshold is NOT a win (Substrate: value < threshold)
	for k := 0; k < 3; k++ {
		a := r.Intn(n)
		s := sc.slot0 + uint64(r.Intn(1<<16))
		sc.thresholdBoundary(c, a, s)
	}

	// ---- wrong kind for the configuration (by the assigned author, otherwise flawless)
	for _, kind := range []byte{1, 2} {
		if kind == sc.allowed {
			continue
		}
		s := sc.slot0 + uint64(r.Intn(1<<16))
		a := sc.secondaryAuthor(s)
		lbl := fmt.Sprintf("wrong_kind_%s_under_cfg%d", map[byte]string{1: "plain", 2: "vrf"}[kind], sc.allowed)
		sc.judge(c, lbl, false, vfSeal(sc.unsealed(*sc.preSecondary(kind, uint32(a), s, sc.kps[a])), sc.kps[a]),
			map[string]any{"author": a, "slot": s})
	}

	// ---- secondary claim by an authority that is not assigned to the slot
	if sc.allowed >= 1 && n >= 2 {
		s := sc.slot0 + uint64(r.Intn(1<<16))
		a := sc.secondaryAuthor(s)
		j := sc.other(r, a)
		sc.judge(c, "secondary_by_unassigned_authority", false,
			vfSeal(sc.unsealed(*sc.preSecondary(sc.allowed, uint32(j), s, sc.kps[j])), sc.kps[j]),
			map[string]any{"assigned": a, "claimant": j, "slot": s})
	}

	// ---- wrong authority index (valid, but not the author's)
	if n >= 2 {
		j := sc.other(r, i)
		re := vfReindex(pre, func(idx *uint32, _ *uint64, _ *[32]byte, _ *[64]byte) { *idx = uint32(j) })
		sc.judge(c, "wrong_index_sealed_by_author", false, vfSeal(sc.unsealed(*re), sc.kps[i]), map[string]any{"author": i, "claimed_index": j, "slot": slot})
		sc.judge(c, "wrong_index_sealed_by_index_owner", false, vfSeal(sc.unsealed(*re), sc.kps[j]), map[string]any{"author": i, "claimed_index": j, "slot": slot})
	}
	// ---- index out of range
	for _, idx := range []uint32{uint32(n), uint32(n + 1), 1 << 31, ^uint32(0)} {
		idx := idx
		re := vfReindex(pre, func(p *uint32, _ *uint64, _ *[32]byte, _ *[64]byte) { *p = idx })
		sc.judge(c, "index_out_of_range", false, vfSeal(sc.unsealed(*re), sc.kps[i]), map[string]any{"author": i, "claimed_index": idx, "slot": slot})
	}

	// ---- somebody else's key
	{
		// outsider copies the author's index: VRF (if any) and seal by the outsider
		kind := vfPreKind(pre)
		var fake *types.PreRuntimeDigest
		switch kind {
		case "primary":
			fake = sc.prePrimary(uint32(i), slot, sc.outsider)
		case "secondary_vrf":
			fake = sc.preSecondary(2, uint32(i), slot, sc.outsider)
		default:
			fake = sc.preSecondary(1, uint32(i), slot, sc.outsider)
		}
		sc.judge(c, "outsider_key_claims_authors_index", false, vfSeal(sc.unsealed(*fake), sc.outsider), base)
		// the genuine pre-digest, sealed by somebody else (the only defence of a plain secondary claim)
		sc.judge(c, "sealed_by_outsider", false, vfSeal(sc.unsealed(*pre), sc.outsider), base)
		if n >= 2 {
			j := sc.other(r, i)
			sc.judge(c, "sealed_by_other_authority", false, vfSeal(sc.unsealed(*pre), sc.kps[j]), map[string]any{"author": i, "sealer": j, "slot": slot})
		}
		// VRF by the outsider, seal by the genuine author
		if kind != "secondary_plain" {
			sc.judge(c, "vrf_by_outsider_sealed_by_author", false, vfSeal(sc.unsealed(*fake), sc.kps[i]), base)
		}
	}
	if sc.allowed == 1 {
		// plain secondary with the right index, sealed by somebody else
		s := sc.slot0 + uint64(r.Intn(1<<16))
		a := sc.secondaryAuthor(s)
		sc.judge(c, "secondary_plain_sealed_by_outsider", false,
			vfSeal(sc.unsealed(*sc.preSecondary(1, uint32(a), s, nil)), sc.outsider), map[string]any{"assigned": a, "slot": s})
	}

	// ---- tampered VRF (needs a claim with a VRF)
	vrfPre, vrfSlot, vrfAuthor := pre, slot, i
	if vfPreKind(pre) == "secondary_plain" {
		vrfPre = nil
		if s, ok := sc.findSlot(r, func(s uint64) bool { return sc.primaryWin(i, s) }); ok {
			vrfPre, vrfSlot = sc.prePrimary(uint32(i), s, sc.kps[i]), s
		}
	}
	if vrfPre != nil {
		nb := map[string]any{"author": vrfAuthor, "slot": vrfSlot}
		c.Count("vrf_tamper_on_"+vfPreKind(vrfPre), 1)
		bit := r.Intn(256)
		re := vfReindex(vrfPre, func(_ *uint32, _ *uint64, out *[32]byte, _ *[64]byte) { vfFlipBit(out[:], bit) })
		sc.judge(c, "vrf_output_bit_flip", false, vfSeal(sc.unsealed(*re), sc.kps[vrfAuthor]), map[string]any{"author": vrfAuthor, "slot": vrfSlot, "bit": bit})
		bit = r.Intn(512)
		re = vfReindex(vrfPre, func(_ *uint32, _ *uint64, _ *[32]byte, proof *[64]byte) { vfFlipBit(proof[:], bit) })
		sc.judge(c, "vrf_proof_bit_flip", false, vfSeal(sc.unsealed(*re), sc.kps[vrfAuthor]), map[string]any{"author": vrfAuthor, "slot": vrfSlot, "bit": bit})
		// VRF made for another transcript (epoch, randomness or slot), same digest fields otherwise
		var o2 [32]byte
		var p2 [64]byte
		which := r.Intn(3)
		switch which {
		case 0:
			o2, p2 = vfVRF(sc.kps[vrfAuthor], sc.rnd, vrfSlot, sc.epoch+1)
		case 1:
			rnd2 := sc.rnd
			rnd2[r.Intn(32)] ^= 1
			o2, p2 = vfVRF(sc.kps[vrfAuthor], rnd2, vrfSlot, sc.epoch)
		default:
			o2, p2 = vfVRF(sc.kps[vrfAuthor], sc.rnd, vrfSlot+1, sc.epoch)
		}
		re = vfReindex(vrfPre, func(_ *uint32, _ *uint64, out *[32]byte, proof *[64]byte) { *out, *proof = o2, p2 })
		nb["changed"] = []string{"epoch", "randomness", "slot"}[which]
		sc.judge(c, "vrf_for_other_transcript", false, vfSeal(sc.unsealed(*re), sc.kps[vrfAuthor]), nb)
	} else {
		skip("vrf_tamper_no_vrf_claim")
	}

	// ---- primary claim whose output is not under the threshold (the node's own lottery refused the slot)
	if sc.c1 != sc.c2 {
		if s, ok := sc.findSlot(r, func(s uint64) bool { return !sc.primaryWin(i, s) }); ok {
			sc.judge(c, "primary_over_threshold", false, vfSeal(sc.unsealed(*sc.prePrimary(uint32(i), s, sc.kps[i])), sc.kps[i]),
				map[string]any{"author": i, "slot": s})
		} else {
			skip("over_threshold_no_slot_in_600")
		}
	}

	// ---- seal
	{
		h := honestH()
		last := len(h.Digest) - 1
		v, _ := h.Digest[last].Value()
		sd := v.(types.SealDigest)
		sig := append([]byte(nil), sd.Data...)
		bit := r.Intn(len(sig) * 8)
		vfFlipBit(sig, bit)
		h.Digest = h.Digest[:last]
		if err := h.Digest.Add(types.SealDigest{ConsensusEngineID: sd.ConsensusEngineID, Data: sig}); err != nil {
			panic(err)
		}
		sc.judge(c, "seal_bit_flip", false, h, map[string]any{"author": i, "slot": slot, "bit": bit})
	}
	{
		// seal made over a different header
		alt := sc.unsealed(*pre)
		which := r.Intn(5)
		switch which {
		case 0:
			alt.Number++
		case 1:
			alt.StateRoot[r.Intn(32)] ^= 0x80
		case 2:
			alt.ExtrinsicsRoot[r.Intn(32)] ^= 1
		case 3:
			alt.ParentHash[r.Intn(32)] ^= 1
		default:
			if err := alt.Digest.Add(vfConsensusItem(r)); err != nil {
				panic(err)
			}
		}
		s, err := (&BlockBuilder{keypair: sc.kps[i]}).buildBlockSeal(alt)
		if err != nil {
			panic(err)
		}
		h := sc.unsealed(*pre)
		if err := h.Digest.Add(*s); err != nil {
			panic(err)
		}
		sc.judge(c, "seal_over_different_header", false, h, map[string]any{"author": i, "slot": slot,
			"changed": []string{"number", "state_root", "extrinsics_root", "parent_hash", "extra_digest_item"}[which]})
	}
	{
		// signature over the SCALE header itself instead of its BLAKE2b-256 hash
		h := sc.unsealed(*pre)
		enc, err := scale.Marshal(*h)
		if err != nil {
			panic(err)
		}
		sig, err := sc.kps[i].Sign(enc)
		if err != nil {
			panic(err)
		}
		if err := h.Digest.Add(types.SealDigest{ConsensusEngineID: types.BabeEngineID, Data: sig}); err != nil {
			panic(err)
		}
		sc.judge(c, "seal_over_unhashed_header", false, h, base)
	}

	// ---- missing pieces
	{
		seal := func(h *types.Header) types.SealDigest {
			s, err := (&BlockBuilder{keypair: sc.kps[i]}).buildBlockSeal(h)
			if err != nil {
				panic(err)
			}
			return *s
		}
		sc.judge(c, "missing_seal", false, sc.unsealed(*pre), base)
		sc.judge(c, "missing_seal_last_is_consensus", false, sc.unsealed(*pre, vfConsensusItem(r)), base)
		sc.judge(c, "empty_digest", false, sc.unsealed(), base)
		e := sc.unsealed()
		sc.judge(c, "missing_pre_digest_seal_only", false, sc.unsealed(seal(e)), base)
		ci := vfConsensusItem(r)
		e2 := sc.unsealed(ci)
		sc.judge(c, "missing_pre_digest_consensus_then_seal", false, sc.unsealed(ci, seal(e2)), base)
		g := types.PreRuntimeDigest{ConsensusEngineID: types.BabeEngineID, Data: r.Bytes(r.Range(0, 120))}
		if r.Chance(1, 3) { // well-formed variant index, truncated body
			g.Data = append([]byte{byte(r.Range(1, 3))}, r.Bytes(r.Range(0, 11))...)
		}
		if _, err := types.DecodeBabePreDigest(g.Data); err != nil {
			sc.judge(c, "garbage_pre_digest", false, vfSeal(sc.unsealed(g), sc.kps[i]), map[string]any{"data": vcommon.Hex(g.Data)})
		} else {
			skip("garbage_pre_digest_decodes")
		}
	}
}

// thresholdBoundary takes authority a's VRF output for slot s (any slot: the threshold is what is varied), computes its
// 128-bit lottery value v with the harness' own transcript + schnorrkel make_bytes, and runs the node's claim and the
// verifier with epoch thresholds v-1, v, v+1.
func (sc *vfScenario) thresholdBoundary(c *vcommon.Case, a int, s uint64) {
	out, proof := vfVRF(sc.kps[a], sc.rnd, s, sc.epoch)
	v, err := vfLotteryValue(out, sc.kps[a].Public().(*sr25519.PublicKey), sc.rnd, s, sc.epoch)
	if err != nil {
		c.Inconclusive("make_bytes: " + err.Error())
		return
	}
	h := vfSeal(sc.unsealed(*vfPre(*types.NewBabePrimaryPreDigest(uint32(a), s, out, proof))), sc.kps[a])
	one := big.NewInt(1)
	for _, t := range []struct {
		label  string
		thr    *big.Int
		honest bool
	}{
		{"primary_value_equals_threshold", new(big.Int).Set(v), false},
		{"primary_value_one_below_threshold", new(big.Int).Add(v, one), true},
		{"primary_value_one_above_threshold", new(big.Int).Sub(v, one), false},
	} {
		if t.thr.Sign() < 0 || t.thr.Cmp(vfMaxU128) > 0 {
			c.Count("skipped_threshold_boundary_out_of_range", 1)
			continue
		}
		thr := vfBigU128(t.thr)
		note := map[string]any{"author": a, "slot": s, "vrf_value": v.String(), "threshold": t.thr.String()}
		sc.judgeWith(c, t.label, t.honest, h, note, []vfEntry{{"verifyAuthorshipRight(threshold set)", sc.viaVerifierT(thr)}})
		// authoring side: the node's own lottery must agree
		c.Eval(1)
		_, cerr := claimPrimarySlot(sc.rnd, s, sc.epoch, thr, sc.kps[a])
		switch {
		case cerr != nil && !errors.Is(cerr, errOverPrimarySlotThreshold):
			c.Violation("claim-error", fmt.Sprintf("claimPrimarySlot: %v", cerr), note)
		case t.honest && cerr != nil:
			c.Violation("claim-refused-below-threshold", fmt.Sprintf("claimPrimarySlot refused a slot whose VRF value %s is below the threshold %s", v, t.thr), note)
		case !t.honest && cerr == nil:
			c.Violation("claim-at-or-above-threshold", fmt.Sprintf("claimPrimarySlot claimed a slot whose VRF value %s is not below the threshold %s", v, t.thr), note)
		default:
			c.Count("claim_boundary_agrees", 1)
		}
	}
}

// ---------------------------------------------------------------- test

type vfCfg struct {
	n       int
	allowed byte
	c1, c2  uint64
}

func vfRunScenario(c *vcommon.Case, cfg vfCfg) {
	sc, err := vfNewScenario(c.R, cfg.n, cfg.allowed, cfg.c1, cfg.c2)
	if err != nil {
		c.Inconclusive("scenario: " + err.Error())
		return
	}
	c.Count(fmt.Sprintf("scenario_cfg%d_c%d/%d", cfg.allowed, cfg.c1, cfg.c2), 1)
	c.Count("scenario_parent_"+sc.parentKind, 1)
	c.Count(fmt.Sprintf("scenario_n%d", cfg.n), 1)
	sc.runAll(c)
}

func TestVerifC24(t *testing.T) {
	r := vcommon.Start(t, "C24")
	defer r.Finish()

	selfErr := vfBlake2bSelfCheck()
	r.Fixed("selfcheck", r.Shards, func(c *vcommon.Case) {
		c.Eval(1)
		if selfErr != nil {
			c.Inconclusive("reference model self-validation failed: " + selfErr.Error())
		} else {
			c.Count("selfcheck_ok", 1)
		}
	})
	if selfErr != nil {
		return
	}

	for _, f := range []string{"honest_primary", "honest_secondary_plain", "honest_secondary_vrf"} {
		r.Floor(f, 100)
	}
	for _, l := range []string{"own_claim", "secondary_by_assigned_author", "primary_under_threshold",
		"wrong_kind_plain_under_cfg0", "wrong_kind_vrf_under_cfg0", "wrong_kind_vrf_under_cfg1", "wrong_kind_plain_under_cfg2",
		"secondary_by_unassigned_authority", "wrong_index_sealed_by_author", "wrong_index_sealed_by_index_owner",
		"index_out_of_range", "outsider_key_claims_authors_index", "sealed_by_outsider", "sealed_by_other_authority",
		"secondary_plain_sealed_by_outsider", "vrf_output_bit_flip", "vrf_proof_bit_flip", "vrf_for_other_transcript",
		"primary_over_threshold", "seal_bit_flip", "seal_over_different_header", "seal_over_unhashed_header",
		"missing_seal", "missing_pre_digest_seal_only", "garbage_pre_digest"} {
		r.Floor("label_"+l, 20)
	}
	r.Floor("secondary_claim_where_primary_possible", 10)
	for _, l := range []string{"primary_value_equals_threshold", "primary_value_one_below_threshold", "primary_value_one_above_threshold"} {
		r.Floor("label_"+l, 300)
	}
	r.Floor("claim_boundary_agrees", 900)
	r.Floor("shared_manager_same_epoch_different_fork_data", 40)
	r.Floor("shared_manager_fork_switches", 150)
	for _, v := range vfForkVariants {
		r.Floor("fork_variant_"+v, 8)
	}
	for _, l := range []string{"fork_own_claim", "cross_author_of_other_fork", "cross_vrf_for_other_forks_randomness",
		"cross_secondary_kind_of_other_fork", "cross_primary_under_other_forks_threshold"} {
		r.Floor("label_"+l, 10)
	}
	for _, kn := range []string{"plain", "vrf"} {
		r.Floor("same_slot_cases_"+kn, 15)
		r.Floor("same_slot_cases_author_differs_"+kn, 10)
		r.Floor("same_slot_same_n_after_other_randomness_"+kn, 400)
		r.Floor("same_slot_same_n_after_other_randomness_author_differs_"+kn, 300)
		r.Floor("direct_verifications_"+kn, 400)
	}
	r.Floor("same_slot_interleaved_A_B_A", 100)
	r.Floor("same_slot_cases_different_authority_lists_of_equal_length", 10)
	r.Floor("label_same_slot_secondary_by_assigned_author", 200)
	r.Floor("label_same_slot_secondary_by_author_under_other_forks_randomness", 60)
	r.Floor("vrf_tamper_on_primary", 50)
	r.Floor("vrf_tamper_on_secondary_vrf", 10)
	r.Floor("scenario_parent_skipped-epochs", 3)

	// Fixed corpus: every configuration x c x {1,2,5} authorities once (seed independent). Contains the minimal
	// witness of the defect fixed on branch fix-babe: SecondarySlots=2 admits a plain claim, SecondarySlots=1 a VRF claim.
	var fixed []vfCfg
	for _, allowed := range []byte{0, 1, 2} {
		for _, cc := range [][2]uint64{{1, 4}, {1, 2}, {1, 1}} {
			for _, n := range []int{1, 2, 5} {
				fixed = append(fixed, vfCfg{n, allowed, cc[0], cc[1]})
			}
		}
	}
	r.Fixed("corpus", len(fixed), func(c *vcommon.Case) { vfRunScenario(c, fixed[c.Idx]) })

	// competing forks on one manager: one scenario per kind of difference (seed independent), then seeded ones
	r.Fixed("forks-corpus", len(vfForkVariants), func(c *vcommon.Case) { vfRunForks(c, vfForkVariants[c.Idx]) })
	r.Cases("forks", r.Scale(80), func(c *vcommon.Case) { vfRunForks(c, vfForkVariants[c.Idx%len(vfForkVariants)]) })

	// the SAME slot number on forks whose randomness differs (zz_verif_c24_sameslot_test.go): plain / VRF x same keys /
	// different authority lists of equal length, through the manager and directly at verifySecondarySlotPlain / VRF
	r.Fixed("sameslot-corpus", 8, func(c *vcommon.Case) { vfRunSameSlot(c, byte(1+c.Idx%2), (c.Idx/2)%2 == 0) })
	r.Cases("sameslot", r.Scale(60), func(c *vcommon.Case) { vfRunSameSlot(c, byte(1+c.Idx%2), c.R.Bool()) })
	r.Cases("secverify-direct", r.Scale(80), func(c *vcommon.Case) { vfRunSecVerifyDirect(c, byte(1+c.Idx%2)) })

	r.Cases("gen", r.Scale(400), func(c *vcommon.Case) {
		cc := vcommon.Pick(c.R, [][2]uint64{{1, 4}, {1, 2}, {1, 1}})
		if c.R.Chance(1, 6) {
			cc = vcommon.Pick(c.R, [][2]uint64{{3, 4}, {1, 10}, {2, 3}, {7, 7}})
		}
		vfRunScenario(c, vfCfg{c.R.Range(1, 5), byte(c.R.Intn(3)), cc[0], cc[1]})
	})
}
