//go:build verif

package babe

// C24, the SAME slot number on competing forks. Who is assigned to a secondary slot is a function of (epoch randomness,
// slot, number of authorities); two forks of one epoch number may carry different randomness (and different authority
// lists of equal length), so the same slot number has, in general, a different rightful author on each fork. The expected
// verdict comes from the harness' own BLAKE2b model per (randomness, slot, n) and does not depend on what was verified
// before in this process.
//
//   vfRunSameSlot        2-3 forks (same epoch number, same n, same secondary kind, different randomness; keys equal or
//                        different), ONE slot number; per visit of a fork a block by the fork's assigned author (accept)
//                        or by the author assigned under ANOTHER fork's randomness (index and key of this fork's
//                        authority list, flawless VRF and seal: reject); visiting order A,B,A(,C,B,A) through one
//                        VerificationManager.VerifyBlock, then again through getVerifierInfo + verifyAuthorshipRight.
//   vfRunSecVerifyDirect the same at the level of verifySecondarySlotPlain / verifySecondarySlotVRF: every index 0..n-1
//                        (small n) under each randomness in the order A,B,A(,C,B,A): accept iff index = model author.

import (
	"fmt"
	"time"

	"github.com/ChainSafe/gossamer/dot/types"
	"github.com/ChainSafe/gossamer/lib/crypto/sr25519"
	"github.com/ChainSafe/gossamer/pkg/scale"
	"github.com/ChainSafe/gossamer/zz_verif/vcommon"
)

var vfKindName = map[byte]string{1: "plain", 2: "vrf"}

// vfVisitOrder: A,B,A for two forks, A,B,A,C,B,A for three; the first fork is drawn.
func vfVisitOrder(r *vcommon.Rand, nf int) []int {
	p := r.Perm(nf)
	o := []int{p[0], p[1], p[0]}
	if nf == 3 {
		o = append(o, p[2], p[1], p[0])
	}
	if r.Bool() {
		o = append(o, p[1])
	}
	return o
}

func vfRunSameSlot(c *vcommon.Case, kind byte, sameKeys bool) {
	r := c.R
	kn := vfKindName[kind]
	epoch := uint64(r.Range(1, 6))
	if r.Chance(1, 4) {
		epoch = r.Uint64()>>uint(r.Range(8, 60)) + 1
	}
	pk := func() string { return vcommon.Pick(r, []string{"same-epoch", "previous-epoch"}) }
	n := r.Range(2, 5)
	if r.Chance(1, 10) {
		n = 1
	}
	cc := vcommon.Pick(r, [][2]uint64{{1, 4}, {1, 2}, {1, 1}})
	nf := r.Range(2, 3)
	var forks []*vfScenario
	for i := 0; i < nf; i++ {
		o := vfOpts{epoch: &epoch, parentKind: pk()}
		if i > 0 && sameKeys {
			o.seeds = forks[0].seeds
		}
		if i > 0 && r.Chance(1, 5) { // randomness one bit away from the first fork's
			near := forks[0].rnd
			near[r.Intn(32)] ^= 1 << uint(r.Intn(8))
			o.rnd = &near
		}
		F, err := vfNewScenarioOpts(r, n, kind, cc[0], cc[1], o)
		if err != nil {
			c.Inconclusive("scenario: " + err.Error())
			return
		}
		forks = append(forks, F)
	}
	// one slot number for all forks; mostly one where the model assigns different authors under the forks' randomness
	start := forks[0].slot0 + uint64(r.Intn(1<<16))
	slot := start
	authors := func(s uint64) (a []int, differ bool) {
		for _, F := range forks {
			a = append(a, F.secondaryAuthor(s))
			differ = differ || a[len(a)-1] != a[0]
		}
		return a, differ
	}
	if !r.Chance(1, 6) {
		for s := start; s < start+256; s++ {
			if _, d := authors(s); d {
				slot = s
				break
			}
		}
	}
	auth, differ := authors(slot)
	c.Count("same_slot_cases_"+kn, 1)
	if differ {
		c.Count("same_slot_cases_author_differs_"+kn, 1)
	}
	if sameKeys {
		c.Count("same_slot_cases_same_keys", 1)
	} else {
		c.Count("same_slot_cases_different_authority_lists_of_equal_length", 1)
	}

	order := vfVisitOrder(r, nf)
	visits := make([]int, nf)
	var blocks []vfForkBlock
	for _, fi := range order {
		F := forks[fi]
		a := auth[fi]
		other := -1 // an index that is the author under another fork's randomness but not under this one's
		for gi := range forks {
			if auth[gi] != a && (other < 0 || r.Bool()) {
				other = auth[gi]
			}
		}
		note := map[string]any{"slot": slot, "kind": kn, "model_author_on_this_fork": a, "model_authors_by_fork": auth}
		if visits[fi]%2 == 1 && other >= 0 {
			note["claimant"] = other
			blocks = append(blocks, vfForkBlock{fi, "same_slot_secondary_by_author_under_other_forks_randomness", false,
				vfSeal(F.unsealed(*F.preSecondary(kind, uint32(other), slot, F.kps[other])), F.kps[other]), note})
		} else {
			note["claimant"] = a
			blocks = append(blocks, vfForkBlock{fi, "same_slot_secondary_by_assigned_author", true,
				vfSeal(F.unsealed(*F.preSecondary(kind, uint32(a), slot, F.kps[a])), F.kps[a]), note})
		}
		visits[fi]++
	}

	bs := &vfForkBlockState{forks: forks}
	es := &vfForkEpochState{forks: forks}
	vm := NewVerificationManager(bs, &vfSlotState{}, es)
	desc := make([]map[string]any, nf)
	for i, F := range forks {
		desc[i] = F.describe()
	}
	entries := []struct {
		name string
		run  func(F *vfScenario, h *types.Header) vfVerdict
	}{
		{"VerifyBlock (one manager)", func(_ *vfScenario, h *types.Header) vfVerdict {
			return vfGuard(func() error { return vm.VerifyBlock(h) })
		}},
		{"getVerifierInfo + verifyAuthorshipRight", func(F *vfScenario, h *types.Header) vfVerdict {
			return vfGuard(func() error {
				ss := &vfSlotState{}
				m := NewVerificationManager(bs, ss, es)
				info, err := m.getVerifierInfo(F.epoch, h)
				if err != nil {
					return fmt.Errorf("getVerifierInfo: %w", err)
				}
				return newVerifier(bs, ss, F.epoch, info, 6*time.Second).verifyAuthorshipRight(h)
			})
		}},
	}
	for _, ep := range entries {
		var history []string
		for k, b := range blocks {
			F := forks[b.fork]
			enc, _ := scale.Marshal(*b.h)
			v := ep.run(F, vfCloneHeader(b.h))
			c.Eval(1)
			c.Count("label_"+b.label, 1)
			c.Count("same_slot_verifications_"+kn, 1)
			// earlier verifications of this slot number and n in this case under another randomness
			prevOther, prevOtherAuthor := false, false
			for _, pb := range blocks[:k] {
				if pb.fork != b.fork {
					prevOther = true
					prevOtherAuthor = prevOtherAuthor || auth[pb.fork] != auth[b.fork]
				}
			}
			if prevOther {
				c.Count("same_slot_same_n_after_other_randomness_"+kn, 1)
			}
			if prevOtherAuthor {
				c.Count("same_slot_same_n_after_other_randomness_author_differs_"+kn, 1)
			}
			if k >= 2 && blocks[k-1].fork != b.fork && blocks[k-2].fork == b.fork {
				c.Count("same_slot_interleaved_A_B_A", 1)
			}
			history = append(history, fmt.Sprintf("%d:fork%d:%s:%s", k, b.fork, b.label, vfErrClass(v.err)))
			w := map[string]any{"family": "same-slot forks", "entry": ep.name, "position": k, "fork": b.fork, "label": b.label, "honest": b.honest,
				"forks": desc, "header_scale": vcommon.Hex(enc), "note": b.note, "history": append([]string(nil), history...)}
			c.Distinct(fmt.Sprintf("sameslot|%s|%s|%v|pos%d|n%d|nf%d|differ%v", kn, b.label, sameKeys, k, n, nf, differ))
			switch {
			case v.panicked != nil:
				w["panic"] = fmt.Sprint(v.panicked)
				c.Violation("panic", fmt.Sprintf("%s panicked on %q: %v", ep.name, b.label, v.panicked), w)
			case b.honest && v.err != nil:
				w["error"] = v.err.Error()
				c.Violation("reject-authorised", fmt.Sprintf("%s: secondary %s claim of slot %d by index %d, the author assigned under this fork's "+
					"randomness (n=%d), was rejected after the same slot was verified on another fork: %v", ep.name, kn, slot, auth[b.fork], n, v.err), w)
			case !b.honest && v.err == nil:
				c.Violation("accept-unauthorised", fmt.Sprintf("%s: secondary %s claim of slot %d by index %v was accepted; under this fork's randomness "+
					"the assigned author is %d (n=%d); the claimant is the author under another fork's randomness", ep.name, kn, slot, b.note["claimant"], auth[b.fork], n), w)
			case !b.honest:
				c.Count("rej__"+b.label+"__"+vfErrClass(v.err), 1)
			}
		}
		if c.Idx < 2 && ep.name[0] == 'V' {
			c.Sample(map[string]any{"kind": "same_slot_on_forks_with_different_randomness", "secondary": kn, "slot": slot, "n": n,
				"model_authors_by_fork": auth, "same_keys": sameKeys, "order_and_verdicts": history})
		}
	}
}

// vfRunSecVerifyDirect drives verifySecondarySlotPlain / verifySecondarySlotVRF themselves.
func vfRunSecVerifyDirect(c *vcommon.Case, kind byte) {
	r := c.R
	kn := vfKindName[kind]
	n := r.Range(2, 6)
	if r.Chance(1, 10) {
		n = 1
	}
	if kind == 1 && r.Chance(1, 5) {
		n = vfPickN(r)
	}
	nf := r.Range(2, 3)
	epoch := r.Uint64() >> uint(r.Intn(64))
	slot := r.Uint64() >> uint(r.Intn(62))
	sameKeys := r.Bool()
	rnds := make([]Randomness, nf)
	kps := make([][]*sr25519.Keypair, nf)
	for f := range rnds {
		copy(rnds[f][:], r.Bytes(32))
		if f > 0 && r.Chance(1, 5) {
			rnds[f] = rnds[0]
			rnds[f][r.Intn(32)] ^= 1 << uint(r.Intn(8))
		}
		if kind == 2 {
			if f > 0 && sameKeys {
				kps[f] = kps[0]
				continue
			}
			for i := 0; i < n; i++ {
				kp, err := sr25519.NewKeypairFromSeed(r.Bytes(32))
				if err != nil {
					c.Inconclusive("keypair: " + err.Error())
					return
				}
				kps[f] = append(kps[f], kp)
			}
		}
	}
	auth := make([]uint64, nf)
	differ := false
	if !r.Chance(1, 6) && n > 1 {
		for s := slot; s < slot+256; s++ {
			d := false
			for f := range rnds {
				d = d || vfSecondaryAuthor(rnds[f], s, uint64(n)) != vfSecondaryAuthor(rnds[0], s, uint64(n))
			}
			if d {
				slot = s
				break
			}
		}
	}
	for f := range rnds {
		auth[f] = vfSecondaryAuthor(rnds[f], slot, uint64(n))
		differ = differ || auth[f] != auth[0]
	}
	c.Count("direct_cases_"+kn, 1)
	order := vfVisitOrder(r, nf)
	var history []string
	for k, f := range order {
		var idxs []uint64
		if n <= 6 {
			for i := 0; i < n; i++ {
				idxs = append(idxs, uint64(i))
			}
		} else {
			idxs = []uint64{auth[f], (auth[f] + 1) % uint64(n), auth[(f+1)%nf], 0, uint64(n - 1), uint64(r.Intn(n))}
		}
		for _, idx := range idxs {
			want := idx == auth[f]
			var v vfVerdict
			if kind == 1 {
				v = vfGuard(func() error { return verifySecondarySlotPlain(uint32(idx), slot, n, rnds[f]) })
			} else {
				kp := kps[f][idx]
				out, proof := vfVRF(kp, rnds[f], slot, epoch)
				d := types.NewBabeSecondaryVRFPreDigest(uint32(idx), slot, out, proof)
				v = vfGuard(func() error {
					ok, err := verifySecondarySlotVRF(d, kp.Public().(*sr25519.PublicKey), epoch, n, rnds[f])
					if err == nil && !ok {
						return ErrBadSlotClaim
					}
					return err
				})
			}
			c.Eval(1)
			c.Count("direct_verifications_"+kn, 1)
			prevOther, prevOtherAuthor := false, false
			for _, pf := range order[:k] {
				if pf != f {
					prevOther = true
					prevOtherAuthor = prevOtherAuthor || auth[pf] != auth[f]
				}
			}
			if prevOther {
				c.Count("same_slot_same_n_after_other_randomness_"+kn, 1)
			}
			if prevOtherAuthor {
				c.Count("same_slot_same_n_after_other_randomness_author_differs_"+kn, 1)
			}
			history = append(history, fmt.Sprintf("%d:rnd%d:idx%d:%s", k, f, idx, vfErrClass(v.err)))
			if len(history) > 60 {
				history = history[len(history)-60:]
			}
			w := map[string]any{"family": "direct verifySecondarySlot" + map[byte]string{1: "Plain", 2: "VRF"}[kind], "slot": slot, "n": n, "epoch": epoch,
				"index": idx, "randomness_used": vcommon.Hex(rnds[f][:]), "model_authors_by_randomness": auth, "visit_order": order, "position": k,
				"history": append([]string(nil), history...)}
			switch {
			case v.panicked != nil:
				w["panic"] = fmt.Sprint(v.panicked)
				c.Violation("panic", fmt.Sprintf("verifySecondarySlot (%s) panicked: %v", kn, v.panicked), w)
			case want && v.err != nil:
				w["error"] = v.err.Error()
				c.Violation("reject-authorised", fmt.Sprintf("verifySecondarySlot (%s): index %d = BE(BLAKE2b-256(randomness||LE64(%d))) mod %d under the "+
					"randomness passed was refused: %v", kn, idx, slot, n, v.err), w)
			case !want && v.err == nil:
				c.Violation("accept-unauthorised", fmt.Sprintf("verifySecondarySlot (%s): index %d admitted for slot %d, n=%d; under the randomness passed "+
					"the author is %d", kn, idx, slot, n, auth[f]), w)
			case !want:
				c.Count("rej__direct_secondary_"+kn+"__"+vfErrClass(v.err), 1)
			default:
				c.Count("direct_accepted_"+kn, 1)
			}
		}
	}
	c.Distinct(fmt.Sprintf("direct|%s|n%d|nf%d|differ%v|%d", kn, n, nf, differ, slot))
	if c.Idx < 2 {
		c.Sample(map[string]any{"kind": "direct_verifySecondarySlot_same_slot_other_randomness", "secondary": kn, "slot": slot, "n": n,
			"model_authors_by_randomness": auth, "visit_order": order, "last_verdicts": history})
	}
}
