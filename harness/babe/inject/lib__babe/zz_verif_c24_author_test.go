//go:build verif

package babe

// C24, authoring side end to end: "Every claim produced by the node's own slot lottery passes this verification."
//
// The other C24 families hand claimSlot the (epoch, epochData) the harness built itself. Here the node chooses them:
// a babe Service over stub states is asked through its PRODUCTION paths (initiateAndGetEpochHandler, initiateEpoch +
// newEpochHandler, handleEpoch) to initiate an epoch on a generated chain - at genesis (getFirstAuthoringSlot), in the
// best block's own epoch, in the following epoch, or k >= 2 epochs later (skipped epochs) - and the slots its epoch
// handler pre-claimed (slotToPreRuntimeDigest) are turned into sealed headers (BlockBuilder.buildBlockSeal) and given to
// an INDEPENDENT VerificationManager whose stub states answer from the harness' ground truth (first slot of the chain,
// epoch length, data per epoch number on this chain). Every epoch number carries different (authorities, index of the
// node's key, randomness, c, secondary kind), so initiating with another epoch's data is observable.
//
// Oracle: every claimed slot's block verifies; no slot outside [epoch start, epoch end) is claimed; the pre-digest of a
// claim names the claimed slot and the index of the node's key in THAT epoch's authority list.

import (
	"context"
	"errors"
	"fmt"
	"sort"
	"strings"
	"testing"
	"time"

	"github.com/ChainSafe/gossamer/dot/types"
	"github.com/ChainSafe/gossamer/internal/log"
	"github.com/ChainSafe/gossamer/lib/common"
	"github.com/ChainSafe/gossamer/lib/crypto/sr25519"
	"github.com/ChainSafe/gossamer/pkg/scale"
	"github.com/ChainSafe/gossamer/zz_verif/vcommon"
)

// ---------------------------------------------------------------- ground truth

// vaDef is what one epoch number means on the generated chain.
type vaDef struct {
	tag     string
	auths   []types.AuthorityRaw
	nodeIdx int // index of the node's key in auths, -1: the node is no authority of this epoch
	rnd     Randomness
	c1, c2  uint64
	allowed byte
}

func (d *vaDef) raw() *types.EpochDataRaw {
	return &types.EpochDataRaw{Authorities: append([]types.AuthorityRaw(nil), d.auths...), Randomness: d.rnd}
}
func (d *vaDef) cfg() *types.ConfigData {
	return &types.ConfigData{C1: d.c1, C2: d.c2, SecondarySlots: d.allowed}
}
func (d *vaDef) describe() map[string]any {
	if d == nil {
		return nil
	}
	keys := make([]string, len(d.auths))
	for i := range keys {
		keys[i] = vcommon.Hex(d.auths[i].Key[:])
	}
	return map[string]any{"tag": d.tag, "authority_keys": keys, "node_index": d.nodeIdx, "randomness": vcommon.Hex(d.rnd[:]),
		"c": fmt.Sprintf("%d/%d", d.c1, d.c2), "secondary_slots": d.allowed}
}

type vaWorld struct {
	L       uint64 // epoch length in slots
	F       uint64 // slot of block #1 of this chain (0: no block #1 yet)
	slotDur time.Duration
	past    bool // all slots of this world lie decades in the past (handleEpoch returns at once)

	nodeSeed []byte
	node     *sr25519.Keypair
	pool     []types.AuthorityRaw // other authorities (public keys only)

	genesisHdr *types.Header
	best       *types.Header
	p          uint64                        // epoch of best
	headers    map[common.Hash]*types.Header // what the verifier's block state knows
	stored     map[uint64]*vaDef             // authoring node's epoch state: data per epoch NUMBER as stored when an epoch is initiated
	truth      map[uint64]*vaDef             // verifier's view: data of an epoch number on this chain
	current    uint64                        // StoreCurrentEpoch / GetCurrentEpoch
	calls      []string                      // epoch-state calls of the authoring node during one initiation
	misuse     []string                      // calls with arguments the node has no reason to pass
	forceAllow *byte
	forceC     *[2]uint64
	ndef       int
	prevSkip   bool
	history    []string
}

func (w *vaWorld) newDef(r *vcommon.Rand, tag string, mayBeAbsent bool) *vaDef {
	w.ndef++
	d := &vaDef{tag: fmt.Sprintf("%s#%d", tag, w.ndef)}
	n := r.Range(1, 5)
	perm := r.Perm(len(w.pool))
	for i := 0; i < n-1; i++ {
		d.auths = append(d.auths, w.pool[perm[i]])
	}
	d.nodeIdx = r.Intn(n)
	me := *types.NewAuthority(w.node.Public(), 1).ToRaw()
	d.auths = append(d.auths[:d.nodeIdx], append([]types.AuthorityRaw{me}, d.auths[d.nodeIdx:]...)...)
	if mayBeAbsent && r.Chance(1, 16) {
		d.auths[d.nodeIdx] = w.pool[perm[n-1]]
		d.nodeIdx = -1
	}
	copy(d.rnd[:], r.Bytes(32))
	switch k := r.Intn(20); {
	case k < 6:
		d.allowed = 0
	case k < 13:
		d.allowed = 1
	default:
		d.allowed = 2
	}
	cc := vcommon.Pick(r, [][2]uint64{{1, 4}, {1, 2}, {1, 1}, {1, 2}, {3, 4}, {1, 10}, {1, 1}})
	if d.allowed == 0 && r.Bool() {
		cc = [2]uint64{1, 1}
	}
	d.c1, d.c2 = cc[0], cc[1]
	if w.forceAllow != nil {
		d.allowed = *w.forceAllow
	}
	if w.forceC != nil {
		d.c1, d.c2 = w.forceC[0], w.forceC[1]
	}
	return d
}

func vaPlainHeader(r *vcommon.Rand, parent common.Hash, number uint, slot uint64) *types.Header {
	h := &types.Header{ParentHash: parent, Number: number, Digest: types.NewDigest()}
	copy(h.StateRoot[:], r.Bytes(32))
	copy(h.ExtrinsicsRoot[:], r.Bytes(32))
	if err := h.Digest.Add(*vfPre(*types.NewBabeSecondaryPlainPreDigest(0, slot))); err != nil {
		panic(err)
	}
	if err := h.Digest.Add(types.SealDigest{ConsensusEngineID: types.BabeEngineID, Data: r.Bytes(64)}); err != nil {
		panic(err)
	}
	return h
}

type vaPlan struct {
	steps   []string // "genesis" (first only), "same", "next", "skip"
	L       uint64
	allowed *byte
	c       *[2]uint64
	decoy   int // skipped epochs: 1 = the epoch state also holds (other) data under the skipped-to numbers, 0 = nothing there, -1 drawn
	entry   string
}

func vaNewWorld(r *vcommon.Rand, plan vaPlan) (*vaWorld, error) {
	w := &vaWorld{L: plan.L, headers: map[common.Hash]*types.Header{}, stored: map[uint64]*vaDef{}, truth: map[uint64]*vaDef{},
		forceAllow: plan.allowed, forceC: plan.c}
	w.nodeSeed = r.Bytes(32)
	var err error
	if w.node, err = sr25519.NewKeypairFromSeed(w.nodeSeed); err != nil {
		return nil, err
	}
	for i := 0; i < 6; i++ {
		kp, err := sr25519.NewKeypairFromSeed(r.Bytes(32))
		if err != nil {
			return nil, err
		}
		w.pool = append(w.pool, *types.NewAuthority(kp.Public(), 1).ToRaw())
	}
	w.genesisHdr = &types.Header{Number: 0, Digest: types.NewDigest()}
	copy(w.genesisHdr.StateRoot[:], r.Bytes(32))
	w.headers[w.genesisHdr.Hash()] = w.genesisHdr
	w.slotDur = vcommon.Pick(r, []time.Duration{6 * time.Second, 3 * time.Second, time.Second, 12 * time.Second, 200 * time.Millisecond})

	if plan.steps[0] == "genesis" {
		w.best = w.genesisHdr
		d0 := w.newDef(r, "epoch0", false)
		w.stored[0], w.truth[0] = d0, d0
		return w, nil
	}
	w.past = r.Chance(2, 3)
	if w.past {
		w.slotDur = 6 * time.Second
		w.F = uint64(r.Range(1, 1<<24))
		w.p = uint64(r.Intn(6))
		if r.Chance(1, 4) {
			w.p = uint64(r.Range(6, 1000))
		}
	} else {
		w.F = r.Uint64()>>uint(r.Range(4, 40)) + 1
		w.p = uint64(r.Intn(6))
		if r.Chance(1, 3) {
			w.p = r.Uint64() >> uint(r.Range(24, 56))
		}
	}
	var parent common.Hash
	copy(parent[:], r.Bytes(32))
	if w.p == 0 && r.Chance(1, 3) {
		w.best = vaPlainHeader(r, w.genesisHdr.Hash(), 1, w.F)
	} else {
		w.best = vaPlainHeader(r, parent, uint(r.Range(2, 1<<20)), w.F+w.p*w.L+uint64(r.Intn(int(w.L))))
	}
	w.headers[w.best.Hash()] = w.best
	if w.p >= 1 {
		d := w.newDef(r, fmt.Sprintf("epoch%d(previous)", w.p-1), false)
		w.stored[w.p-1], w.truth[w.p-1] = d, d
	}
	d := w.newDef(r, fmt.Sprintf("epoch%d", w.p), true)
	w.stored[w.p], w.truth[w.p] = d, d
	d = w.newDef(r, fmt.Sprintf("epoch%d(announced)", w.p+1), true)
	w.stored[w.p+1], w.truth[w.p+1] = d, d
	w.current = w.p
	return w, nil
}

func (w *vaWorld) firstSlotKnown() bool { return w.F != 0 }

// epochOf is the ground truth of "which epoch is this header in": block #1 opens epoch 0 at its own slot; epoch e covers
// the L slots from F + e*L.
func (w *vaWorld) epochOf(h *types.Header) (uint64, error) {
	if h.Number <= 1 {
		return 0, nil
	}
	if !w.firstSlotKnown() {
		return 0, errors.New("va: no block #1 on this chain yet")
	}
	s, err := h.SlotNumber()
	if err != nil {
		return 0, err
	}
	if s < w.F {
		return 0, fmt.Errorf("va: slot %d before the chain's first slot %d", s, w.F)
	}
	return (s - w.F) / w.L, nil
}

// ---------------------------------------------------------------- the authoring node's states

type vaABlockState struct {
	BlockState // nil: any other method panics and is reported
	w          *vaWorld
}

func (s *vaABlockState) BestBlockHeader() (*types.Header, error) { return s.w.best, nil }
func (s *vaABlockState) BestBlockHash() common.Hash              { return s.w.best.Hash() }
func (s *vaABlockState) GenesisHash() common.Hash                { return s.w.genesisHdr.Hash() }
func (s *vaABlockState) GetHeader(h common.Hash) (*types.Header, error) {
	if x, ok := s.w.headers[h]; ok {
		return x, nil
	}
	return nil, errors.New("va: unknown header")
}

var errVaNoEpochData = errors.New("va: no data stored for this epoch")

type vaAEpochState struct {
	EpochState
	w *vaWorld
}

func (s *vaAEpochState) log(f string, a ...any) { s.w.calls = append(s.w.calls, fmt.Sprintf(f, a...)) }
func (s *vaAEpochState) hdr(name string, h *types.Header) {
	if h == nil || h.Hash() != s.w.best.Hash() {
		s.w.misuse = append(s.w.misuse, name+": header is not the best block")
	}
}
func (s *vaAEpochState) GetEpochLength() uint64                  { return s.w.L }
func (s *vaAEpochState) GetSlotDuration() (time.Duration, error) { return s.w.slotDur, nil }
func (s *vaAEpochState) GetCurrentEpoch() (uint64, error) {
	s.log("GetCurrentEpoch")
	return s.w.current, nil
}
func (s *vaAEpochState) StoreCurrentEpoch(e uint64) error {
	s.log("StoreCurrentEpoch(%d)", e)
	s.w.current = e
	return nil
}
func (s *vaAEpochState) GetEpochForBlock(h *types.Header) (uint64, error) {
	e, err := s.w.epochOf(h)
	s.log("GetEpochForBlock(#%d)=%d", h.Number, e)
	return e, err
}
func (s *vaAEpochState) get(e uint64) (*vaDef, error) {
	if d, ok := s.w.stored[e]; ok {
		return d, nil
	}
	return nil, fmt.Errorf("%w: %d", errVaNoEpochData, e)
}
func (s *vaAEpochState) GetEpochDataRaw(e uint64, h *types.Header) (*types.EpochDataRaw, error) {
	s.log("GetEpochDataRaw(%d)", e)
	s.hdr("GetEpochDataRaw", h)
	d, err := s.get(e)
	if err != nil {
		return nil, err
	}
	return d.raw(), nil
}
func (s *vaAEpochState) GetConfigData(e uint64, h *types.Header) (*types.ConfigData, error) {
	s.log("GetConfigData(%d)", e)
	s.hdr("GetConfigData", h)
	d, err := s.get(e)
	if err != nil {
		return nil, err
	}
	return d.cfg(), nil
}

// GetSkipped*: the data stored for skippedEpoch; as the real state does, the entry is also filed under currentEpoch.
func (s *vaAEpochState) GetSkippedEpochDataRaw(skipped, current uint64, h *types.Header) (*types.EpochDataRaw, error) {
	s.log("GetSkippedEpochDataRaw(%d,%d)", skipped, current)
	s.hdr("GetSkippedEpochDataRaw", h)
	d, err := s.get(skipped)
	if err != nil {
		return nil, err
	}
	s.w.stored[current] = d
	return d.raw(), nil
}
func (s *vaAEpochState) GetSkippedConfigData(skipped, current uint64, h *types.Header) (*types.ConfigData, error) {
	s.log("GetSkippedConfigData(%d,%d)", skipped, current)
	s.hdr("GetSkippedConfigData", h)
	d, err := s.get(skipped)
	if err != nil {
		return nil, err
	}
	s.w.stored[current] = d
	return d.cfg(), nil
}
func (s *vaAEpochState) GetStartSlotForEpoch(e uint64, best common.Hash) (uint64, error) {
	s.log("GetStartSlotForEpoch(%d)", e)
	if best != s.w.best.Hash() {
		s.w.misuse = append(s.w.misuse, "GetStartSlotForEpoch: hash is not the best block's")
	}
	if !s.w.firstSlotKnown() {
		if e == 0 {
			return getCurrentSlot(s.w.slotDur), nil
		}
		return 0, errors.New("va: first non origin block is needed")
	}
	return s.w.L*e + s.w.F, nil
}

// ---------------------------------------------------------------- the independent verifier's states

type vaVBlockState struct {
	BlockState
	w *vaWorld
}

func (s *vaVBlockState) GenesisHash() common.Hash { return s.w.genesisHdr.Hash() }
func (s *vaVBlockState) GetHeader(h common.Hash) (*types.Header, error) {
	if x, ok := s.w.headers[h]; ok {
		return x, nil
	}
	return nil, errors.New("va: unknown header")
}

type vaVEpochState struct {
	EpochState
	w     *vaWorld
	asked []uint64
}

func (s *vaVEpochState) GetEpochForBlock(h *types.Header) (uint64, error) { return s.w.epochOf(h) }
func (s *vaVEpochState) GetSlotDuration() (time.Duration, error)          { return s.w.slotDur, nil }
func (s *vaVEpochState) GetEpochDataRaw(e uint64, _ *types.Header) (*types.EpochDataRaw, error) {
	s.asked = append(s.asked, e)
	if d, ok := s.w.truth[e]; ok {
		return d.raw(), nil
	}
	return nil, fmt.Errorf("va(truth): epoch %d has no data on this chain", e)
}
func (s *vaVEpochState) GetConfigData(e uint64, _ *types.Header) (*types.ConfigData, error) {
	if d, ok := s.w.truth[e]; ok {
		return d.cfg(), nil
	}
	return nil, fmt.Errorf("va(truth): epoch %d has no configuration on this chain", e)
}

// ---------------------------------------------------------------- one initiation

func (w *vaWorld) describe(kind, entry string, e uint64, d *vaDef) map[string]any {
	st := map[string]any{}
	for k, v := range w.stored {
		st[fmt.Sprint(k)] = v.describe()
	}
	tr := map[string]string{}
	for k, v := range w.truth {
		tr[fmt.Sprint(k)] = v.tag
	}
	best, _ := scale.Marshal(*w.best)
	return map[string]any{"step": kind, "entry": entry, "epoch_initiated": e, "best_block_epoch": w.p, "best_block_number": w.best.Number,
		"best_block_scale": vcommon.Hex(best), "epoch_length": w.L, "chain_first_slot": w.F, "slot_duration": w.slotDur.String(),
		"node_seed": vcommon.Hex(w.nodeSeed), "expected_epoch_data": d.describe(), "epoch_state_stored": st, "truth_tags": tr,
		"epoch_state_calls": append([]string(nil), w.calls...), "history": append([]string(nil), w.history...)}
}

var vaEntries = []string{"initiateAndGetEpochHandler", "initiateEpoch+newEpochHandler", "handleEpoch"}

// ownBlock builds and seals, with the production seal, the header the node would author at slot s on parent.
func (w *vaWorld) ownBlock(r *vcommon.Rand, parent *types.Header, pre *types.PreRuntimeDigest) *types.Header {
	h := &types.Header{ParentHash: parent.Hash(), Number: parent.Number + 1, Digest: types.NewDigest()}
	copy(h.StateRoot[:], r.Bytes(32))
	copy(h.ExtrinsicsRoot[:], r.Bytes(32))
	if err := h.Digest.Add(*pre); err != nil {
		panic(err)
	}
	return vfSeal(h, w.node)
}

func (w *vaWorld) step(c *vcommon.Case, svc *Service, plan vaPlan, kind string) bool {
	r := c.R
	atGenesis := w.best == w.genesisHdr
	if atGenesis {
		kind = "genesis"
	} else if kind == "genesis" {
		kind = "next"
	}
	p := w.p
	var e uint64
	var D *vaDef
	decoy := false
	switch kind {
	case "genesis":
		e, D = 0, w.stored[0]
	case "same":
		e, D = p, w.stored[p]
	case "next":
		e, D = p+1, w.stored[p+1]
	case "skip":
		e, D = p+uint64(r.Range(2, 4)), w.stored[p+1]
		decoy = plan.decoy == 1 || (plan.decoy < 0 && r.Bool())
		for x := p + 2; x <= e; x++ {
			delete(w.stored, x)
			if decoy {
				w.stored[x] = w.newDef(r, fmt.Sprintf("epoch%d(stale entry, not of this chain)", x), false)
			}
		}
	default:
		panic("va: unknown step " + kind)
	}
	entry := plan.entry
	if entry == "" {
		entry = vaEntries[r.Intn(len(vaEntries))]
	}
	if entry == "handleEpoch" && (!w.past || atGenesis) {
		entry = vaEntries[r.Intn(2)]
	}
	w.calls, w.misuse = nil, nil

	// ---- production: the node decides epoch data and slot range itself and runs its lottery over the range
	var h *epochHandler
	var next uint64
	v := vfGuard(func() error {
		var err error
		switch entry {
		case "initiateAndGetEpochHandler":
			h, err = svc.initiateAndGetEpochHandler(e)
		case "initiateEpoch+newEpochHandler":
			var d *epochDescriptor
			if d, err = svc.initiateEpoch(e); err == nil {
				h, err = newEpochHandler(d, svc.constants, svc.handleSlot, svc.keypair)
			}
		default:
			svc.epochHandler = nil
			w.current = e
			next, err = svc.handleEpoch(e)
			h = svc.epochHandler
		}
		return err
	})
	c.Count("author_initiated_"+kind, 1)
	c.Count("author_entry_"+entry, 1)
	if kind == "skip" {
		c.Count("author_initiated_after_skipped_epochs", 1)
		c.Count(map[bool]string{true: "author_skip_other_data_under_skipped_to_numbers", false: "author_skip_nothing_under_skipped_to_numbers"}[decoy], 1)
	} else if w.prevSkip {
		c.Count("author_initiated_"+kind+"_epoch_of_a_chain_that_skipped_into_best_epoch", 1)
	}
	if len(w.misuse) > 0 {
		c.Count("author_epoch_state_called_with_other_header", len(w.misuse)) // observation only
	}
	wit := w.describe(kind, entry, e, D)
	w.history = append(w.history, fmt.Sprintf("%s:%d->%d:%s", kind, p, e, entry))
	if v.panicked != nil {
		wit["panic"] = fmt.Sprint(v.panicked)
		c.Violation("panic", fmt.Sprintf("%s(%d) panicked: %v", entry, e, v.panicked), wit)
		return false
	}
	if v.err != nil || h == nil {
		c.Eval(1)
		if D != nil && D.nodeIdx < 0 && v.err != nil && strings.Contains(v.err.Error(), "key not in BABE authority data") {
			c.Count("author_not_an_authority_of_epoch_initiation_refused", 1)
			w.advance(c, kind, e, D, nil)
			return true
		}
		c.Count("author_initiation_failed", 1)
		c.Inconclusive(fmt.Sprintf("%s(%d) [%s, best block in epoch %d] returned %v although the epoch state holds the data (calls %v): no claims to judge",
			entry, e, kind, p, v.err, w.calls))
		return false
	}
	if entry == "handleEpoch" {
		if next == e+1 {
			c.Count("author_handleEpoch_next_is_epoch_plus_1", 1)
		} else {
			c.Count("author_handleEpoch_next_other", 1)
		}
	}

	claims := h.slotToPreRuntimeDigest
	slots := make([]uint64, 0, len(claims))
	for s := range claims {
		slots = append(slots, s)
	}
	sort.Slice(slots, func(i, j int) bool { return slots[i] < slots[j] })
	wit["claimed_slots"] = slots
	if h.descriptor != nil {
		wit["descriptor"] = map[string]any{"epoch": h.descriptor.epoch, "start_slot": h.descriptor.startSlot, "end_slot": h.descriptor.endSlot}
	}

	// ---- ground-truth slot range of the epoch
	var lo uint64
	if atGenesis {
		if len(slots) == 0 {
			c.Count("author_genesis_no_claim_in_first_epoch", 1)
			w.F = h.descriptor.startSlot
			if w.F == 0 {
				w.F = 1
			}
			w.advance(c, kind, e, D, nil)
			return true
		}
		lo = slots[0] // the node's first block opens epoch 0 at its own slot
		w.F = lo
		if h.descriptor.startSlot == lo {
			c.Count("author_genesis_start_slot_is_first_claimed_slot", 1)
		} else {
			c.Count("author_genesis_start_slot_is_not_first_claimed_slot", 1)
		}
	} else {
		lo = w.F + e*w.L
	}
	hi := lo + w.L
	if h.descriptor.epoch != e || h.descriptor.startSlot != lo || h.descriptor.endSlot != hi {
		c.Count("author_descriptor_differs_from_truth", 1) // observation only: claims decide
	}
	wit["epoch_slots"] = []uint64{lo, hi}

	// the data of epoch e on this chain, as every honest verifier will see it once a block of e exists
	saveTruth, hadTruth := w.truth[e]
	w.truth[e] = D
	restore := func() {
		if hadTruth {
			w.truth[e] = saveTruth
		} else {
			delete(w.truth, e)
		}
	}
	ves := &vaVEpochState{w: w}
	vm := NewVerificationManager(&vaVBlockState{w: w}, &vfSlotState{}, ves)
	chain := atGenesis || r.Bool()
	parent := w.best
	var verified []*types.Header
	kinds := map[string]int{}
	for _, s := range slots {
		pre := claims[s]
		note := map[string]any{"slot": s}
		w1 := func() map[string]any {
			m := map[string]any{}
			for k, v := range wit {
				m[k] = v
			}
			m["claim"] = note
			return m
		}
		// (1) inside the epoch
		c.Eval(1)
		inside := s >= lo && s < hi
		if !inside {
			c.Violation("claim-outside-epoch", fmt.Sprintf("%s(%d): the epoch handler claimed slot %d, epoch %d is [%d, %d) (epoch length %d, chain first slot %d)",
				entry, e, s, e, lo, hi, w.L, w.F), w1())
		}
		if s == lo {
			c.Count("author_claim_first_slot_of_epoch", 1)
		}
		if s == hi-1 {
			c.Count("author_claim_last_slot_of_epoch", 1)
		}
		// (2) the pre-digest names this slot and the node's index in this epoch's authority list
		c.Eval(1)
		kn := "undecodable"
		if pre != nil {
			kn = vfPreKind(pre)
		}
		note["kind"] = kn
		var idx uint32
		var ds uint64
		if pre != nil {
			if dd, err := types.DecodeBabePreDigest(pre.Data); err == nil {
				switch x := dd.(type) {
				case types.BabePrimaryPreDigest:
					idx, ds = x.AuthorityIndex, x.SlotNumber
				case types.BabeSecondaryPlainPreDigest:
					idx, ds = x.AuthorityIndex, x.SlotNumber
				case types.BabeSecondaryVRFPreDigest:
					idx, ds = x.AuthorityIndex, x.SlotNumber
				}
			}
		}
		note["authority_index"], note["digest_slot"] = idx, ds
		switch {
		case kn == "undecodable" || kn == "?":
			c.Violation("claim-undecodable", fmt.Sprintf("%s(%d): claim for slot %d is no BABE pre-digest", entry, e, s), w1())
			continue
		case ds != s:
			c.Violation("claim-slot-mismatch", fmt.Sprintf("%s(%d): claim filed under slot %d carries slot %d", entry, e, s, ds), w1())
		case D == nil || D.nodeIdx < 0 || int(idx) != D.nodeIdx:
			c.Violation("claim-authority-index", fmt.Sprintf("%s(%d) [%s]: claim for slot %d carries authority index %d, the node's key is at %d of epoch %d's %d authorities",
				entry, e, kind, s, idx, D.nodeIdx, e, len(D.auths)), w1())
		}
		kinds[kn]++
		c.Count("author_claims_"+kn, 1)
		if kind == "skip" {
			c.Count("author_claims_after_skipped_epochs_"+kn, 1)
		}
		// (3) the block verifies. A block is only authored in a slot after its parent's (handleSlot refuses otherwise).
		if ps, err := parent.SlotNumber(); err == nil && s <= ps {
			c.Count("author_claim_not_after_best_block_slot_not_built", 1)
			continue
		}
		hd := w.ownBlock(r, parent, pre)
		enc, _ := scale.Marshal(*hd)
		note["header_scale"], note["parent_number"] = vcommon.Hex(enc), parent.Number
		ves.asked = nil
		vv := vfGuard(func() error { return vm.VerifyBlock(vfCloneHeader(hd)) })
		c.Eval(1)
		note["verifier_asked_data_of_epochs"] = append([]uint64(nil), ves.asked...)
		c.Distinct(fmt.Sprintf("author|%s|%s|%s|sec%d|c%d/%d|n%d|idx%d|chain%v|first%v|last%v|parentGen%v", kind, entry, kn, D.allowed, D.c1, D.c2,
			len(D.auths), D.nodeIdx, chain, s == lo, s == hi-1, parent.Number == 0))
		switch {
		case vv.panicked != nil:
			note["panic"] = fmt.Sprint(vv.panicked)
			c.Violation("panic", fmt.Sprintf("VerifyBlock panicked on the node's own claim for slot %d: %v", s, vv.panicked), w1())
		case vv.err != nil && inside:
			note["error"] = vv.err.Error()
			c.Violation("reject-own-claim", fmt.Sprintf("%s(%d) [%s, best block in epoch %d]: the block of the node's own %s claim for slot %d "+
				"(epoch [%d, %d)) is rejected by an independent verifier: %v", entry, e, kind, p, kn, s, lo, hi, vv.err), w1())
		case vv.err != nil:
			c.Count("author_outside_claim_also_rejected_"+vfErrClass(vv.err), 1)
		default:
			c.Count("author_blocks_verified", 1)
			if parent.Number == 0 {
				c.Count("author_blocks_verified_on_genesis", 1)
			} else if pe, _ := w.epochOf(parent); pe == e {
				c.Count("author_blocks_verified_parent_in_same_epoch", 1)
			} else if pe+1 == e {
				c.Count("author_blocks_verified_parent_in_previous_epoch", 1)
			} else {
				c.Count("author_blocks_verified_parent_before_skipped_epochs", 1)
			}
			verified = append(verified, hd)
			if chain {
				w.headers[hd.Hash()] = hd
				parent = hd
			}
		}
		// at genesis the claim may also become block #1 itself (any slot): epoch 0 by definition
		if atGenesis && s != lo && r.Bool() {
			h1 := w.ownBlock(r, w.genesisHdr, pre)
			v1 := vfGuard(func() error { return vm.VerifyBlock(vfCloneHeader(h1)) })
			c.Eval(1)
			if v1.panicked != nil || v1.err != nil {
				e1, _ := scale.Marshal(*h1)
				note["header_scale"], note["error"] = vcommon.Hex(e1), fmt.Sprint(v1.err, v1.panicked)
				c.Violation("reject-own-claim", fmt.Sprintf("genesis: the node's own %s claim for slot %d as block #1 is rejected: %v %v", kn, s, v1.err, v1.panicked), w1())
			} else {
				c.Count("author_blocks_verified_as_first_block", 1)
			}
		}
	}
	// boundary slots the lottery would give but the handler did not take: observation (liveness, not this property)
	if D != nil && D.nodeIdx >= 0 {
		if thr, err := CalculateThreshold(D.c1, D.c2, len(D.auths)); err == nil {
			ed := &epochData{randomness: D.rnd, authorityIndex: uint32(D.nodeIdx), authorities: D.auths, threshold: thr, allowedSlots: types.AllowedSlots(D.allowed)}
			for _, s := range []uint64{lo, hi - 1} {
				if _, ok := claims[s]; ok {
					continue
				}
				if _, err := claimSlot(e, s, ed, w.node); err == nil {
					c.Count("author_boundary_slot_claimable_but_not_claimed", 1)
				}
			}
		}
	}
	if len(slots) == 0 {
		c.Count("author_epochs_without_claim", 1)
	}
	if c.Idx < 3 && len(slots) > 0 {
		c.Sample(map[string]any{"step": kind, "entry": entry, "best_block_epoch": p, "epoch_initiated": e, "epoch_slots": []uint64{lo, hi},
			"claimed_slots": slots, "claims_by_kind": kinds, "verified": len(verified), "expected_epoch_data": D.describe(),
			"epoch_state_calls": w.calls})
	}
	restore()
	w.advance(c, kind, e, D, verified)
	return true
}

// advance moves the best block into epoch e (one of the node's verified blocks, else a foreign block) and announces
// the data of e+1.
func (w *vaWorld) advance(c *vcommon.Case, kind string, e uint64, D *vaDef, verified []*types.Header) {
	r := c.R
	if len(verified) > 0 {
		w.best = verified[r.Intn(len(verified))]
	} else {
		lo := w.F + e*w.L
		if w.best == w.genesisHdr {
			w.best = vaPlainHeader(r, w.genesisHdr.Hash(), 1, w.F)
		} else {
			w.best = vaPlainHeader(r, w.best.Hash(), w.best.Number+1, lo+uint64(r.Intn(int(w.L))))
		}
	}
	w.headers[w.best.Hash()] = w.best
	if kind == "skip" {
		for x := w.p + 2; x <= e; x++ {
			delete(w.stored, x)
		}
	}
	w.prevSkip = kind == "skip"
	w.p = e
	w.stored[e], w.truth[e] = D, D
	d := w.newDef(r, fmt.Sprintf("epoch%d(announced)", e+1), true)
	w.stored[e+1], w.truth[e+1] = d, d
}

func vaRun(c *vcommon.Case, plan vaPlan) {
	w, err := vaNewWorld(c.R, plan)
	if err != nil {
		c.Inconclusive("world: " + err.Error())
		return
	}
	svc := &Service{ctx: context.Background(), authority: true, keypair: w.node, pause: make(chan struct{}),
		blockState: &vaABlockState{w: w}, epochState: &vaAEpochState{w: w},
		constants: constants{slotDuration: w.slotDur, epochLength: w.L}}
	for _, k := range plan.steps {
		if !w.step(c, svc, plan, k) {
			return
		}
	}
}

// vaCorpus: seed-independent plans: every step sequence of interest x secondary kind, all slots primary for kind 0.
func vaCorpus() []vaPlan {
	var out []vaPlan
	seqs := [][]string{
		{"genesis", "next", "skip", "next"},
		{"genesis", "same", "skip", "same"},
		{"next", "next", "same"},
		{"skip", "skip", "next"},
		{"skip", "same", "next"},
		{"same", "skip", "next"},
	}
	for si, seq := range seqs {
		for a := byte(0); a < 3; a++ {
			a := a
			cc := [2]uint64{1, 2}
			if a == 0 {
				cc = [2]uint64{1, 1}
			}
			out = append(out, vaPlan{steps: seq, L: uint64(6 + 2*si), allowed: &a, c: &cc, decoy: (si + int(a)) % 2,
				entry: vaEntries[(si+int(a))%len(vaEntries)]})
		}
	}
	return out
}

func TestVerifC24Author(t *testing.T) {
	r := vcommon.Start(t, "C24")
	defer r.Finish()
	logger.Patch(log.SetLevel(log.Critical))

	for _, k := range []string{"primary", "secondary_plain", "secondary_vrf"} {
		r.Floor("author_claims_"+k, 250)
		r.Floor("author_claims_after_skipped_epochs_"+k, 60)
	}
	r.Floor("author_initiated_genesis", 15)
	r.Floor("author_initiated_same", 40)
	r.Floor("author_initiated_next", 80)
	r.Floor("author_initiated_after_skipped_epochs", 80)
	r.Floor("author_skip_other_data_under_skipped_to_numbers", 30)
	r.Floor("author_skip_nothing_under_skipped_to_numbers", 30)
	r.Floor("author_initiated_next_epoch_of_a_chain_that_skipped_into_best_epoch", 20)
	r.Floor("author_initiated_same_epoch_of_a_chain_that_skipped_into_best_epoch", 8)
	r.Floor("author_claim_first_slot_of_epoch", 120)
	r.Floor("author_claim_last_slot_of_epoch", 120)
	r.Floor("author_blocks_verified", 2000)
	r.Floor("author_blocks_verified_on_genesis", 12)
	r.Floor("author_blocks_verified_parent_in_same_epoch", 500)
	r.Floor("author_blocks_verified_parent_in_previous_epoch", 250)
	r.Floor("author_blocks_verified_parent_before_skipped_epochs", 250)
	for _, e := range vaEntries {
		r.Floor("author_entry_"+e, 30)
	}

	corpus := vaCorpus()
	r.Fixed("author-corpus", len(corpus), func(c *vcommon.Case) { vaRun(c, corpus[c.Idx]) })
	r.Cases("author", r.Scale(160), func(c *vcommon.Case) {
		n := c.R.Range(2, 4)
		steps := make([]string, n)
		for i := range steps {
			switch k := c.R.Intn(10); {
			case k < 2:
				steps[i] = "same"
			case k < 6:
				steps[i] = "next"
			default:
				steps[i] = "skip"
			}
		}
		if c.R.Chance(1, 4) {
			steps[0] = "genesis"
		}
		vaRun(c, vaPlan{steps: steps, L: uint64(c.R.Range(3, 24)), decoy: -1})
	})
}
