//go:build verif

package babe

// Reference arithmetic of the babe engine, written from the specifications
// (RFC 7693 for BLAKE2b; elementary series for exp / ln) and self-validated at
// start-up. Nothing here calls into gossamer.

import (
	"bytes"
	"encoding/binary"
	"encoding/hex"
	"fmt"
	"math"
	"math/big"
	"math/bits"

	"github.com/ChainSafe/gossamer/lib/crypto/sr25519"
	"github.com/gtank/merlin"
	xblake2b "golang.org/x/crypto/blake2b"
)

// ---------------------------------------------------------------- BLAKE2b-256

var vfB2IV = [8]uint64{
	0x6a09e667f3bcc908, 0xbb67ae8584caa73b, 0x3c6ef372fe94f82b, 0xa54ff53a5f1d36f1,
	0x510e527fade682d1, 0x9b05688c2b3e6c1f, 0x1f83d9abfb41bd6b, 0x5be0cd19137e2179,
}

var vfB2Sigma = [12][16]byte{
	{0, 1, 2, 3, 4, 5, 6, 7, 8, 9, 10, 11, 12, 13, 14, 15},
	{14, 10, 4, 8, 9, 15, 13, 6, 1, 12, 0, 2, 11, 7, 5, 3},
	{11, 8, 12, 0, 5, 2, 15, 13, 10, 14, 3, 6, 7, 1, 9, 4},
	{7, 9, 3, 1, 13, 12, 11, 14, 2, 6, 5, 10, 4, 0, 15, 8},
	{9, 0, 5, 7, 2, 4, 10, 15, 14, 1, 11, 12, 6, 8, 3, 13},
	{2, 12, 6, 10, 0, 11, 8, 3, 4, 13, 7, 5, 15, 14, 1, 9},
	{12, 5, 1, 15, 14, 13, 4, 10, 0, 7, 6, 3, 9, 2, 8, 11},
	{13, 11, 7, 14, 12, 1, 3, 9, 5, 0, 15, 4, 8, 6, 2, 10},
	{6, 15, 14, 9, 11, 3, 0, 8, 12, 2, 13, 7, 1, 4, 10, 5},
	{10, 2, 8, 4, 7, 6, 1, 5, 15, 11, 9, 14, 3, 12, 13, 0},
	{0, 1, 2, 3, 4, 5, 6, 7, 8, 9, 10, 11, 12, 13, 14, 15},
	{14, 10, 4, 8, 9, 15, 13, 6, 1, 12, 0, 2, 11, 7, 5, 3},
}

func vfB2Compress(h *[8]uint64, block []byte, t uint64, last bool) {
	var m [16]uint64
	for i := range m {
		m[i] = binary.LittleEndian.Uint64(block[8*i:])
	}
	var v [16]uint64
	copy(v[:8], h[:])
	copy(v[8:], vfB2IV[:])
	v[12] ^= t // low word of the 128-bit offset counter (inputs here are < 2^64 bytes)
	if last {
		v[14] = ^v[14]
	}
	g := func(a, b, c, d int, x, y uint64) {
		v[a] = v[a] + v[b] + x
		v[d] = bits.RotateLeft64(v[d]^v[a], -32)
		v[c] = v[c] + v[d]
		v[b] = bits.RotateLeft64(v[b]^v[c], -24)
		v[a] = v[a] + v[b] + y
		v[d] = bits.RotateLeft64(v[d]^v[a], -16)
		v[c] = v[c] + v[d]
		v[b] = bits.RotateLeft64(v[b]^v[c], -63)
	}
	for r := 0; r < 12; r++ {
		s := &vfB2Sigma[r]
		g(0, 4, 8, 12, m[s[0]], m[s[1]])
		g(1, 5, 9, 13, m[s[2]], m[s[3]])
		g(2, 6, 10, 14, m[s[4]], m[s[5]])
		g(3, 7, 11, 15, m[s[6]], m[s[7]])
		g(0, 5, 10, 15, m[s[8]], m[s[9]])
		g(1, 6, 11, 12, m[s[10]], m[s[11]])
		g(2, 7, 8, 13, m[s[12]], m[s[13]])
		g(3, 4, 9, 14, m[s[14]], m[s[15]])
	}
	for i := 0; i < 8; i++ {
		h[i] ^= v[i] ^ v[i+8]
	}
}

// vfBlake2b256 is an unkeyed BLAKE2b with a 32-byte digest (RFC 7693).
func vfBlake2b256(in []byte) [32]byte {
	h := vfB2IV
	h[0] ^= 0x01010000 ^ 32
	var t uint64
	for len(in) > 128 {
		t += 128
		vfB2Compress(&h, in[:128], t, false)
		in = in[128:]
	}
	var blk [128]byte
	copy(blk[:], in)
	t += uint64(len(in))
	vfB2Compress(&h, blk[:], t, true)
	var out [32]byte
	for i := 0; i < 4; i++ {
		binary.LittleEndian.PutUint64(out[8*i:], h[i])
	}
	return out
}

func vfBlake2bSelfCheck() error {
	vec := []struct{ in, hex string }{
		{"", "0e5751c026e543b2e8ab2eb06099daa1d1e5df47778f7787faab45cdf12fe3a8"},
		{"abc", "bddd813c634239723171ef3fee98579b94964e3bb1cb3e427262c8c068d52319"},
	}
	for _, v := range vec {
		got := vfBlake2b256([]byte(v.in))
		if hex.EncodeToString(got[:]) != v.hex {
			return fmt.Errorf("blake2b-256(%q)=%x want %s", v.in, got, v.hex)
		}
	}
	// lengths around the block boundary against the x/crypto implementation
	for _, n := range []int{1, 40, 127, 128, 129, 255, 256, 257, 1000} {
		b := make([]byte, n)
		for i := range b {
			b[i] = byte(i*7 + n)
		}
		got, want := vfBlake2b256(b), xblake2b.Sum256(b)
		if !bytes.Equal(got[:], want[:]) {
			return fmt.Errorf("blake2b-256 mismatch with x/crypto at len %d", n)
		}
	}
	return nil
}

// vfSecondaryAuthor = BE(BLAKE2b-256(randomness ‖ LE64(slot))) mod n.
func vfSecondaryAuthor(randomness [32]byte, slot uint64, n uint64) uint64 {
	buf := make([]byte, 40)
	copy(buf, randomness[:])
	for i := 0; i < 8; i++ {
		buf[32+i] = byte(slot >> (8 * i))
	}
	h := vfBlake2b256(buf)
	v := new(big.Int).SetBytes(h[:])
	return v.Mod(v, new(big.Int).SetUint64(n)).Uint64()
}

// ---------------------------------------------------------------- big.Float exp / ln

const vfPrec = 512

func vfF() *big.Float                  { return new(big.Float).SetPrec(vfPrec) }
func vfFi(i int64) *big.Float          { return vfF().SetInt64(i) }
func vfFf(x float64) *big.Float        { return vfF().SetFloat64(x) }
func vfFr(r *big.Rat) *big.Float       { return vfF().SetRat(r) }
func vfMul(a, b *big.Float) *big.Float { return vfF().Mul(a, b) }
func vfAdd(a, b *big.Float) *big.Float { return vfF().Add(a, b) }
func vfSub(a, b *big.Float) *big.Float { return vfF().Sub(a, b) }
func vfQuo(a, b *big.Float) *big.Float { return vfF().Quo(a, b) }

// vfAtanhSeries returns 2*atanh(z) = 2(z + z^3/3 + z^5/5 + ...) for |z| <= 1/3.
func vfAtanhSeries(z *big.Float) *big.Float {
	z2 := vfMul(z, z)
	term := vfF().Set(z)
	sum := vfF().Set(z)
	for k := int64(3); k < 2000; k += 2 {
		term = vfMul(term, z2)
		add := vfQuo(term, vfFi(k))
		if add.Sign() == 0 || add.MantExp(nil) < sum.MantExp(nil)-vfPrec-8 {
			break
		}
		sum = vfAdd(sum, add)
	}
	return vfMul(sum, vfFi(2))
}

var vfLn2 = vfAtanhSeries(vfQuo(vfFi(1), vfFi(3))) // ln 2 = 2 atanh(1/3)

// vfLn returns ln(x) for x > 0.
func vfLn(x *big.Float) *big.Float {
	if x.Sign() <= 0 {
		panic("vfLn: x <= 0")
	}
	m := vfF()
	e := x.MantExp(m) // x = m * 2^e, m in [0.5,1)
	z := vfQuo(vfSub(m, vfFi(1)), vfAdd(m, vfFi(1)))
	return vfAdd(vfAtanhSeries(z), vfMul(vfFi(int64(e)), vfLn2))
}

// vfExp returns e^y.
func vfExp(y *big.Float) *big.Float {
	// y = k ln2 + r, |r| <= ln2/2
	kf64, _ := vfQuo(y, vfLn2).Float64()
	k := int64(math.Floor(kf64 + 0.5))
	r := vfSub(y, vfMul(vfFi(k), vfLn2))
	const s = 24
	r.SetMantExp(r, -s)
	sum, term := vfFi(1), vfFi(1)
	for i := int64(1); i < 200; i++ {
		term = vfQuo(vfMul(term, r), vfFi(i))
		if term.Sign() == 0 || term.MantExp(nil) < -vfPrec-8 {
			break
		}
		sum = vfAdd(sum, term)
	}
	for i := 0; i < s; i++ {
		sum = vfMul(sum, sum)
	}
	return sum.SetMantExp(sum, int(k))
}

// vfPow returns x^t for x in [0,1], t > 0.
func vfPow(x, t *big.Float) *big.Float {
	if x.Sign() == 0 {
		return vfFi(0)
	}
	return vfExp(vfMul(t, vfLn(x)))
}

func vfIntPow(x *big.Float, n int) *big.Float {
	res, b := vfFi(1), vfF().Set(x)
	for n > 0 {
		if n&1 == 1 {
			res = vfMul(res, b)
		}
		b = vfMul(b, b)
		n >>= 1
	}
	return res
}

func vfClose(a, b *big.Float, bitsTol int) bool {
	d := vfSub(a, b)
	if d.Sign() == 0 {
		return true
	}
	d.Abs(d)
	ref := vfF().Abs(b)
	if ref.Sign() == 0 {
		ref = vfFi(1)
	}
	return d.MantExp(nil) <= ref.MantExp(nil)-bitsTol
}

// vfMathSelfCheck validates exp / ln / pow against closed forms and algebraic identities to ~440 bits.
func vfMathSelfCheck() error {
	const tol = 440
	// ln 2 and e to 60 decimal digits (classical constants)
	ln2, _, _ := big.ParseFloat("0.693147180559945309417232121458176568075500134360255254120680009", 10, vfPrec, big.ToNearestEven)
	if !vfClose(vfLn2, ln2, 195) {
		return fmt.Errorf("ln2 wrong: %s", vfLn2.Text('g', 70))
	}
	e, _, _ := big.ParseFloat("2.718281828459045235360287471352662497757247093699959574966967628", 10, vfPrec, big.ToNearestEven)
	if !vfClose(vfExp(vfFi(1)), e, 195) {
		return fmt.Errorf("exp(1) wrong: %s", vfExp(vfFi(1)).Text('g', 70))
	}
	if !vfClose(vfExp(vfFi(0)), vfFi(1), tol) {
		return fmt.Errorf("exp(0) != 1")
	}
	// exact dyadic cases
	if !vfClose(vfPow(vfFf(0.25), vfFf(0.5)), vfFf(0.5), tol) {
		return fmt.Errorf("0.25^0.5 != 0.5")
	}
	// exponent 0.1 as a float64 is not exactly 1/10: only ~50 bits can agree
	if !vfClose(vfPow(vfFf(1.0/1024), vfFf(0.1)), vfFf(0.5), 48) {
		return fmt.Errorf("(2^-10)^0.1 far from 0.5")
	}
	xs := []*big.Float{vfFf(0.75), vfFf(0.5), vfFf(1e-3), vfFf(0.999999), vfF().SetMantExp(vfFi(1), -63), vfF().SetMantExp(vfFi(3), -55),
		vfFr(big.NewRat(2, 3)), vfFr(big.NewRat(1, 7))}
	for _, x := range xs {
		if !vfClose(vfExp(vfLn(x)), x, tol) {
			return fmt.Errorf("exp(ln(%s)) != x", x.Text('g', 20))
		}
		for _, n := range []int{1, 2, 3, 5, 7, 64, 1000, 1024} {
			root := vfPow(x, vfQuo(vfFi(1), vfFi(int64(n))))
			if !vfClose(vfIntPow(root, n), x, tol-12) {
				return fmt.Errorf("(x^(1/%d))^%d != x for x=%s", n, n, x.Text('g', 20))
			}
			if (root.Cmp(x) < 0 && !vfClose(root, x, tol)) || root.Cmp(vfFi(1)) > 0 {
				return fmt.Errorf("x^(1/%d) outside [x,1] for x=%s", n, x.Text('g', 20))
			}
		}
	}
	return nil
}

// vfThresholdExact = floor(2^128 * (1 - (1-c)^(1/n))) for the exact rational c = c1/c2 in (0,1]; also returns
// the real value 2^128*p (before the floor) for tolerance arithmetic. c = 1 gives exactly 2^128.
func vfThresholdExact(c1, c2 uint64, n int) (*big.Int, *big.Float) {
	c := new(big.Rat).SetFrac(new(big.Int).SetUint64(c1), new(big.Int).SetUint64(c2))
	q := new(big.Rat).Sub(big.NewRat(1, 1), c)
	y := vfPow(vfFr(q), vfQuo(vfFi(1), vfFi(int64(n))))
	p := vfSub(vfFi(1), y)
	v := vfF().SetMantExp(p, 128)
	fl, _ := v.Int(nil)
	return fl, v
}

// vfThresholdPipeline evaluates Substrate's pipeline with IEEE-754 double inputs and an exact power:
// c = f64(c1)/f64(c2); theta = 1/f64(n); value = 2^128 * (1 - (1-c)^theta) with (1-c) rounded to double as the
// subtraction does, and the power taken to 512 bits. The only step Substrate / gossamer perform differently is
// powf (libm, ~1 ulp) and the final rounding of 1-y to a double.
func vfThresholdPipeline(c1, c2 uint64, n int) (*big.Float, float64) {
	c := float64(float64(c1) / float64(c2))
	theta := float64(1.0 / float64(n))
	q := float64(1 - c)
	y := vfPow(vfFf(q), vfFf(theta))
	if q == 1 {
		y = vfFi(1)
	}
	p := vfSub(vfFi(1), y)
	return vfF().SetMantExp(p, 128), q
}

// vfLotteryValue is the 128-bit lottery value of a VRF output as Substrate defines it:
// u128::from_le_bytes(inout.make_bytes::<[u8;16]>(b"substrate-babe-vrf")). It goes through the schnorrkel library only
// (attach the input, make_bytes), not through lib/babe's threshold comparison.
func vfLotteryValue(out [sr25519.VRFOutputLength]byte, pub *sr25519.PublicKey, rnd Randomness, slot, epoch uint64) (*big.Int, error) {
	t := merlin.NewTranscript("BABE")
	var b8 [8]byte
	binary.LittleEndian.PutUint64(b8[:], slot)
	t.AppendMessage([]byte("slot number"), b8[:])
	binary.LittleEndian.PutUint64(b8[:], epoch)
	t.AppendMessage([]byte("current epoch"), b8[:])
	t.AppendMessage([]byte("chain randomness"), rnd[:])
	inout, err := sr25519.AttachInput(out, pub, t)
	if err != nil {
		return nil, err
	}
	le, err := inout.MakeBytes(16, []byte("substrate-babe-vrf"))
	if err != nil {
		return nil, err
	}
	be := make([]byte, 16)
	for i := range le {
		be[15-i] = le[i]
	}
	return new(big.Int).SetBytes(be), nil
}
