//go:build verif

package babe

// C25, concurrent family. The lottery arithmetic is a function of its arguments: what CalculateThreshold /
// getSecondarySlotAuthor / verifySecondarySlotPlain / checkPrimaryThreshold return for an input does not depend on who
// else is inside the package at that moment (in the node: the verifier path getVerifierInfo runs against the epoch
// handler). G in {2,4,8,16} goroutines are released together; each runs its OWN stream of inputs (drawn before the
// start from the case PRNG with the generators of the sequential families; every stream contains c = 1 saturation
// inputs and near-boundary ratios) and stores every return. After the join every stored return is judged by the same
// oracles as a sequential call, for THAT call's input (thr-*: bit-exact where the double pipeline is determined, ulp
// budget elsewhere; sec-author; sec-verify; cmp-step). Cross-talk between callers shows as a wrong value for the input.
// The judgement of a (input, returned value) pair is memoised, so a stream may repeat its inputs many times.
//
// No verdict depends on timing; how much real overlap the run achieved is measured (callers of the same function in
// flight at the entry of a call) and has a coverage floor.

import (
	"errors"
	"fmt"
	"math/big"
	"sync"
	"sync/atomic"
	"testing"

	"github.com/ChainSafe/gossamer/lib/crypto/sr25519"
	"github.com/ChainSafe/gossamer/pkg/scale"
	"github.com/ChainSafe/gossamer/zz_verif/vcommon"
)

const (
	vfOpThr = iota
	vfOpSec
	vfOpSecVerify
	vfOpCmp
	vfOpKinds
)

var vfOpName = [vfOpKinds]string{"thr", "sec", "secverify", "cmp"}

type vfConcOp struct {
	kind   int
	c1, c2 uint64 // thr
	n      int
	rnd    Randomness // sec, secverify, cmp
	slot   uint64
	sn     uint64 // authority count of sec / secverify
	idx    uint32 // secverify: claimed index
	shared bool   // sec / secverify on the slot and count all goroutines of the case use, own randomness
	out    [sr25519.VRFOutputLength]byte
	pub    *sr25519.PublicKey
	epoch  uint64
	thr    *scale.Uint128
	// expectations, computed by the harness before the goroutines start
	wantAuthor uint64   // sec, secverify: BE(BLAKE2b-256(rnd||LE64(slot))) mod sn
	wantOK     bool     // secverify: idx is the author; cmp: value < threshold
	value, t   *big.Int // cmp
	boundary   bool     // thr: near-boundary ratio
}

type vfConcRes struct {
	hi, lo   uint64
	nilThr   bool
	err      error
	panicked string
	author   uint32
	ok       bool
	inflight int32 // callers of the same function in flight at entry, this one included
}

// vfNearBoundary: ratios at the edges of the double pipeline (1-c = 2^-53, c rounding to 1, 1-c rounding to 1, ...).
func vfNearBoundary(r *vcommon.Rand) (uint64, uint64) {
	k := uint(r.Range(2, 62))
	switch r.Intn(8) {
	case 0:
		return 1<<53 - 1, 1 << 53
	case 1:
		return 1<<63 - 1, 1 << 63
	case 2:
		return 1, 1 << 63
	case 3:
		return 1023, 1024
	case 4:
		return 1, ^uint64(0)
	case 5:
		return 1<<k - 1, 1 << k // closest to one at this denominator
	case 6:
		return 1, 1 << k
	default:
		return 1<<k/2 + uint64(r.Intn(2)), 1 << k // at / next to one half
	}
}

type vfConcShared struct {
	slot uint64
	n    uint64
}

// vfConcStream draws goroutine g's distinct inputs and the order in which it calls them.
func vfConcStream(c *vcommon.Case, sh vfConcShared, calls int) ([]vfConcOp, []int, error) {
	r := c.R
	var ops []vfConcOp
	byKind := make([][]int, vfOpKinds)
	add := func(op vfConcOp) {
		byKind[op.kind] = append(byKind[op.kind], len(ops))
		ops = append(ops, op)
	}
	for i := 0; i < 8; i++ {
		c1, c2 := vfPickC(r)
		add(vfConcOp{kind: vfOpThr, c1: c1, c2: c2, n: vfPickN(r)})
	}
	_, d := vfPickC(r)
	add(vfConcOp{kind: vfOpThr, c1: d, c2: d, n: vfPickN(r)}) // c = 1: saturates
	for i := 0; i < 2; i++ {
		c1, c2 := vfNearBoundary(r)
		add(vfConcOp{kind: vfOpThr, c1: c1, c2: c2, n: vfPickN(r), boundary: true})
	}
	secOps := func(rnd Randomness, slot, n uint64, shared bool) {
		a := vfSecondaryAuthor(rnd, slot, n)
		add(vfConcOp{kind: vfOpSec, rnd: rnd, slot: slot, sn: n, wantAuthor: a, shared: shared})
		add(vfConcOp{kind: vfOpSecVerify, rnd: rnd, slot: slot, sn: n, idx: uint32(a), wantAuthor: a, wantOK: true, shared: shared})
		if n > 1 {
			add(vfConcOp{kind: vfOpSecVerify, rnd: rnd, slot: slot, sn: n, idx: uint32((a + 1) % n), wantAuthor: a, wantOK: false, shared: shared})
		}
	}
	for i := 0; i < 2; i++ {
		var rnd Randomness
		copy(rnd[:], r.Bytes(32))
		n := uint64(vfPickN(r))
		if r.Chance(1, 10) {
			n = r.Uint64()%(1<<31) + 1
		}
		secOps(rnd, r.Uint64()>>uint(r.Intn(60)), n, false)
	}
	var own Randomness // the case's shared slot and count under this goroutine's own randomness
	copy(own[:], r.Bytes(32))
	secOps(own, sh.slot, sh.n, true)

	kp, err := sr25519.NewKeypairFromSeed(r.Bytes(32))
	if err != nil {
		return nil, nil, err
	}
	var rnd Randomness
	copy(rnd[:], r.Bytes(32))
	slot, epoch := r.Uint64(), r.Uint64()%1000
	out, _, err := kp.VrfSign(makeTranscript(rnd, slot, epoch))
	if err != nil {
		return nil, nil, err
	}
	pub := kp.Public().(*sr25519.PublicKey)
	v, err := vfLotteryValue(out, pub, rnd, slot, epoch)
	if err != nil {
		return nil, nil, err
	}
	one := big.NewInt(1)
	for _, t := range []*big.Int{new(big.Int).Set(v), new(big.Int).Add(v, one), new(big.Int).Sub(v, one), new(big.Int).SetBytes(r.Bytes(16))} {
		if t.Sign() < 0 || t.Cmp(vfMaxU128) > 0 {
			continue
		}
		add(vfConcOp{kind: vfOpCmp, rnd: rnd, slot: slot, epoch: epoch, out: out, pub: pub, thr: vfBigU128(t), value: v, t: t, wantOK: v.Cmp(t) < 0})
	}

	seq := make([]int, calls)
	for k := range seq {
		kind := vfOpThr
		switch x := r.Intn(100); {
		case x < 2:
			kind = vfOpCmp
		case x < 14:
			kind = vfOpSec
		case x < 28:
			kind = vfOpSecVerify
		}
		seq[k] = vcommon.Pick(r, byKind[kind])
	}
	return ops, seq, nil
}

func vfConcCall(op *vfConcOp, inflight *[vfOpKinds]int32) (res vfConcRes) {
	defer func() {
		if p := recover(); p != nil {
			res.panicked = fmt.Sprint(p)
		}
	}()
	res.inflight = atomic.AddInt32(&inflight[op.kind], 1)
	defer atomic.AddInt32(&inflight[op.kind], -1)
	switch op.kind {
	case vfOpThr:
		t, err := CalculateThreshold(op.c1, op.c2, op.n)
		res.err = err
		if t == nil {
			res.nilThr = true
		} else {
			res.hi, res.lo = t.Upper, t.Lower
		}
	case vfOpSec:
		res.author, res.err = getSecondarySlotAuthor(op.slot, int(op.sn), op.rnd)
	case vfOpSecVerify:
		res.err = verifySecondarySlotPlain(op.idx, op.slot, int(op.sn), op.rnd)
	case vfOpCmp:
		res.ok, res.err = checkPrimaryThreshold(op.rnd, op.slot, op.epoch, op.out, op.thr, op.pub)
	}
	return res
}

// vfRunConcurrent is one case of the family: G goroutines, calls calls each.
func vfRunConcurrent(c *vcommon.Case, G, calls int) {
	r := c.R
	sh := vfConcShared{slot: r.Uint64() >> uint(r.Intn(60)), n: uint64(r.Range(2, 7))}
	if r.Chance(1, 4) {
		sh.n = uint64(vfPickN(r))
	}
	ops := make([][]vfConcOp, G)
	seq := make([][]int, G)
	res := make([][]vfConcRes, G)
	for g := 0; g < G; g++ {
		var err error
		if ops[g], seq[g], err = vfConcStream(c, sh, calls); err != nil {
			c.Inconclusive("concurrent stream: " + err.Error())
			return
		}
		res[g] = make([]vfConcRes, calls)
	}

	var inflight [vfOpKinds]int32
	var wg sync.WaitGroup
	start := make(chan struct{})
	for g := 0; g < G; g++ {
		wg.Add(1)
		go func(g int) {
			defer wg.Done()
			<-start
			for k, ix := range seq[g] {
				res[g][k] = vfConcCall(&ops[g][ix], &inflight)
			}
		}(g)
	}
	close(start)
	wg.Wait()

	c.Count(fmt.Sprintf("conc_cases_G%d", G), 1)
	// what every threshold input gives when called alone (diagnosis only: whose value a wrong return carries)
	alone := map[string][]string{}
	for g := range ops {
		for _, op := range ops[g] {
			if op.kind != vfOpThr {
				continue
			}
			if t, err := CalculateThreshold(op.c1, op.c2, op.n); err == nil && t != nil {
				k := vfU128Big(t).String()
				if len(alone[k]) < 4 {
					alone[k] = append(alone[k], fmt.Sprintf("goroutine %d: (%d,%d,%d)", g, op.c1, op.c2, op.n))
				}
			}
		}
	}
	sharedAuthors := map[uint64]bool{}
	for g := range ops {
		for _, op := range ops[g] {
			if op.kind == vfOpSec && op.shared {
				sharedAuthors[op.wantAuthor] = true
			}
		}
	}
	if len(sharedAuthors) > 1 {
		c.Count("conc_shared_slot_cases_where_author_differs_between_randomness", 1)
	}

	memo := map[string]bool{} // (goroutine input, observed return) -> refuted
	valuesOf := map[string]map[string]bool{}
	for g := 0; g < G; g++ {
		for k, ix := range seq[g] {
			op, rs := &ops[g][ix], &res[g][k]
			name := vfOpName[op.kind]
			c.Count("conc_"+name+"_calls", 1)
			if rs.inflight > 1 {
				c.Count("conc_"+name+"_calls_with_another_caller_inside", 1)
			}
			if op.shared {
				c.Count("conc_shared_slot_same_n_own_randomness_calls", 1)
			}
			w := map[string]any{"family": "concurrent", "goroutines": G, "goroutine": g, "call": k, "op": name,
				"callers_inside_at_entry": rs.inflight}
			key := fmt.Sprintf("%d|%d|%d|%x|%x|%v|%v|%d|%v|%s", g, ix, op.kind, rs.hi, rs.lo, rs.nilThr, rs.err, rs.author, rs.ok, rs.panicked)
			if bad, seen := memo[key]; seen {
				c.Eval(1) // the same return for the same input: same verdict
				if bad {
					c.Count("conc_refuted_returns_repeated", 1)
				}
				continue
			}
			if rs.panicked != "" {
				memo[key] = true
				c.Eval(1)
				w["panic"] = rs.panicked
				w["input"] = vfConcDescribe(op)
				c.Violation("panic", fmt.Sprintf("%s panicked with %d goroutines inside the package: %s", name, G, rs.panicked), w)
				continue
			}
			switch op.kind {
			case vfOpThr:
				if op.c1 == op.c2 {
					c.Count("conc_thr_c_eq_1_inputs_judged", 1)
				}
				if op.boundary {
					c.Count("conc_thr_near_boundary_inputs_judged", 1)
				}
				var t *scale.Uint128
				if !rs.nilThr {
					t = &scale.Uint128{Upper: rs.hi, Lower: rs.lo}
					if who := alone[vfU128Big(t).String()]; len(who) > 0 {
						w["value_is_what_a_lone_call_returns_for"] = who
					}
					ik := fmt.Sprintf("%d|%d", g, ix)
					if valuesOf[ik] == nil {
						valuesOf[ik] = map[string]bool{}
					}
					valuesOf[ik][vfU128Big(t).String()] = true
				}
				_, bad := vfJudgeThreshold(c, "conc_judged_", op.c1, op.c2, op.n, t, rs.err, w)
				memo[key] = bad
			case vfOpSec:
				c.Eval(1)
				w["input"] = vfConcDescribe(op)
				switch {
				case rs.err != nil:
					memo[key] = true
					c.Violation("sec-error", fmt.Sprintf("getSecondarySlotAuthor failed: %v", rs.err), w)
				case uint64(rs.author) != op.wantAuthor:
					memo[key] = true
					w["got"] = rs.author
					c.Violation("sec-author", fmt.Sprintf("getSecondarySlotAuthor(slot=%d,n=%d)=%d with %d goroutines inside, "+
						"BE(BLAKE2b-256(randomness||LE64(slot))) mod n = %d", op.slot, op.sn, rs.author, G, op.wantAuthor), w)
				default:
					memo[key] = false
				}
			case vfOpSecVerify:
				c.Eval(1)
				w["input"] = vfConcDescribe(op)
				memo[key] = vfJudgeSecVerify(c, op.idx, op.slot, op.sn, op.rnd, op.wantAuthor, rs.err, w)
			case vfOpCmp:
				c.Eval(1)
				w["input"] = vfConcDescribe(op)
				switch {
				case rs.err != nil:
					memo[key] = true
					c.Violation("cmp-error", fmt.Sprintf("checkPrimaryThreshold on an honest output: %v", rs.err), w)
				case rs.ok != op.wantOK:
					memo[key] = true
					c.Violation("cmp-step", fmt.Sprintf("checkPrimaryThreshold(T=%s)=%v with %d goroutines inside, the VRF value is %s (want value<T = %v)",
						op.t, rs.ok, G, op.value, op.wantOK), w)
				default:
					memo[key] = false
				}
			}
		}
	}
	for _, vs := range valuesOf {
		if len(vs) > 1 {
			c.Count("conc_thr_inputs_with_more_than_one_returned_value", 1) // observation; each value was judged on its own
		}
	}
	c.Distinct(fmt.Sprintf("conc|G%d|%d|%d", G, sh.slot, sh.n))
	if c.Idx < 4 {
		c.Sample(map[string]any{"kind": "concurrent", "goroutines": G, "calls_per_goroutine": calls, "distinct_inputs_per_goroutine": len(ops[0]),
			"shared_slot": sh.slot, "shared_n": sh.n, "first_threshold_inputs_of_goroutine_0": []string{vfConcDescribe(&ops[0][0]), vfConcDescribe(&ops[0][8]), vfConcDescribe(&ops[0][9])}})
	}
}

func vfConcDescribe(op *vfConcOp) string {
	switch op.kind {
	case vfOpThr:
		return fmt.Sprintf("CalculateThreshold(%d,%d,%d)", op.c1, op.c2, op.n)
	case vfOpSec:
		return fmt.Sprintf("getSecondarySlotAuthor(slot=%d,n=%d,randomness=%x)", op.slot, op.sn, op.rnd)
	case vfOpSecVerify:
		return fmt.Sprintf("verifySecondarySlotPlain(index=%d,slot=%d,n=%d,randomness=%x)", op.idx, op.slot, op.sn, op.rnd)
	}
	return fmt.Sprintf("checkPrimaryThreshold(randomness=%x,slot=%d,epoch=%d,output=%x,T=%s,pub=%s)", op.rnd, op.slot, op.epoch, op.out, op.t, op.pub.Hex())
}

// vfJudgeSecVerify: the author index that verification applies to a secondary claim is the specified one:
// verifySecondarySlotPlain(idx, slot, n, randomness) succeeds iff idx = BE(BLAKE2b-256(randomness||LE64(slot))) mod n.
func vfJudgeSecVerify(c *vcommon.Case, idx uint32, slot, n uint64, rnd Randomness, want uint64, err error, w map[string]any) (refuted bool) {
	w["model_author"] = want
	w["claimed_index"] = idx
	switch {
	case uint64(idx) == want && err != nil:
		w["error"] = err.Error()
		c.Violation("sec-verify", fmt.Sprintf("verifySecondarySlotPlain(index=%d,slot=%d,n=%d,randomness=%x) refused the index "+
			"BE(BLAKE2b-256(randomness||LE64(slot))) mod n = %d: %v", idx, slot, n, rnd, want, err), w)
		return true
	case uint64(idx) != want && err == nil:
		c.Violation("sec-verify", fmt.Sprintf("verifySecondarySlotPlain(index=%d,slot=%d,n=%d,randomness=%x) admitted an index that is not "+
			"BE(BLAKE2b-256(randomness||LE64(slot))) mod n = %d", idx, slot, n, rnd, want), w)
		return true
	case err != nil && !errors.Is(err, ErrBadSecondarySlotClaim):
		c.Count("sec_verify_rejected_with_other_error", 1)
	}
	return false
}

// vfCheckSecReuse: the same slot number and authority count under 2-3 different randomness values, sequentially in the
// order A,B,A(,C,B,A): both the author function and the verification-side author check follow the randomness given.
func vfCheckSecReuse(c *vcommon.Case) {
	r := c.R
	n := uint64(r.Range(2, 6))
	switch r.Intn(6) {
	case 0:
		n = uint64(vfPickN(r))
	case 1:
		n = r.Uint64()%(1<<31) + 1
	}
	slot := r.Uint64() >> uint(r.Intn(62))
	rnds := make([]Randomness, r.Range(2, 3))
	authors := make([]uint64, len(rnds))
	differ := false
	for i := range rnds {
		copy(rnds[i][:], r.Bytes(32))
		if i > 0 && r.Chance(1, 4) { // one bit / one byte away from the first
			rnds[i] = rnds[0]
			rnds[i][r.Intn(32)] ^= 1 << uint(r.Intn(8))
		}
		authors[i] = vfSecondaryAuthor(rnds[i], slot, n)
		differ = differ || authors[i] != authors[0]
	}
	order := []int{0, 1, 0}
	if len(rnds) == 3 {
		order = append(order, 2, 1, 0)
	}
	for k, f := range order {
		a := authors[f]
		w := map[string]any{"family": "sec-reuse", "slot": slot, "n": n, "position": k, "randomness": vcommon.Hex(rnds[f][:]),
			"order": order, "authors_by_randomness": authors}
		got, err := getSecondarySlotAuthor(slot, int(n), rnds[f])
		c.Eval(1)
		c.Count("sec_calls", 1)
		if err != nil {
			c.Violation("sec-error", fmt.Sprintf("getSecondarySlotAuthor failed: %v", err), w)
		} else if uint64(got) != a {
			w["got"] = got
			c.Violation("sec-author", fmt.Sprintf("getSecondarySlotAuthor(slot=%d,n=%d)=%d after the same slot under another randomness, model %d", slot, n, got, a), w)
		}
		for _, idx := range []uint64{a, (a + 1) % n, authors[(f+1)%len(rnds)]} {
			c.Eval(1)
			c.Count("sec_verify_calls", 1)
			if k > 0 {
				c.Count("sec_verify_same_slot_same_n_after_other_randomness", 1)
				if differ {
					c.Count("sec_verify_same_slot_same_n_author_differs_between_randomness", 1)
				}
			}
			verr := verifySecondarySlotPlain(uint32(idx), slot, int(n), rnds[f])
			vfJudgeSecVerify(c, uint32(idx), slot, n, rnds[f], a, verr, w)
		}
	}
	c.Distinct(fmt.Sprintf("secreuse|%d|%d|%d", slot, n, len(rnds)))
	if c.Idx < 2 {
		c.Sample(map[string]any{"kind": "secondary_author_same_slot_other_randomness", "slot": slot, "n": n, "authors_by_randomness": authors, "order": order})
	}
}

// vfConcFamily registers the concurrent cases (G cycles through 2,4,8,16) under the given group name.
func vfConcFamily(r *vcommon.Run, group string, cases, calls int) {
	gs := []int{2, 4, 8, 16}
	r.Cases(group, cases, func(c *vcommon.Case) { vfRunConcurrent(c, gs[(c.Idx+c.Idx/len(gs))%len(gs)], calls) })
}

// TestVerifC25Race: the concurrent family alone, for the binary built with the race detector (an unsynchronised
// package-level scratch value is reported by the detector even when the values happened to come out right).
func TestVerifC25Race(t *testing.T) {
	r := vcommon.Start(t, "C25")
	defer r.Finish()
	if err := vfBlake2bSelfCheck(); err != nil {
		r.Fixed("race-selfcheck", r.Shards, func(c *vcommon.Case) { c.Inconclusive("reference model self-validation failed: " + err.Error()) })
		return
	}
	vfConcFamily(r, "race-conc", r.Scale(8), 150)
}
