//go:build verif

package grandpa

// C18 (extension) — commits on the production message path and on the tracker re-delivery path.
//
//   wire path      CommitMessage.ToConsensusMessage -> bytes -> Service.decodeMessage -> Service.handleNetworkMessage
//                  -> decodeMessage -> MessageHandler.handleMessage -> handleCommitMessage
//   tracker path   a commit whose target block is not in the block state is parked by tracker.addCommit and handled
//                  again by tracker.handleBlock (target imported) / tracker.handleTick
//
// Oracle = the C18 predicate, evaluated for the state at the moment a block is finalised: every successful
// BlockState.SetFinalisedHash call observed during an action (delivery, handleBlock, handleTick) must be explained by
// a commit message that the action handles (the one delivered, or one the tracker held before the action) whose
// target is the finalised block and for which more than 2/3 of the authorities CURRENT AT THAT MOMENT have a
// correctly signed precommit (commit's round, node's current set id) for the target or a descendant the node knows,
// or two different valid precommits. An action that finalises nothing must leave the finality state unchanged.

import (
	stded "crypto/ed25519"
	"fmt"
	"sort"
	"testing"

	"github.com/ChainSafe/gossamer/dot/types"
	"github.com/ChainSafe/gossamer/lib/common"
	"github.com/ChainSafe/gossamer/lib/crypto/ed25519"
	"github.com/ChainSafe/gossamer/zz_verif/vcommon"
	"github.com/libp2p/go-libp2p/core/peer"
)

// c18x is one Service with blocks arriving late and the authority set possibly changing.
type c18x struct {
	c     *vcommon.Case
	node  *verifNode
	tree  *verifTree
	keys  []*ed25519.Keypair // current authorities [0,n), then others
	n     int
	setID uint64
	late  map[int]bool
	from  peer.ID
	log   []map[string]any
	// labels of the generated commits by message identity (coverage only; the oracle reads the raw message)
	notes map[string]string
	// parkedAt: state when a commit was parked (coverage: set changed / head moved in between)
	parkedSet map[string]uint64
	ticked    map[string]bool
}

func c18xID(m *CommitMessage) string {
	s := fmt.Sprintf("%d|%d|%x|%d|", m.Round, m.SetID, m.Vote.Hash[:6], m.Vote.Number)
	for i, pc := range m.Precommits {
		s += fmt.Sprintf("%x.%d", pc.Hash[:3], pc.Number)
		if i < len(m.AuthData) {
			s += fmt.Sprintf(".%x.%x;", m.AuthData[i].AuthorityID[:3], m.AuthData[i].Signature[:4])
		}
	}
	return s
}

// known: the node holds block v with that number on a chain that was not abandoned by a finalisation.
func (x *c18x) known(v Vote, fin int) int {
	i := x.tree.Index(v.Hash)
	if i < 0 || x.late[i] {
		return -1
	}
	if !x.tree.IsAncestorOrEqual(fin, i) && !x.tree.IsAncestorOrEqual(i, fin) {
		return -1
	}
	if uint32(x.tree.Number[i]) != v.Number { //nolint:gosec
		return -1
	}
	return i
}

// reference evaluates the property's predicate for the raw commit message with the node's current set.
func (x *c18x) reference(m *CommitMessage, fin int) c18Ref {
	ref := c18Ref{N: x.n}
	tgt := x.known(m.Vote, fin)
	ref.TargetOK = tgt >= 0 && len(m.Precommits) == len(m.AuthData)
	if len(m.Precommits) != len(m.AuthData) {
		return ref
	}
	authIdx := map[ed25519.PublicKeyBytes]int{}
	for i := 0; i < x.n; i++ {
		authIdx[verifPub(x.keys[i])] = i
	}
	type seen struct {
		votes, wellFormed map[Vote]struct{}
		supports          bool
	}
	per := map[int]*seen{}
	for i, pc := range m.Precommits {
		ad := m.AuthData[i]
		a, ok := authIdx[ad.AuthorityID]
		if !ok {
			continue
		}
		// correctly signed for the commit's round and the node's CURRENT set id
		if !stded.Verify(stded.PublicKey(ad.AuthorityID[:]), refFullVotePayload(1, pc, m.Round, x.setID), ad.Signature[:]) {
			continue
		}
		s := per[a]
		if s == nil {
			s = &seen{votes: map[Vote]struct{}{}, wellFormed: map[Vote]struct{}{}}
			per[a] = s
		}
		s.votes[pc] = struct{}{}
		if b := x.known(pc, fin); b >= 0 {
			s.wellFormed[pc] = struct{}{}
			if tgt >= 0 && x.tree.IsAncestorOrEqual(tgt, b) {
				s.supports = true
			}
		}
	}
	for _, s := range per {
		if s.supports || len(s.wellFormed) >= 2 {
			ref.CountStrict++
		}
		if s.supports || len(s.votes) >= 2 {
			ref.CountLenient++
		}
		if len(s.votes) >= 2 {
			ref.Equivocators++
		}
	}
	// the message must be a commit of the node's current set
	ok := ref.TargetOK && m.SetID == x.setID
	ref.Strict = ok && 3*ref.CountStrict > 2*x.n
	ref.Lenient = ok && 3*ref.CountLenient > 2*x.n
	return ref
}

func (x *c18x) describe(m *CommitMessage) map[string]any {
	var ents []map[string]any
	for i, pc := range m.Precommits {
		e := map[string]any{"block": x.tree.Index(pc.Hash), "number": pc.Number}
		if i < len(m.AuthData) {
			e["sig"] = vcommon.Hex(m.AuthData[i].Signature[:6])
			e["key"] = -1
			for j, kp := range x.keys {
				if verifPub(kp) == m.AuthData[i].AuthorityID {
					e["key"] = j
				}
			}
		}
		ents = append(ents, e)
	}
	return map[string]any{"round": m.Round, "set_id": m.SetID, "target_block": x.tree.Index(m.Vote.Hash), "target_number": m.Vote.Number,
		"entries": ents, "generated_as": x.notes[c18xID(m)]}
}

func (x *c18x) witness(extra map[string]any) map[string]any {
	var lt []int
	for i := range x.late {
		lt = append(lt, i)
	}
	sort.Ints(lt)
	w := map[string]any{"n": x.n, "set_id": x.setID, "tree_parents": x.tree.Shape(), "blocks_not_imported": lt, "steps": x.log}
	for a, b := range extra {
		w[a] = b
	}
	return w
}

// act runs one action and applies the oracle. direct = the commit the action delivers (nil for tracker actions);
// only = block hash of a handleBlock action. Returns (finalised something, ok to continue).
func (x *c18x) act(via string, direct *CommitMessage, only *common.Hash, run func() error) (bool, bool) {
	c, node, tree := x.c, x.node, x.tree
	svc := node.Service
	// what the action may handle
	var cands []*CommitMessage
	if direct != nil {
		cands = append(cands, direct)
	} else if only != nil {
		if m := svc.tracker.commits.message(*only); m != nil {
			cands = append(cands, m)
		}
	} else {
		svc.tracker.commits.forEach(func(m *CommitMessage) { cands = append(cands, m) })
	}
	heldBefore := map[string]bool{}
	svc.tracker.commits.forEach(func(m *CommitMessage) { heldBefore[c18xID(m)] = true })
	fin := node.FinalisedIndex()
	before := node.Digest()
	hadRound := false
	if direct != nil {
		hadRound, _ = node.Block.HasFinalisedBlock(direct.Round, x.setID)
	}
	err := run()
	after := node.Digest()
	calls := node.Block.Calls[before.Calls:]
	c.Eval(1)
	c.Count("x18_"+c21xSlug(via)+"_calls", 1)
	step := map[string]any{"via": via, "err": fmt.Sprint(err), "finalised_before": fin}
	if direct != nil {
		step["commit"] = x.describe(direct)
	} else {
		var ds []map[string]any
		for _, m := range cands {
			ds = append(ds, x.describe(m))
		}
		step["commits_held_by_the_tracker"] = ds
		if len(cands) > 0 {
			c.Count("x18_"+c21xSlug(via)+"_with_parked_commits", 1)
		}
	}
	x.log = append(x.log, step)
	finalised := false
	used := map[*CommitMessage]bool{}
	for _, f := range calls {
		if f.Err != nil {
			continue
		}
		finalised = true
		F := tree.Index(f.Hash)
		// a commit handled by this action that explains the call
		var exp *CommitMessage
		var expRef c18Ref
		short := ""
		for _, m := range cands {
			if used[m] || m.Vote.Hash != f.Hash || m.Round != f.Round {
				continue
			}
			ref := x.reference(m, fin)
			if ref.Lenient {
				exp, expRef = m, ref
				break
			}
			short = fmt.Sprintf("the commit for it has %d counting authorities of %d (needs > 2n/3; commit set id %d, node set id %d)", ref.CountLenient, x.n, m.SetID, x.setID)
		}
		step["finalised"] = F
		switch {
		case exp == nil && short != "":
			c.Violation("accepted-without-supermajority", fmt.Sprintf("%s finalised block %d: %s", via, F, short), x.witness(nil))
			return true, false
		case exp == nil:
			c.Violation("finalised-without-commit", fmt.Sprintf("%s finalised block %d (round %d) and no commit handled by it has that target and round", via, F, f.Round), x.witness(nil))
			return true, false
		case f.SetID != x.setID:
			c.Violation("finalised-wrong-set", fmt.Sprintf("%+v, node set id %d", f, x.setID), x.witness(nil))
			return true, false
		}
		used[exp] = true
		id := c18xID(exp)
		c.Count("x18_accepted", 1)
		if !expRef.Strict {
			c.Count("x18_accepted_ambiguous_equivocation_class", 1)
		}
		if direct != nil {
			c.Count("x18_wire_commit_finalised", 1)
		} else {
			c.Count("x18_parked_commit_finalised", 1)
			c.Count("x18_parked_commit_finalised_by_"+c21xSlug(via), 1)
			if x.ticked[id] {
				c.Count("x18_parked_commit_finalised_after_surviving_a_tick", 1)
			}
			if ps, ok := x.parkedSet[id]; ok && ps != x.setID {
				c.Count("x18_parked_commit_finalised_for_the_set_that_became_current", 1)
			}
			if 3*expRef.CountStrict > 2*x.n && 3*(expRef.CountStrict-1) <= 2*x.n {
				c.Count("x18_parked_commit_minimal_supermajority_finalised", 1)
			}
			c.Distinct(fmt.Sprintf("parked-acc|%d|%d|%s|%s", x.n, expRef.CountStrict, via, x.notes[id]))
			c.Sample(map[string]any{"via": via, "n": x.n, "counting": expRef.CountStrict, "target": F, "generated_as": x.notes[id]})
		}
		fin = F
	}
	if finalised {
		if err != nil && direct != nil {
			c.Violation("finalised-but-error", "commit finalised and handleNetworkMessage returned "+err.Error(), x.witness(nil))
			return true, false
		}
	} else {
		if before != after {
			c.Violation("state-change-on-rejected-commit", fmt.Sprintf("%s finalised nothing but before=%+v after=%+v", via, before, after), x.witness(nil))
			return false, false
		}
		if direct != nil && err == nil {
			if hadRound {
				c.Count("x18_ignored_round_already_finalised", 1)
			} else {
				c.Violation("silently-dropped", "handleNetworkMessage returned nil without finalising and the round was not finalised before", x.witness(nil))
				return false, false
			}
		}
	}
	// coverage: what happened to the commits that were handled and did not finalise
	for _, m := range cands {
		if used[m] {
			continue
		}
		ref := x.reference(m, node.FinalisedIndex())
		id := c18xID(m)
		tag := "wire"
		if direct == nil {
			tag = "parked"
		}
		switch {
		case x.tree.Index(m.Vote.Hash) >= 0 && x.late[x.tree.Index(m.Vote.Hash)]:
			c.Count("x18_"+tag+"_commit_target_still_missing", 1)
		case ref.Strict:
			c.Count("x18_"+tag+"_commit_rejected_although_predicate_true", 1)
		default:
			c.Count("x18_"+tag+"_commit_rejected_short", 1)
			if direct == nil {
				if 3*ref.CountStrict == 2*x.n && ref.TargetOK && m.SetID == x.setID {
					c.Count("x18_parked_commit_exactly_two_thirds_rejected", 1)
				}
				if ps, ok := x.parkedSet[id]; ok && ps != x.setID {
					c.Count("x18_parked_commit_rejected_after_set_change", 1)
				}
				c.Distinct(fmt.Sprintf("parked-rej|%d|%d|%s|%s", x.n, ref.CountLenient, via, x.notes[id]))
			}
		}
	}
	// tracker bookkeeping (coverage only)
	held := map[string]bool{}
	svc.tracker.commits.forEach(func(m *CommitMessage) { held[c18xID(m)] = true })
	if direct != nil && held[c18xID(direct)] {
		c.Count("x18_commit_parked", 1)
		x.parkedSet[c18xID(direct)] = x.setID
		if !heldBefore[c18xID(direct)] && len(heldBefore) > 0 {
			c.Count("x18_commit_parked_next_to_others", 1)
		}
	}
	if via == "tracker.handleTick" {
		for id := range held {
			if heldBefore[id] {
				x.ticked[id] = true
				c.Count("x18_parked_commit_survives_tick", 1)
			}
		}
	}
	return finalised, true
}

func (x *c18x) deliver(cm *c18Commit) (bool, bool) {
	m := cm.message()
	x.notes[c18xID(m)] = cm.Note
	if _, herr := m.ToConsensusMessage(); herr != nil {
		x.c.Inconclusive("harness could not encode the commit: " + herr.Error())
		return false, false
	}
	return x.act("handleNetworkMessage", m, nil, func() error {
		_, err, _ := verifWire(x.node.Service, x.from, m)
		return err
	})
}

func (x *c18x) importable(i int) bool {
	p := x.tree.Parent[i]
	fin := x.node.FinalisedIndex()
	return x.late[i] && p >= 0 && !x.late[p] && x.tree.IsAncestorOrEqual(fin, p)
}

func (x *c18x) importBlock(i int) *types.Block {
	blk := &types.Block{Header: *x.tree.Headers[i], Body: types.Body{}}
	if err := x.node.Block.AddBlock(blk); err != nil {
		x.c.Inconclusive(fmt.Sprintf("import of late block %d: %s", i, err))
		return nil
	}
	delete(x.late, i)
	x.log = append(x.log, map[string]any{"via": "BlockState.AddBlock", "block": i})
	x.c.Count("x18_late_blocks_imported", 1)
	return blk
}

func (x *c18x) handleBlock(blk *types.Block) (bool, bool) {
	h := blk.Header.Hash()
	return x.act("tracker.handleBlock", nil, &h, func() error { x.node.Service.tracker.handleBlock(blk); return nil })
}

func (x *c18x) tick() (bool, bool) {
	return x.act("tracker.handleTick", nil, nil, func() error { x.node.Service.tracker.handleTick(); return nil })
}

// setChange installs a new authority set (the keys given) the way a finalised scheduled change does.
func (x *c18x) setChange(cur []*ed25519.Keypair, rest []*ed25519.Keypair) bool {
	node := x.node
	if err := node.Grandpa.GrandpaState.SetNextChange(verifVoters(cur), x.tree.Number[node.FinalisedIndex()]); err != nil {
		x.c.Inconclusive("SetNextChange: " + err.Error())
		return false
	}
	if _, err := node.Grandpa.GrandpaState.IncrementSetID(); err != nil {
		x.c.Inconclusive("IncrementSetID: " + err.Error())
		return false
	}
	if err := node.Service.initiateRound(); err != nil {
		x.c.Inconclusive("initiateRound after set change: " + err.Error())
		return false
	}
	x.setID++
	x.keys = append(append([]*ed25519.Keypair{}, cur...), rest...)
	x.n = len(cur)
	node.Keys = x.keys
	if node.Service.state.setID != x.setID || len(node.Service.state.voters) != x.n {
		x.c.Inconclusive(fmt.Sprintf("set change not applied: service set id %d, %d voters", node.Service.state.setID, len(node.Service.state.voters)))
		return false
	}
	x.log = append(x.log, map[string]any{"via": "authority set change", "new_set_id": x.setID, "n": x.n})
	x.c.Count("x18_set_changes", 1)
	return true
}

func newC18x(c *vcommon.Case, tree *verifTree, keys []*ed25519.Keypair, n int, late map[int]bool) *c18x {
	node, err := verifNewNode(tree, keys[:n], verifNodeOpts{Self: 0, SkipBlock: func(i int) bool { return late[i] }})
	if err != nil {
		c.Inconclusive("setup: " + err.Error())
		return nil
	}
	node.Keys = keys
	return &c18x{c: c, node: node, tree: tree, keys: keys, n: n, late: late, from: peer.ID("verif-peer"),
		notes: map[string]string{}, parkedSet: map[string]uint64{}, ticked: map[string]bool{}}
}

// ---- fixed corpus -------------------------------------------------------------------------------

type c18xFixed struct {
	Name             string
	N                int
	Late             int   // root of the withheld subtree (tree c18xTree)
	Target           int   // late target of the parked commit
	Signers          []int // authorities signing a valid precommit for the target
	Garbage          []int // authorities listed with a random signature
	Second           []int // if set: a second commit for the same target (replaces the parked one), signed by these
	Via              string
	TickWhileMissing bool
	SetChange        string // "" | disjoint | same-keys : authority set change between parking and import
	ForNextSet       bool   // the commit is built for set id 1 (signed by the keys that become the set)
	Expect           string // finalise | reject
}

// 0-1-2-3 chain, fork 4-5 from block 1; blocks 2,3 arrive late
var c18xTree = []int{-1, 0, 1, 2, 1, 4}

func c18xCorpus() []c18xFixed {
	return []c18xFixed{
		{Name: "valid commit parked, target imported, handleBlock", N: 4, Late: 2, Target: 3, Signers: []int{0, 1, 2}, Via: "block", Expect: "finalise"},
		{Name: "valid commit parked, survives a tick, target imported, handleTick", N: 4, Late: 2, Target: 3, Signers: []int{0, 1, 2, 3}, Via: "tick", TickWhileMissing: true, Expect: "finalise"},
		{Name: "two of four parked, handleBlock", N: 4, Late: 2, Target: 3, Signers: []int{0, 1}, Via: "block", Expect: "reject"},
		{Name: "two of four parked, handleTick", N: 4, Late: 2, Target: 3, Signers: []int{0, 1}, Via: "tick", Expect: "reject"},
		{Name: "empty commit parked (n=1)", N: 1, Late: 2, Target: 2, Via: "block", Expect: "reject"},
		{Name: "eight garbage signatures parked", N: 4, Late: 2, Target: 2, Garbage: []int{0, 0, 1, 1, 2, 2, 3, 3}, Via: "block", Expect: "reject"},
		{Name: "one authority three times parked", N: 4, Late: 2, Target: 3, Signers: []int{2, 2, 2}, Via: "tick", Expect: "reject"},
		{Name: "valid commit replaced by a short one for the same target", N: 4, Late: 2, Target: 3, Signers: []int{0, 1, 2}, Second: []int{3}, Via: "block", Expect: "reject"},
		{Name: "short commit replaced by a valid one", N: 4, Late: 2, Target: 3, Signers: []int{3}, Second: []int{0, 1, 3}, Via: "block", Expect: "finalise"},
		{Name: "valid commit of set 0 handed back in set 1 (other keys)", N: 4, Late: 2, Target: 3, Signers: []int{0, 1, 2, 3}, Via: "block", SetChange: "disjoint", Expect: "reject"},
		{Name: "valid commit of set 0 handed back in set 1 (same keys)", N: 4, Late: 2, Target: 3, Signers: []int{0, 1, 2, 3}, Via: "tick", SetChange: "same-keys", Expect: "reject"},
		{Name: "commit for set 1 signed by the old set, handed back in set 1 (other keys)", N: 4, Late: 2, Target: 3, Signers: []int{0, 1, 2, 3}, Via: "block", SetChange: "disjoint", ForNextSet: true, Expect: "reject"},
		{Name: "seven voters, five sign, handleBlock", N: 7, Late: 2, Target: 2, Signers: []int{0, 1, 2, 3, 4}, Via: "block", Expect: "finalise"},
		{Name: "seven voters, four sign (exactly floor(2n/3)), handleTick", N: 7, Late: 2, Target: 2, Signers: []int{0, 1, 2, 3}, Via: "tick", Expect: "reject"},
	}
}

func c18xRunFixed(c *vcommon.Case, fc c18xFixed) {
	tree := verifTreeFromParents(c18xTree, 1880)
	pool := verifKeypairs(18800+uint64(fc.N), 12) //nolint:gosec
	keys := append(append([]*ed25519.Keypair{}, pool[:fc.N]...), pool[10:]...)
	late := map[int]bool{}
	for _, d := range tree.Descendants(fc.Late) {
		late[d] = true
	}
	x := newC18x(c, tree, keys, fc.N, late)
	if x == nil {
		return
	}
	defer x.node.Close()
	g := &c18Gen{tree: tree, keys: keys, n: fc.N, r: c.R}
	build := func(signers []int, note string) *c18Commit {
		cm := &c18Commit{Round: 1, Target: tree.Vote(fc.Target), Note: "fixed:" + fc.Name + note}
		if fc.ForNextSet {
			cm.SetID, g.setID = 1, 1
		}
		for _, a := range signers {
			cm.Entries = append(cm.Entries, g.valid("valid", a, tree.Vote(fc.Target), 1))
		}
		for _, a := range fc.Garbage {
			cm.Entries = append(cm.Entries, g.garbage("invalid-sig", a, tree.Vote(fc.Target)))
		}
		return cm
	}
	fin, ok := x.deliver(build(fc.Signers, ""))
	if !ok || fin {
		return
	}
	if fc.Second != nil {
		if fin, ok = x.deliver(build(fc.Second, " (second commit)")); !ok || fin {
			return
		}
	}
	if fc.TickWhileMissing {
		if fin, ok = x.tick(); !ok || fin {
			return
		}
	}
	switch fc.SetChange {
	case "disjoint":
		if !x.setChange(pool[4:4+fc.N], append(append([]*ed25519.Keypair{}, pool[:fc.N]...), pool[10:]...)) {
			return
		}
	case "same-keys":
		if !x.setChange(pool[:fc.N], pool[10:]) {
			return
		}
	}
	got := false
	for i := 1; i < tree.Len(); i++ {
		if !x.importable(i) {
			continue
		}
		blk := x.importBlock(i)
		if blk == nil {
			return
		}
		if fc.Via == "block" {
			if fin, ok = x.handleBlock(blk); !ok {
				return
			}
			got = got || fin
		}
	}
	if fin, ok = x.tick(); !ok {
		return
	}
	got = got || fin
	if (fc.Expect == "finalise") == got {
		c.Count("x18_corpus_cases_as_expected", 1)
	}
}

// ---- generated ------------------------------------------------------------------------------------

func c18xRunGenerated(c *vcommon.Case) {
	r := c.R
	n := vcommon.Pick(r, []int{1, 2, 3, 3, 4, 4, 5, 6, 6, 7, 9})
	tree := verifGenTree(r, r.Range(5, 12), r.Range(15, 45), r.Uint64())
	pool := verifKeypairs(r.Uint64(), 14)
	keys := append(append([]*ed25519.Keypair{}, pool[:n]...), pool[11:]...)
	late := c21xPickLate(r, tree, 0, r.Range(1, 2))
	x := newC18x(c, tree, keys, n, late)
	if x == nil {
		return
	}
	defer x.node.Close()
	round := uint64(r.Range(1, 3)) //nolint:gosec
	changed := false
	steps := r.Range(4, 9)
	for s := 0; s < steps; s++ {
		fin := x.node.FinalisedIndex()
		if fin < 0 {
			c.Inconclusive("finalised block not in tree")
			return
		}
		var lateDesc, knownDesc []int
		for _, b := range tree.Descendants(fin) {
			if x.late[b] {
				lateDesc = append(lateDesc, b)
			} else {
				knownDesc = append(knownDesc, b)
			}
		}
		thr := 2 * x.n / 3
		ok := true
		switch y := r.Intn(100); {
		case y < 45: // a commit arrives
			var tgt int
			if len(lateDesc) > 0 && r.Intn(100) < 70 {
				tgt = vcommon.Pick(r, lateDesc)
			} else {
				tgt = vcommon.Pick(r, knownDesc)
			}
			counting := vcommon.Pick(r, []int{thr, thr, thr + 1, thr + 1, thr + 1, x.n, r.Intn(x.n + 1)})
			g := &c18Gen{tree: tree, keys: x.keys, n: x.n, setID: x.setID, r: r}
			note := "current-set"
			switch z := r.Intn(100); {
			case z < 12 && !changed:
				// built for the NEXT set id by the current keys (they may or may not be authorities then)
				g.setID = x.setID + 1
				note = "signed-for-next-set-id"
			case z < 18 && x.setID > 0:
				g.setID = x.setID - 1
				note = "signed-for-previous-set-id"
			}
			cm := g.commit(tgt, round, counting, r.Range(0, 80))
			cm.Note = fmt.Sprintf("%s counting=%d target_late=%v", note, counting, x.late[tgt])
			_, ok = x.deliver(cm)
			if r.Intn(3) > 0 {
				round++
			}
		case y < 70: // the next late block arrives
			imported := false
			for i := 1; i < tree.Len() && !imported; i++ {
				if !x.importable(i) {
					continue
				}
				imported = true
				blk := x.importBlock(i)
				if blk == nil {
					return
				}
				if r.Intn(100) < 65 {
					_, ok = x.handleBlock(blk)
				} else {
					c.Count("x18_imports_left_to_the_tick", 1)
				}
			}
		case y < 88:
			_, ok = x.tick()
		default: // authority set change
			if changed && r.Bool() {
				continue
			}
			var cur, rest []*ed25519.Keypair
			for i := 0; i < 11; i++ {
				inOld := i < x.n && !changed
				keep := inOld && r.Intn(100) < 50
				add := !inOld && r.Intn(100) < 25
				if keep || add {
					cur = append(cur, pool[i])
				} else {
					rest = append(rest, pool[i])
				}
			}
			if len(cur) == 0 {
				cur, rest = rest[:1], rest[1:]
			}
			if len(cur) > 9 {
				cur, rest = cur[:9], append(rest, cur[9:]...)
			}
			ok = x.setChange(cur, append(rest, pool[11:]...))
			changed = true
			round = 1
		}
		if !ok {
			return
		}
	}
	// everything still withheld arrives, the tracker hands the rest back
	for i := 1; i < tree.Len(); i++ {
		if !x.importable(i) {
			continue
		}
		blk := x.importBlock(i)
		if blk == nil {
			return
		}
		if r.Bool() {
			if _, ok := x.handleBlock(blk); !ok {
				return
			}
		}
	}
	if _, ok := x.tick(); !ok {
		return
	}
	c.Count("x18_scenarios_completed", 1)
}

func TestVerifC18Tracker(t *testing.T) {
	r := vcommon.Start(t, "C18")
	defer r.Finish()
	corpus := c18xCorpus()
	r.Floor("x18_corpus_cases_as_expected", len(corpus))
	for name, need := range map[string]int{
		"x18_scenarios_completed": 300, "x18_handleNetworkMessage_calls": 800, "x18_wire_commit_finalised": 60,
		"x18_wire_commit_rejected_short": 80, "x18_commit_parked": 300,
		"x18_tracker.handleBlock_with_parked_commits": 100, "x18_tracker.handleTick_with_parked_commits": 150,
		"x18_parked_commit_finalised": 60, "x18_parked_commit_finalised_by_tracker.handleBlock": 25,
		"x18_parked_commit_finalised_by_tracker.handleTick": 15, "x18_parked_commit_rejected_short": 100,
		"x18_parked_commit_exactly_two_thirds_rejected": 15, "x18_parked_commit_minimal_supermajority_finalised": 15,
		"x18_parked_commit_survives_tick": 100, "x18_parked_commit_finalised_after_surviving_a_tick": 10,
		"x18_parked_commit_rejected_after_set_change": 20, "x18_set_changes": 50, "x18_late_blocks_imported": 500,
	} {
		r.Floor(name, need)
	}
	r.Fixed("tracker-corpus", len(corpus), func(c *vcommon.Case) { c18xRunFixed(c, corpus[c.Idx]) })
	r.Cases("tracker", r.Scale(450), c18xRunGenerated)
}
