//go:build verif

package grandpa

// C18 — only supermajority-signed commits finalise blocks.
//
// Monitor: a real Service on a real BlockState receives generated commit messages through
// handleCommitMessage. Every BlockState.SetFinalisedHash call is recorded by a wrapper. The reference
// predicate is computed from the message alone (independent ed25519 verification with crypto/ed25519 over
// a hand-written encoding of the signed payload, ancestry from the explicit parent vector).
//
// One-directional oracle (the property text: "finalises only if ...; any commit that falls short is
// rejected and finalises nothing"):
//   VIOLATION  = commit finalised something although the reference predicate is false
//              | finalised a block other than the commit target
//              | observable finality state changed although the commit was rejected / ignored
// That honest commits ARE accepted is a coverage floor, not a verdict.

import (
	stded "crypto/ed25519"
	"encoding/binary"
	"fmt"
	"sort"
	"strings"
	"testing"

	"github.com/ChainSafe/gossamer/lib/common"
	"github.com/ChainSafe/gossamer/lib/crypto/ed25519"
	"github.com/ChainSafe/gossamer/zz_verif/vcommon"
)

// refFullVotePayload is the SCALE encoding of FullVote{stage, {hash, number}, round, setID}
// written by hand (u8 ‖ 32 bytes ‖ u32 LE ‖ u64 LE ‖ u64 LE), independent of pkg/scale.
func refFullVotePayload(stage byte, v Vote, round, setID uint64) []byte {
	b := make([]byte, 0, 53)
	b = append(b, stage)
	b = append(b, v.Hash[:]...)
	b = binary.LittleEndian.AppendUint32(b, v.Number)
	b = binary.LittleEndian.AppendUint64(b, round)
	b = binary.LittleEndian.AppendUint64(b, setID)
	return b
}

// c18Entry is one (precommit, authData) pair of a generated commit with its generation label.
type c18Entry struct {
	Label string
	Auth  int // index into the key list (>= n: not an authority)
	Vote  Vote
	Sig   [64]byte
	ID    ed25519.PublicKeyBytes
}

type c18Commit struct {
	Round   uint64
	SetID   uint64
	Target  Vote
	Entries []c18Entry
	Note    string
	// DropLastAuth makes the AuthData list one shorter than the precommit list (malformed message)
	DropLastAuth bool
}

func (cm *c18Commit) message() *CommitMessage {
	m := &CommitMessage{Round: cm.Round, SetID: cm.SetID, Vote: cm.Target}
	for _, e := range cm.Entries {
		m.Precommits = append(m.Precommits, e.Vote)
		m.AuthData = append(m.AuthData, AuthData{Signature: e.Sig, AuthorityID: e.ID})
	}
	if cm.DropLastAuth && len(m.AuthData) > 0 {
		m.AuthData = m.AuthData[:len(m.AuthData)-1]
	}
	return m
}

// c18Ref is the reference verdict.
type c18Ref struct {
	TargetOK     bool
	CountStrict  int // authorities with a valid precommit for target-or-descendant, or two different valid well-formed precommits
	CountLenient int // same, an equivocation being ANY two different validly signed precommits
	N            int
	Strict       bool
	Lenient      bool
	Equivocators int
}

// c18Reference computes the predicate of the property for commit cm as seen by a node whose authority
// set is keys[:n], whose set id is setID and whose finalised block is fin (tree index).
func c18Reference(tree *verifTree, keys []*ed25519.Keypair, n int, setID uint64, fin int, cm *c18Commit) c18Ref {
	ref := c18Ref{N: n}
	known := func(v Vote) int {
		i := tree.Index(v.Hash)
		if i < 0 {
			return -1
		}
		// blocks on abandoned forks were pruned when fin was finalised
		if !tree.IsAncestorOrEqual(fin, i) && !tree.IsAncestorOrEqual(i, fin) {
			return -1
		}
		if uint32(tree.Number[i]) != v.Number { //nolint:gosec
			return -1
		}
		return i
	}
	tgt := known(cm.Target)
	ref.TargetOK = tgt >= 0 && !(cm.DropLastAuth && len(cm.Entries) > 0) // precommits and auth data must pair up
	authIdx := map[ed25519.PublicKeyBytes]int{}
	for i := 0; i < n; i++ {
		authIdx[verifPub(keys[i])] = i
	}
	type seen struct {
		votes      map[Vote]struct{}
		wellFormed map[Vote]struct{}
		supports   bool
	}
	per := map[int]*seen{}
	for _, e := range cm.Entries {
		a, ok := authIdx[e.ID]
		if !ok {
			continue // not a current authority
		}
		payload := refFullVotePayload(1, e.Vote, cm.Round, setID)
		if !stded.Verify(stded.PublicKey(e.ID[:]), payload, e.Sig[:]) {
			continue // not correctly signed for this round and set
		}
		s := per[a]
		if s == nil {
			s = &seen{votes: map[Vote]struct{}{}, wellFormed: map[Vote]struct{}{}}
			per[a] = s
		}
		s.votes[e.Vote] = struct{}{}
		if b := known(e.Vote); b >= 0 {
			s.wellFormed[e.Vote] = struct{}{}
			if tgt >= 0 && tree.IsAncestorOrEqual(tgt, b) {
				s.supports = true
			}
		}
	}
	for _, s := range per {
		if s.supports || len(s.wellFormed) >= 2 {
			ref.CountStrict++
		}
		if s.supports || len(s.votes) >= 2 {
			ref.CountLenient++
		}
		if len(s.votes) >= 2 {
			ref.Equivocators++
		}
	}
	ref.Strict = ref.TargetOK && 3*ref.CountStrict > 2*n
	ref.Lenient = ref.TargetOK && 3*ref.CountLenient > 2*n
	return ref
}

// c18Gen builds commit entries.
type c18Gen struct {
	tree  *verifTree
	keys  []*ed25519.Keypair // authorities [0,n) then outsiders
	n     int
	setID uint64
	r     *vcommon.Rand
}

func (g *c18Gen) entry(label string, auth int, v Vote, sig [64]byte) c18Entry {
	return c18Entry{Label: label, Auth: auth, Vote: v, Sig: sig, ID: verifPub(g.keys[auth])}
}

func (g *c18Gen) valid(label string, auth int, v Vote, round uint64) c18Entry {
	return g.entry(label, auth, v, verifSignature(g.keys[auth], precommit, v, round, g.setID))
}

func (g *c18Gen) garbage(label string, auth int, v Vote) c18Entry {
	var sig [64]byte
	copy(sig[:], g.r.Bytes(64))
	return g.entry(label, auth, v, sig)
}

// supportVote picks a block that is the target or one of its descendants.
func (g *c18Gen) supportVote(tgt int) Vote {
	return g.tree.Vote(vcommon.Pick(g.r, g.tree.Descendants(tgt)))
}

// offVote picks a block that is neither the target nor one of its descendants (or the target if none).
func (g *c18Gen) offVote(tgt int) Vote {
	var c []int
	for i := 0; i < g.tree.Len(); i++ {
		if !g.tree.IsAncestorOrEqual(tgt, i) {
			c = append(c, i)
		}
	}
	if len(c) == 0 {
		return g.tree.Vote(tgt)
	}
	return g.tree.Vote(vcommon.Pick(g.r, c))
}

var c18NoiseKinds = []string{
	"invalid-sig", "sig-for-other-vote", "wrong-round", "wrong-set", "wrong-stage",
	"valid-off-target", "eqv-pair-one-invalid", "eqv-pair-both-invalid", "garbage-x3",
	"wrong-number", "unknown-block",
}

// noise returns entries by authority auth that must NOT make it count (unless labelled otherwise).
func (g *c18Gen) noise(kind string, auth, tgt int, round uint64) []c18Entry {
	tv := g.tree.Vote(tgt)
	switch kind {
	case "invalid-sig":
		return []c18Entry{g.garbage(kind, auth, g.supportVote(tgt))}
	case "sig-for-other-vote":
		other := g.offVote(tgt)
		e := g.valid(kind, auth, other, round)
		if other != tv {
			e.Vote = tv // signature is over `other`
		} else {
			e.Sig[3] ^= 0x40
		}
		return []c18Entry{e}
	case "wrong-round":
		d := uint64(1)
		if g.r.Bool() && round > 0 {
			d = ^uint64(0) // round-1
		}
		v := g.supportVote(tgt)
		return []c18Entry{g.entry(kind, auth, v, verifSignature(g.keys[auth], precommit, v, round+d, g.setID))}
	case "wrong-set":
		v := g.supportVote(tgt)
		return []c18Entry{g.entry(kind, auth, v, verifSignature(g.keys[auth], precommit, v, round, g.setID+1))}
	case "wrong-stage":
		v := g.supportVote(tgt)
		return []c18Entry{g.entry(kind, auth, v, verifSignature(g.keys[auth], prevote, v, round, g.setID))}
	case "valid-off-target":
		v := g.offVote(tgt)
		if v == tv {
			return []c18Entry{g.garbage("invalid-sig", auth, v)}
		}
		return []c18Entry{g.valid(kind, auth, v, round)}
	case "eqv-pair-one-invalid":
		// one validly signed precommit that does not support the target + one garbage entry for another block
		v := g.offVote(tgt)
		if v == tv {
			return []c18Entry{g.garbage("invalid-sig", auth, v), g.garbage("invalid-sig", auth, v)}
		}
		return []c18Entry{g.valid(kind, auth, v, round), g.garbage(kind, auth, g.supportVote(tgt))}
	case "eqv-pair-both-invalid":
		return []c18Entry{g.garbage(kind, auth, g.supportVote(tgt)), g.garbage(kind, auth, g.supportVote(tgt))}
	case "garbage-x3":
		v := g.supportVote(tgt)
		return []c18Entry{g.garbage(kind, auth, v), g.garbage(kind, auth, v), g.garbage(kind, auth, v)}
	case "wrong-number":
		v := g.supportVote(tgt)
		v.Number += uint32(g.r.Range(1, 3)) //nolint:gosec
		return []c18Entry{g.valid(kind, auth, v, round)}
	case "unknown-block":
		var h common.Hash
		copy(h[:], g.r.Bytes(32))
		return []c18Entry{g.valid(kind, auth, Vote{Hash: h, Number: tv.Number + 1}, round)}
	}
	panic("c18: unknown noise kind " + kind)
}

// commit generates a commit for target tgt in which exactly `counting` authorities count under the
// reference predicate (up to the ambiguity classes), padded with adversarial entries.
func (g *c18Gen) commit(tgt int, round uint64, counting int, noisePct int) *c18Commit {
	cm := &c18Commit{Round: round, SetID: g.setID, Target: g.tree.Vote(tgt)}
	perm := g.r.Perm(g.n)
	if counting > g.n {
		counting = g.n
	}
	if counting < 0 {
		counting = 0
	}
	for k, a := range perm {
		if k < counting {
			switch x := g.r.Intn(10); {
			case x < 6:
				cm.Entries = append(cm.Entries, g.valid("valid", a, g.supportVote(tgt), round))
			case x < 8: // verbatim duplicates of a valid entry
				e := g.valid("valid", a, g.supportVote(tgt), round)
				cm.Entries = append(cm.Entries, e)
				for d := g.r.Range(1, 3); d > 0; d-- {
					e.Label = "duplicate"
					cm.Entries = append(cm.Entries, e)
				}
			case x < 9: // equivocation: two different valid precommits (any blocks)
				v1, v2 := g.tree.Vote(g.r.Intn(g.tree.Len())), g.tree.Vote(g.r.Intn(g.tree.Len()))
				if v1 == v2 {
					cm.Entries = append(cm.Entries, g.valid("valid", a, g.supportVote(tgt), round))
					break
				}
				cm.Entries = append(cm.Entries, g.valid("eqv-pair-valid", a, v1, round), g.valid("eqv-pair-valid", a, v2, round))
			default: // valid supporting vote + a garbage entry of the same authority
				cm.Entries = append(cm.Entries, g.valid("valid", a, g.supportVote(tgt), round),
					g.garbage("eqv-pair-one-invalid", a, g.offVote(tgt)))
			}
			continue
		}
		if g.r.Intn(100) < noisePct {
			kind := vcommon.Pick(g.r, c18NoiseKinds)
			if (kind == "wrong-number" || kind == "unknown-block") && g.r.Intn(3) > 0 {
				kind = "invalid-sig" // these two reject the whole commit in the implementation: keep them rarer
			}
			cm.Entries = append(cm.Entries, g.noise(kind, a, tgt, round)...)
		}
	}
	// outsiders
	for o := g.n; o < len(g.keys); o++ {
		if g.r.Intn(100) < noisePct/2 {
			cm.Entries = append(cm.Entries, g.valid("non-authority", o, g.supportVote(tgt), round))
			if g.r.Intn(3) == 0 { // an outsider "equivocating"
				cm.Entries = append(cm.Entries, g.valid("non-authority", o, g.offVote(tgt), round))
			}
		}
	}
	// shuffle
	p := g.r.Perm(len(cm.Entries))
	sh := make([]c18Entry, len(cm.Entries))
	for i, j := range p {
		sh[i] = cm.Entries[j]
	}
	cm.Entries = sh
	return cm
}

func c18Witness(tree *verifTree, n int, setID uint64, fin int, cm *c18Commit, ref c18Ref) map[string]any {
	ents := make([]map[string]any, 0, len(cm.Entries))
	for _, e := range cm.Entries {
		ents = append(ents, map[string]any{"label": e.Label, "auth": e.Auth, "block": tree.Index(e.Vote.Hash),
			"number": e.Vote.Number, "sig": vcommon.Hex(e.Sig[:8])})
	}
	return map[string]any{"n": n, "tree_parents": tree.Shape(), "set_id": setID, "finalised_before": fin,
		"commit_round": cm.Round, "commit_set_id": cm.SetID, "target_block": tree.Index(cm.Target.Hash),
		"target_number": cm.Target.Number, "entries": ents, "note": cm.Note,
		"ref_count_strict": ref.CountStrict, "ref_count_lenient": ref.CountLenient, "need_more_than": fmt.Sprintf("2*%d/3", n)}
}

// c18Deliver sends one commit to the node and applies the oracle. It returns whether the commit finalised.
func c18Deliver(c *vcommon.Case, node *verifNode, n int, setID uint64, cm *c18Commit) bool {
	tree := node.Tree
	fin := node.FinalisedIndex()
	ref := c18Reference(tree, node.Keys, n, setID, fin, cm)
	before := node.Digest()
	hadRound, _ := node.Block.HasFinalisedBlock(cm.Round, setID)
	err := node.Service.handleCommitMessage(cm.message())
	after := node.Digest()
	calls := node.Block.Calls[before.Calls:]
	c.Eval(1)
	c.Count("commits", 1)
	labels := map[string]bool{}
	for _, e := range cm.Entries {
		labels[e.Label] = true
	}
	for l := range labels {
		c.Count("commits_with_"+l, 1)
	}
	if ref.Equivocators > 0 {
		c.Count("commits_with_real_equivocator", 1)
	}
	if 3*ref.CountStrict == 2*n && ref.TargetOK {
		c.Count("boundary_exactly_two_thirds", 1)
	}
	if 3*ref.CountStrict > 2*n && 3*(ref.CountStrict-1) <= 2*n && ref.TargetOK {
		c.Count("boundary_minimal_supermajority", 1)
	}
	w := func() map[string]any {
		m := c18Witness(tree, n, setID, fin, cm, ref)
		m["returned_error"] = fmt.Sprint(err)
		m["set_finalised_hash_calls"] = len(calls)
		m["finalised_after"] = node.FinalisedIndex()
		return m
	}
	finalised := false
	for _, f := range calls {
		if f.Err == nil {
			finalised = true
		}
		if f.Hash != cm.Target.Hash {
			c.Violation("finalised-other-block", fmt.Sprintf("commit for block %d made SetFinalisedHash(%d)",
				tree.Index(cm.Target.Hash), tree.Index(f.Hash)), w())
		}
	}
	if finalised || before.Finalised != after.Finalised {
		c.Count("accepted", 1)
		switch {
		case !ref.Lenient:
			c.Violation("accepted-without-supermajority", fmt.Sprintf(
				"commit finalised block %d with %d counting authorities of %d (needs > 2n/3)",
				tree.Index(cm.Target.Hash), ref.CountLenient, n), w())
		case !ref.Strict:
			c.Count("accepted_ambiguous_equivocation_class", 1)
		default:
			c.Count("accepted_valid", 1)
			c.Distinct(fmt.Sprintf("acc|%d|%d|%s", n, ref.CountStrict, c18LabelKey(labels)))
			if len(labels) > 1 {
				c.Count("accepted_valid_with_noise", 1)
			}
			c.Sample(map[string]any{"n": n, "counting": ref.CountStrict, "entries": len(cm.Entries), "labels": c18LabelKey(labels), "verdict": "finalised"})
		}
		if err != nil {
			c.Violation("finalised-but-error", "commit finalised and handleCommitMessage returned "+err.Error(), w())
		}
		return true
	}
	// not finalised: nothing observable may have changed
	if before != after {
		c.Violation("state-change-on-rejected-commit", fmt.Sprintf("before=%+v after=%+v err=%v", before, after, err), w())
	}
	if err == nil {
		if hadRound {
			c.Count("ignored_round_already_finalised", 1)
		} else {
			c.Violation("silently-dropped", "handleCommitMessage returned nil without finalising and the round was not finalised before", w())
		}
	} else {
		c.Count("rejected", 1)
		if ref.Strict {
			c.Count("rejected_although_predicate_true", 1)
			c.Count("rejected_true_"+c18ErrClass(err), 1)
		} else {
			c.Count("rejected_short", 1)
			c.Distinct(fmt.Sprintf("rej|%d|%d|%s", n, ref.CountLenient, c18LabelKey(labels)))
		}
	}
	return false
}

func c18ErrClass(err error) string {
	s := err.Error()
	for _, k := range []string{"block numbers mismatch", "not descendant", "set id", "need", "hash against block number", "getting header", "ancestry"} {
		if strings.Contains(s, k) {
			return strings.ReplaceAll(k, " ", "_")
		}
	}
	return "other"
}

func c18LabelKey(labels map[string]bool) string {
	ks := make([]string, 0, len(labels))
	for k := range labels {
		ks = append(ks, k)
	}
	sort.Strings(ks)
	return strings.Join(ks, "+")
}

// ---- fixed regression corpus -------------------------------------------------------------------

type c18FixedEntry struct {
	Auth  int
	Block int
	Kind  string // valid | garbage | wrong-round | wrong-set | prevote
}

type c18FixedCase struct {
	Name    string
	N       int
	Parents []int
	Target  int
	Round   uint64
	Entries []c18FixedEntry
	// CommitSetID is the set id written into the message (the node is in set 0)
	CommitSetID uint64
	// Expect is informational (coverage): "accept" cases must be accepted for the accept floor
	Expect string
}

// tree used by the corpus: 0-1-2-3 main chain, fork 4,5 from block 1
var c18ForkTree = []int{-1, 0, 1, 2, 1, 4}

func c18Corpus() []c18FixedCase {
	rep := func(e c18FixedEntry, k int) []c18FixedEntry {
		out := make([]c18FixedEntry, k)
		for i := range out {
			out[i] = e
		}
		return out
	}
	var out []c18FixedCase
	// probe-reproduced defects (n = 4)
	var garb []c18FixedEntry
	for a := 0; a < 4; a++ {
		garb = append(garb, c18FixedEntry{a, 5, "garbage"}, c18FixedEntry{a, 5, "garbage"})
	}
	out = append(out,
		c18FixedCase{Name: "eight-garbage-signatures-finalise-fork-block", N: 4, Parents: c18ForkTree, Target: 5, Round: 1, Entries: garb, Expect: "reject"},
		c18FixedCase{Name: "two-of-four-valid", N: 4, Parents: c18ForkTree, Target: 3, Round: 1,
			Entries: []c18FixedEntry{{0, 3, "valid"}, {1, 3, "valid"}}, Expect: "reject"},
		c18FixedCase{Name: "one-authority-three-times", N: 4, Parents: c18ForkTree, Target: 3, Round: 1,
			Entries: rep(c18FixedEntry{2, 3, "valid"}, 3), Expect: "reject"},
		c18FixedCase{Name: "one-authority-two-garbage", N: 1, Parents: c18ForkTree, Target: 2, Round: 1,
			Entries: []c18FixedEntry{{0, 2, "garbage"}, {0, 2, "garbage"}}, Expect: "reject"},
		c18FixedCase{Name: "one-valid-one-garbage-same-authority-plus-one", N: 4, Parents: c18ForkTree, Target: 3, Round: 1,
			Entries: []c18FixedEntry{{0, 3, "valid"}, {0, 2, "garbage"}, {1, 3, "valid"}}, Expect: "reject"},
		c18FixedCase{Name: "empty-commit-n1", N: 1, Parents: c18ForkTree, Target: 1, Round: 1, Entries: nil, Expect: "reject"},
		c18FixedCase{Name: "empty-commit-n2", N: 2, Parents: c18ForkTree, Target: 1, Round: 1, Entries: nil, Expect: "reject"},
	)
	// exactly two thirds (must be rejected) and minimal supermajority (coverage: accepted) for every n
	for n := 1; n <= 10; n++ {
		thr := 2 * n / 3
		var exact, minimal, off []c18FixedEntry
		for a := 0; a < thr; a++ {
			exact = append(exact, c18FixedEntry{a, 3, "valid"})
		}
		for a := 0; a <= thr && a < n; a++ {
			minimal = append(minimal, c18FixedEntry{a, 2 + a%2, "valid"})
			off = append(off, c18FixedEntry{a, 4, "valid"}) // valid precommits for the other fork
		}
		out = append(out,
			c18FixedCase{Name: fmt.Sprintf("floor-two-thirds-n%d", n), N: n, Parents: c18ForkTree, Target: 3, Round: 2, Entries: exact, Expect: "reject"},
			c18FixedCase{Name: fmt.Sprintf("minimal-supermajority-n%d", n), N: n, Parents: c18ForkTree, Target: 2, Round: 2, Entries: minimal, Expect: "accept"},
			c18FixedCase{Name: fmt.Sprintf("supermajority-for-other-fork-n%d", n), N: n, Parents: c18ForkTree, Target: 3, Round: 2, Entries: off, Expect: "reject"},
		)
	}
	out = append(out,
		c18FixedCase{Name: "equivocator-counts-once", N: 4, Parents: c18ForkTree, Target: 3, Round: 1,
			Entries: []c18FixedEntry{{0, 3, "valid"}, {1, 3, "valid"}, {2, 4, "valid"}, {2, 5, "valid"}}, Expect: "accept"},
		c18FixedCase{Name: "equivocator-alone-is-not-enough", N: 4, Parents: c18ForkTree, Target: 3, Round: 1,
			Entries: []c18FixedEntry{{0, 3, "valid"}, {2, 4, "valid"}, {2, 5, "valid"}, {2, 3, "valid"}}, Expect: "reject"},
		c18FixedCase{Name: "wrong-round-signatures", N: 4, Parents: c18ForkTree, Target: 3, Round: 1,
			Entries: []c18FixedEntry{{0, 3, "wrong-round"}, {1, 3, "wrong-round"}, {2, 3, "wrong-round"}, {3, 3, "wrong-round"}}, Expect: "reject"},
		c18FixedCase{Name: "wrong-set-signatures", N: 4, Parents: c18ForkTree, Target: 3, Round: 1,
			Entries: []c18FixedEntry{{0, 3, "wrong-set"}, {1, 3, "wrong-set"}, {2, 3, "wrong-set"}, {3, 3, "valid"}}, Expect: "reject"},
		c18FixedCase{Name: "whole-commit-of-another-set", N: 4, Parents: c18ForkTree, Target: 3, Round: 1, CommitSetID: 1,
			Entries: []c18FixedEntry{{0, 3, "wrong-set"}, {1, 3, "wrong-set"}, {2, 3, "wrong-set"}, {3, 3, "wrong-set"}}, Expect: "reject"},
		c18FixedCase{Name: "prevotes-instead-of-precommits", N: 4, Parents: c18ForkTree, Target: 3, Round: 1,
			Entries: []c18FixedEntry{{0, 3, "prevote"}, {1, 3, "prevote"}, {2, 3, "prevote"}, {3, 3, "valid"}}, Expect: "reject"},
		c18FixedCase{Name: "non-authorities", N: 4, Parents: c18ForkTree, Target: 3, Round: 1,
			Entries: []c18FixedEntry{{0, 3, "valid"}, {1, 3, "valid"}, {4, 3, "valid"}, {5, 3, "valid"}, {6, 3, "valid"}}, Expect: "reject"},
		c18FixedCase{Name: "ancestor-votes-do-not-count", N: 4, Parents: c18ForkTree, Target: 3, Round: 1,
			Entries: []c18FixedEntry{{0, 3, "valid"}, {1, 2, "valid"}, {2, 1, "valid"}, {3, 1, "valid"}}, Expect: "reject"},
		c18FixedCase{Name: "honest-all", N: 7, Parents: c18ForkTree, Target: 1, Round: 3,
			Entries: []c18FixedEntry{{0, 3, "valid"}, {1, 3, "valid"}, {2, 5, "valid"}, {3, 4, "valid"}, {4, 1, "valid"}, {5, 2, "valid"}, {6, 2, "valid"}}, Expect: "accept"},
	)
	return out
}

func c18RunFixed(c *vcommon.Case, fc c18FixedCase) {
	tree := verifTreeFromParents(fc.Parents, 18)
	keys := verifKeypairs(1800+uint64(fc.N), fc.N+3) //nolint:gosec
	node, err := verifNewNode(tree, keys[:fc.N], verifNodeOpts{Self: 0})
	if err != nil {
		c.Inconclusive("setup: " + err.Error())
		return
	}
	defer node.Close()
	node.Keys = keys
	g := &c18Gen{tree: tree, keys: keys, n: fc.N, r: c.R}
	cm := &c18Commit{Round: fc.Round, SetID: fc.CommitSetID, Target: tree.Vote(fc.Target), Note: "fixed:" + fc.Name}
	for _, e := range fc.Entries {
		v := tree.Vote(e.Block)
		label := e.Kind
		if e.Auth >= fc.N {
			label = "non-authority"
		}
		switch e.Kind {
		case "valid":
			cm.Entries = append(cm.Entries, g.valid(label, e.Auth, v, fc.Round))
		case "garbage":
			cm.Entries = append(cm.Entries, g.garbage("invalid-sig", e.Auth, v))
		case "wrong-round":
			cm.Entries = append(cm.Entries, g.entry(label, e.Auth, v, verifSignature(keys[e.Auth], precommit, v, fc.Round+1, 0)))
		case "wrong-set":
			cm.Entries = append(cm.Entries, g.entry(label, e.Auth, v, verifSignature(keys[e.Auth], precommit, v, fc.Round, 1)))
		case "prevote":
			cm.Entries = append(cm.Entries, g.entry("wrong-stage", e.Auth, v, verifSignature(keys[e.Auth], prevote, v, fc.Round, 0)))
		default:
			panic("c18 corpus kind " + e.Kind)
		}
	}
	acc := c18Deliver(c, node, fc.N, 0, cm)
	if fc.Expect == "accept" && acc {
		c.Count("fixed_accept_cases_accepted", 1)
	}
	if fc.Expect == "reject" && !acc {
		c.Count("fixed_reject_cases_rejected", 1)
	}
}

// ---- generated cases ---------------------------------------------------------------------------

var c18Sizes = []int{1, 2, 3, 3, 4, 4, 5, 6, 6, 7, 7, 8, 9, 9, 10}

func c18RunGenerated(c *vcommon.Case) {
	r := c.R
	n := vcommon.Pick(r, c18Sizes)
	tree := verifGenTree(r, r.Range(3, 11), r.Range(15, 50), r.Uint64())
	keys := verifKeypairs(r.Uint64(), n+3)
	setID := uint64(0)
	if r.Intn(4) == 0 {
		setID = uint64(r.Range(1, 2)) //nolint:gosec
	}
	node, err := verifNewNode(tree, keys[:n], verifNodeOpts{Self: r.Intn(n), SetID: setID})
	if err != nil {
		c.Inconclusive("setup: " + err.Error())
		return
	}
	defer node.Close()
	node.Keys = keys
	g := &c18Gen{tree: tree, keys: keys, n: n, setID: setID, r: r}
	thr := 2 * n / 3
	round := uint64(r.Range(1, 4)) //nolint:gosec
	ncommits := r.Range(1, 3)
	for k := 0; k < ncommits; k++ {
		fin := node.FinalisedIndex()
		if fin < 0 {
			c.Inconclusive("finalised block not in tree")
			return
		}
		// target: mostly a descendant of the finalised block
		var tgt int
		switch x := r.Intn(10); {
		case x < 8:
			tgt = vcommon.Pick(r, tree.Descendants(fin))
		default:
			tgt = r.Intn(tree.Len())
		}
		// number of counting authorities: concentrated at the threshold
		var counting int
		switch x := r.Intn(10); {
		case x < 3:
			counting = thr // exactly floor(2n/3): must not finalise
		case x < 6:
			counting = thr + 1 // minimal supermajority
		case x < 7:
			counting = thr - 1
		case x < 8:
			counting = n
		default:
			counting = r.Intn(n + 1)
		}
		cm := g.commit(tgt, round, counting, r.Range(30, 100))
		// commit-level malformations
		switch x := r.Intn(40); {
		case x == 0:
			cm.SetID = setID + 1
			cm.Note = "commit-set-id-mismatch"
			c.Count("commit_wrong_set_id", 1)
		case x == 1:
			cm.Target.Number++
			cm.Note = "commit-target-wrong-number"
			c.Count("commit_target_wrong_number", 1)
		case x == 2:
			copy(cm.Target.Hash[:], r.Bytes(32))
			cm.Note = "commit-target-unknown"
			c.Count("commit_target_unknown", 1)
		case x == 3 && len(cm.Entries) > 0:
			cm.DropLastAuth = true
			cm.Note = "commit-authdata-shorter-than-precommits"
			c.Count("commit_length_mismatch", 1)
		case x == 4:
			cm.Entries = nil
			cm.Note = "commit-empty"
			c.Count("commit_empty", 1)
		case x == 5 || x == 6:
			// a commit that is entirely consistent for ANOTHER authority set id (e.g. replayed from the
			// previous set): every signature is over set id+1 and the message says so
			g2 := *g
			g2.setID = setID + 1
			cm = g2.commit(tgt, round, n, 0)
			for i := range cm.Entries {
				cm.Entries[i].Label = "wrong-set"
			}
			cm.Note = "commit-of-another-set"
			c.Count("commit_of_another_set", 1)
		}
		if tree.IsAncestorOrEqual(fin, tgt) {
			c.Count("target_descends_from_finalised", 1)
		} else {
			c.Count("target_off_finalised_chain", 1)
		}
		c18Deliver(c, node, n, setID, cm)
		if r.Intn(3) > 0 {
			round++
		} // else: next commit re-uses the round (possibly already finalised)
	}
}

// ---- authority set changes ("distinct CURRENT authority") --------------------------------------

// c18EpochPlan describes successive authority sets of ONE Service and the commits handled in each epoch.
// Sets hold indexes into a pool of candidate keys; Profiles[e] are the commit profiles of epoch e:
//
//	current      signed by members of the set that is current at delivery time (accepted iff > 2/3 of its n)
//	former-set   every member of the PREVIOUS set signs validly for the NEW set id (only members that are
//	             also in the current set count)
//	mixed        k current members + every former-only authority sign; only the k count toward > 2/3 of the new n
//	old-set-id   the current members sign over the previous set id and the message carries it
type c18EpochPlan struct {
	Sets     [][]int
	Profiles [][]string
	Fixed    bool
}

func c18GenEpochPlan(c *vcommon.Case, poolSize int) c18EpochPlan {
	r := c.R
	var plan c18EpochPlan
	nEpochs := r.Range(2, 3)
	first := r.Perm(poolSize)[:r.Range(1, 7)]
	plan.Sets = append(plan.Sets, first)
	for e := 1; e < nEpochs; e++ {
		prev := plan.Sets[e-1]
		in := map[int]bool{}
		for _, m := range prev {
			in[m] = true
		}
		keepPct := vcommon.Pick(r, []int{0, 0, 35, 65, 100})
		var next []int
		for _, m := range prev {
			if r.Intn(100) < keepPct {
				next = append(next, m)
			}
		}
		kept := len(next)
		add := r.Range(0, 4)
		if kept == 0 && add == 0 {
			add = r.Range(1, 4)
		}
		if kept == len(prev) && add == 0 {
			add = 1 // the set must change
		}
		for _, m := range r.Perm(poolSize) {
			if add == 0 || len(next) >= 9 {
				break
			}
			if !in[m] {
				next = append(next, m)
				add--
			}
		}
		if len(next) == 0 {
			next = append(next, prev[0])
		}
		switch {
		case kept == 0:
			c.Count("set_changes_disjoint", 1)
		case kept == len(prev):
			c.Count("set_changes_superset", 1)
		default:
			c.Count("set_changes_overlapping", 1)
		}
		if len(next) != len(prev) {
			c.Count("set_changes_size_differs", 1)
		}
		plan.Sets = append(plan.Sets, next)
	}
	for e := range plan.Sets {
		var ps []string
		if e == 0 {
			for k := r.Range(1, 2); k > 0; k-- {
				ps = append(ps, "current")
			}
		} else {
			for k := r.Range(2, 4); k > 0; k-- {
				ps = append(ps, vcommon.Pick(r, []string{"former-set", "former-set", "current", "current", "mixed", "old-set-id"}))
			}
		}
		plan.Profiles = append(plan.Profiles, ps)
	}
	return plan
}

func c18RunEpochs(c *vcommon.Case, plan c18EpochPlan, keyTag uint64, tree *verifTree) {
	r := c.R
	const poolSize = 14
	pool := verifKeypairs(keyTag, poolSize+2)
	outsiders := pool[poolSize:]
	keysOf := func(set []int) []*ed25519.Keypair {
		out := make([]*ed25519.Keypair, len(set))
		for i, m := range set {
			out[i] = pool[m]
		}
		return out
	}
	node, err := verifNewNode(tree, keysOf(plan.Sets[0]), verifNodeOpts{Self: 0})
	if err != nil {
		c.Inconclusive("setup: " + err.Error())
		return
	}
	defer node.Close()
	everMember := map[int]bool{}
	round := uint64(1)
	for e, set := range plan.Sets {
		setID := uint64(e) //nolint:gosec
		if e > 0 {
			// the authority set changes: the new set is stored, the set id incremented and the service opens
			// its next round (initiateRound -> updateAuthorities), as after a finalised scheduled change
			if err = node.Grandpa.GrandpaState.SetNextChange(verifVoters(keysOf(set)), tree.Number[node.FinalisedIndex()]); err != nil {
				c.Inconclusive("SetNextChange: " + err.Error())
				return
			}
			if _, err = node.Grandpa.GrandpaState.IncrementSetID(); err != nil {
				c.Inconclusive("IncrementSetID: " + err.Error())
				return
			}
			if err = node.Service.initiateRound(); err != nil {
				c.Inconclusive("initiateRound after set change: " + err.Error())
				return
			}
			if node.Service.state.setID != setID || len(node.Service.state.voters) != len(set) {
				c.Inconclusive(fmt.Sprintf("set change not applied: service set id %d, %d voters", node.Service.state.setID, len(node.Service.state.voters)))
				return
			}
			c.Count("set_changes", 1)
			round = 1
		} else if r.Bool() && !plan.Fixed {
			if err = node.Service.initiateRound(); err != nil {
				c.Inconclusive("initiateRound: " + err.Error())
				return
			}
		}
		// key list of this epoch: current set, then former-only authorities, then never-authorities
		cur := map[int]bool{}
		for _, m := range set {
			cur[m] = true
		}
		keysE := keysOf(set)
		var formerOnly []int // positions in keysE
		pos := map[int]int{}
		for i, m := range set {
			pos[m] = i
		}
		for m := 0; m < poolSize; m++ {
			if everMember[m] && !cur[m] {
				pos[m] = len(keysE)
				formerOnly = append(formerOnly, len(keysE))
				keysE = append(keysE, pool[m])
			}
		}
		isFormer := map[int]bool{}
		for _, p := range formerOnly {
			isFormer[p] = true
		}
		keysE = append(keysE, outsiders...)
		node.Keys = keysE
		n := len(set)
		thr := 2 * n / 3
		g := &c18Gen{tree: tree, keys: keysE, n: n, setID: setID, r: r}
		for _, profile := range plan.Profiles[e] {
			fin := node.FinalisedIndex()
			if fin < 0 {
				c.Inconclusive("finalised block not in tree")
				return
			}
			tgt := vcommon.Pick(r, tree.Descendants(fin))
			counting := vcommon.Pick(r, []int{thr, thr + 1, thr + 1, n})
			if plan.Fixed {
				counting = n
			}
			var cm *c18Commit
			switch profile {
			case "current":
				noise := r.Range(0, 100)
				if plan.Fixed {
					noise = 0
				}
				cm = g.commit(tgt, round, counting, noise)
			case "former-set":
				cm = &c18Commit{Round: round, SetID: setID, Target: tree.Vote(tgt)}
				for _, m := range plan.Sets[e-1] {
					cm.Entries = append(cm.Entries, g.valid("valid", pos[m], g.supportVote(tgt), round))
				}
			case "mixed":
				k := vcommon.Pick(r, []int{thr, thr, thr + 1, r.Intn(n + 1)})
				cm = g.commit(tgt, round, k, 0)
				for _, p := range formerOnly {
					cm.Entries = append(cm.Entries, g.valid("valid", p, g.supportVote(tgt), round))
				}
				sh := r.Perm(len(cm.Entries))
				ents := make([]c18Entry, len(cm.Entries))
				for i, j := range sh {
					ents[i] = cm.Entries[j]
				}
				cm.Entries = ents
			case "old-set-id":
				g2 := *g
				g2.setID = setID - 1
				cm = g2.commit(tgt, round, n, 0)
				for i := range cm.Entries {
					cm.Entries[i].Label = "wrong-set"
				}
			default:
				panic("c18 epoch profile " + profile)
			}
			nFormer := 0
			for i := range cm.Entries {
				if isFormer[cm.Entries[i].Auth] {
					cm.Entries[i].Label = "former-authority"
					nFormer++
				}
			}
			cm.Note = fmt.Sprintf("epoch %d (set id %d, sets %v) profile %s", e, setID, plan.Sets, profile)
			c.Count("epoch_commits", 1)
			c.Count("epoch_profile_"+profile, 1)
			if e > 0 {
				c.Count("commits_after_set_change", 1)
				c.Count("former_authority_precommits_seen", nFormer)
			}
			acc := c18Deliver(c, node, n, setID, cm)
			if e > 0 {
				switch {
				case profile == "current" && acc:
					c.Count("current_set_commit_finalised_after_change", 1)
				case profile == "former-set" && !acc:
					c.Count("former_set_commit_not_finalised", 1)
				case profile == "former-set" && acc:
					c.Count("former_set_commit_finalised_by_overlap", 1) // legitimate: the overlap alone is > 2/3 of the new set
				case profile == "old-set-id" && !acc:
					c.Count("old_set_id_commit_not_finalised", 1)
				}
			}
			round++
		}
		for _, m := range set {
			everMember[m] = true
		}
	}
}

// c18EpochCorpus: the minimal witnesses of a stale authority key set after a set change.
func c18EpochCorpus() []c18EpochPlan {
	return []c18EpochPlan{
		// 4 authorities, a commit is handled; the set becomes 3 other keys; the 4 former authorities sign a commit for set id 1
		{Fixed: true, Sets: [][]int{{0, 1, 2, 3}, {4, 5, 6}}, Profiles: [][]string{{"current"}, {"former-set", "current"}}},
		// overlapping: {0,1,2,3} -> {0,1,4,5,6,7}: the former set brings 2 of 6
		{Fixed: true, Sets: [][]int{{0, 1, 2, 3}, {0, 1, 4, 5, 6, 7}}, Profiles: [][]string{{"current"}, {"former-set", "mixed", "current"}}},
		// shrinking set and a second change back to a disjoint set
		{Fixed: true, Sets: [][]int{{0, 1, 2, 3, 4, 5, 6}, {7}, {0, 1, 2}}, Profiles: [][]string{{"current"}, {"former-set", "old-set-id", "current"}, {"former-set", "current"}}},
		// no activity before the change
		{Fixed: true, Sets: [][]int{{0, 1}, {2, 3, 4}}, Profiles: [][]string{{}, {"former-set", "old-set-id", "current"}}},
	}
}

func TestVerifC18(t *testing.T) {
	r := vcommon.Start(t, "C18")
	defer r.Finish()
	corpus := c18Corpus()
	nAccept := 0
	for _, fc := range corpus {
		if fc.Expect == "accept" {
			nAccept++
		}
	}
	r.Floor("fixed_accept_cases_accepted", nAccept)
	r.Floor("accepted_valid", 100)
	r.Floor("rejected_short", 200)
	r.Floor("boundary_exactly_two_thirds", 60)
	r.Floor("boundary_minimal_supermajority", 60)
	r.Floor("commits_with_real_equivocator", 20)
	r.Floor("commits_with_duplicate", 20)
	r.Floor("commits_with_invalid-sig", 50)
	r.Floor("commits_with_non-authority", 30)
	r.Floor("commits_with_wrong-round", 10)
	r.Floor("commits_with_wrong-set", 10)
	r.Floor("commits_with_eqv-pair-one-invalid", 10)
	r.Floor("commits_with_valid-off-target", 10)
	r.Floor("commits_with_wrong-number", 5)

	r.Fixed("corpus", len(corpus), func(c *vcommon.Case) { c18RunFixed(c, corpus[c.Idx]) })
	r.Cases("gen", r.Scale(1200), c18RunGenerated)

	// authority set changes on one Service instance
	r.Floor("set_changes", 300)
	r.Floor("commits_after_set_change", 600)
	r.Floor("former_authority_precommits_seen", 600)
	r.Floor("commits_with_former-authority", 200)
	r.Floor("current_set_commit_finalised_after_change", 100)
	r.Floor("former_set_commit_not_finalised", 100)
	r.Floor("old_set_id_commit_not_finalised", 30)
	r.Floor("set_changes_disjoint", 50)
	r.Floor("set_changes_overlapping", 50)
	r.Floor("set_changes_size_differs", 100)
	ec := c18EpochCorpus()
	r.Fixed("epochs-corpus", len(ec), func(c *vcommon.Case) {
		c18RunEpochs(c, ec[c.Idx], 1877, verifTreeFromParents([]int{-1, 0, 1, 2, 3, 1, 5, 4, 7}, 1818))
	})
	r.Cases("epochs", r.Scale(400), func(c *vcommon.Case) {
		plan := c18GenEpochPlan(c, 14)
		tree := verifGenTree(c.R, c.R.Range(5, 12), c.R.Range(10, 40), c.R.Uint64())
		c18RunEpochs(c, plan, c.R.Uint64(), tree)
	})
}
