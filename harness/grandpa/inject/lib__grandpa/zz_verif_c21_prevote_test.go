//go:build verif

package grandpa

// C21 (extension) — the node's own prevote: handleIsPrimary + determinePreVote, executed in the order of
// votingRoundHandler.Run (finalisation.go, action determinePrevote).
//
// Oracle (what the property text supports: "vote choices ... capped at a pending authority change", "votes that do
// not descend from the finalised head are never counted"; the code's documented rule "if we receive a vote message
// from the primary ... we choose that, otherwise we simply choose the head of our chain"):
//   base    = the prevote of the round's primary (voters[round mod n]) that the reference tally holds, else the block
//             the node's block state reports as best
//   the prevote V  is a block of the tree with the right number,
//                  descends from (or is) the finalised head,
//                  is an ancestor-or-equal of base (a refused / foreign "proposal" is never followed; a vote taken
//                  from the best chain although base is on another fork is class prevote-capped-on-other-chain),
//                  is not above the effective number of an authority change announced on V's OWN chain.
// V lower than the expected block is only counted. The primary's messages reach the service through the wire path.

import (
	stded "crypto/ed25519"
	"fmt"

	"github.com/ChainSafe/gossamer/zz_verif/vcommon"
)

type c21pPlan struct {
	Name    string
	N       int
	Self    int
	Parents []int
	Cap     *c21Cap
	// Primary: what the round's primary sends before the node determines its prevote
	Primary []c21pMsg
	Others  []c21FixedVote
}

type c21pMsg struct {
	Kind  string // prevote | proposal | bad-sig | wrong-number | round-ahead-2 | foreign-proposal | not-descendant-of-head
	Block int
}

func c21pCorpus() []c21pPlan {
	// best chain 0-1-2-3-4, fork 5(#2)-6(#3) from block 1; n=4, round 1 => primary is voter 1
	t := []int{-1, 0, 1, 2, 3, 1, 5}
	return []c21pPlan{
		{Name: "primary votes on the fork; change announced on the fork only (best chain has none)", N: 4, Parents: t,
			Cap: &c21Cap{Announce: 5, Eff: 2}, Primary: []c21pMsg{{"prevote", 6}}},
		{Name: "primary votes on the fork; change announced on the best chain only", N: 4, Parents: t,
			Cap: &c21Cap{Announce: 2, Eff: 2}, Primary: []c21pMsg{{"prevote", 6}}},
		{Name: "primary votes on the fork; change announced at the common ancestor, effective above the fork point", N: 4, Parents: t,
			Cap: &c21Cap{Announce: 1, Eff: 2}, Primary: []c21pMsg{{"prevote", 6}}},
		{Name: "no primary vote; change on the best chain", N: 4, Parents: t, Cap: &c21Cap{Announce: 1, Eff: 2}},
		{Name: "primary votes on the best chain; change on the best chain", N: 4, Parents: t,
			Cap: &c21Cap{Announce: 1, Eff: 2}, Primary: []c21pMsg{{"prevote", 3}}},
		{Name: "primary proposal message on the fork, no change", N: 4, Parents: t, Primary: []c21pMsg{{"proposal", 6}}},
		{Name: "badly signed proposal of the primary is not followed", N: 4, Parents: t, Primary: []c21pMsg{{"bad-sig", 6}}},
		{Name: "proposal signed by a voter that is not the primary is not followed", N: 4, Parents: t, Primary: []c21pMsg{{"foreign-proposal", 6}}},
		{Name: "primary equivocates: no proposal to follow", N: 4, Parents: t, Primary: []c21pMsg{{"prevote", 6}, {"prevote", 3}}},
		{Name: "the node is the primary", N: 4, Self: 1, Parents: t, Cap: &c21Cap{Announce: 1, Eff: 3}},
		{Name: "the node is the primary, no change", N: 4, Self: 1, Parents: t},
		{Name: "single voter", N: 1, Parents: t, Cap: &c21Cap{Announce: 0, Eff: 1}},
	}
}

// c21pSend sends one message of the primary (or about the primary) through the wire.
func c21pSend(x *c21x, primary int, m c21pMsg) bool {
	k := x.k
	r := k.c.R
	var d c21xDelivery
	switch m.Kind {
	case "prevote":
		d = x.make("good", prevote, primary, m.Block)
		d.Kind = "primary-prevote"
	case "proposal":
		d = x.make("good", primaryProposal, primary, m.Block)
		d.Kind = "primary-proposal"
	case "bad-sig":
		d = x.make("bad-sig", primaryProposal, primary, m.Block)
		d.Kind = "primary-proposal-bad-sig"
	case "wrong-number":
		d = x.make("wrong-number", primaryProposal, primary, m.Block)
		d.Kind = "primary-proposal-wrong-number"
	case "round-ahead-2":
		d = x.make("round-ahead-2", primaryProposal, primary, m.Block)
		d.Kind = "primary-proposal-other-round"
	case "sig-other-round":
		d = x.make("sig-other-round", primaryProposal, primary, m.Block)
		d.Kind = "primary-proposal-signed-for-other-round"
	case "not-descendant-of-head":
		d = x.make("good", primaryProposal, primary, m.Block)
		d.Kind = "primary-proposal-below-head"
	case "outsider-proposal":
		d = x.make("non-authority", primaryProposal, primary, m.Block)
		d.Kind = "proposal-by-non-authority"
	case "foreign-proposal":
		// a proposal-stage message signed by an authority that is not the primary (stored as THAT voter's prevote)
		var others []int
		for v := 0; v < k.n; v++ {
			if v != primary && v != k.self {
				others = append(others, v)
			}
		}
		if len(others) == 0 {
			return true
		}
		d = x.make("good", primaryProposal, vcommon.Pick(r, others), m.Block)
		d.Kind = "proposal-by-non-primary"
	default:
		panic("c21p kind " + m.Kind)
	}
	return x.deliver(d)
}

// c21pDetermine runs the determinePrevote action of votingRoundHandler.Run and judges the vote. sent = what was
// sent on behalf of the primary (coverage labels).
func c21pDetermine(x *c21x, sent []c21pMsg) (vIdx int, ok bool) {
	k, c := x.k, x.k.c
	svc := k.node.Service
	tree := k.tree
	primary := int(k.round % uint64(k.n)) //nolint:gosec
	gossipBefore := len(k.node.Net.Gossiped)
	isPrimary, err := svc.handleIsPrimary()
	c.Eval(1)
	if err != nil {
		c.Violation("prevote-error", "handleIsPrimary: "+err.Error(), k.witness(nil))
		return -1, false
	}
	if isPrimary != (primary == k.self) {
		c.Violation("wrong-primary", fmt.Sprintf("handleIsPrimary=%v in round %d with %d voters, the node is voter %d", isPrimary, k.round, k.n, k.self), k.witness(nil))
		return -1, false
	}
	bestHdr, err := svc.blockState.BestBlockHeader()
	if err != nil {
		c.Inconclusive("BestBlockHeader: " + err.Error())
		return -1, false
	}
	best := tree.Index(bestHdr.Hash())
	if best < 0 {
		c.Inconclusive("best block is not a block of the tree")
		return -1, false
	}
	if isPrimary {
		c.Count("pv_node_is_primary", 1)
		// documented: the primary stores its proposal (the best block) as its own prevote and gossips it
		k.ref.apply(0, k.self, best)
		k.log = append(k.log, map[string]any{"kind": "own primary proposal", "block": best})
		if ok, why := c21Snap(svc).matches(k.ref, k.keys); !ok {
			c.Violation("tally-mismatch", "after handleIsPrimary: "+why, k.witness(nil))
			return -1, false
		}
		found := false
		for _, gm := range k.node.Net.Gossiped[gossipBefore:] {
			vm, isVote := gm.(*VoteMessage)
			if !isVote || vm.Message.Stage != primaryProposal {
				continue
			}
			payload := refFullVotePayload(2, Vote{Hash: vm.Message.BlockHash, Number: vm.Message.Number}, vm.Round, vm.SetID)
			if vm.Round == k.round && vm.SetID == k.setID && vm.Message.AuthorityID == verifPub(k.keys[k.self]) &&
				stded.Verify(stded.PublicKey(vm.Message.AuthorityID[:]), payload, vm.Message.Signature[:]) &&
				tree.Index(vm.Message.BlockHash) == best {
				found = true
			}
		}
		if found {
			c.Count("pv_own_proposal_gossiped_and_verified", 1)
		} else {
			c.Count("pv_own_proposal_not_seen_on_the_network", 1)
		}
	}
	V, err := svc.determinePreVote()
	c.Eval(1)
	c.Count("pv_determined", 1)
	P, hasP := k.ref.votes[0][primary]
	w := func(extra map[string]any) map[string]any {
		m := map[string]any{"primary_voter": primary, "node_is_primary": isPrimary, "best_block": best, "sent_for_the_primary": fmt.Sprint(sent)}
		if hasP {
			m["primary_prevote_in_reference_tally"] = P
		}
		for a, b := range extra {
			m[a] = b
		}
		return k.witness(m)
	}
	if err != nil {
		c.Violation("prevote-error", "determinePreVote: "+err.Error(), w(nil))
		return -1, false
	}
	vIdx = tree.Index(V.Hash)
	base := best
	if hasP {
		base = P
	}
	capApplies := func(g int) bool {
		return k.cap != nil && tree.IsAncestorOrEqual(k.cap.Announce, g) && k.cap.Eff <= tree.Number[g]
	}
	capOf := func(g int) int {
		if capApplies(g) {
			return tree.AncestorAt(g, k.cap.Eff)
		}
		return g
	}
	want := capOf(base)
	ww := func() map[string]any {
		return w(map[string]any{"prevote_block": vIdx, "prevote_number": V.Number, "expected_block": want, "base_block": base})
	}
	switch {
	case vIdx < 0 || uint32(tree.Number[vIdx]) != V.Number: //nolint:gosec
		c.Violation("prevote-unknown-block", fmt.Sprintf("prevote %s #%d is not a block of the tree", V.Hash.Short(), V.Number), ww())
		return -1, false
	case !tree.IsAncestorOrEqual(k.head, vIdx):
		c.Violation("prevote-not-descendant-of-head", fmt.Sprintf("prevote for block %d, finalised head is block %d", vIdx, k.head), ww())
		return -1, false
	case capApplies(vIdx) && tree.Number[vIdx] > k.cap.Eff:
		c.Violation("prevote-beyond-pending-change", fmt.Sprintf("prevote for block %d #%d although an authority change announced at block %d of its own chain is effective at #%d (expected block %d)",
			vIdx, tree.Number[vIdx], k.cap.Announce, k.cap.Eff, want), ww())
		return -1, false
	case !tree.IsAncestorOrEqual(vIdx, base) && hasP && tree.IsAncestorOrEqual(vIdx, best):
		c.Violation("prevote-capped-on-other-chain", fmt.Sprintf("the primary's vote (block %d) is followed, but the prevote is block %d of the best chain (best block %d), which is not an ancestor of it (expected block %d)",
			base, vIdx, best, want), ww())
		return -1, false
	case !tree.IsAncestorOrEqual(vIdx, base):
		c.Violation("prevote-off-chain", fmt.Sprintf("prevote for block %d is neither on the chain of the best block %d nor on the chain of a valid vote of the primary", vIdx, best), ww())
		return -1, false
	case vIdx != want:
		c.Count("pv_lower_than_expected", 1)
	default:
		c.Count("pv_equals_expected", 1)
	}
	// coverage
	switch {
	case k.cap == nil:
		c.Count("pv_no_change_pending", 1)
	case capApplies(base) && want != base:
		c.Count("pv_capped_by_change_on_own_chain", 1)
		if hasP && !tree.IsAncestorOrEqual(P, best) {
			c.Count("pv_capped_on_the_primarys_fork", 1)
		}
	case capApplies(base):
		c.Count("pv_change_on_own_chain_effective_at_the_vote_itself", 1)
	case !tree.IsAncestorOrEqual(k.cap.Announce, base):
		c.Count("pv_change_on_competing_chain_only", 1)
		if hasP && capApplies(best) && capOf(best) != best {
			c.Count("pv_change_caps_the_best_chain_but_not_the_followed_primary_vote", 1)
		}
	default:
		c.Count("pv_change_on_own_chain_not_effective_yet", 1)
	}
	if hasP && primary != k.self {
		c.Count("pv_primary_vote_followed", 1)
		if !tree.IsAncestorOrEqual(P, best) {
			c.Count("pv_primary_vote_on_another_fork_followed", 1)
		}
	}
	if !hasP && len(sent) > 0 {
		c.Count("pv_nothing_of_the_primary_accepted_best_block_used", 1)
	}
	capStr := "none"
	if k.cap != nil {
		capStr = fmt.Sprintf("%d@%d", k.cap.Announce, k.cap.Eff)
	}
	c.Distinct(fmt.Sprintf("pv|%s|h%d|n%d|s%d|best%d|base%d|cap%s|v%d", tree.Shape(), k.head, k.n, k.self, best, base, capStr, vIdx))
	c.Sample(map[string]any{"tree": tree.Shape(), "head": k.head, "n": k.n, "self": k.self, "primary": primary, "best": best,
		"primary_vote": map[bool]any{true: P, false: "none"}[hasP], "pending_change_announce@effective": capStr, "prevote": vIdx})
	// the rest of the action: sign, store (unless primary), gossip
	sv, vm, err := svc.createSignedVoteAndVoteMessage(V, prevote)
	if err != nil {
		c.Inconclusive("createSignedVoteAndVoteMessage: " + err.Error())
		return -1, false
	}
	if !isPrimary {
		svc.prevotes.Store(svc.publicKeyBytes(), sv)
		k.ref.apply(0, k.self, vIdx)
	} else if vIdx != best {
		c.Count("pv_primary_tallies_its_proposal_but_gossips_a_capped_prevote", 1)
	}
	if err = svc.sendPrevoteMessage(vm); err != nil {
		c.Inconclusive("sendPrevoteMessage: " + err.Error())
		return -1, false
	}
	k.log = append(k.log, map[string]any{"kind": "own prevote (determinePreVote)", "block": vIdx})
	return vIdx, true
}

func c21pRun(c *vcommon.Case, plan *c21pPlan) {
	r := c.R
	var tree *verifTree
	var n, self, fin int
	setID := uint64(0)
	if plan != nil {
		tree, n, self = verifTreeFromParents(plan.Parents, 2148), plan.N, plan.Self
	} else {
		n = r.Range(2, 7)
		if r.Intn(12) == 0 {
			n = 1
		}
		tree = verifGenTree(r, r.Range(5, 12), r.Range(25, 60), r.Uint64())
		self = r.Intn(n)
		if r.Intn(4) == 0 {
			fin = r.Range(1, tree.Len()/3)
		}
		setID = uint64(r.Intn(2)) //nolint:gosec
	}
	k := c21xSetup(c, tree, verifKeypairs(2150+r.Uint64()%1000, n+2), n, self, fin, setID, nil)
	if k == nil {
		return
	}
	defer k.node.Close()
	x := newC21x(k, nil)
	primary := int(k.round % uint64(n)) //nolint:gosec
	pool := tree.Descendants(k.head)
	bestHdr, err := k.node.Service.blockState.BestBlockHeader()
	if err != nil {
		c.Inconclusive("BestBlockHeader: " + err.Error())
		return
	}
	best := tree.Index(bestHdr.Hash())
	var offBest []int // descendants of the head that are not on the best chain
	for _, b := range pool {
		if !tree.IsAncestorOrEqual(b, best) {
			offBest = append(offBest, b)
		}
	}
	var sent []c21pMsg
	if plan != nil {
		if plan.Cap != nil {
			k.installCap(plan.Cap)
		}
		sent = plan.Primary
		for _, m := range plan.Primary {
			if !c21pSend(x, primary, m) {
				return
			}
		}
		for _, v := range plan.Others {
			if !x.deliver(x.make(v.Kind, prevote, v.Voter, v.Block)) {
				return
			}
		}
	} else {
		// what the primary sends
		pblock := func() int {
			if len(offBest) > 0 && r.Intn(100) < 65 {
				return vcommon.Pick(r, offBest)
			}
			return vcommon.Pick(r, pool)
		}
		if primary != self && r.Intn(100) < 80 {
			switch y := r.Intn(100); {
			case y < 40:
				sent = append(sent, c21pMsg{"prevote", pblock()})
			case y < 60:
				sent = append(sent, c21pMsg{"proposal", pblock()})
			case y < 68: // proposal, then the prevote for the same block (what an honest primary without a pending change sends)
				b := pblock()
				sent = append(sent, c21pMsg{"proposal", b}, c21pMsg{"prevote", b})
			case y < 75: // equivocating primary
				sent = append(sent, c21pMsg{"prevote", pblock()}, c21pMsg{"prevote", pblock()})
			default:
				bad := vcommon.Pick(r, []string{"bad-sig", "wrong-number", "round-ahead-2", "sig-other-round", "foreign-proposal", "outsider-proposal", "not-descendant-of-head"})
				b := pblock()
				if bad == "not-descendant-of-head" {
					if k.head == 0 {
						bad = "bad-sig"
					} else {
						b = tree.AncestorAt(k.head, uint(r.Intn(int(tree.Number[k.head])))) //nolint:gosec
					}
				}
				sent = append(sent, c21pMsg{bad, b})
				if r.Intn(3) == 0 {
					sent = append(sent, c21pMsg{vcommon.Pick(r, []string{"bad-sig", "foreign-proposal"}), pblock()})
				}
			}
		}
		// pending change: on the best chain, on the chain of the primary's block, at a common ancestor, anywhere
		if r.Intn(100) < 70 {
			anchor := best
			if len(sent) > 0 && r.Intn(100) < 60 {
				anchor = sent[0].Block
			}
			var chain []int
			for _, b := range pool {
				if tree.IsAncestorOrEqual(b, anchor) {
					chain = append(chain, b)
				}
			}
			a := vcommon.Pick(r, pool)
			if len(chain) > 0 && r.Intn(100) < 85 {
				a = vcommon.Pick(r, chain)
			}
			k.installCap(&c21Cap{Announce: a, Eff: tree.Number[a] + uint(r.Intn(3))}) //nolint:gosec
			c.Count("pv_cases_with_pending_change", 1)
		}
		// some prevotes of other voters arrive before the node votes, the primary's messages among them
		var evs []func() bool
		for _, m := range sent {
			m := m
			evs = append(evs, func() bool { return c21pSend(x, primary, m) })
		}
		for v := 0; v < n; v++ {
			if v != self && v != primary && r.Intn(100) < 40 {
				d := x.make("good", prevote, v, vcommon.Pick(r, pool))
				evs = append(evs, func() bool { return x.deliver(d) })
			}
		}
		// keep the order of the primary's own messages, interleave the others
		order := r.Perm(len(evs))
		if len(sent) > 1 {
			order = nil
			for i := range evs {
				order = append(order, i)
			}
		}
		for _, i := range order {
			if !evs[i]() {
				return
			}
		}
	}
	for _, m := range sent {
		c.Count("pv_sent_for_primary_"+m.Kind, 1)
	}
	if _, ok := c21pDetermine(x, sent); !ok {
		return
	}
	_, hasP := k.ref.votes[0][primary]
	if primary != self {
		for _, m := range sent {
			switch {
			case (m.Kind == "prevote" || m.Kind == "proposal") && hasP:
				c.Count("pv_primary_proposal_accepted", 1)
			case m.Kind != "prevote" && m.Kind != "proposal":
				c.Count("pv_primary_proposal_refused", 1)
			}
		}
		if len(sent) > 1 && !hasP && sent[0].Kind == "prevote" {
			c.Count("pv_primary_equivocated", 1)
		}
	}
	// the round goes on with the node's prevote in the tally: the GHOST / precommit / finalisation oracles of C21
	focus := vcommon.Pick(r, pool)
	badPct := r.Range(0, 25)
	k.run(
		func() []*c21Delivery {
			var out []*c21Delivery
			for _, d := range k.genDeliveries(0, focus, badPct) {
				if d.Voter != primary || !d.Good { // the primary has spoken
					out = append(out, d)
				}
			}
			return out
		},
		func() []*c21Delivery { return k.genDeliveries(1, focus, badPct) },
		-1, r.Intn(10) < 8)
	if !c.Failed() {
		c.Count("pv_rounds_completed", 1)
	}
}
