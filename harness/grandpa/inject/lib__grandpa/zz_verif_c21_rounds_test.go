//go:build verif

package grandpa

// C21, multi-round scenarios: ONE Service lives through 2..4 consecutive rounds. Every round is opened with the
// production initiateRound(), receives its votes through validateVoteMessage (plus the node's own votes stored
// the way votingRoundHandler does) and is judged by the single-round oracles of c21Case.run against a reference
// tally that is built from THAT ROUND'S votes only: a prevote, a precommit or an equivocator of an earlier round
// must not weigh in the tallies, in determinePreCommit or in attemptToFinalize of the current round.
// What legitimately carries over is modelled explicitly: the finalised head, the round number, the set id.
// A round ends the way the round engine lets it end (finalisation.go): by the node's own attemptToFinalize, by a
// commit message of the network for this round (real handleCommitMessage), by a commit of a later round (the
// node jumps), or - rarely - it is abandoned and initiateRound is simply called again.
//
// Half of the scenarios run in "behavioural" mode: the service's vote maps are NOT compared with the reference
// after well-formed deliveries, so that a stale tally has to show in what the voter does (weight of the
// pre-voted block, precommit without supermajority, finalisation with <= 2/3 real precommits).

import (
	"fmt"
	"sort"
	"strings"

	"github.com/ChainSafe/gossamer/lib/crypto/ed25519"
	"github.com/ChainSafe/gossamer/zz_verif/vcommon"
)

// c21Multi is one Service and the reference knowledge that survives a round.
type c21Multi struct {
	c       *vcommon.Case
	node    *verifNode
	tree    *verifTree
	keys    []*ed25519.Keypair
	n       int
	self    int
	setID   uint64
	lenient bool
	head    int    // reference: the block finalised last
	next    uint64 // reference: the round number initiateRound has to open
	roundIx int
	history []map[string]any
	// previous round on this service (reference tally of that round)
	prev *c21Tally
	sig  []string
}

func c21NewMulti(c *vcommon.Case, tree *verifTree, n, self int, setID uint64, keyTag uint64, lenient bool) *c21Multi {
	keys := verifKeypairs(keyTag, n+2)
	node, err := verifNewNode(tree, keys[:n], verifNodeOpts{Self: self, SetID: setID})
	if err != nil {
		c.Inconclusive("setup: " + err.Error())
		return nil
	}
	node.Keys = keys
	return &c21Multi{c: c, node: node, tree: tree, keys: keys, n: n, self: self, setID: setID, lenient: lenient, next: 1}
}

// open starts the next round with the production initiateRound and returns the per-round case object.
func (m *c21Multi) open() *c21Case {
	svc := m.node.Service
	if err := svc.initiateRound(); err != nil {
		m.c.Inconclusive(fmt.Sprintf("initiateRound (round index %d): %s", m.roundIx, err))
		return nil
	}
	if got := m.tree.Index(svc.head.Hash()); got != m.head {
		m.c.Inconclusive(fmt.Sprintf("round index %d: service head is block %d, expected %d", m.roundIx, got, m.head))
		return nil
	}
	if svc.state.round != m.next || svc.state.setID != m.setID {
		m.c.Inconclusive(fmt.Sprintf("round index %d: service opened round %d set %d, expected round %d set %d", m.roundIx,
			svc.state.round, svc.state.setID, m.next, m.setID))
		return nil
	}
	k := &c21Case{c: m.c, node: m.node, tree: m.tree, keys: m.keys, n: m.n, self: m.self, head: m.head,
		round: svc.state.round, setID: m.setID, roundIx: m.roundIx, history: m.history, lenient: m.lenient}
	k.ref = newC21Tally(m.tree, m.n, m.head)
	return k
}

// c21Close says how a round that the node did not finalise itself comes to an end.
type c21Close struct {
	Mode     string // commit | abandon
	CommitTo int    // block the network's commit finalises (descendant-or-self of the head)
	Jump     uint64 // the commit is for round + Jump (the node missed rounds)
}

// close ends the round and updates the carried-over reference state. Returns false when the scenario must stop.
func (m *c21Multi) close(k *c21Case, cl c21Close) bool {
	c := m.c
	how := ""
	switch {
	case k.outcome == "finalised":
		m.head, m.next, how = k.finIdx, k.round+1, "own attemptToFinalize"
		c.Count("mr_rounds_finalised_by_own_attempt", 1)
	case cl.Mode == "abandon":
		m.next, how = k.round+1, "abandoned (initiateRound called again)"
		c.Count("mr_rounds_abandoned", 1)
	default:
		// the rest of the network finalised: a commit signed by every voter reaches the node
		round := k.round + cl.Jump
		target := m.tree.Vote(cl.CommitTo)
		var pcs []SignedVote
		for v := 0; v < m.n; v++ {
			pcs = append(pcs, verifSignVote(m.keys[v], precommit, target, round, m.setID))
		}
		before := m.node.Block.NumCalls()
		err := m.node.Service.handleCommitMessage(verifCommit(round, m.setID, target, pcs))
		calls := m.node.Block.Calls[before:]
		if err != nil || len(calls) != 1 || calls[0].Err != nil {
			c.Inconclusive(fmt.Sprintf("round index %d: closing commit for block %d round %d not applied: err=%v calls=%+v",
				m.roundIx, cl.CommitTo, round, err, calls))
			return false
		}
		m.head, m.next = cl.CommitTo, round+1
		how = fmt.Sprintf("commit message of round %d for block %d", round, cl.CommitTo)
		c.Count("mr_rounds_closed_by_commit", 1)
		if cl.Jump > 0 {
			c.Count("mr_round_jumps", 1)
		}
	}
	m.history = append(m.history, map[string]any{"round": k.round, "head": k.head, "deliveries": k.log,
		"prevotes": k.ref.describe(0), "precommits": k.ref.describe(1), "outcome": k.outcome, "ended_by": how, "new_head": m.head})
	m.sig = append(m.sig, fmt.Sprintf("h%d:%s:e%d/%d:v%d/%d", k.head, k.outcome, len(k.ref.eqv[0]), len(k.ref.eqv[1]),
		len(k.ref.votes[0]), len(k.ref.votes[1])))
	m.prev = k.ref
	m.roundIx++
	return true
}

// staleGain is how much weight block b would wrongly gain in stage st of the current round if the votes /
// equivocators of the previous round were still around (coverage bookkeeping only, never an oracle).
func (m *c21Multi) staleGain(k *c21Case, st, b int) (fromEquivocators, fromVotes int) {
	if m.prev == nil {
		return 0, 0
	}
	for v := range m.prev.eqv[st] {
		if !k.ref.eqv[st][v] {
			if vb, ok := k.ref.votes[st][v]; !ok || !m.tree.IsAncestorOrEqual(b, vb) {
				fromEquivocators++
			}
		}
	}
	for v, old := range m.prev.votes[st] {
		if v == m.self || k.ref.eqv[st][v] {
			continue
		}
		cur, votes := k.ref.votes[st][v]
		switch {
		case !votes && m.tree.IsAncestorOrEqual(k.head, old) && m.tree.IsAncestorOrEqual(b, old):
			fromVotes++ // silent now, the old vote is for b or a descendant
		case votes && cur != old && !m.tree.IsAncestorOrEqual(b, cur):
			fromVotes++ // old vote + new vote = false equivocator, counted for every block
		}
	}
	return
}

// observe records what kind of later round this was (coverage floors).
func (m *c21Multi) observe(k *c21Case, pvTarget int) {
	c := m.c
	c.Count("mr_rounds", 1)
	if m.roundIx == 0 || m.prev == nil {
		return
	}
	c.Count("mr_later_rounds", 1)
	thr := 2 * m.n / 3
	for st, name := range []string{"prevote", "precommit"} {
		if len(m.prev.eqv[st]) > 0 {
			c.Count("mr_rounds_after_a_round_with_"+name+"_equivocators", 1)
		}
		for v := range m.prev.eqv[st] {
			_, votes := k.ref.votes[st][v]
			switch {
			case k.ref.eqv[st][v]:
				c.Count("mr_former_equivocator_equivocates_again", 1)
			case votes:
				c.Count("mr_former_equivocator_votes_honestly", 1)
			default:
				c.Count("mr_former_equivocator_silent", 1)
			}
		}
		b := pvTarget
		if st == 1 {
			b = k.pcIdx
		}
		if b < 0 || (st == 1 && k.outcome != "finalised" && k.outcome != "not-finalised") {
			continue
		}
		w := k.ref.total(st, b)
		switch w {
		case thr:
			c.Count("mr_later_round_"+name+"_weight_exactly_two_thirds_floor", 1)
		case thr + 1:
			c.Count("mr_later_round_"+name+"_weight_minimal_supermajority", 1)
		}
		ge, gv := m.staleGain(k, st, b)
		if w <= thr && w+ge > thr {
			c.Count("mr_"+name+"_verdict_would_flip_with_stale_equivocators", 1)
		}
		if w <= thr && w+gv > thr {
			c.Count("mr_"+name+"_verdict_would_flip_with_stale_votes", 1)
		}
	}
}

// ---- targeted vote generation ---------------------------------------------------------------------

// c21StagePlan shapes the votes of one stage around a target block.
type c21StagePlan struct {
	Weight  int // wanted reference weight of the target (supporters + equivocators), -1 = unstructured
	Eqv     int // equivocators among the other voters
	Rest    int // what the remaining voters do: 0 silent, 1 vote for a block that is not the target or a descendant, 2 mixed
	BadPct  int
	Prefer  map[int]bool // voters that should preferably be the silent / non-supporting ones (former equivocators ...)
	PreferS bool         // ... or preferably supporters
}

// genTargeted produces the deliveries of one stage: exactly p.Weight - p.Eqv voters (the node's own vote included
// when ownSupports) vote for target or a descendant, p.Eqv voters equivocate, the others do p.Rest.
func (k *c21Case) genTargeted(stage, target int, ownSupports bool, p c21StagePlan) []*c21Delivery {
	r := k.c.R
	if p.Weight < 0 || target < 0 {
		return k.genDeliveries(stage, target, p.BadPct)
	}
	pool := k.tree.Descendants(k.head)
	sup := k.tree.Descendants(target)
	var opp []int
	for _, b := range pool {
		if !k.tree.IsAncestorOrEqual(target, b) {
			opp = append(opp, b)
		}
	}
	var others []int
	for _, i := range r.Perm(k.n) {
		if i != k.self {
			others = append(others, i)
		}
	}
	if len(p.Prefer) > 0 {
		// stable partition: preferred voters to the end (they become the rest) or to the front (supporters)
		sort.SliceStable(others, func(a, b int) bool {
			pa, pb := p.Prefer[others[a]], p.Prefer[others[b]]
			if p.PreferS {
				return pa && !pb
			}
			return !pa && pb
		})
	}
	nEq := p.Eqv
	if len(pool) < 2 {
		nEq = 0
	}
	if nEq > len(others) {
		nEq = len(others)
	}
	need := p.Weight - nEq
	if ownSupports {
		need--
	}
	if need < 0 {
		need = 0
	}
	if need > len(others)-nEq {
		need = len(others) - nEq
	}
	var out []*c21Delivery
	// supporters first in the (partitioned) order, equivocators are taken from the tail of the supporters' side
	for i, v := range others {
		switch {
		case i < need:
			b := target
			if r.Intn(100) < 30 {
				b = vcommon.Pick(r, sup)
			}
			out = append(out, k.make("good", stage, v, b))
			if r.Intn(100) < 10 {
				out = append(out, k.make("good", stage, v, b))
			}
		case i < need+nEq:
			b1 := vcommon.Pick(r, pool)
			b2 := vcommon.Pick(r, pool)
			for b2 == b1 {
				b2 = vcommon.Pick(r, pool)
			}
			out = append(out, k.make("good", stage, v, b1), k.make("good", stage, v, b2))
			if r.Intn(3) == 0 {
				out = append(out, k.make("good", stage, v, vcommon.Pick(r, pool)))
			}
		default:
			if len(opp) > 0 && (p.Rest == 1 || (p.Rest == 2 && r.Bool())) {
				out = append(out, k.make("good", stage, v, vcommon.Pick(r, opp)))
			}
		}
	}
	for i := 0; i < k.n+2; i++ {
		if r.Intn(100) < p.BadPct && len(others) > 0 {
			if d := k.make(vcommon.Pick(r, c21BadKinds), stage, vcommon.Pick(r, others), vcommon.Pick(r, pool)); d != nil &&
				(d.Kind != "round-behind" || k.round > 0) {
				out = append(out, d)
			}
		}
	}
	sh := make([]*c21Delivery, len(out))
	for i, j := range r.Perm(len(out)) {
		sh[i] = out[j]
	}
	return sh
}

// ---- fixed corpus ---------------------------------------------------------------------------------

type c21FixedRound struct {
	Own        int // the node's own prevote (-1: none)
	Prevotes   []c21FixedVote
	Precommits []c21FixedVote
	Close      c21Close
	Expect     string // outcome on a correct voter: finalised:<block> | not-finalised | no-prevote-supermajority
}

type c21FixedMulti struct {
	Name    string
	N       int
	Parents []int
	Rounds  []c21FixedRound
}

func c21Votes(kind string, block int, voters ...int) []c21FixedVote {
	var out []c21FixedVote
	for _, v := range voters {
		out = append(out, c21FixedVote{Voter: v, Block: block, Kind: kind})
	}
	return out
}

func c21Cat(vs ...[]c21FixedVote) []c21FixedVote {
	var out []c21FixedVote
	for _, v := range vs {
		out = append(out, v...)
	}
	return out
}

// c21MultiCorpus: the node is voter 0 and always precommits to what determinePreCommit answers.
func c21MultiCorpus() []c21FixedMulti {
	good := func(block int, voters ...int) []c21FixedVote { return c21Votes("good", block, voters...) }
	// blocks 0..5 are a chain #0..#5; block 6 = #2 on a fork from block 1; block 7 = #4 on a fork from block 3
	t9 := []int{-1, 0, 1, 2, 3, 4, 1, 3}
	// blocks 0..4 are a chain #0..#4; block 5 = #2 on a fork from block 1
	t4 := []int{-1, 0, 1, 2, 3, 1}
	commit := func(b int) c21Close { return c21Close{Mode: "commit", CommitTo: b} }
	all8 := []int{1, 2, 3, 4, 5, 6, 7, 8}
	return []c21FixedMulti{
		{Name: "n9: three precommit equivocators in round 1; round 2 has 8/9 prevotes and 4/9 precommits for #3", N: 9, Parents: t9,
			Rounds: []c21FixedRound{
				{Own: 2, Prevotes: good(2, all8...),
					Precommits: c21Cat(good(2, 1, 2, 3, 4, 5), good(2, 6, 7, 8), good(1, 6, 7, 8)), Expect: "finalised:2"},
				{Own: 3, Prevotes: good(3, 1, 2, 3, 4, 5, 6, 7), Precommits: good(3, 1, 2, 3), Close: commit(3), Expect: "not-finalised"},
				{Own: 4, Prevotes: good(4, all8...), Precommits: good(4, all8...), Expect: "finalised:4"},
			}},
		{Name: "n9: one precommit equivocator, silent in round 2 where exactly 6 of 9 precommit; honest in round 3 with 7 of 9", N: 9, Parents: t9,
			Rounds: []c21FixedRound{
				{Own: 2, Prevotes: good(2, all8...), Precommits: c21Cat(good(2, 1, 2, 3, 4, 5, 6, 7, 8), good(6, 8)), Expect: "finalised:2"},
				{Own: 3, Prevotes: good(3, all8...), Precommits: good(3, 1, 2, 3, 4, 5), Close: commit(2), Expect: "not-finalised"},
				{Own: 3, Prevotes: good(3, all8...), Precommits: good(3, 1, 2, 3, 4, 5, 8), Expect: "finalised:3"},
			}},
		{Name: "n9: two precommit equivocators, silent in round 2 with the minimal supermajority 7 of 9; round 3 finalises below the GHOST", N: 9, Parents: t9,
			Rounds: []c21FixedRound{
				{Own: 2, Prevotes: good(2, all8...), Precommits: c21Cat(good(2, all8...), good(6, 7, 8)), Expect: "finalised:2"},
				{Own: 3, Prevotes: good(3, all8...), Precommits: good(3, 1, 2, 3, 4, 5, 6), Expect: "finalised:3"},
				{Own: 5, Prevotes: good(5, all8...), Precommits: c21Cat(good(5, 1, 2, 3, 4, 5), good(4, 6, 7, 8)), Expect: "finalised:4"},
			}},
		{Name: "n9: prevote equivocator in round 1; exactly 6 of 9 prevotes in round 2, 7 of 9 in round 3", N: 9, Parents: t9,
			Rounds: []c21FixedRound{
				{Own: 2, Prevotes: c21Cat(good(2, all8...), good(6, 8)), Precommits: good(2, all8...), Expect: "finalised:2"},
				{Own: 3, Prevotes: good(3, 1, 2, 3, 4, 5), Close: commit(2), Expect: "no-prevote-supermajority"},
				{Own: 3, Prevotes: good(3, 1, 2, 3, 4, 5, 6), Precommits: good(3, 1, 2, 3, 4, 5, 6), Expect: "finalised:3"},
			}},
		{Name: "n9: prevotes of round 1 for #4 above the new head #2; round 2 has 6 of 9 prevotes for #4, their authors of round 1 silent", N: 9, Parents: t9,
			Rounds: []c21FixedRound{
				{Own: 4, Prevotes: good(4, all8...), Precommits: good(2, all8...), Expect: "finalised:2"},
				{Own: 4, Prevotes: good(4, 1, 2, 3, 4, 5), Close: c21Close{Mode: "abandon"}, Expect: "no-prevote-supermajority"},
				{Own: 4, Prevotes: good(4, all8...), Precommits: good(4, all8...), Expect: "finalised:4"},
			}},
		{Name: "n9: precommits of round 1 for #4 above the new head #2; round 2 has 6 of 9 precommits for #4 by the others", N: 9, Parents: t9,
			Rounds: []c21FixedRound{
				{Own: 4, Prevotes: good(4, all8...), Precommits: c21Cat(good(4, 1, 2, 3, 4), good(2, 5, 6, 7, 8)), Expect: "finalised:2"},
				{Own: 4, Prevotes: good(4, all8...), Precommits: good(4, 4, 5, 6, 7, 8), Close: commit(3), Expect: "not-finalised"},
				{Own: 5, Prevotes: good(5, all8...), Precommits: good(5, 1, 2, 3, 4, 5, 6), Expect: "finalised:5"},
			}},
		{Name: "n4: precommit equivocator in round 1; 2 of 4 precommits in round 2, 3 of 4 (former equivocator honest) in round 3", N: 4, Parents: t4,
			Rounds: []c21FixedRound{
				{Own: 2, Prevotes: good(2, 1, 2, 3), Precommits: c21Cat(good(2, 1, 2, 3), good(5, 3)), Expect: "finalised:2"},
				{Own: 3, Prevotes: good(3, 1, 2), Precommits: good(3, 1), Close: commit(2), Expect: "not-finalised"},
				{Own: 3, Prevotes: good(3, 1, 2, 3), Precommits: good(3, 1, 3), Expect: "finalised:3"},
				{Own: 4, Prevotes: good(4, 1, 2, 3), Precommits: good(4, 1, 2, 3), Expect: "finalised:4"},
			}},
		{Name: "n4: prevote equivocator and malformed votes in round 1; 2 of 4 prevotes in round 2 (votes of round 1 replayed); node jumps a round", N: 4, Parents: t4,
			Rounds: []c21FixedRound{
				{Own: 2, Prevotes: c21Cat(good(2, 1, 2, 3), good(5, 3), c21Votes("bad-sig", 2, 1), c21Votes("wrong-number", 2, 2)),
					Precommits: c21Cat(good(2, 1, 2, 3), c21Votes("wrong-set", 2, 3)), Expect: "finalised:2"},
				{Own: 3, Prevotes: c21Cat(good(3, 1), c21Votes("bad-sig", 3, 2), c21Votes("round-behind", 3, 3), c21Votes("round-behind", 3, 2),
					c21Votes("round-ahead-1", 3, 2)), Close: c21Close{Mode: "commit", CommitTo: 2, Jump: 1}, Expect: "no-prevote-supermajority"},
				{Own: 3, Prevotes: good(3, 1, 2, 3), Precommits: c21Cat(good(3, 1, 2), c21Votes("sig-other-round", 3, 3)), Expect: "finalised:3"},
			}},
		{Name: "n4: round 1 not finalised (precommit equivocator, 2 of 4) and abandoned; round 2 has 2 of 4 precommits", N: 4, Parents: t4,
			Rounds: []c21FixedRound{
				{Own: 2, Prevotes: good(2, 1, 2, 3), Precommits: c21Cat(good(2, 1), good(5, 1)), Close: c21Close{Mode: "abandon"}, Expect: "not-finalised"},
				{Own: 2, Prevotes: good(2, 1, 2), Precommits: good(2, 2), Close: commit(1), Expect: "not-finalised"},
				{Own: 2, Prevotes: good(2, 1, 2, 3), Precommits: good(2, 2, 3), Expect: "finalised:2"},
			}},
	}
}

func c21MultiCorpusRounds() int {
	t := 0
	for _, f := range c21MultiCorpus() {
		t += len(f.Rounds)
	}
	return t
}

func c21RunMultiFixed(c *vcommon.Case, fc c21FixedMulti, lenient bool) {
	tree := verifTreeFromParents(fc.Parents, 2121)
	m := c21NewMulti(c, tree, fc.N, 0, 0, 2190+uint64(fc.N), lenient) //nolint:gosec
	if m == nil {
		return
	}
	defer m.node.Close()
	for _, fr := range fc.Rounds {
		k := m.open()
		if k == nil {
			return
		}
		mk := func(stage int, vs []c21FixedVote) func() []*c21Delivery {
			return func() []*c21Delivery {
				var out []*c21Delivery
				for _, v := range vs {
					if d := k.make(v.Kind, stage, v.Voter, v.Block); d != nil {
						out = append(out, d)
					}
				}
				return out
			}
		}
		k.run(mk(0, fr.Prevotes), mk(1, fr.Precommits), fr.Own, true)
		if c.Failed() {
			return
		}
		got := k.outcome
		if got == "finalised" {
			got = fmt.Sprintf("finalised:%d", k.finIdx)
		}
		if got == fr.Expect {
			c.Count("mr_corpus_rounds_as_planned", 1)
		} else {
			c.Count("mr_corpus_rounds_not_as_planned", 1)
			c.Inconclusive(fmt.Sprintf("%s: round index %d ended %q, the plan expects %q", fc.Name, m.roundIx, got, fr.Expect))
		}
		m.observe(k, fr.Own)
		if !m.close(k, fr.Close) {
			return
		}
	}
	c.Distinct("mr-fixed|" + fc.Name + fmt.Sprint(lenient))
}

// ---- generated ------------------------------------------------------------------------------------

func c21RunMultiGenerated(c *vcommon.Case) {
	r := c.R
	n := vcommon.Pick(r, []int{4, 4, 7, 9, 9, 10, 5, 6, 3})
	if r.Intn(5) == 0 {
		n = r.Range(2, 10)
	}
	tree := verifGenTree(r, r.Range(7, 14), r.Range(5, 35), r.Uint64())
	self := r.Intn(n)
	setID := uint64(0)
	if r.Intn(6) == 0 {
		setID = 1
	}
	lenient := r.Bool()
	m := c21NewMulti(c, tree, n, self, setID, r.Uint64(), lenient)
	if m == nil {
		return
	}
	defer m.node.Close()
	if lenient {
		c.Count("mr_scenarios_behavioural_mode", 1)
	} else {
		c.Count("mr_scenarios_vote_maps_compared", 1)
	}
	thr := 2 * n / 3
	f := (n - 1) / 3
	rounds := r.Range(2, 4)
	eqCount := func(first bool) int {
		p := 45
		if first {
			p = 70 // the first rounds should leave equivocators behind
		}
		if r.Intn(100) >= p {
			return 0
		}
		if r.Intn(10) == 0 {
			return r.Range(1, f+1)
		}
		if f < 1 {
			return 1
		}
		return r.Range(1, f)
	}
	weight := func(later bool) int {
		x := r.Intn(100)
		lo, mid := 15, 35
		if later {
			lo, mid = 30, 60
		}
		switch {
		case x < lo:
			return thr
		case x < mid:
			return thr + 1
		case x < 92:
			return r.Range(thr+1, n)
		}
		return -1
	}
	for ri := 0; ri < rounds; ri++ {
		k := m.open()
		if k == nil {
			return
		}
		pool := tree.Descendants(k.head)
		// target of the prevotes: preferably one to three blocks above the head
		var near []int
		for _, b := range pool {
			if d := tree.Number[b] - tree.Number[k.head]; d >= 1 && d <= 3 {
				near = append(near, b)
			}
		}
		pvTarget := vcommon.Pick(r, pool)
		if len(near) > 0 && r.Intn(10) < 8 {
			pvTarget = vcommon.Pick(r, near)
		}
		own := -1
		if r.Intn(100) < 85 {
			own = pvTarget
			if r.Intn(5) == 0 {
				own = vcommon.Pick(r, pool)
			}
		}
		ownPC := r.Intn(100) < 85
		later := ri > 0
		var formerEq [2]map[int]bool
		if m.prev != nil {
			formerEq = m.prev.eqv
		}
		badPct := r.Range(0, 30)
		pv := c21StagePlan{Weight: weight(later), Eqv: eqCount(ri == 0), Rest: r.Intn(3), BadPct: badPct, Prefer: formerEq[0], PreferS: r.Bool()}
		if later && r.Intn(3) == 0 {
			// the prevote stage is not what this round is about: give it a clear supermajority
			pv.Weight, pv.Eqv = r.Range(thr+1, n), 0
		}
		pc := c21StagePlan{Weight: weight(later), Eqv: eqCount(ri == 0), Rest: r.Intn(3), BadPct: badPct, Prefer: formerEq[1], PreferS: r.Bool()}
		if pv.Weight >= 0 && pv.Weight < pv.Eqv {
			pv.Weight = pv.Eqv
		}
		if m.prev != nil && r.Intn(4) == 0 {
			// the voters whose votes of the previous round are for blocks still above the head stay away
			pv.Prefer, pv.PreferS = map[int]bool{}, false
			for v, b := range m.prev.votes[0] {
				if tree.IsAncestorOrEqual(pvTarget, b) {
					pv.Prefer[v] = true
				}
			}
			pc.Prefer, pc.PreferS = map[int]bool{}, false
			for v, b := range m.prev.votes[1] {
				if tree.IsAncestorOrEqual(pvTarget, b) {
					pc.Prefer[v] = true
				}
			}
		}
		k.run(
			func() []*c21Delivery {
				return k.genTargeted(0, pvTarget, own >= 0 && tree.IsAncestorOrEqual(pvTarget, own), pv)
			},
			func() []*c21Delivery { return k.genTargeted(1, k.pcIdx, ownPC, pc) },
			own, ownPC)
		if c.Failed() {
			return
		}
		m.observe(k, pvTarget)
		cl := c21Close{Mode: "commit", CommitTo: k.head}
		switch x := r.Intn(100); {
		case x < 12:
			cl.Mode = "abandon"
		case x < 24:
			cl.Jump = uint64(r.Range(1, 2)) //nolint:gosec
		}
		if r.Intn(10) < 6 {
			// a block at most two above the head, preferably towards the prevote target
			var c2 []int
			for _, b := range pool {
				if tree.Number[b]-tree.Number[k.head] <= 2 && (tree.IsAncestorOrEqual(b, pvTarget) || r.Intn(4) == 0) {
					c2 = append(c2, b)
				}
			}
			cl.CommitTo = vcommon.Pick(r, c2)
		}
		if !m.close(k, cl) {
			return
		}
	}
	c.Count("mr_scenarios_completed", 1)
	c.Distinct(fmt.Sprintf("mr|%s|n%d|%v|%s", tree.Shape(), n, lenient, strings.Join(m.sig, ";")))
	c.Sample(map[string]any{"n": n, "tree": tree.Shape(), "vote_maps_compared": !lenient, "rounds": m.sig})
}
