//go:build verif

package grandpa

// C21 (extension) — the per-vote tally oracle on the production message path and on the tracker re-delivery path.
//
//   wire path      VoteMessage.ToConsensusMessage -> bytes -> Service.decodeMessage -> Service.handleNetworkMessage
//                  -> decodeMessage -> MessageHandler.handleMessage -> handleVoteMessage -> validateVoteMessage
//   tracker path   votes for a block that is not in the block state yet (or for the next round) are parked by
//                  tracker.addVote and handled again by tracker.handleBlock (block imported) / tracker.handleTick
//
// The reference decides from the raw message alone (crypto/ed25519 over the hand-written payload encoding, explicit
// tree, the set of blocks imported so far, the round / set id / voters / head that are current AT THE TIME the
// message is (re-)handled) whether the message is a well-formed vote; well-formed votes are applied to the
// c21Tally of the current round, everything else must leave the service's tallies unchanged. After every action
// (delivery, handleBlock, handleTick) the service's vote maps are compared with the reference tally.
// The tracker is modelled with its documented semantics only as far as needed to know which messages a
// re-delivery hands back: one message per (block hash, authority), the latest wins; handleBlock(h) forgets the
// messages for h; handleTick forgets messages of an earlier round of the current set.

import (
	"bytes"
	stded "crypto/ed25519"
	"fmt"
	"sort"
	"strings"
	"testing"

	"github.com/ChainSafe/gossamer/dot/types"
	"github.com/ChainSafe/gossamer/lib/common"
	"github.com/ChainSafe/gossamer/lib/crypto/ed25519"
	"github.com/ChainSafe/gossamer/zz_verif/vcommon"
	"github.com/libp2p/go-libp2p/core/peer"
)

// verifWire sends a GRANDPA message the way the network layer hands it to the service. harnessErr is set when
// the harness itself could not encode / decode the message (then nothing reached the service).
func verifWire(svc *Service, from peer.ID, m GrandpaMessage) (propagate bool, err error, harnessErr error) {
	var cm *ConsensusMessage
	switch v := m.(type) {
	case *VoteMessage:
		cm, harnessErr = v.ToConsensusMessage()
	case *CommitMessage:
		cm, harnessErr = v.ToConsensusMessage()
	default:
		harnessErr = fmt.Errorf("verifWire: unsupported message %T", m)
	}
	if harnessErr != nil {
		return false, nil, harnessErr
	}
	raw, harnessErr := cm.Encode()
	if harnessErr != nil {
		return false, nil, harnessErr
	}
	// the network layer decodes from its receive buffer, which it reuses afterwards
	buf := append([]byte{}, raw...)
	nm, harnessErr := svc.decodeMessage(buf)
	if harnessErr != nil {
		return false, nil, harnessErr
	}
	for i := range buf {
		buf[i] = 0xfe
	}
	propagate, err = svc.handleNetworkMessage(from, nm)
	return propagate, err, nil
}

type c21xKey struct {
	Hash common.Hash
	Auth ed25519.PublicKeyBytes
}

// c21x drives ONE round of a c21Case through the wire and tracker paths. late and model are shared by the
// drivers of consecutive rounds of one Service.
type c21x struct {
	k      *c21Case
	late   map[int]bool            // tree blocks that are not imported into the node yet
	model  map[c21xKey]VoteMessage // messages the tracker has to hold (documented semantics)
	ticked map[c21xKey]bool        // model entries that lived through a handleTick while not countable
	from   peer.ID
	// afterRoundChange / afterSetChange: this round was opened after messages had been parked in an earlier round / set
	afterRoundChange bool
	afterSetChange   bool
}

func newC21x(k *c21Case, late map[int]bool) *c21x {
	if late == nil {
		late = map[int]bool{}
	}
	return &c21x{k: k, late: late, model: map[c21xKey]VoteMessage{}, ticked: map[c21xKey]bool{}, from: peer.ID("verif-peer")}
}

func (x *c21x) next(k2 *c21Case) *c21x {
	return &c21x{k: k2, late: x.late, model: x.model, ticked: x.ticked, from: x.from}
}

// c21xClass is the reference's reading of one raw vote message at the present state.
type c21xClass struct {
	OK    bool // a well-formed vote of the current round: the reference tallies it
	Stage int  // 0 prevote (primaryProposal messages are stored as prevotes by the code), 1 precommit
	Voter int  // index among the current voters, -1
	Key   int  // index in the key list of the case, -1
	Block int
	SigOK bool
	Why   string
}

func (x *c21x) classify(m *VoteMessage) c21xClass {
	k := x.k
	cl := c21xClass{Voter: -1, Key: -1, Block: k.tree.Index(m.Message.BlockHash)}
	switch m.Message.Stage {
	case prevote, primaryProposal:
		cl.Stage = 0
	case precommit:
		cl.Stage = 1
	default:
		cl.Why = "stage"
	}
	for i, kp := range k.keys {
		if verifPub(kp) == m.Message.AuthorityID {
			cl.Key = i
			if i < k.n {
				cl.Voter = i
			}
		}
	}
	payload := refFullVotePayload(byte(m.Message.Stage), Vote{Hash: m.Message.BlockHash, Number: m.Message.Number}, m.Round, m.SetID)
	cl.SigOK = stded.Verify(stded.PublicKey(m.Message.AuthorityID[:]), payload, m.Message.Signature[:])
	switch {
	case cl.Why != "":
	case !cl.SigOK:
		cl.Why = "signature"
	case m.SetID != k.setID:
		cl.Why = "set id"
	case m.Round != k.round:
		cl.Why = "round"
	case cl.Voter < 0:
		cl.Why = "not an authority"
	case cl.Voter == k.self:
		cl.Why = "own key"
	case cl.Block < 0:
		cl.Why = "unknown block"
	case x.late[cl.Block]:
		cl.Why = "block not imported"
	case uint32(k.tree.Number[cl.Block]) != m.Message.Number: //nolint:gosec
		cl.Why = "wrong number"
	case !k.tree.IsAncestorOrEqual(k.head, cl.Block):
		cl.Why = "not a descendant of the head"
	default:
		cl.OK = true
		cl.Why = "well-formed"
	}
	return cl
}

func c21xSlug(s string) string { return strings.ReplaceAll(s, " ", "_") }

func c21xCloneTally(m *c21Tally) *c21Tally {
	o := newC21Tally(m.tree, m.n, m.head)
	for st := 0; st < 2; st++ {
		for v, b := range m.votes[st] {
			o.votes[st][v] = b
		}
		for v := range m.eqv[st] {
			o.eqv[st][v] = true
		}
	}
	return o
}

// c21xDelivery is one generated message with its generation label (the reference does not use the label).
type c21xDelivery struct {
	Kind string
	Msg  *VoteMessage
}

// make builds a message of the given kind by key index `voter` for tree block `block`.
func (x *c21x) make(kind string, stage Subround, voter, block int) c21xDelivery {
	k := x.k
	r := k.c.R
	vote := k.tree.Vote(block)
	round, set := k.round, k.setID
	kp := k.keys[voter]
	switch kind {
	case "good", "bad-sig":
	case "next-round":
		round++
	case "round-ahead-2":
		round += 2
	case "round-behind":
		round--
	case "wrong-set":
		set++
	case "wrong-number":
		vote.Number += uint32(r.Range(1, 3)) //nolint:gosec
	case "unknown-block":
		copy(vote.Hash[:], r.Bytes(32))
	case "non-authority":
		kp = k.keys[k.n+r.Intn(len(k.keys)-k.n)]
	case "from-self":
		kp = k.keys[k.self]
	case "sig-other-round":
		m := verifVoteMessage(kp, stage, vote, round+1, set)
		m.Round = round
		return c21xDelivery{Kind: kind, Msg: m}
	default:
		panic("c21x kind " + kind)
	}
	m := verifVoteMessage(kp, stage, vote, round, set)
	if kind == "bad-sig" {
		m.Message.Signature[r.Intn(64)] ^= 0x10
	}
	if x.late[block] && kind != "unknown-block" {
		kind += "-late"
	}
	return c21xDelivery{Kind: kind, Msg: m}
}

func (x *c21x) logEntry(via string, kind string, m *VoteMessage, cl c21xClass, err error) map[string]any {
	e := map[string]any{"via": via, "stage": m.Message.Stage.String(), "key": cl.Key, "block": cl.Block,
		"number": m.Message.Number, "msg_round": m.Round, "msg_set_id": m.SetID, "reference": cl.Why}
	if kind != "" {
		e["kind"] = kind
	}
	if via == "handleNetworkMessage" {
		e["err"] = fmt.Sprint(err)
	}
	return e
}

// deliver sends the message through the wire path and applies the per-vote oracle. Returns false when the case must stop.
func (x *c21x) deliver(d c21xDelivery) bool {
	k, c := x.k, x.k.c
	svc := k.node.Service
	cl := x.classify(d.Msg)
	before := c21Snap(svc)
	_, err, herr := verifWire(svc, x.from, d.Msg)
	if herr != nil {
		c.Inconclusive("harness could not encode the vote message: " + herr.Error())
		return false
	}
	after := c21Snap(svc)
	k.log = append(k.log, x.logEntry("handleNetworkMessage", d.Kind, d.Msg, cl, err))
	c.Eval(1)
	c.Count("x21_wire_deliveries", 1)
	c.Count("x21_wire_kind_"+d.Kind, 1)
	x.notePark(d.Msg, cl)
	if cl.OK && d.Msg.Message.Stage == primaryProposal {
		// the code stores a primary proposal as the primary's prevote; the property does not say whether a proposal
		// is a vote: accept "tallied as a prevote" and "ignored", nothing else
		trial := c21xCloneTally(k.ref)
		trial.apply(0, cl.Voter, cl.Block)
		if ok, _ := after.matches(trial, k.keys); ok {
			k.ref = trial
			c.Count("x21_primary_proposal_tallied_as_prevote", 1)
			return true
		}
		if before.equalTally(after) {
			c.Count("x21_primary_proposal_not_tallied", 1)
			return true
		}
		c.Violation("tally-mismatch", "a well-formed primary proposal changed the tallies in another way than a prevote of the primary would", k.witness(nil))
		return false
	}
	if cl.OK {
		k.ref.apply(cl.Stage, cl.Voter, cl.Block)
		c.Count("x21_wire_tallied", 1)
		if ok, why := after.matches(k.ref, k.keys); !ok {
			c.Violation("tally-mismatch", "after a well-formed vote received through handleNetworkMessage: "+why, k.witness(nil))
			return false
		}
		if err != nil && !strings.Contains(err.Error(), "equivocat") {
			c.Count("x21_wire_tallied_but_error_returned", 1)
		}
		return true
	}
	if !before.equalTally(after) {
		c.Violation("malformed-vote-counted", fmt.Sprintf("%s vote (%s) received through handleNetworkMessage changed the tallies (err=%v)", d.Kind, cl.Why, err), k.witness(nil))
		return false
	}
	if err == nil {
		c.Violation("malformed-vote-accepted", fmt.Sprintf("%s vote (%s) received through handleNetworkMessage returned no error", d.Kind, cl.Why), k.witness(nil))
		return false
	}
	c.Count("x21_wire_refused", 1)
	c.Count("x21_wire_refused_"+c21xSlug(cl.Why), 1)
	return true
}

// notePark updates the tracker model after a delivery.
func (x *c21x) notePark(m *VoteMessage, cl c21xClass) {
	k := x.k
	key := c21xKey{m.Message.BlockHash, m.Message.AuthorityID}
	held := false
	for _, nm := range k.node.Service.tracker.votes.messages(key.Hash) {
		if nm.msg != nil && *nm.msg == *m {
			held = true
		}
	}
	// documented: votes that fail with "block does not exist" and votes of the next round are kept
	must := cl.SigOK && m.SetID == k.setID && (m.Round == k.round+1 ||
		(m.Round == k.round && cl.Voter >= 0 && cl.Voter != k.self && (cl.Block < 0 || x.late[cl.Block])))
	if held || must {
		x.model[key] = *m
		delete(x.ticked, key)
	}
	if held {
		k.c.Count("x21_parked", 1)
		if cl.Why == "block not imported" {
			k.c.Count("x21_parked_for_missing_block", 1)
		}
		if cl.Why == "round" && m.Round == k.round+1 {
			k.c.Count("x21_parked_for_next_round", 1)
		}
	}
	if must && !held {
		k.c.Count("x21_expected_park_not_observed", 1)
	}
}

// redeliver runs a tracker action (handleBlock for `only`, or handleTick) and judges what it hands back.
func (x *c21x) redeliver(via string, only *common.Hash, act func()) bool {
	k, c := x.k, x.k.c
	svc := k.node.Service
	cands := map[c21xKey]VoteMessage{}
	for key, m := range x.model {
		if only == nil || key.Hash == *only {
			cands[key] = m
		}
	}
	var actual []networkVoteMessage
	if only != nil {
		actual = svc.tracker.votes.messages(*only)
	} else {
		actual = svc.tracker.votes.networkVoteMessages()
	}
	for _, nm := range actual {
		if nm.msg == nil {
			continue
		}
		key := c21xKey{nm.msg.Message.BlockHash, nm.msg.Message.AuthorityID}
		if _, ok := cands[key]; !ok {
			cands[key] = *nm.msg
			c.Count("x21_tracker_holds_unmodelled_message", 1)
		} else if cands[key] != *nm.msg {
			c.Count("x21_tracker_holds_other_message_for_key", 1)
		}
	}
	keys := make([]c21xKey, 0, len(cands))
	for key := range cands {
		keys = append(keys, key)
	}
	sort.Slice(keys, func(i, j int) bool {
		if c := bytes.Compare(keys[i].Hash[:], keys[j].Hash[:]); c != 0 {
			return c < 0
		}
		return bytes.Compare(keys[i].Auth[:], keys[j].Auth[:]) < 0
	})
	before := c21Snap(svc)
	act()
	after := c21Snap(svc)
	c.Eval(1)
	c.Count("x21_"+c21xSlug(via)+"_calls", 1)
	applied := 0
	var entries []map[string]any
	for _, key := range keys {
		m := cands[key]
		cl := x.classify(&m)
		entries = append(entries, x.logEntry(via, "", &m, cl, nil))
		if cl.OK {
			k.ref.apply(cl.Stage, cl.Voter, cl.Block)
			applied++
			c.Count("x21_redelivered_tallied", 1)
			if x.ticked[key] {
				c.Count("x21_redelivered_tallied_after_surviving_a_tick", 1)
			}
			if x.afterRoundChange {
				c.Count("x21_redelivered_tallied_after_round_change", 1)
			}
		} else {
			c.Count("x21_redelivered_refused", 1)
			c.Count("x21_redelivered_refused_"+c21xSlug(cl.Why), 1)
			if x.afterRoundChange && cl.Why == "round" {
				c.Count("x21_earlier_round_vote_not_counted_after_round_change", 1)
			}
			if x.afterSetChange && cl.Why == "set id" {
				c.Count("x21_earlier_set_vote_not_counted_after_set_change", 1)
			}
		}
	}
	k.log = append(k.log, map[string]any{"via": via, "redelivered": entries})
	if len(cands) > 0 {
		c.Count("x21_"+c21xSlug(via)+"_with_parked_votes", 1)
	}
	if applied == 0 && !before.equalTally(after) {
		c.Violation("malformed-vote-counted", fmt.Sprintf("%s handed back %d parked messages, none of them a well-formed vote of this round, and the tallies changed", via, len(cands)), k.witness(nil))
		return false
	}
	if ok, why := after.matches(k.ref, k.keys); !ok {
		c.Violation("tally-mismatch", fmt.Sprintf("after %s (%d parked messages, %d well-formed now): %s", via, len(cands), applied, why), k.witness(nil))
		return false
	}
	// documented bookkeeping of the tracker: handleBlock(h) forgets every message for h; handleTick forgets the block
	// hash of a message of an earlier round of this set - with every other message parked for that hash (those are
	// handled in the same tick, but one that is still not countable may be gone afterwards: ambiguity, the model
	// drops them and relies on what the tracker really holds)
	oldHashes := map[common.Hash]bool{}
	if only == nil {
		for key, m := range cands {
			if m.Round < k.round && m.SetID == k.setID {
				oldHashes[key.Hash] = true
			}
		}
	}
	for key, m := range x.model {
		switch {
		case only != nil && key.Hash == *only:
			delete(x.model, key)
			delete(x.ticked, key)
		case only == nil && oldHashes[key.Hash]:
			if !(m.Round < k.round && m.SetID == k.setID) {
				c.Count("x21_tick_may_drop_votes_sharing_a_hash_with_an_earlier_round_vote", 1)
			}
			delete(x.model, key)
			delete(x.ticked, key)
		case only == nil:
			if _, wasCand := cands[key]; wasCand {
				mm := m
				if !x.classify(&mm).OK {
					x.ticked[key] = true
				}
			}
		}
	}
	return true
}

// importBlock imports a late block into the node's block state (what the sync service does).
func (x *c21x) importBlock(i int) (*types.Block, bool) {
	k := x.k
	blk := &types.Block{Header: *k.tree.Headers[i], Body: types.Body{}}
	if err := k.node.Block.AddBlock(blk); err != nil {
		k.c.Inconclusive(fmt.Sprintf("import of late block %d: %s", i, err))
		return nil, false
	}
	delete(x.late, i)
	k.log = append(k.log, map[string]any{"via": "BlockState.AddBlock", "block": i})
	k.c.Count("x21_late_blocks_imported", 1)
	return blk, true
}

// importable: the parent is in the node's tree (imported and not pruned by a finalisation).
func (x *c21x) importable(i int) bool {
	k := x.k
	p := k.tree.Parent[i]
	return x.late[i] && p >= 0 && !x.late[p] && k.tree.IsAncestorOrEqual(k.head, p)
}

func (x *c21x) handleBlock(blk *types.Block) bool {
	h := blk.Header.Hash()
	return x.redeliver("tracker.handleBlock", &h, func() { x.k.node.Service.tracker.handleBlock(blk) })
}

func (x *c21x) tick() bool {
	return x.redeliver("tracker.handleTick", nil, func() { x.k.node.Service.tracker.handleTick() })
}

// importAll imports every importable late block (ascending = parents first); each import is followed by
// tracker.handleBlock with probability pct %.
func (x *c21x) importAll(pct int) bool {
	k := x.k
	for i := 1; i < k.tree.Len(); i++ {
		if !x.importable(i) {
			continue
		}
		blk, ok := x.importBlock(i)
		if !ok {
			return false
		}
		if k.c.R.Intn(100) < pct {
			if !x.handleBlock(blk) {
				return false
			}
		} else {
			k.c.Count("x21_imports_left_to_the_tick", 1)
		}
	}
	return true
}

var c21xBadKinds = []string{"bad-sig", "sig-other-round", "non-authority", "wrong-number", "unknown-block", "wrong-set",
	"round-ahead-2", "round-behind", "from-self"}

// stage generates and runs the deliveries of one stage interleaved with block imports and ticks. latePct is the
// share of votes aimed at late blocks; nextPct the share of next-round messages.
func (x *c21x) stage(st Subround, latePct, nextPct, badPct int, finishImports bool) bool {
	k := x.k
	r := k.c.R
	pool := k.tree.Descendants(k.head)
	var known, late []int
	for _, b := range pool {
		if x.late[b] {
			late = append(late, b)
		} else {
			known = append(known, b)
		}
	}
	pick := func() int {
		if len(late) > 0 && r.Intn(100) < latePct {
			return vcommon.Pick(r, late)
		}
		return vcommon.Pick(r, known)
	}
	type event struct {
		d    *c21xDelivery
		tick bool
	}
	var evs []event
	add := func(d c21xDelivery) { evs = append(evs, event{d: &d}) }
	var others []int
	for v := 0; v < k.n; v++ {
		if v != k.self {
			others = append(others, v)
		}
	}
	for _, v := range others {
		if r.Intn(100) < 8 {
			continue
		}
		kind := "good"
		if r.Intn(100) < nextPct {
			kind = "next-round"
		}
		b := pick()
		add(x.make(kind, st, v, b))
		switch y := r.Intn(100); {
		case y < 14: // a second, different vote (equivocation once both are countable)
			add(x.make(kind, st, v, pick()))
		case y < 22: // the same vote again
			add(x.make(kind, st, v, b))
		case y < 28 && st == prevote: // the same block in the other stage: same tracker slot when the block is late
			add(x.make(kind, precommit, v, b))
		}
	}
	if len(others) > 0 {
		for i := 0; i < k.n+1; i++ {
			if r.Intn(100) < badPct {
				kind := vcommon.Pick(r, c21xBadKinds)
				if kind == "round-behind" && k.round < 2 {
					continue
				}
				add(x.make(kind, st, vcommon.Pick(r, others), pick()))
			}
		}
	}
	for i := r.Intn(3); i > 0; i-- {
		evs = append(evs, event{tick: true})
	}
	p := r.Perm(len(evs))
	sh := make([]event, len(evs))
	for i, j := range p {
		sh[i] = evs[j]
	}
	// late blocks are imported (parents first) at non-decreasing random positions of the sequence
	var imports []int
	if finishImports {
		for i := 1; i < k.tree.Len(); i++ {
			if x.late[i] {
				imports = append(imports, i)
			}
		}
	}
	pos := make([]int, len(imports))
	for i := range pos {
		pos[i] = r.Intn(len(sh) + 1)
	}
	sort.Ints(pos)
	ip := 0
	doImports := func(at int) bool {
		for ip < len(imports) && pos[ip] <= at {
			i := imports[ip]
			ip++
			if !x.importable(i) {
				continue
			}
			blk, ok := x.importBlock(i)
			if !ok {
				return false
			}
			if r.Intn(100) < 65 {
				if !x.handleBlock(blk) {
					return false
				}
			} else {
				k.c.Count("x21_imports_left_to_the_tick", 1)
			}
		}
		return true
	}
	for at, e := range sh {
		if !doImports(at) {
			return false
		}
		if e.tick {
			if !x.tick() {
				return false
			}
			continue
		}
		if !x.deliver(*e.d) {
			return false
		}
	}
	if !doImports(len(sh) + 1) {
		return false
	}
	if finishImports {
		// whatever import was not followed by handleBlock is picked up by the next tick
		return x.tick()
	}
	return true
}

// c21xSetup is c21Setup with blocks withheld from the node (late) and an explicit key list.
func c21xSetup(c *vcommon.Case, tree *verifTree, keys []*ed25519.Keypair, n, self int, finalise int, setID uint64, late map[int]bool) *c21Case {
	node, err := verifNewNode(tree, keys[:n], verifNodeOpts{Self: self, SetID: setID, SkipBlock: func(i int) bool { return late[i] }})
	if err != nil {
		c.Inconclusive("setup: " + err.Error())
		return nil
	}
	node.Keys = keys
	head := 0
	if finalise > 0 {
		if err = node.Block.BlockState.SetFinalisedHash(tree.Hashes[finalise], 1, setID); err != nil {
			node.Close()
			c.Inconclusive("setup finalise: " + err.Error())
			return nil
		}
		head = finalise
	}
	if err = node.Service.initiateRound(); err != nil {
		node.Close()
		c.Inconclusive("initiateRound: " + err.Error())
		return nil
	}
	if got := tree.Index(node.Service.head.Hash()); got != head {
		node.Close()
		c.Inconclusive(fmt.Sprintf("service head is block %d, expected %d", got, head))
		return nil
	}
	k := &c21Case{c: c, node: node, tree: tree, keys: keys, n: n, self: self, head: head,
		round: node.Service.state.round, setID: setID}
	k.ref = newC21Tally(tree, n, head)
	return k
}

// c21xPickLate withholds the subtree of one or two blocks that are not on the chain of the head.
func c21xPickLate(r *vcommon.Rand, tree *verifTree, head int, roots int) map[int]bool {
	late := map[int]bool{}
	for ; roots > 0; roots-- {
		var c []int
		for i := 1; i < tree.Len(); i++ {
			if !tree.IsAncestorOrEqual(i, head) && !late[i] && (tree.IsAncestorOrEqual(head, i) || r.Intn(4) == 0) {
				c = append(c, i)
			}
		}
		if len(c) == 0 {
			break
		}
		for _, d := range tree.Descendants(vcommon.Pick(r, c)) {
			late[d] = true
		}
	}
	return late
}

// ---- group "wire": one round, every vote through handleNetworkMessage, late blocks imported during the prevote stage

func c21xRunWire(c *vcommon.Case) {
	r := c.R
	n := r.Range(2, 7)
	tree := verifGenTree(r, r.Range(5, 12), r.Range(20, 55), r.Uint64())
	self := r.Intn(n)
	fin := 0
	if r.Intn(4) == 0 {
		fin = r.Range(1, tree.Len()/3)
	}
	setID := uint64(r.Intn(2)) //nolint:gosec
	late := c21xPickLate(r, tree, fin, r.Range(1, 2))
	k := c21xSetup(c, tree, verifKeypairs(r.Uint64(), n+2), n, self, fin, setID, late)
	if k == nil {
		return
	}
	defer k.node.Close()
	if len(late) > 0 {
		c.Count("x21_cases_with_late_blocks", 1)
	}
	x := newC21x(k, late)
	var known []int
	for _, b := range tree.Descendants(k.head) {
		if !late[b] {
			known = append(known, b)
		}
	}
	own := -1
	if r.Intn(10) < 8 {
		own = vcommon.Pick(r, known)
	}
	badPct := r.Range(0, 40)
	latePct := r.Range(30, 80)
	k.run(
		func() []*c21Delivery { x.stage(prevote, latePct, 8, badPct, true); return nil },
		func() []*c21Delivery {
			if !c.Failed() {
				x.stage(precommit, 0, 8, badPct, false)
			}
			return nil
		},
		own, r.Intn(10) < 8)
	if !c.Failed() {
		c.Count("x21_wire_rounds_completed", 1)
		c.Distinct(fmt.Sprintf("wire|%s|h%d|n%d|late%d|%s", tree.Shape(), k.head, n, len(late), k.outcome))
	}
}

// ---- group "tracker-rounds": votes parked in one round / set are handed back after the round or the set changed

type c21xRoundsPlan struct {
	Name       string
	N          int
	Parents    []int
	LateRoot   int
	Transition string // round | set | none
	CommitTo   int
	// phase 1 messages: {voter, block, kind}
	Phase1 []c21FixedVote
}

func c21xRoundsCorpus() []c21xRoundsPlan {
	// 0-1-2-3-4 chain, fork 5-6 from block 1; blocks 3,4 arrive late
	t := []int{-1, 0, 1, 2, 3, 1, 5}
	return []c21xRoundsPlan{
		{Name: "votes of round 1 for a late block come back in round 2", N: 4, Parents: t, LateRoot: 3, Transition: "round", CommitTo: 1,
			Phase1: []c21FixedVote{{1, 3, "good"}, {2, 3, "good"}, {3, 4, "good"}}},
		{Name: "votes for round 2 received in round 1 are counted in round 2", N: 4, Parents: t, LateRoot: 3, Transition: "round", CommitTo: 1,
			Phase1: []c21FixedVote{{1, 2, "next-round"}, {2, 2, "next-round"}, {3, 6, "next-round"}}},
		{Name: "votes for round 2 for a late block, block imported in round 2", N: 4, Parents: t, LateRoot: 3, Transition: "round", CommitTo: 2,
			Phase1: []c21FixedVote{{1, 3, "next-round"}, {2, 4, "next-round"}, {3, 3, "good"}}},
		{Name: "votes parked in set 0 come back in set 1", N: 4, Parents: t, LateRoot: 3, Transition: "set",
			Phase1: []c21FixedVote{{1, 3, "good"}, {2, 3, "next-round"}, {3, 2, "next-round"}}},
		{Name: "control: late block imported in the same round", N: 4, Parents: t, LateRoot: 3, Transition: "none",
			Phase1: []c21FixedVote{{1, 3, "good"}, {2, 4, "good"}, {3, 3, "good"}}},
		{Name: "late votes from all of seven voters, same round", N: 7, Parents: t, LateRoot: 2, Transition: "none",
			Phase1: []c21FixedVote{{1, 2, "good"}, {2, 3, "good"}, {3, 4, "good"}, {4, 4, "good"}, {5, 3, "good"}, {6, 6, "good"}}},
	}
}

func c21xRunRounds(c *vcommon.Case, plan *c21xRoundsPlan) {
	r := c.R
	var tree *verifTree
	var n, self int
	var late map[int]bool
	transition := ""
	if plan != nil {
		tree, n, self = verifTreeFromParents(plan.Parents, 2121), plan.N, 0
		late = map[int]bool{}
		for _, d := range tree.Descendants(plan.LateRoot) {
			late[d] = true
		}
		transition = plan.Transition
	} else {
		n = r.Range(3, 7)
		tree = verifGenTree(r, r.Range(7, 13), r.Range(15, 40), r.Uint64())
		self = r.Intn(n)
		late = c21xPickLate(r, tree, 0, r.Range(1, 2))
		transition = vcommon.Pick(r, []string{"round", "round", "round", "set", "set", "none"})
	}
	pool := verifKeypairs(2100+r.Uint64()%1000, 16)
	keys := append(append([]*ed25519.Keypair{}, pool[:n]...), pool[14:]...)
	k1 := c21xSetup(c, tree, keys, n, self, 0, 0, late)
	if k1 == nil {
		return
	}
	defer k1.node.Close()
	node := k1.node
	x1 := newC21x(k1, late)
	// ---- phase 1: the first round receives votes, some for late blocks, some for the next round
	if plan != nil {
		for _, v := range plan.Phase1 {
			if !x1.deliver(x1.make(v.Kind, prevote, v.Voter, v.Block)) {
				return
			}
		}
		if !x1.tick() {
			return
		}
	} else {
		if !x1.stage(prevote, r.Range(30, 70), r.Range(25, 60), r.Range(0, 30), false) {
			return
		}
		if r.Bool() && !x1.stage(precommit, r.Range(30, 70), r.Range(25, 60), 0, false) {
			return
		}
	}
	parkedBefore := len(x1.model)
	// ---- transition
	k2 := &c21Case{c: c, node: node, tree: tree, keys: keys, n: n, self: self, head: 0, round: k1.round, setID: 0,
		roundIx: 1, history: []map[string]any{{"round": k1.round, "set_id": 0, "deliveries": k1.log, "prevotes": k1.ref.describe(0),
			"precommits": k1.ref.describe(1), "ended_by": transition}}}
	x2 := x1.next(k2)
	switch transition {
	case "round":
		// the network finalises a block of the node's tree: commit of all voters through the wire, then the next round
		var cands []int
		for _, b := range tree.Descendants(0) {
			if !late[b] && tree.Number[b] <= 2 && b != 0 {
				cands = append(cands, b)
			}
		}
		if len(cands) == 0 {
			c.Count("x21_rounds_no_block_to_finalise", 1)
			return
		}
		to := vcommon.Pick(r, cands)
		if plan != nil {
			to = plan.CommitTo
		}
		target := tree.Vote(to)
		var pcs []SignedVote
		for v := 0; v < n; v++ {
			pcs = append(pcs, verifSignVote(keys[v], precommit, target, k1.round, 0))
		}
		before := node.Block.NumCalls()
		_, err, herr := verifWire(node.Service, x1.from, verifCommit(k1.round, 0, target, pcs))
		calls := node.Block.Calls[before:]
		if herr != nil || err != nil || len(calls) != 1 || calls[0].Err != nil {
			c.Inconclusive(fmt.Sprintf("closing commit for block %d not applied: err=%v harness=%v calls=%+v", to, err, herr, calls))
			return
		}
		if err = node.Service.initiateRound(); err != nil {
			c.Inconclusive("initiateRound after the commit: " + err.Error())
			return
		}
		k2.head, k2.round = to, k1.round+1
		x2.afterRoundChange = true
		c.Count("x21_round_changes_with_parked_votes", 1)
	case "set":
		// authority set change: other keys, the node's own key stays
		var cur []*ed25519.Keypair
		for i := 0; i < n; i++ {
			if i == self || r.Intn(100) < 50 {
				cur = append(cur, pool[i])
			}
		}
		newSelf := 0
		for i, kp := range cur {
			if kp == pool[self] {
				newSelf = i
			}
		}
		var formerOnly []*ed25519.Keypair
		for i := 0; i < n; i++ {
			in := false
			for _, kp := range cur {
				if kp == pool[i] {
					in = true
				}
			}
			if !in {
				formerOnly = append(formerOnly, pool[i])
			}
		}
		for i := r.Range(1, 3); i > 0; i-- {
			cur = append(cur, pool[7+i])
		}
		if err := node.Grandpa.GrandpaState.SetNextChange(verifVoters(cur), 0); err != nil {
			c.Inconclusive("SetNextChange: " + err.Error())
			return
		}
		if _, err := node.Grandpa.GrandpaState.IncrementSetID(); err != nil {
			c.Inconclusive("IncrementSetID: " + err.Error())
			return
		}
		if err := node.Service.initiateRound(); err != nil {
			c.Inconclusive("initiateRound after the set change: " + err.Error())
			return
		}
		k2.keys = append(append(append([]*ed25519.Keypair{}, cur...), formerOnly...), pool[14:]...)
		k2.n, k2.self, k2.setID, k2.round, k2.former = len(cur), newSelf, 1, 1, len(formerOnly)
		node.Keys = k2.keys
		x2.afterSetChange = true
		c.Count("x21_set_changes_with_parked_votes", 1)
	default:
		k2.ref, k2.log, k2.history, k2.roundIx = k1.ref, k1.log, nil, 0
		c.Count("x21_rounds_control_without_transition", 1)
	}
	svc := node.Service
	if svc.state.round != k2.round || svc.state.setID != k2.setID || tree.Index(svc.head.Hash()) != k2.head || len(svc.state.voters) != k2.n {
		c.Inconclusive(fmt.Sprintf("after the %s transition the service is in round %d set %d head %d with %d voters, expected %d/%d/%d/%d",
			transition, svc.state.round, svc.state.setID, tree.Index(svc.head.Hash()), len(svc.state.voters), k2.round, k2.setID, k2.head, k2.n))
		return
	}
	if transition != "none" {
		k2.ref = newC21Tally(tree, k2.n, k2.head)
	}
	if parkedBefore > 0 {
		c.Count("x21_transitions_with_parked_votes", 1)
	}
	// ---- phase 2: the late blocks arrive, the tracker hands the parked messages back
	if r.Intn(3) == 0 {
		if !x2.tick() {
			return
		}
	}
	pct := 65
	if plan != nil {
		pct = 100
	}
	if !x2.importAll(pct) || !x2.tick() {
		return
	}
	var known []int
	for _, b := range tree.Descendants(k2.head) {
		if !late[b] {
			known = append(known, b)
		}
	}
	own := -1
	if r.Intn(10) < 7 && transition != "none" {
		own = vcommon.Pick(r, known)
	}
	k2.run(
		func() []*c21Delivery { x2.stage(prevote, 0, 0, 10, false); return nil },
		func() []*c21Delivery {
			if !c.Failed() {
				x2.stage(precommit, 0, 0, 10, false)
			}
			return nil
		},
		own, r.Intn(10) < 8)
	if !c.Failed() {
		c.Count("x21_rounds_scenarios_completed", 1)
		c.Distinct(fmt.Sprintf("rounds|%s|n%d|%s|late%d|parked%d|%s", tree.Shape(), n, transition, len(late), parkedBefore, k2.outcome))
		c.Sample(map[string]any{"tree": tree.Shape(), "n": n, "transition": transition, "parked_before_transition": parkedBefore,
			"prevotes_after": k2.ref.describe(0), "outcome": k2.outcome})
	}
}

func TestVerifC21Ext(t *testing.T) {
	r := vcommon.Start(t, "C21")
	defer r.Finish()
	pc := c21pCorpus()
	rc := c21xRoundsCorpus()
	for name, need := range map[string]int{
		// the node's own prevote (handleIsPrimary + determinePreVote)
		"pv_determined": 400, "pv_equals_expected": 350, "pv_rounds_completed": 350,
		"pv_capped_by_change_on_own_chain": 80, "pv_capped_on_the_primarys_fork": 5, "pv_change_on_competing_chain_only": 20,
		"pv_change_caps_the_best_chain_but_not_the_followed_primary_vote": 2, "pv_primary_proposal_accepted": 100, "pv_primary_proposal_refused": 40, "pv_primary_vote_on_another_fork_followed": 50,
		"pv_nothing_of_the_primary_accepted_best_block_used": 30, "pv_node_is_primary": 80, "pv_own_proposal_gossiped_and_verified": 80,
		// wire path and tracker re-delivery
		"x21_wire_deliveries": 5000, "x21_wire_tallied": 3000, "x21_wire_refused": 1500,
		"x21_parked_for_missing_block": 400, "x21_parked_for_next_round": 400,
		"x21_tracker.handleBlock_with_parked_votes": 200, "x21_tracker.handleTick_with_parked_votes": 600,
		"x21_redelivered_tallied": 500, "x21_redelivered_refused": 1000, "x21_redelivered_tallied_after_surviving_a_tick": 150,
		"x21_round_changes_with_parked_votes": 60, "x21_set_changes_with_parked_votes": 50,
		"x21_redelivered_tallied_after_round_change": 200, "x21_earlier_round_vote_not_counted_after_round_change": 80,
		"x21_earlier_set_vote_not_counted_after_set_change": 200, "x21_wire_rounds_completed": 250, "x21_rounds_scenarios_completed": 200,
	} {
		r.Floor(name, need)
	}
	r.Fixed("prevote-corpus", len(pc), func(c *vcommon.Case) { c21pRun(c, &pc[c.Idx]) })
	r.Cases("prevote", r.Scale(500), func(c *vcommon.Case) { c21pRun(c, nil) })
	r.Cases("wire", r.Scale(350), c21xRunWire)
	r.Fixed("tracker-rounds-corpus", len(rc), func(c *vcommon.Case) { c21xRunRounds(c, &rc[c.Idx]) })
	r.Cases("tracker-rounds", r.Scale(350), func(c *vcommon.Case) { c21xRunRounds(c, nil) })
}
