//go:build verif

package grandpa

// C21 — the voter's vote choices and finalisation follow GRANDPA-GHOST.
//
// Monitor: a real Service (round initiated through initiateRound) on a real BlockState holding a generated
// forked tree receives generated vote messages through validateVoteMessage. After EVERY delivery the
// service's tallies (prevotes / precommits / equivocation maps) are compared with the reference Tally kept
// on the explicit tree: a malformed vote must be refused and change nothing, a well-formed vote must be
// tallied exactly as the reference does (first vote counts, a second different vote makes an equivocator).
// Then the harness does what the round engine does (finalisation.go): it asks for the pre-voted block,
// precommits only if that block has > 2/3, calls determinePreCommit, delivers precommits and calls
// attemptToFinalize; the precommit target and the finalised block (observed at SetFinalisedHash) are
// checked against the reference prevote-GHOST / precommit weights.

import (
	"errors"
	"fmt"
	"sort"
	"strings"
	"testing"

	"github.com/ChainSafe/gossamer/dot/state"
	"github.com/ChainSafe/gossamer/lib/common"
	"github.com/ChainSafe/gossamer/lib/crypto/ed25519"
	"github.com/ChainSafe/gossamer/zz_verif/vcommon"
)

const (
	c21KnownGhost  = "C21-K1" // GHOST search stops at directly-voted blocks / pairwise common ancestors
	c21KnownNumber = "C21-K2" // validateVote does not compare the vote's number with the header's
)

// c21Tally is the reference tally of one round (paper definitions over the explicit tree).
type c21Tally struct {
	tree  *verifTree
	n     int
	head  int
	votes [2]map[int]int  // stage -> voter -> block (first valid vote)
	eqv   [2]map[int]bool // stage -> equivocators
}

func newC21Tally(tree *verifTree, n, head int) *c21Tally {
	return &c21Tally{tree: tree, n: n, head: head,
		votes: [2]map[int]int{{}, {}}, eqv: [2]map[int]bool{{}, {}}}
}

func (m *c21Tally) apply(stage, voter, block int) {
	if m.eqv[stage][voter] {
		return
	}
	if b, ok := m.votes[stage][voter]; ok {
		if b != block {
			delete(m.votes[stage], voter)
			m.eqv[stage][voter] = true
		}
		return
	}
	m.votes[stage][voter] = block
}

// total is the cumulative weight of block b: voters whose vote is b or a descendant, plus equivocators.
func (m *c21Tally) total(stage, b int) int {
	t := len(m.eqv[stage])
	for _, vb := range m.votes[stage] {
		if m.tree.IsAncestorOrEqual(b, vb) {
			t++
		}
	}
	return t
}

func (m *c21Tally) supermajority(stage, b int) bool { return 3*m.total(stage, b) > 2*m.n }

// qualifying returns the descendants-or-self of head with > 2n/3 cumulative weight.
func (m *c21Tally) qualifying(stage int) []int {
	var out []int
	for b := 0; b < m.tree.Len(); b++ {
		if m.tree.IsAncestorOrEqual(m.head, b) && m.supermajority(stage, b) {
			out = append(out, b)
		}
	}
	return out
}

// maximal returns the elements of S without a descendant in S.
func (m *c21Tally) maximal(s []int) []int {
	var out []int
	for _, b := range s {
		top := true
		for _, o := range s {
			if o != b && m.tree.IsAncestorOrEqual(b, o) {
				top = false
				break
			}
		}
		if top {
			out = append(out, b)
		}
	}
	return out
}

// junction reports whether b is directly voted or the lowest common ancestor of two directly voted blocks.
func (m *c21Tally) junction(stage, b int) bool {
	var voted []int
	for _, vb := range m.votes[stage] {
		voted = append(voted, vb)
	}
	for i, x := range voted {
		if x == b {
			return true
		}
		for _, y := range voted[i+1:] {
			if m.tree.LCA(x, y) == b {
				return true
			}
		}
	}
	return false
}

func (m *c21Tally) describe(stage int) map[string]any {
	vs := map[string]int{}
	for v, b := range m.votes[stage] {
		vs[fmt.Sprint(v)] = b
	}
	var eq []int
	for v := range m.eqv[stage] {
		eq = append(eq, v)
	}
	sort.Ints(eq)
	return map[string]any{"votes_voter_to_block": vs, "equivocators": eq}
}

// c21Snapshot is the service's tally state: voter key -> vote, and the equivocator sets.
type c21Snapshot struct {
	votes [2]map[ed25519.PublicKeyBytes]Vote
	eqv   [2]map[ed25519.PublicKeyBytes]int
}

func c21Snap(s *Service) c21Snapshot {
	var sn c21Snapshot
	for st := 0; st < 2; st++ {
		sn.votes[st] = map[ed25519.PublicKeyBytes]Vote{}
		sn.eqv[st] = map[ed25519.PublicKeyBytes]int{}
	}
	s.prevotes.Range(func(k, v any) bool {
		sn.votes[0][k.(ed25519.PublicKeyBytes)] = v.(*SignedVote).Vote
		return true
	})
	s.precommits.Range(func(k, v any) bool {
		sn.votes[1][k.(ed25519.PublicKeyBytes)] = v.(*SignedVote).Vote
		return true
	})
	for k, v := range s.pvEquivocations {
		sn.eqv[0][k] = len(v)
	}
	for k, v := range s.pcEquivocations {
		sn.eqv[1][k] = len(v)
	}
	return sn
}

func (a c21Snapshot) equalTally(b c21Snapshot) bool {
	for st := 0; st < 2; st++ {
		if len(a.votes[st]) != len(b.votes[st]) || len(a.eqv[st]) != len(b.eqv[st]) {
			return false
		}
		for k, v := range a.votes[st] {
			if w, ok := b.votes[st][k]; !ok || w != v {
				return false
			}
		}
		for k := range a.eqv[st] {
			if _, ok := b.eqv[st][k]; !ok {
				return false
			}
		}
	}
	return true
}

// matches compares the service's tallies with the reference tally.
func (a c21Snapshot) matches(m *c21Tally, keys []*ed25519.Keypair) (bool, string) {
	for st := 0; st < 2; st++ {
		if len(a.votes[st]) != len(m.votes[st]) {
			return false, fmt.Sprintf("stage %d: service holds %d votes, reference %d", st, len(a.votes[st]), len(m.votes[st]))
		}
		if len(a.eqv[st]) != len(m.eqv[st]) {
			return false, fmt.Sprintf("stage %d: service holds %d equivocators, reference %d", st, len(a.eqv[st]), len(m.eqv[st]))
		}
		for v, b := range m.votes[st] {
			got, ok := a.votes[st][verifPub(keys[v])]
			if !ok {
				return false, fmt.Sprintf("stage %d: vote of voter %d missing", st, v)
			}
			if got != m.tree.Vote(b) {
				return false, fmt.Sprintf("stage %d: voter %d tallied for %s #%d, reference block %d #%d", st, v, got.Hash.Short(), got.Number, b, m.tree.Number[b])
			}
		}
		for v := range m.eqv[st] {
			if _, ok := a.eqv[st][verifPub(keys[v])]; !ok {
				return false, fmt.Sprintf("stage %d: voter %d not recorded as equivocator", st, v)
			}
		}
	}
	return true, ""
}

// c21Delivery is one vote message handed to validateVoteMessage.
type c21Delivery struct {
	Kind  string
	Stage int
	Voter int // key index (>= n: outsider)
	Block int // tree index or -1
	Msg   *VoteMessage
	Good  bool // the reference tallies it
}

type c21Case struct {
	c     *vcommon.Case
	node  *verifNode
	tree  *verifTree
	keys  []*ed25519.Keypair
	n     int
	self  int
	head  int
	round uint64
	setID uint64
	ref   *c21Tally
	log   []map[string]any
	cap   *c21Cap
	// former: number of keys right after the n current voters that were authorities of the previous set only
	former int
	// multi-round scenarios (zz_verif_c21_rounds_test.go): this case object is ONE round of a Service that has
	// already lived through the rounds listed in history; ref holds this round's votes only.
	roundIx int
	history []map[string]any
	// behavioural mode: the service's vote maps are not compared with the reference after well-formed deliveries,
	// so that a stale tally is judged by what the voter DOES with it (weights, precommit, finalisation)
	lenient bool
	// what run() observed
	outcome  string // stopped | no-ghost | no-prevote-supermajority | not-finalised | finalise-error | finalised
	ghostIdx int    // the service's pre-voted block (valid once a precommit was determined, else -1)
	pcIdx    int    // the service's precommit target (else -1)
	finIdx   int    // block finalised by attemptToFinalize (else -1)
}

type c21Cap struct {
	Announce int  // block announcing the change
	Eff      uint // effective block number
}

func (k *c21Case) witness(extra map[string]any) map[string]any {
	w := map[string]any{"n": k.n, "self": k.self, "tree_parents": k.tree.Shape(), "head": k.head, "round": k.round,
		"set_id": k.setID, "deliveries": k.log, "prevotes": k.ref.describe(0), "precommits": k.ref.describe(1)}
	if k.cap != nil {
		w["pending_change"] = map[string]any{"announced_at_block": k.cap.Announce, "effective_number": k.cap.Eff}
	}
	if k.roundIx > 0 || len(k.history) > 0 || k.lenient {
		w["round_index_on_this_service"] = k.roundIx
		w["earlier_rounds_on_this_service"] = k.history
		w["vote_maps_compared_after_each_vote"] = !k.lenient
	}
	for a, b := range extra {
		w[a] = b
	}
	return w
}

var c21BadKinds = []string{"bad-sig", "sig-other-round", "non-authority", "unknown-block", "wrong-number",
	"not-descendant-of-head", "abandoned-fork-block", "former-authority", "wrong-set", "round-ahead-2", "round-ahead-1", "round-behind", "from-self"}

// make builds a delivery of the given kind; returns nil when the kind is not applicable.
func (k *c21Case) make(kind string, stage, voter, block int) *c21Delivery {
	r := k.c.R
	st := Subround(stage) //nolint:gosec
	d := &c21Delivery{Kind: kind, Stage: stage, Voter: voter, Block: block}
	vote := k.tree.Vote(block)
	switch kind {
	case "good":
		d.Good = true
		d.Msg = verifVoteMessage(k.keys[voter], st, vote, k.round, k.setID)
	case "bad-sig":
		d.Msg = verifVoteMessage(k.keys[voter], st, vote, k.round, k.setID)
		copy(d.Msg.Message.Signature[:], r.Bytes(64))
	case "sig-other-round":
		d.Msg = verifVoteMessage(k.keys[voter], st, vote, k.round+1, k.setID)
		d.Msg.Round = k.round
	case "former-authority":
		// an authority of the previous set only, signing correctly for the current round and set id
		if k.former == 0 {
			return nil
		}
		d.Voter = k.n + r.Intn(k.former)
		d.Msg = verifVoteMessage(k.keys[d.Voter], st, vote, k.round, k.setID)
	case "non-authority":
		d.Voter = k.n + r.Intn(len(k.keys)-k.n)
		d.Msg = verifVoteMessage(k.keys[d.Voter], st, vote, k.round, k.setID)
	case "unknown-block":
		var h common.Hash
		copy(h[:], r.Bytes(32))
		d.Block = -1
		d.Msg = verifVoteMessage(k.keys[voter], st, Vote{Hash: h, Number: vote.Number}, k.round, k.setID)
	case "wrong-number":
		delta := uint32(r.Range(1, 4)) //nolint:gosec
		if r.Bool() && vote.Number >= delta {
			vote.Number -= delta
		} else {
			vote.Number += delta
		}
		d.Msg = verifVoteMessage(k.keys[voter], st, vote, k.round, k.setID)
	case "not-descendant-of-head":
		if k.head == 0 {
			return nil
		}
		d.Block = k.tree.AncestorAt(k.head, uint(r.Intn(int(k.tree.Number[k.head])))) //nolint:gosec
		d.Msg = verifVoteMessage(k.keys[voter], st, k.tree.Vote(d.Block), k.round, k.setID)
	case "abandoned-fork-block":
		// a block of a fork that was pruned when the head was finalised
		var c []int
		for i := 0; i < k.tree.Len(); i++ {
			if !k.tree.IsAncestorOrEqual(k.head, i) && !k.tree.IsAncestorOrEqual(i, k.head) {
				c = append(c, i)
			}
		}
		if len(c) == 0 {
			return nil
		}
		d.Block = vcommon.Pick(r, c)
		d.Msg = verifVoteMessage(k.keys[voter], st, k.tree.Vote(d.Block), k.round, k.setID)
	case "wrong-set":
		d.Msg = verifVoteMessage(k.keys[voter], st, vote, k.round, k.setID+1)
	case "round-ahead-2":
		d.Msg = verifVoteMessage(k.keys[voter], st, vote, k.round+2, k.setID)
	case "round-ahead-1":
		d.Msg = verifVoteMessage(k.keys[voter], st, vote, k.round+1, k.setID)
	case "round-behind":
		d.Msg = verifVoteMessage(k.keys[voter], st, vote, k.round-1, k.setID)
	case "from-self":
		d.Voter = k.self
		d.Msg = verifVoteMessage(k.keys[k.self], st, vote, k.round, k.setID)
	default:
		panic("c21 kind " + kind)
	}
	return d
}

// deliver hands the message to the service and checks the tallies. Returns false when the case must stop.
func (k *c21Case) deliver(d *c21Delivery) bool {
	c := k.c
	before := c21Snap(k.node.Service)
	_, err := k.node.Service.validateVoteMessage("", d.Msg)
	after := c21Snap(k.node.Service)
	k.log = append(k.log, map[string]any{"kind": d.Kind, "stage": d.Stage, "voter": d.Voter, "block": d.Block,
		"number": d.Msg.Message.Number, "err": fmt.Sprint(err)})
	c.Eval(1)
	c.Count("deliveries", 1)
	c.Count("delivered_"+d.Kind, 1)
	if d.Good {
		wasEq := k.ref.eqv[d.Stage][d.Voter]
		_, had := k.ref.votes[d.Stage][d.Voter]
		k.ref.apply(d.Stage, d.Voter, d.Block)
		if !wasEq && had && k.ref.eqv[d.Stage][d.Voter] {
			c.Count("equivocations_created", 1)
		}
		if wasEq {
			c.Count("votes_of_known_equivocator", 1)
		}
		if k.lenient {
			return true
		}
		if ok, why := after.matches(k.ref, k.keys); !ok {
			c.Violation("tally-mismatch", "after a well-formed vote: "+why, k.witness(nil))
			return false
		}
		return true
	}
	// malformed: must be refused and must not change any tally
	if d.Kind == "wrong-number" && err == nil && c.Run.IsOpen(c21KnownNumber) && d.Voter < k.n && d.Block >= 0 {
		// known finding C21-K2 (only when listed open): the vote was tallied as a vote for that hash carrying
		// the wrong number. Predicate: exactly this voter's entry changed, to (hash of the block, the wrong number),
		// or the voter became an equivocator because it had voted for another hash before.
		key := verifPub(k.keys[d.Voter])
		got, has := after.votes[d.Stage][key]
		_, eq := after.eqv[d.Stage][key]
		if (has && got.Hash == d.Msg.Message.BlockHash && got.Number == d.Msg.Message.Number) || eq {
			c.Known(c21KnownNumber, "vote with a wrong block number was tallied", k.witness(nil))
			return false // the tallies now carry a bogus number: stop this round
		}
	}
	if !before.equalTally(after) {
		c.Violation("malformed-vote-counted", fmt.Sprintf("%s vote changed the tallies (err=%v)", d.Kind, err), k.witness(nil))
		return false
	}
	if err == nil {
		c.Violation("malformed-vote-accepted", fmt.Sprintf("%s vote returned no error", d.Kind), k.witness(nil))
		return false
	}
	c.Count("malformed_refused", 1)
	return true
}

// storeOwn stores the service's own vote the way votingRoundHandler.Run does.
func (k *c21Case) storeOwn(stage int, v *Vote) bool {
	b := k.tree.Index(v.Hash)
	if b < 0 {
		return false
	}
	sv, _, err := k.node.Service.createSignedVoteAndVoteMessage(v, Subround(stage)) //nolint:gosec
	if err != nil {
		k.c.Inconclusive("createSignedVoteAndVoteMessage: " + err.Error())
		return false
	}
	if stage == 0 {
		k.node.Service.prevotes.Store(k.node.Service.publicKeyBytes(), sv)
	} else {
		k.node.Service.precommits.Store(k.node.Service.publicKeyBytes(), sv)
	}
	k.ref.apply(stage, k.self, b)
	k.log = append(k.log, map[string]any{"kind": "own", "stage": stage, "voter": k.self, "block": b})
	return true
}

// genDeliveries produces the vote messages of one stage. focus biases votes to the subtree/chain of a block.
func (k *c21Case) genDeliveries(stage int, focus int, badPct int) []*c21Delivery {
	r := k.c.R
	pool := k.tree.Descendants(k.head)
	pick := func() int {
		if focus >= 0 && r.Intn(100) < 70 {
			// a block on the chain through focus: ancestor (above head) or descendant
			var c []int
			for _, b := range pool {
				if k.tree.IsAncestorOrEqual(b, focus) || k.tree.IsAncestorOrEqual(focus, b) {
					c = append(c, b)
				}
			}
			return vcommon.Pick(r, c)
		}
		return vcommon.Pick(r, pool)
	}
	var out []*c21Delivery
	others := []int{}
	for v := 0; v < k.n; v++ {
		if v != k.self {
			others = append(others, v)
		}
	}
	anyVoter := func() int {
		if len(others) == 0 {
			return k.self
		}
		return vcommon.Pick(r, others)
	}
	for _, v := range others {
		if r.Intn(100) < 8 {
			continue // silent voter
		}
		b := pick()
		out = append(out, k.make("good", stage, v, b))
		switch x := r.Intn(100); {
		case x < 12: // equivocation
			out = append(out, k.make("good", stage, v, pick()))
			if r.Intn(3) == 0 {
				out = append(out, k.make("good", stage, v, pick()))
			}
		case x < 22: // repeat
			out = append(out, k.make("good", stage, v, b))
		}
	}
	nb := 0
	for i := 0; i < 2*k.n+2; i++ {
		if r.Intn(100) < badPct {
			if d := k.make(vcommon.Pick(r, c21BadKinds), stage, anyVoter(), pick()); d != nil && (d.Kind != "round-behind" || k.round > 0) {
				out = append(out, d)
				nb++
			}
		}
	}
	p := r.Perm(len(out))
	sh := make([]*c21Delivery, len(out))
	for i, j := range p {
		sh[i] = out[j]
	}
	return sh
}

func c21Hashes(tree *verifTree, bs []int) string {
	s := make([]string, len(bs))
	for i, b := range bs {
		s[i] = fmt.Sprint(b)
	}
	return strings.Join(s, ",")
}

// run executes one round scenario.
func (k *c21Case) run(prevotes, precommitsGen func() []*c21Delivery, ownPrevote int, ownPrecommit bool) {
	c := k.c
	svc := k.node.Service
	thr := svc.state.threshold()
	k.outcome, k.ghostIdx, k.pcIdx, k.finIdx = "stopped", -1, -1, -1

	if ownPrevote >= 0 {
		v := k.tree.Vote(ownPrevote)
		if !k.storeOwn(0, &v) {
			return
		}
	}
	for _, d := range prevotes() {
		if !k.deliver(d) {
			return
		}
	}

	// --- precommit choice (what finalisationEngine.defineRoundVotes + votingRoundHandler do)
	S := k.ref.qualifying(0)
	maxS := k.ref.maximal(S)
	fEq := (k.n - 1) / 3
	ambiguous := len(k.ref.eqv[0]) > fEq
	if ambiguous {
		c.Count("prevote_rounds_with_more_than_f_equivocators", 1)
	}
	if len(k.ref.eqv[0]) > 0 {
		c.Count("prevote_rounds_with_equivocators", 1)
	}
	pvb, err := svc.getPreVotedBlock()
	c.Eval(1)
	if err != nil {
		if ambiguous {
			// more than f equivocators (e.g. only equivocators and no countable vote): outside the equality oracle
			c.Count("ambiguous_ghost_error", 1)
		} else if len(S) > 0 {
			c.Violation("ghost-error", "getPreVotedBlock failed although a block has > 2/3 prevotes: "+err.Error(),
				k.witness(map[string]any{"qualifying": S}))
		} else {
			c.Count("no_ghost_no_supermajority", 1)
		}
		if !c.Failed() {
			k.outcome = "no-ghost"
		}
		return
	}
	total, err := svc.getTotalVotesForBlock(pvb.Hash, prevote)
	if err != nil {
		c.Violation("ghost-error", "getTotalVotesForBlock: "+err.Error(), k.witness(nil))
		return
	}
	pvbIdx := k.tree.Index(pvb.Hash)
	if pvbIdx >= 0 && int(total) != k.ref.total(0, pvbIdx) { //nolint:gosec
		c.Violation("weight-mismatch", fmt.Sprintf("getTotalVotesForBlock(block %d)=%d, reference %d", pvbIdx, total, k.ref.total(0, pvbIdx)), k.witness(nil))
		return
	}
	wouldPrecommit := total > thr
	if len(S) == 0 {
		c.Count("rounds_without_prevote_supermajority", 1)
		if wouldPrecommit {
			c.Violation("precommit-without-supermajority", fmt.Sprintf("round engine would precommit to block %d with weight %d of %d", pvbIdx, total, k.n),
				k.witness(nil))
			return
		}
		// the lowered-threshold fallback of getGrandpaGHOST is never used for a precommit by the engine: count only
		if pvbIdx >= 0 && !k.ref.supermajority(0, pvbIdx) {
			c.Count("fallback_lowered_threshold_answers", 1)
		}
		k.outcome = "no-prevote-supermajority"
		return
	}
	c.Count("rounds_with_prevote_supermajority", 1)
	if !wouldPrecommit {
		c.Violation("no-precommit-despite-supermajority", fmt.Sprintf("pre-voted block %d has weight %d <= threshold, reference GHOST %s", pvbIdx, total, c21Hashes(k.tree, maxS)),
			k.witness(map[string]any{"qualifying": S}))
		return
	}
	pc, err := svc.determinePreCommit()
	c.Eval(1)
	if err != nil {
		c.Violation("precommit-error", "determinePreCommit: "+err.Error(), k.witness(map[string]any{"qualifying": S}))
		return
	}
	// the GHOST the service computed (determinePreCommit recomputes the same function on the same state;
	// its preVotedBlock[round] entry aliases the capped vote and is therefore not used here)
	ghostVote := &pvb
	ghost := k.tree.Index(ghostVote.Hash)
	isMax := false
	for _, m := range maxS {
		if m == ghost {
			isMax = true
		}
	}
	shape := fmt.Sprintf("%s|h%d|n%d|", k.tree.Shape(), k.head, k.n)
	{
		var vs []string
		for v, b := range k.ref.votes[0] {
			vs = append(vs, fmt.Sprintf("%d:%d", v, b))
		}
		sort.Strings(vs)
		shape += strings.Join(vs, ",") + fmt.Sprintf("|e%d", len(k.ref.eqv[0]))
	}
	c.Distinct(shape)
	w := func() map[string]any {
		return k.witness(map[string]any{"qualifying_blocks": S, "reference_ghost": maxS, "service_ghost_block": ghost,
			"service_ghost_number": ghostVote.Number, "service_precommit_block": k.tree.Index(pc.Hash), "service_precommit_number": pc.Number})
	}
	switch {
	case ghost >= 0 && isMax && ghostVote.Number == uint32(k.tree.Number[ghost]): //nolint:gosec
		c.Count("ghost_equal_reference", 1)
		if len(maxS) == 1 && len(S) > 1 {
			c.Count("ghost_above_head", 1)
		}
		if !k.ref.junction(0, ghost) {
			c.Count("ghost_not_a_vote_junction", 1)
		}
		voted := false
		for _, vb := range k.ref.votes[0] {
			if vb == ghost {
				voted = true
			}
		}
		if !voted {
			c.Count("ghost_not_directly_voted", 1)
		}
	case ambiguous && ghost >= 0 && ghostVote.Number == uint32(k.tree.Number[ghost]) && k.ref.supermajority(0, ghost) && //nolint:gosec
		k.tree.IsAncestorOrEqual(k.head, ghost):
		// more than f equivocators: the equivocators' weight alone can give unvoted blocks a supermajority and the
		// GHOST is not unique; the answer is only required to be a qualifying block (excluded from the equality oracle)
		c.Count("ghost_ambiguous_qualifying_not_maximal", 1)
	case ghost >= 0 && ghostVote.Number == uint32(k.tree.Number[ghost]) && k.ref.supermajority(0, ghost) && //nolint:gosec
		k.tree.IsAncestorOrEqual(k.head, ghost) && k.ref.junction(0, ghost) && c21BelowSome(k.tree, ghost, maxS):
		// the answer has a supermajority and is a directly voted block or a common ancestor of two voted blocks,
		// but a higher block on the same chain also has a supermajority
		c.Known(c21KnownGhost, fmt.Sprintf("GHOST is block %s, service answered its ancestor %d", c21Hashes(k.tree, maxS), ghost), w())
		if !c.Run.IsOpen(c21KnownGhost) {
			return
		}
	default:
		c.Violation("wrong-ghost", fmt.Sprintf("pre-voted block %d #%d, reference GHOST %s", ghost, ghostVote.Number, c21Hashes(k.tree, maxS)), w())
		return
	}
	// cap at a pending authority change: the ancestor of the GHOST at the effective number
	capOf := func(g int) int {
		if k.cap != nil && k.tree.IsAncestorOrEqual(k.cap.Announce, g) && k.cap.Eff <= k.tree.Number[g] {
			return k.tree.AncestorAt(g, k.cap.Eff)
		}
		return g
	}
	want := capOf(ghost)
	if want != ghost {
		c.Count("precommit_capped_below_ghost", 1)
	}
	if k.cap != nil && k.tree.IsAncestorOrEqual(k.cap.Announce, ghost) && k.cap.Eff <= k.tree.Number[ghost] {
		c.Count("precommit_cap_applies", 1)
	}
	if *pc != k.tree.Vote(want) && ambiguous {
		// more than f equivocators: several candidate blocks, the service breaks ties by map order, so the
		// second evaluation inside determinePreCommit may have picked another qualifying block
		for _, g := range S {
			if *pc == k.tree.Vote(capOf(g)) {
				c.Count("precommit_ambiguous_tie", 1)
				want = capOf(g)
			}
		}
	}
	if *pc != k.tree.Vote(want) {
		c.Violation("wrong-precommit", fmt.Sprintf("precommit for block %d #%d, expected block %d #%d (GHOST %d)",
			k.tree.Index(pc.Hash), pc.Number, want, k.tree.Number[want], ghost), w())
		return
	}
	c.Count("precommit_ok", 1)
	k.ghostIdx, k.pcIdx = ghost, want
	c.Sample(map[string]any{"n": k.n, "tree": k.tree.Shape(), "head": k.head, "prevotes": k.ref.describe(0),
		"ghost": ghost, "precommit": want})

	// --- precommits and finalisation
	if ownPrecommit {
		if !k.storeOwn(1, pc) {
			return
		}
	}
	for _, d := range precommitsGen() {
		if !k.deliver(d) {
			return
		}
	}
	before := k.node.Block.NumCalls()
	fin, err := svc.attemptToFinalize()
	c.Eval(1)
	calls := k.node.Block.Calls[before:]
	Spc := k.ref.qualifying(1)
	if len(Spc) > 0 {
		c.Count("rounds_with_precommit_supermajority", 1)
	}
	if err != nil {
		c.Count("attempt_to_finalize_errors", 1)
		if len(calls) > 0 {
			c.Violation("finalise-error-after-finalising", err.Error(), k.witness(nil))
		} else {
			k.outcome = "finalise-error"
		}
		return
	}
	if !fin {
		if len(calls) > 0 {
			c.Violation("finalised-but-reported-not", "SetFinalisedHash called but attemptToFinalize returned false", k.witness(nil))
		} else {
			k.outcome = "not-finalised"
		}
		if len(Spc) > 0 {
			c.Count("not_finalised_although_possible", 1)
		} else {
			c.Count("not_finalised_no_supermajority", 1)
		}
		return
	}
	if len(calls) != 1 || calls[0].Err != nil {
		c.Violation("finalise-calls", fmt.Sprintf("attemptToFinalize returned true with SetFinalisedHash calls %+v", calls), k.witness(nil))
		return
	}
	F := k.tree.Index(calls[0].Hash)
	fw := k.witness(map[string]any{"finalised_block": F, "reference_ghost": maxS, "precommit_qualifying": Spc})
	okAncestor := false
	for _, m := range maxS {
		if k.tree.IsAncestorOrEqual(F, m) {
			okAncestor = true
		}
	}
	switch {
	case F < 0:
		c.Violation("finalised-unknown-block", calls[0].Hash.String(), fw)
	case !k.ref.supermajority(1, F):
		c.Violation("finalised-without-supermajority", fmt.Sprintf("block %d has %d of %d precommits", F, k.ref.total(1, F), k.n), fw)
	case !okAncestor:
		c.Violation("finalised-not-ancestor-of-ghost", fmt.Sprintf("block %d is not an ancestor of the prevote GHOST %s", F, c21Hashes(k.tree, maxS)), fw)
	case !k.tree.IsAncestorOrEqual(k.head, F):
		c.Violation("finalised-below-head", fmt.Sprintf("block %d does not descend from head %d", F, k.head), fw)
	case calls[0].Round != k.round || calls[0].SetID != k.setID:
		c.Violation("finalised-wrong-round", fmt.Sprintf("%+v", calls[0]), fw)
	default:
		c.Count("finalised_ok", 1)
		k.outcome, k.finIdx = "finalised", F
		if F != k.head {
			c.Count("finalised_above_head", 1)
		}
		mx := k.ref.maximal(Spc)
		if len(mx) == 1 && mx[0] != F {
			c.Count("finalised_below_best_possible", 1)
		}
	}
}

func c21In(xs []int, x int) bool {
	for _, y := range xs {
		if y == x {
			return true
		}
	}
	return false
}

func c21BelowSome(tree *verifTree, b int, maxS []int) bool {
	for _, m := range maxS {
		if m != b && tree.IsAncestorOrEqual(b, m) {
			return true
		}
	}
	return false
}

// c21Setup builds the node, optionally finalises a first block, and initiates the round.
func c21Setup(c *vcommon.Case, tree *verifTree, n, self int, finalise int, setID uint64, keyTag uint64) *c21Case {
	keys := verifKeypairs(keyTag, n+2)
	node, err := verifNewNode(tree, keys[:n], verifNodeOpts{Self: self, SetID: setID})
	if err != nil {
		c.Inconclusive("setup: " + err.Error())
		return nil
	}
	node.Keys = keys
	head := 0
	if finalise > 0 {
		// a previous round finalised block `finalise`
		if err = node.Block.BlockState.SetFinalisedHash(tree.Hashes[finalise], 1, setID); err != nil {
			node.Close()
			c.Inconclusive("setup finalise: " + err.Error())
			return nil
		}
		head = finalise
	}
	if err = node.Service.initiateRound(); err != nil {
		node.Close()
		c.Inconclusive("initiateRound: " + err.Error())
		return nil
	}
	if got := tree.Index(node.Service.head.Hash()); got != head {
		node.Close()
		c.Inconclusive(fmt.Sprintf("service head is block %d, expected %d", got, head))
		return nil
	}
	k := &c21Case{c: c, node: node, tree: tree, keys: keys, n: n, self: self, head: head,
		round: node.Service.state.round, setID: setID}
	k.ref = newC21Tally(tree, n, head)
	return k
}

// c21SetupAfterSetChange builds a node whose Service first lives in authority set 0 (round opened, a few votes
// of set-0 voters validated), then goes through an authority set change (SetNextChange + IncrementSetID +
// initiateRound -> updateAuthorities) to a set of n voters with other keys (overlapping or disjoint; the
// service's own key is in both). The round under test is round 1 of set id 1; keys = current voters,
// then former-only authorities, then two never-authorities.
func c21SetupAfterSetChange(c *vcommon.Case, tree *verifTree, n, self int, finalise int, keyTag uint64) *c21Case {
	r := c.R
	pool := verifKeypairs(keyTag, 16)
	cur := pool[:n]
	var old []*ed25519.Keypair
	var formerOnly []*ed25519.Keypair
	for i := 0; i < n; i++ { // overlap
		if i != self && r.Intn(100) < 40 {
			old = append(old, pool[i])
		}
	}
	for i := 0; i < r.Range(1, 5); i++ {
		old = append(old, pool[7+i])
		formerOnly = append(formerOnly, pool[7+i])
	}
	selfOld := r.Intn(len(old) + 1)
	old = append(old[:selfOld], append([]*ed25519.Keypair{pool[self]}, old[selfOld:]...)...)
	node, err := verifNewNode(tree, old, verifNodeOpts{Self: selfOld})
	if err != nil {
		c.Inconclusive("setup: " + err.Error())
		return nil
	}
	fail := func(msg string) *c21Case {
		node.Close()
		c.Inconclusive(msg)
		return nil
	}
	head := 0
	if finalise > 0 {
		if err = node.Block.BlockState.SetFinalisedHash(tree.Hashes[finalise], 1, 0); err != nil {
			return fail("setup finalise: " + err.Error())
		}
		head = finalise
	}
	if err = node.Service.initiateRound(); err != nil {
		return fail("initiateRound (set 0): " + err.Error())
	}
	// life in set 0: some votes of set-0 voters are validated
	desc := tree.Descendants(head)
	for i, kp := range old {
		if i == selfOld || r.Intn(100) < 40 {
			continue
		}
		st := Subround(r.Intn(2)) //nolint:gosec
		_, _ = node.Service.validateVoteMessage("", verifVoteMessage(kp, st, tree.Vote(vcommon.Pick(r, desc)), node.Service.state.round, 0))
		c.Count("votes_validated_before_set_change", 1)
	}
	if err = node.Grandpa.GrandpaState.SetNextChange(verifVoters(cur), tree.Number[head]); err != nil {
		return fail("SetNextChange: " + err.Error())
	}
	if _, err = node.Grandpa.GrandpaState.IncrementSetID(); err != nil {
		return fail("IncrementSetID: " + err.Error())
	}
	if err = node.Service.initiateRound(); err != nil {
		return fail("initiateRound (set 1): " + err.Error())
	}
	if node.Service.state.setID != 1 || len(node.Service.state.voters) != n || tree.Index(node.Service.head.Hash()) != head {
		return fail(fmt.Sprintf("set change not applied: set id %d, %d voters, head %d", node.Service.state.setID,
			len(node.Service.state.voters), tree.Index(node.Service.head.Hash())))
	}
	keys := append(append(append([]*ed25519.Keypair{}, cur...), formerOnly...), pool[14:]...)
	node.Keys = keys
	k := &c21Case{c: c, node: node, tree: tree, keys: keys, n: n, self: self, head: head,
		round: node.Service.state.round, setID: 1, former: len(formerOnly)}
	k.ref = newC21Tally(tree, n, head)
	c.Count("cases_after_set_change", 1)
	if len(old) != n {
		c.Count("cases_after_set_change_size_differs", 1)
	}
	return k
}

func (k *c21Case) installCap(cp *c21Cap) {
	k.cap = cp
	tree := k.tree
	k.node.Grandpa.NextChange = func(h common.Hash, number uint) (uint, error) {
		i := tree.Index(h)
		if i >= 0 && tree.IsAncestorOrEqual(cp.Announce, i) && cp.Eff <= number {
			return cp.Eff, nil
		}
		return 0, state.ErrNoNextAuthorityChange
	}
}

// ---- fixed corpus ---------------------------------------------------------------------------------

type c21FixedVote struct {
	Voter int
	Block int
	Kind  string // good | wrong-number | ...
}

type c21Fixed struct {
	Name       string
	N          int
	Parents    []int
	Finalise   int
	Prevotes   []c21FixedVote
	Precommits []c21FixedVote
	Cap        *c21Cap
}

func c21Corpus() []c21Fixed {
	// genesis(0) - a(1) - b(2) - c1(3) ; b(2) - c2(4)
	ghostTree := []int{-1, 0, 1, 2, 2}
	// 0-1-2-3-4 chain with fork 5,6 from 1
	chain := []int{-1, 0, 1, 2, 3, 1, 5}
	return []c21Fixed{
		{Name: "ghost-is-unvoted-common-ancestor (a,c1,c1,c1,c2,c2 of 7)", N: 7, Parents: ghostTree,
			Prevotes: []c21FixedVote{{1, 1, "good"}, {2, 3, "good"}, {3, 3, "good"}, {4, 3, "good"}, {5, 4, "good"}, {6, 4, "good"}}},
		{Name: "vote-with-wrong-number", N: 4, Parents: chain,
			Prevotes: []c21FixedVote{{1, 3, "good"}, {2, 3, "wrong-number"}, {3, 3, "good"}, {2, 3, "good"}}},
		{Name: "all-vote-leaf", N: 4, Parents: chain,
			Prevotes:   []c21FixedVote{{1, 4, "good"}, {2, 4, "good"}, {3, 4, "good"}},
			Precommits: []c21FixedVote{{1, 4, "good"}, {2, 4, "good"}, {3, 4, "good"}}},
		{Name: "split-forks-ghost-is-fork-point", N: 4, Parents: chain,
			Prevotes:   []c21FixedVote{{1, 4, "good"}, {2, 6, "good"}, {3, 3, "good"}},
			Precommits: []c21FixedVote{{1, 1, "good"}, {2, 1, "good"}, {3, 1, "good"}}},
		{Name: "equivocator-counts-for-both-forks", N: 4, Parents: chain,
			Prevotes: []c21FixedVote{{1, 4, "good"}, {2, 4, "good"}, {3, 6, "good"}, {3, 4, "good"}}},
		{Name: "exactly-two-thirds-is-not-enough", N: 3, Parents: chain,
			Prevotes: []c21FixedVote{{1, 4, "good"}, {2, 6, "good"}}},
		{Name: "capped-on-non-best-fork", N: 4, Parents: chain, Cap: &c21Cap{Announce: 5, Eff: 2},
			Prevotes: []c21FixedVote{{1, 6, "good"}, {2, 6, "good"}, {3, 6, "good"}}},
		{Name: "capped-on-best-chain", N: 4, Parents: chain, Cap: &c21Cap{Announce: 1, Eff: 2},
			Prevotes: []c21FixedVote{{1, 4, "good"}, {2, 4, "good"}, {3, 3, "good"}}},
		{Name: "head-advanced-vote-for-ancestor-of-head", N: 4, Parents: chain, Finalise: 2,
			Prevotes: []c21FixedVote{{1, 4, "good"}, {2, 1, "not-descendant-of-head"}, {2, 3, "good"}, {3, 4, "good"}}},
		{Name: "single-voter", N: 1, Parents: chain, Prevotes: nil},
		{Name: "ghost-search-three-forks", N: 7, Parents: []int{-1, 0, 1, 2, 3, 3, 2, 6},
			Prevotes: []c21FixedVote{{1, 4, "good"}, {2, 4, "good"}, {3, 5, "good"}, {4, 5, "good"}, {5, 7, "good"}, {6, 1, "good"}}},
	}
}

func c21RunFixed(c *vcommon.Case, fc c21Fixed) {
	tree := verifTreeFromParents(fc.Parents, 21)
	k := c21Setup(c, tree, fc.N, 0, fc.Finalise, 0, 2100+uint64(fc.N)) //nolint:gosec
	if k == nil {
		return
	}
	defer k.node.Close()
	if fc.Cap != nil {
		k.installCap(fc.Cap)
	}
	mk := func(stage int, vs []c21FixedVote) func() []*c21Delivery {
		return func() []*c21Delivery {
			var out []*c21Delivery
			for _, v := range vs {
				d := k.make(v.Kind, stage, v.Voter, v.Block)
				if v.Kind == "not-descendant-of-head" {
					d = &c21Delivery{Kind: v.Kind, Stage: stage, Voter: v.Voter, Block: v.Block,
						Msg: verifVoteMessage(k.keys[v.Voter], Subround(stage), tree.Vote(v.Block), k.round, k.setID)} //nolint:gosec
				}
				out = append(out, d)
			}
			return out
		}
	}
	own := -1
	if fc.N == 1 {
		own = tree.Len() - 3
	}
	k.run(mk(0, fc.Prevotes), mk(1, fc.Precommits), own, fc.N == 1)
}

// ---- generated -----------------------------------------------------------------------------------

func c21RunGenerated(c *vcommon.Case) {
	r := c.R
	n := r.Range(1, 7)
	if r.Intn(4) == 0 {
		n = 7
	}
	tree := verifGenTree(r, r.Range(3, 12), r.Range(15, 55), r.Uint64())
	self := r.Intn(n)
	fin := 0
	if r.Intn(4) == 0 && tree.Len() > 3 {
		fin = r.Range(1, tree.Len()/2)
	}
	setID := uint64(0)
	if r.Intn(6) == 0 {
		setID = 1
	}
	var k *c21Case
	if r.Intn(4) == 0 {
		k = c21SetupAfterSetChange(c, tree, n, self, fin, r.Uint64())
	} else {
		k = c21Setup(c, tree, n, self, fin, setID, r.Uint64())
	}
	if k == nil {
		return
	}
	defer k.node.Close()
	pool := tree.Descendants(k.head)
	if r.Intn(3) == 0 {
		a := vcommon.Pick(r, pool)
		if r.Intn(10) < 6 { // announced at the head or right after it, so that it is on the GHOST's chain
			a = k.head
			if ch := tree.Children(k.head); len(ch) > 0 && r.Bool() {
				a = vcommon.Pick(r, ch)
			}
		}
		k.installCap(&c21Cap{Announce: a, Eff: tree.Number[a] + uint(r.Intn(3))}) //nolint:gosec
		c.Count("cases_with_pending_change", 1)
	}
	if fin > 0 {
		c.Count("cases_with_advanced_head", 1)
	}
	focus := vcommon.Pick(r, pool)
	if r.Intn(5) == 0 {
		focus = -1
	}
	own := -1
	if r.Intn(10) < 8 {
		if focus >= 0 && r.Bool() {
			own = focus
		} else {
			own = vcommon.Pick(r, pool)
		}
	}
	badPct := r.Range(0, 40)
	k.run(
		func() []*c21Delivery { return k.genDeliveries(0, focus, badPct) },
		func() []*c21Delivery {
			f := focus
			if pv := k.node.Service.preVotedBlock[k.round]; pv != nil && r.Intn(10) < 8 {
				f = tree.Index(pv.Hash)
			}
			return k.genDeliveries(1, f, badPct)
		},
		own, r.Intn(10) < 8)
}

func TestVerifC21(t *testing.T) {
	r := vcommon.Start(t, "C21")
	defer r.Finish()
	r.Floor("rounds_with_prevote_supermajority", 300)
	r.Floor("rounds_without_prevote_supermajority", 50)
	r.Floor("precommit_ok", 200)
	r.Floor("ghost_above_head", 100)
	r.Floor("ghost_not_directly_voted", 10)
	r.Floor("equivocations_created", 100)
	r.Floor("prevote_rounds_with_equivocators", 50)
	r.Floor("precommit_capped_below_ghost", 10)
	r.Floor("finalised_ok", 100)
	r.Floor("finalised_above_head", 50)
	r.Floor("malformed_refused", 500)
	for _, kind := range c21BadKinds {
		need := 20
		if kind == "abandoned-fork-block" {
			need = 5
		}
		if kind == "former-authority" {
			need = 15
		}
		r.Floor("delivered_"+kind, need)
	}
	r.Floor("cases_after_set_change", 150)
	r.Floor("votes_validated_before_set_change", 100)
	corpus := c21Corpus()
	r.Fixed("corpus", len(corpus), func(c *vcommon.Case) { c21RunFixed(c, corpus[c.Idx]) })
	r.Cases("gen", r.Scale(1500), c21RunGenerated)

	// several consecutive rounds on ONE Service (zz_verif_c21_rounds_test.go)
	mc := c21MultiCorpus()
	r.Floor("mr_corpus_rounds_as_planned", 2*c21MultiCorpusRounds())
	for name, need := range map[string]int{
		"mr_scenarios_completed": 400, "mr_scenarios_behavioural_mode": 150, "mr_scenarios_vote_maps_compared": 150,
		"mr_later_rounds": 600, "mr_rounds_finalised_by_own_attempt": 400, "mr_rounds_closed_by_commit": 100,
		"mr_rounds_abandoned": 15, "mr_round_jumps": 15,
		"mr_rounds_after_a_round_with_precommit_equivocators": 200, "mr_rounds_after_a_round_with_prevote_equivocators": 200,
		"mr_former_equivocator_votes_honestly": 300, "mr_former_equivocator_silent": 100,
		"mr_later_round_precommit_weight_exactly_two_thirds_floor": 100, "mr_later_round_precommit_weight_minimal_supermajority": 150,
		"mr_later_round_prevote_weight_exactly_two_thirds_floor": 80, "mr_later_round_prevote_weight_minimal_supermajority": 150,
		"mr_precommit_verdict_would_flip_with_stale_equivocators": 20, "mr_precommit_verdict_would_flip_with_stale_votes": 20,
		"mr_prevote_verdict_would_flip_with_stale_equivocators": 20, "mr_prevote_verdict_would_flip_with_stale_votes": 20,
	} {
		r.Floor(name, need)
	}
	r.Fixed("rounds-corpus", 2*len(mc), func(c *vcommon.Case) { c21RunMultiFixed(c, mc[c.Idx/2], c.Idx%2 == 1) })
	r.Cases("rounds", r.Scale(450), c21RunMultiGenerated)
}

var _ = errors.Is
