//go:build verif

package alloc

import (
	"errors"
	"fmt"
	"math/bits"
	"sort"

	"github.com/ChainSafe/gossamer/lib/runtime/allocator"
	"github.com/ChainSafe/gossamer/zz_verif/vcommon"
)

const (
	hdrSize   = 8
	maxAlloc  = 32 << 20 // 32 MiB, from the property text
	numOrders = 23
	fullFill  = 2048 // allocations up to this size are canary-filled completely
	edgeFill  = 256  // larger ones: head, tail and a few interior spots
)

// blockSize is the rounded-up block of a request, from the property text
// (power of two, at least 8); written independently of the allocator.
func blockSize(size uint32) uint64 {
	if size <= 8 {
		return 8
	}
	return uint64(1) << uint(bits.Len32(size-1))
}

func orderOf(blk uint64) int { return bits.TrailingZeros64(blk) - 3 }

type liveAlloc struct {
	id    int
	ptr   uint32
	size  uint32
	blk   uint64
	spots []uint32 // offsets of interior 16-byte canary spots (large allocations)
}

func (l *liveAlloc) start() uint64 { return uint64(l.ptr) - hdrSize }
func (l *liveAlloc) end() uint64   { return uint64(l.ptr) + l.blk }

func mix64(x uint64) uint64 {
	x += 0x9e3779b97f4a7c15
	x = (x ^ (x >> 30)) * 0xbf58476d1ce4e5b9
	x = (x ^ (x >> 27)) * 0x94d049bb133111eb
	return x ^ (x >> 31)
}

// canary is the byte the harness writes at offset off of allocation id.
func canary(id int, off uint32) byte {
	return byte(mix64(uint64(id)<<34^uint64(off>>3)) >> (8 * (off & 7)))
}

// Monitor drives one allocator instance over one sparse memory.
type Monitor struct {
	C        *vcommon.Case
	Mem      *SparseMem
	A        *allocator.FreeingBumpHeapAllocator
	HeapBase uint32

	live   []*liveAlloc // sorted by ptr
	byPtr  map[uint32]*liveAlloc
	freed  map[uint32]int // ptr -> order; freed and not handed out again since
	freedL []uint32
	nextID int

	// HW is the model's high-water mark: the end of the highest block ever handed out.
	HW uint64
	// FreeBlocks[o] = freed and not yet re-used blocks of order o (model of the free lists' lengths).
	FreeBlocks [numOrders]int

	mustPoison  bool // an invalid free failed: every later call must report ErrAllocatorPoisoned
	MaybePoison bool // some call failed: later calls may be poisoned (documented behaviour)
	Ops         int
	trace       []string
	Orders      uint32 // bitmap of orders successfully allocated
	Dead        bool   // a violation was recorded: stop driving this instance
	sinceCheck  int
}

// NewMonitor builds the allocator under test and fills the static data
// region below the heap base with a sentinel.
func NewMonitor(c *vcommon.Case, heapBase uint32, pages, maxPages uint64) *Monitor {
	m := &Monitor{C: c, Mem: NewSparseMem(pages, maxPages), HeapBase: heapBase,
		A: allocator.NewFreeingBumpHeapAllocator(heapBase), byPtr: map[uint32]*liveAlloc{}, freed: map[uint32]int{}}
	for i := uint64(0); i < uint64(heapBase); i++ {
		m.Mem.Set(i, staticByte(i))
	}
	m.HW = (uint64(heapBase) + 7) &^ 7 // the first header is 8-byte aligned (pointers are, headers are 8 bytes)
	return m
}

func staticByte(i uint64) byte { return byte(0xA5 ^ (i * 7)) }

func (m *Monitor) logf(f string, a ...any) {
	if len(m.trace) >= 48 {
		m.trace = append(m.trace[:0], m.trace[16:]...)
	}
	m.trace = append(m.trace, fmt.Sprintf("#%d ", m.Ops)+fmt.Sprintf(f, a...))
}

func (m *Monitor) witness(extra map[string]any) map[string]any {
	w := map[string]any{"heap_base": m.HeapBase, "mem_size": m.Mem.Size(), "ops": m.Ops, "live": len(m.live),
		"model_high_water": m.HW, "last_ops": append([]string{}, m.trace...)}
	for k, v := range extra {
		w[k] = v
	}
	return w
}

func (m *Monitor) viol(class, msg string, extra map[string]any) {
	m.Dead = true
	m.C.Violation(class, msg, m.witness(extra))
}

// Live returns the number of live allocations.
func (m *Monitor) Live() int { return len(m.live) }

// LiveAt returns the i-th live allocation's pointer in address order.
func (m *Monitor) LiveAt(i int) uint32 { return m.live[i].ptr }

// LiveByAge returns the pointer of the live allocation with the smallest
// (oldest=true) or largest id.
func (m *Monitor) LiveByAge(oldest bool) uint32 {
	best := m.live[0]
	for _, l := range m.live[1:] {
		if (oldest && l.id < best.id) || (!oldest && l.id > best.id) {
			best = l
		}
	}
	return best.ptr
}

// FreedPtrs returns pointers freed and not handed out again.
func (m *Monitor) FreedPtrs() []uint32 {
	out := m.freedL[:0]
	for _, p := range m.freedL {
		if _, ok := m.freed[p]; ok {
			out = append(out, p)
		}
	}
	m.freedL = out
	return out
}

func (m *Monitor) afterCall() {
	if sz := m.Mem.Size(); sz > FourGiB {
		m.viol("grew-past-4GiB", fmt.Sprintf("linear memory is %d bytes (> 4 GiB)", sz), nil)
	}
}

func (m *Monitor) fill(l *liveAlloc) {
	put := func(from, to uint32) {
		for o := from; o < to; o++ {
			m.Mem.Set(uint64(l.ptr)+uint64(o), canary(l.id, o))
		}
	}
	if l.size <= fullFill {
		put(0, l.size)
		return
	}
	put(0, edgeFill)
	put(l.size-edgeFill, l.size)
	for _, s := range l.spots {
		put(s, s+16)
	}
}

// verify returns the first damaged offset of a live allocation, or -1.
func (m *Monitor) verify(l *liveAlloc) int64 {
	chk := func(from, to uint32) int64 {
		for o := from; o < to; o++ {
			if m.Mem.Get(uint64(l.ptr)+uint64(o)) != canary(l.id, o) {
				return int64(o)
			}
		}
		return -1
	}
	if l.size <= fullFill {
		return chk(0, l.size)
	}
	if o := chk(0, edgeFill); o >= 0 {
		return o
	}
	if o := chk(l.size-edgeFill, l.size); o >= 0 {
		return o
	}
	for _, s := range l.spots {
		if o := chk(s, s+16); o >= 0 {
			return o
		}
	}
	return -1
}

func (m *Monitor) verifyOne(l *liveAlloc, when string) bool {
	m.C.Eval(1)
	if o := m.verify(l); o >= 0 {
		m.viol("canary", fmt.Sprintf("%s: byte %d of live allocation ptr=%d size=%d changed: got 0x%02x want 0x%02x",
			when, o, l.ptr, l.size, m.Mem.Get(uint64(l.ptr)+uint64(o)), canary(l.id, uint32(o))),
			map[string]any{"ptr": l.ptr, "size": l.size, "offset": o})
		return false
	}
	return true
}

// CheckAll verifies every live canary and the static region below the heap base.
func (m *Monitor) CheckAll(when string) {
	if m.Dead {
		return
	}
	for _, l := range m.live {
		if !m.verifyOne(l, when) {
			return
		}
	}
	m.C.Eval(1)
	for i := uint64(0); i < uint64(m.HeapBase); i++ {
		if m.Mem.Get(i) != staticByte(i) {
			m.viol("below-heap-base-written", fmt.Sprintf("%s: byte %d below heap base %d changed", when, i, m.HeapBase),
				map[string]any{"offset": i})
			return
		}
	}
	m.C.Count("full_canary_sweeps", 1)
}

func (m *Monitor) tick() {
	m.Ops++
	m.sinceCheck++
	if m.sinceCheck >= 200 {
		m.sinceCheck = 0
		m.CheckAll("periodic")
	}
}

func isPoisonErr(err error) bool { return errors.Is(err, allocator.ErrAllocatorPoisoned) }

// Alloc calls Allocate and decides everything the property says about the result.
// It reports whether the call succeeded.
func (m *Monitor) Alloc(size uint32) (uint32, bool) {
	if m.Dead {
		return 0, false
	}
	m.tick()
	ptr, err := m.A.Allocate(m.Mem, size)
	m.C.Eval(1)
	m.afterCall()
	if m.Dead {
		return 0, false
	}
	if m.mustPoison {
		m.logf("alloc(%d) -> %v", size, err)
		m.C.Count("calls_after_invalid_free", 1)
		if !isPoisonErr(err) {
			m.viol("not-poisoned", fmt.Sprintf("Allocate(%d) after a failed invalid free returned ptr=%d err=%v, want ErrAllocatorPoisoned", size, ptr, err), nil)
		}
		return 0, false
	}
	if err != nil {
		m.logf("alloc(%d) -> err %v", size, err)
		switch {
		case isPoisonErr(err) && m.MaybePoison:
			m.C.Count("poisoned_after_earlier_error", 1)
		case size > maxAlloc:
			m.C.Count("too_large_rejected", 1)
		default:
			blk := blockSize(size)
			o := orderOf(blk)
			switch {
			case m.FreeBlocks[o] > 0 && !m.MaybePoison:
				// allowed by the letter of the property (failing is always safe), but no conforming
				// allocator does it: never silently accepted
				m.C.Count("alloc_failed_with_free_block_available", 1)
				m.C.Inconclusive(fmt.Sprintf("Allocate(%d) failed (%v) although a freed block of order %d was available and nothing had failed before", size, err, o))
			case m.FreeBlocks[o] > 0:
				m.C.Count("alloc_failed_with_free_block_available_after_error", 1)
			case m.HW+hdrSize+blk < FourGiB:
				m.C.Count("alloc_failed_with_room_below_4GiB", 1)
			case m.HW+hdrSize+blk == FourGiB:
				m.C.Count("alloc_failed_block_would_end_at_4GiB", 1)
			default:
				m.C.Count("alloc_failed_out_of_address_space", 1)
			}
		}
		m.MaybePoison = true
		return 0, false
	}
	if size > maxAlloc {
		m.logf("alloc(%d) -> %d", size, ptr)
		m.viol("too-large-accepted", fmt.Sprintf("Allocate(%d) (> 32 MiB) returned ptr=%d", size, ptr), nil)
		return 0, false
	}
	blk := blockSize(size)
	o := orderOf(blk)
	l := &liveAlloc{id: m.nextID, ptr: ptr, size: size, blk: blk}
	m.nextID++
	m.logf("alloc(%d) -> %d (block %d)", size, ptr, blk)
	m.C.Eval(4)
	if ptr%8 != 0 {
		m.viol("unaligned", fmt.Sprintf("Allocate(%d) returned ptr=%d, not 8-byte aligned", size, ptr), nil)
		return 0, false
	}
	if uint64(ptr) < uint64(m.HeapBase)+hdrSize {
		m.viol("below-heap-base", fmt.Sprintf("Allocate(%d) returned ptr=%d: its header [%d,%d) is not above heap base %d",
			size, ptr, int64(ptr)-8, ptr, m.HeapBase), nil)
		return 0, false
	}
	if l.end() > m.Mem.Size() {
		m.viol("outside-memory", fmt.Sprintf("Allocate(%d) returned ptr=%d: block end %d > memory size %d", size, ptr, l.end(), m.Mem.Size()), nil)
		return 0, false
	}
	// disjoint from every live block including headers
	i := sort.Search(len(m.live), func(i int) bool { return m.live[i].ptr >= ptr })
	if i < len(m.live) && m.live[i].start() < l.end() {
		n := m.live[i]
		m.viol("overlap", fmt.Sprintf("Allocate(%d) returned [%d,%d) overlapping live allocation ptr=%d [%d,%d)", size, l.start(), l.end(), n.ptr, n.start(), n.end()), nil)
		return 0, false
	}
	if i > 0 && m.live[i-1].end() > l.start() {
		n := m.live[i-1]
		m.viol("overlap", fmt.Sprintf("Allocate(%d) returned [%d,%d) overlapping live allocation ptr=%d [%d,%d)", size, l.start(), l.end(), n.ptr, n.start(), n.end()), nil)
		return 0, false
	}
	m.live = append(m.live, nil)
	copy(m.live[i+1:], m.live[i:])
	m.live[i] = l
	m.byPtr[ptr] = l
	if fo, ok := m.freed[ptr]; ok {
		delete(m.freed, ptr)
		if m.FreeBlocks[fo] > 0 {
			m.FreeBlocks[fo]--
		}
		m.C.Count("freed_block_reused", 1)
		if fo != o {
			m.C.Count("freed_block_reused_for_other_order", 1)
		}
	} else if l.start() >= m.HW {
		m.C.Count("fresh_block_from_bump", 1)
	} else {
		m.C.Count("block_below_high_water_not_from_model_free_set", 1)
	}
	if l.end() > m.HW {
		m.HW = l.end()
	}
	if l.end() == FourGiB {
		m.C.Count("block_ends_exactly_at_4GiB", 1)
	}
	if size > fullFill {
		span := size - 2*edgeFill - 16
		for k := 0; k < 3 && span > 0; k++ {
			l.spots = append(l.spots, edgeFill+uint32(mix64(uint64(l.id)*31+uint64(k))%uint64(span)))
		}
	}
	m.fill(l)
	m.Orders |= 1 << uint(o)
	m.C.Count("allocs_ok", 1)
	m.C.Count(fmt.Sprintf("alloc_ok_order_%02d", o), 1)
	if size != 0 && (size&(size-1) == 0 || (size-1)&(size-2) == 0 || (size+1)&size == 0) {
		m.C.Count("allocs_ok_size_at_order_boundary", 1)
	}
	if m.MaybePoison {
		m.C.Count("alloc_ok_after_earlier_error", 1)
	}
	return ptr, true
}

// Free deallocates a live pointer (a valid free).
func (m *Monitor) Free(ptr uint32) bool {
	l := m.byPtr[ptr]
	if m.Dead || l == nil {
		return false
	}
	m.tick()
	if !m.mustPoison && !m.verifyOne(l, "before free") {
		return false
	}
	err := m.A.Deallocate(m.Mem, ptr)
	m.C.Eval(1)
	m.afterCall()
	if m.Dead {
		return false
	}
	m.logf("free(%d) -> %v", ptr, err)
	if m.mustPoison {
		m.C.Count("calls_after_invalid_free", 1)
		if !isPoisonErr(err) {
			m.viol("not-poisoned", fmt.Sprintf("Deallocate(%d) after a failed invalid free returned %v, want ErrAllocatorPoisoned", ptr, err), nil)
		}
		return false
	}
	if err != nil {
		if isPoisonErr(err) && m.MaybePoison {
			m.C.Count("poisoned_after_earlier_error", 1)
			return false
		}
		// The property does not say in so many words that freeing a live pointer succeeds:
		// not a violation, but never silently accepted either.
		m.C.Count("valid_free_failed", 1)
		m.C.Inconclusive(fmt.Sprintf("Deallocate of live pointer %d (size %d) failed: %v", ptr, l.size, err))
		m.Dead = true
		return false
	}
	i := sort.Search(len(m.live), func(i int) bool { return m.live[i].ptr >= ptr })
	m.live = append(m.live[:i], m.live[i+1:]...)
	delete(m.byPtr, ptr)
	o := orderOf(l.blk)
	m.freed[ptr] = o
	m.freedL = append(m.freedL, ptr)
	m.FreeBlocks[o]++
	m.C.Count("frees_ok", 1)
	return true
}

// LooksOccupied predicts, from memory content alone, whether Deallocate(ptr)
// will find something that reads as an occupied header (bit 32 set, order <
// 23) at ptr-8. The allocator cannot tell such a pointer from a valid one.
func (m *Monitor) LooksOccupied(ptr uint32) bool {
	if ptr < hdrSize {
		return false
	}
	raw, ok := m.Mem.ReadUint64Le(ptr - hdrSize)
	if !ok {
		return false
	}
	return raw&(1<<32) != 0 && uint32(raw) < numOrders
}

// BadFree frees a pointer that is not a live allocation. Returns false when
// the pointer was skipped because memory at ptr-8 reads as an occupied header.
func (m *Monitor) BadFree(ptr uint32, kind string) bool {
	if m.Dead || m.mustPoison {
		return false
	}
	if m.byPtr[ptr] != nil {
		return false
	}
	if m.LooksOccupied(ptr) {
		m.C.Count("invalid_free_skipped_header_reads_occupied", 1)
		return false
	}
	if m.MaybePoison {
		return false
	}
	m.tick()
	err := m.A.Deallocate(m.Mem, ptr)
	m.C.Eval(1)
	m.afterCall()
	if m.Dead {
		return false
	}
	m.logf("badfree[%s](%d) -> %v", kind, ptr, err)
	if err == nil {
		m.viol("invalid-free-accepted", fmt.Sprintf("Deallocate(%d) [%s: not a live allocation, header does not read occupied] returned nil", ptr, kind),
			map[string]any{"ptr": ptr, "kind": kind})
		return true
	}
	m.C.Count("invalid_free_rejected", 1)
	m.C.Count("invalid_free_"+kind, 1)
	m.mustPoison = true
	m.MaybePoison = true
	return true
}

// Finish does the final sweep.
func (m *Monitor) Finish() {
	m.CheckAll("end of sequence")
	m.C.Count("grow_calls", m.Mem.GrowCalls)
	if m.Mem.GrowFails > 0 {
		m.C.Count("grow_refused_by_memory", m.Mem.GrowFails)
	}
	if m.Mem.PeakSize == FourGiB {
		m.C.Count("memory_reached_4GiB", 1)
	}
}
