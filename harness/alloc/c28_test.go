//go:build verif

package alloc

import (
	"fmt"
	"testing"

	"github.com/ChainSafe/gossamer/zz_verif/vcommon"
)

var heapBases = []uint32{0, 1, 7, 8, 1000}

// boundarySizes: 2^k-1, 2^k, 2^k+1 for every k up to 25 (32 MiB), plus 0.
func boundarySizes(maxOrder int) []uint32 {
	out := []uint32{0}
	for k := 0; k <= maxOrder+3; k++ {
		p := uint32(1) << uint(k)
		out = append(out, p-1, p)
		if p+1 <= maxAlloc {
			out = append(out, p+1)
		}
	}
	return out
}

var tooLarge = []uint32{maxAlloc + 1, maxAlloc + 7, maxAlloc + 8, maxAlloc + 9, 1 << 26, 1<<26 + 1, 1 << 31, 1<<31 + 1, 1<<32 - 8, 1<<32 - 1}

func pickSize(r *vcommon.Rand, maxOrder int, bsz []uint32) uint32 {
	switch r.Intn(10) {
	case 0, 1, 2, 3, 4: // order boundaries
		return vcommon.Pick(r, bsz)
	case 5, 6: // tiny
		return uint32(r.Intn(65))
	default: // anything up to the case's largest order
		o := r.Intn(maxOrder + 1)
		lo := uint32(8) << uint(o) >> 1
		return lo + 1 + uint32(r.Intn(int(lo)))
	}
}

// badFree tries one invalid free of a randomly chosen kind; returns true if
// the call was made.
func badFree(m *Monitor, r *vcommon.Rand) bool {
	for try := 0; try < 12; try++ {
		var ptr uint32
		var kind string
		pick := r.Intn(9)
		if m.HeapBase >= 16 && r.Chance(1, 4) {
			pick = 6
		}
		switch pick {
		case 0: // double free
			fp := m.FreedPtrs()
			if len(fp) == 0 {
				continue
			}
			ptr, kind = vcommon.Pick(r, fp), "double"
		case 1: // inside a live allocation, aligned
			if m.Live() == 0 {
				continue
			}
			l := m.live[r.Intn(m.Live())]
			if l.blk < 16 {
				continue
			}
			ptr, kind = l.ptr+8*uint32(1+r.Intn(int(l.blk/8-1))), "inside_live_aligned"
		case 2: // unaligned around a live header / data start
			if m.Live() == 0 {
				continue
			}
			l := m.live[r.Intn(m.Live())]
			ptr, kind = l.ptr-8+uint32(1+r.Intn(15)), "unaligned_near_live_header"
			if ptr == l.ptr {
				continue
			}
		case 3:
			ptr, kind = uint32(r.Intn(8)), "below_8"
		case 4: // beyond the end of memory
			sz := m.Mem.Size()
			if sz+64 >= FourGiB {
				continue
			}
			ptr, kind = uint32(sz)+uint32(r.Intn(64)), "beyond_memory"
			if uint64(ptr)-8+8 <= sz { // header still in range: content decides
				kind = "last_bytes_of_memory"
			}
		case 5: // never used memory above the high-water mark
			sz := m.Mem.Size()
			if m.HW+64 >= sz {
				continue
			}
			ptr, kind = uint32(m.HW+8+uint64(r.Intn(int(min(sz-m.HW-16, 1<<20))))), "never_used_memory"
			if r.Bool() {
				ptr &^= 7
			}
		case 6: // static data below the heap base
			if m.HeapBase < 16 {
				continue
			}
			ptr, kind = 8+uint32(r.Intn(int(m.HeapBase-8))), "static_region"
		case 7: // the header address of a live allocation itself
			if m.Live() == 0 {
				continue
			}
			ptr, kind = m.live[r.Intn(m.Live())].ptr-8, "live_header_address"
		case 8: // freed block, interior
			fp := m.FreedPtrs()
			if len(fp) == 0 {
				continue
			}
			ptr, kind = vcommon.Pick(r, fp)+8, "inside_freed"
		}
		if m.BadFree(ptr, kind) {
			return true
		}
	}
	return false
}

func afterPoison(m *Monitor, r *vcommon.Rand) {
	for i, n := 0, r.Range(2, 6); i < n && !m.Dead; i++ {
		if m.Live() > 0 && r.Bool() {
			m.Free(m.LiveAt(r.Intn(m.Live())))
		} else {
			m.Alloc(uint32(r.Intn(200)))
		}
	}
}

type mixCfg struct {
	heapBase  uint32
	pages     uint64
	maxPages  uint64
	nops      int
	maxOrder  int
	freeMode  int // 0 LIFO 1 FIFO 2 random 3 none 4 bursts
	freePct   int
	ending    int // 0 plain 1 invalid free 2 too large
	cutAt     int
	liveLimit int
}

func genMix(r *vcommon.Rand) mixCfg {
	g := mixCfg{heapBase: vcommon.Pick(r, heapBases), freeMode: r.Intn(5), freePct: vcommon.Pick(r, []int{25, 45, 50, 60}), liveLimit: 1 << 30}
	g.pages = uint64(vcommon.Pick(r, []int{1, 1, 2, 17}))
	if g.heapBase == 0 && r.Chance(1, 3) {
		g.pages = 0
	}
	g.maxPages = 1 << 20 // far above 65536: the allocator has to stop at 4 GiB on its own
	if r.Chance(1, 8) {
		g.maxPages = uint64(vcommon.Pick(r, []int{1, 3, 16, 100, 65536}))
		if g.maxPages < g.pages {
			g.maxPages = g.pages
		}
	}
	switch r.Intn(10) {
	case 0, 1, 2, 3:
		g.nops = r.Range(10, 60)
	case 4, 5, 6, 7:
		g.nops = r.Range(60, 600)
	default:
		g.nops = r.Range(600, 5000)
	}
	switch r.Intn(10) {
	case 0, 1, 2, 3, 4:
		g.maxOrder = r.Range(0, 6)
	case 5, 6, 7:
		g.maxOrder = r.Range(7, 13)
	default:
		g.maxOrder = r.Range(14, 22)
	}
	if r.Chance(1, 4) {
		g.liveLimit = r.Range(1, 40)
	}
	switch r.Intn(20) {
	case 0, 1, 2, 3, 4, 5, 6:
		g.ending = 1
	case 7:
		g.ending = 2
	}
	g.cutAt = g.nops
	if g.ending != 0 {
		g.cutAt = r.Range(1, g.nops)
	}
	return g
}

func runMix(c *vcommon.Case, m *Monitor, g mixCfg) {
	r := c.R
	bsz := boundarySizes(g.maxOrder)
	burst := 0
	for i := 0; i < g.cutAt && !m.Dead; i++ {
		doFree := m.Live() > 0 && (r.Intn(100) < g.freePct || m.Live() >= g.liveLimit)
		if g.freeMode == 3 && m.Live() < g.liveLimit {
			doFree = false
		}
		if g.freeMode == 4 {
			if burst > 0 {
				doFree = m.Live() > 0
				burst--
			} else if r.Chance(1, 40) {
				burst = m.Live()
			} else if m.Live() < g.liveLimit {
				doFree = false
			}
		}
		if doFree {
			var p uint32
			switch g.freeMode {
			case 0:
				p = m.LiveByAge(false)
			case 1:
				p = m.LiveByAge(true)
			default:
				p = m.LiveAt(r.Intn(m.Live()))
			}
			m.Free(p)
			continue
		}
		if _, ok := m.Alloc(pickSize(r, g.maxOrder, bsz)); !ok && !m.Dead {
			c.Count("sequence_ended_by_alloc_failure", 1)
			// documented: after an error every call fails; exercise a few more calls anyway
			afterPoison(m, r)
			break
		}
	}
	switch g.ending {
	case 1:
		if !m.MaybePoison && badFree(m, r) {
			afterPoison(m, r)
		}
	case 2:
		if !m.MaybePoison {
			m.Alloc(vcommon.Pick(r, tooLarge))
			afterPoison(m, r)
		}
	}
}

// fillTo drives bump allocations until the model's high-water mark is exactly
// target (a multiple of 8, >= HW+16): big blocks first, then an exact
// decomposition of the remainder into blocks of 2^k+8 bytes.
func fillTo(m *Monitor, r *vcommon.Rand, target uint64, loOrder int, freeSome bool) bool {
	var keep []uint32
	for !m.Dead {
		rem := target - m.HW
		if rem == 0 {
			return true
		}
		if rem < 16 {
			return false
		}
		// largest block b=2^k+8 <= rem with rem-b == 0 or >= 16; early on pick among the large orders
		k := 25
		if rem > 64<<20 {
			k = 3 + r.Range(loOrder, 22)
		}
		for ; k >= 3; k-- {
			b := uint64(1)<<uint(k) + 8
			if b <= rem && (rem-b == 0 || rem-b >= 16) {
				break
			}
		}
		if k < 3 {
			return false
		}
		want := m.HW
		size := uint32(1) << uint(k)
		if r.Bool() && k > 3 {
			size -= uint32(r.Intn(int(size / 2))) // same block, smaller request
		}
		p, ok := m.Alloc(size)
		if !ok {
			return false
		}
		if uint64(p)-8 < want {
			// a block freed below was handed out again: the high-water mark did not move
			keep = append(keep, p)
			continue
		}
		if uint64(p)-8 != want {
			// the allocator did not bump where the model expected: no exact fill possible, still a valid run
			m.C.Count("fill_model_mismatch", 1)
			return false
		}
		keep = append(keep, p)
		if freeSome && r.Chance(1, 6) && len(keep) > 1 {
			// free and immediately re-take a block: free lists work while memory is (nearly) full
			i := r.Intn(len(keep))
			if m.Free(keep[i]) {
				keep = append(keep[:i], keep[i+1:]...)
			}
		}
	}
	return false
}

type fillCfg struct {
	heapBase uint32
	short    uint64 // target = 4 GiB - short
	loOrder  int
	freeSome bool
	pages    uint64
	maxPages uint64
	probes   int
}

func genFill(r *vcommon.Rand) fillCfg {
	g := fillCfg{heapBase: vcommon.Pick(r, heapBases), loOrder: r.Range(17, 22), freeSome: r.Bool(), pages: uint64(vcommon.Pick(r, []int{1, 2, 17, 1024})),
		maxPages: 1 << 20, probes: r.Range(1, 30)}
	switch r.Intn(8) {
	case 0, 1, 2:
		g.short = 0
	case 3:
		g.short = 8
	case 4:
		g.short = 16
	case 5:
		g.short = 24
	case 6:
		g.short = 8 * uint64(r.Range(4, 40))
	default:
		g.short = 8 * uint64(r.Range(40, 20000))
	}
	if r.Chance(1, 5) {
		g.maxPages = 65536
	}
	return g
}

func runFill(c *vcommon.Case, m *Monitor, g fillCfg) {
	r := c.R
	ok := fillTo(m, r, FourGiB-g.short, g.loOrder, g.freeSome)
	if m.Dead {
		return
	}
	if ok {
		c.Count("exact_fill_reached", 1)
		c.Count(fmt.Sprintf("exact_fill_short_by_%s", shortClass(g.short)), 1)
	}
	// probe at the limit: small and large requests, frees, then whatever happens must satisfy the invariants
	bsz := boundarySizes(8)
	for i := 0; i < g.probes && !m.Dead; i++ {
		if m.Live() > 0 && r.Chance(1, 3) {
			m.Free(m.LiveAt(r.Intn(m.Live())))
			continue
		}
		sz := vcommon.Pick(r, bsz)
		if r.Chance(1, 6) {
			sz = uint32(1) << uint(r.Range(10, 25))
		}
		c.Count("allocs_attempted_at_the_limit", 1)
		m.Alloc(sz)
	}
}

func shortClass(s uint64) string {
	switch {
	case s == 0:
		return "0"
	case s <= 24:
		return fmt.Sprint(s)
	case s < 320:
		return "lt320"
	}
	return "more"
}

func sig(m *Monitor, kind string, extra ...any) string {
	return fmt.Sprintf("%s|hb%d|ord%x|ops%d|%v", kind, m.HeapBase, m.Orders, bucket(m.Ops), extra)
}

func bucket(n int) int {
	b := 0
	for n > 0 {
		n >>= 1
		b++
	}
	return b
}

type fixedCase struct {
	name string
	run  func(c *vcommon.Case) *Monitor
}

// fixedCorpus is seed independent: witnesses of defects found plus the corner cases the property names.
func fixedCorpus() []fixedCase {
	var fc []fixedCase
	// W1 (defect found): fill the address space exactly to 4 GiB, then ask for more. The bumper (uint32) wrapped to 0
	// and the next bump allocation was handed out at address 8: below the heap base / over a live allocation.
	for _, hb := range heapBases {
		hb := hb
		fc = append(fc, fixedCase{fmt.Sprintf("exact-fill-then-alloc hb=%d", hb), func(c *vcommon.Case) *Monitor {
			m := NewMonitor(c, hb, 1, 1<<20)
			first, _ := m.Alloc(64)
			ok := fillTo(m, vcommon.NewRand(1), FourGiB, 22, false)
			if ok {
				c.Count("exact_fill_reached", 1)
			}
			for i := 0; i < 4 && !m.Dead; i++ {
				c.Count("allocs_attempted_at_the_limit", 1)
				m.Alloc(vcommon.Pick(c.R, []uint32{1, 8, 9, 64, 100}))
			}
			if !m.Dead && m.byPtr[first] != nil {
				m.verifyOne(m.byPtr[first], "after the limit")
			}
			return m
		}})
	}
	// every order once, LIFO free, re-allocate: same blocks come back, nothing overlaps
	fc = append(fc, fixedCase{"all-orders-lifo", func(c *vcommon.Case) *Monitor {
		m := NewMonitor(c, 8, 1, 1<<20)
		var ps []uint32
		for o := 0; o < numOrders; o++ {
			for _, s := range []uint32{8<<uint(o) - 1, 8 << uint(o), 8<<uint(o)/2 + 1} {
				if p, ok := m.Alloc(s); ok {
					ps = append(ps, p)
				}
			}
		}
		for i := len(ps) - 1; i >= 0; i -= 2 {
			m.Free(ps[i])
		}
		for o := 0; o < numOrders; o++ {
			m.Alloc(8 << uint(o))
		}
		return m
	}})
	bad := []struct {
		name string
		f    func(m *Monitor, p, q uint32) (uint32, string)
	}{
		{"double-free", func(m *Monitor, p, q uint32) (uint32, string) { m.Free(p); return p, "double" }},
		{"free-0", func(m *Monitor, p, q uint32) (uint32, string) { return 0, "below_8" }},
		{"free-7", func(m *Monitor, p, q uint32) (uint32, string) { return 7, "below_8" }},
		{"free-header-address", func(m *Monitor, p, q uint32) (uint32, string) { return p - 8, "live_header_address" }},
		{"free-unaligned+1", func(m *Monitor, p, q uint32) (uint32, string) { return p + 1, "unaligned_near_live_header" }},
		{"free-unaligned+4", func(m *Monitor, p, q uint32) (uint32, string) { return p + 4, "unaligned_near_live_header" }},
		{"free-inside", func(m *Monitor, p, q uint32) (uint32, string) { return q + 16, "inside_live_aligned" }},
		{"free-beyond", func(m *Monitor, p, q uint32) (uint32, string) { return uint32(m.Mem.Size()) + 8, "beyond_memory" }},
		{"free-end+7", func(m *Monitor, p, q uint32) (uint32, string) { return uint32(m.Mem.Size()) + 7, "beyond_memory" }},
		{"free-never-used", func(m *Monitor, p, q uint32) (uint32, string) { return uint32(m.HW) + 64, "never_used_memory" }},
		{"free-maxuint32", func(m *Monitor, p, q uint32) (uint32, string) { return 1<<32 - 1, "beyond_memory" }},
	}
	for _, b := range bad {
		b := b
		for _, hb := range []uint32{0, 1000} {
			hb := hb
			fc = append(fc, fixedCase{fmt.Sprintf("%s hb=%d", b.name, hb), func(c *vcommon.Case) *Monitor {
				m := NewMonitor(c, hb, 1, 1<<20)
				p, _ := m.Alloc(24)
				q, _ := m.Alloc(100)
				m.Alloc(3)
				ptr, kind := b.f(m, p, q)
				if m.BadFree(ptr, kind) {
					m.Alloc(8)
					m.Free(q)
					m.Alloc(0)
				}
				return m
			}})
		}
	}
	for _, s := range tooLarge {
		s := s
		fc = append(fc, fixedCase{fmt.Sprintf("too-large %d", s), func(c *vcommon.Case) *Monitor {
			m := NewMonitor(c, 7, 1, 1<<20)
			m.Alloc(maxAlloc)
			m.Alloc(s)
			m.Alloc(8)
			return m
		}})
	}
	return fc
}

func TestVerifC28(t *testing.T) {
	r := vcommon.Start(t, "C28")
	defer r.Finish()
	r.Floor("allocs_ok", 20000)
	r.Floor("frees_ok", 8000)
	r.Floor("freed_block_reused", 2000)
	r.Floor("allocs_ok_size_at_order_boundary", 5000)
	for o := 0; o < numOrders; o++ {
		r.Floor(fmt.Sprintf("alloc_ok_order_%02d", o), 20)
	}
	r.Floor("invalid_free_rejected", 200)
	for _, k := range []string{"double", "inside_live_aligned", "unaligned_near_live_header", "below_8", "beyond_memory", "never_used_memory", "static_region", "live_header_address"} {
		r.Floor("invalid_free_"+k, 8)
	}
	r.Floor("calls_after_invalid_free", 400)
	r.Floor("too_large_rejected", 20)
	r.Floor("memory_reached_4GiB", 10)
	r.Floor("exact_fill_reached", 10)
	r.Floor("allocs_attempted_at_the_limit", 50)
	r.Floor("full_canary_sweeps", 1000)
	for _, hb := range heapBases {
		r.Floor(fmt.Sprintf("heap_base_%d", hb), 50)
	}

	fc := fixedCorpus()
	r.Fixed("fixed", len(fc), func(c *vcommon.Case) {
		m := fc[c.Idx].run(c)
		m.Finish()
		c.Count(fmt.Sprintf("heap_base_%d", m.HeapBase), 1)
		c.Distinct(sig(m, "fixed", fc[c.Idx].name))
		if c.Idx < 8 { // every shard contributes one (the driver needs a non-null samples list per shard)
			c.Sample(map[string]any{"fixed": fc[c.Idx].name, "ops": m.Ops, "live_at_end": m.Live(), "mem_size": m.Mem.Size(), "model_high_water": m.HW, "last_ops": tailOf(m.trace, 6)})
		}
	})

	r.Cases("mix", r.Scale(2500), func(c *vcommon.Case) {
		g := genMix(c.R)
		m := NewMonitor(c, g.heapBase, g.pages, g.maxPages)
		runMix(c, m, g)
		m.Finish()
		c.Count(fmt.Sprintf("heap_base_%d", g.heapBase), 1)
		c.Count(fmt.Sprintf("free_mode_%d", g.freeMode), 1)
		c.Count("ops", m.Ops)
		if m.Ops >= 1000 {
			c.Count("sequences_1000plus_ops", 1)
		}
		c.Distinct(sig(m, "mix", g.freeMode, g.ending, m.MaybePoison))
		if c.Idx%500 == 3 {
			c.Sample(map[string]any{"cfg": fmt.Sprintf("%+v", g), "ops": m.Ops, "live_at_end": m.Live(), "mem_size": m.Mem.Size(), "touched_bytes": m.Mem.Touched(), "last_ops": tailOf(m.trace, 6)})
		}
	})

	r.Cases("fill", r.Scale(60), func(c *vcommon.Case) {
		g := genFill(c.R)
		m := NewMonitor(c, g.heapBase, g.pages, g.maxPages)
		runFill(c, m, g)
		m.Finish()
		c.Count(fmt.Sprintf("heap_base_%d", g.heapBase), 1)
		c.Count("ops", m.Ops)
		c.Distinct(sig(m, "fill", g.short, g.freeSome, m.MaybePoison))
		if c.Idx == 1 {
			c.Sample(map[string]any{"cfg": fmt.Sprintf("%+v", g), "ops": m.Ops, "live_at_end": m.Live(), "mem_size": m.Mem.Size(), "model_high_water": m.HW, "touched_bytes": m.Mem.Touched(), "last_ops": tailOf(m.trace, 6)})
		}
	})
}

func tailOf(s []string, n int) []string {
	if len(s) > n {
		s = s[len(s)-n:]
	}
	return append([]string{}, s...)
}
