//go:build verif

// Package alloc holds the C28 monitor: the real FreeingBumpHeapAllocator is
// driven over a sparse fake linear memory while a shadow interval set and
// per-allocation canaries decide the property.
package alloc

import (
	"encoding/binary"

	"github.com/ChainSafe/gossamer/lib/runtime"
)

const (
	chunkBits = 10
	chunkSize = 1 << chunkBits
	pageSize  = 65536
	// FourGiB is the wasm32 address-space limit the property names.
	FourGiB = uint64(1) << 32
)

type chunk [chunkSize]byte

// SparseMem is a runtime.Memory whose pages exist only once written, so that
// growth to the 4 GiB limit costs nothing. Untouched bytes read as zero, as
// in a fresh wasm memory. It accepts growth well beyond 4 GiB on purpose:
// the limit has to be enforced by the allocator, the monitor only observes.
type SparseMem struct {
	chunks    map[uint64]*chunk
	pages     uint64
	MaxPages  uint64 // Grow fails beyond this (memory definition max)
	GrowCalls int
	GrowFails int
	PeakSize  uint64
}

var _ runtime.Memory = (*SparseMem)(nil)

// NewSparseMem returns a memory of the given size in pages.
func NewSparseMem(pages, maxPages uint64) *SparseMem {
	return &SparseMem{chunks: map[uint64]*chunk{}, pages: pages, MaxPages: maxPages, PeakSize: pages * pageSize}
}

// Size is the current size in bytes.
func (m *SparseMem) Size() uint64 { return m.pages * pageSize }

// Grow adds delta pages.
func (m *SparseMem) Grow(delta uint32) (uint32, bool) {
	m.GrowCalls++
	if m.pages+uint64(delta) > m.MaxPages {
		m.GrowFails++
		return 0, false
	}
	prev := m.pages
	m.pages += uint64(delta)
	if m.Size() > m.PeakSize {
		m.PeakSize = m.Size()
	}
	return uint32(prev), true
}

// Get reads one byte without bounds check (monitor side).
func (m *SparseMem) Get(off uint64) byte {
	c := m.chunks[off>>chunkBits]
	if c == nil {
		return 0
	}
	return c[off&(chunkSize-1)]
}

// Set writes one byte without bounds check (monitor side).
func (m *SparseMem) Set(off uint64, b byte) {
	k := off >> chunkBits
	c := m.chunks[k]
	if c == nil {
		if b == 0 {
			return
		}
		c = new(chunk)
		m.chunks[k] = c
	}
	c[off&(chunkSize-1)] = b
}

// Touched returns the real bytes held.
func (m *SparseMem) Touched() int { return len(m.chunks) * chunkSize }

func (m *SparseMem) in(off uint64, n uint64) bool { return off+n <= m.Size() }

func (m *SparseMem) ReadByte(offset uint32) (byte, bool) { //nolint:govet
	if !m.in(uint64(offset), 1) {
		return 0, false
	}
	return m.Get(uint64(offset)), true
}

func (m *SparseMem) WriteByte(offset uint32, v byte) bool { //nolint:govet
	if !m.in(uint64(offset), 1) {
		return false
	}
	m.Set(uint64(offset), v)
	return true
}

func (m *SparseMem) ReadUint64Le(offset uint32) (uint64, bool) {
	if !m.in(uint64(offset), 8) {
		return 0, false
	}
	var b [8]byte
	for i := range b {
		b[i] = m.Get(uint64(offset) + uint64(i))
	}
	return binary.LittleEndian.Uint64(b[:]), true
}

func (m *SparseMem) WriteUint64Le(offset uint32, v uint64) bool {
	if !m.in(uint64(offset), 8) {
		return false
	}
	var b [8]byte
	binary.LittleEndian.PutUint64(b[:], v)
	for i := range b {
		m.Set(uint64(offset)+uint64(i), b[i])
	}
	return true
}

// Read returns a copy (a sparse memory has no contiguous view); the
// allocator never calls it.
func (m *SparseMem) Read(offset uint32, n uint64) ([]byte, bool) {
	if !m.in(uint64(offset), n) || n > 1<<26 {
		return nil, false
	}
	out := make([]byte, n)
	for i := range out {
		out[i] = m.Get(uint64(offset) + uint64(i))
	}
	return out, true
}

func (m *SparseMem) Write(offset uint32, v []byte) bool {
	if !m.in(uint64(offset), uint64(len(v))) {
		return false
	}
	for i, b := range v {
		m.Set(uint64(offset)+uint64(i), b)
	}
	return true
}
