//go:build verif

package scale_test

import (
	"fmt"
	"math/big"
	"strings"

	"github.com/ChainSafe/gossamer/zz_verif/vcommon"
)

// gen produces values of the universe with integers concentrated at every
// compact-mode boundary and at every byte length 1..9, 16, 17, 67.
type gen struct {
	r *vcommon.Rand
}

var compactBoundaries = func() []uint64 {
	b := []uint64{0, 1, 2, 62, 63, 64, 65, 255, 256, 1<<14 - 2, 1<<14 - 1, 1 << 14, 1<<14 + 1, 1<<16 - 1, 1 << 16,
		1<<30 - 1, 1 << 30, 1<<30 + 1, 1 << 31, 1<<32 - 1, 1 << 32, 1<<32 + 1, 1<<63 - 1, 1 << 63, ^uint64(0)}
	for n := uint(4); n <= 8; n++ {
		lo := uint64(1) << (8 * (n - 1))
		b = append(b, lo-1, lo, lo+1)
		if n < 8 {
			b = append(b, uint64(1)<<(8*n)-1)
		}
	}
	return b
}()

// exactBytes returns a uniformly chosen value whose minimal little-endian
// representation has exactly n bytes (1 <= n <= 8).
func (g *gen) exactBytes(n int) uint64 {
	v := g.r.Uint64()
	if n < 8 {
		v &= uint64(1)<<(8*uint(n)) - 1
	}
	top := uint64(0xff) << (8 * uint(n-1))
	if v&top == 0 {
		v |= uint64(g.r.Range(1, 255)) << (8 * uint(n-1))
	}
	return v
}

func (g *gen) compact() uint64 {
	switch p := g.r.Intn(100); {
	case p < 30:
		return vcommon.Pick(g.r, compactBoundaries)
	case p < 72:
		return g.exactBytes(g.r.Range(1, 8))
	case p < 82:
		return uint64(g.r.Intn(64))
	case p < 90:
		return uint64(g.r.Range(64, 1<<14-1))
	case p < 95:
		return uint64(g.r.Range(1<<14, 1<<30-1))
	}
	return g.r.Uint64()
}

var bigLens = []int{1, 2, 3, 4, 4, 5, 5, 6, 6, 7, 7, 8, 8, 9, 9, 12, 16, 16, 17, 17, 32, 33, 66, 67, 67}

func (g *gen) bigOfLen(n int, mode int) *big.Int {
	one := big.NewInt(1)
	switch mode {
	case 0: // smallest value of n bytes
		if n == 1 {
			return big.NewInt(int64(g.r.Intn(2)))
		}
		return new(big.Int).Lsh(one, uint(8*(n-1)))
	case 1: // largest
		return new(big.Int).Sub(new(big.Int).Lsh(one, uint(8*n)), one)
	}
	b := g.r.Bytes(n)
	if b[0] == 0 {
		b[0] = byte(g.r.Range(1, 255))
	}
	return new(big.Int).SetBytes(b)
}

func (g *gen) bigInt() *big.Int {
	if g.r.Chance(1, 4) {
		return new(big.Int).SetUint64(g.compact())
	}
	return g.bigOfLen(vcommon.Pick(g.r, bigLens), g.r.Intn(4))
}

func (g *gen) fixed(width int) uint64 {
	bits := uint(8 * width)
	mask := ^uint64(0) >> (64 - bits)
	switch g.r.Intn(10) {
	case 0:
		return 0
	case 1:
		return 1
	case 2:
		return mask // max / -1
	case 3:
		return uint64(1) << (bits - 1) // min of the signed type
	case 4:
		return uint64(1)<<(bits-1) - 1 // max of the signed type
	case 5:
		return uint64(g.r.Intn(256)) << (8 * uint(g.r.Intn(width))) // one non-zero byte
	}
	return g.r.Uint64() & mask
}

var runes = []rune("abcdefghijklmnopqrstuvwxyzABCDEFGHIJKLMNOPQRSTUVWXYZ0123456789 _-.:/\n\x00éßжあ中😀")

func (g *gen) seqLen(depth int, itemMin int, cheap bool) int {
	if depth >= 3 {
		return g.r.Intn(3)
	}
	switch p := g.r.Intn(100); {
	case p < 10:
		return 0
	case p < 65:
		return g.r.Range(1, 4)
	case p < 85:
		return g.r.Range(5, 20) / (depth + 1)
	case p < 99:
		if depth <= 1 && itemMin <= 4 {
			return g.r.Range(62, 66) // two-byte length prefix boundary
		}
		return g.r.Range(1, 6)
	}
	if depth == 0 && cheap {
		return g.r.Range(1<<14-2, 1<<14+2) // four-byte length prefix boundary
	}
	return g.r.Range(0, 8)
}

func (g *gen) byteLen(depth int) int {
	switch p := g.r.Intn(100); {
	case p < 10:
		return 0
	case p < 55:
		return g.r.Range(1, 8)
	case p < 70:
		return g.r.Range(62, 66)
	case p < 90:
		return g.r.Range(9, 300) / (depth + 1)
	case p < 95:
		if depth <= 1 {
			return g.r.Range(1<<14-2, 1<<14+2)
		}
	}
	return g.r.Range(0, 40)
}

func (g *gen) str(n int) []byte {
	var sb strings.Builder
	for sb.Len() < n {
		left := n - sb.Len()
		r := vcommon.Pick(g.r, runes)
		if left < 4 { // finish with ASCII so the byte length is exact
			r = rune('a' + g.r.Intn(26))
		}
		sb.WriteRune(r)
	}
	return []byte(sb.String())
}

func (g *gen) value(t *ty, depth int) *val {
	switch t.k {
	case kU8, kI8, kU16, kI16, kU32, kI32, kU64, kI64:
		return &val{u: g.fixed(fixedWidth(t.k))}
	case kCompact:
		return &val{u: g.compact()}
	case kCompactI:
		return &val{u: g.compact() &^ (1 << 63)} // non-negative int
	case kBig:
		return &val{big: g.bigInt()}
	case kU128:
		n := g.r.Range(0, 16)
		if n == 0 {
			return &val{big: new(big.Int)}
		}
		return &val{big: g.bigOfLen(n, g.r.Intn(4))}
	case kBool:
		return &val{u: uint64(g.r.Intn(2))}
	case kBytes:
		return &val{b: g.r.Bytes(g.byteLen(depth))}
	case kStr:
		return &val{b: g.str(g.byteLen(depth))}
	case kOpt:
		if g.r.Chance(1, 3) {
			return &val{}
		}
		return &val{u: 1, kids: []*val{g.value(t.elem, depth+1)}}
	case kResult:
		v := &val{u: uint64(g.r.Intn(2))}
		arm := t.ok
		if v.u == 1 {
			arm = t.er
		}
		if arm != nil {
			v.kids = []*val{g.value(arm, depth+1)}
		}
		return v
	case kEnum:
		vr := vcommon.Pick(g.r, t.variants)
		return &val{u: uint64(vr.idx), kids: []*val{g.value(vr.t, depth+1)}}
	case kArray:
		v := &val{}
		for i := 0; i < t.n; i++ {
			v.kids = append(v.kids, g.value(t.elem, depth+1))
		}
		return v
	case kSlice:
		n := g.seqLen(depth, t.elem.minEnc(), fixedWidth(t.elem.k) > 0 || t.elem.k == kBool)
		v := &val{}
		for i := 0; i < n; i++ {
			v.kids = append(v.kids, g.value(t.elem, depth+1))
		}
		return v
	case kMap:
		n := g.seqLen(depth+1, t.key.minEnc()+t.elem.minEnc(), false)
		type pair struct{ k, v *val }
		var ps []pair
	next:
		for i := 0; i < n; i++ {
			k := g.value(t.key, depth+2)
			for _, p := range ps {
				if cmpKey(t.key, p.k, k) == 0 {
					continue next
				}
			}
			ps = append(ps, pair{k, g.value(t.elem, depth+2)})
		}
		for i := 1; i < len(ps); i++ {
			for j := i; j > 0 && cmpKey(t.key, ps[j-1].k, ps[j].k) > 0; j-- {
				ps[j-1], ps[j] = ps[j], ps[j-1]
			}
		}
		v := &val{}
		for _, p := range ps {
			v.kids = append(v.kids, p.k, p.v)
		}
		return v
	case kStruct:
		v := &val{}
		for _, f := range t.fields {
			v.kids = append(v.kids, g.value(f.t, depth+1))
		}
		return v
	}
	panic("gen: kind")
}

// lenClass buckets a length by the compact mode of its prefix.
func lenClass(n int) string {
	switch {
	case n == 0:
		return "0"
	case n < 1<<6:
		return "m0"
	case n < 1<<14:
		return "m1"
	}
	return "m2"
}

// observe counts what the value exercises and returns its structural shape.
func observe(c *vcommon.Case, t *ty, v *val, sb *strings.Builder) {
	switch t.k {
	case kU8, kI8, kU16, kI16, kU32, kI32, kU64, kI64:
		c.Count("fixed_"+kindNames[t.k], 1)
		sb.WriteString(kindNames[t.k][:1])
	case kCompact, kCompactI, kBig:
		var n int
		if t.k == kBig {
			n = len(refCompactBig(v.big))
		} else {
			n = len(refCompact(v.u))
		}
		pre := "compact_enc_len_"
		if t.k == kBig {
			pre = "bigint_enc_len_"
		}
		c.Count(fmt.Sprintf("%s%d", pre, n), 1)
		if t.k != kBig {
			switch v.u {
			case 1<<6 - 1, 1 << 6, 1<<14 - 1, 1 << 14, 1<<30 - 1, 1 << 30, 1<<32 - 1, 1 << 32:
				c.Count("compact_at_mode_boundary", 1)
			}
		}
		fmt.Fprintf(sb, "c%d", n)
	case kU128:
		c.Count("u128", 1)
		fmt.Fprintf(sb, "U%d", len(v.big.Bytes()))
	case kBool:
		sb.WriteString("b")
	case kBytes, kStr:
		c.Count(kindNames[t.k]+"_len_"+lenClass(len(v.b)), 1)
		sb.WriteString("B" + lenClass(len(v.b)))
	case kOpt:
		if v.u == 0 {
			c.Count("option_none", 1)
			sb.WriteString("N")
			return
		}
		c.Count("option_some", 1)
		sb.WriteString("S(")
		observe(c, t.elem, v.kids[0], sb)
		sb.WriteString(")")
	case kResult:
		arm := t.ok
		if v.u == 1 {
			arm = t.er
			c.Count("result_err", 1)
		} else {
			c.Count("result_ok", 1)
		}
		fmt.Fprintf(sb, "R%d(", v.u)
		if arm != nil {
			observe(c, arm, v.kids[0], sb)
		}
		sb.WriteString(")")
	case kEnum:
		c.Count(fmt.Sprintf("enum_variant_%d", v.u), 1)
		fmt.Fprintf(sb, "E%d(", v.u)
		observe(c, t.variantAt(byte(v.u)), v.kids[0], sb)
		sb.WriteString(")")
	case kArray, kSlice:
		if t.k == kSlice {
			c.Count("vec_len_"+lenClass(len(v.kids)), 1)
			sb.WriteString("V" + lenClass(len(v.kids)))
		} else {
			c.Count("arrays", 1)
			sb.WriteString("A")
		}
		sb.WriteString("[")
		for i, k := range v.kids {
			if i >= 3 { // the shape keeps the first items only
				var skip strings.Builder
				observe(c, t.elem, k, &skip)
				continue
			}
			observe(c, t.elem, k, sb)
		}
		sb.WriteString("]")
	case kMap:
		n := len(v.kids) / 2
		switch {
		case n >= 2:
			c.Count("map_multi_entry", 1)
		default:
			c.Count("map_0_or_1_entry", 1)
		}
		fmt.Fprintf(sb, "M%d{", n)
		for i := 0; i+1 < len(v.kids); i += 2 {
			w := sb
			if i >= 4 {
				w = &strings.Builder{}
			}
			observe(c, t.key, v.kids[i], w)
			observe(c, t.elem, v.kids[i+1], w)
		}
		sb.WriteString("}")
	case kStruct:
		c.Count("structs", 1)
		sb.WriteString("{")
		for i, f := range t.fields {
			observe(c, f.t, v.kids[i], sb)
		}
		sb.WriteString("}")
	}
}
