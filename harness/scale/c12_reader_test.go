//go:build verif

package scale_test

// C12 extension: the *bytes.Reader decode path (see c11_reader_test.go) and
// hostile input at the end of a stream of values read with ONE decoder.
//
// Same oracle as checkC12 (the judge closure is handed over), same known
// finding attribution: the lenient acceptance of a byte string cut short by
// the end of input (C12-K1) lives in decodeBytes' known-remaining arm, which
// a *bytes.Reader takes exactly as Unmarshal's *bytes.Buffer does
// (`known && length > remaining` => the bytes present), so the deviation model
// RefDecodeK1 applies unchanged; on a stream "the end of input" is the end of
// the reader, whatever was decoded from it before.
//
// Stream probes: v1..vk (valid, free of C11-K1 values) are decoded first with
// the same Decoder and must come back equal with exactly their encodings
// consumed; the probe is then judged against the REMAINING bytes: the value
// returned must be the one whose canonical encoding is exactly the prefix
// consumed by this Decode call, a truncated remainder must fail, and the call
// may allocate 512 B per remaining byte + 64 KiB (the bytes already consumed
// from the reader describe nothing any more: a decoder that sizes a buffer by
// bytes.Reader.Size() instead of Len() is outside the budget when the stream is
// long).

import (
	"bytes"
	"fmt"
	"io"
	"runtime/debug"

	"github.com/ChainSafe/gossamer/pkg/scale"
	"github.com/ChainSafe/gossamer/zz_verif/vcommon"
)

// decodeAfter reads p.pre with one Decoder over rd and then the probe; ok is
// false when a prefix value did not come back (already reported).
func decodeAfter(c *vcommon.Case, p probe, kind string, meter bool) (o decOut, alloc uint64, ok bool) {
	var stream []byte
	var ends []int
	for _, it := range p.pre {
		e, _ := RefEncode(it.t, it.v)
		stream = append(stream, e...)
		ends = append(ends, len(stream))
	}
	start := len(stream)
	stream = append(stream, p.data...)
	var rd io.Reader
	var sp streamPos
	if kind == "bytes.Reader" {
		br := bytes.NewReader(stream)
		rd, sp = br, readerPos{br, len(stream)}
	} else {
		sr := &shortReader{data: stream, step: len(p.data)}
		rd, sp = sr, shortPos{sr}
	}
	d := scale.NewDecoder(rd)
	for i, it := range p.pre {
		c.Eval(1)
		dst := newDst(it.t)
		var err error
		func() {
			defer func() {
				if q := recover(); q != nil {
					err = fmt.Errorf("panic: %v", q)
				}
			}()
			err = d.Decode(dst.Interface())
		}()
		got, cerr := (*val)(nil), error(nil)
		if err == nil {
			got, cerr = fromGo(it.t, dst.Elem())
		}
		if err != nil || cerr != nil || !valEqual(it.t, got, it.v) || sp.pos() != ends[i] {
			c.Violation("stream-prefix", fmt.Sprintf("value %d (%s %s) of a stream read with one Decoder over a %s: err=%v conv=%v decoded=%s consumed=%d want %d",
				i, it.t.name, show(it.t, it.v), kind, err, cerr, show(it.t, got), sp.pos(), ends[i]),
				map[string]any{"type": it.t.name, "value": show(it.t, it.v), "stream": vcommon.Hex(clipIn(stream)), "value_index": i})
			return o, 0, false
		}
		c.Count("stream_probe_prefix_values_ok", 1)
	}
	var a0 uint64
	if meter {
		a0 = totalAlloc()
	}
	func() {
		defer func() {
			o.consumed = sp.pos() - start
			if q := recover(); q != nil {
				o.panicked = fmt.Sprintf("%v\n%s", q, trimStack(debug.Stack()))
			}
		}()
		dst := newDst(p.t)
		o.err = d.Decode(dst.Interface())
		if o.err == nil {
			o.v, o.convErr = fromGo(p.t, dst.Elem())
		}
	}()
	if meter {
		alloc = totalAlloc() - a0
	}
	return o, alloc, true
}

// c12ReaderArms is called by checkC12 for every probe.
func c12ReaderArms(c *vcommon.Case, p probe, judge func(how string, o decOut, alloc uint64, metered bool)) {
	tally := func(arm string, o decOut) {
		c.Count(arm+"_probes", 1)
		switch {
		case o.panicked != nil:
		case o.err != nil:
			c.Count(arm+"_rejected", 1)
		default:
			c.Count(arm+"_accepted", 1)
		}
	}
	var a0, a1 uint64
	if p.meter {
		a0 = totalAlloc()
	}
	o := realDecodeReader(p.t, p.data)
	if p.meter {
		a1 = totalAlloc()
	}
	tally("reader_arm", o)
	judge(howReader, o, a1-a0, p.meter)
	if len(p.pre) == 0 {
		return
	}
	n := 0
	for _, it := range p.pre {
		e, _ := RefEncode(it.t, it.v)
		n += len(e)
	}
	for _, kind := range []string{"bytes.Reader", "short-read stream"} {
		o, alloc, ok := decodeAfter(c, p, kind, p.meter)
		if !ok {
			continue
		}
		arm := "stream_tail_reader"
		if kind != "bytes.Reader" {
			arm = "stream_tail_short"
		}
		tally(arm, o)
		if p.meter && n >= 128<<10 {
			c.Count(arm+"_metered_after_128KiB", 1)
		}
		judge(fmt.Sprintf("Decoder.Decode(%s, after %d values / %d bytes read with the same Decoder)", kind, len(p.pre), n), o, alloc, p.meter)
	}
}

// streamPrefix draws 1..3 valid values without C11-K1 compacts.
func streamPrefix(c *vcommon.Case, g *gen) []tv {
	var pre []tv
	for i, n := 0, c.R.Range(1, 3); i < n; i++ {
		pre = append(pre, k1FreeValue(g, vcommon.Pick(c.R, universe), 2))
	}
	return pre
}

// c12Streams registers the stream groups of C12.
func c12Streams(r *vcommon.Run) {
	r.Floor("reader_arm_probes", 50000)
	r.Floor("reader_arm_rejected", 20000)
	r.Floor("reader_arm_accepted", 2000)
	r.Floor("stream_tail_reader_probes", 3000)
	r.Floor("stream_tail_reader_rejected", 1500)
	r.Floor("stream_tail_reader_accepted", 150)
	r.Floor("stream_tail_short_probes", 3000)
	r.Floor("stream_probe_prefix_values_ok", 5000)
	r.Floor("stream_tail_reader_metered_after_128KiB", 60)

	// seed independent: the corpus probes at the end of a LONG stream (one 192 KiB byte string, a struct, a vector):
	// whatever was read before, the probe may only allocate what the remaining bytes describe
	corpus := c12Corpus()
	long := []tv{{tBytes, &val{b: bytes.Repeat([]byte{0x6c}, 192<<10)}}, {tSA, &val{kids: []*val{uv(0x0102), uv(1)}}},
		{findType("Vec<u16>"), &val{kids: []*val{uv(1), uv(2), uv(3)}}}}
	r.Fixed("stream-corpus", len(corpus), func(c *vcommon.Case) {
		p := corpus[c.Idx]
		p.pre = long
		c.Sample(map[string]any{"type": p.t.name, "input": vcommon.Hex(p.data), "what": p.how, "after": "192 KiB byte string, sA, Vec<u16> on the same stream"})
		checkC12(c, p)
	})
	r.Cases("stream-mut", r.Scale(160), func(c *vcommon.Case) {
		g := &gen{r: c.R}
		t := universe[c.Idx%len(universe)]
		v := g.value(t, 1)
		canon, marks := RefEncode(t, v)
		if len(canon) > 600 {
			v = g.value(t, 2)
			canon, marks = RefEncode(t, v)
		}
		pre := streamPrefix(c, g)
		c.Distinct(t.name + fmt.Sprintf("|stream|%d|%d|%d", len(pre), len(canon), len(marks)))
		for i, p := range mutations(c, t, canon, marks, false) {
			if i > 160 {
				break
			}
			p.pre = pre
			checkC12(c, p)
		}
	})
}
