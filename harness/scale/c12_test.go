//go:build verif

package scale_test

import (
	"bytes"
	"errors"
	"fmt"
	"runtime"
	"testing"

	"github.com/ChainSafe/gossamer/pkg/scale"
	"github.com/ChainSafe/gossamer/zz_verif/vcommon"
)

// Allocation budget of one decode call: allocPerByte*len(input)+allocSlack
// bytes of runtime.MemStats.TotalAlloc delta. The reflection based decoder
// spends 100-250 bytes of garbage per decoded item (reflect.New, boxing, one
// make per integer read, append growth). Measured on the repaired tree over
// ~10^5 metered calls: alloc/(len+64) <= 128 (histogram alloc_ratio_le_* in the
// evidence). The budget leaves a factor 4 and is linear in the input, so an
// allocation sized by a DECLARED length instead of by the bytes present
// (1 GiB for 5 input bytes before the fix) is far outside it, as is any fixed
// pre-allocation above 64 KiB.
const (
	allocPerByte = 512
	allocSlack   = 64 << 10
)

func allocBudget(n int) uint64 { return uint64(allocPerByte*n + allocSlack) }

func totalAlloc() uint64 {
	var ms runtime.MemStats
	runtime.ReadMemStats(&ms)
	return ms.TotalAlloc
}

// hostile input under test
type probe struct {
	t     *ty
	data  []byte
	how   string // how the input was derived
	canon []byte // the canonical encoding it was derived from (may be nil)
	meter bool   // measure allocation (ReadMemStats stops the world: not on every probe)
	pre   []tv   // values that precede data on the same stream and are read with the same decoder (c12_reader_test.go)
}

// checkC12 applies the C12 oracle to one (bytes, type) pair on both entry
// points: scale.Unmarshal (bytes.Buffer) and scale.NewDecoder over a stream
// that returns 1..3 bytes per Read.
func checkC12(c *vcommon.Case, p probe) {
	t := p.t
	ref := RefDecode(t, p.data)
	c.Count("inputs", 1)
	c.Count("inputs_"+p.how, 1)
	switch {
	case ref.err == nil:
		c.Count("ref_valid", 1)
	case errors.Is(ref.err, errRefTruncated):
		c.Count("ref_truncated", 1)
	case errors.Is(ref.err, errRefNonCanonical):
		c.Count("ref_noncanonical_compact", 1)
	case errors.Is(ref.err, errRefInvalid):
		c.Count("ref_invalid_tag_or_bool", 1)
	default:
		c.Count("ref_out_of_range", 1)
	}
	wit := func(extra map[string]any) map[string]any {
		w := map[string]any{"type": t.name, "go_type": t.goT.String(), "input": vcommon.Hex(clipIn(p.data)), "input_len": len(p.data),
			"derived": p.how, "reference": fmt.Sprint(ref.err)}
		if ref.err == nil {
			w["reference"] = fmt.Sprintf("valid, %d bytes: %s", ref.n, show(t, ref.v))
		}
		if p.canon != nil {
			w["from_canonical"] = vcommon.Hex(clipIn(p.canon))
		}
		for k, x := range extra {
			w[k] = x
		}
		return w
	}

	judge := func(how string, o decOut, alloc uint64, metered bool) {
		c.Eval(1)
		if metered {
			c.Eval(1)
			c.Count("alloc_metered", 1)
			if alloc > allocBudget(len(p.data)) {
				c.Violation("alloc", fmt.Sprintf("%s(%s) of %d input bytes %s allocated %d bytes (budget %d)", how, t.name, len(p.data),
					vcommon.Hex(clipIn(p.data)), alloc, allocBudget(len(p.data))), wit(map[string]any{"allocated": alloc}))
			}
			if r := alloc / uint64(len(p.data)+64); r > 0 {
				c.Run.Count(fmt.Sprintf("alloc_ratio_le_%d", ratioBucket(r)), 1)
			}
		}
		switch {
		case o.panicked != nil:
			c.Violation("panic", fmt.Sprintf("%s(%s, %s) panicked: %v", how, vcommon.Hex(clipIn(p.data)), t.name, o.panicked), wit(nil))
		case o.err != nil:
			c.Count("rejected", 1)
			if ref.err == nil {
				// failing on well-formed input is not a C12 matter (C11 owns round trips)
				c.Count("valid_input_rejected", 1)
				if ref.wideCompact && errors.Is(o.err, scale.ErrCompactUintPrefixUnknown) {
					c.Count("valid_input_rejected_k1_wide_compact", 1)
				}
			}
		case ref.err != nil:
			if errors.Is(ref.err, errRefTruncated) && o.convErr == nil {
				// deviation oracle for C12-K1: the spec with "a byte string cut short by the end
				// of input decodes to the bytes present" explains exactly this value
				if k1, short := RefDecodeK1(t, p.data); short && k1.err == nil && valEqual(t, o.v, k1.v) {
					c.Count("k1_short_byte_string_accepted", 1)
					c.Known("C12-K1", fmt.Sprintf("%s accepted %s as %s = %s: a byte string payload is cut short by the end of input", how,
						vcommon.Hex(clipIn(p.data)), t.name, show(t, o.v)), wit(map[string]any{"decoded": show(t, o.v)}))
					return
				}
			}
			class, what := "invalid-accepted", "input with an invalid tag/bool byte"
			switch {
			case errors.Is(ref.err, errRefTruncated):
				class, what = "truncated-accepted", "truncated input"
			case errors.Is(ref.err, errRefNonCanonical):
				class, what = "noncanonical-accepted", "non-canonical compact integer"
			case errors.Is(ref.err, errRefRange):
				class, what = "out-of-range-accepted", "compact integer out of range for the type"
			}
			got := "?"
			if o.convErr == nil {
				got = show(t, o.v)
			}
			c.Violation(class, fmt.Sprintf("%s accepted %s %s as %s = %s (%s, derived by %s)", how, what, vcommon.Hex(clipIn(p.data)), t.name, got, ref.err, p.how),
				wit(map[string]any{"decoded": got}))
		case o.convErr != nil:
			c.Violation("unusable-value", fmt.Sprintf("%s(%s, %s) returned nil error and an unusable value: %v", how, vcommon.Hex(clipIn(p.data)), t.name, o.convErr), wit(nil))
		case !valEqual(t, o.v, ref.v):
			enc, _ := RefEncode(t, o.v)
			c.Violation("wrong-value", fmt.Sprintf("%s(%s, %s) = %s whose canonical encoding %s is not the consumed prefix %s", how, vcommon.Hex(clipIn(p.data)), t.name,
				show(t, o.v), vcommon.Hex(clipIn(enc)), vcommon.Hex(clipIn(p.data[:ref.n]))), wit(map[string]any{"decoded": show(t, o.v)}))
		default:
			c.Count("accepted_equal_to_reference", 1)
			if ref.mapUnsorted || ref.mapDup {
				// Rust's BTreeMap decoder collects entries in any order too; the value re-encodes
				// to different bytes. Reported, not asserted (see NOTES.md).
				if ref.mapDup {
					c.Count("map_duplicate_key_input_accepted", 1)
				} else {
					c.Count("map_unsorted_input_accepted", 1)
				}
			} else if how != "Unmarshal" && o.consumed != ref.n {
				c.Violation("consumed", fmt.Sprintf("%s(%s) took %d bytes from the stream, the value occupies %d", how, t.name, o.consumed, ref.n), wit(nil))
			}
		}
	}

	var a0, a1 uint64
	if p.meter {
		a0 = totalAlloc()
	}
	o := realUnmarshal(t, p.data)
	if p.meter {
		a1 = totalAlloc()
	}
	judge("Unmarshal", o, a1-a0, p.meter)
	if p.meter {
		a0 = totalAlloc()
	}
	o = realDecodeStream(t, p.data, len(p.data))
	if p.meter {
		a1 = totalAlloc()
	}
	judge("Decoder.Decode", o, a1-a0, p.meter)
	// third decode path: scale.NewDecoder(bytes.NewReader(b)), alone and at the end of a stream of values
	// read with the same decoder (c12_reader_test.go)
	c12ReaderArms(c, p, judge)
}

func ratioBucket(r uint64) int {
	b := 1
	for uint64(b) < r {
		b *= 2
	}
	return b
}

func clipIn(b []byte) []byte {
	if len(b) > 200 {
		return b[:200]
	}
	return b
}

// hostile compact integers used as length prefixes / values
var hostileCompacts = [][]byte{
	{0xfc},                                                 // 63
	{0xfd, 0xff},                                           // 2^14-1
	{0xfe, 0xff, 0xff, 0xff},                               // 2^30-1
	{0xfe, 0xff, 0xff, 0x7f},                               // 2^29-1
	{0x02, 0x00, 0x10, 0x00},                               // 2^18
	{0x02, 0x00, 0x00, 0x04},                               // 2^24
	{0x03, 0x00, 0x00, 0x00, 0x40},                         // 2^30
	{0x03, 0xfc, 0xff, 0xff, 0xff},                         // 0xfffffffc
	{0x03, 0xff, 0xff, 0xff, 0xff},                         // 2^32-1
	{0x07, 0x00, 0x00, 0x00, 0x00, 0x01},                   // 2^32 (five-byte mode)
	{0x0b, 0x00, 0x00, 0x00, 0x00, 0x00, 0x01},             // 2^40
	{0x0f, 0x00, 0x00, 0x00, 0x00, 0x00, 0x00, 0x01},       // 2^48
	{0x13, 0x00, 0x00, 0x00, 0x00, 0x00, 0x00, 0x00, 0x01}, // 2^56
	{0x13, 0xff, 0xff, 0xff, 0xff, 0xff, 0xff, 0xff, 0x7f}, // 2^63-1
	{0x13, 0xff, 0xff, 0xff, 0xff, 0xff, 0xff, 0xff, 0xff}, // 2^64-1
	{0x17, 0, 0, 0, 0, 0, 0, 0, 0, 1},                      // 2^64 (nine bytes)
	{0xff},                                                 // 67-byte mode, nothing follows
}

// nonCanonical returns longer-than-necessary encodings of x.
func nonCanonical(x uint64) [][]byte {
	var out [][]byte
	if x < 1<<6 {
		out = append(out, leBytes(x<<2|1, 2))
	}
	if x < 1<<14 {
		out = append(out, leBytes(x<<2|2, 4))
	}
	if x < 1<<30 {
		out = append(out, append([]byte{0x03}, leBytes(x, 4)...))
	}
	for n := 5; n <= 9; n++ { // big-integer mode with zero most significant byte(s)
		if n <= 8 && x >= uint64(1)<<(8*uint(n-1)) {
			continue
		}
		b := make([]byte, n)
		copy(b, leBytes(x, 8))
		out = append(out, append([]byte{byte((n-4)<<2 | 3)}, b...))
	}
	return out
}

func splice(data []byte, off, n int, repl []byte) []byte {
	out := make([]byte, 0, len(data)-n+len(repl))
	out = append(out, data[:off]...)
	out = append(out, repl...)
	return append(out, data[off+n:]...)
}

// mutations derives the hostile inputs of one canonical encoding.
func mutations(c *vcommon.Case, t *ty, canon []byte, marks []mark, exhaustive bool) []probe {
	var ps []probe
	add := func(how string, data []byte, meter bool) {
		ps = append(ps, probe{t: t, data: data, how: how, canon: canon, meter: meter})
	}
	add("canonical", canon, true)
	// every truncation (sampled when the encoding is long)
	step := 1
	if len(canon) > 96 && !exhaustive {
		step = 1 + len(canon)/64
	}
	for cut := 0; cut < len(canon); cut += step {
		add("truncate", canon[:cut], cut%4 == 0)
	}
	if len(canon) > 0 {
		add("truncate", canon[:len(canon)-1], true)
	}
	// every single-bit flip (sampled when long)
	nbits := len(canon) * 8
	bstep := 1
	if nbits > 512 && !exhaustive {
		bstep = 1 + nbits/384
	}
	for b := c.R.Intn(bstep); b < nbits; b += bstep {
		m := append([]byte{}, canon...)
		m[b/8] ^= 1 << uint(b%8)
		add("bitflip", m, b%8 == 0)
	}
	// crafted length prefixes / compact values at every compact position
	for i, mk := range marks {
		if i >= 6 && !exhaustive {
			mk = marks[c.R.Intn(len(marks))]
		}
		if i >= 12 {
			break
		}
		for _, h := range hostileCompacts {
			add("hostile-prefix", splice(canon, mk.off, mk.n, h), true)
			if mk.length && i == 0 {
				// declared length, then nothing / a few bytes
				add("hostile-prefix", append(append([]byte{}, canon[:mk.off]...), h...), true)
			}
		}
		if mk.fits {
			for _, nc := range nonCanonical(mk.v) {
				add("noncanonical-compact", splice(canon, mk.off, mk.n, nc), false)
			}
		}
	}
	return ps
}

func c12Corpus() []probe {
	hx := func(s string) []byte {
		var b []byte
		if _, err := fmt.Sscanf(s, "%x", &b); err != nil && s != "" {
			panic(s)
		}
		return b
	}
	T := findType
	list := []struct {
		t    *ty
		in   string
		note string
	}{
		// short reads were zero-filled: a u32 from two bytes decoded as 513
		{tU32, "0102", "u32 from 2 bytes"}, {tU16, "01", "u16 from 1 byte"}, {tU64, "01020304050607", "u64 from 7 bytes"},
		{tI32, "ffffff", "i32 from 3 bytes"}, {tI64, "80", "i64 from 1 byte"}, {tU128, "010203", "u128 from 3 bytes"},
		{tStr, "1061", "string of declared length 4 with 1 byte"}, {tBytes, "0c0102", "bytes of declared length 3 with 2"},
		{tCmp, "0200", "four-byte compact from 2 bytes"}, {tCmp, "03000000", "big-integer compact cut"},
		{tBig, "0b000000", "6-byte bigint from 3 bytes"}, {tBig, "02ff", "four-byte mode bigint from 2 bytes"},
		{tCmp, "13ffffffffffff", "8-byte compact from 6 bytes"},
		// declared length allocated before reading: 5 bytes => 1 GiB
		{tBytes, "feffff3f01", "1 GiB declared"}, {tBytes, "03ffffffff", "4 GiB declared"}, {tStr, "feffffff", "1 GiB string declared"},
		{tBytes, "03000000400102", "2^30 declared"}, {T("Vec<Bytes>"), "04feffffff", "inner byte string 1 GiB"},
		{T("Vec<u16>"), "feffffff0100", "2^30 u16 declared"}, {T("Vec<u128>"), "03ffffffff", "2^32-1 u128 declared"},
		{T("Map<u8,u8>"), "feffffff0101", "2^30 map entries declared"}, {T("Vec<Vec<u8>>"), "feffffff", "2^30 vectors"},
		{T("Option<Bytes>"), "01feffffff", "Some(1 GiB)"}, {tSTag, "00000000feffffff", "struct field 1 GiB"},
		{tEnum, "01feffffff", "enum variant with 2^30 items"}, {tResB, "01feffffff", "Err(1 GiB)"},
		// non-canonical compact integers
		{tBig, "0100", "0 in two-byte mode"}, {tBig, "fd00", "63 in two-byte mode"}, {tBig, "02000000", "0 in four-byte mode"},
		{tBig, "feff0000", "2^14-1 in four-byte mode"}, {tBig, "0301000000", "1 in big-integer mode"},
		{tBig, "03ffffff3f", "2^30-1 in big-integer mode"}, {tBig, "070000004000", "2^30 with a zero top byte"},
		{tBig, "13ffffffffffffff00", "8-byte mode zero top byte"}, {tBig, "ff" + zeros(66) + "00", "67-byte mode zero top byte"},
		{tCmp, "0100", "uint 0 in two-byte mode"}, {tCmp, "02000000", "uint 0 in four-byte mode"}, {tCmp, "0300000000", "uint 0 big mode"},
		{tCmp, "03ffffff3f", "uint 2^30-1 big mode"}, {tCmp, "130000000000000000", "uint 0 in 8-byte mode"},
		{tCmp, "13ffffffffffffff00", "uint 2^56-1 in 8-byte mode"}, {tCmp, "17000000000000000001", "uint: 9-byte mode (2^64)"},
		{tBytes, "010001", "length 0 in two-byte mode"}, {T("Vec<u16>"), "05000100", "vec length 1 in two-byte mode"},
		{tCmpI, "0100", "int 0 in two-byte mode"}, {tCmp, "fd00", "uint 63 in two-byte mode"}, {tCmp, "feff0000", "uint 2^14-1 in four-byte mode"},
		{tCmp, "0300000000", "uint 0 in big-integer mode"}, {T("Vec<u16>"), "feff00000100", "vec length 2^14-1 in four-byte mode"},
		// invalid tags
		{tBool, "02", "bool 2"}, {tBool, "ff", "bool 255"}, {T("Option<u32>"), "0201000000", "option tag 2"},
		{tResA, "0201000000", "result tag 2"}, {tEnum, "0300", "unknown enum index 3"}, {tEnum, "c901", "unknown enum index 201"},
		{T("Option<bool>"), "0102", "Some(bool 2)"}, {tMyBool, "03", "custom bool 3"},
		// decode into a nil map panicked
		{T("Map<u8,u8>"), "040102", "one entry into a nil map"}, {tNest, "", "empty input for a nested struct"},
		{T("Map<u8,u8>"), "0801020103", "duplicate key"}, {T("Map<u8,u8>"), "0802010102", "descending keys"},
		// empty input for every leading kind
		{tU8, "", "empty"}, {tBool, "", "empty"}, {tCmp, "", "empty"}, {tBig, "", "empty"}, {tBytes, "", "empty"}, {tEnum, "", "empty"},
		{tResA, "", "empty"}, {T("Option<u32>"), "", "empty"}, {T("[u8;4]"), "", "empty"}, {T("Vec<u16>"), "", "empty"},
	}
	var ps []probe
	for _, l := range list {
		ps = append(ps, probe{t: l.t, data: hx(l.in), how: "corpus: " + l.note, meter: true})
	}
	return ps
}

func zeros(n int) string { return string(bytes.Repeat([]byte("00"), n)) }

func TestVerifC12(t *testing.T) {
	r := vcommon.Start(t, "C12")
	defer r.Finish()
	if err := refSelfCheck(); err != nil {
		r.Fixed("selfcheck", 1, func(c *vcommon.Case) { c.Inconclusive("RefSCALE self-validation failed: " + err.Error()) })
		return
	}
	r.Floor("inputs_truncate", 5000)
	r.Floor("inputs_bitflip", 5000)
	r.Floor("inputs_hostile-prefix", 3000)
	r.Floor("inputs_noncanonical-compact", 500)
	r.Floor("inputs_random", 1000)
	r.Floor("ref_truncated", 5000)
	r.Floor("ref_noncanonical_compact", 500)
	r.Floor("ref_invalid_tag_or_bool", 200)
	r.Floor("ref_valid", 1000)
	r.Floor("rejected", 10000)
	r.Floor("accepted_equal_to_reference", 1000)
	r.Floor("alloc_metered", 5000)

	corpus := c12Corpus()
	r.Fixed("corpus", len(corpus), func(c *vcommon.Case) {
		p := corpus[c.Idx]
		c.Sample(map[string]any{"type": p.t.name, "input": vcommon.Hex(p.data), "what": p.how})
		checkC12(c, p)
	})
	// the harness' own expectation: a proper prefix of a canonical encoding never decodes (prefix-free code)
	// seed independent: every type, mutations of two generated values, exhaustively
	r.Fixed("types", len(universe), func(c *vcommon.Case) {
		g := &gen{r: c.R}
		t := universe[c.Idx]
		for i := 0; i < 2; i++ {
			v := g.value(t, 1) // depth 1: no 16 KiB items
			canon, marks := RefEncode(t, v)
			if len(canon) > 400 {
				continue
			}
			for _, p := range mutations(c, t, canon, marks, true) {
				checkC12(c, p)
			}
		}
	})
	// destinations outside the supported shapes must fail, not panic
	unsupported := []struct {
		what string
		dst  func() any
		in   []byte
	}{
		{"nil interface element of []any (reported by eng-wire, reachable from a GRANDPA justification)", func() any { return new([]any) }, []byte{4, 8}},
		{"nil interface", func() any { return new(any) }, []byte{1, 2, 3}},
		{"struct with an any field", func() any { return new(struct{ A any }) }, []byte{0}},
		{"chan", func() any { return new(chan int) }, []byte{0}},
		{"float64", func() any { return new(float64) }, []byte{0, 0, 0, 0, 0, 0, 0, 0}},
	}
	r.Fixed("unsupported-dst", len(unsupported), func(c *vcommon.Case) {
		u := unsupported[c.Idx]
		c.Eval(1)
		c.Count("unsupported_destination_probes", 1)
		func() {
			defer func() {
				if p := recover(); p != nil {
					c.Violation("panic", fmt.Sprintf("Unmarshal(%s) into %s panicked: %v", vcommon.Hex(u.in), u.what, p),
						map[string]any{"input": vcommon.Hex(u.in), "destination": u.what})
				}
			}()
			if err := scale.Unmarshal(u.in, u.dst()); err == nil {
				c.Count("unsupported_destination_accepted", 1)
			}
		}()
	})
	r.Cases("mut", r.Scale(600), func(c *vcommon.Case) {
		g := &gen{r: c.R}
		t := universe[c.Idx%len(universe)]
		v := g.value(t, 0)
		canon, marks := RefEncode(t, v)
		c.Distinct(t.name + fmt.Sprintf("|%d|%d", len(canon), len(marks)))
		for i, p := range mutations(c, t, canon, marks, false) {
			if len(canon) > 4096 && i > 200 {
				break
			}
			checkC12(c, p)
		}
	})
	r.Cases("random", r.Scale(400), func(c *vcommon.Case) {
		t := universe[c.Idx%len(universe)]
		for i := 0; i < 8; i++ {
			n := c.R.Range(0, 40)
			data := c.R.Bytes(n)
			if n > 0 && c.R.Bool() { // bias the first bytes to small tags / lengths
				data[0] = byte(c.R.Intn(12))
			}
			if n > 1 && c.R.Chance(1, 3) {
				data[1] = byte(c.R.Intn(8))
			}
			c.Distinct(t.name + "|random|" + vcommon.Hex(data[:min(n, 3)]))
			checkC12(c, probe{t: t, data: data, how: "random", meter: i%2 == 0})
		}
	})
	// hostile input at the end of a stream of values read with one decoder (c12_reader_test.go)
	c12Streams(r)
}
