//go:build verif

package scale_test

// C13 extension: Uint128.Compare against math/big Cmp.
//
// engine.json lists Compare among the views that must denote the same number:
// "u.Compare(v)" is the sign of V(u) - V(v) where V = Upper*2^64 + Lower. It
// decides BABE primary slot claims (lib/babe: vrf output as a Uint128 against
// the threshold). Pairs are concentrated around byte boundaries and around
// the Upper/Lower word boundary (2^64), where a comparison that looks at the
// low word first, or compares byte strings of different order, goes wrong.
//
// NewUint128 with inputs that do not fit 128 bits (a []byte longer than 16
// bytes, a big.Int >= 2^128, a negative big.Int) and NewUint128(bytes,
// BigEndian) are NOT views the property names: they are only counted
// (c13obs_*), never asserted.

import (
	"encoding/binary"
	"fmt"
	"math/big"

	"github.com/ChainSafe/gossamer/pkg/scale"
	"github.com/ChainSafe/gossamer/zz_verif/vcommon"
)

func u128From(v *big.Int) *scale.Uint128 {
	lo := new(big.Int).And(v, new(big.Int).SetUint64(^uint64(0))).Uint64()
	hi := new(big.Int).Rsh(v, 64).Uint64()
	return &scale.Uint128{Upper: hi, Lower: lo}
}

func sign(x int) int {
	switch {
	case x < 0:
		return -1
	case x > 0:
		return 1
	}
	return 0
}

// checkCompare asserts a.Compare(b) == V(a).Cmp(V(b)) in both directions and
// that a value compares equal to an independent copy of itself.
func checkCompare(c *vcommon.Case, a, b *scale.Uint128) {
	A, B := u128Big(a), u128Big(b)
	want := A.Cmp(B)
	w := map[string]any{"a": A.String(), "b": B.String(), "a_upper": a.Upper, "a_lower": a.Lower, "b_upper": b.Upper, "b_lower": b.Lower}
	c.Count("compare_pairs", 1)
	switch {
	case a.Upper != b.Upper && a.Lower != b.Lower && (a.Upper < b.Upper) != (a.Lower < b.Lower):
		// the two words disagree: only "Upper decides" gives the right answer
		c.Count("compare_words_disagree", 1)
		c.Distinct(fmt.Sprintf("cmp|%s|%s", A, B))
	case a.Upper == b.Upper && a.Lower != b.Lower:
		c.Count("compare_upper_equal", 1)
	case a.Upper != b.Upper && a.Lower == b.Lower:
		c.Count("compare_lower_equal", 1)
	case *a == *b:
		c.Count("compare_equal_values", 1)
	}
	if d := new(big.Int).Sub(A, B); d.CmpAbs(big.NewInt(1)) == 0 {
		c.Count("compare_adjacent", 1)
	}
	c.Eval(3)
	if got := a.Compare(b); sign(got) != want || (got != -1 && got != 0 && got != 1) {
		w["compare"] = got
		c.Violation("compare", fmt.Sprintf("Uint128(%s).Compare(%s) = %d, big.Int Cmp = %d", A, B, got, want), w)
		return
	}
	if got := b.Compare(a); sign(got) != -want {
		w["compare"] = got
		c.Violation("compare", fmt.Sprintf("Uint128(%s).Compare(%s) = %d, big.Int Cmp = %d (antisymmetry)", B, A, got, -want), w)
		return
	}
	cp := *a
	if got := a.Compare(&cp); got != 0 {
		w["compare"] = got
		c.Violation("compare", fmt.Sprintf("Uint128(%s).Compare(copy of itself) = %d", A, got), w)
	}
}

// observeOversize counts what NewUint128 does with inputs that have no
// 128-bit value. Nothing here is asserted (only a panic would be recorded by
// the recorder as class panic).
func observeOversize(c *vcommon.Case, r *vcommon.Rand) {
	// a little-endian byte string longer than 16 bytes
	n := r.Range(17, 40)
	raw := r.Bytes(n)
	if raw[n-1] == 0 {
		raw[n-1] = 1
	}
	c.Count("c13obs_newuint128_bytes_over_16", 1)
	if u, err := scale.NewUint128(raw); err != nil {
		c.Count("c13obs_newuint128_bytes_over_16_rejected", 1)
	} else if u != nil && u128Big(u).Cmp(leToBig(raw[:16])) == 0 {
		c.Count("c13obs_newuint128_bytes_over_16_truncated_to_low_16", 1)
	} else {
		c.Count("c13obs_newuint128_bytes_over_16_other", 1)
	}
	// a big.Int >= 2^128
	v := new(big.Int).SetBytes(r.Bytes(r.Range(17, 40)))
	v.SetBit(v, 128+r.Intn(60), 1)
	c.Count("c13obs_newuint128_big_over_2_128", 1)
	if u, err := scale.NewUint128(v); err != nil {
		c.Count("c13obs_newuint128_big_over_2_128_rejected", 1)
	} else if u != nil && u128Big(u).Cmp(new(big.Int).And(v, new(big.Int).Sub(pow2(128), big.NewInt(1)))) == 0 {
		c.Count("c13obs_newuint128_big_over_2_128_low_128_bits", 1)
	} else {
		c.Count("c13obs_newuint128_big_over_2_128_other_value", 1)
	}
	// exactly 2^128
	if u, err := scale.NewUint128(pow2(128)); err != nil {
		c.Count("c13obs_newuint128_2_128_rejected", 1)
	} else if u != nil {
		c.Count("c13obs_newuint128_2_128_accepted", 1)
	}
	// big-endian byte input: an earlier decision keeps it out of the asserted views
	// (the unchanged tree swaps the words there)
	x := &scale.Uint128{Upper: r.Uint64(), Lower: r.Uint64()}
	be := x.Bytes(binary.BigEndian)
	c.Count("c13obs_newuint128_bigendian_bytes", 1)
	if u, err := scale.NewUint128(be, binary.BigEndian); err == nil && u != nil && *u == *x {
		c.Count("c13obs_newuint128_bigendian_bytes_same_value", 1)
	} else {
		c.Count("c13obs_newuint128_bigendian_bytes_other_value", 1)
	}
}

// comparePool: values around every byte boundary and around the word boundary.
func comparePool() []*big.Int {
	var out []*big.Int
	one := big.NewInt(1)
	add := func(v *big.Int) {
		if v.Sign() >= 0 && v.BitLen() <= 128 {
			out = append(out, v)
		}
	}
	add(big.NewInt(0))
	for k := 0; k <= 128; k += 8 {
		p := new(big.Int).Lsh(one, uint(k))
		add(new(big.Int).Sub(p, one))
		add(p)
		add(new(big.Int).Add(p, one))
	}
	for _, k := range []uint{63, 65, 127} {
		add(new(big.Int).Lsh(one, k))
	}
	// words that disagree: (Upper, Lower) = (1, 0) vs (0, max), (2, 1) vs (1, 2), ...
	for _, p := range [][2]uint64{{1, 0}, {0, ^uint64(0)}, {2, 1}, {1, 2}, {1, ^uint64(0)}, {^uint64(0), 0}, {^uint64(0), 1}, {1 << 63, 0}, {0, 1 << 63},
		{0x0100, 0x01}, {0x01, 0x0100}} {
		v := new(big.Int).SetUint64(p[0])
		v.Lsh(v, 64).Add(v, new(big.Int).SetUint64(p[1]))
		add(v)
	}
	return out
}

func c13Compare(r *vcommon.Run) {
	r.Floor("compare_pairs", 3000)
	r.Floor("compare_words_disagree", 300)
	r.Floor("compare_upper_equal", 200)
	r.Floor("compare_lower_equal", 50)
	r.Floor("compare_equal_values", 50)
	r.Floor("compare_adjacent", 50)
	r.Floor("c13obs_newuint128_bytes_over_16", 100)
	r.Floor("c13obs_newuint128_big_over_2_128", 100)

	pool := comparePool()
	// seed independent: every ordered pair of the pool
	r.Fixed("compare-fixed", len(pool), func(c *vcommon.Case) {
		a := u128From(pool[c.Idx])
		for _, q := range pool {
			checkCompare(c, a, u128From(q))
		}
	})
	r.Cases("compare", r.Scale(1500), func(c *vcommon.Case) {
		word := func() uint64 {
			switch c.R.Intn(5) {
			case 0:
				return vcommon.Pick(c.R, []uint64{0, 1, 0xff, 0x100, 1 << 63, ^uint64(0), ^uint64(0) - 1})
			case 1:
				return uint64(c.R.Intn(256)) << (8 * uint(c.R.Intn(8)))
			}
			return c.R.Uint64() >> uint(c.R.Intn(64))
		}
		a := &scale.Uint128{Upper: word(), Lower: word()}
		var b *scale.Uint128
		switch c.R.Intn(6) {
		case 0: // words swapped
			b = &scale.Uint128{Upper: a.Lower, Lower: a.Upper}
		case 1: // same upper word
			b = &scale.Uint128{Upper: a.Upper, Lower: word()}
		case 2: // same lower word
			b = &scale.Uint128{Upper: word(), Lower: a.Lower}
		case 3: // neighbour (with carry across the word boundary)
			v := u128Big(a)
			if c.R.Bool() && v.Sign() > 0 {
				v.Sub(v, big.NewInt(1))
			} else if v.BitLen() <= 127 {
				v.Add(v, big.NewInt(1))
			}
			b = u128From(v)
		case 4: // disagreeing words
			b = &scale.Uint128{Upper: a.Upper + 1, Lower: a.Lower - 1}
			if a.Upper == ^uint64(0) || a.Lower == 0 {
				b = &scale.Uint128{Upper: word(), Lower: word()}
			}
		default:
			b = &scale.Uint128{Upper: word(), Lower: word()}
		}
		checkCompare(c, a, b)
		checkCompare(c, a, &scale.Uint128{Upper: a.Upper, Lower: a.Lower})
		if c.Idx%4 == 0 {
			observeOversize(c, c.R)
		}
		c.Sample(map[string]any{"a": u128Big(a).String(), "b": u128Big(b).String(), "compare": a.Compare(b)})
	})
}
