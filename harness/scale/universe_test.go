//go:build verif

package scale_test

// The value universe of C11 / C12: a fixed family of Go types assembled from
// every shape the properties name, each with a hand-written descriptor (ty)
// that states its canonical encoding, and a reflection bridge between the
// reference value model (val) and Go values. The bridge is the harness' own
// code; it shares nothing with pkg/scale (field order, tags, enum indices are
// written in the descriptors, not derived from the Go types).

import (
	"fmt"
	"math/big"
	"reflect"

	"github.com/ChainSafe/gossamer/pkg/scale"
)

// ---- custom primitives
type (
	myU16   uint16
	myI64   int64
	myUint  uint
	myStr   string
	myBool  bool
	myBytes []byte // named byte slice: encoded through the generic slice path
)

// ---- structs
type sA struct {
	A uint16
	B bool
}

// tags reverse the declaration order
type sTag struct {
	C string `scale:"3"`
	A uint32 `scale:"1"`
	B []byte `scale:"2"`
}

// tagged fields come first (ascending index), untagged ones follow in declaration order
type sMix struct {
	X uint8
	Y uint16 `scale:"2"`
	Z uint32 `scale:"1"`
	W bool
}

type sSkip struct {
	A      uint32
	Skip   string `scale:"-"`
	B      *uint16
	hidden int   //nolint:unused
	Skip2  []int `scale:"-"`
	C      uint
}

type sInts struct {
	A uint8
	B int8
	C uint16
	D int16
	E uint32
	F int32
	G uint64
	H int64
	I uint
	J int
}

type sNest struct {
	In  sTag
	Opt *sA
	L   []sA
	M   map[uint8]uint16
	E   vEnum
	Big *big.Int
	U   *scale.Uint128
	N   uint `scale:"1"`
	Arr [3]uint16
	Cp  myUint
}

type sDeep struct {
	Nest sNest  `scale:"2"`
	Mix  *sMix  `scale:"1"`
	Tail []sMix `scale:"3"`
	S    myStr
}

type sRes struct {
	Pre  uint16
	R    scale.Result // Result<u32, string>
	Post bool
}

type sKey struct {
	Hi uint8
	Lo int16
}

// ---- a VaryingDataType (Rust enum) with non-contiguous indices
type (
	vdtU32    uint32
	vdtBytes  []byte
	vdtStruct struct {
		A uint16
		B string
	}
	vdtCompact uint
	vdtFlag    bool
)

type vEnum struct{ inner any }

func (v *vEnum) SetValue(value any) error {
	switch value.(type) {
	case vdtU32, vdtBytes, vdtStruct, vdtCompact, vdtFlag, *big.Int:
		v.inner = value
		return nil
	}
	return fmt.Errorf("vEnum: unsupported value %T", value)
}

func (v vEnum) IndexValue() (uint, any, error) {
	switch v.inner.(type) {
	case vdtU32:
		return 0, v.inner, nil
	case vdtBytes:
		return 1, v.inner, nil
	case vdtStruct:
		return 2, v.inner, nil
	case vdtCompact:
		return 5, v.inner, nil
	case *big.Int:
		return 7, v.inner, nil
	case vdtFlag:
		return 200, v.inner, nil
	}
	return 0, nil, scale.ErrUnsupportedVaryingDataTypeValue
}

func (v vEnum) Value() (any, error) {
	_, val, err := v.IndexValue()
	return val, err
}

func (v vEnum) ValueAt(index uint) (any, error) {
	switch index {
	case 0:
		return vdtU32(0), nil
	case 1:
		return vdtBytes(nil), nil
	case 2:
		return vdtStruct{}, nil
	case 5:
		return vdtCompact(0), nil
	case 7:
		return (*big.Int)(nil), nil
	case 200:
		return vdtFlag(false), nil
	}
	return nil, scale.ErrUnknownVaryingDataTypeValue
}

// ---------------------------------------------------------------- descriptors

func rt(x any) reflect.Type { return reflect.TypeOf(x) }

func prim(name string, k kind, zero any) *ty { return &ty{name: name, k: k, goT: rt(zero)} }

func opt(e *ty) *ty {
	return &ty{name: "Option<" + e.name + ">", k: kOpt, elem: e, goT: reflect.PointerTo(e.goT)}
}
func vec(e *ty) *ty {
	return &ty{name: "Vec<" + e.name + ">", k: kSlice, elem: e, goT: reflect.SliceOf(e.goT)}
}
func arr(n int, e *ty) *ty {
	return &ty{name: fmt.Sprintf("[%s;%d]", e.name, n), k: kArray, n: n, elem: e, goT: reflect.ArrayOf(n, e.goT)}
}
func mapOf(k, e *ty) *ty {
	return &ty{name: "Map<" + k.name + "," + e.name + ">", k: kMap, key: k, elem: e, goT: reflect.MapOf(k.goT, e.goT)}
}
func strct(zero any, fs ...field) *ty {
	return &ty{name: rt(zero).Name(), k: kStruct, fields: fs, goT: rt(zero)}
}
func result(name string, ok, er *ty) *ty {
	t := &ty{name: name, k: kResult, ok: ok, er: er, goT: rt(scale.Result{})}
	t.mk = func() reflect.Value {
		var o, e any
		if ok != nil {
			o = zeroOf(ok).Interface()
		}
		if er != nil {
			e = zeroOf(er).Interface()
		}
		return reflect.ValueOf(scale.NewResult(o, e))
	}
	return t
}

var (
	tU8    = prim("u8", kU8, uint8(0))
	tI8    = prim("i8", kI8, int8(0))
	tU16   = prim("u16", kU16, uint16(0))
	tI16   = prim("i16", kI16, int16(0))
	tU32   = prim("u32", kU32, uint32(0))
	tI32   = prim("i32", kI32, int32(0))
	tU64   = prim("u64", kU64, uint64(0))
	tI64   = prim("i64", kI64, int64(0))
	tCmp   = prim("Compact", kCompact, uint(0))
	tCmpI  = prim("CompactInt", kCompactI, int(0))
	tBig   = prim("BigInt", kBig, (*big.Int)(nil))
	tU128  = prim("u128", kU128, (*scale.Uint128)(nil))
	tBool  = prim("bool", kBool, false)
	tBytes = prim("Bytes", kBytes, []byte(nil))
	tStr   = prim("str", kStr, "")

	tMyU16  = prim("myU16", kU16, myU16(0))
	tMyI64  = prim("myI64", kI64, myI64(0))
	tMyUint = prim("myUint", kCompact, myUint(0))
	tMyStr  = prim("myStr", kStr, myStr(""))
	tMyBool = prim("myBool", kBool, myBool(false))
	// a named byte slice goes through the generic sequence code: same bytes
	tMyBytes = &ty{name: "myBytes", k: kSlice, elem: tU8, goT: rt(myBytes(nil))}

	tSA   = strct(sA{}, field{"A", tU16}, field{"B", tBool})
	tSTag = strct(sTag{}, field{"A", tU32}, field{"B", tBytes}, field{"C", tStr})
	tSMix = strct(sMix{}, field{"Z", tU32}, field{"Y", tU16}, field{"X", tU8}, field{"W", tBool})
	tSkip = strct(sSkip{}, field{"A", tU32}, field{"B", opt(tU16)}, field{"C", tCmp})
	tInts = strct(sInts{}, field{"A", tU8}, field{"B", tI8}, field{"C", tU16}, field{"D", tI16}, field{"E", tU32},
		field{"F", tI32}, field{"G", tU64}, field{"H", tI64}, field{"I", tCmp}, field{"J", tCmpI})
	tSKey = strct(sKey{}, field{"Hi", tU8}, field{"Lo", tI16})

	tVU32     = prim("vdtU32", kU32, vdtU32(0))
	tVBytes   = &ty{name: "vdtBytes", k: kSlice, elem: tU8, goT: rt(vdtBytes(nil))}
	tVStruct  = strct(vdtStruct{}, field{"A", tU16}, field{"B", tStr})
	tVCompact = prim("vdtCompact", kCompact, vdtCompact(0))
	tVFlag    = prim("vdtFlag", kBool, vdtFlag(false))
	tEnum     = &ty{name: "vEnum", k: kEnum, goT: rt(vEnum{}), variants: []variant{
		{0, tVU32}, {1, tVBytes}, {2, tVStruct}, {5, tVCompact}, {7, tBig}, {200, tVFlag}}}

	tNest = strct(sNest{}, field{"N", tCmp}, field{"In", tSTag}, field{"Opt", opt(tSA)}, field{"L", vec(tSA)},
		field{"M", mapOf(tU8, tU16)}, field{"E", tEnum}, field{"Big", tBig}, field{"U", tU128},
		field{"Arr", arr(3, tU16)}, field{"Cp", tMyUint})
	tDeep = strct(sDeep{}, field{"Mix", opt(tSMix)}, field{"Nest", tNest}, field{"Tail", vec(tSMix)}, field{"S", tMyStr})

	tResA = result("Result<u32,str>", tU32, tStr)
	tResB = result("Result<(),Bytes>", nil, tBytes)
	tResC = result("Result<sA,()>", tSA, nil)
	tResD = result("Result<Compact,bool>", tCmp, tBool)
	tSRes = func() *ty {
		t := strct(sRes{}, field{"Pre", tU16}, field{"R", tResA}, field{"Post", tBool})
		t.mk = func() reflect.Value {
			return reflect.ValueOf(sRes{R: tResA.mk().Interface().(scale.Result)})
		}
		return t
	}()
)

// universe is the fixed type family. The order is part of the case
// definition (case i uses type i % len), append only.
var universe = []*ty{
	tU8, tI8, tU16, tI16, tU32, tI32, tU64, tI64, tCmp, tCmpI, tBig, tU128, tBool, tBytes, tStr,
	tMyU16, tMyI64, tMyUint, tMyStr, tMyBool, tMyBytes,
	opt(tU32), opt(tCmp), opt(tBytes), opt(tStr), opt(tBool), opt(tSA), opt(tU64), opt(vec(tU16)),
	arr(4, tU8), arr(3, tU16), arr(2, tSA), arr(32, tU8), arr(2, tBytes), arr(2, opt(tU32)), arr(3, tCmp), arr(2, tBig),
	vec(tU16), vec(tCmp), vec(tStr), vec(tBytes), vec(opt(tU32)), vec(tSA), vec(arr(2, tU8)), vec(tBig), vec(tU128),
	vec(tBool), vec(tEnum), vec(tI32), vec(vec(tU8)), vec(tSTag), vec(tCmpI),
	mapOf(tU8, tU8), mapOf(tU32, tStr), mapOf(tStr, tBytes), mapOf(tI16, tSA), mapOf(arr(2, tU8), tCmp),
	mapOf(tU16, vec(tU16)), mapOf(tI8, tBool), mapOf(tSKey, tU8), mapOf(tMyStr, tU32), mapOf(tU64, opt(tU8)), mapOf(tCmp, tCmp),
	tSA, tSTag, tSMix, tSkip, tInts, tNest, tDeep, tEnum,
	tResA, tResB, tResC, tResD, tSRes,
}

func init() {
	seen := map[string]bool{}
	for _, t := range universe {
		if seen[t.name] {
			panic("duplicate type name " + t.name)
		}
		seen[t.name] = true
	}
}

// hasKind reports whether t contains kind k anywhere.
func (t *ty) hasKind(k kind) bool {
	if t == nil {
		return false
	}
	if t.k == k {
		return true
	}
	if t.elem.hasKind(k) || t.key.hasKind(k) || t.ok.hasKind(k) || t.er.hasKind(k) {
		return true
	}
	for _, f := range t.fields {
		if f.t.hasKind(k) {
			return true
		}
	}
	for _, v := range t.variants {
		if v.t.hasKind(k) {
			return true
		}
	}
	return false
}

// minEnc is the length of the shortest encoding of t.
func (t *ty) minEnc() int {
	switch t.k {
	case kU8, kI8, kU16, kI16, kU32, kI32, kU64, kI64:
		return fixedWidth(t.k)
	case kU128:
		return 16
	case kArray:
		return t.n * t.elem.minEnc()
	case kStruct:
		n := 0
		for _, f := range t.fields {
			n += f.t.minEnc()
		}
		return n
	case kEnum:
		m := 1 << 30
		for _, v := range t.variants {
			if x := v.t.minEnc(); x < m {
				m = x
			}
		}
		return 1 + m
	case kResult:
		a, b := 0, 0
		if t.ok != nil {
			a = t.ok.minEnc()
		}
		if t.er != nil {
			b = t.er.minEnc()
		}
		if b < a {
			a = b
		}
		return 1 + a
	}
	return 1
}

// ---------------------------------------------------------------- bridge val <-> Go

func zeroOf(t *ty) reflect.Value {
	if t.mk != nil {
		return t.mk()
	}
	return reflect.Zero(t.goT)
}

// newDst returns a pointer to a fresh destination for decoding a t.
func newDst(t *ty) reflect.Value {
	p := reflect.New(t.goT)
	if t.mk != nil {
		p.Elem().Set(t.mk())
	}
	return p
}

// toGo builds the Go value of type t.goT that denotes v.
func toGo(t *ty, v *val) reflect.Value {
	if t.toGoFn != nil {
		return t.toGoFn(v)
	}
	out := reflect.New(t.goT).Elem()
	switch t.k {
	case kU8, kU16, kU32, kU64, kCompact:
		out.SetUint(v.u)
	case kI8, kI16, kI32, kI64:
		out.SetInt(signExtend(v.u, t.k))
	case kCompactI:
		out.SetInt(int64(v.u))
	case kBool:
		out.SetBool(v.u == 1)
	case kBig:
		out.Set(reflect.ValueOf(new(big.Int).Set(v.big)))
	case kU128:
		lo := new(big.Int).And(v.big, new(big.Int).SetUint64(^uint64(0))).Uint64()
		hi := new(big.Int).Rsh(v.big, 64).Uint64()
		out.Set(reflect.ValueOf(&scale.Uint128{Upper: hi, Lower: lo}))
	case kBytes:
		out.SetBytes(append([]byte{}, v.b...))
	case kStr:
		out.SetString(string(v.b))
	case kOpt:
		if v.u == 1 {
			p := reflect.New(t.elem.goT)
			p.Elem().Set(toGo(t.elem, v.kids[0]))
			out.Set(p)
		}
	case kResult:
		r := t.mk().Interface().(scale.Result)
		arm, mode := t.ok, scale.OK
		if v.u == 1 {
			arm, mode = t.er, scale.Err
		}
		var payload any
		if arm != nil {
			payload = toGo(arm, v.kids[0]).Interface()
		}
		if err := r.Set(mode, payload); err != nil {
			panic("toGo result: " + err.Error())
		}
		out.Set(reflect.ValueOf(r))
	case kEnum:
		vt := t.variantAt(byte(v.u))
		if err := out.Addr().Interface().(scale.VaryingDataType).SetValue(toGo(vt, v.kids[0]).Interface()); err != nil {
			panic("toGo enum: " + err.Error())
		}
	case kArray:
		for i, k := range v.kids {
			out.Index(i).Set(toGo(t.elem, k))
		}
	case kSlice:
		s := reflect.MakeSlice(t.goT, 0, len(v.kids))
		for _, k := range v.kids {
			s = reflect.Append(s, toGo(t.elem, k))
		}
		out.Set(s)
	case kMap:
		m := reflect.MakeMap(t.goT)
		for i := 0; i+1 < len(v.kids); i += 2 {
			m.SetMapIndex(toGo(t.key, v.kids[i]), toGo(t.elem, v.kids[i+1]))
		}
		out.Set(m)
	case kStruct:
		if t.mk != nil {
			out.Set(t.mk())
		}
		named := map[string]bool{}
		for i, f := range t.fields {
			out.FieldByName(f.name).Set(toGo(f.t, v.kids[i]))
			named[f.name] = true
		}
		// fields that are not part of the encoding carry junk: it must not leak into the bytes
		for i := 0; i < t.goT.NumField(); i++ {
			sf := t.goT.Field(i)
			if named[sf.Name] || !sf.IsExported() {
				continue
			}
			switch sf.Type.Kind() {
			case reflect.String:
				out.Field(i).SetString("not encoded")
			case reflect.Slice:
				out.Field(i).Set(reflect.MakeSlice(sf.Type, 2, 2))
			}
		}
	}
	return out
}

// fromGo reads a Go value back into the reference value model.
func fromGo(t *ty, g reflect.Value) (*val, error) {
	if g.Type() != t.goT {
		return nil, fmt.Errorf("fromGo %s: Go type %s, want %s", t.name, g.Type(), t.goT)
	}
	if t.fromGoFn != nil {
		return t.fromGoFn(g)
	}
	switch t.k {
	case kU8, kU16, kU32, kU64, kCompact:
		return &val{u: g.Uint()}, nil
	case kI8, kI16, kI32, kI64:
		mask := ^uint64(0) >> (64 - 8*uint(fixedWidth(t.k)))
		return &val{u: uint64(g.Int()) & mask}, nil
	case kCompactI:
		return &val{u: uint64(g.Int())}, nil
	case kBool:
		if g.Bool() {
			return &val{u: 1}, nil
		}
		return &val{}, nil
	case kBig:
		b, _ := g.Interface().(*big.Int)
		if b == nil {
			return nil, fmt.Errorf("fromGo %s: nil *big.Int", t.name)
		}
		return &val{big: new(big.Int).Set(b)}, nil
	case kU128:
		u, _ := g.Interface().(*scale.Uint128)
		if u == nil {
			return nil, fmt.Errorf("fromGo %s: nil *Uint128", t.name)
		}
		x := new(big.Int).SetUint64(u.Upper)
		x.Lsh(x, 64).Add(x, new(big.Int).SetUint64(u.Lower))
		return &val{big: x}, nil
	case kBytes:
		return &val{b: append([]byte{}, g.Bytes()...)}, nil
	case kStr:
		return &val{b: []byte(g.String())}, nil
	case kOpt:
		if g.IsNil() {
			return &val{}, nil
		}
		k, err := fromGo(t.elem, g.Elem())
		if err != nil {
			return nil, err
		}
		return &val{u: 1, kids: []*val{k}}, nil
	case kResult:
		r := g.Interface().(scale.Result)
		if !r.IsSet() {
			return nil, fmt.Errorf("fromGo %s: result not set", t.name)
		}
		okv, err := r.Unwrap()
		v := &val{}
		arm := t.ok
		payload := okv
		if err != nil {
			we, isWrapped := err.(scale.WrappedErr)
			if !isWrapped {
				return nil, fmt.Errorf("fromGo %s: Unwrap: %v", t.name, err)
			}
			v.u, arm, payload = 1, t.er, we.Err
		}
		if arm == nil {
			if payload != nil {
				return nil, fmt.Errorf("fromGo %s: unit arm carries %T", t.name, payload)
			}
			return v, nil
		}
		if payload == nil {
			return nil, fmt.Errorf("fromGo %s: arm %s carries nil", t.name, arm.name)
		}
		k, e := fromGo(arm, reflect.ValueOf(payload))
		if e != nil {
			return nil, e
		}
		v.kids = []*val{k}
		return v, nil
	case kEnum:
		idx, payload, err := g.Interface().(scale.EncodeVaryingDataType).IndexValue()
		if err != nil {
			return nil, fmt.Errorf("fromGo %s: %v", t.name, err)
		}
		vt := t.variantAt(byte(idx))
		if vt == nil || idx > 255 {
			return nil, fmt.Errorf("fromGo %s: index %d", t.name, idx)
		}
		k, e := fromGo(vt, reflect.ValueOf(payload))
		if e != nil {
			return nil, e
		}
		return &val{u: uint64(idx), kids: []*val{k}}, nil
	case kArray, kSlice:
		v := &val{}
		for i := 0; i < g.Len(); i++ {
			k, err := fromGo(t.elem, g.Index(i))
			if err != nil {
				return nil, err
			}
			v.kids = append(v.kids, k)
		}
		return v, nil
	case kMap:
		type pair struct{ k, v *val }
		var ps []pair
		it := g.MapRange()
		for it.Next() {
			k, err := fromGo(t.key, it.Key())
			if err != nil {
				return nil, err
			}
			e, err := fromGo(t.elem, it.Value())
			if err != nil {
				return nil, err
			}
			ps = append(ps, pair{k, e})
		}
		// insertion sort by key (harness order, see cmpKey)
		for i := 1; i < len(ps); i++ {
			for j := i; j > 0 && cmpKey(t.key, ps[j-1].k, ps[j].k) > 0; j-- {
				ps[j-1], ps[j] = ps[j], ps[j-1]
			}
		}
		v := &val{}
		for _, p := range ps {
			v.kids = append(v.kids, p.k, p.v)
		}
		return v, nil
	case kStruct:
		v := &val{}
		for _, f := range t.fields {
			k, err := fromGo(f.t, g.FieldByName(f.name))
			if err != nil {
				return nil, err
			}
			v.kids = append(v.kids, k)
		}
		return v, nil
	}
	return nil, fmt.Errorf("fromGo: kind %d", t.k)
}
