//go:build verif

package scale_test

// RefSCALE: a hand-written canonical SCALE encoder / strict decoder over an
// explicit type algebra (ty) and value model (val). It never touches
// pkg/scale and uses no reflection: struct field order, enum indices and map
// order are written down in the descriptors (universe_test.go), compact
// integers are implemented from the specification text:
//
//	0b00 single byte          value < 2^6
//	0b01 two bytes LE         2^6  <= value < 2^14
//	0b10 four bytes LE        2^14 <= value < 2^30
//	0b11 big-integer mode     upper six bits = number of following bytes - 4,
//	                          value LE, most significant byte non-zero, value >= 2^30
//
// Fixed-width integers are little endian, bool is 00/01, Option is 00 | 01‖T,
// Result is 00‖Ok | 01‖Err, an enum is index byte‖variant, a sequence is
// compact(len)‖items, an array is the items, a tuple/struct is the fields in
// order, a map (BTreeMap) is compact(len)‖(key‖value)* in ascending key order.

import (
	"bytes"
	"errors"
	"fmt"
	"math/big"
	"reflect"
	"sort"
)

type kind int

const (
	kU8 kind = iota
	kI8
	kU16
	kI16
	kU32
	kI32
	kU64
	kI64
	kCompact  // Go uint, Compact<u64>
	kCompactI // Go int (non-negative in the universe), Compact<u64> of its 64-bit pattern
	kBig      // *big.Int, compact, 0 <= v < 2^536
	kU128     // *scale.Uint128, 16 bytes LE
	kBool
	kBytes // []byte: compact(len) ‖ bytes
	kStr   // string: compact(len) ‖ bytes
	kOpt   // *T
	kResult
	kEnum // VaryingDataType
	kArray
	kSlice
	kMap
	kStruct
)

var kindNames = map[kind]string{kU8: "u8", kI8: "i8", kU16: "u16", kI16: "i16", kU32: "u32", kI32: "i32", kU64: "u64",
	kI64: "i64", kCompact: "compact", kCompactI: "compact-int", kBig: "bigint", kU128: "u128", kBool: "bool",
	kBytes: "bytes", kStr: "str", kOpt: "option", kResult: "result", kEnum: "enum", kArray: "array", kSlice: "vec",
	kMap: "map", kStruct: "struct"}

type field struct {
	name string // Go field name
	t    *ty
}

type variant struct {
	idx byte
	t   *ty
}

// ty describes one type of the universe. Everything the reference codec needs
// is written here by hand; goT and mk are only used by the Go<->val bridge.
type ty struct {
	name     string
	k        kind
	elem     *ty       // option, array, slice, map value
	key      *ty       // map key
	n        int       // array length
	fields   []field   // struct fields in ENCODING order
	ok, er   *ty       // result arms; nil = unit ()
	variants []variant // enum

	goT reflect.Type
	mk  func() reflect.Value // fresh, decodable Go value (Result / struct containing Results); nil = zero value

	// Types with a custom codec (Marshaler / Unmarshaler, universe_custom_test.go): the descriptor above states the
	// WIRE format the custom codec defines; the Go value is bridged by these hooks instead of by kind.
	toGoFn   func(v *val) reflect.Value
	fromGoFn func(g reflect.Value) (*val, error)
}

// val is a value of some ty.
type val struct {
	u    uint64   // fixed ints (two's complement bit pattern), compact, bool, option tag, result tag, enum index
	big  *big.Int // kBig, kU128
	b    []byte   // kBytes, kStr
	kids []*val   // option payload, result payload, enum payload, items, k0 v0 k1 v1 ... (ascending keys), fields in encoding order
}

func fixedWidth(k kind) int {
	switch k {
	case kU8, kI8:
		return 1
	case kU16, kI16:
		return 2
	case kU32, kI32:
		return 4
	case kU64, kI64:
		return 8
	}
	return 0
}

// ---------------------------------------------------------------- encoding

func leBytes(v uint64, n int) []byte {
	b := make([]byte, n)
	for i := 0; i < n; i++ {
		b[i] = byte(v >> (8 * uint(i)))
	}
	return b
}

// refCompactBig is the canonical compact encoding of v (0 <= v < 2^536).
func refCompactBig(v *big.Int) []byte {
	if v.Sign() < 0 || v.BitLen() > 536 {
		panic("refCompactBig: out of range")
	}
	if v.BitLen() <= 30 {
		x := v.Uint64()
		switch {
		case x < 1<<6:
			return []byte{byte(x << 2)}
		case x < 1<<14:
			return leBytes(x<<2|1, 2)
		default:
			return leBytes(x<<2|2, 4)
		}
	}
	be := v.Bytes() // big endian, no leading zero
	out := make([]byte, 0, len(be)+1)
	out = append(out, byte((len(be)-4)<<2|3))
	for i := len(be) - 1; i >= 0; i-- {
		out = append(out, be[i])
	}
	return out
}

func refCompact(v uint64) []byte { return refCompactBig(new(big.Int).SetUint64(v)) }

// encoder collects the bytes and the offsets of every compact integer it
// wrote (C12 uses them to craft hostile / non-canonical prefixes).
type encoder struct {
	buf   []byte
	marks []mark
}

type mark struct {
	off, n int    // position and length of a compact integer in buf
	length bool   // it is a length prefix (sequence / bytes / map)
	v      uint64 // its value when it fits 64 bits
	fits   bool
	big    bool // written for a *big.Int (decodeBigInt), not a uint/int/length (decodeUint)
}

func (e *encoder) compact(v uint64, isLen bool) {
	c := refCompact(v)
	e.marks = append(e.marks, mark{off: len(e.buf), n: len(c), length: isLen, v: v, fits: true})
	e.buf = append(e.buf, c...)
}

func (e *encoder) enc(t *ty, v *val) {
	switch t.k {
	case kU8, kI8, kU16, kI16, kU32, kI32, kU64, kI64:
		e.buf = append(e.buf, leBytes(v.u, fixedWidth(t.k))...)
	case kCompact, kCompactI:
		e.compact(v.u, false)
	case kBig:
		c := refCompactBig(v.big)
		m := mark{off: len(e.buf), n: len(c), big: true}
		if v.big.IsUint64() {
			m.v, m.fits = v.big.Uint64(), true
		}
		e.marks = append(e.marks, m)
		e.buf = append(e.buf, c...)
	case kU128:
		be := v.big.Bytes()
		out := make([]byte, 16)
		for i := range be {
			out[i] = be[len(be)-1-i]
		}
		e.buf = append(e.buf, out...)
	case kBool:
		e.buf = append(e.buf, byte(v.u))
	case kBytes, kStr:
		e.compact(uint64(len(v.b)), true)
		e.buf = append(e.buf, v.b...)
	case kOpt:
		e.buf = append(e.buf, byte(v.u))
		if v.u == 1 {
			e.enc(t.elem, v.kids[0])
		}
	case kResult:
		e.buf = append(e.buf, byte(v.u))
		arm := t.ok
		if v.u == 1 {
			arm = t.er
		}
		if arm != nil {
			e.enc(arm, v.kids[0])
		}
	case kEnum:
		e.buf = append(e.buf, byte(v.u))
		e.enc(t.variantAt(byte(v.u)), v.kids[0])
	case kArray:
		for _, k := range v.kids {
			e.enc(t.elem, k)
		}
	case kSlice:
		e.compact(uint64(len(v.kids)), true)
		for _, k := range v.kids {
			e.enc(t.elem, k)
		}
	case kMap:
		e.compact(uint64(len(v.kids)/2), true)
		for i := 0; i+1 < len(v.kids); i += 2 {
			e.enc(t.key, v.kids[i])
			e.enc(t.elem, v.kids[i+1])
		}
	case kStruct:
		for i, f := range t.fields {
			e.enc(f.t, v.kids[i])
		}
	default:
		panic("refscale: unknown kind")
	}
}

func (t *ty) variantAt(idx byte) *ty {
	for _, vr := range t.variants {
		if vr.idx == idx {
			return vr.t
		}
	}
	return nil
}

// RefEncode returns the canonical encoding of v and the compact marks.
func RefEncode(t *ty, v *val) ([]byte, []mark) {
	e := &encoder{}
	e.enc(t, v)
	return e.buf, e.marks
}

// ---------------------------------------------------------------- decoding

var (
	errRefTruncated    = errors.New("ref: input truncated")
	errRefNonCanonical = errors.New("ref: compact integer not in shortest form")
	errRefInvalid      = errors.New("ref: invalid byte")
	errRefRange        = errors.New("ref: value out of range for the type")
)

type decoder struct {
	data []byte
	pos  int
	// observations about the input that the C12 oracle reports separately
	mapUnsorted bool // some map had keys not in strictly ascending order (still decodable by Rust)
	mapDup      bool // some map repeated a key
	wideCompact bool // some compact used the 5/6/7-byte big-integer mode
	// deviation of known finding C12-K1: a byte string / string whose payload is cut short by the
	// end of input (at least one byte present) decodes to the bytes present
	lenientBytes bool
	shortBytes   bool
}

func (d *decoder) take(n int) ([]byte, error) {
	if n < 0 || len(d.data)-d.pos < n {
		d.pos = len(d.data)
		return nil, errRefTruncated
	}
	b := d.data[d.pos : d.pos+n]
	d.pos += n
	return b, nil
}

func leUint(b []byte) uint64 {
	var v uint64
	for i := len(b) - 1; i >= 0; i-- {
		v = v<<8 | uint64(b[i])
	}
	return v
}

// compactBig decodes one canonical compact integer.
func (d *decoder) compactBig() (*big.Int, error) {
	p, err := d.take(1)
	if err != nil {
		return nil, err
	}
	first := p[0]
	switch first & 3 {
	case 0:
		return new(big.Int).SetUint64(uint64(first >> 2)), nil
	case 1:
		r, err := d.take(1)
		if err != nil {
			return nil, err
		}
		x := (uint64(r[0])<<8 | uint64(first)) >> 2
		if x < 1<<6 {
			return nil, errRefNonCanonical
		}
		return new(big.Int).SetUint64(x), nil
	case 2:
		r, err := d.take(3)
		if err != nil {
			return nil, err
		}
		x := (leUint(r)<<8 | uint64(first)) >> 2
		if x < 1<<14 {
			return nil, errRefNonCanonical
		}
		return new(big.Int).SetUint64(x), nil
	}
	n := int(first>>2) + 4
	r, err := d.take(n)
	if err != nil {
		return nil, err
	}
	if r[n-1] == 0 {
		return nil, errRefNonCanonical
	}
	be := make([]byte, n)
	for i := range r {
		be[n-1-i] = r[i]
	}
	x := new(big.Int).SetBytes(be)
	if x.BitLen() <= 30 {
		return nil, errRefNonCanonical
	}
	if n >= 5 && n <= 7 {
		d.wideCompact = true
	}
	return x, nil
}

func (d *decoder) compact64() (uint64, error) {
	x, err := d.compactBig()
	if err != nil {
		return 0, err
	}
	if !x.IsUint64() {
		return 0, errRefRange
	}
	return x.Uint64(), nil
}

// length decodes a Compact<u32> length prefix.
func (d *decoder) length() (int, error) {
	x, err := d.compact64()
	if err != nil {
		return 0, err
	}
	if x > 0xffffffff {
		return 0, errRefRange
	}
	return int(x), nil
}

func (d *decoder) dec(t *ty) (*val, error) {
	switch t.k {
	case kU8, kI8, kU16, kI16, kU32, kI32, kU64, kI64:
		b, err := d.take(fixedWidth(t.k))
		if err != nil {
			return nil, err
		}
		return &val{u: leUint(b)}, nil
	case kCompact, kCompactI:
		x, err := d.compact64()
		if err != nil {
			return nil, err
		}
		return &val{u: x}, nil
	case kBig:
		x, err := d.compactBig()
		if err != nil {
			return nil, err
		}
		return &val{big: x}, nil
	case kU128:
		b, err := d.take(16)
		if err != nil {
			return nil, err
		}
		be := make([]byte, 16)
		for i := range b {
			be[15-i] = b[i]
		}
		return &val{big: new(big.Int).SetBytes(be)}, nil
	case kBool:
		b, err := d.take(1)
		if err != nil {
			return nil, err
		}
		if b[0] > 1 {
			return nil, errRefInvalid
		}
		return &val{u: uint64(b[0])}, nil
	case kBytes, kStr:
		n, err := d.length()
		if err != nil {
			return nil, err
		}
		if left := len(d.data) - d.pos; d.lenientBytes && n > left && left > 0 {
			n, d.shortBytes = left, true
		}
		b, err := d.take(n)
		if err != nil {
			return nil, err
		}
		return &val{b: append([]byte{}, b...)}, nil
	case kOpt:
		b, err := d.take(1)
		if err != nil {
			return nil, err
		}
		switch b[0] {
		case 0:
			return &val{}, nil
		case 1:
			k, err := d.dec(t.elem)
			if err != nil {
				return nil, err
			}
			return &val{u: 1, kids: []*val{k}}, nil
		}
		return nil, errRefInvalid
	case kResult:
		b, err := d.take(1)
		if err != nil {
			return nil, err
		}
		if b[0] > 1 {
			return nil, errRefInvalid
		}
		arm := t.ok
		if b[0] == 1 {
			arm = t.er
		}
		v := &val{u: uint64(b[0])}
		if arm != nil {
			k, err := d.dec(arm)
			if err != nil {
				return nil, err
			}
			v.kids = []*val{k}
		}
		return v, nil
	case kEnum:
		b, err := d.take(1)
		if err != nil {
			return nil, err
		}
		vt := t.variantAt(b[0])
		if vt == nil {
			return nil, errRefInvalid
		}
		k, err := d.dec(vt)
		if err != nil {
			return nil, err
		}
		return &val{u: uint64(b[0]), kids: []*val{k}}, nil
	case kArray:
		v := &val{}
		for i := 0; i < t.n; i++ {
			k, err := d.dec(t.elem)
			if err != nil {
				return nil, err
			}
			v.kids = append(v.kids, k)
		}
		return v, nil
	case kSlice:
		n, err := d.length()
		if err != nil {
			return nil, err
		}
		// an unnamed []uint8 IS []byte for Go (decodeBytes): deviation C12-K1 applies to it too
		if left := len(d.data) - d.pos; d.lenientBytes && t.elem.k == kU8 && t.goT == reflect.TypeOf([]byte(nil)) && n > left && left > 0 {
			n, d.shortBytes = left, true
		}
		v := &val{}
		for i := 0; i < n; i++ {
			k, err := d.dec(t.elem)
			if err != nil {
				return nil, err
			}
			v.kids = append(v.kids, k)
		}
		return v, nil
	case kMap:
		n, err := d.length()
		if err != nil {
			return nil, err
		}
		type pair struct{ k, v *val }
		var ps []pair
		for i := 0; i < n; i++ {
			k, err := d.dec(t.key)
			if err != nil {
				return nil, err
			}
			e, err := d.dec(t.elem)
			if err != nil {
				return nil, err
			}
			if len(ps) > 0 {
				switch c := cmpKey(t.key, ps[len(ps)-1].k, k); {
				case c == 0:
					d.mapDup = true
				case c > 0:
					d.mapUnsorted = true
				}
			}
			ps = append(ps, pair{k, e})
		}
		// what a collecting decoder (Rust BTreeMap, Go map) ends up with:
		// last value per key, ascending keys
		sort.SliceStable(ps, func(i, j int) bool { return cmpKey(t.key, ps[i].k, ps[j].k) < 0 })
		v := &val{}
		for i := 0; i < len(ps); i++ {
			if i+1 < len(ps) && cmpKey(t.key, ps[i].k, ps[i+1].k) == 0 {
				d.mapDup = true
				continue // a later entry with the same key wins
			}
			v.kids = append(v.kids, ps[i].k, ps[i].v)
		}
		return v, nil
	case kStruct:
		v := &val{}
		for _, f := range t.fields {
			k, err := d.dec(f.t)
			if err != nil {
				return nil, err
			}
			v.kids = append(v.kids, k)
		}
		return v, nil
	}
	panic("refscale: unknown kind")
}

type refResult struct {
	v           *val
	n           int // bytes consumed
	err         error
	mapUnsorted bool
	mapDup      bool
	wideCompact bool
}

// RefDecodeK1 is the specification with exactly the deviation of known finding
// C12-K1 switched on; short reports whether the deviation was used.
func RefDecodeK1(t *ty, data []byte) (r refResult, short bool) {
	d := &decoder{data: data, lenientBytes: true}
	v, err := d.dec(t)
	return refResult{v: v, n: d.pos, err: err, mapUnsorted: d.mapUnsorted, mapDup: d.mapDup, wideCompact: d.wideCompact}, d.shortBytes
}

// RefDecode strictly decodes one value of type t from the front of data.
func RefDecode(t *ty, data []byte) refResult {
	d := &decoder{data: data}
	v, err := d.dec(t)
	return refResult{v: v, n: d.pos, err: err, mapUnsorted: d.mapUnsorted, mapDup: d.mapDup, wideCompact: d.wideCompact}
}

// ---------------------------------------------------------------- ordering and equality

func signed(k kind) bool { return k == kI8 || k == kI16 || k == kI32 || k == kI64 }

func signExtend(u uint64, k kind) int64 {
	switch k {
	case kI8:
		return int64(int8(u))
	case kI16:
		return int64(int16(u))
	case kI32:
		return int64(int32(u))
	}
	return int64(u)
}

// cmpKey orders map keys as the Rust Ord of the corresponding type does.
func cmpKey(t *ty, a, b *val) int {
	switch t.k {
	case kI8, kI16, kI32, kI64:
		x, y := signExtend(a.u, t.k), signExtend(b.u, t.k)
		switch {
		case x < y:
			return -1
		case x > y:
			return 1
		}
		return 0
	case kU8, kU16, kU32, kU64, kCompact, kCompactI, kBool:
		switch {
		case a.u < b.u:
			return -1
		case a.u > b.u:
			return 1
		}
		return 0
	case kBig, kU128:
		return a.big.Cmp(b.big)
	case kBytes, kStr:
		return bytes.Compare(a.b, b.b)
	case kArray, kStruct:
		for i := range a.kids {
			et := t.elem
			if t.k == kStruct {
				et = t.fields[i].t
			}
			if c := cmpKey(et, a.kids[i], b.kids[i]); c != 0 {
				return c
			}
		}
		return 0
	}
	panic("cmpKey: unsupported key kind " + kindNames[t.k])
}

// valEqual is structural equality in the SCALE value domain (nil and empty
// byte strings / sequences / maps are the same value).
func valEqual(t *ty, a, b *val) bool {
	if a == nil || b == nil {
		return a == b
	}
	switch t.k {
	case kBig, kU128:
		return a.big != nil && b.big != nil && a.big.Cmp(b.big) == 0
	case kBytes, kStr:
		return bytes.Equal(a.b, b.b)
	case kU8, kI8, kU16, kI16, kU32, kI32, kU64, kI64, kCompact, kCompactI, kBool:
		return a.u == b.u
	}
	if a.u != b.u || len(a.kids) != len(b.kids) {
		return false
	}
	for i := range a.kids {
		var et *ty
		switch t.k {
		case kOpt, kArray, kSlice:
			et = t.elem
		case kResult:
			et = t.ok
			if a.u == 1 {
				et = t.er
			}
		case kEnum:
			et = t.variantAt(byte(a.u))
		case kMap:
			et = t.key
			if i%2 == 1 {
				et = t.elem
			}
		case kStruct:
			et = t.fields[i].t
		}
		if et == nil || !valEqual(et, a.kids[i], b.kids[i]) {
			return false
		}
	}
	return true
}

// show renders a value for witnesses (bounded).
func show(t *ty, v *val) string {
	var sb bytes.Buffer
	showInto(&sb, t, v)
	s := sb.String()
	if len(s) > 600 {
		s = s[:600] + "…"
	}
	return s
}

func showInto(sb *bytes.Buffer, t *ty, v *val) {
	if sb.Len() > 700 {
		return
	}
	if v == nil {
		sb.WriteString("<nil>")
		return
	}
	switch t.k {
	case kI8, kI16, kI32, kI64:
		fmt.Fprintf(sb, "%d", signExtend(v.u, t.k))
	case kU8, kU16, kU32, kU64, kCompact:
		fmt.Fprintf(sb, "%d", v.u)
	case kCompactI:
		fmt.Fprintf(sb, "%d", int64(v.u))
	case kBool:
		fmt.Fprintf(sb, "%v", v.u == 1)
	case kBig, kU128:
		fmt.Fprintf(sb, "%s", v.big)
	case kBytes:
		if len(v.b) > 24 {
			fmt.Fprintf(sb, "0x%x…(%d bytes)", v.b[:24], len(v.b))
		} else {
			fmt.Fprintf(sb, "0x%x", v.b)
		}
	case kStr:
		if len(v.b) > 24 {
			fmt.Fprintf(sb, "%q…(%d bytes)", v.b[:24], len(v.b))
		} else {
			fmt.Fprintf(sb, "%q", v.b)
		}
	case kOpt:
		if v.u == 0 {
			sb.WriteString("None")
		} else {
			sb.WriteString("Some(")
			showInto(sb, t.elem, v.kids[0])
			sb.WriteString(")")
		}
	case kResult:
		arm, nm := t.ok, "Ok("
		if v.u == 1 {
			arm, nm = t.er, "Err("
		}
		sb.WriteString(nm)
		if arm != nil {
			showInto(sb, arm, v.kids[0])
		}
		sb.WriteString(")")
	case kEnum:
		fmt.Fprintf(sb, "#%d(", v.u)
		showInto(sb, t.variantAt(byte(v.u)), v.kids[0])
		sb.WriteString(")")
	case kArray, kSlice:
		sb.WriteString("[")
		for i, k := range v.kids {
			if i > 0 {
				sb.WriteString(",")
			}
			if i >= 8 {
				fmt.Fprintf(sb, "…%d items", len(v.kids))
				break
			}
			showInto(sb, t.elem, k)
		}
		sb.WriteString("]")
	case kMap:
		sb.WriteString("{")
		for i := 0; i+1 < len(v.kids); i += 2 {
			if i > 0 {
				sb.WriteString(",")
			}
			if i >= 12 {
				fmt.Fprintf(sb, "…%d entries", len(v.kids)/2)
				break
			}
			showInto(sb, t.key, v.kids[i])
			sb.WriteString(":")
			showInto(sb, t.elem, v.kids[i+1])
		}
		sb.WriteString("}")
	case kStruct:
		sb.WriteString("{")
		for i, f := range t.fields {
			if i > 0 {
				sb.WriteString(",")
			}
			sb.WriteString(f.name + "=")
			showInto(sb, f.t, v.kids[i])
		}
		sb.WriteString("}")
	}
}

// ---------------------------------------------------------------- self validation

// refSelfCheck validates RefSCALE against the worked examples of the SCALE
// specification (Polkadot spec appendix / parity-scale-codec documentation).
func refSelfCheck() error {
	hex := func(b []byte) string { return fmt.Sprintf("%x", b) }
	compacts := []struct {
		v    string
		want string
	}{
		{"0", "00"}, {"1", "04"}, {"42", "a8"}, {"63", "fc"}, {"64", "0101"}, {"69", "1501"}, {"16383", "fdff"},
		{"16384", "02000100"}, {"65535", "feff0300"}, {"1073741823", "feffffff"}, {"1073741824", "0300000040"},
		{"4294967295", "03ffffffff"}, {"4294967296", "070000000001"}, {"100000000000000", "0b00407a10f35a"},
		{"18446744073709551615", "13ffffffffffffffff"}, {"18446744073709551616", "17000000000000000001"},
	}
	for _, c := range compacts {
		v, _ := new(big.Int).SetString(c.v, 10)
		if got := hex(refCompactBig(v)); got != c.want {
			return fmt.Errorf("compact(%s)=%s want %s", c.v, got, c.want)
		}
		raw := refCompactBig(v)
		d := &decoder{data: raw}
		back, err := d.compactBig()
		if err != nil || back.Cmp(v) != 0 || d.pos != len(raw) {
			return fmt.Errorf("decode compact(%s): %v %v", c.v, back, err)
		}
	}
	// 2^536-1 is the largest compact: ff followed by 67 ff bytes
	maxC := new(big.Int).Sub(new(big.Int).Lsh(big.NewInt(1), 536), big.NewInt(1))
	if e := refCompactBig(maxC); len(e) != 68 || e[0] != 0xff || e[67] != 0xff {
		return fmt.Errorf("compact(2^536-1) = %x", e)
	}
	for _, bad := range []string{"0100", "fd00", "02000000", "feff0000", "0300000000", "03ffffff3f", "070000000000", "0b00000000ff00"} {
		var raw []byte
		fmt.Sscanf(bad, "%x", &raw)
		d := &decoder{data: raw}
		if _, err := d.compactBig(); !errors.Is(err, errRefNonCanonical) {
			return fmt.Errorf("non-canonical compact %s not rejected: %v", bad, err)
		}
	}
	tU16 := &ty{k: kU16}
	tU8 := &ty{k: kU8}
	tI8 := &ty{k: kI8}
	tU32 := &ty{k: kU32}
	tBool := &ty{k: kBool}
	tC := &ty{k: kCompact}
	type ex struct {
		t    *ty
		v    *val
		want string
	}
	u := func(x uint64) *val { return &val{u: x} }
	exs := []ex{
		{tI8, u(69), "45"},
		{tU16, u(42), "2a00"},
		{tU32, u(16777215), "ffffff00"},
		{tBool, u(1), "01"},
		{&ty{k: kSlice, elem: tU16}, &val{kids: []*val{u(4), u(8), u(15), u(16), u(23), u(42)}}, "18040008000f00100017002a00"},
		{&ty{k: kStr}, &val{b: []byte("Hamlet")}, "1848616d6c6574"},
		{&ty{k: kStruct, fields: []field{{"a", tC}, {"b", tBool}}}, &val{kids: []*val{u(3), u(0)}}, "0c00"},
		{&ty{k: kResult, ok: tU8, er: tBool}, &val{u: 0, kids: []*val{u(42)}}, "002a"},
		{&ty{k: kResult, ok: tU8, er: tBool}, &val{u: 1, kids: []*val{u(0)}}, "0100"},
		{&ty{k: kEnum, variants: []variant{{0, tU8}, {1, tBool}}}, &val{u: 0, kids: []*val{u(42)}}, "002a"},
		{&ty{k: kEnum, variants: []variant{{0, tU8}, {1, tBool}}}, &val{u: 1, kids: []*val{u(1)}}, "0101"},
		{&ty{k: kOpt, elem: tU8}, &val{u: 1, kids: []*val{u(7)}}, "0107"},
		{&ty{k: kOpt, elem: tU8}, &val{}, "00"},
		{&ty{k: kU128}, &val{big: big.NewInt(256)}, "00010000000000000000000000000000"},
		{&ty{k: kMap, key: tU8, elem: tU8}, &val{kids: []*val{u(1), u(9), u(2), u(8)}}, "0801090208"},
	}
	for i, e := range exs {
		got, _ := RefEncode(e.t, e.v)
		if hex(got) != e.want {
			return fmt.Errorf("example %d: encode=%x want %s", i, got, e.want)
		}
		r := RefDecode(e.t, got)
		if r.err != nil || r.n != len(got) || !valEqual(e.t, r.v, e.v) {
			return fmt.Errorf("example %d: decode err=%v n=%d", i, r.err, r.n)
		}
		for cut := 0; cut < len(got); cut++ {
			if r := RefDecode(e.t, got[:cut]); !errors.Is(r.err, errRefTruncated) {
				return fmt.Errorf("example %d cut %d: err=%v", i, cut, r.err)
			}
		}
	}
	return nil
}
