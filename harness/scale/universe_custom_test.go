//go:build verif

package scale_test

// C11 extension: types with a custom codec (scale.Marshaler / scale.Unmarshaler).
//
// pkg/scale dispatches on these interfaces BEFORE everything else
// (encode.go marshal: Marshaler, then VaryingDataType, then kind; decode.go
// unmarshal: Unmarshaler, then VaryingDataType, then kind). Production types:
// primitives hash.H256 (a Go string written as 32 raw bytes), generic.Header
// (unexported fields, written through a helper struct with pkg/scale itself),
// runtime.Digest. The types below follow the same conventions (value receiver
// MarshalSCALE, pointer receiver UnmarshalSCALE reading from the io.Reader the
// decoder was given) and are chosen so that the custom wire format differs
// from what the kind-based default would produce for the same Go type:
//
//	cHash   Go string      custom: 32 raw bytes            default: compact(len) ‖ bytes
//	cBE32   Go uint32      custom: 4 bytes BIG endian      default: little endian
//	cTriple Go []uint16    custom: 3 × u16, no length      default: compact(len) ‖ items
//	cHdr    Go struct, unexported fields, codec = helper struct through scale.Marshal / scale.NewDecoder(r)
//	        (nested decoder on the SAME reader)            default: nothing (no exported field)
//	cBoth   Marshaler AND VaryingDataType: custom = u16    VDT path: 09 ‖ u16
//
// Each descriptor (ty) states the custom WIRE format in the reference algebra
// (an array of 32 u8, ...), so RefEncode / RefDecode, the generator and the
// whole C11 oracle apply unchanged; toGoFn / fromGoFn bridge the Go value.
// Oracle: the custom codec's bytes appear verbatim in the encoding (top
// level: Marshal(v) == v.MarshalSCALE() == reference; nested: Marshal(container)
// == reference, which embeds them) and every decoder gives the value back.

import (
	"bytes"
	"encoding/binary"
	"fmt"
	"io"
	"reflect"

	"github.com/ChainSafe/gossamer/pkg/scale"
	"github.com/ChainSafe/gossamer/zz_verif/vcommon"
)

// ---- cHash

type cHash string

func (h cHash) MarshalSCALE() ([]byte, error) {
	var a [32]byte
	copy(a[:], h)
	return a[:], nil
}

func (h *cHash) UnmarshalSCALE(r io.Reader) error {
	var a [32]byte
	if _, err := io.ReadFull(r, a[:]); err != nil {
		return err
	}
	*h = cHash(a[:])
	return nil
}

// ---- cBE32

type cBE32 uint32

func (x cBE32) MarshalSCALE() ([]byte, error) {
	b := make([]byte, 4)
	binary.BigEndian.PutUint32(b, uint32(x))
	return b, nil
}

func (x *cBE32) UnmarshalSCALE(r io.Reader) error {
	b := make([]byte, 4)
	if _, err := io.ReadFull(r, b); err != nil {
		return err
	}
	*x = cBE32(binary.BigEndian.Uint32(b))
	return nil
}

// ---- cTriple

type cTriple []uint16

func (t cTriple) MarshalSCALE() ([]byte, error) {
	if len(t) != 3 {
		return nil, fmt.Errorf("cTriple with %d items", len(t))
	}
	b := make([]byte, 6)
	for i, x := range t {
		binary.LittleEndian.PutUint16(b[2*i:], x)
	}
	return b, nil
}

func (t *cTriple) UnmarshalSCALE(r io.Reader) error {
	b := make([]byte, 6)
	if _, err := io.ReadFull(r, b); err != nil {
		return err
	}
	*t = cTriple{binary.LittleEndian.Uint16(b), binary.LittleEndian.Uint16(b[2:]), binary.LittleEndian.Uint16(b[4:])}
	return nil
}

// ---- cHdr (the generic.Header pattern)

type cHdr struct {
	number uint64
	tag    []byte
	flag   *uint16
}

type cHdrHelper struct {
	Number uint // compact
	Tag    []byte
	Flag   *uint16
}

func (h cHdr) MarshalSCALE() ([]byte, error) {
	return scale.Marshal(cHdrHelper{Number: uint(h.number), Tag: h.tag, Flag: h.flag})
}

func (h *cHdr) UnmarshalSCALE(r io.Reader) error {
	var x cHdrHelper
	if err := scale.NewDecoder(r).Decode(&x); err != nil {
		return err
	}
	h.number, h.tag, h.flag = uint64(x.Number), x.Tag, x.Flag
	return nil
}

// ---- cBoth: custom codec AND VaryingDataType

type cBoth struct{ v uint16 }

func (b cBoth) MarshalSCALE() ([]byte, error) { return []byte{byte(b.v), byte(b.v >> 8)}, nil }

func (b *cBoth) UnmarshalSCALE(r io.Reader) error {
	p := make([]byte, 2)
	if _, err := io.ReadFull(r, p); err != nil {
		return err
	}
	b.v = uint16(p[0]) | uint16(p[1])<<8
	return nil
}

func (b cBoth) IndexValue() (uint, any, error) { return 9, b.v, nil }
func (b cBoth) Value() (any, error)            { return b.v, nil }
func (b cBoth) ValueAt(index uint) (any, error) {
	if index == 9 {
		return uint16(0), nil
	}
	return nil, scale.ErrUnknownVaryingDataTypeValue
}

func (b *cBoth) SetValue(value any) error {
	x, ok := value.(uint16)
	if !ok {
		return fmt.Errorf("cBoth: unsupported value %T", value)
	}
	b.v = x
	return nil
}

var (
	_ scale.Marshaler       = cBoth{}
	_ scale.Unmarshaler     = (*cBoth)(nil)
	_ scale.VaryingDataType = (*cBoth)(nil)
)

// ---- a struct holding custom fields next to ordinary ones

type sCust struct {
	H    cHash
	N    uint
	B    cBE32
	Hd   cHdr
	V    cBoth
	T    cTriple
	Tail []byte
}

// ---------------------------------------------------------------- descriptors

func u8sOf(v *val) []byte {
	b := make([]byte, len(v.kids))
	for i, k := range v.kids {
		b[i] = byte(k.u)
	}
	return b
}

func u8sVal(b []byte) *val {
	v := &val{}
	for _, x := range b {
		v.kids = append(v.kids, &val{u: uint64(x)})
	}
	return v
}

var (
	tCHash = &ty{name: "cHash", k: kArray, n: 32, elem: tU8, goT: rt(cHash("")),
		toGoFn: func(v *val) reflect.Value { return reflect.ValueOf(cHash(u8sOf(v))) },
		fromGoFn: func(g reflect.Value) (*val, error) {
			if g.Len() != 32 {
				return nil, fmt.Errorf("cHash of %d bytes", g.Len())
			}
			return u8sVal([]byte(g.String())), nil
		}}
	tCBE32 = &ty{name: "cBE32", k: kArray, n: 4, elem: tU8, goT: rt(cBE32(0)),
		toGoFn: func(v *val) reflect.Value { return reflect.ValueOf(cBE32(binary.BigEndian.Uint32(u8sOf(v)))) },
		fromGoFn: func(g reflect.Value) (*val, error) {
			b := make([]byte, 4)
			binary.BigEndian.PutUint32(b, uint32(g.Uint()))
			return u8sVal(b), nil
		}}
	tCTriple = &ty{name: "cTriple", k: kArray, n: 3, elem: tU16, goT: rt(cTriple(nil)),
		toGoFn: func(v *val) reflect.Value {
			return reflect.ValueOf(cTriple{uint16(v.kids[0].u), uint16(v.kids[1].u), uint16(v.kids[2].u)})
		},
		fromGoFn: func(g reflect.Value) (*val, error) {
			if g.Len() != 3 {
				return nil, fmt.Errorf("cTriple of %d items", g.Len())
			}
			return &val{kids: []*val{{u: g.Index(0).Uint()}, {u: g.Index(1).Uint()}, {u: g.Index(2).Uint()}}}, nil
		}}
	tCHdr = &ty{name: "cHdr", k: kStruct, goT: rt(cHdr{}),
		fields: []field{{"number", tCmp}, {"tag", tBytes}, {"flag", opt(tU16)}},
		toGoFn: func(v *val) reflect.Value {
			h := cHdr{number: v.kids[0].u, tag: append([]byte{}, v.kids[1].b...)}
			if v.kids[2].u == 1 {
				f := uint16(v.kids[2].kids[0].u)
				h.flag = &f
			}
			return reflect.ValueOf(h)
		},
		fromGoFn: func(g reflect.Value) (*val, error) {
			h := g.Interface().(cHdr)
			v := &val{kids: []*val{{u: h.number}, {b: append([]byte{}, h.tag...)}, {}}}
			if h.flag != nil {
				v.kids[2] = &val{u: 1, kids: []*val{{u: uint64(*h.flag)}}}
			}
			return v, nil
		}}
	tCBoth = &ty{name: "cBoth", k: kU16, goT: rt(cBoth{}),
		toGoFn:   func(v *val) reflect.Value { return reflect.ValueOf(cBoth{v: uint16(v.u)}) },
		fromGoFn: func(g reflect.Value) (*val, error) { return &val{u: uint64(g.Interface().(cBoth).v)}, nil }}

	tSCust = strct(sCust{}, field{"H", tCHash}, field{"N", tCmp}, field{"B", tCBE32}, field{"Hd", tCHdr}, field{"V", tCBoth},
		field{"T", tCTriple}, field{"Tail", tBytes})
)

// customTop are the types whose own codec is custom (dispatch at the top level).
var customTop = []*ty{tCHash, tCBE32, tCTriple, tCHdr, tCBoth}

// customUniverse: the custom types at the top level, as struct fields, in
// slices / arrays / maps (key and value), in a Result and inside an Option of
// a struct. Append only.
var customUniverse = []*ty{
	tCHash, tCBE32, tCTriple, tCHdr, tCBoth,
	tSCust, opt(tSCust), vec(tSCust),
	vec(tCHash), vec(tCBE32), vec(tCTriple), vec(tCHdr), vec(tCBoth),
	arr(2, tCBE32), arr(3, tCBoth), arr(2, tCHdr),
	mapOf(tCHash, tU16), mapOf(tU8, tCHdr), mapOf(tCBE32, tCBoth),
	result("Result<cHash,cBE32>", tCHash, tCBE32), result("Result<cHdr,cBoth>", tCHdr, tCBoth),
}

func isCustomTop(t *ty) bool { return t.toGoFn != nil }

// checkCustomTop: dispatch oracle for a value whose own type has the custom codec.
func checkCustomTop(c *vcommon.Case, t *ty, v *val) {
	want, _ := RefEncode(t, v)
	g := toGo(t, v)
	w := map[string]any{"type": t.name, "go_type": t.goT.String(), "value": show(t, v), "custom_codec_bytes": vcommon.Hex(clip(want))}
	c.Count("custom_top_"+t.name, 1)
	// the codec's own bytes
	c.Eval(1)
	own, err := g.Interface().(scale.Marshaler).MarshalSCALE()
	if err != nil || !bytes.Equal(own, want) {
		c.Violation("custom-codec-bytes", fmt.Sprintf("%s.MarshalSCALE() = %s err=%v, its documented wire format gives %s", t.name,
			vcommon.Hex(clip(own)), err, vcommon.Hex(clip(want))), w)
		return
	}
	// a pointer to a Marshaler is dispatched as the Marshaler (as for VaryingDataTypes gossamer passes such
	// values by pointer: scale.Marshal(header) with a *generic.Header): the custom bytes must appear
	// verbatim; whether an Option byte precedes them is counted, not asserted
	c.Eval(1)
	p := reflect.New(t.goT)
	p.Elem().Set(g)
	o := realMarshal(p.Interface())
	switch {
	case o.panicked != nil || o.err != nil:
		c.Violation("custom-pointer", fmt.Sprintf("Marshal(&%s) err=%v panic=%v", t.name, o.err, o.panicked), w)
	case bytes.Equal(o.b, want):
		c.Count("custom_pointer_is_the_value", 1)
	case bytes.Equal(o.b, append([]byte{1}, want...)):
		c.Count("custom_pointer_is_option_some", 1)
	default:
		w["marshal"] = vcommon.Hex(clip(o.b))
		c.Violation("custom-pointer", fmt.Sprintf("Marshal(&%s) = %s does not carry the custom codec's bytes %s verbatim", t.name,
			vcommon.Hex(clip(o.b)), vcommon.Hex(clip(want))), w)
	}
	// decoding into an existing non-zero destination goes through UnmarshalSCALE as well
	c.Eval(1)
	dst := reflect.New(t.goT)
	dst.Elem().Set(toGo(t, (&gen{r: c.R}).value(t, 1)))
	if err := scale.NewDecoder(bytes.NewReader(want)).Decode(dst.Interface()); err != nil {
		if _, marks := RefEncode(t, v); !isK1(err, want, marks) {
			c.Violation("custom-decode", fmt.Sprintf("Decode of %s into a used %s failed: %v", vcommon.Hex(clip(want)), t.name, err), w)
		}
	} else if back, cerr := fromGo(t, dst.Elem()); cerr != nil || !valEqual(t, back, v) {
		c.Violation("custom-decode", fmt.Sprintf("Decode of %s into a used %s gave %s (%v)", vcommon.Hex(clip(want)), t.name, show(t, back), cerr), w)
	}
}

// observeCustomPointerField counts what pkg/scale does with `*T` struct fields
// and slice items whose T has a custom codec ("Option<custom>" written the Go
// way). Marshal dispatches on the pointer's method set (the value-receiver
// MarshalSCALE is promoted to *T): no Option byte is written for Some and a
// nil pointer is dereferenced; Unmarshal finds no Unmarshaler on **T and
// reads an Option byte. As for `*VaryingDataType` (NOTES.md) this shape is
// outside the asserted universe: counted only.
func observeCustomPointerField(c *vcommon.Case, v *val) {
	type holder struct {
		A uint8
		P *cHash
		Z uint8
	}
	h := toGo(tCHash, v).Interface().(cHash)
	raw, _ := h.MarshalSCALE()
	c.Count("custom_ptr_field_probes", 1)
	o := realMarshal(holder{A: 7, P: &h, Z: 9})
	switch {
	case o.panicked != nil:
		c.Count("custom_ptr_field_some_marshal_panics", 1)
	case o.err != nil:
		c.Count("custom_ptr_field_some_marshal_error", 1)
	case bytes.Equal(o.b, append(append([]byte{7, 1}, raw...), 9)):
		c.Count("custom_ptr_field_some_with_option_byte", 1)
	case bytes.Equal(o.b, append(append([]byte{7}, raw...), 9)):
		c.Count("custom_ptr_field_some_without_option_byte", 1)
	default:
		c.Count("custom_ptr_field_some_other_bytes", 1)
	}
	if o.panicked == nil && o.err == nil {
		var back holder
		err := func() (err error) {
			defer func() {
				if p := recover(); p != nil {
					err = fmt.Errorf("panic: %v", p)
				}
			}()
			return scale.Unmarshal(o.b, &back)
		}()
		if err == nil && back.P != nil && *back.P == h && back.A == 7 && back.Z == 9 {
			c.Count("custom_ptr_field_some_roundtrips", 1)
		} else {
			c.Count("custom_ptr_field_some_does_not_roundtrip", 1)
		}
	}
	o = realMarshal(holder{A: 7, Z: 9})
	switch {
	case o.panicked != nil:
		c.Count("custom_ptr_field_nil_marshal_panics", 1)
	case o.err != nil:
		c.Count("custom_ptr_field_nil_marshal_error", 1)
	case bytes.Equal(o.b, []byte{7, 0, 9}):
		c.Count("custom_ptr_field_nil_is_none", 1)
	default:
		c.Count("custom_ptr_field_nil_other_bytes", 1)
	}
}

// c11Custom registers the custom-codec groups of C11.
func c11Custom(r *vcommon.Run) {
	for _, t := range customTop {
		r.Floor("custom_top_"+t.name, 30)
	}
	r.Floor("custom_values", 1500)
	r.Floor("custom_nested_values", 800)
	r.Floor("custom_roundtrips_ok", 3000)
	r.Floor("custom_ptr_field_probes", 20)

	run := func(c *vcommon.Case, t *ty, v *val) {
		before := c.Failed()
		if isCustomTop(t) {
			checkCustomTop(c, t, v)
		} else {
			c.Count("custom_nested_values", 1)
			c.Count("custom_in_"+kindNames[t.k], 1)
		}
		c.Count("custom_values", 1)
		checkC11(c, t, v)
		if !before && !c.Failed() {
			c.Count("custom_roundtrips_ok", 4) // Unmarshal, short-read stream, bytes.Reader, bytes.Reader + tail
		}
	}
	// seed independent: every custom type, 6 values
	r.Fixed("custom-types", len(customUniverse)*3, func(c *vcommon.Case) {
		g := &gen{r: c.R}
		t := customUniverse[c.Idx%len(customUniverse)]
		for i := 0; i < 2; i++ {
			run(c, t, g.value(t, 0))
		}
		if c.Idx < 24 {
			observeCustomPointerField(c, g.value(tCHash, 0))
		}
	})
	r.Cases("custom-val", r.Scale(600), func(c *vcommon.Case) {
		g := &gen{r: c.R}
		t := customUniverse[c.Idx%len(customUniverse)]
		for i := 0; i < 3; i++ {
			run(c, t, g.value(t, 0))
		}
	})
}
