//go:build verif

package scale_test

import (
	"bytes"
	"encoding/binary"
	"encoding/json"
	"fmt"
	"math/big"
	"testing"

	"github.com/ChainSafe/gossamer/pkg/scale"
	"github.com/ChainSafe/gossamer/zz_verif/vcommon"
)

func u128Big(u *scale.Uint128) *big.Int {
	v := new(big.Int).SetUint64(u.Upper)
	v.Lsh(v, 64)
	return v.Add(v, new(big.Int).SetUint64(u.Lower))
}

func leToBig(b []byte) *big.Int {
	be := make([]byte, len(b))
	for i := range b {
		be[len(b)-1-i] = b[i]
	}
	return new(big.Int).SetBytes(be)
}

// checkU128 compares every numeric view of u with V = Upper*2^64+Lower.
func checkU128(c *vcommon.Case, u *scale.Uint128) {
	V := u128Big(u)
	w := map[string]any{"upper": u.Upper, "lower": u.Lower, "value": V.String()}
	le, be := u.Bytes(), u.Bytes(binary.BigEndian)
	if !bytes.Equal(le, be) {
		c.Count("non_palindromic", 1)
		c.Distinct(V.String())
	}
	c.Count("values", 1)
	c.Eval(8)
	if s := u.String(); s != V.String() {
		w["string"] = s
		c.Violation("string", fmt.Sprintf("String()=%s want %s", s, V), w)
	}
	js, err := json.Marshal(u)
	if err != nil || string(js) != V.String() {
		w["json"] = string(js)
		c.Violation("json", fmt.Sprintf("MarshalJSON=%s err=%v want %s", js, err, V), w)
	} else {
		var back scale.Uint128
		if err := json.Unmarshal(js, &back); err != nil || back != *u {
			c.Violation("json-roundtrip", fmt.Sprintf("Unmarshal(Marshal(u))=%+v err=%v", back, err), w)
		}
	}
	// JSON decoding of the correct decimal form must give u whatever MarshalJSON does
	var fromDec scale.Uint128
	if err := fromDec.UnmarshalJSON([]byte(V.String())); err != nil || fromDec != *u {
		c.Violation("json-decode", fmt.Sprintf("UnmarshalJSON(%s)=%+v err=%v", V, fromDec, err), w)
	}
	// two conversions of the same number must be independent objects: mutating one (as JSON decoding into it
	// does) must not change what a later conversion of the same number denotes
	if a, err := scale.NewUint128(V); err == nil && a != nil {
		_ = a.UnmarshalJSON([]byte("340282366920938463463374607431768211455"))
		a.Upper, a.Lower = ^uint64(0)-1, 12345
		if b, err := scale.NewUint128(V); err != nil || b == nil || *b != *u {
			c.Violation("from-big-shared-object", fmt.Sprintf("after mutating one NewUint128(%s) result, a second NewUint128(%s) = %+v err=%v", V, V, b, err), w)
		}
		if b2, err := scale.NewUint128(le); err != nil || b2 == nil || *b2 != *u {
			c.Violation("from-le-shared-object", fmt.Sprintf("after mutating one NewUint128 result, NewUint128(LE %x) = %+v err=%v", le, b2, err), w)
		}
		var viaJSON scale.Uint128
		if err := viaJSON.UnmarshalJSON([]byte(V.String())); err != nil || viaJSON != *u {
			c.Violation("json-decode-after-mutation", fmt.Sprintf("UnmarshalJSON(%s) after an unrelated mutation = %+v err=%v", V, viaJSON, err), w)
		}
		c.Count("independent_object_checks", 3)
	}
	// decoding into a destination that already holds another value (encoding/json reuses non-nil
	// *Uint128 struct fields) must overwrite it completely
	for _, prev := range []scale.Uint128{{Upper: ^uint64(0), Lower: ^uint64(0)}, {Upper: 1, Lower: 0}, {Upper: 0, Lower: 1 << 63}, {Upper: u.Lower, Lower: u.Upper}} {
		dst := prev
		if err := dst.UnmarshalJSON([]byte(V.String())); err != nil || dst != *u {
			w["previous"] = map[string]any{"upper": prev.Upper, "lower": prev.Lower}
			c.Violation("json-decode-reused-destination", fmt.Sprintf("UnmarshalJSON(%s) into a value holding (%d,%d) = (%d,%d) err=%v", V, prev.Upper, prev.Lower, dst.Upper, dst.Lower, err), w)
			break
		}
		holder := struct{ A *scale.Uint128 }{A: &scale.Uint128{Upper: prev.Upper, Lower: prev.Lower}}
		if err := json.Unmarshal([]byte(`{"A":`+V.String()+`}`), &holder); err != nil || holder.A == nil || *holder.A != *u {
			c.Violation("json-decode-reused-field", fmt.Sprintf("json.Unmarshal of %s into a pre-populated *Uint128 field gave %+v err=%v", V, holder.A, err), w)
			break
		}
		c.Count("json_decodes_into_reused_destination", 2)
	}
	c.Eval(8)
	if leToBig(le).Cmp(V) != 0 {
		c.Violation("bytes-le", fmt.Sprintf("Bytes(LE)=%x denotes %s want %s", le, leToBig(le), V), w)
	}
	if new(big.Int).SetBytes(be).Cmp(V) != 0 {
		c.Violation("bytes-be", fmt.Sprintf("Bytes(BE)=%x want %s", be, V), w)
	}
	if nb, err := scale.NewUint128(V); err != nil || *nb != *u {
		c.Violation("from-big", fmt.Sprintf("NewUint128(big %s)=%+v err=%v", V, nb, err), w)
	}
	if nb, err := scale.NewUint128(le); err != nil || *nb != *u {
		c.Violation("from-le", fmt.Sprintf("NewUint128(LE %x)=%+v err=%v", le, nb, err), w)
	}
	enc, err := scale.Marshal(u)
	full := make([]byte, 16)
	binary.LittleEndian.PutUint64(full[:8], u.Lower)
	binary.LittleEndian.PutUint64(full[8:], u.Upper)
	if err != nil || !bytes.Equal(enc, full) {
		c.Violation("scale-enc", fmt.Sprintf("Marshal=%x err=%v want %x", enc, err, full), w)
	} else {
		var back *scale.Uint128
		if err := scale.Unmarshal(enc, &back); err != nil || back == nil || *back != *u {
			c.Violation("scale-roundtrip", fmt.Sprintf("Unmarshal(Marshal(u))=%+v err=%v", back, err), w)
		}
	}
	c.Sample(map[string]any{"value": V.String(), "string": u.String(), "le": vcommon.Hex(le), "be": vcommon.Hex(be)})
}

func TestVerifC13(t *testing.T) {
	r := vcommon.Start(t, "C13")
	defer r.Finish()
	r.Floor("non_palindromic", 50)
	r.Floor("values", 400)
	r.Floor("json_decodes_into_reused_destination", 2000)
	r.Floor("independent_object_checks", 2000)

	// fixed corpus: byte boundaries and asymmetric patterns (seed independent)
	var fixed []*scale.Uint128
	add := func(v *big.Int) {
		if v.Sign() < 0 || v.BitLen() > 128 {
			return
		}
		lo := new(big.Int).And(v, new(big.Int).SetUint64(^uint64(0))).Uint64()
		hi := new(big.Int).Rsh(v, 64).Uint64()
		fixed = append(fixed, &scale.Uint128{Upper: hi, Lower: lo})
	}
	one := big.NewInt(1)
	for k := 0; k <= 128; k++ {
		p := new(big.Int).Lsh(one, uint(k))
		add(new(big.Int).Sub(p, one))
		add(p)
		add(new(big.Int).Add(p, one))
	}
	for pos := 0; pos < 16; pos++ {
		for _, b := range []int64{1, 0x7f, 0x80, 0xff} {
			add(new(big.Int).Lsh(big.NewInt(b), uint(8*pos)))
		}
	}
	add(big.NewInt(0))
	add(big.NewInt(256))
	add(big.NewInt(0x0102))
	add(new(big.Int).SetBytes([]byte{1, 2, 3, 4, 5, 6, 7, 8, 9, 10, 11, 12, 13, 14, 15, 16}))
	r.Fixed("fixed", len(fixed), func(c *vcommon.Case) { checkU128(c, fixed[c.Idx]) })

	r.Cases("rand", r.Scale(3000), func(c *vcommon.Case) {
		u := &scale.Uint128{Upper: c.R.Uint64(), Lower: c.R.Uint64()}
		switch c.R.Intn(4) {
		case 0: // short values
			n := c.R.Range(0, 16)
			b := c.R.Bytes(n)
			full := make([]byte, 16)
			copy(full, b)
			u = &scale.Uint128{Lower: binary.LittleEndian.Uint64(full[:8]), Upper: binary.LittleEndian.Uint64(full[8:])}
		case 1: // sparse bytes
			full := make([]byte, 16)
			for i := 0; i < c.R.Range(1, 3); i++ {
				full[c.R.Intn(16)] = byte(c.R.Uint64())
			}
			u = &scale.Uint128{Lower: binary.LittleEndian.Uint64(full[:8]), Upper: binary.LittleEndian.Uint64(full[8:])}
		}
		checkU128(c, u)
	})
	// Compare vs big.Int Cmp, oversize constructor inputs counted (c13_compare_test.go)
	c13Compare(r)
}
