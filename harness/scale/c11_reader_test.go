//go:build verif

package scale_test

// C11 / C12 extension: the *bytes.Reader decode path and several values on one
// stream.
//
// Production stream decoders are built as scale.NewDecoder(bytes.NewReader(b))
// (lib/runtime DecodeVersion, pkg/trie node / triedb codec decode,
// generic.Header.UnmarshalSCALE, grandpa justification.go, dot/core
// extrinsic decoding). decodeState.remaining() knows the unread length of a
// *bytes.Reader (r.Len()), so decodeBytes takes its known-remaining arm there:
// the same arm as for Unmarshal's *bytes.Buffer, but reached through the
// Decoder API, with bytes that may follow the value and with several Decode
// calls on one reader (remaining shrinks between calls). The opaque
// short-read stream of c11_test.go only reaches the unknown-remaining arm.

import (
	"bytes"
	"fmt"
	"io"
	"runtime/debug"

	"github.com/ChainSafe/gossamer/pkg/scale"
	"github.com/ChainSafe/gossamer/zz_verif/vcommon"
)

const (
	howReader     = "Decoder.Decode(bytes.Reader)"
	howReaderTail = "Decoder.Decode(bytes.Reader+tail)"
)

// realDecodeReader decodes one value of t with scale.NewDecoder(bytes.NewReader(data)).
func realDecodeReader(t *ty, data []byte) (o decOut) {
	rd := bytes.NewReader(data)
	defer func() {
		o.consumed = len(data) - rd.Len()
		if p := recover(); p != nil {
			o.panicked = fmt.Sprintf("%v\n%s", p, trimStack(debug.Stack()))
		}
	}()
	dst := newDst(t)
	o.err = scale.NewDecoder(rd).Decode(dst.Interface())
	if o.err == nil {
		o.v, o.convErr = fromGo(t, dst.Elem())
	}
	return
}

// c11ReaderArms adds the bytes.Reader arms to one C11 round trip: the reader
// holds exactly the encoding, and the encoding followed by unrelated bytes.
func c11ReaderArms(c *vcommon.Case, t *ty, want []byte, check func(how string, o decOut)) {
	c.Count("reader_arm_roundtrips", 2)
	check(howReader, realDecodeReader(t, want))
	check(howReaderTail, realDecodeReader(t, append(append([]byte{}, want...), 0x5a, 0xa5, 0x00, 0xff)))
}

// ---------------------------------------------------------------- several values on one stream

// wideCompactInside reports whether the canonical encoding holds a uint/int
// compact of the C11-K1 class (5..7 value bytes).
func wideCompactInside(marks []mark) bool {
	for _, m := range marks {
		if !m.big && m.n >= 6 && m.n <= 8 {
			return true
		}
	}
	return false
}

type streamPos interface{ pos() int }

type readerPos struct {
	rd  *bytes.Reader
	len int
}

func (r readerPos) pos() int { return r.len - r.rd.Len() }

type shortPos struct{ sr *shortReader }

func (s shortPos) pos() int { return s.sr.pos }

// checkStreamC11: v1..vk are written back to back with ONE Encoder and read
// back with ONE Decoder; every value must come back equal and after every
// Decode the reader must have given up exactly the encodings so far.
func checkStreamC11(c *vcommon.Case, items []tv) {
	var want []byte
	var ends []int
	var encs [][]byte
	var allMarks [][]mark
	names := ""
	for _, it := range items {
		e, m := RefEncode(it.t, it.v)
		want = append(want, e...)
		ends = append(ends, len(want))
		encs = append(encs, e)
		allMarks = append(allMarks, m)
		names += it.t.name + ";"
	}
	c.Count("stream_cases", 1)
	c.Count("stream_values", len(items))
	c.Distinct(fmt.Sprintf("stream|%s|%d", names, len(want)))
	wit := func(i int, extra map[string]any) map[string]any {
		w := map[string]any{"stream_types": names, "stream_len": len(want), "stream": vcommon.Hex(clip(want)), "value_index": i}
		if i >= 0 && i < len(items) {
			w["type"], w["value"], w["canonical"] = items[i].t.name, show(items[i].t, items[i].v), vcommon.Hex(clip(encs[i]))
		}
		for k, x := range extra {
			w[k] = x
		}
		return w
	}

	// one Encoder, one writer
	c.Eval(1)
	var buf bytes.Buffer
	encOK := true
	func() {
		defer func() {
			if p := recover(); p != nil {
				encOK = false
				c.Violation("stream-encode", fmt.Sprintf("Encoder.Encode panicked on a stream of %s: %v", names, p), wit(-1, nil))
			}
		}()
		enc := scale.NewEncoder(&buf)
		for i, it := range items {
			if err := enc.Encode(toGo(it.t, it.v).Interface()); err != nil {
				encOK = false
				c.Violation("stream-encode", fmt.Sprintf("Encoder.Encode of value %d (%s) failed: %v", i, it.t.name, err), wit(i, nil))
				return
			}
		}
	}()
	if !encOK {
		return
	}
	if !bytes.Equal(buf.Bytes(), want) {
		c.Violation("stream-encode", fmt.Sprintf("one Encoder wrote %s for %s, the canonical encodings back to back are %s", vcommon.Hex(clip(buf.Bytes())),
			names, vcommon.Hex(clip(want))), wit(-1, map[string]any{"encoder": vcommon.Hex(clip(buf.Bytes()))}))
		return
	}

	for _, kind := range []string{"bytes.Reader", "short-read stream"} {
		var rd io.Reader
		var sp streamPos
		if kind == "bytes.Reader" {
			br := bytes.NewReader(want)
			rd, sp = br, readerPos{br, len(want)}
		} else {
			sr := &shortReader{data: want, step: c.R.Intn(3)}
			rd, sp = sr, shortPos{sr}
		}
		d := scale.NewDecoder(rd)
		complete := true
		for i, it := range items {
			c.Eval(2)
			dst := newDst(it.t)
			var err error
			var panicked any
			func() {
				defer func() {
					if p := recover(); p != nil {
						panicked = fmt.Sprintf("%v\n%s", p, trimStack(debug.Stack()))
					}
				}()
				err = d.Decode(dst.Interface())
			}()
			how := fmt.Sprintf("Decode #%d (%s) of one Decoder over a %s", i, it.t.name, kind)
			if panicked != nil {
				c.Violation("decode-panic", how+" panicked: "+fmt.Sprint(panicked), wit(i, nil))
				complete = false
				break
			}
			if err != nil {
				complete = false
				if isK1(err, encs[i], allMarks[i]) {
					// the rest of the stream is undefined after a failed Decode
					c.Count("k1_wide_compact_rejected", 1)
					c.Count("stream_stopped_by_k1", 1)
					c.Known("C11-K1", fmt.Sprintf("%s rejects the canonical encoding %s: %v", how, vcommon.Hex(clip(encs[i])), err), wit(i, map[string]any{"error": err.Error()}))
					break
				}
				c.Violation("stream-roundtrip-error", fmt.Sprintf("%s rejects the canonical encoding %s at offset %d: %v", how, vcommon.Hex(clip(encs[i])),
					ends[i]-len(encs[i]), err), wit(i, map[string]any{"error": err.Error()}))
				break
			}
			got, cerr := fromGo(it.t, dst.Elem())
			if cerr != nil || !valEqual(it.t, got, it.v) {
				c.Violation("stream-roundtrip-value", fmt.Sprintf("%s = %s (%v), written was %s", how, show(it.t, got), cerr, show(it.t, it.v)),
					wit(i, map[string]any{"decoded": show(it.t, got)}))
				complete = false
				break
			}
			if p := sp.pos(); p != ends[i] {
				c.Violation("stream-consumed", fmt.Sprintf("after %s the reader gave up %d bytes, the encodings so far occupy %d", how, p, ends[i]), wit(i, nil))
				complete = false
				break
			}
			c.Count("stream_values_ok", 1)
			if i > 0 {
				c.Count("stream_values_ok_after_first", 1)
			}
		}
		if complete {
			c.Count("stream_complete", 1)
			if kind == "bytes.Reader" {
				c.Count("stream_complete_bytes_reader", 1)
			}
		}
	}
	c.Sample(map[string]any{"stream_types": names, "stream_len": len(want)})
}

// k1FreeValue draws a value of t whose encoding holds no C11-K1 compact
// (falls back to a u32 after a few attempts).
func k1FreeValue(g *gen, t *ty, depth int) tv {
	for i := 0; i < 6; i++ {
		v := g.value(t, depth)
		if _, m := RefEncode(t, v); !wideCompactInside(m) {
			return tv{t, v}
		}
	}
	return tv{tU32, g.value(tU32, depth)}
}

func streamCorpus() [][]tv {
	b := func(n int, x byte) *val { return &val{b: bytes.Repeat([]byte{x}, n)} }
	h := &val{}
	for i := 0; i < 32; i++ {
		h.kids = append(h.kids, uv(uint64(i+1)))
	}
	return [][]tv{
		// byte strings of every length-prefix width one after another: the known-remaining arm sees the
		// remaining length shrink
		{{tBytes, b(0, 0)}, {tBytes, b(1, 1)}, {tStr, b(63, 'a')}, {tBytes, b(64, 2)}, {tStr, b(16384, 'z')}, {tBytes, b(5, 3)}},
		// the LAST byte string ends exactly at the end of the stream
		{{tU8, uv(7)}, {tBytes, b(3, 9)}},
		{{tBool, uv(1)}, {tCmp, uv(1 << 14)}, {findType("Vec<u16>"), &val{kids: []*val{uv(1), uv(2)}}}, {findType("Option<u32>"), &val{}},
			{tSTag, &val{kids: []*val{uv(1), b(2, 8), b(1, 'c')}}}, {tBig, &val{big: pow2(70)}}, {tU128, &val{big: pow2(100)}}},
		// empty encodings never end a stream early: a zero-length vector between two values
		{{findType("Vec<Bytes>"), &val{}}, {tStr, b(0, 0)}, {tU16, uv(0x0102)}},
		// custom codecs on a shared reader (UnmarshalSCALE reads from the decoder's reader; cHdr nests a decoder)
		{{tCHash, h}, {tCHdr, &val{kids: []*val{uv(300), b(4, 0xee), {u: 1, kids: []*val{uv(513)}}}}}, {tCBoth, uv(0xbeef)}, {tStr, b(2, 'k')},
			{tCBE32, u8sVal([]byte{1, 2, 3, 4})}, {tCTriple, &val{kids: []*val{uv(1), uv(2), uv(3)}}}},
		// enum, result, map
		{{tEnum, &val{u: 1, kids: []*val{{kids: []*val{uv(1), uv(2)}}}}}, {tResA, &val{u: 1, kids: []*val{b(4, 'e')}}},
			{findType("Map<u8,u8>"), &val{kids: []*val{uv(1), uv(9), uv(2), uv(8)}}}, {tBool, uv(0)}},
	}
}

// c11Streams registers the one-stream groups of C11.
func c11Streams(r *vcommon.Run) {
	r.Floor("reader_arm_roundtrips", 4000)
	r.Floor("stream_cases", 400)
	r.Floor("stream_values_ok_after_first", 1500)
	r.Floor("stream_complete_bytes_reader", 250)
	r.Floor("stream_stopped_by_k1", 5)

	corpus := streamCorpus()
	r.Fixed("stream-fixed", len(corpus), func(c *vcommon.Case) { checkStreamC11(c, corpus[c.Idx]) })
	all := append(append([]*ty{}, universe...), customUniverse...)
	r.Cases("stream", r.Scale(500), func(c *vcommon.Case) {
		g := &gen{r: c.R}
		n := c.R.Range(2, 6)
		free := c.R.Chance(4, 5) // most streams are free of C11-K1 values so that long streams complete
		var items []tv
		for i := 0; i < n; i++ {
			t := vcommon.Pick(c.R, all)
			if i == n-1 && c.R.Chance(1, 3) {
				t = vcommon.Pick(c.R, []*ty{tBytes, tStr, findType("Vec<Bytes>"), tSTag}) // a byte string at the very end of the reader
			}
			if free {
				items = append(items, k1FreeValue(g, t, 1))
			} else {
				items = append(items, tv{t, g.value(t, 1)})
			}
		}
		checkStreamC11(c, items)
	})
}
