//go:build verif

package scale_test

import (
	"bytes"
	"errors"
	"fmt"
	"io"
	"math/big"
	"reflect"
	"runtime/debug"
	"strings"
	"testing"

	"github.com/ChainSafe/gossamer/pkg/scale"
	"github.com/ChainSafe/gossamer/zz_verif/vcommon"
)

// ---------------------------------------------------------------- driving the real codec

type encOut struct {
	b        []byte
	err      error
	panicked any
}

func realMarshal(x any) (o encOut) {
	defer func() {
		if p := recover(); p != nil {
			o.panicked = fmt.Sprintf("%v\n%s", p, trimStack(debug.Stack()))
		}
	}()
	o.b, o.err = scale.Marshal(x)
	return
}

func realEncode(x any) (o encOut) {
	defer func() {
		if p := recover(); p != nil {
			o.panicked = fmt.Sprintf("%v\n%s", p, trimStack(debug.Stack()))
		}
	}()
	var buf bytes.Buffer
	o.err = scale.NewEncoder(&buf).Encode(x)
	o.b = buf.Bytes()
	return
}

func trimStack(s []byte) string {
	if len(s) > 2500 {
		s = s[:2500]
	}
	return string(s)
}

type decOut struct {
	v        *val  // decoded value in the reference model (nil when err / panic)
	err      error // error returned by pkg/scale
	convErr  error // the Go value could not be read back (e.g. nil *big.Int on success)
	panicked any
	consumed int // bytes taken from the reader (stream mode only)
}

// realUnmarshal decodes data into a fresh destination with scale.Unmarshal.
func realUnmarshal(t *ty, data []byte) (o decOut) {
	defer func() {
		if p := recover(); p != nil {
			o.panicked = fmt.Sprintf("%v\n%s", p, trimStack(debug.Stack()))
		}
	}()
	dst := newDst(t)
	o.err = scale.Unmarshal(data, dst.Interface())
	if o.err == nil {
		o.v, o.convErr = fromGo(t, dst.Elem())
	}
	return
}

// shortReader hands out its data in chunks of 1..3 bytes, as a network
// stream may, and counts what was taken.
type shortReader struct {
	data []byte
	pos  int
	step int
}

func (s *shortReader) Read(p []byte) (int, error) {
	if s.pos >= len(s.data) {
		return 0, io.EOF
	}
	if len(p) == 0 {
		return 0, nil
	}
	n := 1 + (s.pos+s.step)%3
	if n > len(p) {
		n = len(p)
	}
	if n > len(s.data)-s.pos {
		n = len(s.data) - s.pos
	}
	copy(p, s.data[s.pos:s.pos+n])
	s.pos += n
	return n, nil
}

// realDecodeStream decodes with scale.NewDecoder over a short-reading stream.
func realDecodeStream(t *ty, data []byte, step int) (o decOut) {
	sr := &shortReader{data: data, step: step}
	defer func() {
		o.consumed = sr.pos
		if p := recover(); p != nil {
			o.panicked = fmt.Sprintf("%v\n%s", p, trimStack(debug.Stack()))
		}
	}()
	dst := newDst(t)
	o.err = scale.NewDecoder(sr).Decode(dst.Interface())
	if o.err == nil {
		o.v, o.convErr = fromGo(t, dst.Elem())
	}
	return
}

// ---------------------------------------------------------------- known finding C11-K1

// isK1 decides whether a failed decode of a CANONICAL encoding is the known
// defect "decodeUint rejects the 5-, 6- and 7-byte big-integer mode": the
// value holds a `uint`/`int` compact in [2^32, 2^56) and the error is
// ErrCompactUintPrefixUnknown naming exactly the prefix byte of such an
// integer.
func isK1(err error, enc []byte, marks []mark) bool {
	if err == nil || !errors.Is(err, scale.ErrCompactUintPrefixUnknown) {
		return false
	}
	for _, m := range marks {
		if m.big || m.n < 6 || m.n > 8 {
			continue
		}
		if strings.HasSuffix(err.Error(), fmt.Sprintf("unknown prefix for compact uint: %d", enc[m.off])) {
			return true
		}
	}
	return false
}

// ---------------------------------------------------------------- the C11 oracle

func checkC11(c *vcommon.Case, t *ty, v *val) {
	want, marks := RefEncode(t, v)
	var shape strings.Builder
	observe(c, t, v, &shape)
	c.Count("values", 1)
	c.Count("kind_"+kindNames[t.k], 1)
	c.Distinct(t.name + "|" + shape.String())
	wit := func(extra map[string]any) map[string]any {
		w := map[string]any{"type": t.name, "go_type": t.goT.String(), "value": show(t, v), "canonical": vcommon.Hex(clip(want))}
		for k, x := range extra {
			w[k] = x
		}
		return w
	}
	g := toGo(t, v)

	// 1. Marshal(v) is byte-identical to the canonical encoding (twice: determinism)
	for pass := 0; pass < 2; pass++ {
		c.Eval(1)
		o := realMarshal(g.Interface())
		switch {
		case o.panicked != nil:
			c.Violation("marshal-panic", fmt.Sprintf("Marshal(%s) panicked: %v", t.name, o.panicked), wit(nil))
			return
		case o.err != nil:
			c.Violation("marshal-error", fmt.Sprintf("Marshal(%s %s) failed: %v", t.name, show(t, v), o.err), wit(nil))
			return
		case !bytes.Equal(o.b, want):
			class := "not-canonical"
			if t.hasKind(kMap) && len(o.b) == len(want) {
				class = "not-canonical-map-order"
			}
			c.Violation(class, fmt.Sprintf("Marshal(%s %s) = %s, canonical SCALE is %s", t.name, show(t, v),
				vcommon.Hex(clip(o.b)), vcommon.Hex(clip(want))), wit(map[string]any{"marshal": vcommon.Hex(clip(o.b))}))
			return
		}
	}
	c.Eval(1)
	if o := realEncode(g.Interface()); o.panicked != nil || o.err != nil || !bytes.Equal(o.b, want) {
		c.Violation("encoder-differs", fmt.Sprintf("Encoder.Encode(%s) = %s err=%v panic=%v, canonical %s", t.name,
			vcommon.Hex(clip(o.b)), o.err, o.panicked, vcommon.Hex(clip(want))), wit(nil))
	}

	// 2. a pointer to the value is Some(value) (enums and results are passed by
	//    pointer to reach their methods and are exempt)
	//    (a type with its own codec is dispatched through its pointer too: checkCustomTop)
	if t.k != kEnum && t.k != kResult && t.k != kOpt && t.k != kBig && t.k != kU128 && t.toGoFn == nil {
		c.Eval(1)
		p := reflect.New(t.goT)
		p.Elem().Set(g)
		o := realMarshal(p.Interface())
		if o.panicked != nil || o.err != nil || !bytes.Equal(o.b, append([]byte{1}, want...)) {
			c.Violation("option-of-value", fmt.Sprintf("Marshal(&%s) = %s err=%v panic=%v, want 0x01 ‖ %s", t.name,
				vcommon.Hex(clip(o.b)), o.err, o.panicked, vcommon.Hex(clip(want))), wit(nil))
		}
	}

	// 3. decoding the canonical encoding gives the value back
	check := func(how string, o decOut) {
		c.Eval(1)
		switch {
		case o.panicked != nil:
			c.Violation("decode-panic", fmt.Sprintf("%s of the canonical encoding of %s %s panicked: %v", how, t.name, show(t, v), o.panicked), wit(nil))
		case o.err != nil:
			if isK1(o.err, want, marks) {
				c.Count("k1_wide_compact_rejected", 1)
				c.Known("C11-K1", fmt.Sprintf("%s rejects the canonical encoding %s of %s %s: %v", how, vcommon.Hex(clip(want)), t.name, show(t, v), o.err), wit(map[string]any{"error": o.err.Error()}))
				return
			}
			c.Violation("roundtrip-error", fmt.Sprintf("%s rejects the canonical encoding %s of %s %s: %v", how, vcommon.Hex(clip(want)), t.name, show(t, v), o.err), wit(map[string]any{"error": o.err.Error()}))
		case o.convErr != nil:
			c.Violation("roundtrip-value", fmt.Sprintf("%s of %s: decoded Go value unusable: %v", how, t.name, o.convErr), wit(nil))
		case !valEqual(t, o.v, v):
			c.Violation("roundtrip-value", fmt.Sprintf("%s(Marshal(%s %s)) = %s", how, t.name, show(t, v), show(t, o.v)), wit(map[string]any{"decoded": show(t, o.v)}))
		default:
			c.Count("roundtrips_ok", 1)
			if how != "Unmarshal" && o.consumed != len(want) {
				c.Violation("roundtrip-consumed", fmt.Sprintf("%s(%s) consumed %d bytes of a %d byte encoding", how, t.name, o.consumed, len(want)), wit(nil))
			}
		}
	}
	check("Unmarshal", realUnmarshal(t, want))
	// the stream decoder sees the encoding followed by unrelated bytes
	check("Decoder.Decode", realDecodeStream(t, append(append([]byte{}, want...), 0xa5, 0x5a, 0xff), c.R.Intn(3)))
	// third decode path, the one production stream decoders take: scale.NewDecoder(bytes.NewReader(b))
	// (known-remaining arm of decodeState.remaining / decodeBytes); with and without bytes after the value
	c11ReaderArms(c, t, want, check)
	c.Sample(map[string]any{"type": t.name, "value": show(t, v), "encoding": vcommon.Hex(clip(want)), "marshal_equal": true})
}

func clip(b []byte) []byte {
	if len(b) > 160 {
		return b[:160]
	}
	return b
}

// ---------------------------------------------------------------- fixed corpus

type tv struct {
	t *ty
	v *val
}

func uv(x uint64) *val { return &val{u: x} }
func bigv(s string) *val {
	x, ok := new(big.Int).SetString(s, 0)
	if !ok {
		panic("bigv " + s)
	}
	return &val{big: x}
}
func pow2(k uint) *big.Int { return new(big.Int).Lsh(big.NewInt(1), k) }

func findType(name string) *ty {
	for _, t := range universe {
		if t.name == name {
			return t
		}
	}
	panic("no type " + name)
}

// c11Corpus holds the minimal witness of every defect found and the corner
// values the property names, independent of the seed.
func c11Corpus() []tv {
	var out []tv
	// compact integers at every mode boundary and byte length 4..8 (C11-K1 lives at 5,6,7)
	for _, x := range compactBoundaries {
		out = append(out, tv{tCmp, uv(x)})
		out = append(out, tv{tCmpI, uv(x &^ (1 << 63))})
		out = append(out, tv{tBig, &val{big: new(big.Int).SetUint64(x)}})
		out = append(out, tv{tMyUint, uv(x)})
	}
	// big integers: smallest and largest value of each byte length
	for _, n := range []uint{4, 5, 6, 7, 8, 9, 16, 17, 66, 67} {
		out = append(out, tv{tBig, &val{big: pow2(8 * (n - 1))}})
		out = append(out, tv{tBig, &val{big: new(big.Int).Sub(pow2(8*n), big.NewInt(1))}})
	}
	// maps with many entries: Go iteration order practically never matches the canonical order
	m8 := &val{}
	for i := uint64(0); i < 12; i++ {
		m8.kids = append(m8.kids, uv(i*7), uv(255-i))
	}
	out = append(out, tv{findType("Map<u8,u8>"), m8})
	ms := &val{}
	for _, k := range []string{"", "a", "aa", "ab", "b", "ba", "z"} {
		ms.kids = append(ms.kids, &val{b: []byte(k)}, &val{b: []byte("v" + k)})
	}
	out = append(out, tv{findType("Map<str,Bytes>"), ms})
	// signed keys order numerically (-128 first), not by their byte pattern
	mi := &val{}
	for _, k := range []int{-128, -2, -1, 0, 1, 2, 127} {
		mi.kids = append(mi.kids, uv(uint64(uint8(int8(k)))), uv(uint64(k&1)))
	}
	out = append(out, tv{findType("Map<i8,bool>"), mi})
	// multi-byte integer keys order numerically, not by little-endian bytes
	mu := &val{}
	for _, k := range []uint64{1, 2, 255, 256, 257, 65536, 1 << 24} {
		mu.kids = append(mu.kids, uv(k), &val{b: []byte(fmt.Sprint(k))})
	}
	out = append(out, tv{findType("Map<u32,str>"), mu})
	// field-order tags, ignored and unexported fields
	out = append(out, tv{tSTag, &val{kids: []*val{uv(0x01020304), {b: []byte{9, 8}}, {b: []byte("c")}}}})
	out = append(out, tv{tSMix, &val{kids: []*val{uv(0xa1a2a3a4), uv(0xb1b2), uv(0xc1), uv(1)}}})
	out = append(out, tv{tSkip, &val{kids: []*val{uv(7), {u: 1, kids: []*val{uv(513)}}, uv(1 << 14)}}})
	// 128-bit, byte strings at the length-prefix boundaries
	out = append(out, tv{tU128, &val{big: new(big.Int).Sub(pow2(128), big.NewInt(1))}}, tv{tU128, &val{big: big.NewInt(256)}})
	for _, n := range []int{0, 1, 63, 64, 16383, 16384} {
		out = append(out, tv{tBytes, &val{b: bytes.Repeat([]byte{0xab}, n)}}, tv{tStr, &val{b: bytes.Repeat([]byte("x"), n)}})
	}
	// enum: every variant; results: both arms
	for _, e := range []*val{
		{u: 0, kids: []*val{uv(0xdeadbeef)}}, {u: 1, kids: []*val{{kids: []*val{uv(1), uv(2)}}}},
		{u: 2, kids: []*val{{kids: []*val{uv(7), {b: []byte("s")}}}}}, {u: 5, kids: []*val{uv(1 << 40)}},
		{u: 7, kids: []*val{{big: pow2(70)}}}, {u: 200, kids: []*val{uv(1)}},
	} {
		out = append(out, tv{tEnum, e})
	}
	out = append(out, tv{tResA, &val{u: 0, kids: []*val{uv(5)}}}, tv{tResA, &val{u: 1, kids: []*val{{b: []byte("boom")}}}},
		tv{tResB, &val{u: 0}}, tv{tResC, &val{u: 1}}, tv{tResD, &val{u: 0, kids: []*val{uv(1 << 48)}}})
	return out
}

func TestVerifC11(t *testing.T) {
	r := vcommon.Start(t, "C11")
	defer r.Finish()
	if err := refSelfCheck(); err != nil {
		r.Fixed("selfcheck", 1, func(c *vcommon.Case) { c.Inconclusive("RefSCALE self-validation failed: " + err.Error()) })
		return
	}
	for _, n := range []int{1, 2, 4, 5, 6, 7, 8, 9} {
		r.Floor(fmt.Sprintf("compact_enc_len_%d", n), 20)
	}
	for _, n := range []int{1, 2, 4, 5, 6, 7, 8, 9, 10, 17, 18, 68} { // prefix + 4..9, 16, 17, 67 value bytes
		r.Floor(fmt.Sprintf("bigint_enc_len_%d", n), 5)
	}
	r.Floor("compact_at_mode_boundary", 40)
	r.Floor("map_multi_entry", 50)
	r.Floor("structs", 200)
	r.Floor("option_some", 50)
	r.Floor("option_none", 50)
	r.Floor("result_ok", 10)
	r.Floor("result_err", 10)
	r.Floor("roundtrips_ok", 2000)

	corpus := c11Corpus()
	r.Fixed("corpus", len(corpus), func(c *vcommon.Case) { checkC11(c, corpus[c.Idx].t, corpus[c.Idx].v) })
	// seed-independent generated values: every type of the universe, 6 values each
	r.Fixed("types", len(universe)*3, func(c *vcommon.Case) {
		g := &gen{r: c.R}
		t := universe[c.Idx%len(universe)]
		for i := 0; i < 2; i++ {
			checkC11(c, t, g.value(t, 0))
		}
	})
	r.Cases("val", r.Scale(3000), func(c *vcommon.Case) {
		g := &gen{r: c.R}
		t := universe[c.Idx%len(universe)]
		for i := 0; i < 4; i++ {
			checkC11(c, t, g.value(t, 0))
		}
	})
	// several values on one stream with ONE encoder / ONE decoder (c11_reader_test.go)
	c11Streams(r)
	// types with a custom codec: Marshaler / Unmarshaler dispatch (universe_custom_test.go)
	c11Custom(r)
}
