//go:build verif

package grandpa

// C22 — hand-off of the authority set DURING live rounds (groups "handoff-corpus" and "handoff").
//
// An execution of the C22 simulation (zz_verif_c22_test.go) in which, while the real round loops run, every honest
// node's real GrandpaState is given a new authority set with set id + 1 through the calls the production digest path
// ends in (GrandpaState.SetNextChange + IncrementSetID; ApplyScheduledChanges performs the same writes), at a
// slightly different (seeded) moment per node. The services pick the change up where production does: in
// initiateRound -> updateAuthorities, at the start of their next round. Votes and commits of the old set are still
// in flight / parked in the trackers at that time, and the nodes switch at different times.
//
// Variants: same keys (optionally in another voter order), one honest key replaced (the replaced node keeps running
// as a non-member, the new key is a silent honest voter; one Byzantine identity fewer so that silent + Byzantine
// <= f), the Byzantine identities removed from the set, further Byzantine identities added (total <= f of the new
// size). Honest weight is > 2/3 in both sets. All Byzantine identities (also those that left the set) keep acting
// after the change, with old-set- and new-set-labelled votes and commits; on top the adversary replays genuine
// old-set commits (as they were, and relabelled with the new set id), commits assembled from genuine old-set
// precommits, and commits signed by the old keys for the new set id.
//
// Oracle: the offline checker of C22, with the authority list and the supermajority size taken from the harness' own
// record of the set the node finalised under (c22Params.authOf). Liveness after the hand-off is counted only.

import (
	"fmt"
	"runtime/debug"
	"sort"
	"sync"
	"time"

	"github.com/ChainSafe/gossamer/dot/types"
	"github.com/ChainSafe/gossamer/zz_verif/vcommon"
)

type c22Handoff struct {
	Variant  string `json:"variant"`
	NewAuth  []int  `json:"new_authorities"`         // key indexes in voter order of set id + 1
	NewByz   []int  `json:"new_byzantine,omitempty"` // Byzantine identities that join with the new set (key index >= N)
	Extra    int    `json:"extra_keys"`
	Replaced int    `json:"replaced_honest"` // honest authority whose key leaves the set (-1: none)
	Trigger  string `json:"trigger"`         // "after-first-finalisation" (per node) | "at-time"
	AtMs     int    `json:"at_ms,omitempty"`
	DelayMs  []int  `json:"per_node_delay_ms"` // index = authority index of the first set
	Target   int    `json:"new_set_finalisations_target"`
	// split scenarios: the two forks are given to a node when it casts its first vote under the new set (own fork at
	// once, the other fork LateIv intervals later)
	ForkOnNewSet bool   `json:"forks_released_at_first_new_set_vote,omitempty"`
	LateIv       int    `json:"other_fork_after_intervals,omitempty"`
	Name         string `json:"name,omitempty"`
}

func (p *c22Params) extraKeys() int {
	if p.Handoff == nil {
		return 0
	}
	return p.Handoff.Extra
}

// byzIDs returns every key index the adversary plays (old-set Byzantine voters and those joining at the hand-off).
func (p *c22Params) byzIDs() []int {
	if p.Handoff == nil || len(p.Handoff.NewByz) == 0 {
		return p.Byz
	}
	return append(append([]int{}, p.Byz...), p.Handoff.NewByz...)
}

// authOf returns the key indexes (voter order) of the authority set with the given id, as the harness set it up.
func (p *c22Params) authOf(set uint64) []int {
	if p.Handoff != nil && set == p.SetID+1 {
		return p.Handoff.NewAuth
	}
	out := make([]int, p.N)
	for i := range out {
		out[i] = i
	}
	return out
}

func c22RoundKey(round, set uint64) uint64 { return set<<40 | round }

type c22HandState struct {
	mu        sync.Mutex
	scheduled map[int]bool
	appliedMs map[int]int // honest node -> ms after start at which IncrementSetID returned
	errs      map[int]string
	newFinal  map[int]int    // honest node -> successful finalisations under the new set id
	lastSet   map[int]uint64 // honest node -> set id of its last observed vote
	lastOld   uint64         // highest old-set round seen in an honest vote
	attacked  bool
	forked    map[int]bool
}

func newC22HandState() *c22HandState {
	return &c22HandState{scheduled: map[int]bool{}, appliedMs: map[int]int{}, errs: map[int]string{}, newFinal: map[int]int{},
		lastSet: map[int]uint64{}, forked: map[int]bool{}}
}

// handoffApply gives honest node i the new authority set: the two GrandpaState calls of the production path.
func (s *c22Sim) handoffApply(i int) {
	h := s.p.Handoff
	node := s.nodes[i]
	if node == nil {
		return
	}
	voters := make([]Voter, 0, len(h.NewAuth))
	for pos, k := range h.NewAuth {
		v := verifVoters(s.keys[k : k+1])[0]
		v.ID = uint64(pos) //nolint:gosec
		voters = append(voters, v)
	}
	s.mu.Lock()
	number := s.tree.Number[s.headOf[i]]
	s.mu.Unlock()
	gs := node.Grandpa.GrandpaState
	err := gs.SetNextChange(voters, number)
	if err == nil {
		_, err = gs.IncrementSetID()
	}
	s.hand.mu.Lock()
	if err != nil {
		s.hand.errs[i] = err.Error()
	} else {
		s.hand.appliedMs[i] = int(time.Since(s.start).Milliseconds())
	}
	s.hand.mu.Unlock()
}

func (s *c22Sim) handoffBegin() {
	h := s.p.Handoff
	if h == nil || h.Trigger != "at-time" {
		return
	}
	for _, i := range s.hon {
		i := i
		s.hand.scheduled[i] = true
		s.after(s.ms(h.AtMs+h.DelayMs[i]), func() { s.handoffApply(i) })
	}
}

// handoffOnFinalise: called for every successful SetFinalisedHash of honest node i.
func (s *c22Sim) handoffOnFinalise(i int, f verifFinalisation) {
	h := s.p.Handoff
	if h == nil {
		return
	}
	s.hand.mu.Lock()
	if f.SetID == s.p.SetID+1 {
		s.hand.newFinal[i]++
	}
	first := h.Trigger == "after-first-finalisation" && !s.hand.scheduled[i]
	if first {
		s.hand.scheduled[i] = true
	}
	s.hand.mu.Unlock()
	if first {
		if h.DelayMs[i] == 0 {
			// enacted by the finalisation itself: in place before the node's next initiateRound
			s.handoffApply(i)
			return
		}
		// the digest handler of a node works off the finalisation notifications on its own goroutine: the change may
		// miss the start of the next round, the node then votes one more round under the old set
		s.after(s.ms(h.DelayMs[i]), func() { s.handoffApply(i) })
	}
}

// handoffTargetReached (pacing only): every live honest member of the new set finalised Target times under it.
func (s *c22Sim) handoffTargetReached() bool {
	h := s.p.Handoff
	s.mu.Lock()
	dead := map[int]bool{}
	for i := range s.svcErr {
		dead[i] = true
	}
	for i := range s.crashed {
		dead[i] = true
	}
	s.mu.Unlock()
	s.hand.mu.Lock()
	defer s.hand.mu.Unlock()
	for _, i := range s.hon {
		if dead[i] || i == h.Replaced {
			continue
		}
		if s.hand.newFinal[i] < h.Target {
			return false
		}
	}
	return true
}

// commitSet: the set an honest commit message belongs to (the message itself always says 0): the set of the
// sender's last vote.
func (a *c22Adv) commitSet(from int) uint64 {
	if a.s.hand == nil {
		return a.s.p.SetID
	}
	a.s.hand.mu.Lock()
	defer a.s.hand.mu.Unlock()
	if set, ok := a.s.hand.lastSet[from]; ok {
		return set
	}
	return a.s.p.SetID
}

// handoffObserve sees every honest message before the ordinary adversary does.
func (a *c22Adv) handoffObserve(from int, gm GrandpaMessage) {
	s := a.s
	h := s.p.Handoff
	if h == nil {
		return
	}
	m, ok := gm.(*VoteMessage)
	if !ok {
		return
	}
	newSet := s.p.SetID + 1
	s.hand.mu.Lock()
	s.hand.lastSet[from] = m.SetID
	if m.SetID == s.p.SetID && m.Round > s.hand.lastOld {
		s.hand.lastOld = m.Round
	}
	attack := m.SetID == newSet && !s.hand.attacked
	if attack {
		s.hand.attacked = true
	}
	fork := h.ForkOnNewSet && m.SetID == newSet && !s.hand.forked[from] && s.p.Split != nil
	if fork {
		s.hand.forked[from] = true
	}
	lastOld := s.hand.lastOld
	s.hand.mu.Unlock()
	if fork {
		sp := s.p.Split
		own, other := c22ChainAbove(s.tree, sp.Base, sp.TipB), c22ChainAbove(s.tree, sp.Base, sp.TipA)
		if sp.inA(from) {
			own, other = other, own
		}
		s.after(0, func() {
			for _, b := range own {
				s.importBlock(from, b)
			}
		})
		s.after(s.ms(h.LateIv*s.p.IntervalMs), func() {
			for _, b := range other {
				s.importBlock(from, b)
			}
		})
	}
	if attack {
		a.mu.Lock()
		r := a.r.Fork()
		commits := map[uint64]*CommitMessage{}
		for k, cm := range a.commits {
			if k>>40 == s.p.SetID {
				commits[k] = cm
			}
		}
		pcs := map[uint64]map[int]*VoteMessage{} // old-set round -> honest authority -> precommit
		for k, st := range a.votes {
			if k>>40 != s.p.SetID {
				continue
			}
			pcs[k&(1<<40-1)] = map[int]*VoteMessage{}
			for au, vm := range st[byte(precommit)] {
				pcs[k&(1<<40-1)][au] = vm
			}
		}
		a.mu.Unlock()
		s.after(0, func() { a.handoffAttack(r, commits, pcs, lastOld) })
	}
}

// c22ChainAbove returns the blocks above base up to tip, parent first.
func c22ChainAbove(t *verifTree, base, tip int) []int {
	var out []int
	for b := tip; b > base; b = t.Parent[b] {
		out = append(out, b)
	}
	sort.Ints(out)
	return out
}

// handoffAttack runs once, when the first honest vote under the new set id shows up: everything of the old set that
// can be thrown at nodes that have switched, are switching or have not switched yet.
func (a *c22Adv) handoffAttack(r *vcommon.Rand, commits map[uint64]*CommitMessage, pcs map[uint64]map[int]*VoteMessage, lastOld uint64) {
	s, t := a.s, a.s.tree
	old, nw := s.p.SetID, s.p.SetID+1
	iv := s.p.IntervalMs
	byz := s.p.byzIDs()
	if len(byz) == 0 {
		return
	}
	from := byz[0]
	send := func(cm *CommitMessage, tag string) {
		for _, to := range s.hon {
			a.sendCommit(from, to, cm, r.Intn(2*iv+1), tag)
			a.sendCommit(from, to, cm, 2*iv+r.Intn(10*iv+1), tag)
		}
	}
	// 1. genuine commits of the old set, as they were and relabelled with the new set id
	var keys []uint64
	for k := range commits {
		keys = append(keys, k)
	}
	sort.Slice(keys, func(i, j int) bool { return keys[i] < keys[j] })
	for _, k := range keys {
		cm := commits[k]
		send(cm, "handoff-replay-old-commit")
		cp := *cm
		cp.SetID = nw
		send(&cp, "handoff-replay-old-commit-relabelled")
	}
	// 2. commits assembled from the genuine old-set precommits of a round, completed by old-set precommits of the
	//    Byzantine identities, for the highest block that has a supermajority of the OLD set this way
	var rounds []uint64
	for rd := range pcs {
		rounds = append(rounds, rd)
	}
	sort.Slice(rounds, func(i, j int) bool { return rounds[i] < rounds[j] })
	for _, rd := range rounds {
		best := -1
		for _, vm := range pcs[rd] {
			b := t.Index(vm.Message.BlockHash)
			if b < 0 {
				continue
			}
			cnt := len(s.p.Byz)
			for _, o := range pcs[rd] {
				if ob := t.Index(o.Message.BlockHash); ob >= 0 && t.IsAncestorOrEqual(b, ob) {
					cnt++
				}
			}
			if cnt*3 > 2*s.p.N && (best < 0 || t.Number[b] > t.Number[best]) {
				best = b
			}
		}
		if best < 0 {
			continue
		}
		var sv []SignedVote
		for _, o := range pcs[rd] {
			if ob := t.Index(o.Message.BlockHash); ob >= 0 && t.IsAncestorOrEqual(best, ob) {
				sv = append(sv, SignedVote{Vote: Vote{Hash: o.Message.BlockHash, Number: o.Message.Number},
					Signature: o.Message.Signature, AuthorityID: o.Message.AuthorityID})
			}
		}
		for _, b := range s.p.Byz {
			x := verifSignVote(s.keys[b], precommit, t.Vote(best), rd, old)
			s.recordVote("byz", x.AuthorityID, precommit, x.Vote, rd, old, x.Signature)
			sv = append(sv, x)
		}
		send(verifCommit(rd, old, t.Vote(best), sv), "handoff-assembled-old-commit")
		send(verifCommit(rd, nw, t.Vote(best), sv), "handoff-assembled-old-commit-relabelled")
	}
	// 3. commits signed by the old keys (every Byzantine identity, also those that left the set) FOR the new set id,
	//    for a block on another fork than the victim's head where there is one; padded with garbage signatures in
	//    the names of the honest members of the new set
	for rd := uint64(1); rd <= lastOld+3; rd++ {
		victim := s.hon[r.Intn(len(s.hon))]
		s.mu.Lock()
		head := s.headOf[victim]
		s.mu.Unlock()
		d := t.Descendants(head)
		x := d[r.Intn(len(d))]
		var sv []SignedVote
		for _, b := range byz {
			v := verifSignVote(s.keys[b], precommit, t.Vote(x), rd, nw)
			s.recordVote("byz", v.AuthorityID, precommit, v.Vote, rd, nw, v.Signature)
			sv = append(sv, v)
			if r.Bool() { // and an equivocation
				y := d[r.Intn(len(d))]
				v2 := verifSignVote(s.keys[b], precommit, t.Vote(y), rd, nw)
				s.recordVote("byz", v2.AuthorityID, precommit, v2.Vote, rd, nw, v2.Signature)
				sv = append(sv, v2)
			}
		}
		for _, k := range s.p.authOf(nw) {
			if !s.p.isByz(k) {
				sv = append(sv, SignedVote{Vote: t.Vote(x), Signature: c22Garbage(r), AuthorityID: verifPub(s.keys[k])})
			}
		}
		cm := verifCommit(rd, nw, t.Vote(x), sv)
		for _, to := range s.hon {
			a.sendCommit(from, to, cm, r.Intn(12*iv+1), "handoff-old-keys-new-set")
		}
	}
	// 4. old-set-labelled votes after the change (nodes that have not switched yet still accept them)
	if s.p.Script == "" {
		for _, rd := range []uint64{lastOld, lastOld + 1} {
			if rd == 0 {
				continue
			}
			for _, st := range []Subround{prevote, precommit} {
				rr, rd, st := r.Fork(), rd, st
				s.after(s.ms(r.Intn(4*iv+1)), func() { a.playStage(rr, rd, old, st) })
			}
		}
		s.count("handoff_old_set_votes_after_change_rounds", 2)
	}
}

// ---------------------------------------------------------------------------------------------
// generation

// c22AddHandoff turns params into a hand-off execution.
func c22AddHandoff(r *vcommon.Rand, p *c22Params, variant string) {
	f := (p.N - 1) / 3
	h := &c22Handoff{Variant: variant, Replaced: -1, Target: 1}
	switch variant {
	case "byzantine-removed":
		if len(p.Byz) == 0 {
			h.Variant = "same-keys"
		}
	case "honest-key-replaced":
		if len(p.Byz) >= f && len(p.Byz) > 0 { // silent new key + Byzantine identities <= f
			p.Byz = append([]int{}, p.Byz[1:]...)
		}
	case "byzantine-added":
		if len(p.Byz) > 0 {
			p.Byz = append([]int{}, p.Byz[1:]...)
		}
	}
	hon := p.honest()
	all := make([]int, p.N)
	for i := range all {
		all[i] = i
	}
	switch h.Variant {
	case "same-keys":
		h.NewAuth = all
		if r.Bool() { // another voter order: other primaries
			h.NewAuth = make([]int, p.N)
			for i, j := range r.Perm(p.N) {
				h.NewAuth[i] = j
			}
		}
	case "honest-key-replaced":
		h.Replaced = hon[r.Intn(len(hon))]
		h.Extra = 1
		h.NewAuth = all
		h.NewAuth[h.Replaced] = p.N
	case "byzantine-removed":
		h.NewAuth = hon
	case "byzantine-added":
		k := 2
		for k > 0 && len(p.Byz)+k > (p.N+k-1)/3 {
			k--
		}
		if k == 0 {
			h.Variant = "same-keys"
			h.NewAuth = all
			break
		}
		h.Extra = k
		h.NewAuth = all
		for j := 0; j < k; j++ {
			h.NewByz = append(h.NewByz, p.N+j)
			h.NewAuth = append(h.NewAuth, p.N+j)
		}
	}
	iv := p.IntervalMs
	h.DelayMs = make([]int, p.N)
	if r.Chance(3, 4) {
		h.Trigger = "after-first-finalisation"
		late := r.Intn(3) // 0: every node switches with its first finalisation; else: some nodes a little later
		for i := range h.DelayMs {
			if late > 0 && r.Chance(1, 4) {
				h.DelayMs[i] = 1 + r.Intn(2*iv)
			}
		}
	} else {
		h.Trigger = "at-time"
		h.AtMs = r.Range(4, 14) * iv
		for i := range h.DelayMs {
			h.DelayMs[i] = r.Intn(3*iv + 1)
		}
	}
	p.Handoff = h
	p.CapMs = 60*iv + 600
}

var c22HandoffVariants = []string{"same-keys", "honest-key-replaced", "byzantine-removed", "byzantine-added"}

func c22GenHandoffParams(c *vcommon.Case, thorough bool, k int) *c22Params {
	p := c22GenParams(c, thorough)
	// intervals of 30..40 ms: with shorter ones a loaded machine serves the engines' timers so late that most round
	// loops end with ErrNoGHOST before the hand-off is reached
	p.IntervalMs = 30 + int(p.Salt%11) //nolint:gosec
	if p.MaxDelayMs > p.IntervalMs {
		p.MaxDelayMs = p.IntervalMs
	}
	c22AddHandoff(c.R, p, c22HandoffVariants[(c.Idx+k)%len(c22HandoffVariants)])
	return p
}

var c22HandoffScripts = []string{"handoff-split-byzantine-added-n4-to-n5", "handoff-split-byzantine-removed-n7-to-n5",
	"handoff-same-keys-old-commits-replayed"}

func c22HandoffScriptParams(idx, attempt int) *c22Params {
	name := c22HandoffScripts[idx%len(c22HandoffScripts)]
	seed := uint64(9000 + 10*idx + attempt) //nolint:gosec
	var p *c22Params
	switch name {
	case "handoff-split-byzantine-added-n4-to-n5":
		// set 0 = 4 honest voters; set 1 = the same + Byzantine key 4 (n=5, f=1). tree 0-1-{2,3}; only 0-1 is known while
		// set 0 votes. In set 1 nodes 0,1 get block 2 and nodes 2,3 block 3; key 4 equivocates towards both halves: each
		// half sees 2 + 1 = 3 of 5, which is not a supermajority (a threshold computed for 4 voters would accept it)
		p = c22SplitParams(4, []int{}, 1, 1, 60, 12, false, false, seed)
		p.Handoff = &c22Handoff{Variant: "byzantine-added", NewAuth: []int{0, 1, 2, 3, 4}, NewByz: []int{4}, Extra: 1,
			Replaced: -1, Trigger: "after-first-finalisation", DelayMs: []int{0, 0, 0, 0}, Target: 3, ForkOnNewSet: true, LateIv: 12}
	case "handoff-split-byzantine-removed-n7-to-n5":
		// set 0 = 5 honest + Byzantine 5,6; set 1 = the 5 honest voters. In set 1 nodes 0,1,2 get fork A, nodes 3,4 fork B;
		// keys 5,6 keep voting (labelled with the new set id), equivocating towards both halves: 3 of 5 is not a
		// supermajority of the new set (3 + 2 of 7 would be one of the old set)
		p = c22SplitParams(7, []int{5, 6}, 1, 1, 60, 12, false, true, seed)
		p.Handoff = &c22Handoff{Variant: "byzantine-removed", NewAuth: []int{0, 1, 2, 3, 4}, Replaced: -1,
			Trigger: "after-first-finalisation", DelayMs: []int{0, 0, 0, 0, 0, 0, 0}, Target: 3, ForkOnNewSet: true, LateIv: 12}
	default:
		// n=4, authority 3 Byzantine (randomised adversary), chain with one fork, same keys in another order
		p = &c22Params{N: 4, Byz: []int{3}, Parents: []int{-1, 0, 1, 2, 2, 4}, Salt: 2201, IntervalMs: 40, Rounds: 2,
			NetSeed: seed, AdvSeed: seed + 5, MaxDelayMs: 3}
		p.Release = make([][]int, 4)
		for i := range p.Release {
			p.Release[i] = []int{0, 0, 0, 0, 40 * 40, 40 * 40}
		}
		p.Handoff = &c22Handoff{Variant: "same-keys", NewAuth: []int{2, 0, 3, 1}, Replaced: -1, Trigger: "after-first-finalisation",
			DelayMs: []int{0, 0, 0, 0}, Target: 2}
	}
	p.Handoff.Name = name
	if p.Split != nil {
		// the forks are released by the hand-off hook, not by the clock
		for i := range p.Release {
			for b := p.Split.Base + 1; b < len(p.Parents); b++ {
				p.Release[i][b] = -1
			}
		}
		p.Hold = nil
	}
	p.CapMs = 70 * p.IntervalMs
	return p
}

// ---------------------------------------------------------------------------------------------
// what a hand-off execution adds to the evidence

func (s *c22Sim) handoffCounters(c *vcommon.Case, v *c22Verdict, events []c22Event, votes []c22VoteRec, observed map[string]int) {
	p, h := s.p, s.p.Handoff
	newSet := p.SetID + 1
	c.Count("handoff_executions", 1)
	c.Count("handoff_variant:"+h.Variant, 1)
	c.Count("handoff_trigger:"+h.Trigger, 1)
	c.Count(fmt.Sprintf("handoff_set_size_%d_to_%d", p.N, len(h.NewAuth)), 1)
	if h.Name != "" {
		c.Count("script:"+h.Name, 1)
	}
	s.hand.mu.Lock()
	lo, hi := -1, -1
	for _, ms := range s.hand.appliedMs {
		if lo < 0 || ms < lo {
			lo = ms
		}
		if ms > hi {
			hi = ms
		}
	}
	applied := len(s.hand.appliedMs)
	applyErr := len(s.hand.errs)
	s.hand.mu.Unlock()
	c.Count("handoff_applied_on_nodes", applied)
	c.Count("handoff_apply_returned_error", applyErr)
	if applied >= 2 && hi > lo {
		c.Count("handoff_executions_with_nodes_switched_at_different_moments", 1)
	}
	// what the honest services signed under which set
	firstNew, oldAfterNew, newVotes := -1, 0, 0
	for i, vr := range votes {
		if vr.Origin != "honest" {
			continue
		}
		if vr.SetID == newSet {
			newVotes++
			if firstNew < 0 {
				firstNew = i
			}
		} else if firstNew >= 0 {
			oldAfterNew++
		}
	}
	c.Count("handoff_honest_votes_signed_under_new_set", newVotes)
	if oldAfterNew > 0 {
		c.Count("handoff_executions_with_old_set_votes_signed_after_first_new_set_vote", 1)
	}
	nodesNew := 0
	for _, i := range s.hon {
		if v.NewSetFinal[i] > 0 {
			nodesNew++
		}
	}
	newEvents := 0
	for _, e := range events {
		if e.Err == "" && e.SetID == newSet {
			newEvents++
		}
	}
	c.Count("handoff_finalisations_under_new_set", newEvents)
	switch {
	case applied == 0:
		c.Count("handoff_executions_without_hand-off(nothing finalised before)", 1)
	case nodesNew >= 2:
		c.Count("handoff_executions_finalised_under_new_set_on_2+_nodes", 1)
		c.Count("handoff_executions_finalised_under_new_set_on_2+_nodes:"+h.Variant, 1)
		observed["handoff_new_set_2+"] = 1
	case nodesNew == 1:
		c.Count("handoff_executions_finalised_under_new_set_on_one_node_only", 1)
	case newVotes > 0:
		c.Count("handoff_executions_voting_but_never_finalising_under_new_set(liveness, counted)", 1)
	default:
		c.Count("handoff_executions_never_voting_under_new_set(liveness, counted)", 1)
	}
	c.Count("handoff_non_member_node_finalised_without_supermajority_of_the_set(counted)", len(v.OutsiderUnjustified))
	if sp := p.Split; sp != nil {
		// did the split arise under the NEW set: in one round both halves pre-voted on their own fork only
		type ab struct{ a, b, bad int }
		per := map[uint64]*ab{}
		for _, vr := range votes {
			if vr.Origin != "honest" || vr.SetID != newSet || vr.Stage == byte(precommit) || vr.Block <= sp.Base {
				continue
			}
			if per[vr.Round] == nil {
				per[vr.Round] = &ab{}
			}
			onA := s.tree.IsAncestorOrEqual(vr.Block, sp.TipA)
			switch {
			case sp.inA(vr.Auth) && onA:
				per[vr.Round].a++
			case !sp.inA(vr.Auth) && !onA:
				per[vr.Round].b++
			default:
				per[vr.Round].bad++
			}
		}
		for _, x := range per {
			if x.a > 0 && x.b > 0 && x.bad == 0 && s.byzDeliv > 0 {
				observed["handoff_split_situation"] = 1
			}
		}
		if observed["handoff_split_situation"] > 0 {
			c.Count("handoff_split_executions_with_honest_prevotes_split_under_new_set", 1)
		}
	}
}

// ---------------------------------------------------------------------------------------------
// regression corpus: a commit message handled while the round loop switches to the next set

// c22SwitchingBlockState runs a hook at the first GetHighestFinalisedHeader call, ie. in the middle of
// verifyCommitMessageJustification.
type c22SwitchingBlockState struct {
	*verifBlockState
	hook func()
}

func (b *c22SwitchingBlockState) GetHighestFinalisedHeader() (*types.Header, error) {
	if f := b.hook; f != nil {
		b.hook = nil
		f()
	}
	return b.verifBlockState.GetHighestFinalisedHeader()
}

// c22CommitRaceCase: a genuine commit message of (round 1, set 0) is being verified on a network goroutine when the
// round loop executes updateAuthorities (the node has just been given set 1). Whatever handleCommitMessage records
// as finalised must be recorded under the set the commit was verified against: nobody voted in round 1 of set 1.
// (first seen in handoff/4, seed 20260921: node 1 "finalised" round 1 of set 1 with no vote of its own and skipped it)
func c22CommitRaceCase(c *vcommon.Case) {
	tree := verifTreeFromParents([]int{-1, 0, 1}, 2224)
	keys := verifKeypairs(0x4a0d, 4)
	node, err := verifNewNode(tree, keys, verifNodeOpts{Self: 0})
	if err != nil {
		c.Inconclusive("set-up failed: " + err.Error())
		return
	}
	defer node.Close()
	svc := node.Service
	var hookErr error
	svc.blockState = &c22SwitchingBlockState{verifBlockState: node.Block, hook: func() {
		gs := node.Grandpa.GrandpaState
		if hookErr = gs.SetNextChange(verifVoters(keys), 0); hookErr == nil {
			if _, hookErr = gs.IncrementSetID(); hookErr == nil {
				hookErr = svc.updateAuthorities() // first step of the round loop's initiateRound
			}
		}
	}}
	var pcs []SignedVote
	for _, k := range []int{1, 2, 3} {
		pcs = append(pcs, verifSignVote(keys[k], precommit, tree.Vote(2), 1, 0))
	}
	herr := svc.handleCommitMessage(verifCommit(1, 0, tree.Vote(2), pcs))
	c.Eval(1)
	c.Count("script:handoff-commit-set-id-race", 1)
	if hookErr != nil {
		c.Inconclusive("hand-off inside the hook failed: " + hookErr.Error())
		return
	}
	node.Block.mu.Lock()
	calls := append([]verifFinalisation{}, node.Block.Calls...)
	node.Block.mu.Unlock()
	for _, f := range calls {
		if f.Err == nil && f.SetID != 0 {
			c.Violation("finalised-without-supermajority", "a commit message verified against the precommits of set 0 was "+
				"recorded as the finalisation of the same round of set 1, in which nobody voted",
				map[string]any{"tree": tree.Shape(), "n": 4, "recorded": fmt.Sprintf("block %d round %d set %d", tree.Index(f.Hash), f.Round, f.SetID),
					"handleCommitMessage_returned": fmt.Sprint(herr),
					"steps": "commit (round 1, set 0, 3 of 4 valid precommits for block 2) -> handleCommitMessage; during " +
						"verifyCommitMessageJustification: SetNextChange + IncrementSetID + updateAuthorities"})
		}
	}
	if len(calls) > 0 {
		c.Count("commit_race_finalisation_recorded", 1)
	}
}

// c22KeySetRaceCase: network goroutines build the authority key set (handleCommitMessage, catch-up handlers ->
// authorityKeySet) while the round loop switches to a SHORTER authority list (updateAuthorities: s.state.voters = ...).
// First seen as a panic of an honest node in handoff/2, seed 1, variant byzantine-removed ("index out of range [5] with
// length 5"): authorityKeySet ranged over one reading of s.state.voters and indexed another one. The two lists share one
// backing array here, so that a torn read of the slice header is harmless and only the double read can fail.
func c22KeySetRaceCase(c *vcommon.Case) {
	tree := verifTreeFromParents([]int{-1, 0}, 2225)
	keys := verifKeypairs(0x4a0e, 7)
	node, err := verifNewNode(tree, keys, verifNodeOpts{Self: 0})
	if err != nil {
		c.Inconclusive("set-up failed: " + err.Error())
		return
	}
	defer node.Close()
	svc := node.Service
	long := svc.state.voters
	if len(long) != 7 {
		c.Inconclusive(fmt.Sprintf("expected 7 voters, the node has %d", len(long)))
		return
	}
	short := long[:5]
	stop := make(chan struct{})
	swapped := make(chan int, 1)
	go func() { // the round loop's updateAuthorities, again and again
		n := 0
		for {
			select {
			case <-stop:
				swapped <- n
				return
			default:
			}
			svc.state.voters = short
			svc.state.voters = long
			n += 2
		}
	}()
	var panicked any
	var stack string
	sizes := map[int]int{}
	reads := 0
	func() {
		defer func() {
			if r := recover(); r != nil {
				panicked, stack = r, string(debug.Stack())
			}
		}()
		for ; reads < 20000; reads++ {
			sizes[len(svc.authorityKeySet())]++
		}
	}()
	close(stop)
	n := <-swapped
	svc.state.voters = long
	c.Eval(1)
	c.Count("script:handoff-key-set-vs-shorter-voter-list", 1)
	c.Count("keyset_race_reads", reads)
	c.Count("keyset_race_swaps", n)
	if panicked != nil {
		c.Violation("panic", fmt.Sprintf("authorityKeySet panicked while the voter list was replaced by a shorter one: %v", panicked),
			map[string]any{"reads_before_panic": reads, "swaps": n, "stack": stack,
				"steps": "goroutine A: authorityKeySet() in a loop; goroutine B: s.state.voters = 5 voters / 7 voters alternately (what updateAuthorities does at a hand-off)"})
		return
	}
	for sz := range sizes {
		if sz != 5 && sz != 7 {
			c.Count("keyset_race_mixed_size_sets_seen", 1)
		}
	}
}
