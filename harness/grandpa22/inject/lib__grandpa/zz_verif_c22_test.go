//go:build verif

package grandpa

// C22 — GRANDPA finality is safe under a Byzantine minority.
//
// Monitor: N in {4,5,6,7,8} voters (every residue class mod 3). The honest ones are real *Service instances (real round loop: the
// finalisation handler, the voting round handler, the finalisation engine, the message tracker and the
// message handler all run as in a node), each on its own real state.BlockState / state.GrandpaState.
// They are wired to a seeded fake network (per recipient: PRNG-chosen delay, duplication, bounded loss,
// hence reordering). The remaining f = floor((N-1)/3) voters are played by the harness: they equivocate,
// tell different honest nodes different things, impersonate, replay and forge commit messages.
// Blocks of a generated forked tree are released to the nodes over time (different arrival times per node).
//
// Every BlockState.SetFinalisedHash call of every honest node goes to ONE event log. After the execution
// has been stopped the offline checker decides, on the harness' own parent vector:
//   conflicting-finalisation       two finalised blocks (any two honest nodes, any two times) neither of
//                                  which is an ancestor-or-equal of the other
//   finalised-head-regress         a node's finalised head moved to a strict ancestor of its previous one
//   finalised-without-supermajority  trace validation of the tally: the finalised block does not have
//                                  > 2n/3 distinct authorities with a correctly signed precommit (round and
//                                  set id of the finalisation) for it or a descendant, counting every
//                                  authority with two different correctly signed precommits of that round
//                                  once for every block — over ALL precommits that exist in the execution
//                                  (gossiped by honest services or signed by the Byzantine identities),
//                                  verified with crypto/ed25519 over a hand-written payload encoding
//   honest-equivocation            an honest service signed two different votes for one (round, set, stage)
// Timers only pace the workload; no verdict depends on time. An execution that finalises nothing is
// counted as inconclusive for that case (counter), coverage floors make the whole run inconclusive when
// too few executions finalised on >= 2 nodes or had Byzantine messages delivered.

import (
	stded "crypto/ed25519"
	"encoding/binary"
	"encoding/json"
	"fmt"
	"hash/fnv"
	"os"
	"regexp"
	"runtime/debug"
	"sort"
	"strings"
	"sync"
	"sync/atomic"
	"testing"
	"time"

	"github.com/ChainSafe/gossamer/dot/types"
	"github.com/ChainSafe/gossamer/lib/crypto/ed25519"
	"github.com/ChainSafe/gossamer/zz_verif/vcommon"
	"github.com/libp2p/go-libp2p/core/peer"
)

// ---------------------------------------------------------------------------------------------
// parameters of one execution

type c22Params struct {
	N          int         `json:"n"`
	Byz        []int       `json:"byzantine"`
	Parents    []int       `json:"tree_parents"`
	Salt       uint64      `json:"salt"`
	SetID      uint64      `json:"set_id"`
	IntervalMs int         `json:"interval_ms"`
	Rounds     int         `json:"rounds_target"`
	DropPct    int         `json:"drop_pct"`
	DupPct     int         `json:"dup_pct"`
	MaxDelayMs int         `json:"max_delay_ms"`
	SlowPct    int         `json:"slow_link_pct"`
	Release    [][]int     `json:"block_release_ms"` // [authority][block] ms after start; -1 never; 0 = present at start
	NetSeed    uint64      `json:"net_seed"`
	AdvSeed    uint64      `json:"adv_seed"`
	Script     string      `json:"script"`                 // "" = randomised adversary, otherwise the name of a fixed scenario
	Hold       [][]int     `json:"link_hold_ms,omitempty"` // [from][to] extra delay of every honest message on that link
	Split      *c22Split   `json:"split,omitempty"`        // split-vote scenario (script "split-vote")
	Handoff    *c22Handoff `json:"handoff,omitempty"`      // authority set hand-off during the run (zz_verif_c22_handoff_test.go)
	CapMs      int         `json:"wall_cap_ms"`
}

// c22Split describes a split-vote scenario: the honest voters are divided into two halves, each half knows
// (at first) only its own fork above Base; the Byzantine voters equivocate towards both halves.
type c22Split struct {
	HalfA []int `json:"half_a"`
	HalfB []int `json:"half_b"`
	Base  int   `json:"base_block"`
	TipA  int   `json:"tip_a"`
	TipB  int   `json:"tip_b"`
}

func (sp *c22Split) inA(i int) bool {
	for _, x := range sp.HalfA {
		if x == i {
			return true
		}
	}
	return false
}

func (p *c22Params) isByz(i int) bool {
	for _, b := range p.byzIDs() {
		if b == i {
			return true
		}
	}
	return false
}

func (p *c22Params) honest() []int {
	var out []int
	for i := 0; i < p.N; i++ {
		if !p.isByz(i) {
			out = append(out, i)
		}
	}
	return out
}

func c22Peer(i int) peer.ID { return peer.ID(fmt.Sprintf("verif-node-%d", i)) }

func c22PeerIndex(p peer.ID) int {
	var i int
	if _, err := fmt.Sscanf(string(p), "verif-node-%d", &i); err != nil {
		return -1
	}
	return i
}

// c22Payload is the SCALE encoding of FullVote{stage, {hash, number}, round, setID} written by hand
// (u8 ‖ 32 bytes ‖ u32 LE ‖ u64 LE ‖ u64 LE), independent of pkg/scale.
func c22Payload(stage byte, v Vote, round, setID uint64) []byte {
	b := make([]byte, 0, 53)
	b = append(b, stage)
	b = append(b, v.Hash[:]...)
	b = binary.LittleEndian.AppendUint32(b, v.Number)
	b = binary.LittleEndian.AppendUint64(b, round)
	b = binary.LittleEndian.AppendUint64(b, setID)
	return b
}

// ---------------------------------------------------------------------------------------------
// recorded history

type c22Event struct {
	Seq   int    `json:"seq"`
	Node  int    `json:"node"`
	Block int    `json:"block"` // tree index, -1 = not a block of the tree
	Hash  string `json:"hash,omitempty"`
	Round uint64 `json:"round"`
	SetID uint64 `json:"set_id"`
	Err   string `json:"err,omitempty"`
}

// c22VoteRec is one signed vote that exists in the execution.
type c22VoteRec struct {
	Auth   int    `json:"auth"` // authority index (-1: not an authority)
	Stage  byte   `json:"stage"`
	Round  uint64 `json:"round"`
	SetID  uint64 `json:"set_id"`
	Block  int    `json:"block"` // tree index or -1
	Vote   Vote   `json:"-"`
	Sig    [64]byte
	Origin string `json:"origin"` // "honest" | "byz"
}

type c22Delivery struct {
	To, From int
	Tag      string
}

// ---------------------------------------------------------------------------------------------
// simulation

type c22Sim struct {
	c      *vcommon.Case
	p      *c22Params
	tree   *verifTree
	keys   []*ed25519.Keypair
	outs   []*ed25519.Keypair // non-authorities
	nodes  map[int]*verifNode
	hon    []int
	adv    *c22Adv
	start  time.Time
	closed atomic.Bool

	gate sync.RWMutex // read-held by every scheduled action while it runs; write-locked to close

	mu         sync.Mutex
	events     []c22Event
	votes      []c22VoteRec
	voteSeen   map[string]bool
	deliv      map[int][]string // per recipient: delivery sequence
	headOf     map[int]int      // per honest node: tree index of the last successfully finalised block
	roundOf    map[int]uint64
	svcErr     map[int]string
	svcDump    map[int]string
	counters   map[string]int
	byzDeliv   int
	byzAccept  int
	honDeliv   int
	imported   int
	importFail int
	hand       *c22HandState // nil without a hand-off
	// crashed: honest nodes whose process would have died: a call of the harness into the real Service panicked
	// (node -> panic text). Such a node is dead from that moment on: nothing is delivered to it, nothing it signs,
	// sends or finalises afterwards exists (see nodePanicked). What it finalised before stays in the history.
	crashed map[int]string
	panics  []map[string]any // panics that are NOT the deliberate upstream one: reported as violations
}

// c22Issue3066 is the marker of the deliberate panic of BlockState.GetRuntime for a block that is not in the block tree.
const c22Issue3066 = "github.com/ChainSafe/gossamer/issues/3066"

// nodePanicked records that a call into the real Service of honest node i panicked on a goroutine the harness owns
// (in production: the network's handler goroutine / the goroutines of Service.Start, nobody recovers, the process
// dies). The node is treated as a crashed voter (liveness is not judged); the execution continues with the others
// and safety is judged over everything that was finalised, including by this node before it died. Only the
// deliberate upstream panic (issue 3066: robustness, not safety) is a counter; any other panic is a violation.
func (s *c22Sim) nodePanicked(i int, where string, r any, stack []byte) {
	msg := fmt.Sprint(r)
	s.mu.Lock()
	defer s.mu.Unlock()
	if _, dead := s.crashed[i]; !dead {
		s.crashed[i] = msg
		s.counters["nodes_crashed_by_a_panic"]++
	}
	if strings.Contains(msg, c22Issue3066) {
		s.counters["node_panicked_issue_3066"]++
		return
	}
	s.counters["node_panicked_other"]++
	s.panics = append(s.panics, map[string]any{"node": i, "in": where, "panic": msg, "stack": string(stack),
		"at_ms": time.Since(s.start).Milliseconds()})
}

func (s *c22Sim) isCrashed(i int) bool {
	s.mu.Lock()
	defer s.mu.Unlock()
	_, dead := s.crashed[i]
	return dead
}

func (s *c22Sim) count(name string, n int) {
	s.mu.Lock()
	s.counters[name] += n
	s.mu.Unlock()
}

// after schedules fn (not run once the simulation is closed).
func (s *c22Sim) after(d time.Duration, fn func()) {
	if s.closed.Load() {
		return
	}
	time.AfterFunc(d, func() {
		s.gate.RLock()
		defer s.gate.RUnlock()
		if s.closed.Load() {
			return
		}
		fn()
	})
}

func (s *c22Sim) ms(n int) time.Duration { return time.Duration(n) * time.Millisecond }

// fate decides, from the message bytes alone (not from goroutine timing), what the network does with
// one copy of a message: the list of delays after which it is delivered (empty = lost).
func (s *c22Sim) fate(from, to int, data []byte) []int {
	h := fnv.New64a()
	var b [24]byte
	binary.LittleEndian.PutUint64(b[:8], s.p.NetSeed)
	binary.LittleEndian.PutUint64(b[8:16], uint64(from)) //nolint:gosec
	binary.LittleEndian.PutUint64(b[16:24], uint64(to))  //nolint:gosec
	_, _ = h.Write(b[:])
	_, _ = h.Write(data)
	r := vcommon.NewRand(h.Sum64())
	// slow links are a property of the (from,to) pair
	lh := fnv.New64a()
	_, _ = lh.Write(b[:])
	slow := int(lh.Sum64()%100) < s.p.SlowPct
	if r.Intn(100) < s.p.DropPct {
		return nil
	}
	max := s.p.MaxDelayMs
	if slow {
		max = max*4 + 3*s.p.IntervalMs
	}
	hold := 0
	if s.p.Hold != nil {
		hold = s.p.Hold[from][to]
	}
	out := []int{hold + r.Intn(max+1)}
	if r.Intn(100) < s.p.DupPct {
		out = append(out, hold+r.Intn(max+1)+r.Intn(2*s.p.IntervalMs+1))
	}
	return out
}

func c22Describe(t *verifTree, gm GrandpaMessage) string {
	switch m := gm.(type) {
	case *VoteMessage:
		return fmt.Sprintf("%s r%d b%d", m.Message.Stage, m.Round, t.Index(m.Message.BlockHash))
	case *CommitMessage:
		return fmt.Sprintf("commit r%d b%d x%d", m.Round, t.Index(m.Vote.Hash), len(m.Precommits))
	}
	return fmt.Sprintf("%T", gm)
}

// authIndex maps an authority id to its index (-1 = none of the authorities).
func (s *c22Sim) authIndex(id ed25519.PublicKeyBytes) int {
	for i, kp := range s.keys {
		if verifPub(kp) == id {
			return i
		}
	}
	return -1
}

// recordVote adds a signed vote to the set of votes that exist in the execution (deduplicated).
func (s *c22Sim) recordVote(origin string, id ed25519.PublicKeyBytes, stage Subround, v Vote, round, setID uint64,
	sig [64]byte) {
	key := fmt.Sprintf("%x|%d|%d|%d|%x|%d|%x", id[:4], stage, round, setID, v.Hash[:8], v.Number, sig[:8])
	s.mu.Lock()
	defer s.mu.Unlock()
	if s.voteSeen[key] {
		return
	}
	s.voteSeen[key] = true
	s.votes = append(s.votes, c22VoteRec{Auth: s.authIndex(id), Stage: byte(stage), Round: round, SetID: setID,
		Block: s.tree.Index(v.Hash), Vote: v, Sig: sig, Origin: origin})
}

// honestGossip is the OnGossip hook of honest node `from`.
func (s *c22Sim) honestGossip(from int, gm GrandpaMessage) {
	if s.isCrashed(from) {
		return // the process of this node died: what its left-over goroutines sign does not exist
	}
	// every vote an honest service signs is part of the history, also while the execution is being stopped
	// (finalisations are recorded until the services have stopped)
	if m, ok := gm.(*VoteMessage); ok {
		s.recordVote("honest", m.Message.AuthorityID, m.Message.Stage,
			Vote{Hash: m.Message.BlockHash, Number: m.Message.Number}, m.Round, m.SetID, m.Message.Signature)
	}
	if s.closed.Load() {
		return
	}
	switch m := gm.(type) {
	case *VoteMessage:
		s.count("honest_"+m.Message.Stage.String()+"_sent", 1)
	case *CommitMessage:
		s.count("honest_commit_sent", 1)
	}
	cm, err := gm.ToConsensusMessage()
	if err != nil {
		return
	}
	desc := c22Describe(s.tree, gm)
	for _, to := range s.hon {
		if to == from {
			continue
		}
		delays := s.fate(from, to, cm.Data)
		if len(delays) == 0 {
			s.count("net_dropped", 1)
		}
		if len(delays) > 1 {
			s.count("net_duplicated", 1)
		}
		for _, d := range delays {
			to := to
			s.after(s.ms(d), func() { s.deliver(to, from, cm, desc, false) })
		}
	}
	s.adv.observe(from, gm)
}

// honestSend is the OnSend hook (a node answers a lagging peer with a commit message).
func (s *c22Sim) honestSend(from int, to peer.ID, gm GrandpaMessage) {
	if s.closed.Load() || s.isCrashed(from) {
		return
	}
	s.count("honest_direct_send", 1)
	ti := c22PeerIndex(to)
	if ti < 0 || s.p.isByz(ti) || ti >= s.p.N {
		s.adv.observe(from, gm)
		return
	}
	cm, err := gm.ToConsensusMessage()
	if err != nil {
		return
	}
	desc := c22Describe(s.tree, gm)
	for _, d := range s.fate(from, ti, cm.Data) {
		s.after(s.ms(d), func() { s.deliver(ti, from, cm, desc, false) })
	}
}

func c22ErrClass(err error) string {
	if err == nil {
		return "ok"
	}
	m := err.Error()
	for _, k := range []string{"equivocat", "invalid signature", "rounds mismatch", "round out of bounds",
		"vote is from self", "block does not exist", "voter is not in voter set", "set id mismatch", "setIDs",
		"minimum votes", "min votes", "does not match", "block hash", "vote block", "descendant", "not found",
		"start node", "end node", "precommit", "public key"} {
		if strings.Contains(strings.ToLower(m), k) {
			return strings.ReplaceAll(k, " ", "_")
		}
	}
	if len(m) > 40 {
		m = m[len(m)-40:]
	}
	return "other:" + m
}

// deliver hands one message to the real service of honest node `to` through handleNetworkMessage.
func (s *c22Sim) deliver(to, from int, cm *ConsensusMessage, desc string, byz bool) {
	node := s.nodes[to]
	if node == nil {
		return
	}
	s.mu.Lock()
	if _, dead := s.crashed[to]; dead {
		s.counters["deliveries_skipped_node_crashed"]++
		s.mu.Unlock()
		return
	}
	s.deliv[to] = append(s.deliv[to], fmt.Sprintf("%d:%s", from, desc))
	if byz {
		s.byzDeliv++
		if i := strings.Index(desc, "script-"); i >= 0 && s.p.Script != "" {
			tag := desc[:i] + strings.SplitN(desc[i:], " ", 2)[0]
			s.counters["delivered:"+tag]++
		}
	} else {
		s.honDeliv++
	}
	s.mu.Unlock()
	defer func() {
		if r := recover(); r != nil {
			s.nodePanicked(to, "handleNetworkMessage <- "+fmt.Sprintf("%d:%s", from, desc), r, debug.Stack())
		}
	}()
	_, err := node.Service.handleNetworkMessage(c22Peer(from), cm)
	kind := "vote"
	if strings.HasPrefix(desc, "commit") {
		kind = "commit"
	}
	who := "honest"
	if byz {
		who = "byz"
		if err == nil {
			s.mu.Lock()
			s.byzAccept++
			s.mu.Unlock()
		}
	}
	s.count("deliver_"+who+"_"+kind+"_"+c22ErrClass(err), 1)
}

// onFinalise is the hook behind every SetFinalisedHash call of honest node i.
func (s *c22Sim) onFinalise(i int, f verifFinalisation) {
	s.mu.Lock()
	if _, dead := s.crashed[i]; dead {
		s.counters["finalisations_ignored_node_crashed"]++
		s.mu.Unlock()
		return
	}
	ev := c22Event{Seq: len(s.events), Node: i, Block: s.tree.Index(f.Hash), Round: f.Round, SetID: f.SetID}
	if ev.Block < 0 {
		ev.Hash = f.Hash.String()
	}
	if f.Err != nil {
		ev.Err = f.Err.Error()
	} else {
		s.headOf[i] = ev.Block
		if f.Round > s.roundOf[i] {
			s.roundOf[i] = f.Round
		}
	}
	s.events = append(s.events, ev)
	s.mu.Unlock()
	if f.Err == nil {
		s.estimateScriptOnFinalise(i, f.Round)
		s.handoffOnFinalise(i, f)
	}
}

// lowestHead returns the honest finalised head with the lowest number (what every honest node still accepts
// votes above) and the highest one.
func (s *c22Sim) heads() (lowest, highest int) {
	s.mu.Lock()
	defer s.mu.Unlock()
	lowest, highest = -1, -1
	for _, i := range s.hon {
		h := s.headOf[i]
		if lowest < 0 || s.tree.Number[h] < s.tree.Number[lowest] {
			lowest = h
		}
		if highest < 0 || s.tree.Number[h] > s.tree.Number[highest] {
			highest = h
		}
	}
	return lowest, highest
}

func (s *c22Sim) minRound() uint64 {
	s.mu.Lock()
	defer s.mu.Unlock()
	first := true
	var m uint64
	for _, i := range s.hon {
		if _, dead := s.svcErr[i]; dead {
			continue
		}
		if _, dead := s.crashed[i]; dead {
			continue
		}
		if first || s.roundOf[i] < m {
			m = s.roundOf[i]
			first = false
		}
	}
	return m
}

// dumpNode describes the voting state of node i (diagnostics for a round loop that ended with an error).
func (s *c22Sim) dumpNode(i int) string {
	n := s.nodes[i]
	svc := n.Service
	var sb strings.Builder
	fmt.Fprintf(&sb, "t=%dms round=%d head=b%d", time.Since(s.start).Milliseconds(), svc.state.round, s.tree.Index(svc.head.Hash()))
	if h, err := n.Block.GetHighestFinalisedHeader(); err == nil {
		fmt.Fprintf(&sb, " highestFinalised=b%d", s.tree.Index(h.Hash()))
	}
	hr, hs, _ := n.Block.GetHighestRoundAndSetID()
	fmt.Fprintf(&sb, " highestRound=%d/%d best=b%d", hr, hs, s.tree.Index(n.Block.BestBlockHash()))
	for _, st := range []Subround{prevote, precommit} {
		fmt.Fprintf(&sb, " %ss={", st)
		m := svc.prevotes
		if st == precommit {
			m = svc.precommits
		}
		m.Range(func(k, v any) bool {
			sv := v.(*SignedVote)
			fmt.Fprintf(&sb, "a%d:b%d ", s.authIndex(sv.AuthorityID), s.tree.Index(sv.Vote.Hash))
			return true
		})
		sb.WriteString("}")
	}
	fmt.Fprintf(&sb, " pvEquiv=%d pcEquiv=%d", len(svc.pvEquivocations), len(svc.pcEquivocations))
	return sb.String()
}

// importBlock adds tree block b to node i (late arrival of a block).
func (s *c22Sim) importBlock(i, b int) {
	node := s.nodes[i]
	blk := &types.Block{Header: *s.tree.Headers[b], Body: types.Body{}}
	err := node.Block.AddBlock(blk)
	s.mu.Lock()
	if err != nil {
		s.importFail++
	} else {
		s.imported++
	}
	s.mu.Unlock()
}

// run executes the simulation and returns when every service has been stopped.
func (s *c22Sim) run() error {
	p := s.p
	for _, i := range s.hon {
		i := i
		rel := p.Release[i]
		node, err := verifNewNode(s.tree, s.keys[:p.N], verifNodeOpts{Self: i, SetID: p.SetID, Interval: s.ms(p.IntervalMs),
			SkipBlock: func(b int) bool { return rel[b] != 0 }})
		if err != nil {
			for _, n := range s.nodes {
				n.Close()
			}
			return err
		}
		s.nodes[i] = node
		node.Block.OnFinalise = func(f verifFinalisation) { s.onFinalise(i, f) }
		node.Net.OnGossip = func(gm GrandpaMessage) { s.honestGossip(i, gm) }
		node.Net.OnSend = func(to peer.ID, gm GrandpaMessage) { s.honestSend(i, to, gm) }
	}
	s.start = time.Now()
	done := make(chan int, len(s.hon))
	trackerDone := make(chan int, len(s.hon))
	for _, i := range s.hon {
		i := i
		svc := s.nodes[i].Service
		// Service.Start() without its panic-on-error wrapper: the error of the round loop is recorded,
		// and the two goroutines can be joined before the database is closed
		go func() { // = tracker.start()
			defer func() {
				if r := recover(); r != nil {
					s.nodePanicked(i, "tracker.handleBlocks", r, debug.Stack())
				}
				trackerDone <- i
			}()
			svc.tracker.handleBlocks()
		}()
		go func() {
			defer func() {
				if r := recover(); r != nil {
					s.nodePanicked(i, "initiate (round loop)", r, debug.Stack())
					s.mu.Lock()
					s.svcErr[i] = fmt.Sprintf("panic: %v", r)
					s.mu.Unlock()
				}
				done <- i
			}()
			if err := svc.initiate(); err != nil {
				dump := s.dumpNode(i)
				s.mu.Lock()
				s.svcErr[i] = err.Error()
				s.svcDump[i] = dump
				s.mu.Unlock()
			}
		}()
	}
	// block arrival
	for _, i := range s.hon {
		type arr struct{ b, ms int }
		var as []arr
		for b, ms := range p.Release[i] {
			if ms > 0 {
				as = append(as, arr{b, ms})
			}
		}
		sort.Slice(as, func(x, y int) bool {
			if as[x].ms != as[y].ms {
				return as[x].ms < as[y].ms
			}
			return as[x].b < as[y].b
		})
		// one chain of timers per node: blocks released at the same time are imported parent first
		i := i
		var next func(k int)
		next = func(k int) {
			for k < len(as) && time.Since(s.start) >= s.ms(as[k].ms) {
				s.importBlock(i, as[k].b)
				k++
			}
			if k < len(as) {
				s.after(s.ms(as[k].ms)-time.Since(s.start), func() { next(k) })
			}
		}
		next(0)
	}
	s.adv.begin()
	s.handoffBegin()

	// pacing only: wait until every live honest node finalised the target number of rounds (or the cap)
	capAt := s.start.Add(s.ms(p.CapMs))
	reached := func() bool {
		if p.Handoff != nil {
			return s.handoffTargetReached()
		}
		return s.minRound() >= uint64(p.Rounds) //nolint:gosec
	}
	for time.Now().Before(capAt) {
		if reached() {
			break
		}
		time.Sleep(5 * time.Millisecond)
	}
	if !reached() {
		s.count("stopped_at_wall_cap", 1)
	}

	// stop: no new actions, wait for running ones, stop services, wait for the round loops
	s.closed.Store(true)
	s.gate.Lock()
	s.gate.Unlock() //nolint:staticcheck
	for _, i := range s.hon {
		_ = s.nodes[i].Service.Stop()
	}
	// a round loop that does not come back from Stop (the engine blocked on its action channel while the
	// voting round handler has already left) is counted; its node's database is then left open
	loopDone, trDone := map[int]bool{}, map[int]bool{}
	timeout := time.After(1500 * time.Millisecond)
wait:
	for len(loopDone) < len(s.hon) || len(trDone) < len(s.hon) {
		select {
		case i := <-done:
			loopDone[i] = true
		case i := <-trackerDone:
			trDone[i] = true
		case <-timeout:
			break wait
		}
	}
	for _, i := range s.hon {
		if loopDone[i] && trDone[i] {
			_ = s.nodes[i].DB.Close()
		} else {
			s.count("service_stop_did_not_return", 1)
		}
	}
	return nil
}

// ---------------------------------------------------------------------------------------------
// the Byzantine voters

type c22Adv struct {
	s  *c22Sim
	mu sync.Mutex
	r  *vcommon.Rand
	// what the adversary has seen of the honest voters
	stageSeen map[string]bool
	votes     map[uint64]map[byte]map[int]*VoteMessage // round -> stage -> authority -> message
	commits   map[uint64]*CommitMessage
	forged    map[string]int
	sent      int
}

func (a *c22Adv) begin() {
	s := a.s
	if len(s.p.byzIDs()) == 0 {
		return
	}
	if s.p.Script != "" {
		a.runScript(s.p.Script)
	}
}

// sendVote signs (unless sig is given) and schedules a vote message of identity kp to honest node `to`.
func (a *c22Adv) sendVote(kp *ed25519.Keypair, as int, to int, stage Subround, v Vote, round, setID uint64, delayMs int,
	tag string, garbage bool) {
	s := a.s
	vm := verifVoteMessage(kp, stage, v, round, setID)
	if garbage {
		for i := range vm.Message.Signature {
			vm.Message.Signature[i] ^= byte(0x5a + i)
		}
	}
	if as >= 0 {
		vm.Message.AuthorityID = verifPub(s.keys[as])
	}
	if !garbage {
		// the signature is valid for the key that made it: this vote exists
		s.recordVote("byz", verifPub(kp), stage, v, round, setID, vm.Message.Signature)
	}
	cm, err := vm.ToConsensusMessage()
	if err != nil {
		return
	}
	from := s.authIndex(verifPub(kp))
	if from < 0 {
		from = s.p.N + 1
	}
	desc := tag + " " + c22Describe(s.tree, vm)
	s.count("byz_sent_"+tag, 1)
	s.after(s.ms(delayMs), func() { s.deliver(to, from, cm, desc, true) })
}

func (a *c22Adv) sendCommit(from, to int, cm *CommitMessage, delayMs int, tag string) {
	s := a.s
	msg, err := cm.ToConsensusMessage()
	if err != nil {
		return
	}
	desc := "commit " + tag + " " + c22Describe(s.tree, cm)
	s.count("byz_sent_commit_"+tag, 1)
	s.after(s.ms(delayMs), func() { s.deliver(to, from, msg, desc, true) })
}

// incompatiblePair returns two blocks of the subtree of base that lie on different forks (ok=false when the
// subtree is a chain).
func c22IncompatiblePair(t *verifTree, r *vcommon.Rand, base int) (x, y int, ok bool) {
	desc := t.Descendants(base)
	var pairs [][2]int
	for _, a := range desc {
		for _, b := range desc {
			if a < b && !t.IsAncestorOrEqual(a, b) && !t.IsAncestorOrEqual(b, a) {
				pairs = append(pairs, [2]int{a, b})
			}
		}
	}
	if len(pairs) == 0 {
		return 0, 0, false
	}
	pr := pairs[r.Intn(len(pairs))]
	if r.Bool() {
		return pr[1], pr[0], true
	}
	return pr[0], pr[1], true
}

// forkBlockAgainst returns a block of the subtree of base that is incompatible with block m (or -1).
func c22ForkBlockAgainst(t *verifTree, r *vcommon.Rand, base, m int) int {
	var cand []int
	for _, b := range t.Descendants(base) {
		if b != base && !t.IsAncestorOrEqual(b, m) && !t.IsAncestorOrEqual(m, b) {
			cand = append(cand, b)
		}
	}
	if len(cand) == 0 {
		return -1
	}
	return cand[r.Intn(len(cand))]
}

// observe is called (inline, from the sending service's goroutine) for every message an honest node emits:
// the adversary sees everything. It only records and schedules (the signing is done on other goroutines, on a
// snapshot, so that an honest service is never held up by the harness); it never calls into a service.
func (a *c22Adv) observe(from int, gm GrandpaMessage) {
	s := a.s
	if len(s.p.byzIDs()) == 0 {
		return
	}
	a.handoffObserve(from, gm)
	if s.p.Script != "" {
		a.observeScript(from, gm)
		return
	}
	a.mu.Lock()
	defer a.mu.Unlock()
	switch m := gm.(type) {
	case *VoteMessage:
		st := byte(m.Message.Stage)
		vk := c22RoundKey(m.Round, m.SetID)
		if a.votes[vk] == nil {
			a.votes[vk] = map[byte]map[int]*VoteMessage{}
		}
		if a.votes[vk][st] == nil {
			a.votes[vk][st] = map[int]*VoteMessage{}
		}
		a.votes[vk][st][from] = m
		stage := m.Message.Stage
		if stage == primaryProposal {
			stage = prevote
		}
		key := fmt.Sprintf("%d/%d/%d", m.SetID, m.Round, stage)
		if !a.stageSeen[key] {
			a.stageSeen[key] = true
			r, round, set := a.r.Fork(), m.Round, m.SetID
			s.after(0, func() { a.playStage(r, round, set, stage) })
		}
		if m.Message.Stage == precommit {
			k2 := fmt.Sprintf("forge/%d/%d", m.SetID, m.Round)
			n := len(a.votes[vk][byte(precommit)])
			// once when the first precommit shows up, once when about half of the honest have precommitted
			if (n == 1 || n == (len(s.hon)+1)/2) && a.forged[k2] < 2 {
				a.forged[k2]++
				snap := map[byte]map[int]*VoteMessage{}
				for st, vs := range a.votes[vk] {
					snap[st] = map[int]*VoteMessage{}
					for k, v := range vs {
						snap[st][k] = v
					}
				}
				r, round, set := a.r.Fork(), m.Round, m.SetID
				s.after(0, func() { a.forgeCommits(r, snap, round, set) })
			}
			k3 := fmt.Sprintf("prim/%d/%d", m.SetID, m.Round+1)
			if !a.stageSeen[k3] {
				a.stageSeen[k3] = true
				r, round, set := a.r.Fork(), m.Round+1, m.SetID
				s.after(0, func() { a.primarySplit(r, round, set) })
			}
		}
	case *CommitMessage:
		// (an honest commit message always carries set id 0: newCommitMessage leaves it unset)
		ck := c22RoundKey(m.Round, a.commitSet(from))
		if a.commits[ck] == nil {
			a.commits[ck] = m
			if a.r.Chance(1, 3) {
				// replay a genuine commit to everybody (legitimate, helps laggards) — possibly much later
				for _, to := range s.hon {
					a.sendCommit(s.p.byzIDs()[0], to, m, a.r.Intn(6*s.p.IntervalMs+1), "replay-genuine")
				}
			}
		}
	}
}

// playStage makes every Byzantine identity act in one stage of one round.
func (a *c22Adv) playStage(r *vcommon.Rand, round, setID uint64, stage Subround) {
	s, t := a.s, a.s.tree
	lowest, _ := s.heads()
	iv := s.p.IntervalMs
	for _, b := range s.p.byzIDs() {
		kp := s.keys[b]
		switch mode := r.Intn(10); {
		case mode < 1: // silent
			s.count("byz_mode_silent", 1)
		case mode < 3: // consistent single vote
			s.count("byz_mode_consistent", 1)
			d := t.Descendants(lowest)
			blk := d[r.Intn(len(d))]
			for _, to := range s.hon {
				a.sendVote(kp, -1, to, stage, t.Vote(blk), round, setID, r.Intn(3*iv+1), "consistent", false)
			}
		default: // equivocation, different votes to different nodes
			s.count("byz_mode_equivocate", 1)
			x, y, ok := c22IncompatiblePair(t, r, lowest)
			if !ok {
				d := t.Descendants(lowest)
				x, y = d[r.Intn(len(d))], d[r.Intn(len(d))]
			}
			for _, to := range s.hon {
				switch r.Intn(4) {
				case 0:
					a.sendVote(kp, -1, to, stage, t.Vote(x), round, setID, r.Intn(3*iv+1), "equiv", false)
				case 1:
					a.sendVote(kp, -1, to, stage, t.Vote(y), round, setID, r.Intn(3*iv+1), "equiv", false)
				default:
					a.sendVote(kp, -1, to, stage, t.Vote(x), round, setID, r.Intn(3*iv+1), "equiv", false)
					a.sendVote(kp, -1, to, stage, t.Vote(y), round, setID, r.Intn(3*iv+1), "equiv", false)
				}
			}
		}
		// forged / malformed votes
		if r.Chance(1, 2) {
			to := s.hon[r.Intn(len(s.hon))]
			victim := s.hon[r.Intn(len(s.hon))]
			d := t.Descendants(lowest)
			blk := d[r.Intn(len(d))]
			switch r.Intn(6) {
			case 0: // in the name of an honest authority, garbage signature
				for _, to := range s.hon {
					if to != victim {
						a.sendVote(s.keys[victim], -1, to, stage, t.Vote(blk), round, setID, r.Intn(2*iv+1), "garbage-sig", true)
					}
				}
			case 1: // in the name of an honest authority, signed with the Byzantine key
				for _, to := range s.hon {
					if to != victim {
						a.sendVote(kp, victim, to, stage, t.Vote(blk), round, setID, r.Intn(2*iv+1), "impersonate", false)
					}
				}
			case 2: // a key that is not an authority
				for _, o := range s.outs {
					for _, to := range s.hon {
						a.sendVote(o, -1, to, stage, t.Vote(blk), round, setID, r.Intn(2*iv+1), "non-authority", false)
					}
				}
			case 3: // a block that does not descend from the recipient's finalised head
				s.mu.Lock()
				head := s.headOf[to]
				s.mu.Unlock()
				var cand []int
				for i := 1; i < t.Len(); i++ {
					if !t.IsAncestorOrEqual(head, i) {
						cand = append(cand, i)
					}
				}
				if len(cand) > 0 {
					a.sendVote(kp, -1, to, stage, t.Vote(cand[r.Intn(len(cand))]), round, setID, r.Intn(2*iv+1), "not-descendant", false)
				}
			case 4: // wrong number for a real block
				v := t.Vote(blk)
				v.Number += uint32(1 + r.Intn(3)) //nolint:gosec
				a.sendVote(kp, -1, to, stage, v, round, setID, r.Intn(2*iv+1), "wrong-number", false)
			case 5: // votes of another round / set
				a.sendVote(kp, -1, to, stage, t.Vote(blk), round+uint64(r.Intn(3)), setID+uint64(r.Intn(2)), r.Intn(2*iv+1), "other-round-or-set", false) //nolint:gosec
				if round > 1 {
					a.sendVote(kp, -1, to, stage, t.Vote(blk), round-1, setID, r.Intn(2*iv+1), "previous-round", false)
				}
			}
		}
	}
}

// primarySplit: a Byzantine primary of `round` proposes different blocks to different honest nodes.
func (a *c22Adv) primarySplit(r *vcommon.Rand, round, setID uint64) {
	s, t := a.s, a.s.tree
	au := s.p.authOf(setID)
	prim := au[int(round%uint64(len(au)))] //nolint:gosec
	if !s.p.isByz(prim) {
		return
	}
	_, highest := s.heads()
	x, y, ok := c22IncompatiblePair(t, r, highest)
	if !ok {
		lowest, _ := s.heads()
		x, y, ok = c22IncompatiblePair(t, r, lowest)
		if !ok {
			return
		}
	}
	s.count("byz_primary_split", 1)
	iv := s.p.IntervalMs
	for _, to := range s.hon {
		blk := x
		if r.Bool() {
			blk = y
		}
		stage := primaryProposal
		if r.Bool() {
			stage = prevote
		}
		// repeated: a node that is still in the previous round only parks the message in its tracker
		for k := 1; k <= 4; k++ {
			a.sendVote(s.keys[prim], -1, to, stage, t.Vote(blk), round, setID, k*iv+r.Intn(iv+1), "primary-split", false)
		}
	}
}

func c22Garbage(r *vcommon.Rand) [64]byte {
	var sig [64]byte
	copy(sig[:], r.Bytes(64))
	return sig
}

// forgeCommits sends forged / short / adversarial commit messages for `round`.
func (a *c22Adv) forgeCommits(r *vcommon.Rand, snap map[byte]map[int]*VoteMessage, round, setID uint64) {
	s, t := a.s, a.s.tree
	au := s.p.authOf(setID) // the authorities of the set the commit is labelled with
	n := len(au)
	threshold := 2 * n / 3
	iv := s.p.IntervalMs
	// what the honest majority precommits in this round
	maj := -1
	cnt := map[int]int{}
	for _, vm := range snap[byte(precommit)] {
		b := t.Index(vm.Message.BlockHash)
		cnt[b]++
		if maj < 0 || cnt[b] > cnt[maj] {
			maj = b
		}
	}
	kinds := []string{"garbage-pairs", "dup-authority", "exact-two-thirds", "other-set", "non-authorities", "short",
		"wrong-stage", "mixed", "auth-len-mismatch", "exact-two-thirds-majority"}
	for k := 0; k < 1+r.Intn(3); k++ {
		kind := kinds[r.Intn(len(kinds))]
		victim := s.hon[r.Intn(len(s.hon))]
		s.mu.Lock()
		head := s.headOf[victim]
		s.mu.Unlock()
		x := -1
		if maj >= 0 {
			x = c22ForkBlockAgainst(t, r, head, maj)
		}
		if x < 0 {
			d := t.Descendants(head)
			x = d[r.Intn(len(d))]
		}
		target := t.Vote(x)
		var pcs []SignedVote
		cmRound, cmSet := round, setID
		if r.Chance(1, 5) {
			cmRound = round + uint64(1+r.Intn(3)) //nolint:gosec
		}
		byzVote := func(b int, blk int, rd, set uint64) SignedVote {
			sv := verifSignVote(s.keys[b], precommit, t.Vote(blk), rd, set)
			s.recordVote("byz", sv.AuthorityID, precommit, sv.Vote, rd, set, sv.Signature)
			return sv
		}
		honestFor := func(blk int) []SignedVote { // genuine honest precommits of this round for blk or a descendant
			var out []SignedVote
			if cmRound != round {
				return nil
			}
			for _, vm := range snap[byte(precommit)] {
				if b := t.Index(vm.Message.BlockHash); b >= 0 && t.IsAncestorOrEqual(blk, b) {
					out = append(out, SignedVote{Vote: Vote{Hash: vm.Message.BlockHash, Number: vm.Message.Number},
						Signature: vm.Message.Signature, AuthorityID: vm.Message.AuthorityID})
				}
			}
			return out
		}
		switch kind {
		case "garbage-pairs": // every authority twice with two different random signatures
			for _, i := range au {
				for j := 0; j < 2; j++ {
					pcs = append(pcs, SignedVote{Vote: target, Signature: c22Garbage(r), AuthorityID: verifPub(s.keys[i])})
				}
			}
		case "dup-authority": // the Byzantine precommits are valid but listed many times
			for j := 0; j <= threshold; j++ {
				for _, b := range s.p.byzIDs() {
					pcs = append(pcs, byzVote(b, x, cmRound, cmSet))
				}
			}
		case "exact-two-thirds", "exact-two-thirds-majority": // exactly floor(2n/3) distinct valid precommits
			if kind == "exact-two-thirds-majority" && maj >= 0 {
				x = maj
				target = t.Vote(x)
			}
			for _, b := range s.p.byzIDs() {
				pcs = append(pcs, byzVote(b, x, cmRound, cmSet))
			}
			for _, sv := range honestFor(x) {
				if len(pcs) < threshold {
					pcs = append(pcs, sv)
				}
			}
			for k := 0; len(pcs) < threshold+1+r.Intn(2) && k < n; k++ { // padding that must not count
				if i := au[k]; !s.p.isByz(i) {
					pcs = append(pcs, SignedVote{Vote: target, Signature: c22Garbage(r), AuthorityID: verifPub(s.keys[i])})
				}
			}
		case "other-set": // consistently signed for another set id
			for _, b := range s.p.byzIDs() {
				pcs = append(pcs, byzVote(b, x, cmRound, cmSet+1))
			}
			for _, i := range au {
				if !s.p.isByz(i) {
					pcs = append(pcs, SignedVote{Vote: target, Signature: c22Garbage(r), AuthorityID: verifPub(s.keys[i])})
				}
			}
			if r.Bool() {
				cmSet++
			}
		case "non-authorities": // valid signatures of keys outside the voter set
			for _, o := range s.outs {
				sv := verifSignVote(o, precommit, target, cmRound, cmSet)
				s.recordVote("byz", sv.AuthorityID, precommit, sv.Vote, cmRound, cmSet, sv.Signature)
				pcs = append(pcs, sv)
			}
			for _, b := range s.p.byzIDs() {
				pcs = append(pcs, byzVote(b, x, cmRound, cmSet))
			}
		case "short": // only the Byzantine precommits
			for _, b := range s.p.byzIDs() {
				pcs = append(pcs, byzVote(b, x, cmRound, cmSet))
			}
		case "wrong-stage": // genuine honest PREVOTES presented as precommits
			for _, vm := range snap[byte(prevote)] {
				pcs = append(pcs, SignedVote{Vote: Vote{Hash: vm.Message.BlockHash, Number: vm.Message.Number},
					Signature: vm.Message.Signature, AuthorityID: vm.Message.AuthorityID})
				if b := t.Index(vm.Message.BlockHash); b >= 0 && r.Bool() {
					x, target = b, t.Vote(b)
				}
			}
			for _, b := range s.p.byzIDs() {
				pcs = append(pcs, byzVote(b, x, cmRound, cmSet))
			}
		case "mixed": // Byzantine equivocation (counts once each) + genuine precommits for ANOTHER fork + garbage
			for _, b := range s.p.byzIDs() {
				pcs = append(pcs, byzVote(b, x, cmRound, cmSet))
				other := t.Descendants(head)
				pcs = append(pcs, byzVote(b, other[r.Intn(len(other))], cmRound, cmSet))
			}
			if maj >= 0 {
				pcs = append(pcs, honestFor(maj)...)
			}
		case "auth-len-mismatch":
			for _, b := range s.p.byzIDs() {
				pcs = append(pcs, byzVote(b, x, cmRound, cmSet))
			}
		}
		perm := r.Perm(len(pcs))
		sh := make([]SignedVote, len(pcs))
		for i, j := range perm {
			sh[i] = pcs[j]
		}
		cm := verifCommit(cmRound, cmSet, target, sh)
		if kind == "auth-len-mismatch" && len(cm.AuthData) > 0 {
			cm.AuthData = cm.AuthData[:len(cm.AuthData)-1]
		}
		a.sendCommit(s.p.byzIDs()[0], victim, cm, r.Intn(3*iv+1), kind)
		if r.Chance(1, 4) {
			for _, to := range s.hon {
				if to != victim {
					a.sendCommit(s.p.byzIDs()[0], to, cm, r.Intn(5*iv+1), kind)
				}
			}
		}
	}
}

// ---------------------------------------------------------------------------------------------
// fixed scenarios (regression corpus): the witnesses of the C18 defects (and of forged votes) embedded in a
// running network. n=4, authority 3 is Byzantine, tree 0-1-{2-3, 4-5}.

var c22ScriptNames = []string{"split-vote-n5", "estimate-not-carried-over", "fork-commit-exact-two-thirds", "fork-commit-dup-authority", "fork-commit-garbage-pairs",
	"fork-commit-non-authorities", "fork-votes-garbage-sig", "fork-votes-non-authorities"}

func (a *c22Adv) runScript(name string) {
	switch name {
	case "estimate-not-carried-over":
		c22EstimateNotCarried(a)
	case "fork-commit-exact-two-thirds":
		c22ForkCommitExact(a)
	case "fork-commit-dup-authority":
		c22ForkCommit(a, "dup")
	case "fork-commit-garbage-pairs":
		c22ForkCommit(a, "garbage")
	case "fork-commit-non-authorities":
		c22ForkCommit(a, "outsiders")
	case "fork-votes-garbage-sig":
		c22ForkVotes(a, "garbage")
	case "fork-votes-non-authorities":
		c22ForkVotes(a, "outsiders")
	case "split-vote":
		// reactive, see splitScriptOnVote
	}
}

// splitScriptOnVote (a.mu is held): the classic split-vote attack. When the first honest vote of a stage of a
// round shows up, every Byzantine voter sends every honest node TWO different votes of that stage: one for an
// anchor block that every recipient accepts (the fork point, or the recipient's finalised head) and one for the
// tip of the fork the recipient's half is voting for. Each honest node thus registers every Byzantine voter as an
// equivocator (an equivocator counts for every block) and sees, besides, only the votes of its own half: the
// other half's votes name blocks it does not know yet and / or travel over held links.
func (a *c22Adv) splitScriptOnVote(m *VoteMessage) {
	s := a.s
	stage := m.Message.Stage
	if stage == primaryProposal {
		stage = prevote
	}
	key := fmt.Sprintf("split/%d/%d/%d", m.SetID, m.Round, stage)
	if a.stageSeen[key] {
		return
	}
	a.stageSeen[key] = true
	round, set := m.Round, m.SetID
	s.after(0, func() { a.playSplit(round, set, stage) })
}

func (a *c22Adv) playSplit(round, setID uint64, stage Subround) {
	s, t, sp := a.s, a.s.tree, a.s.p.Split
	for _, b := range s.p.byzIDs() {
		for _, to := range s.hon {
			tip := sp.TipB
			if sp.inA(to) {
				tip = sp.TipA
			}
			s.mu.Lock()
			head := s.headOf[to]
			s.mu.Unlock()
			anchor := sp.Base
			if !t.IsAncestorOrEqual(head, anchor) {
				anchor = head
			}
			if !t.IsAncestorOrEqual(anchor, tip) {
				continue
			}
			a.sendVote(s.keys[b], -1, to, stage, t.Vote(anchor), round, setID, 0, "split-anchor", false)
			a.sendVote(s.keys[b], -1, to, stage, t.Vote(tip), round, setID, 1, "split-tip", false)
		}
	}
}

// c22EstimateNotCarried (witness of known finding C22-K1): tree 0-1-{2, 3-4}, authority 2 is Byzantine. At
// first only 0-1-2 is known: the three honest nodes prevote and precommit block 2 in round 1. Node 1's
// messages to nodes 0 and 3 are slow. The Byzantine voter precommits block 1 towards nodes 0 and 3: they see
// precommits {2, 2, 1}, finalise block 1 and leave round 1; node 1 sees {2, 2, 2} and finalises block 2. Then
// blocks 3-4 arrive, the best chain of nodes 0 and 3 is now 1-3-4, they and the Byzantine voter prevote and
// precommit block 4 in round 2 and finalise it.
func c22EstimateNotCarried(a *c22Adv) {
	// reactive (see estimateScriptOnVote / estimateScriptOnFinalise): nothing is sent before the honest nodes act
}

// estimateScriptOnVote is the Byzantine voter of the scenario: it answers what it sees (a.mu is held).
func (a *c22Adv) estimateScriptOnVote(from int, m *VoteMessage) {
	s, t := a.s, a.s.tree
	kp := s.keys[s.p.Byz[0]]
	blk := t.Index(m.Message.BlockHash)
	once := func(key string) bool {
		if a.stageSeen[key] {
			return false
		}
		a.stageSeen[key] = true
		return true
	}
	switch {
	case m.Round == 1 && m.Message.Stage != precommit && once("pv1"):
		for _, to := range s.hon {
			a.sendVote(kp, -1, to, prevote, t.Vote(2), 1, s.p.SetID, 0, "script-prevote", false)
		}
	case m.Round == 1 && m.Message.Stage == precommit && from != 1 && once("pc1"):
		for _, to := range s.hon {
			b := 1
			if to == 1 {
				b = 2
			}
			a.sendVote(kp, -1, to, precommit, t.Vote(b), 1, s.p.SetID, 0, "script-precommit", false)
		}
	case m.Round == 2 && m.Message.Stage != precommit && blk == 4 && once("pv2"):
		for _, to := range []int{0, 3} {
			a.sendVote(kp, -1, to, prevote, t.Vote(4), 2, s.p.SetID, 0, "script-prevote", false)
		}
	case m.Round == 2 && m.Message.Stage == precommit && blk == 4 && once("pc2"):
		for _, to := range []int{0, 3} {
			a.sendVote(kp, -1, to, precommit, t.Vote(4), 2, s.p.SetID, 0, "script-precommit", false)
		}
	}
}

// estimateScriptOnFinalise: blocks 3 and 4 reach nodes 0 and 3 right after they have left round 1.
func (s *c22Sim) estimateScriptOnFinalise(i int, round uint64) {
	if s.p.Script != "estimate-not-carried-over" || round != 1 || i == 1 {
		return
	}
	s.after(0, func() {
		s.importBlock(i, 3)
		s.importBlock(i, 4)
	})
}

// c22ForkCommit: every node knows the whole tree, the honest nodes vote for block 3 (best block) and the
// Byzantine voter supports them, so that nodes 1 and 2 finalise on the fork 2-3. Before round 1 can end, node 0
// is sent a commit message for block 4 on the other fork: the Byzantine precommit listed 3 times ("dup"),
// 4 x 2 random signatures ("garbage"), one Byzantine + 3 valid precommits of non-authorities ("outsiders").
func c22ForkCommit(a *c22Adv, kind string) {
	s, t := a.s, a.s.tree
	byz := s.p.Byz[0]
	iv := s.p.IntervalMs
	kp := s.keys[byz]
	const round = 1
	for _, to := range s.hon {
		a.sendVote(kp, -1, to, prevote, t.Vote(3), round, s.p.SetID, 2*iv, "script-prevote", false)
		a.sendVote(kp, -1, to, precommit, t.Vote(3), round, s.p.SetID, 4*iv, "script-precommit", false)
	}
	target := t.Vote(4)
	var pcs []SignedVote
	bv := verifSignVote(kp, precommit, t.Vote(5), round, s.p.SetID)
	s.recordVote("byz", bv.AuthorityID, precommit, bv.Vote, round, s.p.SetID, bv.Signature)
	switch kind {
	case "dup":
		pcs = []SignedVote{bv, bv, bv}
	case "garbage":
		for i := 0; i < s.p.N; i++ {
			for j := 0; j < 2; j++ {
				pcs = append(pcs, SignedVote{Vote: target, Signature: c22Garbage(a.r), AuthorityID: verifPub(s.keys[i])})
			}
		}
	case "outsiders":
		pcs = []SignedVote{bv}
		for _, o := range s.outs {
			sv := verifSignVote(o, precommit, target, round, s.p.SetID)
			s.recordVote("byz", sv.AuthorityID, precommit, sv.Vote, round, s.p.SetID, sv.Signature)
			pcs = append(pcs, sv)
		}
	}
	cm := verifCommit(round, s.p.SetID, target, pcs)
	for k := 1; k <= 3; k++ {
		a.sendCommit(byz, s.hon[0], cm, k*iv, "script-"+kind)
	}
}

// c22ForkCommitExact: nodes 0 and 1 know only the fork 4-5 at first, node 2 only the fork 2-3. The Byzantine
// voter prevotes block 5 towards node 0 only, so node 0 (prevotes 5,5,5) precommits block 5 while nodes 1 and
// 2 see no supermajority above block 1. The commit {Byzantine precommit 5, node 0 precommit 5} for block 4
// carries exactly 2 of 4 valid precommits and is sent to node 0.
func c22ForkCommitExact(a *c22Adv) {
	// reactive, see exactScriptOnVote
}

// exactScriptOnVote is the Byzantine voter of fork-commit-exact-two-thirds (a.mu is held).
func (a *c22Adv) exactScriptOnVote(from int, m *VoteMessage) {
	s, t := a.s, a.s.tree
	byz := s.p.Byz[0]
	kp := s.keys[byz]
	iv := s.p.IntervalMs
	const round = 1
	once := func(key string) bool {
		if a.stageSeen[key] {
			return false
		}
		a.stageSeen[key] = true
		return true
	}
	if m.Round != round {
		return
	}
	switch {
	case m.Message.Stage != precommit && once("pv"):
		for _, to := range s.hon {
			blk := 3
			if to == s.hon[0] {
				blk = 5
			}
			a.sendVote(kp, -1, to, prevote, t.Vote(blk), round, s.p.SetID, 0, "script-prevote", false)
		}
	case m.Message.Stage == precommit && from == s.hon[0] && once("pc"):
		b := t.Index(m.Message.BlockHash)
		if b < 0 || !t.IsAncestorOrEqual(4, b) {
			s.count("script_exact_node0_precommitted_elsewhere", 1)
			return
		}
		// node 0 also gets the Byzantine precommit for block 5 as a vote: its own tally of block 5 is exactly 2 of 4
		a.sendVote(kp, -1, s.hon[0], precommit, t.Vote(5), round, s.p.SetID, 0, "script-precommit", false)
		bv := verifSignVote(kp, precommit, t.Vote(5), round, s.p.SetID)
		pcs := []SignedVote{bv, {Vote: Vote{Hash: m.Message.BlockHash, Number: m.Message.Number},
			Signature: m.Message.Signature, AuthorityID: m.Message.AuthorityID}}
		cm := verifCommit(round, s.p.SetID, t.Vote(4), pcs)
		a.sendCommit(byz, s.hon[0], cm, 0, "script-exact")
		a.sendCommit(byz, s.hon[0], cm, iv, "script-exact")
		// afterwards the Byzantine voter helps the others onto the fork 2-3
		for _, to := range s.hon[1:] {
			a.sendVote(kp, -1, to, precommit, t.Vote(1), round, s.p.SetID, iv, "script-precommit", false)
			for k := 1; k <= 4; k++ {
				a.sendVote(kp, -1, to, prevote, t.Vote(3), round+1, s.p.SetID, (10+2*k)*iv, "script-prevote", false)
				a.sendVote(kp, -1, to, precommit, t.Vote(3), round+1, s.p.SetID, (14+2*k)*iv, "script-precommit", false)
			}
		}
	}
}

// c22ForkVotes: node 0 knows only the fork 4-5 at first, nodes 1 and 2 only the fork 2-3; the Byzantine voter
// votes with each side. The attack is on the vote path: node 0 is shown prevotes and precommits for block 5
// "of" nodes 1 and 2 with garbage signatures, or valid votes of 3 keys that are not authorities.
func c22ForkVotes(a *c22Adv, kind string) {
	s, t := a.s, a.s.tree
	byz := s.p.Byz[0]
	iv := s.p.IntervalMs
	kp := s.keys[byz]
	const round = 1
	for _, to := range s.hon {
		blk := 3
		if to == s.hon[0] {
			blk = 5
		}
		a.sendVote(kp, -1, to, prevote, t.Vote(blk), round, s.p.SetID, iv, "script-prevote", false)
		a.sendVote(kp, -1, to, precommit, t.Vote(blk), round, s.p.SetID, 3*iv, "script-precommit", false)
	}
	for rep := 0; rep < 3; rep++ {
		for _, stage := range []Subround{prevote, precommit} {
			d := iv + rep*iv/2
			if stage == precommit {
				d = 3*iv + rep*iv
			}
			switch kind {
			case "garbage":
				for _, h := range s.hon[1:] {
					a.sendVote(s.keys[h], -1, s.hon[0], stage, t.Vote(5), round, s.p.SetID, d, "script-garbage-sig", true)
				}
			case "outsiders":
				for _, o := range s.outs {
					a.sendVote(o, -1, s.hon[0], stage, t.Vote(5), round, s.p.SetID, d, "script-non-authority", false)
				}
			}
		}
	}
}

// observeScript records honest votes for the scripted scenarios (the randomised adversary is off).
func (a *c22Adv) observeScript(from int, gm GrandpaMessage) {
	m, ok := gm.(*VoteMessage)
	if !ok {
		return
	}
	a.mu.Lock()
	defer a.mu.Unlock()
	st := byte(m.Message.Stage)
	vk := c22RoundKey(m.Round, m.SetID)
	if a.votes[vk] == nil {
		a.votes[vk] = map[byte]map[int]*VoteMessage{}
	}
	if a.votes[vk][st] == nil {
		a.votes[vk][st] = map[int]*VoteMessage{}
	}
	a.votes[vk][st][from] = m
	switch a.s.p.Script {
	case "estimate-not-carried-over":
		a.estimateScriptOnVote(from, m)
	case "fork-commit-exact-two-thirds":
		a.exactScriptOnVote(from, m)
	case "split-vote":
		a.splitScriptOnVote(m)
	}
}

// ---------------------------------------------------------------------------------------------
// generation of an execution

func c22GenParams(c *vcommon.Case, thorough bool) *c22Params {
	r := c.R
	p := &c22Params{N: 4, Salt: r.Uint64(), NetSeed: r.Uint64(), AdvSeed: r.Uint64()}
	// voter counts of all three residue classes mod 3 (floor(2n/3) and 2*floor(n/3) differ for n = 5, 8)
	p.N = vcommon.Pick(r, []int{4, 4, 4, 4, 5, 5, 5, 5, 5, 6, 6, 6, 7, 7, 7, 8, 8, 8, 8, 8})
	f := (p.N - 1) / 3
	nb := f
	if r.Chance(1, 8) {
		nb = r.Intn(f + 1)
	}
	perm := r.Perm(p.N)
	p.Byz = append([]int{}, perm[:nb]...)
	sort.Ints(p.Byz)
	if r.Chance(1, 8) {
		p.SetID = 1
	}
	// tree with at least two leaves
	nBlocks := r.Range(8, 16)
	for {
		t := make([]int, nBlocks)
		t[0] = -1
		fork := r.Range(20, 45)
		for i := 1; i < nBlocks; i++ {
			if r.Intn(100) < fork && i > 1 {
				t[i] = r.Intn(i)
			} else {
				t[i] = i - 1
			}
		}
		child := make([]int, nBlocks)
		for i := 1; i < nBlocks; i++ {
			child[t[i]]++
		}
		leaves := 0
		for _, k := range child {
			if k == 0 {
				leaves++
			}
		}
		if leaves >= 2 {
			p.Parents = t
			break
		}
	}
	p.IntervalMs = r.Range(20, 40)
	if thorough && r.Chance(1, 3) {
		p.IntervalMs = r.Range(30, 50)
	}
	p.Rounds = r.Range(2, 4)
	p.DropPct = vcommon.Pick(r, []int{0, 0, 2, 5, 10})
	p.DupPct = vcommon.Pick(r, []int{0, 5, 15})
	p.MaxDelayMs = vcommon.Pick(r, []int{0, 3, p.IntervalMs / 2, p.IntervalMs, 2 * p.IntervalMs})
	p.SlowPct = vcommon.Pick(r, []int{0, 0, 15, 30})
	// block arrival: a common prefix is present at start, later blocks arrive over time, per node jitter
	core := r.Range(2, 5)
	gap := p.IntervalMs * r.Range(1, 4)
	p.Release = make([][]int, p.N)
	for i := 0; i < p.N; i++ {
		rel := make([]int, nBlocks)
		for b := 1; b < nBlocks; b++ {
			if b < core {
				continue
			}
			rel[b] = (b-core+1)*gap/2 + r.Intn(3*p.IntervalMs+1)
			if r.Chance(1, 25) {
				rel[b] = -1
			}
			if r.Chance(1, 6) {
				rel[b] = 0
			}
			par := p.Parents[b]
			if rel[par] < 0 {
				rel[b] = -1
			} else if rel[b] >= 0 && rel[b] < rel[par] {
				rel[b] = rel[par]
			}
			if rel[b] == 0 && rel[par] != 0 {
				rel[b] = rel[par]
			}
		}
		p.Release[i] = rel
	}
	p.CapMs = p.Rounds*12*p.IntervalMs + 1200
	return p
}

// c22SplitParams builds a split-vote execution: tree = chain 0..base, then two forks of equal length; the honest
// voters are divided as evenly as possible; each half has only its own fork at start, the other fork arrives late;
// optionally the links between the halves are held back as well.
func c22SplitParams(n int, byz []int, prefix, forkLen, intervalMs, lateIv int, hold bool, halfAFirst bool, seed uint64) *c22Params {
	p := &c22Params{N: n, Byz: byz, Salt: seed ^ 0x5b11, IntervalMs: intervalMs, Rounds: 2, NetSeed: seed + 1, AdvSeed: seed + 2,
		Script: "split-vote", MaxDelayMs: 2}
	parents := []int{-1}
	for i := 1; i <= prefix; i++ {
		parents = append(parents, i-1)
	}
	base := prefix
	sp := &c22Split{Base: base}
	var forkA, forkB []int
	last := base
	for i := 0; i < forkLen; i++ {
		parents = append(parents, last)
		last = len(parents) - 1
		forkA = append(forkA, last)
	}
	sp.TipA = last
	last = base
	for i := 0; i < forkLen; i++ {
		parents = append(parents, last)
		last = len(parents) - 1
		forkB = append(forkB, last)
	}
	sp.TipB = last
	p.Parents = parents
	hon := p.honest()
	half := len(hon) / 2
	if halfAFirst && len(hon)%2 == 1 {
		half++
	}
	sp.HalfA, sp.HalfB = append([]int{}, hon[:half]...), append([]int{}, hon[half:]...)
	p.Split = sp
	late := lateIv * intervalMs
	p.Release = make([][]int, n)
	p.Hold = make([][]int, n)
	for i := 0; i < n; i++ {
		p.Release[i] = make([]int, len(parents))
		p.Hold[i] = make([]int, n)
		other := forkA
		if sp.inA(i) {
			other = forkB
		}
		for _, b := range other {
			p.Release[i][b] = late
		}
		if hold {
			for j := 0; j < n; j++ {
				if !p.isByz(i) && !p.isByz(j) && sp.inA(i) != sp.inA(j) {
					p.Hold[i][j] = late
				}
			}
		}
	}
	p.CapMs = late + 45*intervalMs
	return p
}

// c22GenSplitParams: the seeded family of split-vote executions over voter counts of all residue classes.
func c22GenSplitParams(c *vcommon.Case) *c22Params {
	r := c.R
	n := vcommon.Pick(r, []int{5, 5, 5, 8, 8, 8, 6, 4, 7, 5, 8})
	f := (n - 1) / 3
	perm := r.Perm(n)
	byz := append([]int{}, perm[:f]...)
	sort.Ints(byz)
	p := c22SplitParams(n, byz, r.Range(1, 2), r.Range(1, 2), r.Range(20, 35), r.Range(14, 24), r.Bool(), r.Bool(), r.Uint64())
	p.DupPct = vcommon.Pick(r, []int{0, 0, 5})
	p.MaxDelayMs = vcommon.Pick(r, []int{0, 2, 5})
	return p
}

func c22ScriptParams(idx int) *c22Params {
	if c22ScriptNames[idx%len(c22ScriptNames)] == "split-vote-n5" {
		// n=5, authority 4 Byzantine, tree 0-1-{2,3}: nodes 0,1 know only block 2, nodes 2,3 only block 3
		return c22SplitParams(5, []int{4}, 1, 1, 25, 20, true, false, 55)
	}
	name := c22ScriptNames[idx%len(c22ScriptNames)]
	p := &c22Params{N: 4, Byz: []int{3}, Parents: []int{-1, 0, 1, 2, 1, 4}, Salt: 22, IntervalMs: 25, Rounds: 2,
		NetSeed: uint64(idx) + 1, AdvSeed: uint64(idx) + 7, Script: name, MaxDelayMs: 2} //nolint:gosec
	p.Release = make([][]int, 4)
	for i := range p.Release {
		p.Release[i] = make([]int, 6)
	}
	late := 12 * p.IntervalMs
	switch {
	case name == "estimate-not-carried-over":
		p.Byz = []int{2}
		p.Parents = []int{-1, 0, 1, 1, 3}
		// blocks 3 and 4 are given to nodes 0 and 3 by the script when they have finalised round 1
		p.Release = [][]int{{0, 0, 0, -1, -1}, {0, 0, 0, -1, -1}, {0, 0, 0, 0, 0}, {0, 0, 0, -1, -1}}
		p.Hold = [][]int{{0, 0, 0, 0}, {60 * p.IntervalMs, 0, 0, 60 * p.IntervalMs}, {0, 0, 0, 0}, {0, 0, 0, 0}}
		p.Rounds = 2
	case name == "fork-commit-exact-two-thirds":
		// nodes 0 and 1 receive the fork 2-3 only late, node 2 receives the fork 4-5 only late
		for _, i := range []int{0, 1} {
			p.Release[i][2], p.Release[i][3] = late, late
		}
		p.Release[2][4], p.Release[2][5] = late, late
		p.Rounds = 3
	case strings.HasPrefix(name, "fork-votes"):
		// node 0 receives the fork 2-3 only late, nodes 1 and 2 receive the fork 4-5 only late
		p.Release[0][2], p.Release[0][3] = late, late
		for _, i := range []int{1, 2} {
			p.Release[i][4], p.Release[i][5] = late, late
		}
	}
	p.CapMs = 100 * p.IntervalMs
	return p
}

// ---------------------------------------------------------------------------------------------
// offline checker

type c22Verdict struct {
	Conflicts   []map[string]any
	KnownK1     []map[string]any // conflicts that the predicate attributes to known finding C22-K1
	Regress     []map[string]any
	Unjustified []map[string]any
	HonestEquiv []map[string]any
	Finalised   map[int][]int // per node: blocks in order
	NodesFinal  int
	Pairs       int
	// hand-off executions: finalisations under the new set id per node; finalisations of a node whose own key is
	// not in the set it finalised under and that lack a supermajority of that set (counted, see NOTES.md)
	NewSetFinal         map[int]int
	OutsiderUnjustified []map[string]any
}

// c22Check decides from the recorded history alone.
func c22Check(p *c22Params, t *verifTree, keys []*ed25519.Keypair, events []c22Event, votes []c22VoteRec) *c22Verdict {
	v := &c22Verdict{Finalised: map[int][]int{}, NewSetFinal: map[int]int{}}
	// the authority set (key indexes) and its size are those of the set id the node finalised under: the harness'
	// own record of which keys form which set (p.authOf), not the service's voter list
	member := func(set uint64, a int) bool {
		for _, x := range p.authOf(set) {
			if x == a {
				return true
			}
		}
		return false
	}
	// --- valid precommits that exist, per (round, set): authority -> set of distinct votes
	type rs struct{ r, s uint64 }
	pcs := map[rs]map[int]map[Vote]bool{}
	stageVotes := map[string]map[Vote]bool{} // honest equivocation: (auth, round, set, stage) -> votes
	var honestVotes []c22VoteRec             // correctly signed votes of honest services
	for _, vr := range votes {
		if vr.Auth < 0 {
			continue
		}
		pub := keys[vr.Auth].Public().Encode()
		if !stded.Verify(stded.PublicKey(pub), c22Payload(vr.Stage, vr.Vote, vr.Round, vr.SetID), vr.Sig[:]) {
			continue
		}
		if vr.Origin == "honest" {
			honestVotes = append(honestVotes, vr)
			k := fmt.Sprintf("%d/%d/%d/%d", vr.Auth, vr.Round, vr.SetID, vr.Stage)
			if stageVotes[k] == nil {
				stageVotes[k] = map[Vote]bool{}
			}
			stageVotes[k][vr.Vote] = true
		}
		if vr.Stage != byte(precommit) {
			continue
		}
		k := rs{vr.Round, vr.SetID}
		if pcs[k] == nil {
			pcs[k] = map[int]map[Vote]bool{}
		}
		if pcs[k][vr.Auth] == nil {
			pcs[k][vr.Auth] = map[Vote]bool{}
		}
		pcs[k][vr.Auth][vr.Vote] = true
	}
	for k, vs := range stageVotes {
		if len(vs) > 1 {
			var bl []int
			for x := range vs {
				bl = append(bl, t.Index(x.Hash))
			}
			sort.Ints(bl)
			v.HonestEquiv = append(v.HonestEquiv, map[string]any{"auth/round/set/stage": k, "blocks": bl})
		}
	}
	support := func(block int, round, set uint64) (int, []int) {
		var who []int
		for a, vs := range pcs[rs{round, set}] {
			if !member(set, a) {
				continue // a correctly signed precommit of a key that is not an authority of that set
			}
			ok := len(vs) > 1 // equivocator: counts for every block
			if !ok {
				for x := range vs {
					b := t.Index(x.Hash)
					if b >= 0 && uint(x.Number) == t.Number[b] && t.IsAncestorOrEqual(block, b) {
						ok = true
					}
				}
			}
			if ok {
				who = append(who, a)
			}
		}
		sort.Ints(who)
		return len(who), who
	}
	// --- events
	last := map[int]int{}
	type fin struct {
		ev c22Event
	}
	var fins []fin
	for _, e := range events {
		if e.Err != "" {
			continue
		}
		if e.Block < 0 {
			v.Conflicts = append(v.Conflicts, map[string]any{"kind": "finalised a block that is not in the tree", "event": e})
			continue
		}
		fins = append(fins, fin{e})
		if prev, ok := last[e.Node]; ok && prev != e.Block {
			if !t.IsAncestorOrEqual(prev, e.Block) && t.IsAncestorOrEqual(e.Block, prev) {
				v.Regress = append(v.Regress, map[string]any{"node": e.Node, "from_block": prev, "to_block": e.Block, "event": e})
			}
		}
		last[e.Node] = e.Block
		v.Finalised[e.Node] = append(v.Finalised[e.Node], e.Block)
		if p.Handoff != nil && e.SetID == p.SetID+1 {
			v.NewSetFinal[e.Node]++
		}
		if cnt, who := support(e.Block, e.Round, e.SetID); cnt*3 <= 2*len(p.authOf(e.SetID)) {
			w := map[string]any{"event": e, "valid_precommit_authorities": who, "authorities_of_that_set": p.authOf(e.SetID),
				"needed_more_than": 2 * len(p.authOf(e.SetID)) / 3}
			if !member(e.SetID, e.Node) {
				v.OutsiderUnjustified = append(v.OutsiderUnjustified, w)
			} else {
				v.Unjustified = append(v.Unjustified, w)
			}
		}
	}
	v.NodesFinal = len(v.Finalised)
	// --- pairwise compatibility over every two finalisation events of all honest nodes and all times
	seen := map[[2]int]bool{}
	for i := 0; i < len(fins); i++ {
		for j := i + 1; j < len(fins); j++ {
			a, b := fins[i].ev, fins[j].ev
			v.Pairs++
			if a.Block == b.Block {
				continue
			}
			if t.IsAncestorOrEqual(a.Block, b.Block) || t.IsAncestorOrEqual(b.Block, a.Block) {
				continue
			}
			k := [2]int{a.Block, b.Block}
			if a.Block > b.Block {
				k = [2]int{b.Block, a.Block}
			}
			if seen[k] {
				continue
			}
			seen[k] = true
			ca, wa := support(a.Block, a.Round, a.SetID)
			cb, wb := support(b.Block, b.Round, b.SetID)
			na, nb := len(p.authOf(a.SetID)), len(p.authOf(b.SetID))
			w := map[string]any{"first": a, "second": b,
				"first_supermajority": ca*3 > 2*na, "first_precommit_authorities": wa,
				"second_supermajority": cb*3 > 2*nb, "second_precommit_authorities": wb}
			// Attribution to known finding C22-K1 (a voter does not carry the estimate of round r into the next
			// round). Rounds restart at 1 under every authority set, so "earlier / later round" is the
			// lexicographic order of (set id, round). Decided from the history alone: both finalisations are
			// backed by a genuine supermajority of correctly signed precommits of the members of the set the node
			// finalised under (same test as finalised-without-supermajority), no honest service equivocated, the
			// two (set, round) pairs differ, and an honest voter (member of the earlier set) that precommitted the
			// earlier block (or a descendant) in the earlier (set, round) voted (as a member of the set of that
			// vote), in a later (set, round) up to the one of the later finalisation, for a block on another
			// fork. Same (set, round), a side without supermajority, an honest equivocation, no such voter: VIOLATION.
			before := func(s1, r1, s2, r2 uint64) bool { return s1 < s2 || (s1 == s2 && r1 < r2) }
			lo, hi := a, b
			if before(hi.SetID, hi.Round, lo.SetID, lo.Round) {
				lo, hi = hi, lo
			}
			var switched []map[string]any
			if ca*3 > 2*na && cb*3 > 2*nb && len(v.HonestEquiv) == 0 && before(lo.SetID, lo.Round, hi.SetID, hi.Round) {
				for _, pc := range honestVotes {
					if pc.Stage != byte(precommit) || pc.Round != lo.Round || pc.SetID != lo.SetID || pc.Block < 0 ||
						!member(lo.SetID, pc.Auth) || !t.IsAncestorOrEqual(lo.Block, pc.Block) {
						continue
					}
					for _, lv := range honestVotes {
						if lv.Auth != pc.Auth || lv.Block < 0 || !member(lv.SetID, lv.Auth) ||
							!before(lo.SetID, lo.Round, lv.SetID, lv.Round) || before(hi.SetID, hi.Round, lv.SetID, lv.Round) {
							continue
						}
						if !t.IsAncestorOrEqual(lo.Block, lv.Block) && !t.IsAncestorOrEqual(lv.Block, lo.Block) {
							switched = append(switched, map[string]any{"authority": pc.Auth,
								"precommitted_block": pc.Block, "in_round": pc.Round, "in_set": pc.SetID,
								"later_voted_block": lv.Block, "later_round": lv.Round, "later_set": lv.SetID,
								"later_stage": lv.Stage})
						}
					}
				}
			}
			if len(switched) > 0 {
				if len(switched) > 6 {
					switched = switched[:6]
				}
				w["honest_voters_that_left_the_finalised_chain"] = switched
				v.KnownK1 = append(v.KnownK1, w)
			} else {
				v.Conflicts = append(v.Conflicts, w)
			}
		}
	}
	return v
}

// ---------------------------------------------------------------------------------------------
// one execution

var c22ReportMu sync.Mutex

var c22HexRe = regexp.MustCompile(`0x[0-9a-fA-F]+`)

func c22Execute(c *vcommon.Case, p *c22Params) (observed map[string]int) {
	defer func() {
		if r := recover(); r != nil {
			c22ReportMu.Lock()
			c.Violation("panic", fmt.Sprint(r), map[string]any{"params": p, "stack": string(debug.Stack())})
			c22ReportMu.Unlock()
		}
	}()
	tree := verifTreeFromParents(p.Parents, p.Salt)
	keys := verifKeypairs(p.Salt^0xc22, p.N+p.extraKeys()) // keys[:N] = the first set; further keys join at a hand-off
	s := &c22Sim{c: c, p: p, tree: tree, keys: keys, outs: verifKeypairs(p.Salt^0x0ddba11, 3),
		nodes: map[int]*verifNode{}, hon: p.honest(), voteSeen: map[string]bool{}, deliv: map[int][]string{},
		headOf: map[int]int{}, roundOf: map[int]uint64{}, svcErr: map[int]string{}, svcDump: map[int]string{}, counters: map[string]int{}, crashed: map[int]string{}}
	s.adv = &c22Adv{s: s, r: vcommon.NewRand(p.AdvSeed), stageSeen: map[string]bool{},
		votes: map[uint64]map[byte]map[int]*VoteMessage{}, commits: map[uint64]*CommitMessage{}, forged: map[string]int{}}
	if p.Handoff != nil {
		s.hand = newC22HandState()
	}
	if err := s.run(); err != nil {
		c.Inconclusive("set-up failed: " + err.Error())
		return nil
	}
	observed = s.counters
	s.mu.Lock()
	events := append([]c22Event{}, s.events...)
	votes := append([]c22VoteRec{}, s.votes...)
	crashed := map[int]string{}
	for i, m := range s.crashed {
		crashed[i] = m
	}
	otherPanics := append([]map[string]any{}, s.panics...)
	s.mu.Unlock()

	v := c22Check(p, tree, keys, events, votes)
	c.Eval(v.Pairs + len(events))
	for k, n := range s.counters {
		c.Count(k, n)
	}
	c.Count("executions", 1)
	c.Count(fmt.Sprintf("executions_n%d_byz%d", p.N, len(p.Byz)), 1)
	c.Count("finalisation_events", len(events))
	c.Count("blocks_imported_late", s.imported)
	c.Count("late_imports_refused", s.importFail)
	c.Count("deliveries_honest", s.honDeliv)
	// executions with a hand-off feed their own counters (own floors): the floors of the other groups stay what they were
	pfx := ""
	if p.Handoff != nil {
		pfx = "handoff_"
	}
	c.Count(pfx+"deliveries_byzantine", s.byzDeliv)
	c.Count("byzantine_messages_accepted_without_error", s.byzAccept)
	for i, e := range s.svcErr {
		c.Count("round_loop_ended_with_error", 1)
		_ = i
		cls := c22HexRe.ReplaceAllString(e, "0x..")
		if len(cls) > 70 {
			cls = cls[len(cls)-70:]
		}
		c.Count("round_loop_error:"+cls, 1)
	}
	failedEv := 0
	for _, e := range events {
		if e.Err != "" {
			failedEv++
		}
	}
	c.Count("set_finalised_hash_returned_error", failedEv)

	// fingerprint of the execution: what was delivered to whom in which order
	fp := fnv.New64a()
	for _, i := range s.hon {
		fmt.Fprintf(fp, "|%d:", i)
		for _, d := range s.deliv[i] {
			_, _ = fp.Write([]byte(d))
			_, _ = fp.Write([]byte{';'})
		}
	}
	summary := map[string]any{"params": p, "tree": tree.Shape(), "honest": s.hon}
	perNode := map[string]string{}
	distinctFinal := map[int]bool{}
	for _, i := range s.hon {
		var parts []string
		for _, e := range events {
			if e.Node == i && e.Err == "" {
				parts = append(parts, fmt.Sprintf("r%d:b%d", e.Round, e.Block))
				distinctFinal[e.Block] = true
			}
		}
		perNode[fmt.Sprintf("node%d", i)] = strings.Join(parts, " ")
	}
	summary["finalised"] = perNode
	summary["deliveries"] = map[string]int{"honest": s.honDeliv, "byzantine": s.byzDeliv, "byzantine_accepted": s.byzAccept}

	switch {
	case v.NodesFinal == 0:
		c.Count("executions_finalised_nothing(inconclusive)", 1)
	case v.NodesFinal == 1:
		c.Count("executions_finalised_on_one_node_only", 1)
	default:
		c.Count(pfx+"executions_finalised_on_2+_nodes", 1)
		c.Count(fmt.Sprintf(pfx+"executions_finalised_on_2+_nodes_n%d", p.N), 1)
		c.Distinct(fmt.Sprintf("%x", fp.Sum64()))
		if len(distinctFinal) > 1 {
			c.Count("executions_with_2+_different_finalised_blocks", 1)
		}
		if len(p.byzIDs()) > 0 && s.byzDeliv > 0 {
			c.Count(pfx+"executions_finalised_on_2+_nodes_with_byzantine_deliveries", 1)
		}
	}
	if s.byzDeliv > 0 {
		c.Count("executions_with_byzantine_deliveries", 1)
	}
	if sp := p.Split; sp != nil {
		// did the situation of the attack arise: in round 1 every half pre-voted on its own fork, and the
		// Byzantine equivocations were delivered
		okA, okB, bad := 0, 0, 0
		for _, vr := range votes {
			if vr.Origin != "honest" || vr.Round != 1 || vr.Stage == byte(precommit) || vr.Block < 0 {
				continue
			}
			onA := tree.IsAncestorOrEqual(vr.Block, sp.TipA) && !tree.IsAncestorOrEqual(vr.Block, sp.TipB)
			onB := tree.IsAncestorOrEqual(vr.Block, sp.TipB) && !tree.IsAncestorOrEqual(vr.Block, sp.TipA)
			switch {
			case sp.inA(vr.Auth) && onA:
				okA++
			case !sp.inA(vr.Auth) && onB:
				okB++
			default:
				bad++
			}
		}
		c.Count("split_executions", 1)
		if okA > 0 && okB > 0 && bad == 0 && s.byzDeliv > 0 {
			c.Count(pfx+"split_executions_with_honest_prevotes_split_over_both_forks", 1)
			c.Count(fmt.Sprintf(pfx+"split_executions_with_honest_prevotes_split_over_both_forks_n%d", p.N), 1)
			observed["split_situation"] = 1
		}
	}
	if p.Handoff != nil {
		s.handoffCounters(c, v, events, votes, observed)
		summary["handoff_applied_ms"] = s.hand.appliedMs
	} else if p.Script != "" && !(p.Script == "split-vote" && strings.HasPrefix(c.ID, "split/")) {
		name := p.Script
		if name == "split-vote" {
			name = "split-vote-n5"
		}
		c.Count("script:"+name, 1)
	}
	c.Sample(summary)

	witness := func(extra any) map[string]any {
		w := map[string]any{"params": p, "tree": tree.Shape(), "honest": s.hon, "events": events, "detail": extra,
			"finalised": perNode}
		dl := map[string][]string{}
		for _, i := range s.hon {
			d := s.deliv[i]
			if len(d) > 120 {
				d = d[:120]
			}
			dl[fmt.Sprintf("to_node%d", i)] = d
		}
		w["deliveries"] = dl
		if s.hand != nil {
			w["handoff_applied_ms"] = s.hand.appliedMs
		}
		if len(crashed) > 0 {
			w["nodes_crashed_by_a_panic"] = crashed
		}
		if len(s.svcErr) > 0 {
			w["round_loop_errors"] = s.svcErr
			w["round_loop_error_state"] = s.svcDump
		}
		return w
	}
	if os.Getenv("C22_DEBUG") != "" {
		b, _ := json.Marshal(witness(map[string]any{"known_k1": v.KnownK1, "conflicts": v.Conflicts}))
		fmt.Printf("C22_DEBUG %s\n", b)
	}
	c22ReportMu.Lock()
	defer c22ReportMu.Unlock()
	for _, x := range otherPanics {
		c.Violation("panic", "a call into the real Service of an honest node panicked (not the deliberate panic of issue 3066): "+
			fmt.Sprint(x["panic"]), witness(x))
	}
	c.Count("conflicts_attributed_to_C22-K1", len(v.KnownK1))
	observed["conflicts_attributed_to_C22-K1"] = len(v.KnownK1)
	for _, x := range v.KnownK1 {
		c.Known("C22-K1", "two blocks on different forks were finalised in different (set, round)s, each by a genuine "+
			"supermajority: honest voters precommitted the first block and voted for another fork in a later (set, round)",
			witness(x))
	}
	for _, x := range v.Unjustified {
		c.Violation("finalised-without-supermajority",
			"a block was finalised although no >2/3 set of authorities signed precommits for it in that round", witness(x))
	}
	for _, x := range v.HonestEquiv {
		c.Violation("honest-equivocation", "an honest service signed two different votes in one stage of one round", witness(x))
	}
	for _, x := range v.Regress {
		c.Violation("finalised-head-regress", "the finalised head of a node moved to a strict ancestor", witness(x))
	}
	for _, x := range v.Conflicts {
		c.Violation("conflicting-finalisation", "two blocks on different forks were finalised", witness(x))
	}
	return observed
}

const c22Batch = 3

// c22TallyRaceCase (regression corpus): while a Byzantine voter's second, different precommit is being registered
// as an equivocation, a concurrent reader of the tally (the finalisation engine polls attemptToFinalize every
// interval/2) must never see that voter twice (once as a direct vote and once as an equivocator). n=4, the
// node's own precommit + the Byzantine voter: the total for the block is 2 at every moment, never 3.
func c22TallyRaceCase(c *vcommon.Case) {
	tree := verifTreeFromParents([]int{-1, 0, 1, 2, 2}, 2223) // 0-1-2-{3,4}
	keys := verifKeypairs(0x7a11, 4)
	node, err := verifNewNode(tree, keys, verifNodeOpts{Self: 0})
	if err != nil {
		c.Inconclusive("set-up failed: " + err.Error())
		return
	}
	defer node.Close()
	svc := node.Service
	const iterations = 400
	maxSeen, reads := uint64(0), 0
	for it := 0; it < iterations; it++ {
		if err = svc.initiateRound(); err != nil {
			c.Inconclusive("initiateRound: " + err.Error())
			return
		}
		round := svc.state.round
		own, _, err := svc.createSignedVoteAndVoteMessage(&Vote{Hash: tree.Hashes[2], Number: 2}, precommit)
		if err != nil {
			c.Inconclusive("own precommit: " + err.Error())
			return
		}
		svc.precommits.Store(svc.publicKeyBytes(), own)
		stop := make(chan struct{})
		done := make(chan struct{})
		go func() { // the reader: what attemptToFinalize looks at
			defer close(done)
			for {
				select {
				case <-stop:
					return
				default:
				}
				total, err := svc.getTotalVotesForBlock(tree.Hashes[2], precommit)
				if err == nil {
					reads++
					if total > maxSeen {
						maxSeen = total
					}
				}
			}
		}()
		_, _ = svc.validateVoteMessage(c22Peer(3), verifVoteMessage(keys[3], precommit, tree.Vote(3), round, 0))
		_, _ = svc.validateVoteMessage(c22Peer(3), verifVoteMessage(keys[3], precommit, tree.Vote(4), round, 0))
		close(stop)
		<-done
		if maxSeen > 2 {
			break
		}
	}
	c.Eval(iterations)
	c.Count("tally_race_reads", reads)
	c.Count("script:tally-race", 1)
	if maxSeen > 2 {
		c.Violation("finalised-without-supermajority", "the precommit tally counted one equivocating voter twice: "+
			"own precommit + one Byzantine voter gave a total above 2 of 4 (an honest node finalises on it)",
			map[string]any{"tree": tree.Shape(), "n": 4, "total_seen": maxSeen,
				"steps": "own precommit block 2; Byzantine precommits block 3 then block 4 (validateVoteMessage) while " +
					"another goroutine reads getTotalVotesForBlock(block 2, precommit)"})
	}
}

// c22StopCase (regression corpus): what the voting round handler does when the finalisation engine has been
// stopped, ie. has closed the action channel, in a round in which the node has already pre-voted and its best
// block has changed since. An honest voter signs at most one pre-vote per round.
func c22StopCase(c *vcommon.Case) {
	tree := verifTreeFromParents([]int{-1, 0, 1, 1, 3}, 2222)
	keys := verifKeypairs(0x5709, 4)
	node, err := verifNewNode(tree, keys, verifNodeOpts{Self: 0, Interval: 20 * time.Millisecond,
		SkipBlock: func(b int) bool { return b >= 3 }})
	if err != nil {
		c.Inconclusive("set-up failed: " + err.Error())
		return
	}
	defer node.Close()
	svc := node.Service
	if err = svc.initiateRound(); err != nil {
		c.Inconclusive("initiateRound: " + err.Error())
		return
	}
	ch := make(chan engineAction)
	h := newvotingRoundHandler(svc, ch)
	runDone := make(chan error, 1)
	go func() { runDone <- h.Run() }()
	ch <- determinePrevote // the engine's pre-vote timer fired: the node pre-votes block 2
	for _, b := range []int{3, 4} {
		if err = node.Block.AddBlock(&types.Block{Header: *tree.Headers[b], Body: types.Body{}}); err != nil {
			c.Inconclusive("import: " + err.Error())
			return
		}
	}
	close(ch) // = finalisationEngine.Stop()
	time.Sleep(60 * time.Millisecond)
	_ = h.Stop()
	<-runDone
	node.Net.mu.Lock()
	gossiped := append([]GrandpaMessage{}, node.Net.Gossiped...)
	node.Net.mu.Unlock()
	blocks := map[int]int{}
	for _, gm := range gossiped {
		if vm, ok := gm.(*VoteMessage); ok && vm.Message.Stage == prevote && vm.Round == 1 {
			blocks[tree.Index(vm.Message.BlockHash)]++
		}
	}
	c.Eval(1)
	c.Count("stop_case_prevotes_signed", len(gossiped))
	c.Count("script:stop-closed-action-channel", 1)
	if len(blocks) > 1 {
		c.Violation("honest-equivocation", "the voting round handler signed a second, different pre-vote in the same "+
			"round after the finalisation engine had closed the action channel",
			map[string]any{"tree": tree.Shape(), "round": 1, "prevotes_signed_per_block": fmt.Sprint(blocks),
				"steps": "initiateRound; action determinePrevote (block 2); import blocks 3,4; close(action channel)"})
	}
}

// TestVerifC22 is the C22 check.
func TestVerifC22(t *testing.T) {
	r := vcommon.Start(t, "C22")
	defer r.Finish()
	r.Floor("executions_finalised_on_2+_nodes", 12)
	r.Floor("executions_finalised_on_2+_nodes_with_byzantine_deliveries", 8)
	r.Floor("deliveries_byzantine", 100)
	for _, n := range []int{4, 5, 6, 7, 8} { // every residue class of n mod 3
		r.Floor(fmt.Sprintf("executions_finalised_on_2+_nodes_n%d", n), 2)
	}
	r.Floor("split_executions_with_honest_prevotes_split_over_both_forks", 6)
	r.Floor("split_executions_with_honest_prevotes_split_over_both_forks_n5", 2)
	r.Floor("split_executions_with_honest_prevotes_split_over_both_forks_n8", 2)
	for _, name := range c22ScriptNames {
		r.Floor("script:"+name, 1)
	}
	r.Floor("script:stop-closed-action-channel", 1)
	r.Fixed("stop", 1, c22StopCase)
	r.Floor("script:tally-race", 1)
	r.Fixed("tally-race", 1, c22TallyRaceCase)
	// a scenario that did not reach its situation (forged message not placed, or for the C22-K1 witness no
	// conflict: a node was not where the script needs it, timing) is run again, at most 3 times; every attempt is
	// checked like any other execution
	needs := map[string]string{"split-vote": "split_situation", "estimate-not-carried-over": "conflicts_attributed_to_C22-K1",
		"fork-commit-exact-two-thirds": "delivered:commit script-exact",
		"fork-commit-dup-authority":    "delivered:commit script-dup", "fork-commit-garbage-pairs": "delivered:commit script-garbage",
		"fork-commit-non-authorities": "delivered:commit script-outsiders", "fork-votes-garbage-sig": "delivered:script-garbage-sig",
		"fork-votes-non-authorities": "delivered:script-non-authority"}
	r.Fixed("script", len(c22ScriptNames), func(c *vcommon.Case) {
		for attempt := 0; attempt < 3; attempt++ {
			p := c22ScriptParams(c.Idx)
			p.NetSeed += uint64(100 * attempt) //nolint:gosec
			obs := c22Execute(c, p)
			if need := needs[p.Script]; need == "" || obs[need] > 0 {
				break
			}
			c.Count("script_attempt_that_did_not_reach_its_situation", 1)
		}
	})
	// authority set hand-off during live rounds (zz_verif_c22_handoff_test.go)
	r.Floor("handoff_executions", 18)
	r.Floor("handoff_applied_on_nodes", 30)
	r.Floor("handoff_executions_with_nodes_switched_at_different_moments", 8)
	r.Floor("handoff_honest_votes_signed_under_new_set", 40)
	r.Floor("handoff_executions_finalised_under_new_set_on_2+_nodes", 2)
	r.Floor("handoff_deliveries_byzantine", 100)
	for _, v := range c22HandoffVariants {
		r.Floor("handoff_variant:"+v, 2)
	}
	for _, name := range c22HandoffScripts {
		r.Floor("script:"+name, 1)
	}
	r.Floor("handoff_split_executions_with_honest_prevotes_split_under_new_set", 1)
	hNeeds := map[string]string{c22HandoffScripts[0]: "handoff_split_situation", c22HandoffScripts[1]: "handoff_split_situation",
		c22HandoffScripts[2]: "handoff_new_set_2+"}
	r.Floor("script:handoff-commit-set-id-race", 1)
	r.Fixed("handoff-race", 1, c22CommitRaceCase)
	r.Fixed("handoff-keyset-race", 1, c22KeySetRaceCase)
	r.Fixed("handoff-corpus", len(c22HandoffScripts), func(c *vcommon.Case) {
		for attempt := 0; attempt < 4; attempt++ {
			p := c22HandoffScriptParams(c.Idx, attempt)
			obs := c22Execute(c, p)
			if obs[hNeeds[p.Handoff.Name]] > 0 {
				break
			}
			c.Count("handoff_script_attempt_that_did_not_reach_its_situation", 1)
		}
	})
	r.Cases("handoff", r.Scale(6), func(c *vcommon.Case) {
		var wg sync.WaitGroup
		for k := 0; k < c22Batch; k++ {
			p := c22GenHandoffParams(c, r.Thorough(), k)
			wg.Add(1)
			go func() {
				defer wg.Done()
				c22Execute(c, p)
			}()
		}
		wg.Wait()
	})
	// the seeded split-vote family (n = 5, 8 over-represented; also 4, 6, 7)
	r.Cases("split", r.Scale(8), func(c *vcommon.Case) {
		var wg sync.WaitGroup
		for k := 0; k < c22Batch; k++ {
			p := c22GenSplitParams(c)
			wg.Add(1)
			go func() {
				defer wg.Done()
				c22Execute(c, p)
			}()
		}
		wg.Wait()
	})
	// one case = a batch of executions that run side by side (an execution mostly waits for the services' timers)
	r.Cases("sim", r.Scale(15), func(c *vcommon.Case) {
		var wg sync.WaitGroup
		for k := 0; k < c22Batch; k++ {
			p := c22GenParams(c, r.Thorough())
			wg.Add(1)
			go func() {
				defer wg.Done()
				c22Execute(c, p)
			}()
		}
		wg.Wait()
	})
}
