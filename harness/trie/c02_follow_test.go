//go:build verif

package trie_test

import (
	"bytes"
	"math"

	"github.com/ChainSafe/gossamer/zz_verif/vcommon"
)

// C02, second part: what happens AFTER a limited prefix clear that stopped in
// the middle of a sub-trie. deleteNodesLimit defers the merge of a branch with
// its last child; a branch left un-merged answers every single call correctly
// and only breaks a later call on the same sub-trie (delete of the last key
// below it, then another limited clear: "got branch with all nil children").
// So the workload continues on the same sub-trie for several steps, and every
// step is followed by the full comparison of apply().

// ---------------------------------------------------------------------------
// coverage of what followed a partial limited clear (decides nothing)

type cutTrack struct {
	q        []byte   // prefix of the partial limited clear
	pn       []byte   // nibbles the code matches with (q without one trailing zero nibble)
	cut      []byte   // nibble prefix of the deepest sub-trie holding removed AND remaining keys
	removed  [][]byte // keys the clear removed
	ops      int      // mutating calls since
	cutDone  bool     // sub-trie below cut already seen emptied by a Delete
	qEmptied bool     // no key below pn is left and the last one went by a Delete
}

func cloneTracks(ts []*cutTrack) []*cutTrack {
	out := make([]*cutTrack, len(ts))
	for i, t := range ts {
		cp := *t
		out[i] = &cp
	}
	return out
}

func commonLen(a, b []byte) int {
	n := 0
	for n < len(a) && n < len(b) && a[n] == b[n] {
		n++
	}
	return n
}

// track counts, from the model before and after the step, the situations the
// property's sequences have to pass through.
func (e *env2) track(o op2, before *vcommon.OrdMap) {
	c := e.c
	switch o.kind {
	case "put", "del", "clear", "climit":
	default:
		return
	}
	for _, t := range e.trk {
		t.ops++
		if t.ops == 3 {
			c.Count("sequence_continued_3_ops_after_partial_limited_clear", 1)
		}
		hadQ := len(keysWithNibblePrefix(before, t.pn)) > 0
		hasQ := len(keysWithNibblePrefix(e.m, t.pn)) > 0
		hadCut := len(keysWithNibblePrefix(before, t.cut)) > 0
		hasCut := len(keysWithNibblePrefix(e.m, t.cut)) > 0
		switch o.kind {
		case "del":
			if hadCut && !hasCut && !t.cutDone {
				t.cutDone = true
				c.Count("delete_empties_subtrie_hit_by_limited_clear", 1)
			}
			if hadQ && !hasQ {
				t.qEmptied = true
				c.Count("delete_empties_prefix_hit_by_limited_clear", 1)
			}
		case "put":
			if bytes.HasPrefix(vcommon.KeyToNibbles(o.key), t.pn) {
				c.Count("put_into_subtrie_hit_by_limited_clear", 1)
			}
		case "clear":
			if bytes.HasPrefix(t.q, o.key) {
				c.Count("clear_prefix_same_or_parent_prefix_after_limited_clear", 1)
			}
		case "climit":
			if o.limit == 0 {
				break
			}
			switch {
			case bytes.Equal(o.key, t.q):
				c.Count("second_limited_clear_same_prefix", 1)
				if !hadQ {
					c.Count("second_limited_clear_same_prefix_nothing_left", 1)
					if t.qEmptied {
						c.Count("limited_clear_over_prefix_emptied_by_deletes_after_limited_clear", 1)
					}
				}
			case bytes.HasPrefix(t.q, o.key):
				c.Count("second_limited_clear_parent_prefix", 1)
				if !hadQ && t.qEmptied {
					c.Count("limited_clear_over_prefix_emptied_by_deletes_after_limited_clear", 1)
				}
			case bytes.HasPrefix(vcommon.KeyToNibbles(o.key), t.pn):
				c.Count("second_limited_clear_inside_the_prefix", 1)
			}
		}
		if hasQ {
			t.qEmptied = false
		}
	}
	if o.kind != "climit" || o.limit == 0 {
		return
	}
	pn := trimmedNibbles(o.key)
	var removed, remaining [][]byte
	for _, k := range keysWithNibblePrefix(before, pn) {
		if _, ok := e.m.Get(k); ok {
			remaining = append(remaining, k)
		} else {
			removed = append(removed, k)
		}
	}
	if len(removed) == 0 || len(remaining) == 0 {
		return
	}
	c.Count("limited_clear_partial", 1)
	t := &cutTrack{q: append([]byte{}, o.key...), pn: pn, removed: removed}
	depthOf := func(r []byte) (d int) { // deepest sub-trie r shares with a remaining key
		rn := vcommon.KeyToNibbles(r)
		for _, s := range remaining {
			if l := commonLen(rn, vcommon.KeyToNibbles(s)); l > d {
				d = l
			}
		}
		return d
	}
	d := -1
	for _, r := range removed {
		if l := depthOf(r); l > d {
			d = l
			t.cut = vcommon.KeyToNibbles(r)[:l]
		}
	}
	if d > len(pn) {
		// removed and remaining keys below the same child of the prefix node: the walk stopped inside a nested branch
		c.Count("limited_clear_stops_inside_nested_branch", 1)
		if d >= len(pn)+2 {
			c.Count("limited_clear_stops_two_or_more_levels_below_the_prefix", 1)
		}
		for _, r := range removed {
			if depthOf(r) < d { // a sibling sub-trie went completely before the walk stopped
				c.Count("limited_clear_stops_inside_nested_branch_after_whole_sibling_removed", 1)
				break
			}
		}
	}
	e.lastCut = t
	e.trk = append(e.trk, t)
	if len(e.trk) > 4 {
		e.trk = e.trk[len(e.trk)-4:]
	}
}

// ---------------------------------------------------------------------------
// follow-up sequences

type followCtx struct {
	q       []byte // prefix of the limited clear
	pn      []byte // its nibbles as the code matches them
	cut     []byte // nibble prefix of the sub-trie the clear stopped in
	dn      []byte // drain target (cut or pn)
	removed [][]byte
	left    int
	drain   bool // delete every key left in the sub-trie, then clear it again
	asc     bool
	stage   int
}

func (e *env2) newFollow(q []byte, t *cutTrack) *followCtx {
	r := e.r
	f := &followCtx{q: q, pn: trimmedNibbles(q)}
	f.cut = f.pn
	if t != nil {
		f.cut, f.removed = t.cut, t.removed
	}
	f.left = r.Range(2, 6)
	if r.Chance(2, 5) {
		f.drain, f.asc = true, r.Bool()
		f.dn = f.pn
		if r.Bool() {
			f.dn = f.cut
		}
		f.left = len(keysWithNibblePrefix(e.m, f.dn)) + r.Range(1, 3)
	}
	e.c.Count("follow_sequences", 1)
	return f
}

// prefixOfNibbles turns a nibble prefix into a byte prefix the code resolves
// to it: an odd number of nibbles is only addressable as "…x0" (the trailing
// zero nibble is dropped by the code, open finding C02-K1; the deviation
// oracle attributes what that changes).
func prefixOfNibbles(n []byte) []byte {
	if len(n)%2 == 1 {
		n = append(append([]byte{}, n...), 0)
	}
	k, _ := nibblesToKey(n)
	return k
}

func (e *env2) followPrefix(f *followCtx) []byte {
	r := e.r
	under := keysWithNibblePrefix(e.m, f.pn)
	switch x := r.Intn(100); {
	case x < 42:
		return f.q
	case x < 57:
		if len(f.q) > 0 {
			return f.q[:len(f.q)-1]
		}
		return f.q
	case x < 65:
		return []byte{}
	case x < 82:
		return prefixOfNibbles(f.cut)
	case x < 92 && len(under) > 0:
		k := vcommon.Pick(r, under)
		return append([]byte{}, k[:r.Range(0, len(k))]...)
	default:
		return append(append([]byte{}, f.q...), vcommon.Pick(r, e.keysOrZero())[:1]...)
	}
}

func (e *env2) keysOrZero() [][]byte {
	var out [][]byte
	for _, k := range e.keys {
		if len(k) > 0 {
			out = append(out, k)
		}
	}
	if len(out) == 0 {
		out = [][]byte{{0}}
	}
	return out
}

func (e *env2) followLimit(p []byte) uint32 {
	r := e.r
	n := len(e.m.KeysWithPrefix(p))
	if k := len(keysWithNibblePrefix(e.m, trimmedNibbles(p))); k > n {
		n = k
	}
	switch x := r.Intn(100); {
	case x < 30:
		return 1
	case x < 70:
		if n < 1 {
			n = 1
		}
		return uint32(r.Range(1, n))
	case x < 85:
		return uint32(n + 1)
	case x < 92:
		return 2
	case x < 96:
		return math.MaxUint32
	default:
		return 0
	}
}

// genFollow generates the next operation of a sequence that stays on the
// sub-trie a limited clear has just cut into.
func (e *env2) genFollow(f *followCtx) op2 {
	r := e.r
	f.left--
	if f.drain {
		if tgt := keysWithNibblePrefix(e.m, f.dn); len(tgt) > 0 {
			k := tgt[0]
			if !f.asc {
				k = vcommon.Pick(r, tgt)
			}
			return op2{kind: "del", key: k}
		}
		f.stage++
		switch f.stage {
		case 1: // the sub-trie is empty now: clear it again
			p := f.q
			if r.Chance(1, 3) {
				p = prefixOfNibbles(f.dn)
			}
			if r.Chance(1, 6) {
				return op2{kind: "clear", key: p}
			}
			return op2{kind: "climit", key: p, limit: e.followLimit(p)}
		case 2:
			p := f.q
			if len(p) > 0 && r.Chance(2, 3) {
				p = p[:len(p)-1]
			}
			return op2{kind: "climit", key: p, limit: e.followLimit(p)}
		}
	}
	under := keysWithNibblePrefix(e.m, f.pn)
	x := r.Intn(100)
	switch {
	case x < 38 && len(under) > 0:
		if ck := keysWithNibblePrefix(e.m, f.cut); len(ck) > 0 && r.Chance(2, 3) {
			return op2{kind: "del", key: vcommon.Pick(r, ck)}
		}
		return op2{kind: "del", key: vcommon.Pick(r, under)}
	case x < 50:
		if len(f.removed) > 0 && r.Chance(3, 4) {
			return op2{kind: "put", key: vcommon.Pick(r, f.removed), val: genValue(r, e.ver)}
		}
		if len(e.keys) > 0 {
			return op2{kind: "put", key: vcommon.Pick(r, e.keys), val: genValue(r, e.ver)}
		}
		fallthrough
	case x < 74:
		p := e.followPrefix(f)
		return op2{kind: "climit", key: p, limit: e.followLimit(p)}
	case x < 82:
		return op2{kind: "clear", key: e.followPrefix(f)}
	case x < 87:
		if len(f.removed) > 0 {
			return op2{kind: "del", key: vcommon.Pick(r, f.removed)} // absent unless put back
		}
		return op2{kind: "del", key: append(append([]byte{}, f.q...), 0x77)}
	case x < 92:
		return op2{kind: "reads"}
	case x < 95:
		return op2{kind: "hash"}
	case x < 98:
		return op2{kind: "flush"}
	default:
		return op2{kind: "snap"}
	}
}

// ---------------------------------------------------------------------------
// key families: nested branches three to four (and six) nibbles deep below a shared prefix

var famNibbleSets = [][]byte{{1, 2}, {1, 2, 3}, {1, 2, 3}, {1, 2, 3}, {0, 1, 2}, {1, 2, 0xf}, {0, 1}, {1, 2, 3, 4}}

// genFamily builds a universe like {0x12, 0x1211, 0x1221, 0x1222, 0x1223, 0x122211, 0x30}:
// a parent prefix P (0-2 bytes, itself a key or not), keys P+b that split at
// the first and at the second nibble below P, below some P+b (a key or not:
// inner branch with and without a value) a further level P+b+c, and a few
// keys outside P so that the family's top branch is not always the root.
func genFamily(r *vcommon.Rand) *universe {
	ns := vcommon.Pick(r, famNibbleSets)
	u := &universe{}
	for _, a := range ns {
		for _, b := range ns {
			u.abc = append(u.abc, a<<4|b)
		}
	}
	var P []byte
	switch x := r.Intn(10); {
	case x < 2:
	case x < 8:
		P = []byte{vcommon.Pick(r, u.abc)}
	default:
		P = []byte{vcommon.Pick(r, u.abc), vcommon.Pick(r, u.abc)}
	}
	cat := func(p []byte, x ...byte) []byte { return append(append([]byte{}, p...), x...) }
	seen := map[string]bool{}
	if r.Chance(1, 2) {
		addUniq(seen, &u.keys, P)
	}
	for i, n := 0, r.Range(2, 6); i < n; i++ {
		addUniq(seen, &u.keys, cat(P, vcommon.Pick(r, u.abc)))
	}
	var inner [][]byte
	for i, n := 0, r.Range(0, 2); i < n; i++ {
		b := vcommon.Pick(r, u.abc)
		inner = append(inner, cat(P, b))
		for j, m := 0, r.Range(2, 3); j < m; j++ {
			addUniq(seen, &u.keys, cat(P, b, vcommon.Pick(r, u.abc)))
		}
	}
	if len(P) > 0 {
		for i, n := 0, r.Range(0, 2); i < n; i++ {
			o := cat(P[:len(P)-1], P[len(P)-1]^byte(1+r.Intn(3))<<uint(4*r.Intn(2)))
			if r.Bool() {
				o = append(o, vcommon.Pick(r, u.abc))
			}
			if !bytes.HasPrefix(o, P) {
				addUniq(seen, &u.keys, o)
			}
		}
		if r.Chance(1, 4) {
			addUniq(seen, &u.keys, []byte{})
		}
	}
	// prefixes to cut at (most weight on the family's own prefix)
	u.cuts = [][]byte{P, P, P}
	if len(P) > 0 {
		u.cuts = append(u.cuts, P[:len(P)-1])
	}
	u.cuts = append(u.cuts, []byte{})
	u.cuts = append(u.cuts, inner...)
	u.inner = inner
	for _, a := range ns {
		u.cuts = append(u.cuts, cat(P, a<<4)) // addresses the branch one nibble below P (code drops the zero nibble)
	}
	// probes and listing prefixes
	ps, fs := map[string]bool{}, map[string]bool{}
	for _, k := range u.keys {
		addUniq(ps, &u.probes, k)
	}
	for i := 0; i <= len(P); i++ {
		addUniq(ps, &u.probes, P[:i])
		addUniq(fs, &u.prefixes, P[:i])
	}
	for _, a := range u.abc {
		if len(u.probes) < 40 {
			addUniq(ps, &u.probes, cat(P, a))
		}
		if len(u.prefixes) < 14 {
			addUniq(fs, &u.prefixes, cat(P, a))
		}
	}
	for _, in := range inner {
		addUniq(fs, &u.prefixes, in)
		for _, a := range u.abc {
			if len(u.probes) < 56 {
				addUniq(ps, &u.probes, cat(in, a))
			}
		}
	}
	for i := 0; i < 6; i++ {
		k := append([]byte{}, vcommon.Pick(r, u.keys)...)
		if len(k) > 0 && r.Bool() {
			k[len(k)-1] ^= byte(1 << r.Intn(8))
		} else {
			k = append(k, byte(r.Intn(256)))
		}
		addUniq(ps, &u.probes, k)
	}
	for _, q := range u.cuts {
		addUniq(fs, &u.prefixes, q)
	}
	for i := 0; i < 5; i++ {
		addUniq(fs, &u.prefixes, vcommon.Pick(r, u.keys))
	}
	addUniq(fs, &u.prefixes, []byte{0x77})
	return u
}

// runPostLimit is one case of group postlimit.
func runPostLimit(c *vcommon.Case) {
	r := c.R
	var u *universe
	if r.Chance(4, 5) {
		u = genFamily(r)
		c.Count("postlimit_family_universes", 1)
	} else {
		u = genUniverse(r)
		for i := 0; i < 6; i++ {
			k := vcommon.Pick(r, u.keys)
			u.cuts = append(u.cuts, append([]byte{}, k[:r.Range(0, len(k))]...))
		}
	}
	ver := r.Intn(2)
	e := newEnv2(c, ver, u.probes, u.prefixes)
	e.r, e.keys = r, u.keys
	for _, i := range r.Perm(len(u.keys)) {
		if r.Chance(1, 12) {
			continue // left out: a key the follow-ups can put for the first time
		}
		e.apply(op2{kind: "put", key: u.keys[i], val: genValue(r, ver)})
	}
	switch r.Intn(6) {
	case 0:
		e.apply(op2{kind: "hash"})
	case 1:
		e.apply(op2{kind: "flush"})
	case 2:
		e.apply(op2{kind: "snap"})
	}
	for _, in := range u.inner {
		if len(e.m.KeysWithPrefix(in)) < 2 {
			continue
		}
		if _, ok := e.m.Get(in); ok {
			c.Count("postlimit_inner_branch_with_value", 1)
		} else {
			c.Count("postlimit_inner_branch_without_value", 1)
		}
	}
	eff := func(q []byte) int { return len(keysWithNibblePrefix(e.m, trimmedNibbles(q))) }
	pickCut := func() ([]byte, bool) {
		for tries := 0; tries < 12; tries++ {
			if q := vcommon.Pick(r, u.cuts); eff(q) >= 2 {
				return q, true
			}
		}
		return nil, false
	}
	// every limit 1..matching-1 on copies of the same state, each continued by a follow-up sequence
	for i, n := 0, r.Range(1, 2); i < n && e.nviol == 0 && !e.dead; i++ {
		if q, ok := pickCut(); ok {
			e.apply(op2{kind: "sweepf", key: q})
		}
	}
	// and in place: cut, follow up, cut again
	for i, n := 0, r.Range(1, 3); i < n && e.nviol == 0 && !e.dead; i++ {
		q, ok := pickCut()
		if !ok {
			break
		}
		e.apply(op2{kind: "climit", key: q, limit: uint32(r.Range(1, eff(q)-1))})
		f := e.newFollow(q, e.lastCut)
		for f.left > 0 && e.nviol == 0 && !e.dead {
			e.apply(e.genFollow(f))
		}
	}
	c.Count("final_keys", e.m.Len())
	c.Sample(map[string]any{"version": ver, "keys": keysHex(u.keys), "cut_prefixes": keysHex(u.cuts), "ops": len(e.hist), "last_ops": lastN(e.hist, 14), "final": mapDump(e.m), "shape": e.lastSig})
}

func lastN(s []string, n int) []string {
	if len(s) > n {
		return s[len(s)-n:]
	}
	return s
}
