//go:build verif

package trie_test

import (
	"bytes"
	"errors"
	"fmt"
	"sort"
	"strings"

	"github.com/ChainSafe/gossamer/lib/common"
	gtrie "github.com/ChainSafe/gossamer/pkg/trie"
	"github.com/ChainSafe/gossamer/pkg/trie/inmemory"
	"github.com/ChainSafe/gossamer/zz_verif/vcommon"
)

// C03, child tries: a snapshot also carries the child tries of its origin
// (InMemoryTrie.childTries, a registry keyed by child root hash). Whatever is
// done to the child tries of one member of a fork tree (PutIntoChild,
// ClearFromChild, DeleteChild, SetChild) must not change what any OTHER member
// shows: its registry (GetChildTries), GetChild / the child root / GetFromChild
// for every child key and key of the alphabet, and its main trie.
//
// Monitor: every member carries one ordered map per child key (+ one for the
// main keys) and the complete observation made after its creation / its own
// last operation. After every operation the operated member is compared with
// its maps, every other live member is observed again (each read guarded: a
// panic is an observation) and must show exactly the recorded observation.
//
// Open finding C04-K1 / C08-K3 (two child tries of ONE trie with identical
// content share a registry entry) is avoided by construction: every value
// stored in a child trie starts with the child key, so two non-empty child
// tries of one member never have equal content, and SetChild is never given
// an empty trie. Equal content in DIFFERENT members is what is exercised.

var (
	childKeys  = [][]byte{[]byte("A"), []byte("B"), []byte("C")}
	childInner = [][]byte{{0x01}, {0x02}, {0x01, 0x02}, {0x31}}
	mainPoolCh = [][]byte{{0x00}, {0x05}, {0x05, 0x01}, {0x77}}
)

func childMainKey(ck []byte) []byte {
	return append(append([]byte{}, inmemory.ChildStorageKeyPrefix...), ck...)
}

type cop struct {
	kind string // cput cclear cdel cset put del flush setv1
	ck   []byte
	key  []byte
	val  []byte
	set  [][2][]byte // cset: content of the trie handed to SetChild
}

func (o cop) String() string {
	switch o.kind {
	case "cput":
		return fmt.Sprintf("PutIntoChild(%q, %s, %s)", o.ck, vcommon.Hex(o.key), shortHex(o.val))
	case "cclear":
		return fmt.Sprintf("ClearFromChild(%q, %s)", o.ck, vcommon.Hex(o.key))
	case "cdel":
		return fmt.Sprintf("DeleteChild(%q)", o.ck)
	case "cset":
		var kv []string
		for _, e := range o.set {
			kv = append(kv, vcommon.Hex(e[0])+"="+shortHex(e[1]))
		}
		return fmt.Sprintf("SetChild(%q, new trie{%s})", o.ck, strings.Join(kv, ","))
	case "put":
		return fmt.Sprintf("Put(%s, %s)", vcommon.Hex(o.key), shortHex(o.val))
	case "del":
		return "Delete(" + vcommon.Hex(o.key) + ")"
	}
	return o.kind
}

func shortHex(v []byte) string {
	if len(v) > 8 {
		return fmt.Sprintf("%s..(%dB)", vcommon.Hex(v[:4]), len(v))
	}
	return vcommon.Hex(v)
}

// cobs is one complete observation of a member: ordered labels and what was read.
type cobs struct {
	labels []string
	vals   map[string]string
}

func (o *cobs) set(l, v string) {
	if _, ok := o.vals[l]; !ok {
		o.labels = append(o.labels, l)
	}
	o.vals[l] = v
}

func obsDiff(was, now *cobs) []string {
	var d []string
	for _, l := range now.labels {
		if was.vals[l] != now.vals[l] {
			d = append(d, fmt.Sprintf("%s: was %s, now %s", l, firstStr(was.vals[l], 160), firstStr(now.vals[l], 160)))
		}
	}
	return d
}

func guard(f func() string) (s string) {
	defer func() {
		if p := recover(); p != nil {
			s = fmt.Sprintf("PANIC: %v", p)
		}
	}()
	return f()
}

func fullDump(e map[string][]byte) string {
	ks := make([]string, 0, len(e))
	for k := range e {
		ks = append(ks, k)
	}
	sort.Strings(ks)
	var sb strings.Builder
	for _, k := range ks {
		fmt.Fprintf(&sb, "%x=%x ", k, e[k])
	}
	return "{" + strings.TrimSpace(sb.String()) + "}"
}

func ordDump(m *vcommon.OrdMap) string {
	e := map[string][]byte{}
	ks, vs := m.Entries()
	for i := range ks {
		e[string(ks[i])] = vs[i]
	}
	return fullDump(e)
}

func childErr(err error) string {
	if errors.Is(err, gtrie.ErrChildTrieDoesNotExist) {
		return "no child trie"
	}
	return "error: " + err.Error()
}

// observeChildren reads everything a member shows. Only reads: Hash() fills Merkle-value caches, nothing else.
func observeChildren(t *inmemory.InMemoryTrie) *cobs {
	o := &cobs{vals: map[string]string{}}
	o.set("main.hash", guard(func() string {
		h, err := t.Hash()
		if err != nil {
			return "error: " + err.Error()
		}
		return vcommon.Hex(h[:])
	}))
	plain, ckeys := "", ""
	if p := guard(func() string {
		pl, ck := map[string][]byte{}, map[string][]byte{}
		for k, v := range t.Entries() {
			if bytes.HasPrefix([]byte(k), inmemory.ChildStorageKeyPrefix) {
				ck[k[len(inmemory.ChildStorageKeyPrefix):]] = v
			} else {
				pl[k] = v
			}
		}
		plain, ckeys = fullDump(pl), fullDump(ck)
		return ""
	}); p != "" {
		plain, ckeys = p, p
	}
	o.set("main.entries", plain)
	o.set("main.child-roots", ckeys)
	registry := map[common.Hash]bool{}
	regText := guard(func() string {
		reg := t.GetChildTries()
		hs := make([]string, 0, len(reg))
		for h, ct := range reg {
			registry[h] = true
			hs = append(hs, fmt.Sprintf("%x:%s", h[:], guard(func() string { return fullDump(ct.Entries()) })))
		}
		sort.Strings(hs)
		return fmt.Sprintf("%d child tries [%s]", len(hs), strings.Join(hs, " "))
	})
	for _, ck := range childKeys {
		pre := fmt.Sprintf("child[%s].", ck)
		root := t.Get(childMainKey(ck))
		rs := "-"
		if root != nil {
			rs = vcommon.Hex(root)
		}
		o.set(pre+"root", rs)
		var ct gtrie.Trie
		o.set(pre+"trie", guard(func() string {
			c, err := t.GetChild(ck)
			if err != nil {
				return childErr(err)
			}
			if c == nil {
				return "NIL (GetChild returned neither a trie nor an error)"
			}
			ct = c
			return fullDump(c.Entries())
		}))
		o.set(pre+"consistent", guard(func() string {
			if root == nil && ct == nil {
				return "ok"
			}
			if root == nil || ct == nil {
				return fmt.Sprintf("main trie holds root %s but GetChild gives %s", rs, o.vals[pre+"trie"])
			}
			h, err := ct.Hash()
			if err != nil {
				return "child Hash error: " + err.Error()
			}
			if !bytes.Equal(h[:], root) {
				return fmt.Sprintf("main trie holds root %s but the child trie hashes to %x", rs, h[:])
			}
			if !registry[h] {
				return fmt.Sprintf("child root %s is not listed by GetChildTries", rs)
			}
			return "ok"
		}))
		for _, k := range childInner {
			o.set(fmt.Sprintf("%sget[%x]", pre, k), guard(func() string {
				v, err := t.GetFromChild(ck, k)
				if err != nil {
					return childErr(err)
				}
				if v == nil {
					return "no value"
				}
				return vcommon.Hex(v)
			}))
		}
	}
	o.set("registry", regText) // GetChildTries: root hash -> content of every registered child trie
	return o
}

type cmember struct {
	id, parent, depth int
	t                 *inmemory.InMemoryTrie
	ver               int
	mixed             bool // the version was raised somewhere on the way: values > 32 bytes may be stored either way
	main              *vcommon.OrdMap
	kids              map[string]*vcommon.OrdMap // child key -> content; no entry = no child trie
	origin            map[string]int             // child key -> creation event of that child trie
	obs               *cobs
	bornChildless     bool // its origin's registry was empty when the snapshot was taken
	forked, alive     bool
	ops               int
}

type envC struct {
	c       *vcommon.Case
	ms      []*cmember
	log     []string
	nviol   int
	created int
}

func (e *envC) witness(extra map[string]any) map[string]any {
	w := map[string]any{"actions": append([]string{}, e.log...),
		"alphabet": map[string]any{"child_keys": []string{"A", "B", "C"}, "keys": keysHex(childInner)}}
	for k, v := range extra {
		w[k] = v
	}
	return w
}

func (e *envC) violation(class, msg string, w map[string]any) {
	e.nviol++
	e.c.Violation(class, msg, w)
}

func (e *envC) relation(a, b *cmember) string {
	anc := func(x, y *cmember) bool { // x ancestor of y
		for p := y.parent; p >= 0; p = e.ms[p].parent {
			if p == x.id {
				return true
			}
		}
		return false
	}
	switch {
	case b.parent == a.id:
		return "snapshot of the operated trie"
	case a.parent == b.id:
		return "the trie the operated snapshot was taken from"
	case a.parent == b.parent && a.parent >= 0:
		return "sibling snapshot"
	case anc(b, a):
		return "ancestor of the operated snapshot"
	case anc(a, b):
		return "descendant snapshot of the operated trie"
	}
	return "other branch of the fork tree"
}

// expected returns the labels the shadow maps of m predict (roots only where they can be computed).
func (e *envC) expected(m *cmember) map[string]string {
	x := map[string]string{"main.entries": ordDump(m.main)}
	full := m.main.Clone()
	rootsKnown := true
	for _, ck := range childKeys {
		pre := fmt.Sprintf("child[%s].", ck)
		kid := m.kids[string(ck)]
		x[pre+"consistent"] = "ok"
		if kid == nil {
			x[pre+"root"] = "-"
			x[pre+"trie"] = "no child trie"
			for _, k := range childInner {
				x[fmt.Sprintf("%sget[%x]", pre, k)] = "no child trie"
			}
			continue
		}
		x[pre+"trie"] = ordDump(kid)
		comparable := !m.mixed
		if !comparable {
			comparable = true
			_, vs := kid.Entries()
			for _, v := range vs {
				if len(v) > 32 {
					comparable = false
				}
			}
		}
		if comparable {
			r := vcommon.SpecRoot(kid, m.ver)
			x[pre+"root"] = vcommon.Hex(r[:])
			full.Put(childMainKey(ck), r[:])
			e.c.Count("child_root_compared_with_spec", 1)
		} else {
			rootsKnown = false
			e.c.Count("child_root_mixed_versions_not_compared", 1)
		}
		for _, k := range childInner {
			l := fmt.Sprintf("%sget[%x]", pre, k)
			if v, ok := kid.Get(k); ok {
				x[l] = vcommon.Hex(v)
			} else {
				x[l] = "no value"
			}
		}
	}
	if rootsKnown { // main values are at most 32 bytes: the main root does not depend on the version history
		r := vcommon.SpecRoot(full, m.ver)
		x["main.hash"] = vcommon.Hex(r[:])
	}
	return x
}

// observeOwn compares the operated member with its shadow maps and records what it shows now.
func (e *envC) observeOwn(m *cmember, what string) {
	now := observeChildren(m.t)
	want := e.expected(m)
	var d []string
	for _, l := range now.labels {
		if w, ok := want[l]; ok {
			e.c.Eval(1)
			if w != now.vals[l] {
				d = append(d, fmt.Sprintf("%s: shows %s, the ordered maps say %s", l, firstStr(now.vals[l], 160), firstStr(w, 160)))
			}
		}
	}
	if len(d) > 0 {
		e.violation("child-own-content", fmt.Sprintf("T%d after %s does not show what its own history gives: %s", m.id, what, strings.Join(firstN(d, 6), "; ")),
			e.witness(map[string]any{"member": m.id, "differences": d}))
	}
	m.obs = now
}

// checkOthers observes every other live member again: nothing may have moved.
func (e *envC) checkOthers(op *cmember, what string) {
	for _, m := range e.ms {
		if !m.alive || m == op {
			continue
		}
		e.c.Eval(1)
		e.c.Count("child_isolation_observations", 1)
		now := observeChildren(m.t)
		d := obsDiff(m.obs, now)
		if len(d) == 0 {
			continue
		}
		rel, opid := "none (final observation)", -1
		if op != nil {
			rel, opid = e.relation(op, m), op.id
		}
		class := "isolation-content"
		for _, x := range d {
			if strings.HasPrefix(x, "child[") || strings.HasPrefix(x, "registry") || strings.HasPrefix(x, "main.child-roots") {
				class = "child-isolation"
			}
		}
		e.violation(class, fmt.Sprintf("%s on T%d changed T%d (%s): %s", what, opid, m.id, rel, strings.Join(firstN(d, 6), "; ")),
			e.witness(map[string]any{"operated": opid, "changed": m.id, "relation": rel, "differences": d}))
		m.obs = now
	}
}

func (e *envC) fork(m *cmember, n int) {
	c := e.c
	for i := 0; i < n; i++ {
		childless := len(m.t.GetChildTries()) == 0
		ch := &cmember{id: len(e.ms), parent: m.id, depth: m.depth + 1, t: m.t.Snapshot(), ver: m.ver, mixed: m.mixed, main: m.main.Clone(),
			kids: map[string]*vcommon.OrdMap{}, origin: map[string]int{}, obs: m.obs, bornChildless: childless, alive: true}
		for k, v := range m.kids {
			ch.kids[k] = v.Clone()
			ch.origin[k] = m.origin[k]
		}
		e.ms = append(e.ms, ch)
		e.log = append(e.log, fmt.Sprintf("T%d = T%d.Snapshot()", ch.id, m.id))
		c.Count("child_snapshots", 1)
		if childless {
			c.Count("child_snapshots_of_origin_without_child_tries", 1)
		} else {
			c.Count("child_snapshots_of_origin_with_child_tries", 1)
		}
		if m.parent >= 0 {
			c.Count("child_snapshots_of_snapshots", 1)
		}
	}
	m.forked = true
}

func (e *envC) rootOf(m *cmember, ck []byte) string {
	return m.obs.vals[fmt.Sprintf("child[%s].root", ck)]
}

func (e *envC) mutate(m *cmember, o cop) {
	c := e.c
	what := o.String()
	e.log = append(e.log, fmt.Sprintf("T%d: %s", m.id, what))
	c.Count("op_"+o.kind, 1)
	m.ops++
	cks := string(o.ck)
	isChildOp := strings.HasPrefix(o.kind, "c")
	if isChildOp {
		if m.depth >= 2 {
			c.Count("child_ops_on_snapshot_of_snapshot", 1)
		}
		if m.bornChildless {
			c.Count("child_ops_on_snapshot_born_without_child_tries", 1)
		}
		if r := e.rootOf(m, o.ck); r != "-" && m.kids[cks] != nil { // a write to an existing child trie
			for _, x := range e.ms {
				if x == m || !x.alive || e.rootOf(x, o.ck) != r {
					continue
				}
				c.Count("child_write_while_other_member_holds_equal_child_root", 1)
				if x.origin[cks] != m.origin[cks] {
					c.Count("child_write_while_other_member_holds_equal_child_root_created_independently", 1)
					if x.parent == m.parent && m.parent >= 0 {
						c.Count("child_write_while_sibling_holds_equal_child_root_created_independently", 1)
					}
				}
			}
		}
	}
	var err error
	expectRefused := false
	switch o.kind {
	case "cput":
		err = m.t.PutIntoChild(o.ck, o.key, o.val)
		if m.kids[cks] == nil {
			m.kids[cks] = vcommon.NewOrdMap()
			e.created++
			m.origin[cks] = e.created
			c.Count("child_trie_created_by_put", 1)
		}
		m.kids[cks].Put(o.key, o.val)
	case "cclear":
		kid := m.kids[cks]
		if kid == nil {
			expectRefused = true
			c.Count("child_clear_on_absent_child_trie", 1)
		} else if kid.Delete(o.key) {
			if kid.Len() == 0 {
				delete(m.kids, cks)
				delete(m.origin, cks)
				c.Count("child_clear_empties_child_trie", 1)
			}
		} else {
			c.Count("child_clear_of_absent_key", 1)
		}
		err = m.t.ClearFromChild(o.ck, o.key)
	case "cdel":
		if m.kids[cks] != nil {
			c.Count("child_trie_deleted", 1)
		}
		delete(m.kids, cks)
		delete(m.origin, cks)
		err = m.t.DeleteChild(o.ck)
	case "cset":
		nt := newTrie(m.ver) // a fresh object every time: the harness never hands one trie to two members
		kid := vcommon.NewOrdMap()
		for _, kv := range o.set {
			if perr := nt.Put(kv[0], kv[1]); perr != nil {
				c.Inconclusive("building the trie for SetChild: " + perr.Error())
				return
			}
			kid.Put(kv[0], kv[1])
		}
		if m.kids[cks] != nil {
			c.Count("child_set_replaces_child_trie", 1)
		}
		err = m.t.SetChild(o.ck, nt)
		m.kids[cks] = kid
		e.created++
		m.origin[cks] = e.created
	case "put":
		err = m.t.Put(o.key, o.val)
		m.main.Put(o.key, o.val)
	case "del":
		err = m.t.Delete(o.key)
		m.main.Delete(o.key)
	case "flush":
		err = flushTrie(m.t)
	case "setv1":
		m.t.SetVersion(gtrie.V1)
		if m.ver == 0 {
			m.mixed = true
		}
		m.ver = 1
		c.Count("child_member_version_raised", 1)
	}
	if expectRefused {
		if err == nil || !errors.Is(err, gtrie.ErrChildTrieDoesNotExist) {
			c.Count("note_child_clear_on_absent_child_trie_not_refused", 1)
		}
	} else if err != nil {
		e.violation("error", fmt.Sprintf("T%d %s: %v", m.id, what, err), e.witness(nil))
		return
	}
	e.observeOwn(m, what)
	e.checkOthers(m, what)
}

func childValue(r *vcommon.Rand, ck []byte) []byte {
	switch x := r.Intn(10); {
	case x < 8:
		return append(append([]byte{}, ck...), byte(1+r.Intn(2)))
	default: // more than 32 bytes: stored by hash under V1
		return append(append([]byte{}, ck...), rep(0xb1, 33)...)
	}
}

// mirrorOp moves one child trie of m one step towards the same child trie of another member.
func (e *envC) mirrorOp(m *cmember, r *vcommon.Rand) (cop, bool) {
	var others []*cmember
	for _, x := range e.ms {
		if x.alive && x != m && len(x.kids) > 0 {
			others = append(others, x)
			if x.parent == m.parent {
				others = append(others, x, x) // siblings preferred
			}
		}
	}
	if len(others) == 0 {
		return cop{}, false
	}
	x := vcommon.Pick(r, others)
	var cks []string
	for k := range x.kids {
		cks = append(cks, k)
	}
	sort.Strings(cks)
	ck := vcommon.Pick(r, cks)
	theirs, mine := x.kids[ck], m.kids[ck]
	ks, vs := theirs.Entries()
	for _, i := range r.Perm(len(ks)) {
		var have []byte
		ok := false
		if mine != nil {
			have, ok = mine.Get(ks[i])
		}
		if !ok || !bytes.Equal(have, vs[i]) {
			return cop{kind: "cput", ck: []byte(ck), key: ks[i], val: append([]byte{}, vs[i]...)}, true
		}
	}
	if mine != nil {
		for _, k := range mine.Keys() {
			if _, ok := theirs.Get(k); !ok {
				return cop{kind: "cclear", ck: []byte(ck), key: k}, true
			}
		}
	}
	return cop{}, false // equal already: the next random write hits the interesting case
}

func (e *envC) genOp(m *cmember, r *vcommon.Rand) cop {
	x := r.Intn(100)
	ck := vcommon.Pick(r, childKeys)
	var present [][]byte
	for _, k := range childKeys {
		if m.kids[string(k)] != nil {
			present = append(present, k)
		}
	}
	switch {
	case x < 4 && m.ver == 0:
		return cop{kind: "setv1"}
	case x < 9:
		return cop{kind: "flush"}
	case x < 19:
		return cop{kind: "put", key: vcommon.Pick(r, mainPoolCh), val: r.Bytes(r.Range(1, 3))}
	case x < 25:
		return cop{kind: "del", key: vcommon.Pick(r, mainPoolCh)}
	case x < 60 || len(present) == 0:
		if r.Chance(2, 5) {
			if o, ok := e.mirrorOp(m, r); ok {
				e.c.Count("child_op_mirrors_other_member", 1)
				return o
			}
		}
		if len(present) > 0 && r.Chance(1, 2) {
			ck = vcommon.Pick(r, present)
		}
		return cop{kind: "cput", ck: ck, key: vcommon.Pick(r, childInner), val: childValue(r, ck)}
	case x < 82:
		if r.Chance(5, 6) {
			ck = vcommon.Pick(r, present)
			if r.Chance(4, 5) {
				return cop{kind: "cclear", ck: ck, key: vcommon.Pick(r, m.kids[string(ck)].Keys())}
			}
		}
		return cop{kind: "cclear", ck: ck, key: vcommon.Pick(r, childInner)}
	case x < 90:
		if r.Chance(3, 4) {
			ck = vcommon.Pick(r, present)
		}
		return cop{kind: "cdel", ck: ck}
	default:
		o := cop{kind: "cset", ck: ck}
		for _, i := range r.Perm(len(childInner))[:r.Range(1, 2)] {
			o.set = append(o.set, [2][]byte{childInner[i], childValue(r, ck)})
		}
		return o
	}
}

func (e *envC) live(writable bool) []*cmember {
	var out []*cmember
	for _, m := range e.ms {
		if m.alive && (!writable || !m.forked) {
			out = append(out, m)
		}
	}
	return out
}

func (e *envC) start(ver int) *cmember {
	root := &cmember{id: 0, parent: -1, t: newTrie(ver), ver: ver, main: vcommon.NewOrdMap(), kids: map[string]*vcommon.OrdMap{},
		origin: map[string]int{}, alive: true}
	root.obs = observeChildren(root.t)
	e.ms = append(e.ms, root)
	e.log = append(e.log, fmt.Sprintf("T0 = NewEmptyTrie(), version V%d", ver))
	return root
}

func (e *envC) run(r *vcommon.Rand, steps int) {
	c := e.c
	ver := 0
	if r.Chance(1, 4) {
		ver = 1
	}
	root := e.start(ver)
	for i := r.Range(0, 3); i > 0; i-- {
		e.mutate(root, cop{kind: "put", key: vcommon.Pick(r, mainPoolCh), val: r.Bytes(r.Range(1, 3))})
	}
	if r.Chance(1, 2) {
		// the origin has no child trie when its first snapshots are taken (its registry is an empty map)
		e.fork(root, 2)
	} else {
		for i := r.Range(1, 4); i > 0; i-- {
			ck := vcommon.Pick(r, childKeys)
			e.mutate(root, cop{kind: "cput", ck: ck, key: vcommon.Pick(r, childInner), val: childValue(r, ck)})
		}
	}
	maxDepth := 0
	for s := 0; s < steps && e.nviol == 0; s++ {
		w, live := e.live(true), e.live(false)
		switch x := r.Intn(100); {
		case x < 14 && len(live) < 7 || len(w) == 0:
			m := vcommon.Pick(r, live)
			n := 1
			if r.Chance(1, 2) || len(w) <= 1 {
				n = 2
			}
			e.fork(m, n)
			if m.depth+1 > maxDepth {
				maxDepth = m.depth + 1
			}
		case x < 17 && len(live) > 3:
			if m := vcommon.Pick(r, live); m.id != 0 {
				m.alive = false
				e.log = append(e.log, fmt.Sprintf("T%d dropped", m.id))
			}
		default:
			m := vcommon.Pick(r, w)
			e.mutate(m, e.genOp(m, r))
		}
	}
	if e.nviol == 0 {
		e.checkOthers(nil, "final observation")
	}
	sig := ""
	for _, m := range e.ms {
		sig += fmt.Sprintf("%d<%d:%d/%d,", m.id, m.parent, m.ops, len(m.kids))
	}
	c.Distinct(sig)
	c.Count("child_fork_tree_depth_ge_2", b2i(maxDepth >= 2))
	c.Sample(map[string]any{"members": len(e.ms), "depth": maxDepth, "actions": len(e.log), "first_actions": firstN(e.log, 16)})
}

// ---------------------------------------------------------------------------
// fixed corpus

type actC struct {
	fork int // >= 0: Tn = T<fork>.Snapshot()
	on   int
	op   cop
}

func corpusChild() (names []string, scripts [][]actC) {
	A, B := []byte("A"), []byte("B")
	k1, k2 := []byte{0x01}, []byte{0x02}
	a1, a2, b1 := []byte{'A', 1}, []byte{'A', 2}, []byte{'B', 1}
	on := func(i int, o cop) actC { return actC{fork: -1, on: i, op: o} }
	fk := func(i int) actC { return actC{fork: i} }
	cput := func(ck, k, v []byte) cop { return cop{kind: "cput", ck: ck, key: k, val: v} }
	cclear := func(ck, k []byte) cop { return cop{kind: "cclear", ck: ck, key: k} }
	add := func(n string, a ...actC) {
		names = append(names, n)
		scripts = append(scripts, a)
	}
	add("a child trie created on a snapshot of a trie without child tries is not listed by the original (seeded change: empty registry map shared by Snapshot)",
		on(0, cop{kind: "put", key: []byte{0x05}, val: []byte{7}}), fk(0), on(1, cput(A, k1, a1)), on(1, cput(B, k1, b1)), on(1, cclear(A, k1)))
	add("two sibling snapshots of a trie without child tries create the same child trie, one of them writes it again",
		fk(0), fk(0), on(1, cput(A, k1, a1)), on(2, cput(A, k1, a1)), on(1, cput(A, k2, a2)), on(2, cclear(A, k1)), on(1, cop{kind: "cdel", ck: A}))
	add("snapshots of a snapshot born without child tries; equal child tries, a clear that empties one, SetChild on the other",
		fk(0), fk(1), fk(1), on(2, cput(A, k1, a1)), on(3, cput(A, k1, a1)), on(3, cclear(A, k1)), on(2, cop{kind: "flush"}),
		on(3, cop{kind: "cset", ck: A, set: [][2][]byte{{k1, a1}}}), on(2, cput(A, k1, a2)), on(3, cput(A, k2, a2)))
	add("origin with two child tries: siblings and a snapshot of a snapshot write, clear, delete and replace them",
		on(0, cput(A, k1, a1)), on(0, cput(A, k2, a2)), on(0, cput(B, k1, b1)), fk(0), fk(0),
		on(1, cput(A, k1, a2)), on(2, cclear(A, k2)), on(2, cclear(A, k1)), fk(1), on(3, cop{kind: "cdel", ck: B}),
		on(3, cop{kind: "setv1"}), on(3, cput(A, k2, append([]byte{'A'}, rep(0xb1, 33)...))), on(2, cput(A, k1, a2)), on(2, cput(B, k2, b1)),
		on(3, cop{kind: "cset", ck: B, set: [][2][]byte{{k1, b1}}}), on(2, cop{kind: "flush"}), on(3, cclear(B, k1)))
	return
}

func runScriptChild(c *vcommon.Case, name string, acts []actC) {
	e := &envC{c: c}
	e.log = append(e.log, "# "+name)
	e.start(0)
	for _, a := range acts {
		if e.nviol > 0 {
			break
		}
		if a.fork >= 0 {
			e.fork(e.ms[a.fork], 1)
			continue
		}
		e.mutate(e.ms[a.on], a.op)
	}
	c.Sample(map[string]any{"script": name, "actions": e.log})
}
