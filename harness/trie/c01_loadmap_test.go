//go:build verif

package trie_test

import (
	"bytes"
	"encoding/hex"
	"fmt"
	"strings"
	"testing"

	"github.com/ChainSafe/gossamer/pkg/trie/inmemory"
	"github.com/ChainSafe/gossamer/zz_verif/vcommon"
)

// C01 through inmemory.LoadFromMap: the genesis state of a node is built from
// a map of hex strings ("0x.." key -> "0x.." value: lib/runtime
// NewTrieFromGenesis for the raw "top" section of a chain spec, dot/import.go
// for an imported state). The root of the trie it returns must be the spec
// root of that map under the requested state version: the map is the whole
// history here (one insert per key, in Go's random map order).
//
// Oracle: vcommon.SpecRoot over the decoded map, exactly as in the `hist`
// group; a difference is attributed to content (Entries differ from the map)
// or to the root computation.

func hexKey(r *vcommon.Rand, b []byte) string {
	s := hex.EncodeToString(b)
	if r.Chance(1, 8) { // hex digits are case-insensitive
		s = strings.ToUpper(s)
	}
	return "0x" + s
}

// genMapPool: the pools of the `hist` group plus keys whose first nibble /
// first byte / every byte is zero and keys that only differ in leading zeros.
func genMapPool(r *vcommon.Rand) [][]byte {
	pool := genPool1(r)
	seen := map[string]bool{}
	for _, k := range pool {
		seen[string(k)] = true
	}
	n := r.Range(1, 6)
	for i := 0; i < n; i++ {
		var k []byte
		switch r.Intn(7) {
		case 0:
			k = []byte{0x00}
		case 1:
			k = []byte{0x00, 0x00}
		case 2:
			k = []byte{byte(r.Intn(16))} // 0x0?: a leading zero nibble
		case 3:
			k = append([]byte{0x00}, r.Bytes(r.Range(1, 3))...)
		case 4:
			k = append([]byte{byte(r.Intn(16))}, r.Bytes(r.Range(1, 33))...)
		case 5:
			if len(pool) > 0 { // an existing key behind a zero byte
				k = append([]byte{0x00}, vcommon.Pick(r, pool)...)
			}
		default:
			k = []byte{}
		}
		addUniq(seen, &pool, k)
	}
	return pool
}

func runLoadFromMap(c *vcommon.Case, ver int, ks, vs [][]byte, name string) {
	m := vcommon.NewOrdMap()
	data := map[string]string{}
	for i, k := range ks {
		m.Put(k, vs[i])
		data[hexKey(c.R, k)] = hexKey(c.R, vs[i])
	}
	witness := func(extra map[string]any) map[string]any {
		w := map[string]any{"version": ver, "map": mapDump(m), "corpus": name}
		for k, v := range extra {
			w[k] = v
		}
		return w
	}
	c.Count("loadfrommap_calls", 1)
	c.Count(fmt.Sprintf("loadfrommap_v%d", ver), 1)
	c.Count("loadfrommap_keys", m.Len())
	for _, k := range m.Keys() {
		switch {
		case len(k) == 0:
			c.Count("loadfrommap_empty_key", 1)
		case k[0] == 0:
			c.Count("loadfrommap_key_leading_zero_byte", 1)
			c.Count("loadfrommap_key_leading_zero_nibble", 1)
		case k[0]>>4 == 0:
			c.Count("loadfrommap_key_leading_zero_nibble", 1)
		}
	}
	_, vals := m.Entries()
	for _, v := range vals {
		switch l := len(v); {
		case l == 0:
			c.Count("loadfrommap_empty_value", 1)
		case l == 32:
			c.Count(fmt.Sprintf("loadfrommap_v%d_value_len_32", ver), 1)
		case l == 33:
			c.Count(fmt.Sprintf("loadfrommap_v%d_value_len_33", ver), 1)
		}
	}
	c.Eval(1)
	t, err := inmemory.LoadFromMap(data, layout(ver))
	if err != nil || t == nil {
		c.Violation("loadfrommap-error", fmt.Sprintf("LoadFromMap of a well-formed hex map: trie=%v err=%v", t != nil, err), witness(nil))
		return
	}
	got, err := t.Hash()
	if err != nil {
		c.Violation("hash-error", "Hash() of the trie LoadFromMap returned: "+err.Error(), witness(nil))
		return
	}
	want, rootEnc, _ := vcommon.SpecRootNodes(m, ver, false)
	s := shapeOf(t)
	countShape(c, s)
	if m.Len() >= 2 {
		c.Distinct(fmt.Sprintf("map|v%d|%s", ver, s.sig.String()))
	}
	if !bytes.Equal(got[:], want[:]) {
		if d := entriesDiff(t, m); d != "" {
			actual := vcommon.SpecRoot(mapFromEntries(t), ver)
			c.Violation("loadfrommap-content", fmt.Sprintf("the trie LoadFromMap built does not hold the map (%s); root %x, spec root of the listed content %x, spec root of the map %x",
				d, got[:], actual[:], want[:]), witness(nil))
			return
		}
		c.Violation("loadfrommap-root", fmt.Sprintf("LoadFromMap(map, V%d).Hash()=%x, spec root of the same map = %x", ver, got[:], want[:]),
			witness(map[string]any{"spec_root_node": vcommon.Hex(rootEnc), "shape": s.sig.String()}))
		return
	}
	// the same map through the put history must agree as well (both are C01 roots)
	c.Eval(1)
	t2 := newTrie(ver)
	mk, mv := m.Entries()
	for _, i := range c.R.Perm(len(mk)) {
		_ = t2.Put(mk[i], mv[i])
	}
	if h2, err := t2.Hash(); err != nil || h2 != got {
		c.Violation("loadfrommap-vs-put", fmt.Sprintf("LoadFromMap root %x, root after Put of the same entries %x err=%v", got[:], h2[:], err), witness(nil))
	}
	c.Sample(map[string]any{"group": "loadfrommap", "version": ver, "keys": m.Len(), "root": "0x" + hex.EncodeToString(want[:]), "shape": firstStr(s.sig.String(), 120)})
}

type mapFixed struct {
	name string
	kv   [][2][]byte
}

func mapCorpus() []mapFixed {
	return []mapFixed{
		{"empty map", nil},
		{"empty key only", [][2][]byte{{{}, {1}}}},
		{"single key 0x00", [][2][]byte{{{0x00}, {1}}}},
		{"single key with a leading zero nibble", [][2][]byte{{{0x0a}, {1}}}},
		{"keys 0x0a and 0xa0 (a trimmed zero nibble would alias them)", [][2][]byte{{{0x0a}, {1}}, {{0xa0}, {2}}}},
		{"keys 0x00, 0x0000, empty", [][2][]byte{{{0x00}, {1}}, {{0x00, 0x00}, {2}}, {{}, {3}}}},
		{"keys 0x01ab and 0x1ab0", [][2][]byte{{{0x01, 0xab}, rep(1, 40)}, {{0x1a, 0xb0}, rep(2, 40)}, {{0x10}, {}}}},
		{"values of 31/32/33 bytes and an empty value", [][2][]byte{{{0x01}, rep(1, 31)}, {{0x02}, rep(2, 32)}, {{0x03}, rep(3, 33)}, {{0x03, 0x04}, {}}}},
		{"well-known keys :code and :heappages", [][2][]byte{{[]byte(":code"), rep(0xc0, 100)}, {[]byte(":heappages"), {8, 0, 0, 0, 0, 0, 0, 0}}, {[]byte(":child_storage:default:x"), rep(7, 32)}}},
		{"64-byte keys sharing 63 nibbles", [][2][]byte{{cat(rep(0x07, 32), b(0x10)), {1}}, {cat(rep(0x07, 32), b(0x20)), rep(2, 33)}, {rep(0x07, 32), {3}}}},
	}
}

// TestVerifC01Map decides the same property as TestVerifC01 (the engine's run
// pattern matches both; the driver merges counters and floors).
func TestVerifC01Map(t *testing.T) {
	r := vcommon.Start(t, "C01")
	defer r.Finish()
	r.Floor("loadfrommap_calls", 600)
	r.Floor("loadfrommap_v0", 250)
	r.Floor("loadfrommap_v1", 250)
	r.Floor("loadfrommap_keys", 5000)
	r.Floor("loadfrommap_key_leading_zero_nibble", 500)
	r.Floor("loadfrommap_key_leading_zero_byte", 300)
	r.Floor("loadfrommap_empty_key", 100)
	r.Floor("loadfrommap_empty_value", 50)
	r.Floor("loadfrommap_v1_value_len_32", 30)
	r.Floor("loadfrommap_v1_value_len_33", 30)
	r.Floor("loadfrommap_v0_value_len_33", 30)

	corpus := mapCorpus()
	r.Fixed("loadfrommap-corpus", 2*len(corpus), func(c *vcommon.Case) {
		if !specOK(c) {
			return
		}
		f := corpus[c.Idx/2]
		var ks, vs [][]byte
		for _, kv := range f.kv {
			ks, vs = append(ks, kv[0]), append(vs, kv[1])
		}
		runLoadFromMap(c, c.Idx%2, ks, vs, f.name)
	})
	r.Cases("loadfrommap", r.Scale(700), func(c *vcommon.Case) {
		if !specOK(c) {
			return
		}
		pool := genMapPool(c.R)
		var ks, vs [][]byte
		for _, i := range c.R.Perm(len(pool)) {
			if c.R.Chance(4, 5) {
				v := genValue1(c.R)
				if v == nil {
					v = []byte{}
				}
				ks, vs = append(ks, pool[i]), append(vs, v)
			}
		}
		runLoadFromMap(c, c.R.Intn(2), ks, vs, "")
	})
}
