//go:build verif

package trie_test

import (
	"bytes"
	"fmt"
	"sync"

	"github.com/ChainSafe/gossamer/dot/state"
	"github.com/ChainSafe/gossamer/internal/database"
	"github.com/ChainSafe/gossamer/internal/log"
	"github.com/ChainSafe/gossamer/lib/common"
	"github.com/ChainSafe/gossamer/lib/runtime/storage"
	gtrie "github.com/ChainSafe/gossamer/pkg/trie"
	"github.com/ChainSafe/gossamer/zz_verif/vcommon"
)

// C03, production snapshot path: dot/state InmemoryStorageState.TrieState(root)
// hands out a copy-on-write successor of a persisted state. Whatever is
// written through the returned TrieState (outside and inside storage
// transactions, SetVersion(V1)), every persisted state and every other live
// successor must keep showing its own content and root - both when the root
// is served from the in-memory cache of tries and when it is not (a fresh
// InmemoryStorageState over the same database = restart / evicted root,
// TrieState then goes through LoadFromDB).

func init() { log.Patch(log.SetLevel(log.Critical)) }

var (
	pebOnce sync.Once
	pebDB   *database.PebbleDB
	pebErr  error
	pebSeq  int
)

// tableDB lets one key namespace of the shared in-memory pebble stand in for a whole database.
type tableDB struct{ database.Table }

func (tableDB) Close() error { return nil }

func caseDB(c *vcommon.Case) (database.Database, error) {
	pebOnce.Do(func() { pebDB, pebErr = database.NewPebble("/verif-trie-c03-mem", true) })
	if pebErr != nil {
		return nil, pebErr
	}
	pebSeq++
	return tableDB{database.NewTable(pebDB, fmt.Sprintf("%s|%d|", c.ID, pebSeq))}, nil
}

type pstate struct { // a persisted state
	id    int
	root  common.Hash
	want  *vcommon.OrdMap
	depth int // 0 = first stored state, n = stored successor of a depth n-1 state
	forks int
}

type pfork struct { // a live successor handed out by TrieState(root), not stored yet
	id     int
	from   *pstate
	ts     *storage.TrieState
	want   *vcommon.OrdMap // what the TrieState shows (open transaction included)
	txBase []*vcommon.OrdMap
	hash   common.Hash // hash of its trie after its own last operation outside a transaction
	ver    int
	miss   bool
	alive  bool
}

type envS struct {
	c      *vcommon.Case
	db     database.Database
	ss     *state.InmemoryStorageState
	states []*pstate
	forks  []*pfork
	keys   [][]byte
	log    []string
	nviol  int
	cached map[common.Hash]bool // roots the current InmemoryStorageState holds in memory (as far as the harness knows)
}

func (e *envS) logf(f string, a ...any) { e.log = append(e.log, fmt.Sprintf(f, a...)) }

func (e *envS) witness(extra map[string]any) map[string]any {
	w := map[string]any{"actions": append([]string{}, e.log...)}
	for k, v := range extra {
		w[k] = v
	}
	return w
}

func (e *envS) violation(class, msg string, w map[string]any) {
	e.nviol++
	e.c.Violation(class, msg, w)
}

func mapDiff(got map[string][]byte, m *vcommon.OrdMap) string {
	ks, vs := m.Entries()
	d := ""
	for i, k := range ks {
		v, ok := got[string(k)]
		if !ok {
			d += "missing " + vcommon.Hex(k) + "; "
		} else if !bytes.Equal(v, vs[i]) {
			d += fmt.Sprintf("value at %s = %s want %s; ", vcommon.Hex(k), firstStr(vcommon.Hex(v), 20), firstStr(vcommon.Hex(vs[i]), 20))
		}
	}
	for k := range got {
		if _, ok := m.Get([]byte(k)); !ok {
			d += "extra " + vcommon.Hex([]byte(k)) + "; "
		}
	}
	return firstStr(d, 600)
}

func mapOf(got map[string][]byte) *vcommon.OrdMap {
	m := vcommon.NewOrdMap()
	for k, v := range got {
		m.Put([]byte(k), v)
	}
	return m
}

// freshInstance replaces the storage state by a new one over the same database: nothing is cached.
func (e *envS) freshInstance() bool {
	ss, err := state.NewStorageState(e.db, nil, state.NewTries())
	if err != nil {
		e.c.Inconclusive("NewStorageState: " + err.Error())
		return false
	}
	e.ss = ss
	e.cached = map[common.Hash]bool{}
	e.logf("ss = NewStorageState(db)   (fresh instance: no trie cached)")
	e.c.Count("state_fresh_instances", 1)
	return true
}

// trieState calls ss.TrieState(root) and turns its panic into an error.
func (e *envS) trieState(root common.Hash) (ts *storage.TrieState, err error) {
	defer func() {
		if p := recover(); p != nil {
			err = fmt.Errorf("panic: %v", p)
		}
	}()
	return e.ss.TrieState(&root)
}

func (e *envS) fork(s *pstate, miss bool) *pfork {
	c := e.c
	if miss {
		if !e.freshInstance() {
			return nil
		}
	}
	wasCached := e.cached[s.root]
	ts, err := e.trieState(s.root)
	if err != nil {
		e.violation("state-triestate", fmt.Sprintf("TrieState(S%d): %v", s.id, err), e.witness(nil))
		return nil
	}
	e.cached[s.root] = true
	f := &pfork{id: len(e.forks), from: s, ts: ts, want: s.want.Clone(), hash: s.root, miss: !wasCached, alive: true}
	e.forks = append(e.forks, f)
	e.logf("F%d = ss.TrieState(S%d)   (%s)", f.id, s.id, map[bool]string{true: "root in the cache", false: "cache MISS: LoadFromDB"}[wasCached])
	if wasCached {
		c.Count("state_forks_cache_hit", 1)
	} else {
		c.Count("state_forks_cache_miss", 1)
	}
	s.forks++
	if s.forks == 2 {
		c.Count("state_roots_with_sibling_forks", 1)
	}
	if s.depth >= 1 {
		c.Count("state_forks_of_forks", 1)
	}
	return f
}

// observeFork records what the written fork shows now.
func (e *envS) observeFork(f *pfork, predicted *vcommon.OrdMap, what string) {
	got := f.ts.TrieEntries()
	if d := mapDiff(got, predicted); d != "" {
		// what a write does to its own TrieState is C02/C08 matter; continue from what it shows
		e.c.Count("note_state_fork_content_differs_from_prediction", 1)
		e.logf("(F%d shows %s after %s; shadow resynchronised)", f.id, d, what)
		predicted = mapOf(got)
	}
	f.want = predicted
	if len(f.txBase) == 0 {
		if h, err := f.ts.Trie().Hash(); err == nil {
			f.hash = h
		}
	}
}

// checkAll re-observes every persisted state and every other live fork.
func (e *envS) checkAll(op *pfork, what string) {
	c := e.c
	opid := -1
	if op != nil {
		opid = op.id
	}
	for _, s := range e.states {
		c.Eval(1)
		c.Count("state_isolation_observations", 1)
		bad := ""
		// GetStorage for every alphabet key (present and absent)
		for _, k := range e.keys {
			got, err := e.ss.GetStorage(&s.root, k)
			want, ok := s.want.Get(k)
			if err != nil || (ok && !bytes.Equal(got, want)) || (!ok && got != nil) {
				bad = fmt.Sprintf("GetStorage(S%d, %s)=%s err=%v, persisted state has %s", s.id, vcommon.Hex(k), firstStr(vcommon.Hex(got), 24), err, firstStr(vcommon.Hex(want), 24))
				break
			}
		}
		if bad == "" {
			ents, err := e.ss.Entries(&s.root)
			if err != nil {
				bad = fmt.Sprintf("Entries(S%d): %v", s.id, err)
			} else if d := mapDiff(ents, s.want); d != "" {
				bad = fmt.Sprintf("Entries(S%d): %s", s.id, d)
			}
			e.cached[s.root] = true
		}
		if bad == "" {
			ts, err := e.trieState(s.root)
			switch {
			case err != nil:
				bad = fmt.Sprintf("a further TrieState(S%d): %v", s.id, err)
			default:
				if h, herr := ts.Trie().Hash(); herr != nil || h != s.root {
					bad = fmt.Sprintf("a further TrieState(S%d) has root %s err=%v, the state was stored under %s", s.id, h, herr, s.root)
				} else if d := mapDiff(ts.TrieEntries(), s.want); d != "" {
					bad = fmt.Sprintf("a further TrieState(S%d) starts from other contents: %s", s.id, d)
				}
			}
		}
		if bad != "" {
			rel := "another persisted state"
			if op != nil && op.from == s {
				rel = "the persisted state the written successor was obtained from"
			}
			cls := "state-isolation"
			if op != nil && op.miss {
				cls = "state-isolation-cache-miss"
			}
			e.violation(cls, fmt.Sprintf("%s on F%d changed S%d (%s): %s", what, opid, s.id, rel, bad),
				e.witness(map[string]any{"state": s.id, "expected": mapDump(s.want)}))
			return
		}
	}
	for _, g := range e.forks {
		if !g.alive || g == op {
			continue
		}
		c.Eval(1)
		c.Count("state_isolation_observations", 1)
		d := mapDiff(g.ts.TrieEntries(), g.want)
		if d == "" && len(g.txBase) == 0 {
			if h, err := g.ts.Trie().Hash(); err != nil || h != g.hash {
				d = fmt.Sprintf("root %s -> %s err=%v", g.hash, h, err)
			}
		}
		if d != "" {
			rel := "successor of another state"
			if op != nil && op.from == g.from {
				rel = "sibling successor of the same state"
			}
			e.violation("state-isolation-fork", fmt.Sprintf("%s on F%d changed F%d (%s): %s", what, opid, g.id, rel, d), e.witness(nil))
			return
		}
	}
}

func (e *envS) write(f *pfork, r *vcommon.Rand) {
	c := e.c
	pred := f.want.Clone()
	what := ""
	var err error
	inTx := len(f.txBase) > 0
	switch x := r.Intn(100); {
	case x < 8 && !inTx && f.ver == 0:
		f.ts.SetVersion(gtrie.V1)
		f.ver = 1
		what = "SetVersion(V1)"
		c.Count("state_version_raised", 1)
	case x < 18 && len(f.txBase) < 2:
		f.ts.StartTransaction()
		f.txBase = append(f.txBase, f.want.Clone())
		what = "StartTransaction"
	case x < 30 && inTx:
		n := len(f.txBase) - 1
		if r.Chance(2, 3) {
			f.ts.CommitTransaction()
			what = "CommitTransaction"
		} else {
			f.ts.RollbackTransaction()
			pred = f.txBase[n]
			what = "RollbackTransaction"
		}
		f.txBase = f.txBase[:n]
	case x < 70:
		k := vcommon.Pick(r, e.keys)
		var v []byte
		if old, ok := f.want.Get(k); ok && r.Chance(1, 3) {
			v = append([]byte{}, old...) // re-put of the stored value (after a version raise: re-encoded by hash)
			c.Count("state_reput_equal_value", 1)
		} else {
			v = genValue3(r)
			if len(v) == 0 {
				v = []byte{0x2a}
			}
		}
		what = fmt.Sprintf("Put(%s, %s)", vcommon.Hex(k), firstStr(vcommon.Hex(v), 14)+fmt.Sprintf("[%dB]", len(v)))
		pred.Put(k, v)
		err = f.ts.Put(k, v)
	case x < 90:
		k := vcommon.Pick(r, e.keys)
		if ks := f.want.Keys(); len(ks) > 0 && r.Chance(3, 4) {
			k = vcommon.Pick(r, ks)
		}
		what = "Delete(" + vcommon.Hex(k) + ")"
		pred.Delete(k)
		err = f.ts.Delete(k)
	default:
		if inTx {
			return // prefix clears inside a transaction are C08 matter
		}
		k := vcommon.Pick(r, e.keys)
		p := k[:r.Range(0, len(k))]
		if zeroLowNibble(p) || len(p) == 0 {
			return
		}
		what = "ClearPrefix(" + vcommon.Hex(p) + ")"
		pred.ClearPrefix(p)
		err = f.ts.ClearPrefix(p)
	}
	if inTx {
		c.Count("state_writes_inside_transaction", 1)
	} else {
		c.Count("state_writes_outside_transaction", 1)
	}
	e.logf("F%d: %s", f.id, what)
	if err != nil {
		e.violation("state-write-error", fmt.Sprintf("F%d %s: %v", f.id, what, err), e.witness(nil))
		return
	}
	e.observeFork(f, pred, what)
	e.checkAll(f, what)
}

// store persists a live successor (the block is finished): it becomes a state, the fork is not written any more.
func (e *envS) store(f *pfork) *pstate {
	for len(f.txBase) > 0 {
		f.ts.CommitTransaction()
		f.txBase = f.txBase[:len(f.txBase)-1]
		e.logf("F%d: CommitTransaction", f.id)
	}
	root, err := f.ts.Trie().Hash()
	if err != nil {
		e.c.Inconclusive("Hash: " + err.Error())
		return nil
	}
	if err := e.ss.StoreTrie(f.ts, nil); err != nil {
		e.violation("state-storetrie", fmt.Sprintf("StoreTrie(F%d): %v", f.id, err), e.witness(nil))
		return nil
	}
	f.alive = false
	for _, s := range e.states {
		if s.root == root {
			e.logf("StoreTrie(F%d): same root as S%d", f.id, s.id)
			return s
		}
	}
	depth := 0
	if f.from != nil {
		depth = f.from.depth + 1
	}
	s := &pstate{id: len(e.states), root: root, want: mapOf(f.ts.TrieEntries()), depth: depth}
	e.states = append(e.states, s)
	e.cached[root] = true
	e.logf("S%d = StoreTrie(F%d)  root %s", s.id, f.id, root)
	e.c.Count("state_stored", 1)
	e.checkAll(nil, fmt.Sprintf("StoreTrie(F%d)", f.id))
	return s
}

func runStateForks(c *vcommon.Case, script bool) {
	r := c.R
	db, err := caseDB(c)
	if err != nil {
		c.Inconclusive("in-memory pebble: " + err.Error())
		return
	}
	e := &envS{c: c, db: db}
	if !e.freshInstance() {
		return
	}
	pool := genPool1(r)
	for _, k := range pool {
		if len(e.keys) < 12 && len(k) > 0 && len(k) <= 40 {
			e.keys = append(e.keys, k)
		}
	}
	if len(e.keys) < 3 {
		e.keys = append(e.keys, []byte{0x12, 0x34}, []byte{0x12, 0x35}, []byte{0x12}, []byte{0x77})
	}
	// genesis: S0
	ts, err := e.trieState(gtrie.EmptyHash)
	if err != nil {
		c.Inconclusive("TrieState(empty root): " + err.Error())
		return
	}
	g := &pfork{id: 0, ts: ts, want: vcommon.NewOrdMap(), hash: gtrie.EmptyHash, alive: true}
	e.forks = append(e.forks, g)
	e.logf("F0 = ss.TrieState(empty root)")
	if r.Chance(1, 3) {
		g.ts.SetVersion(gtrie.V1)
		g.ver = 1
		e.logf("F0: SetVersion(V1)")
	}
	for i, n := 0, r.Range(3, 10); i < n; i++ {
		k, v := vcommon.Pick(r, e.keys), genValue3(r)
		if len(v) == 0 {
			v = []byte{1}
		}
		_ = g.ts.Put(k, v)
		e.logf("F0: Put(%s, [%dB])", vcommon.Hex(k), len(v))
	}
	g.want = mapOf(g.ts.TrieEntries())
	if e.store(g) == nil {
		return
	}
	steps := r.Range(8, 40)
	for i := 0; i < steps && e.nviol == 0; i++ {
		var live []*pfork
		for _, f := range e.forks {
			if f.alive {
				live = append(live, f)
			}
		}
		switch x := r.Intn(100); {
		case len(live) == 0 || x < 18 && len(live) < 4:
			s := vcommon.Pick(r, e.states)
			if r.Chance(1, 2) && len(e.states) > 1 {
				s = e.states[len(e.states)-1]
			}
			miss := r.Chance(1, 2)
			if f := e.fork(s, miss); f != nil && r.Chance(1, 3) {
				e.fork(s, false) // a sibling successor of the same state
			}
		case x < 30:
			f := vcommon.Pick(r, live)
			e.store(f)
		case x < 34:
			f := vcommon.Pick(r, live)
			f.alive = false
			e.logf("F%d dropped", f.id)
		default:
			e.write(vcommon.Pick(r, live), r)
		}
	}
	if e.nviol == 0 {
		// final: everything once more from a fresh instance (all roots through LoadFromDB)
		if e.freshInstance() {
			e.checkAll(nil, "final observation from a fresh instance")
		}
	}
	c.Distinct(fmt.Sprintf("s%d f%d %d", len(e.states), len(e.forks), len(e.log)))
	c.Sample(map[string]any{"path": "dot/state", "states": len(e.states), "successors": len(e.forks), "first_actions": firstN(e.log, 16)})
}

// fixed scenarios: the minimal witnesses on the production path
func runStateScript(c *vcommon.Case, idx int) {
	db, err := caseDB(c)
	if err != nil {
		c.Inconclusive("in-memory pebble: " + err.Error())
		return
	}
	e := &envS{c: c, db: db, keys: [][]byte{{0x01}, {0x01, 0x02}, {0x01, 0x03}, {0x02}, {0x09}}}
	if !e.freshInstance() {
		return
	}
	v33, v40 := rep(0xb1, 33), rep(0xc1, 40)
	ts, err := e.trieState(gtrie.EmptyHash)
	if err != nil {
		c.Inconclusive("TrieState(empty root): " + err.Error())
		return
	}
	g := &pfork{ts: ts, want: vcommon.NewOrdMap(), alive: true}
	e.forks = append(e.forks, g)
	e.logf("# script %d; F0 = ss.TrieState(empty root): 0x01=33B 0x0102=40B 0x0103=1B 0x02=1B", idx)
	_ = g.ts.Put([]byte{0x01}, v33)
	_ = g.ts.Put([]byte{0x01, 0x02}, v40)
	_ = g.ts.Put([]byte{0x01, 0x03}, []byte{1})
	_ = g.ts.Put([]byte{0x02}, []byte{2})
	g.want = mapOf(g.ts.TrieEntries())
	s1 := e.store(g)
	if s1 == nil {
		return
	}
	put := func(f *pfork, k, v []byte) {
		pred := f.want.Clone()
		pred.Put(k, v)
		what := fmt.Sprintf("Put(%s,[%dB])", vcommon.Hex(k), len(v))
		e.logf("F%d: %s", f.id, what)
		_ = f.ts.Put(k, v)
		e.observeFork(f, pred, what)
		e.checkAll(f, what)
	}
	del := func(f *pfork, k []byte) {
		pred := f.want.Clone()
		pred.Delete(k)
		what := "Delete(" + vcommon.Hex(k) + ")"
		e.logf("F%d: %s", f.id, what)
		_ = f.ts.Delete(k)
		e.observeFork(f, pred, what)
		e.checkAll(f, what)
	}
	switch idx {
	case 0: // cache miss (restart), write outside a transaction, then a second successor of the same state
		f := e.fork(s1, true)
		if f == nil {
			return
		}
		put(f, []byte{0x09}, []byte{9})
		put(f, []byte{0x01, 0x03}, []byte{7})
		del(f, []byte{0x02})
		if f2 := e.fork(s1, false); f2 != nil {
			put(f2, []byte{0x02}, v40)
			put(f, []byte{0x01}, []byte{1})
		}
	case 1: // cache miss, writes inside a transaction, commit, store the successor, fork the successor after another restart
		f := e.fork(s1, true)
		if f == nil {
			return
		}
		f.ts.StartTransaction()
		f.txBase = append(f.txBase, f.want.Clone())
		put(f, []byte{0x09}, v33)
		del(f, []byte{0x01, 0x02})
		f.ts.CommitTransaction()
		f.txBase = nil
		e.logf("F%d: CommitTransaction", f.id)
		e.observeFork(f, f.want, "CommitTransaction")
		e.checkAll(f, "CommitTransaction")
		if s2 := e.store(f); s2 != nil {
			if f3 := e.fork(s2, true); f3 != nil {
				put(f3, []byte{0x09}, []byte{1})
				del(f3, []byte{0x01})
			}
		}
	case 2: // cache hit and miss siblings, version raised, equal values re-put (hashed-value flag), interleaved
		fa, fb := e.fork(s1, false), e.fork(s1, true)
		if fa == nil || fb == nil {
			return
		}
		fa.ts.SetVersion(gtrie.V1)
		fa.ver = 1
		e.logf("F%d: SetVersion(V1)", fa.id)
		put(fa, []byte{0x01}, v33)
		put(fb, []byte{0x01, 0x02}, []byte{5})
		fb.ts.SetVersion(gtrie.V1)
		fb.ver = 1
		e.logf("F%d: SetVersion(V1)", fb.id)
		put(fb, []byte{0x01}, v33)
		put(fa, []byte{0x01, 0x02}, v40)
		del(fb, []byte{0x01, 0x03})
	}
	if e.nviol == 0 && e.freshInstance() {
		e.checkAll(nil, "final observation from a fresh instance")
	}
	c.Sample(map[string]any{"path": "dot/state", "script": idx, "actions": e.log})
}
