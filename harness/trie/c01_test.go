//go:build verif

package trie_test

import (
	"bytes"
	"encoding/hex"
	"fmt"
	"testing"

	gtrie "github.com/ChainSafe/gossamer/pkg/trie"
	"github.com/ChainSafe/gossamer/pkg/trie/inmemory"
	"github.com/ChainSafe/gossamer/zz_verif/vcommon"
)

// C01: for every key/value map and either state version the root computed by
// InMemoryTrie.Hash (and TrieLayout.Root) equals the spec Merkle root of that
// map (vcommon.SpecRoot), whatever history of inserts, overwrites, deletions
// produced it.

type env1 struct {
	c     *vcommon.Case
	t     *inmemory.InMemoryTrie
	m     *vcommon.OrdMap
	ver   int
	hist  []string
	nviol int
	nodes int // node count after the previous operation
}

func (e *env1) witness(extra map[string]any) map[string]any {
	w := map[string]any{"version": e.ver, "ops": append([]string{}, e.hist...), "map": mapDump(e.m)}
	for k, v := range extra {
		w[k] = v
	}
	return w
}

func (e *env1) violation(class, msg string, w map[string]any) {
	e.nviol++
	e.c.Violation(class, msg, w)
}

// checkRoot is the oracle: Hash() against the spec root of the shadow map.
func (e *env1) checkRoot(where string) {
	e.c.Eval(1)
	got, err := e.t.Hash()
	if err != nil {
		e.violation("hash-error", where+": Hash(): "+err.Error(), e.witness(nil))
		return
	}
	want, rootEnc, _ := vcommon.SpecRootNodes(e.m, e.ver, false)
	if bytes.Equal(got[:], want[:]) {
		return
	}
	// attribute: is the content what the history says?
	if d := entriesDiff(e.t, e.m); d != "" {
		actual := vcommon.SpecRoot(mapFromEntries(e.t), e.ver)
		e.violation("content", fmt.Sprintf("%s: trie content differs from the map the history produces (%s); root %x, spec root of the listed content %x, spec root of the map %x",
			where, d, got[:], actual[:], want[:]), e.witness(nil))
		e.m = mapFromEntries(e.t)
		return
	}
	e.violation("root", fmt.Sprintf("%s: Hash()=%x, spec root of the same map (V%d) = %x", where, got[:], e.ver, want[:]),
		e.witness(map[string]any{"spec_root_node": vcommon.Hex(rootEnc), "shape": shapeOf(e.t).sig.String()}))
}

func (e *env1) apply(o op2, check bool) {
	c := e.c
	e.hist = append(e.hist, o.String())
	c.Count("op_"+o.kind, 1)
	_, present := e.m.Get(o.key)
	switch o.kind {
	case "put":
		if err := e.t.Put(o.key, o.val); err != nil {
			e.violation("error", o.String()+": "+err.Error(), e.witness(nil))
			return
		}
		if old, ok := e.m.Get(o.key); ok {
			c.Count("put_overwrite", 1)
			if bytes.Equal(old, o.val) {
				c.Count("put_overwrite_same_value", 1)
			}
		}
		e.m.Put(o.key, o.val)
		switch {
		case len(o.val) == 0 && o.val == nil:
			c.Count("put_nil_value", 1)
		case len(o.val) == 0:
			c.Count("put_empty_value", 1)
		case len(o.val) == 32:
			c.Count(fmt.Sprintf("v%d_value_len_32", e.ver), 1)
		case len(o.val) == 33:
			c.Count(fmt.Sprintf("v%d_value_len_33", e.ver), 1)
		case len(o.val) == 31:
			c.Count(fmt.Sprintf("v%d_value_len_31", e.ver), 1)
		}
		if len(o.key) == 0 {
			c.Count("put_empty_key", 1)
		}
	case "del":
		if err := e.t.Delete(o.key); err != nil {
			e.violation("error", o.String()+": "+err.Error(), e.witness(nil))
			return
		}
		e.m.Delete(o.key)
		if !present {
			c.Count("delete_absent", 1)
		}
	case "clear":
		if err := e.t.ClearPrefix(o.key); err != nil {
			e.violation("error", o.String()+": "+err.Error(), e.witness(nil))
			return
		}
		e.m.ClearPrefix(o.key)
	case "hash":
		_, _ = e.t.Hash()
		return
	case "snap":
		e.t = e.t.Snapshot()
		return
	case "flush":
		if err := flushTrie(e.t); err != nil {
			e.violation("error", "WriteDirty: "+err.Error(), e.witness(nil))
		}
		return
	}
	if !check {
		e.nodes = shapeOf(e.t).nodes
		return
	}
	e.checkRoot(fmt.Sprintf("after op %d (%s)", len(e.hist), o))
	s := shapeOf(e.t)
	if o.kind == "del" && present {
		switch d := e.nodes - s.nodes; {
		case d >= 2:
			c.Count("merge_on_delete", 1) // the leaf went away and its parent branch was merged into the remaining child
		case d == 1:
			c.Count("delete_removes_one_node", 1)
		case d == 0:
			c.Count("delete_of_branch_value_keeps_branch", 1)
		}
	}
	e.nodes = s.nodes
}

// finish: structural counters, order independence, TrieLayout.Root.
func (e *env1) finish(r *vcommon.Rand, sample bool) {
	c := e.c
	e.checkRoot("at the end")
	s := shapeOf(e.t)
	countShape(c, s)
	if s.maxPartial >= 318 {
		c.Count("partial_key_ge_318_nibbles", 1)
	}
	c.Count("final_keys", e.m.Len())
	if e.m.Len() >= 2 {
		c.Distinct(fmt.Sprintf("v%d|%s", e.ver, s.sig.String()))
	}
	want := vcommon.SpecRoot(e.m, e.ver)
	ks, vs := e.m.Entries()
	if e.nviol == 0 && len(ks) > 0 {
		// the same map through two other histories
		// (a) TrieLayout.Root over the entries in a random order
		c.Eval(1)
		var ents gtrie.Entries
		for _, i := range r.Perm(len(ks)) {
			ents = append(ents, gtrie.Entry{Key: ks[i], Value: vs[i]})
		}
		got, err := layout(e.ver).Root(inmemory.NewEmptyTrie(), ents)
		if err != nil || !bytes.Equal(got[:], want[:]) {
			e.violation("layout-root", fmt.Sprintf("TrieLayout(V%d).Root(entries in random order)=%x err=%v, spec root %x", e.ver, got[:], err, want[:]),
				e.witness(map[string]any{"entry_order": keysHex(entKeys(ents))}))
		}
		c.Count("layout_root_checked", 1)
		// (b) a fresh trie: random insertion order, values first written wrong, foreign keys inserted and removed again
		c.Eval(1)
		t2 := newTrie(e.ver)
		var h2 []string
		for _, i := range r.Perm(len(ks)) {
			if r.Chance(1, 4) {
				wrong := r.Bytes(r.Range(0, 40))
				_ = t2.Put(ks[i], wrong)
				h2 = append(h2, op2{kind: "put", key: ks[i], val: wrong}.String())
			}
			if r.Chance(1, 4) {
				fk := append(append([]byte{}, ks[i]...), byte(r.Intn(4)), 0xee)
				if r.Bool() && len(ks[i]) > 0 {
					fk = append(append([]byte{}, ks[i][:len(ks[i])-1]...), ks[i][len(ks[i])-1]^0x10, 0xee)
				}
				if _, ok := e.m.Get(fk); !ok {
					_ = t2.Put(fk, []byte{0xfe})
					h2 = append(h2, op2{kind: "put", key: fk, val: []byte{0xfe}}.String())
					if r.Bool() {
						_, _ = t2.Hash()
						h2 = append(h2, "hash")
					}
					_ = t2.Put(ks[i], vs[i])
					_ = t2.Delete(fk)
					h2 = append(h2, op2{kind: "put", key: ks[i], val: vs[i]}.String(), "del "+vcommon.Hex(fk))
					continue
				}
			}
			_ = t2.Put(ks[i], vs[i])
			h2 = append(h2, op2{kind: "put", key: ks[i], val: vs[i]}.String())
		}
		got2, err := t2.Hash()
		if err != nil || !bytes.Equal(got2[:], want[:]) {
			e.c.Violation("order-dependence", fmt.Sprintf("a second history reaching the same map gives root %x err=%v, spec root %x", got2[:], err, want[:]),
				map[string]any{"version": e.ver, "ops": h2, "map": mapDump(e.m)})
			e.nviol++
		}
		c.Count("second_history_checked", 1)
	}
	if sample {
		c.Sample(map[string]any{"version": e.ver, "ops": len(e.hist), "keys": e.m.Len(), "root": "0x" + hex.EncodeToString(want[:]),
			"shape": firstStr(s.sig.String(), 160), "max_partial_key_nibbles": s.maxPartial})
	}
}

func entKeys(es gtrie.Entries) [][]byte {
	var out [][]byte
	for _, e := range es {
		out = append(out, e.Key)
	}
	return out
}

func firstStr(s string, n int) string {
	if len(s) > n {
		return s[:n] + "..."
	}
	return s
}

// ---------------------------------------------------------------------------
// generation

// interesting partial-key lengths (nibbles): header length fields saturate at
// 15 (hashed branch), 31 (hashed leaf), 63 (other variants), then 63+255.
var cutPoints = []int{0, 1, 2, 3, 14, 15, 16, 17, 30, 31, 32, 33, 34, 62, 63, 64, 65, 66, 126, 127, 128, 316, 317, 318, 319, 320}

func genPool1(r *vcommon.Rand) [][]byte {
	seen := map[string]bool{}
	var pool [][]byte
	mode := r.Intn(20)
	if mode < 9 || mode >= 16 { // dense short keys over a few nibbles
		ns := vcommon.Pick(r, nibbleSets)
		var abc []byte
		for _, a := range ns {
			for _, b := range ns {
				abc = append(abc, a<<4|b)
			}
		}
		n := r.Range(2, 40)
		if r.Chance(1, 2) {
			addUniq(seen, &pool, []byte{})
		}
		for tries := 0; len(pool) < n && tries < 300; tries++ {
			k := randKey(r, abc, 4)
			if len(pool) > 0 && r.Chance(1, 3) {
				base := vcommon.Pick(r, pool)
				if len(base) < 5 {
					k = append(append([]byte{}, base...), vcommon.Pick(r, abc))
				}
			}
			addUniq(seen, &pool, k)
		}
	}
	if mode >= 9 { // long keys around the header boundaries
		L := vcommon.Pick(r, []int{8, 9, 16, 17, 32, 32, 33, 34, 64, 65, 159, 160, 161, r.Range(18, 70)})
		base := r.Bytes(L)
		addUniq(seen, &pool, base)
		n := r.Range(2, 14)
		for i := 0; i < n; i++ {
			k := append([]byte{}, base...)
			pos := vcommon.Pick(r, cutPoints) + r.Intn(2)*vcommon.Pick(r, []int{0, 1, 2})
			if pos >= 2*L {
				pos = r.Intn(2 * L)
			}
			switch r.Intn(6) {
			case 0: // a key that is a prefix of the base
				k = k[:(pos+1)/2]
			case 1: // an extension of the base
				k = append(k, r.Bytes(r.Range(1, 3))...)
			default: // diverge from the base at nibble pos
				if pos%2 == 0 {
					k[pos/2] ^= byte(r.Range(1, 15)) << 4
				} else {
					k[pos/2] ^= byte(r.Range(1, 15))
				}
				if r.Chance(1, 3) {
					k = k[:pos/2+1]
				} else if r.Chance(1, 4) {
					k = append(k, r.Bytes(r.Range(1, 40))...)
				}
			}
			addUniq(seen, &pool, k)
		}
	}
	return pool
}

func genValue1(r *vcommon.Rand) []byte {
	switch x := r.Intn(40); {
	case x < 2:
		return []byte{}
	case x < 3:
		return nil
	case x < 12:
		return r.Bytes(r.Range(1, 4))
	case x < 16:
		return r.Bytes(31)
	case x < 22:
		return r.Bytes(32)
	case x < 28:
		return r.Bytes(33)
	case x < 31:
		return r.Bytes(64)
	case x < 33:
		return bytes.Repeat([]byte{byte(r.Intn(3))}, r.Range(30, 35)) // equal values under different keys
	default:
		return r.Bytes(r.Range(0, 90))
	}
}

// safePrefix: ClearPrefix is driven only with prefixes outside the open C02
// findings (a prefix ending in a zero nibble is matched differently, C02-K1).
func safePrefix(p []byte) bool { return !zeroLowNibble(p) }

func (e *env1) genOp(r *vcommon.Rand, pool [][]byte) op2 {
	switch x := r.Intn(100); {
	case x < 50 || e.m.Len() == 0 && x < 85:
		k := vcommon.Pick(r, pool)
		if v, ok := e.m.Get(k); ok && r.Chance(1, 6) {
			return op2{kind: "put", key: k, val: append([]byte{}, v...)} // overwrite with the same value
		}
		return op2{kind: "put", key: k, val: genValue1(r)}
	case x < 80:
		if e.m.Len() > 0 && r.Chance(3, 4) {
			return op2{kind: "del", key: vcommon.Pick(r, e.m.Keys())}
		}
		k := vcommon.Pick(r, pool)
		if r.Chance(1, 3) && len(k) > 0 {
			k = k[:len(k)-1] // often absent, ends inside a partial key
		}
		return op2{kind: "del", key: k}
	case x < 86:
		k := vcommon.Pick(r, pool)
		p := k[:r.Range(0, len(k))]
		if r.Chance(1, 10) {
			p = []byte{}
		}
		if !safePrefix(p) {
			e.c.Count("clear_prefix_skipped_zero_nibble", 1)
			return op2{kind: "hash"}
		}
		return op2{kind: "clear", key: p}
	case x < 91:
		return op2{kind: "hash"}
	case x < 96:
		return op2{kind: "flush"} // nodes become clean: cached Merkle values are live from here on
	default:
		return op2{kind: "snap"}
	}
}

// ---------------------------------------------------------------------------
// fixed corpus

type script1 struct {
	name string
	ops  []op2
}

func rep(x byte, n int) []byte { return bytes.Repeat([]byte{x}, n) }

func cat(parts ...[]byte) []byte {
	var out []byte
	for _, p := range parts {
		out = append(out, p...)
	}
	return out
}

func corpus1() []script1 {
	k32a, k32b, k32c := cat(b(0x1a), rep(0x77, 31)), cat(b(0x2a), rep(0x77, 31)), cat(b(0x1b), rep(0x77, 31)) // partial keys 63 / 63 / 62
	k160 := rep(0x5c, 160)
	pv := func(k []byte, n int) op2 { return op2{kind: "put", key: k, val: rep(0xd0|byte(n&0xf), n)} }
	del := func(k []byte) op2 { return op2{kind: "del", key: k} }
	return []script1{
		{"empty state", nil},
		{"empty key only", []op2{pv(b(), 1)}},
		{"empty key with empty value", []op2{put(b())}},
		{"empty key with nil value", []op2{{kind: "put", key: b(), val: nil}}},
		{"empty key among others, then removed", []op2{pv(b(), 1), pv(b(0x00), 1), pv(b(0x00, 0x00), 2), pv(b(0x10), 3), del(b())}},
		{"values of 31/32/33 bytes in a leaf and in a branch", []op2{pv(b(0x01), 32), pv(b(0x01, 0x02), 33), pv(b(0x01, 0x03), 31), pv(b(0x01, 0x02, 0x03), 32), pv(b(0x02), 33)}},
		{"value grows over and shrinks under the V1 threshold", []op2{pv(b(0x01), 32), pv(b(0x01), 33), {kind: "hash"}, pv(b(0x01), 32), pv(b(0x01, 0x05), 40), pv(b(0x01), 34), {kind: "hash"}, pv(b(0x01), 2)}},
		{"leaf partial keys of 62/63/64 nibbles", []op2{pv(k32a, 3), {kind: "hash"}, pv(k32b, 3), pv(k32c, 40), del(k32b), del(k32c)}},
		{"branch partial key of 63 nibbles, hashed branch value", []op2{pv(cat(k32a[:31], b(0x70)), 2), pv(cat(k32a[:31], b(0x71)), 2), pv(cat(k32a[:31], b(0x7f), b(1)), 40), pv(k32a[:31], 33), pv(cat(k32a[:32], b(1)), 1)}},
		{"partial key of 63+255 nibbles and beyond", []op2{pv(k160[:159], 1), {kind: "hash"}, pv(k160, 2), pv(cat(k160[:159], b(0x5d)), 40), del(k160[:159]), del(k160)}},
		{"hashed leaf with partial key 30/31/32 (5-bit header field)", []op2{pv(cat(b(0x01), rep(0x33, 15)), 40), pv(cat(b(0x11), rep(0x33, 15)), 40), pv(cat(b(0x12), rep(0x33, 15)), 40), pv(cat(b(0x20), rep(0x33, 16)), 33)}},
		{"hashed branch value with partial key 14/15/16 (4-bit header field)", []op2{pv(rep(0x44, 8), 40), pv(cat(rep(0x44, 8), b(0x01)), 1), pv(cat(rep(0x44, 8), b(0x11)), 1),
			pv(cat(b(0x54), rep(0x44, 7)), 40), pv(cat(b(0x54), rep(0x44, 7), b(0x01)), 1), pv(cat(b(0x54), rep(0x44, 7), b(0x21)), 1),
			pv(cat(b(0x64), rep(0x44, 7), b(0x40)), 40), pv(cat(b(0x64), rep(0x44, 7), b(0x40, 0x01)), 1), pv(cat(b(0x64), rep(0x44, 7), b(0x40, 0x21)), 1)}},
		{"delete merges a branch into its remaining child (leaf and branch)", []op2{pv(b(0x12, 0x34), 1), pv(b(0x12, 0x35), 2), pv(b(0x12, 0x35, 0x01), 3), pv(b(0x12, 0x35, 0x02), 40), {kind: "hash"}, del(b(0x12, 0x34)), del(b(0x12, 0x35)), del(b(0x12, 0x35, 0x01))}},
		{"delete of a branch value that leaves one child", []op2{pv(b(0x12), 40), pv(b(0x12, 0x34), 40), {kind: "hash"}, {kind: "snap"}, del(b(0x12))}},
		{"branch with value loses all children", []op2{pv(b(0x12), 33), pv(b(0x12, 0x34), 1), pv(b(0x12, 0x50), 1), del(b(0x12, 0x34)), del(b(0x12, 0x50))}},
		{"inlined and hashed children side by side", []op2{pv(b(0x10), 1), pv(b(0x20), 1), pv(b(0x30), 31), pv(b(0x40), 64), pv(b(0x40, 0x01), 1)}},
		{"clear prefix then rebuild", []op2{pv(b(0x01, 0x01), 1), pv(b(0x01, 0x02), 2), pv(b(0x02), 3), {kind: "hash"}, {kind: "clear", key: b(0x01)}, pv(b(0x01, 0x01), 40), {kind: "clear", key: b()}, pv(b(0x09), 1)}},
		{"in-place changes after the nodes were written out (clean nodes, cached Merkle values)", []op2{pv(b(0x01), 40), pv(b(0x01, 0x02), 1), pv(b(0x03), 2), {kind: "flush"}, pv(b(0x01, 0x02), 2), {kind: "flush"}, del(b(0x03)), {kind: "flush"}, pv(b(0x01), 3), {kind: "flush"}, {kind: "snap"}, pv(b(0x01, 0x02), 40), del(b(0x01))}},
		{"overwrite with the same value after a hash", []op2{pv(b(0x01), 40), pv(b(0x02), 1), {kind: "hash"}, pv(b(0x01), 40), pv(b(0x02), 1)}},
	}
}

// ---------------------------------------------------------------------------

func TestVerifC01(t *testing.T) {
	r := vcommon.Start(t, "C01")
	defer r.Finish()
	r.Floor("branch_with_value", 100)
	r.Floor("inlined_child", 100)
	r.Floor("hashed_child", 100)
	r.Floor("merge_on_delete", 100)
	r.Floor("partial_key_ge_63_nibbles", 50)
	r.Floor("partial_key_ge_318_nibbles", 5)
	r.Floor("v1_value_len_32", 50)
	r.Floor("v1_value_len_33", 50)
	r.Floor("v0_value_len_33", 50)
	r.Floor("hashed_value_nodes", 100)
	r.Floor("hashed_branch_partial_ge_15", 3)
	r.Floor("hashed_leaf_partial_ge_31", 10)
	r.Floor("put_empty_key", 20)
	r.Floor("put_overwrite_same_value", 50)
	r.Floor("delete_absent", 50)
	r.Floor("second_history_checked", 100)
	r.Floor("layout_root_checked", 100)
	r.Floor("op_flush", 500)

	corpus := corpus1()
	// every script under both versions
	r.Fixed("corpus", 2*len(corpus), func(c *vcommon.Case) {
		if !specOK(c) {
			return
		}
		s := corpus[c.Idx/2]
		e := &env1{c: c, ver: c.Idx % 2, m: vcommon.NewOrdMap()}
		e.t = newTrie(e.ver)
		e.hist = append(e.hist, "# "+s.name)
		e.checkRoot("empty")
		for _, o := range s.ops {
			e.apply(o, true)
		}
		e.finish(c.R, false)
	})
	// the repository's own constant root, checked directly against the code (no model involved)
	r.Fixed("repo-constant", 2, func(c *vcommon.Case) {
		tr := newTrie(c.Idx)
		for i, v := range []string{"static", "even-keeled", "Future-proofed"} {
			_ = tr.Put(vcommon.CompactLen(uint64(i)), []byte(v))
		}
		h, err := tr.Hash()
		c.Eval(1)
		if err != nil || hex.EncodeToString(h[:]) != "d847b86d0219a384d11458e829e9f4f4cce7e3cc2e6dcd0e8a6ad6f12c64a737" {
			c.Violation("repo-constant", fmt.Sprintf("ordered root of the three test strings = %x err=%v", h[:], err), nil)
		}
	})

	r.Cases("hist", r.Scale(2500), func(c *vcommon.Case) {
		if !specOK(c) {
			return
		}
		pool := genPool1(c.R)
		e := &env1{c: c, ver: c.R.Intn(2), m: vcommon.NewOrdMap()}
		e.t = newTrie(e.ver)
		nops := c.R.Range(1, 60)
		if c.R.Chance(1, 5) {
			nops = c.R.Range(60, 200)
		}
		every := c.R.Range(1, 4) // the root is compared after every k-th mutation (stale caches show mid-history)
		for i := 0; i < nops && e.nviol == 0; i++ {
			e.apply(e.genOp(c.R, pool), i%every == 0)
		}
		e.finish(c.R, true)
	})
}
