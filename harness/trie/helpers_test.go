//go:build verif

// Package trie_test: runtime monitors for the in-memory state trie
// (C01 state root, C02 ordered-map behaviour, C03 snapshot isolation).
package trie_test

import (
	"bytes"
	"encoding/hex"
	"fmt"
	"sort"
	"strings"
	"sync"

	"github.com/ChainSafe/gossamer/internal/database"
	gtrie "github.com/ChainSafe/gossamer/pkg/trie"
	"github.com/ChainSafe/gossamer/pkg/trie/inmemory"
	"github.com/ChainSafe/gossamer/pkg/trie/node"
	"github.com/ChainSafe/gossamer/zz_verif/vcommon"
)

// ---------------------------------------------------------------------------
// validation of the reference model before use

var (
	specOnce sync.Once
	specErr  error
)

func hexEq(b []byte, h string) bool { return hex.EncodeToString(b) == h }

// specValidate runs vcommon.SpecSelfCheck and additionally compares the
// reference with constants that appear in the repository's own tests.
func specValidate() error {
	if err := vcommon.SpecSelfCheck(); err != nil {
		return err
	}
	// lib/runtime/wazero/imports_test.go Test_ext_trie_blake2_256_ordered_root_version_1/2:
	// values "static","even-keeled","Future-proofed" keyed by compact(index) -> 0xd847b8...
	m := vcommon.NewOrdMap()
	for i, v := range []string{"static", "even-keeled", "Future-proofed"} {
		m.Put(vcommon.CompactLen(uint64(i)), []byte(v))
	}
	for v := 0; v < 2; v++ {
		r := vcommon.SpecRoot(m, v)
		if !hexEq(r[:], "d847b86d0219a384d11458e829e9f4f4cce7e3cc2e6dcd0e8a6ad6f12c64a737") {
			return fmt.Errorf("spec validation: ordered root v%d = %x", v, r)
		}
	}
	// pkg/trie/inmemory/in_memory_test.go Test_Trie_Hash "leaf_root": partial key nibbles 1,2,3 value 0x01
	enc := append(vcommon.SpecHeader(0x40, 6, 3), vcommon.SpecPartial([]byte{1, 2, 3})...)
	enc = append(enc, vcommon.ScaleBytes([]byte{1})...)
	h := vcommon.Blake256(enc)
	if !hexEq(h[:], "a8137ceeb4adeaac9e5b37e28e7d6478acbab06e9076e467a1d8a2294e4ad9a3") {
		return fmt.Errorf("spec validation: leaf_root constant: %x", h)
	}
	// same test, "branch_root": partial 1,2,3 value "branch", child 0 = leaf{partial 9, value 0x01} (inlined 0x41090401)
	child := append(vcommon.SpecHeader(0x40, 6, 1), vcommon.SpecPartial([]byte{9})...)
	child = append(child, vcommon.ScaleBytes([]byte{1})...)
	if !hexEq(child, "41090401") {
		return fmt.Errorf("spec validation: inlined leaf constant: %x", child)
	}
	enc = append(vcommon.SpecHeader(0xC0, 6, 3), vcommon.SpecPartial([]byte{1, 2, 3})...)
	enc = append(enc, 0x01, 0x00)
	enc = append(enc, vcommon.ScaleBytes([]byte("branch"))...)
	enc = append(enc, vcommon.ScaleBytes(child)...)
	h = vcommon.Blake256(enc)
	if !hexEq(h[:], "aa7e5748b0274d18f51cfd364c4b564af5379dd7cbf58015f00ed3394821e3dd") {
		return fmt.Errorf("spec validation: branch_root constant: %x", h)
	}
	// pkg/trie/inmemory/proof/verify_test.go: leaf{partial 1, value 2} hashes to 0x60516d0b...
	enc = append(vcommon.SpecHeader(0x40, 6, 1), vcommon.SpecPartial([]byte{1})...)
	enc = append(enc, vcommon.ScaleBytes([]byte{2})...)
	h = vcommon.Blake256(enc)
	if !hexEq(h[:], "60516d0bb6e1bbfb1293f1b276ea9505e9f4a4e7d98f620d05115e0b85274ae1") {
		return fmt.Errorf("spec validation: small leaf constant: %x", h)
	}
	// the empty root constant the code itself exports
	e := vcommon.SpecRoot(vcommon.NewOrdMap(), 0)
	if !bytes.Equal(e[:], gtrie.EmptyHash[:]) {
		return fmt.Errorf("spec validation: empty root differs from trie.EmptyHash")
	}
	return nil
}

// specOK reports whether the reference model passed its validation; if not
// the case is inconclusive (never a violation).
func specOK(c *vcommon.Case) bool {
	specOnce.Do(func() { specErr = specValidate() })
	if specErr != nil {
		c.Inconclusive("reference model failed validation: " + specErr.Error())
		return false
	}
	return true
}

// ---------------------------------------------------------------------------
// the system under test

func layout(ver int) gtrie.TrieLayout {
	if ver == 1 {
		return gtrie.V1
	}
	return gtrie.V0
}

func newTrie(ver int) *inmemory.InMemoryTrie {
	t := inmemory.NewEmptyTrie()
	t.SetVersion(layout(ver))
	return t
}

// nullBatcher discards what WriteDirty writes. WriteDirty is what production
// does after every block (InmemoryStorageState.StoreTrie): besides writing it
// marks every node clean, so that from then on the cached Merkle values are
// trusted until a node is marked dirty again. Without it every in-memory node
// stays dirty for ever and Hash() recomputes everything.
type nullBatcher struct{ puts int }

type nullBatch struct{ b *nullBatcher }

func (b *nullBatcher) NewBatch() database.Batch { return nullBatch{b} }
func (n nullBatch) Put(k, v []byte) error       { n.b.puts++; return nil }
func (n nullBatch) Del(k []byte) error          { return nil }
func (n nullBatch) Flush() error                { return nil }
func (n nullBatch) Close() error                { return nil }
func (n nullBatch) ValueSize() int              { return 0 }
func (n nullBatch) Reset()                      {}

// flushTrie marks the nodes of t clean the way StoreTrie does.
func flushTrie(t *inmemory.InMemoryTrie) error { return t.WriteDirty(&nullBatcher{}) }

// entriesOf returns Entries() as sorted parallel slices.
func entriesOf(t *inmemory.InMemoryTrie) (ks, vs [][]byte) {
	e := t.Entries()
	sk := make([]string, 0, len(e))
	for k := range e {
		sk = append(sk, k)
	}
	sort.Strings(sk)
	for _, k := range sk {
		ks = append(ks, []byte(k))
		vs = append(vs, e[k])
	}
	return ks, vs
}

// mapFromEntries builds an OrdMap from Entries().
func mapFromEntries(t *inmemory.InMemoryTrie) *vcommon.OrdMap {
	m := vcommon.NewOrdMap()
	for k, v := range t.Entries() {
		m.Put([]byte(k), v)
	}
	return m
}

// entriesDiff compares Entries() with the model; "" when equal. A nil value
// for a listed key is reported (present keys must have a non-nil value).
func entriesDiff(t *inmemory.InMemoryTrie, m *vcommon.OrdMap) string {
	e := t.Entries()
	mk, mv := m.Entries()
	var d []string
	for i, k := range mk {
		v, ok := e[string(k)]
		switch {
		case !ok:
			d = append(d, "missing "+vcommon.Hex(k))
		case v == nil:
			d = append(d, "nil value at "+vcommon.Hex(k))
		case !bytes.Equal(v, mv[i]):
			d = append(d, fmt.Sprintf("value at %s = %s want %s", vcommon.Hex(k), vcommon.Hex(v), vcommon.Hex(mv[i])))
		}
	}
	if len(e) != len(mk) || len(d) > 0 {
		for k := range e {
			if _, ok := m.Get([]byte(k)); !ok {
				d = append(d, "extra "+vcommon.Hex([]byte(k)))
			}
		}
	}
	sort.Strings(d)
	if len(d) > 8 {
		d = append(d[:8], fmt.Sprintf("... %d more", len(d)-8))
	}
	return strings.Join(d, "; ")
}

func keysHex(ks [][]byte) []string {
	out := make([]string, len(ks))
	for i, k := range ks {
		out[i] = vcommon.Hex(k)
	}
	return out
}

func keysEqual(a, b [][]byte) bool {
	if len(a) != len(b) {
		return false
	}
	for i := range a {
		if !bytes.Equal(a[i], b[i]) {
			return false
		}
	}
	return true
}

func mapDump(m *vcommon.OrdMap) []string {
	ks, vs := m.Entries()
	out := make([]string, len(ks))
	for i := range ks {
		v := vcommon.Hex(vs[i])
		if len(vs[i]) > 6 {
			v = fmt.Sprintf("%s..(%dB)", vcommon.Hex(vs[i][:4]), len(vs[i]))
		}
		out[i] = vcommon.Hex(ks[i]) + "=" + v
	}
	return out
}

// ---------------------------------------------------------------------------
// structural observation (what the monitor saw inside the trie)

type shape struct {
	nodes, leaves, branches   int
	branchWithValue           int
	inlinedChild, hashedChild int
	partialGE63               int
	maxPartial                int
	hashedValueNodes          int
	hdr15, hdr31              int // hashed-value branch with partial >= 15 / hashed-value leaf with partial >= 31
	depth                     int
	sig                       strings.Builder
}

func rootNode(t *inmemory.InMemoryTrie) (n *node.Node) {
	defer func() {
		if recover() != nil {
			n = nil
		}
	}()
	return t.RootNode()
}

func (s *shape) walk(n *node.Node, depth int, root bool) {
	if n == nil {
		return
	}
	s.nodes++
	if depth > s.depth {
		s.depth = depth
	}
	pl := len(n.PartialKey)
	if pl >= 63 {
		s.partialGE63++
	}
	if pl > s.maxPartial {
		s.maxPartial = pl
	}
	if !root {
		if len(n.MerkleValue) > 0 && len(n.MerkleValue) < 32 {
			s.inlinedChild++
		} else if len(n.MerkleValue) == 32 {
			s.hashedChild++
		}
	}
	if n.MustBeHashed && n.StorageValue != nil {
		s.hashedValueNodes++
	}
	if n.Kind() == node.Leaf {
		s.leaves++
		if n.MustBeHashed && pl >= 31 {
			s.hdr31++
		}
		fmt.Fprintf(&s.sig, "L%d", pl)
		if n.MustBeHashed {
			s.sig.WriteByte('h')
		}
		return
	}
	s.branches++
	fmt.Fprintf(&s.sig, "B%d", pl)
	if n.StorageValue != nil {
		s.branchWithValue++
		s.sig.WriteByte('v')
		if n.MustBeHashed {
			s.sig.WriteByte('h')
			if pl >= 15 {
				s.hdr15++
			}
		}
	}
	s.sig.WriteByte('(')
	for i, ch := range n.Children {
		if ch == nil {
			continue
		}
		fmt.Fprintf(&s.sig, "%x:", i)
		s.walk(ch, depth+1, false)
	}
	s.sig.WriteByte(')')
}

// descendantsBroken walks the trie and returns a description of the first branch whose
// Descendants counter differs from the number of nodes below it ("" when all agree).
// Descendants is internal bookkeeping (not part of any property), but ClearPrefix uses
// "1 + Descendants == 0" as "nothing removed", so a wrong counter can surface later.
func descendantsBroken(n *node.Node) (count int, bad string) {
	if n == nil {
		return 0, ""
	}
	below := 0
	for _, ch := range n.Children {
		if ch == nil {
			continue
		}
		c, b := descendantsBroken(ch)
		if b != "" && bad == "" {
			bad = b
		}
		below += c
	}
	if n.Kind() == node.Branch && int64(n.Descendants) != int64(below) && bad == "" {
		bad = fmt.Sprintf("branch with partial key %x has Descendants=%d but %d nodes below it", n.PartialKey, n.Descendants, below)
	}
	return below + 1, bad
}

// shapeOf inspects the trie structure (call after Hash() so that Merkle values are cached).
func shapeOf(t *inmemory.InMemoryTrie) *shape {
	s := &shape{}
	s.walk(rootNode(t), 0, true)
	return s
}

func countShape(c *vcommon.Case, s *shape) {
	c.Count("branch_with_value", s.branchWithValue)
	c.Count("inlined_child", s.inlinedChild)
	c.Count("hashed_child", s.hashedChild)
	c.Count("partial_key_ge_63_nibbles", s.partialGE63)
	c.Count("hashed_value_nodes", s.hashedValueNodes)
	c.Count("hashed_branch_partial_ge_15", s.hdr15)
	c.Count("hashed_leaf_partial_ge_31", s.hdr31)
}

// ---------------------------------------------------------------------------
// nibble helpers for the known deviation C02-K1

// trimmedNibbles is the effective prefix the code matches with: the nibbles of p
// without one trailing zero nibble.
func trimmedNibbles(p []byte) []byte {
	n := vcommon.KeyToNibbles(p)
	if len(n) > 0 && n[len(n)-1] == 0 {
		n = n[:len(n)-1]
	}
	return n
}

// zeroLowNibble reports whether the prefix ends in a byte whose low nibble is zero.
func zeroLowNibble(p []byte) bool { return len(p) > 0 && p[len(p)-1]&0x0f == 0 }

// keysWithNibblePrefix returns the keys of m whose nibbles start with np (ascending).
func keysWithNibblePrefix(m *vcommon.OrdMap, np []byte) [][]byte {
	var out [][]byte
	for _, k := range m.Keys() {
		if bytes.HasPrefix(vcommon.KeyToNibbles(k), np) {
			out = append(out, k)
		}
	}
	return out
}
