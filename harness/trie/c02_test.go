//go:build verif

package trie_test

import (
	"bytes"
	"fmt"
	"math"
	"os"
	"runtime/debug"
	"sort"
	"testing"

	"github.com/ChainSafe/gossamer/pkg/trie/inmemory"
	"github.com/ChainSafe/gossamer/pkg/trie/node"
	"github.com/ChainSafe/gossamer/zz_verif/vcommon"
)

// C02: every result of put / delete / prefix clear (with and without limit) /
// get / next-key / key listing by prefix / entry listing equals that of an
// ordered map over byte-string keys (vcommon.OrdMap).

// ---------------------------------------------------------------------------
// scripted operations (fixed corpus and generated histories share the executor)

type op2 struct {
	kind  string // put del clear climit hash snap sweep
	key   []byte // key or prefix
	val   []byte
	limit uint32
}

func (o op2) String() string {
	switch o.kind {
	case "put":
		return fmt.Sprintf("put %s=%s", vcommon.Hex(o.key), vcommon.Hex(o.val))
	case "del":
		return "del " + vcommon.Hex(o.key)
	case "clear":
		return "clearprefix " + vcommon.Hex(o.key)
	case "climit":
		return fmt.Sprintf("clearprefixlimit %s limit=%d", vcommon.Hex(o.key), o.limit)
	case "sweep":
		return "limit-sweep " + vcommon.Hex(o.key)
	case "sweepf":
		return "limit-sweep-with-follow-ups " + vcommon.Hex(o.key)
	}
	return o.kind
}

type env2 struct {
	c        *vcommon.Case
	t        *inmemory.InMemoryTrie
	m        *vcommon.OrdMap
	ver      int
	hist     []string
	probes   [][]byte
	prefixes [][]byte
	lastSig  string
	nviol    int
	descBad  bool
	target   int // number of keys the generator tries to keep in the trie

	dead     bool          // a call panicked: the trie is not used any more
	rootOff  bool          // the spec-trie reference failed its validation: no root comparison
	rootBad  bool          // a root mismatch was already reported in this history
	unmerged bool          // diagnostic walker already counted in this history
	r        *vcommon.Rand // generator of follow-up operations (nil in scripted histories)
	keys     [][]byte      // keys the generator writes (follow-ups put removed keys back)
	trk      []*cutTrack   // partial limited clears of this history (coverage of what followed them)
	lastCut  *cutTrack     // set by the step that was a partial limited clear
	follow   *followCtx    // follow-up sequence in progress (generated histories)
}

func newEnv2(c *vcommon.Case, ver int, probes, prefixes [][]byte) *env2 {
	specOnce.Do(func() { specErr = specValidate() })
	e := &env2{c: c, t: newTrie(ver), m: vcommon.NewOrdMap(), ver: ver, probes: probes, prefixes: prefixes}
	if specErr != nil { // never a violation: the root comparison is switched off and counted
		e.rootOff = true
		c.Count("root_comparison_skipped_reference_failed_validation", 1)
	}
	if os.Getenv("VERIF_C02_NOROOT") != "" {
		// mutant validation only: shows what the operation sequences find on their own
		// (the floor root_of_observed_contents_compared then makes the run inconclusive at best)
		e.rootOff = true
	}
	return e
}

// guard runs f; a panic of the code under test is a violation that carries
// the operation history (the recorder's own recover only has the stack).
func (e *env2) guard(what string, f func()) (ok bool) {
	defer func() {
		if p := recover(); p != nil {
			st := string(debug.Stack())
			if len(st) > 3000 {
				st = st[:3000]
			}
			e.dead = true
			e.violation("panic", fmt.Sprintf("%s: panic: %v", what, p), e.witness(map[string]any{"op": what, "stack": st}))
			ok = false
		}
	}()
	f()
	return true
}

// checkRoot: Hash() must be the spec root of the contents the trie itself
// lists (not of the model: after a known-finding hit or a content violation
// the two differ, the structure must still be canonical). The root property
// is C01's; here a mismatch means a node that the ordered-map view cannot see
// (a branch that was not merged with its only child, a branch without value
// and children, a stale partial key) and that a later call can trip over.
// Without any map-level deviation in the same step the class is structure-root.
func (e *env2) checkRoot(o op2, nviolBefore int) {
	if e.rootOff || e.rootBad {
		return
	}
	e.c.Eval(1)
	got, err := e.t.Hash()
	if err != nil {
		e.violation("hash-error", o.String()+": Hash(): "+err.Error(), e.witness(nil))
		return
	}
	obs := mapFromEntries(e.t)
	want := vcommon.SpecRoot(obs, e.ver)
	e.c.Count("root_of_observed_contents_compared", 1)
	if bytes.Equal(got[:], want[:]) {
		return
	}
	e.rootBad = true
	if e.nviol != nviolBefore { // already reported at the map level in this step
		e.c.Count("note_root_mismatch_in_a_step_with_map_level_violation", 1)
		return
	}
	e.violation("structure-root", fmt.Sprintf("%s: every map-level observation agrees with the ordered map, but Hash()=%x while the spec root (V%d) of the listed contents is %x: the trie holds a non-canonical node",
		o, got[:], e.ver, want[:]), e.witness(map[string]any{"op": o.String(), "observed_entries": mapDump(obs), "shape": shapeOf(e.t).sig.String()}))
}

func (e *env2) violation(class, msg string, w map[string]any) {
	e.nviol++
	e.c.Violation(class, msg, w)
}

func (e *env2) witness(extra map[string]any) map[string]any {
	w := map[string]any{"version": e.ver, "ops": append([]string{}, e.hist...), "model_before_or_at": mapDump(e.m)}
	for k, v := range extra {
		w[k] = v
	}
	return w
}

// outcome of a mutating call under one reading of the rules
type cand struct {
	ids     []string // empty = the property (ordered map); otherwise the known findings whose deviations are switched on
	m       *vcommon.OrdMap
	deleted int
	all     bool
}

// settle compares the observed state (and, for a limited clear, the two
// return values) with the candidates in order. The first one that matches
// decides: candidate "" is a pass, a named candidate is that known finding,
// no match is a violation. The model continues from what was observed.
func (e *env2) settle(o op2, cands []cand, withRet bool, gotDeleted int, gotAll bool) {
	e.c.Eval(1)
	for _, cd := range cands {
		if entriesDiff(e.t, cd.m) != "" {
			continue
		}
		if withRet && (cd.deleted != gotDeleted || cd.all != gotAll) {
			continue
		}
		for _, id := range cd.ids {
			e.c.Known(id, fmt.Sprintf("%s: result is the ordered-map result with the deviation(s) %v", o, cd.ids),
				e.witness(map[string]any{"op": o.String(), "observed_entries": mapDump(mapFromEntries(e.t)),
					"observed_deleted": gotDeleted, "observed_all_deleted": gotAll,
					"ordered_map_entries": mapDump(cands[0].m), "ordered_map_deleted": cands[0].deleted, "ordered_map_all_deleted": cands[0].all}))
			e.c.Count("known_"+id, 1)
		}
		e.m = cd.m
		return
	}
	spec := cands[0]
	msg := fmt.Sprintf("%s: state differs from the ordered map: %s", o, entriesDiff(e.t, spec.m))
	class := "content-" + o.kind
	if withRet && entriesDiff(e.t, spec.m) == "" {
		class = "return-" + o.kind
		msg = fmt.Sprintf("%s returned (deleted=%d, allDeleted=%v), ordered map gives (%d, %v)", o, gotDeleted, gotAll, spec.deleted, spec.all)
	}
	e.violation(class, msg, e.witness(map[string]any{"op": o.String(), "observed_entries": mapDump(mapFromEntries(e.t)),
		"observed_deleted": gotDeleted, "observed_all_deleted": gotAll,
		"ordered_map_entries": mapDump(spec.m), "ordered_map_deleted": spec.deleted, "ordered_map_all_deleted": spec.all}))
	e.m = mapFromEntries(e.t)
}

// limitCands returns the ordered-map outcome of ClearPrefixLimit and the
// outcomes under the listed deviations (only those that differ).
func limitCands(m *vcommon.OrdMap, p []byte, limit uint32) []cand {
	lim := int(limit)
	if limit > math.MaxInt32 {
		lim = math.MaxInt32
	}
	sm := m.Clone()
	n, all := sm.ClearPrefixLimit(p, lim)
	out := []cand{{nil, sm, n, all}}
	out = append(out, deviationsLimit(m, p, lim)...)
	return out
}

// postOrderLess orders keys the way a depth-first walk that visits a node's
// children before the node's own value meets them: a key that is a prefix of
// another key comes AFTER it, otherwise byte-wise order (deviation C02-K3).
func postOrderLess(a, b []byte) bool {
	if bytes.HasPrefix(b, a) {
		return false // a is a prefix of b (or equal): b first
	}
	if bytes.HasPrefix(a, b) {
		return true
	}
	return bytes.Compare(a, b) < 0
}

// clearLimited removes the first lim keys of ks (in the given order) from a clone of m.
func clearLimited(m *vcommon.OrdMap, ks [][]byte, lim int) (*vcommon.OrdMap, int, bool) {
	dm := m.Clone()
	n := 0
	for _, k := range ks {
		if n >= lim {
			break
		}
		dm.Delete(k)
		n++
	}
	return dm, n, n == len(ks)
}

// deviationsLimit lists the outcomes of ClearPrefixLimit with the deviations of
// the open known findings switched on, from the smallest set of deviations to
// the largest (the first matching candidate attributes the observation).
//
//	C02-K1  the prefix is matched without its trailing zero nibble
//	C02-K2  limit 0 reports allDeleted=false whatever the trie holds
//	C02-K3  below a key that is a prefix of other keys, the longer keys are removed first
func deviationsLimit(m *vcommon.OrdMap, p []byte, lim int) []cand {
	var out []cand
	if lim == 0 {
		return []cand{{[]string{"C02-K2"}, m.Clone(), 0, false}}
	}
	spec := m.KeysWithPrefix(p)
	post := func(ks [][]byte) [][]byte {
		o := append([][]byte{}, ks...)
		sort.SliceStable(o, func(i, j int) bool { return postOrderLess(o[i], o[j]) })
		return o
	}
	var k1 [][]byte
	if zeroLowNibble(p) {
		k1 = keysWithNibblePrefix(m, trimmedNibbles(p))
		dm, n, all := clearLimited(m, k1, lim)
		out = append(out, cand{[]string{"C02-K1"}, dm, n, all})
	}
	dm, n, all := clearLimited(m, post(spec), lim)
	out = append(out, cand{[]string{"C02-K3"}, dm, n, all})
	if zeroLowNibble(p) {
		dm, n, all := clearLimited(m, post(k1), lim)
		out = append(out, cand{[]string{"C02-K1", "C02-K3"}, dm, n, all})
	}
	return out
}

func clearCands(m *vcommon.OrdMap, p []byte) []cand {
	sm := m.Clone()
	sm.ClearPrefix(p)
	out := []cand{{m: sm}}
	if zeroLowNibble(p) { // C02-K1
		dm := m.Clone()
		for _, k := range keysWithNibblePrefix(m, trimmedNibbles(p)) {
			dm.Delete(k)
		}
		out = append(out, cand{ids: []string{"C02-K1"}, m: dm})
	}
	return out
}

// classify counts which corner of the property an operation exercised.
func (e *env2) classify(o op2) {
	c := e.c
	c.Count("op_"+o.kind, 1)
	switch o.kind {
	case "put":
		if _, ok := e.m.Get(o.key); ok {
			c.Count("put_overwrite", 1)
		}
		if len(o.val) == 0 {
			c.Count("put_empty_value", 1)
		}
		if len(o.key) == 0 {
			c.Count("empty_key_ops", 1)
		}
	case "del":
		if _, ok := e.m.Get(o.key); !ok {
			c.Count("delete_absent", 1)
		}
		if len(o.key) == 0 {
			c.Count("empty_key_ops", 1)
		}
	case "clear", "climit", "sweep", "sweepf":
		match := e.m.KeysWithPrefix(o.key)
		if zeroLowNibble(o.key) {
			c.Count("prefix_zero_low_nibble", 1)
			if len(keysWithNibblePrefix(e.m, trimmedNibbles(o.key))) != len(match) {
				c.Count("prefix_zero_low_nibble_distinguishing", 1)
			}
		}
		if len(o.key) == 0 {
			c.Count("prefix_empty", 1)
		}
		if len(match) == 0 {
			c.Count("prefix_matches_nothing", 1)
		}
		if _, ok := e.m.Get(o.key); ok {
			c.Count("prefix_is_a_key", 1)
		}
		if o.kind == "climit" {
			switch {
			case o.limit == 0:
				c.Count("limit_zero", 1)
			case int64(o.limit) < int64(len(match)):
				c.Count("limit_below_matching", 1)
				// a matching key that is a prefix of another matching key = a branch value versus its children
				for i := 0; i+1 < len(match) && i < int(o.limit)+1; i++ {
					if bytes.HasPrefix(match[i+1], match[i]) {
						c.Count("limit_cuts_branch_value_vs_children", 1)
						break
					}
				}
			case int64(o.limit) == int64(len(match)):
				c.Count("limit_equals_matching", 1)
			default:
				c.Count("limit_above_matching", 1)
			}
		}
	}
}

// exec performs the call of o on the trie and settles its outcome against the
// model. It reports whether the observable state has to be compared next.
func (e *env2) exec(o op2) (observe bool) {
	switch o.kind {
	case "put":
		if err := e.t.Put(o.key, o.val); err != nil {
			e.violation("error", o.String()+": "+err.Error(), e.witness(nil))
			return false
		}
		sm := e.m.Clone()
		sm.Put(o.key, o.val)
		e.settle(o, []cand{{m: sm}}, false, 0, false)
	case "del":
		if err := e.t.Delete(o.key); err != nil {
			e.violation("error", o.String()+": "+err.Error(), e.witness(nil))
			return false
		}
		sm := e.m.Clone()
		sm.Delete(o.key)
		e.settle(o, []cand{{m: sm}}, false, 0, false)
	case "clear":
		if err := e.t.ClearPrefix(o.key); err != nil {
			e.violation("error", o.String()+": "+err.Error(), e.witness(nil))
			return false
		}
		e.settle(o, clearCands(e.m, o.key), false, 0, false)
	case "climit":
		cands := limitCands(e.m, o.key, o.limit)
		d, all, err := e.t.ClearPrefixLimit(o.key, o.limit)
		if err != nil {
			e.violation("error", o.String()+": "+err.Error(), e.witness(nil))
			return false
		}
		e.settle(o, cands, true, int(d), all)
	case "reads": // no call: the whole observable state is compared once more
	case "hash":
		_, _ = e.t.Hash() // fills the Merkle value caches, later mutations start from clean nodes
		return false
	case "snap":
		e.t = e.t.Snapshot() // continue on a snapshot: later mutations take the copy-on-write paths
		return false
	case "flush":
		_ = flushTrie(e.t) // nodes become clean (what StoreTrie does after a block)
		return false
	case "sweep":
		e.sweep(o.key, false)
		return false
	case "sweepf":
		e.sweep(o.key, true)
		return false
	}
	return true
}

func (e *env2) apply(o op2) {
	if e.dead {
		return
	}
	nv := e.nviol
	before := e.m // exec replaces e.m by a new map, this one stays as it is
	e.lastCut = nil
	e.classify(o)
	e.hist = append(e.hist, o.String())
	observe := false
	if !e.guard(o.String(), func() { observe = e.exec(o) }) || !observe {
		return
	}
	if !e.guard("reads after "+o.String(), e.checkReads) {
		return
	}
	if !e.guard("Hash() after "+o.String(), func() { e.checkRoot(o, nv) }) {
		return
	}
	e.track(o, before)
	root := rootNode(e.t)
	if _, bad := descendantsBroken(root); bad != "" && !e.descBad {
		e.descBad = true
		e.c.Count("internal_descendants_counter_wrong_after_op_"+o.kind, 1)
		if os.Getenv("VERIF_TRIE_DEBUG") != "" {
			fmt.Fprintf(os.Stderr, "DESC %s after %v\n", bad, e.hist)
		}
	}
	if bad := nonCanonicalBranch(root); bad != "" && !e.unmerged {
		// diagnostic only (the verdict comes from the root comparison and from later calls)
		e.unmerged = true
		e.c.Count("internal_non_canonical_branch_after_op_"+o.kind, 1)
		if os.Getenv("VERIF_TRIE_DEBUG") != "" {
			fmt.Fprintf(os.Stderr, "SHAPE %s after %v\n", bad, e.hist)
		}
	}
	s := shapeOf(e.t)
	e.lastSig = s.sig.String()
	e.c.Distinct(o.kind + "|" + e.lastSig)
}

// nonCanonicalBranch describes the first branch that has no value and fewer
// than two children ("" when there is none). Such a node is invisible to every
// read but changes the root, and a childless one makes deleteNodesLimit panic.
func nonCanonicalBranch(n *node.Node) string {
	if n == nil || n.Kind() != node.Branch {
		return ""
	}
	k := 0
	for _, ch := range n.Children {
		if ch != nil {
			k++
		}
	}
	if n.StorageValue == nil && k < 2 {
		return fmt.Sprintf("branch with partial key %x has no value and %d children", n.PartialKey, k)
	}
	for _, ch := range n.Children {
		if b := nonCanonicalBranch(ch); b != "" {
			return b
		}
	}
	return ""
}

// sweep applies ClearPrefixLimit with EVERY limit 0..matching+1 (and MaxUint32)
// to copies of the current state, so all limits see the same trie. With
// follow set, every limit that leaves some but not all matching keys is
// continued by a follow-up sequence on the same sub-trie (see genFollow), on a
// snapshot or on a fresh trie holding the same entries.
func (e *env2) sweep(p []byte, follow bool) {
	n := len(e.m.KeysWithPrefix(p))
	if zeroLowNibble(p) {
		if k := len(keysWithNibblePrefix(e.m, trimmedNibbles(p))); k > n {
			n = k
		}
	}
	var limits []uint32
	if follow {
		for l := 1; l < n; l++ {
			limits = append(limits, uint32(l))
		}
		for len(limits) > 10 { // large families: a random subset of the limits
			i := e.r.Intn(len(limits))
			limits = append(limits[:i], limits[i+1:]...)
		}
	} else {
		limits = []uint32{math.MaxUint32}
		for l := 0; l <= n+1; l++ {
			limits = append(limits, uint32(l))
		}
	}
	saveT, saveM, saveHist, saveTrk, saveFollow := e.t, e.m, e.hist, e.trk, e.follow
	saveRootBad, saveDesc, saveUnm := e.rootBad, e.descBad, e.unmerged
	for _, l := range limits {
		if e.dead {
			break
		}
		e.m = saveM.Clone()
		e.trk = cloneTracks(saveTrk)
		e.follow = nil
		if follow && e.r.Chance(2, 5) {
			// a fresh trie with the same entries: nodes of the current generation, no copy-on-write
			e.t = newTrie(e.ver)
			ks, vs := saveM.Entries()
			order := e.r.Perm(len(ks))
			var desc []string
			for _, i := range order {
				_ = e.t.Put(ks[i], vs[i])
				desc = append(desc, vcommon.Hex(ks[i]))
			}
			e.hist = append(append([]string{}, saveHist...), fmt.Sprintf("fresh trie (V%d) holding the same entries, put in the order %v", e.ver, desc))
			e.c.Count("follow_on_fresh_trie", 1)
		} else {
			e.t = saveT.Snapshot()
			e.hist = append(append([]string{}, saveHist...), "snapshot")
		}
		o := op2{kind: "climit", key: p, limit: l}
		if !follow {
			// (kept as it was: the return values and the content decide; no reads)
			e.classify(o)
			e.hist = append(e.hist, o.String())
			nv := e.nviol
			cands := limitCands(e.m, p, l)
			e.guard(o.String(), func() {
				d, all, err := e.t.ClearPrefixLimit(p, l)
				if err != nil {
					e.violation("error", o.String()+": "+err.Error(), e.witness(nil))
					return
				}
				e.settle(o, cands, true, int(d), all)
				e.checkRoot(o, nv)
			})
			e.c.Count("sweep_limits", 1)
			continue
		}
		e.apply(o)
		e.c.Count("sweep_follow_limits", 1)
		f := e.newFollow(p, e.lastCut)
		for f.left > 0 && !e.dead && e.nviol == 0 {
			e.apply(e.genFollow(f))
		}
	}
	e.t, e.m, e.hist, e.trk, e.follow = saveT, saveM, saveHist, saveTrk, saveFollow
	if !e.dead {
		e.rootBad, e.descBad, e.unmerged = saveRootBad, saveDesc, saveUnm
	}
}

func nibblesToKey(n []byte) ([]byte, bool) {
	if len(n)%2 != 0 {
		return nil, false
	}
	out := make([]byte, len(n)/2)
	for i := range out {
		out[i] = n[2*i]<<4 | n[2*i+1]&0x0f
	}
	return out, true
}

// checkReads compares the whole observable state with the model.
func (e *env2) checkReads() {
	c, t, m := e.c, e.t, e.m
	// Get over present and absent keys
	for _, k := range e.probes {
		c.Eval(1)
		got := t.Get(k)
		want, ok := m.Get(k)
		switch {
		case ok && (got == nil || !bytes.Equal(got, want)):
			e.violation("get", fmt.Sprintf("Get(%s)=%s, ordered map has %s", vcommon.Hex(k), vcommon.Hex(got), vcommon.Hex(want)),
				e.witness(map[string]any{"key": vcommon.Hex(k)}))
		case !ok && got != nil:
			e.violation("get-absent", fmt.Sprintf("Get(%s)=%s but the key is not in the ordered map", vcommon.Hex(k), vcommon.Hex(got)),
				e.witness(map[string]any{"key": vcommon.Hex(k)}))
		}
		if ok {
			c.Count("get_present", 1)
		} else {
			c.Count("get_absent", 1)
		}
	}
	// NextKey: smallest strictly greater key
	for _, k := range e.probes {
		c.Eval(1)
		got := t.NextKey(k)
		want, ok := m.NextKey(k)
		if (ok && (got == nil || !bytes.Equal(got, want))) || (!ok && got != nil) {
			w := "none"
			if ok {
				w = vcommon.Hex(want)
			}
			e.violation("nextkey", fmt.Sprintf("NextKey(%s)=%s, ordered map gives %s", vcommon.Hex(k), vcommon.Hex(got), w),
				e.witness(map[string]any{"key": vcommon.Hex(k)}))
		}
		if !ok {
			c.Count("nextkey_none", 1)
		}
		if _, present := m.Get(k); !present {
			c.Count("nextkey_of_absent_key", 1)
		}
	}
	// key listing by prefix (ascending, byte-wise prefix)
	for _, p := range e.prefixes {
		c.Eval(1)
		got := t.GetKeysWithPrefix(p)
		want := m.KeysWithPrefix(p)
		if keysEqual(got, want) {
			continue
		}
		if zeroLowNibble(p) && keysEqual(got, keysWithNibblePrefix(m, trimmedNibbles(p))) {
			c.Known("C02-K1", fmt.Sprintf("GetKeysWithPrefix(%s) lists keys by the prefix without its trailing zero nibble", vcommon.Hex(p)),
				e.witness(map[string]any{"prefix": vcommon.Hex(p), "observed": keysHex(got), "ordered_map": keysHex(want)}))
			c.Count("known_C02-K1", 1)
			continue
		}
		e.violation("keys-with-prefix", fmt.Sprintf("GetKeysWithPrefix(%s)=%v, ordered map gives %v", vcommon.Hex(p), keysHex(got), keysHex(want)),
			e.witness(map[string]any{"prefix": vcommon.Hex(p)}))
	}
	for _, p := range e.prefixes {
		if zeroLowNibble(p) {
			c.Count("listing_prefix_zero_low_nibble", 1)
		}
	}
	// entry listing: the map ...
	c.Eval(1)
	if d := entriesDiff(t, m); d != "" {
		e.violation("entries", "Entries() differs from the ordered map: "+d, e.witness(nil))
	}
	// ... and the iterator, which must enumerate in ascending key order
	c.Eval(1)
	it := t.Iter()
	var ik, iv [][]byte
	for i := 0; i <= m.Len()+1; i++ {
		en := it.NextEntry()
		if en == nil {
			break
		}
		k, ok := nibblesToKey(en.Key)
		if !ok {
			e.violation("iterator", fmt.Sprintf("iterator returned a key with an odd number of nibbles: %x", en.Key), e.witness(nil))
			return
		}
		ik = append(ik, k)
		iv = append(iv, en.Value)
	}
	mk, mv := m.Entries()
	if !keysEqual(ik, mk) {
		e.violation("iterator", fmt.Sprintf("iterator enumerates %v, ordered map has %v", keysHex(ik), keysHex(mk)), e.witness(nil))
	} else if !keysEqual(iv, mv) {
		e.violation("iterator", "iterator values differ from the ordered map", e.witness(nil))
	}
}

// ---------------------------------------------------------------------------
// generation

var nibbleSets = [][]byte{{0, 1}, {0, 1}, {0, 0xf}, {0, 1, 0xf}, {0, 1, 0xf}, {1, 2}, {0, 5, 0xa}, {0, 1, 2, 3}}

type universe struct {
	abc      []byte   // byte alphabet
	keys     [][]byte // keys that get written
	probes   [][]byte // keys read after every mutation (present and absent)
	prefixes [][]byte
	cuts     [][]byte // group postlimit: prefixes the limited clears cut at
	inner    [][]byte // group postlimit: positions of the inner branches (a key or not)
}

func randKey(r *vcommon.Rand, abc []byte, maxLen int) []byte {
	n := 0
	switch x := r.Intn(20); {
	case x < 1:
		n = 0
	case x < 5:
		n = 1
	case x < 13:
		n = 2
	case x < 19:
		n = 3
	default:
		n = 4
	}
	if n > maxLen {
		n = maxLen
	}
	k := make([]byte, n)
	for i := range k {
		k[i] = vcommon.Pick(r, abc)
	}
	return k
}

func addUniq(set map[string]bool, list *[][]byte, k []byte) {
	if !set[string(k)] {
		set[string(k)] = true
		*list = append(*list, append([]byte{}, k...))
	}
}

func genUniverse(r *vcommon.Rand) *universe {
	ns := vcommon.Pick(r, nibbleSets)
	u := &universe{}
	for _, a := range ns {
		for _, b := range ns {
			u.abc = append(u.abc, a<<4|b)
		}
	}
	nkeys := r.Range(3, 24)
	seen := map[string]bool{}
	if r.Chance(1, 2) {
		addUniq(seen, &u.keys, []byte{})
	}
	if r.Chance(1, 3) { // the DESIGN's named corner: 0x10 vs 0x1f vs 0x1000
		for _, k := range [][]byte{{0x10}, {0x1f}, {0x10, 0x00}, {0x11}} {
			addUniq(seen, &u.keys, k)
		}
	}
	for tries := 0; len(u.keys) < nkeys && tries < 200; tries++ {
		k := randKey(r, u.abc, 4)
		if len(u.keys) > 0 && r.Chance(1, 3) { // extend an existing key: keys that are prefixes of others
			base := vcommon.Pick(r, u.keys)
			if len(base) < 4 {
				k = append(append([]byte{}, base...), vcommon.Pick(r, u.abc))
			}
		}
		addUniq(seen, &u.keys, k)
	}
	// probes: every written key, every string of length <= 2 over the alphabet (capped), some neighbours
	ps := map[string]bool{}
	for _, k := range u.keys {
		addUniq(ps, &u.probes, k)
	}
	addUniq(ps, &u.probes, []byte{})
	for _, a := range u.abc {
		addUniq(ps, &u.probes, []byte{a})
	}
	for _, a := range u.abc {
		for _, b := range u.abc {
			if len(u.probes) < 70 {
				addUniq(ps, &u.probes, []byte{a, b})
			}
		}
	}
	for i := 0; i < 10; i++ {
		k := append([]byte{}, vcommon.Pick(r, u.keys)...)
		if len(k) > 0 && r.Bool() {
			k[len(k)-1] ^= byte(1 << r.Intn(8)) // near miss: leaves a partial key in the middle
		} else {
			k = append(k, byte(r.Intn(256)))
		}
		addUniq(ps, &u.probes, k)
	}
	// prefixes: empty, every byte, pairs (capped), written keys, keys cut short, non-existent
	fs := map[string]bool{}
	addUniq(fs, &u.prefixes, []byte{})
	for _, a := range u.abc {
		addUniq(fs, &u.prefixes, []byte{a})
	}
	for _, a := range u.abc {
		for _, b := range u.abc {
			if len(u.prefixes) < 26 {
				addUniq(fs, &u.prefixes, []byte{a, b})
			}
		}
	}
	for i := 0; i < 8; i++ {
		k := vcommon.Pick(r, u.keys)
		addUniq(fs, &u.prefixes, k)
		if len(k) > 1 {
			addUniq(fs, &u.prefixes, k[:len(k)-1])
		}
	}
	// nibble-level corner: prefix whose last byte is x0 for every high nibble in use
	for _, a := range ns {
		addUniq(fs, &u.prefixes, []byte{a << 4})
		if len(u.keys) > 0 {
			k := vcommon.Pick(r, u.keys)
			addUniq(fs, &u.prefixes, append(append([]byte{}, k...), a<<4))
		}
	}
	return u
}

func genValue(r *vcommon.Rand, ver int) []byte {
	switch x := r.Intn(40); {
	case x < 1:
		return []byte{}
	case x < 2:
		return nil
	case x < 30:
		return r.Bytes(r.Range(1, 3))
	case x < 33:
		return r.Bytes(32)
	case x < 37:
		return r.Bytes(33)
	default:
		return r.Bytes(r.Range(4, 70))
	}
}

func (e *env2) genOp(r *vcommon.Rand, u *universe) op2 {
	pickPrefix := func() []byte {
		if r.Chance(1, 6) && e.m.Len() > 0 { // exactly a present key
			return vcommon.Pick(r, e.m.Keys())
		}
		if r.Chance(2, 5) && e.m.Len() > 0 { // a present key cut short: matches at least that key
			k := vcommon.Pick(r, e.m.Keys())
			return append([]byte{}, k[:r.Range(0, len(k))]...)
		}
		if r.Chance(1, 3) { // bias to the zero-low-nibble corner
			var z [][]byte
			for _, p := range u.prefixes {
				if zeroLowNibble(p) {
					z = append(z, p)
				}
			}
			if len(z) > 0 {
				return vcommon.Pick(r, z)
			}
		}
		return vcommon.Pick(r, u.prefixes)
	}
	if f := e.follow; f != nil { // a partial limited clear is being followed up on its own sub-trie
		if f.left > 0 {
			return e.genFollow(f)
		}
		e.follow = nil
	}
	x := r.Intn(100)
	if e.m.Len() < e.target && r.Chance(3, 5) { // keep the trie populated: most clears must have something to bite on
		x = 0
	}
	switch {
	case x < 45:
		return op2{kind: "put", key: vcommon.Pick(r, u.keys), val: genValue(r, e.ver)}
	case x < 58:
		if r.Chance(1, 5) {
			return op2{kind: "del", key: vcommon.Pick(r, u.probes)} // mostly absent
		}
		if e.m.Len() > 0 && r.Chance(2, 3) {
			return op2{kind: "del", key: vcommon.Pick(r, e.m.Keys())}
		}
		return op2{kind: "del", key: vcommon.Pick(r, u.keys)}
	case x < 64:
		return op2{kind: "clear", key: pickPrefix()}
	case x < 84:
		p := pickPrefix()
		n := len(e.m.KeysWithPrefix(p))
		lim := uint32(r.Range(0, n+1))
		if r.Chance(1, 25) {
			lim = math.MaxUint32
		}
		return op2{kind: "climit", key: p, limit: lim}
	case x < 88:
		return op2{kind: "sweep", key: pickPrefix()}
	case x < 90:
		return op2{kind: "sweepf", key: pickPrefix()}
	case x < 93:
		return op2{kind: "hash"}
	case x < 96:
		return op2{kind: "flush"}
	default:
		return op2{kind: "snap"}
	}
}

// ---------------------------------------------------------------------------
// fixed regression corpus: minimal witnesses of every defect found in this area

type script2 struct {
	name   string
	ver    int
	ops    []op2
	probes [][]byte
	prefix [][]byte
}

func b(x ...byte) []byte { return x }

func put(k []byte, v ...byte) op2 { return op2{kind: "put", key: k, val: v} }

func corpus2() []script2 {
	long := bytes.Repeat([]byte{0xab}, 40)
	return []script2{
		{name: "get leaves the branch partial key (fixed 4c4b36a69): Get(0x125a) returned the value of 0x12345a",
			ops:    []op2{put(b(0x12, 0x34, 0x5a), 1), put(b(0x12, 0x34, 0x6b), 2)},
			probes: [][]byte{b(0x12, 0x5a), b(0x12, 0x6b), b(0x12), b(0x12, 0x34), b(0x13, 0x34, 0x5a), b(0x12, 0x35, 0x5a), b(0x12, 0x34, 0x5a)}},
		{name: "get of the empty key returned the root branch value (fixed 19b5c2bd0)",
			ops:    []op2{put(b(0x12), 1), put(b(0x12, 0x34), 2), put(b(0x12, 0x56), 3)},
			probes: [][]byte{b(), b(0x12), b(0x01)}},
		{name: "get of a key ending at a child position returned the child branch value (fixed 19b5c2bd0): Get(0x12) vs 0x1234",
			ops:    []op2{put(b(0x12, 0x34), 1), put(b(0x12, 0x34, 0x56), 2), put(b(0x15), 3)},
			probes: [][]byte{b(0x12), b(0x12, 0x34), b(0x1f), b()}},
		{name: "delete leaves the branch partial key (fixed a6d7853b3): Delete(0x125a) removed 0x12345a",
			ops:    []op2{put(b(0x12, 0x34, 0x5a), 1), put(b(0x12, 0x34, 0x6b), 2), {kind: "del", key: b(0x12, 0x5a)}, {kind: "del", key: b(0x12, 0x6b)}, {kind: "del", key: b(0x12)}},
			probes: [][]byte{b(0x12, 0x34, 0x5a), b(0x12, 0x34, 0x6b)}},
		{name: "delete of the empty key emptied a single-leaf trie (fixed d684991e5)",
			ops:    []op2{put(b(0xe3), 1), {kind: "del", key: b()}},
			probes: [][]byte{b(0xe3), b()}},
		{name: "delete of a key ending at a leaf position removed the longer key (fixed d684991e5): Delete(0x1235) vs 0x123567",
			ops:    []op2{put(b(0x12, 0x34), 1), put(b(0x12, 0x35, 0x67), 2), {kind: "del", key: b(0x12, 0x35)}, {kind: "del", key: b(0x12)}},
			probes: [][]byte{b(0x12, 0x35, 0x67), b(0x12, 0x34)}},
		{name: "delete of the empty key removed the root branch value (fixed d684991e5)",
			ops:    []op2{put(b(0x12), 1), put(b(0x12, 0x34), 2), put(b(0x12, 0x56), 3), {kind: "del", key: b()}},
			probes: [][]byte{b(0x12), b()}},
		{name: "GetKeysWithPrefix leaves the branch partial key (fixed e9f13a3fd): panic on 0x1235, wrong key for 0x12355a",
			ops:    []op2{put(b(0x12, 0x34, 0x5a), 1), put(b(0x12, 0x34, 0x6b), 2)},
			prefix: [][]byte{b(0x12, 0x35), b(0x12, 0x35, 0x5a), b(0x12, 0x34), b(0x12), b(0x13), b(0x12, 0x34, 0x5a, 0x00)}},
		{name: "prefix ending in a zero nibble (C02-K1): 0x10 must not match 0x1f",
			ops: []op2{put(b(0x10), 1), put(b(0x1f), 2), put(b(0x10, 0x00), 3), put(b(0x11), 4),
				{kind: "sweep", key: b(0x10)}, {kind: "climit", key: b(0x10), limit: 5}},
			prefix: [][]byte{b(0x10), b(0x10, 0x00), b(0x1f), b(0x00)}},
		{name: "prefix ending in a zero nibble (C02-K1): ClearPrefix(0x10)",
			ops:    []op2{put(b(0x10), 1), put(b(0x1f), 2), put(b(0x10, 0x00), 3), {kind: "clear", key: b(0x10)}},
			prefix: [][]byte{b(0x10), b(0x1f)}},
		{name: "limited clear: a key versus the longer keys below it, every limit",
			ops: []op2{put(b(0x12), 1), put(b(0x12, 0x34), 2), put(b(0x12, 0x35), 3), put(b(0x12, 0x34, 0x56), 4), put(b(0x13), 5),
				{kind: "sweep", key: b(0x12)}, {kind: "sweep", key: b()}, {kind: "sweep", key: b(0x12, 0x34)}, {kind: "sweep", key: b(0x77)},
				{kind: "climit", key: b(0x12), limit: 1}},
			prefix: [][]byte{b(0x12)}},
		{name: "limited clears miscounted removed nodes, a later ClearPrefix(0x11) removed nothing (fixed, Descendants underflow)",
			ops: []op2{put(b(0x00), 1), put(b(0x11), 1), put(b(0x11, 0x22, 0x10), 1), put(b(0x11, 0x22, 0x20), 1), put(b(0x11, 0x22, 0x21), 1),
				put(b(0x11, 0x33, 0x10), 1), put(b(0x11, 0x33, 0x20), 1), put(b(0x11, 0x33, 0x21), 1),
				{kind: "climit", key: b(0x11, 0x22), limit: 2}, {kind: "climit", key: b(0x11, 0x33), limit: 2},
				{kind: "del", key: b(0x11, 0x22, 0x21)}, {kind: "clear", key: b(0x11)}},
			prefix: [][]byte{b(0x11)}},
		{name: "limited clear stops inside a nested branch after a sibling leaf went (merge of the outer branch must not be skipped); delete of the last key below it; limited clear again (seeded change: panic 'got branch with all nil children')",
			ops: []op2{put(b(0x12, 0x11), 1), put(b(0x12, 0x21), 2), put(b(0x12, 0x22), 3),
				{kind: "climit", key: b(0x12), limit: 2}, {kind: "del", key: b(0x12, 0x22)}, {kind: "climit", key: b(0x12), limit: 1}, {kind: "climit", key: b(), limit: 1}},
			probes: [][]byte{b(0x12), b(0x12, 0x23)}, prefix: [][]byte{b(0x12, 0x20), b(0x12, 0x10)}},
		{name: "same below a non-root branch with a value on the parent, second clear over the parent prefix must return (1,true)",
			ops: []op2{put(b(0x12), 9), put(b(0x12, 0x34, 0x11), 1), put(b(0x12, 0x34, 0x21), 2), put(b(0x12, 0x34, 0x22), 3), put(b(0x12, 0x34, 0x23), 4), put(b(0x30), 5),
				{kind: "climit", key: b(0x12, 0x34), limit: 2}, {kind: "del", key: b(0x12, 0x34, 0x23)}, {kind: "del", key: b(0x12, 0x34, 0x22)},
				{kind: "climit", key: b(0x12, 0x34), limit: 2}, {kind: "climit", key: b(0x12), limit: 3}, {kind: "climit", key: b(), limit: 1}},
			probes: [][]byte{b(0x12, 0x34)}, prefix: [][]byte{b(0x12, 0x34, 0x20), b(0x12, 0x30)}},
		{name: "same, the sub-trie is put back after the delete and cleared with a limit again",
			ops: []op2{put(b(0x12, 0x11), 1), put(b(0x12, 0x21), 2), put(b(0x12, 0x22), 3), put(b(0x12, 0x22, 0x05), 4),
				{kind: "climit", key: b(0x12), limit: 2}, {kind: "del", key: b(0x12, 0x22)}, {kind: "del", key: b(0x12, 0x22, 0x05)},
				put(b(0x12, 0x21), 6), {kind: "climit", key: b(0x12, 0x20), limit: 1}, {kind: "climit", key: b(0x12), limit: 1}, {kind: "clear", key: b(0x12)}},
			prefix: [][]byte{b(0x12, 0x20)}},
		{name: "limited clear with limit 0 and nothing matching",
			ops: []op2{put(b(0x12), 1), {kind: "climit", key: b(0x55), limit: 0}, {kind: "climit", key: b(0x12), limit: 0}}},
		{name: "hashed values (V1) through every call",
			ver: 1,
			ops: []op2{{kind: "put", key: b(0x01), val: long}, {kind: "put", key: b(0x01, 0x02), val: long}, {kind: "put", key: b(0x01, 0x03), val: long[:33]},
				{kind: "hash"}, {kind: "snap"}, {kind: "put", key: b(0x01), val: long[:32]}, {kind: "climit", key: b(0x01), limit: 2}},
			probes: [][]byte{b(0x01), b(0x01, 0x02), b(0x01, 0x03)}},
		{name: "empty value is a present key",
			ops:    []op2{put(b(0x01)), {kind: "put", key: b(0x02), val: nil}, put(b(0x01, 0x02)), {kind: "del", key: b(0x01)}},
			probes: [][]byte{b(0x01), b(0x02), b(0x01, 0x02)}},
	}
}

func runScript2(c *vcommon.Case, s script2) {
	probes := append([][]byte{{}}, s.probes...)
	prefixes := append([][]byte{{}}, s.prefix...)
	seen := map[string]bool{}
	for _, o := range s.ops {
		if o.key != nil && !seen[string(o.key)] {
			seen[string(o.key)] = true
			probes = append(probes, o.key)
			prefixes = append(prefixes, o.key)
		}
	}
	e := newEnv2(c, s.ver, probes, prefixes)
	e.hist = append(e.hist, "# "+s.name)
	e.checkReads()
	for _, o := range s.ops {
		e.apply(o)
	}
	c.Sample(map[string]any{"script": s.name, "ops": len(s.ops), "final": mapDump(e.m)})
}

// ---------------------------------------------------------------------------

func TestVerifC02(t *testing.T) {
	r := vcommon.Start(t, "C02")
	defer r.Finish()
	r.Floor("prefix_zero_low_nibble", 200)
	r.Floor("prefix_zero_low_nibble_distinguishing", 20)
	r.Floor("listing_prefix_zero_low_nibble", 1000)
	r.Floor("limit_zero", 50)
	r.Floor("limit_below_matching", 50)
	r.Floor("limit_equals_matching", 50)
	r.Floor("limit_above_matching", 50)
	r.Floor("limit_cuts_branch_value_vs_children", 20)
	r.Floor("prefix_is_a_key", 50)
	r.Floor("prefix_matches_nothing", 50)
	r.Floor("prefix_empty", 20)
	r.Floor("empty_key_ops", 20)
	r.Floor("nextkey_of_absent_key", 1000)
	r.Floor("get_absent", 1000)
	r.Floor("sweep_limits", 200)
	r.Floor("root_of_observed_contents_compared", 10000)
	r.Floor("limited_clear_stops_inside_nested_branch", 1000)
	r.Floor("limited_clear_stops_inside_nested_branch_after_whole_sibling_removed", 500)
	r.Floor("limited_clear_stops_two_or_more_levels_below_the_prefix", 200)
	r.Floor("sequence_continued_3_ops_after_partial_limited_clear", 1000)
	r.Floor("delete_empties_subtrie_hit_by_limited_clear", 300)
	r.Floor("delete_empties_prefix_hit_by_limited_clear", 100)
	r.Floor("second_limited_clear_same_prefix", 500)
	r.Floor("second_limited_clear_parent_prefix", 100)
	r.Floor("limited_clear_over_prefix_emptied_by_deletes_after_limited_clear", 100)
	r.Floor("put_into_subtrie_hit_by_limited_clear", 300)
	r.Floor("sweep_follow_limits", 1000)

	corpus := corpus2()
	r.Fixed("corpus", len(corpus), func(c *vcommon.Case) { runScript2(c, corpus[c.Idx]) })

	r.Cases("hist", r.Scale(1200), func(c *vcommon.Case) {
		u := genUniverse(c.R)
		ver := c.R.Intn(2)
		e := newEnv2(c, ver, u.probes, u.prefixes)
		e.r, e.keys = c.R, u.keys
		nops := c.R.Range(5, 60)
		e.target = c.R.Range(2, 16)
		for i := 0; i < nops && e.nviol == 0 && !e.dead; i++ {
			e.apply(e.genOp(c.R, u))
			if e.lastCut != nil && e.follow == nil && c.R.Chance(3, 5) {
				// the limited clear left keys behind: stay on that sub-trie for the next 2-6 operations
				e.follow = e.newFollow(e.lastCut.q, e.lastCut)
			}
		}
		c.Count("final_keys", e.m.Len())
		c.Sample(map[string]any{"version": ver, "ops": len(e.hist), "first_ops": firstN(e.hist, 12), "final": mapDump(e.m), "shape": e.lastSig})
	})

	r.Cases("postlimit", r.Scale(400), runPostLimit)
}

func firstN(s []string, n int) []string {
	if len(s) > n {
		return s[:n]
	}
	return s
}
