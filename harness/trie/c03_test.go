//go:build verif

package trie_test

import (
	"bytes"
	"fmt"
	"testing"

	"github.com/ChainSafe/gossamer/lib/common"
	gtrie "github.com/ChainSafe/gossamer/pkg/trie"
	"github.com/ChainSafe/gossamer/pkg/trie/inmemory"
	"github.com/ChainSafe/gossamer/zz_verif/vcommon"
)

// C03: snapshots (and snapshots of snapshots) can be modified independently:
// no operation on one of them, including SetVersion(V1), changes the contents
// or the root hash seen through the original or any other snapshot.
//
// Monitor: every live trie of the fork tree carries the (Entries, Hash) pair
// observed right after its creation / its own last operation. After every
// operation on one member, the other members are observed again and must
// show exactly that pair; members whose stored values were all written under
// their current version are additionally compared with the spec root of
// their content (a from-scratch rebuild).

type member struct {
	id, parent int
	t          *inmemory.InMemoryTrie
	ver        int
	want       *vcommon.OrdMap // content seen through this trie
	wantHash   common.Hash
	flags      map[string]bool // key -> value stored by hash (written under V1 with more than 32 bytes)
	forked     bool            // snapshots were taken from it: by the Snapshot() contract it is not written any more
	alive      bool
	ops        int
}

type env3 struct {
	c          *vcommon.Case
	ms         []*member
	log        []string
	nviol      int
	liveParent bool // tries are also written after snapshots were taken from them (those snapshots are then discarded)
}

func (e *env3) witness(extra map[string]any) map[string]any {
	w := map[string]any{"actions": append([]string{}, e.log...)}
	for k, v := range extra {
		w[k] = v
	}
	return w
}

func (e *env3) violation(class, msg string, w map[string]any) {
	e.nviol++
	e.c.Violation(class, msg, w)
}

func (m *member) pure() bool {
	ks, vs := m.want.Entries()
	for i, k := range ks {
		if m.flags[string(k)] != (m.ver == 1 && len(vs[i]) > 32) {
			return false
		}
	}
	return true
}

func (e *env3) relation(a, b *member) string {
	switch {
	case b.parent == a.id:
		return "snapshot of the operated trie"
	case a.parent == b.id:
		return "the trie the operated snapshot was taken from"
	case a.parent == b.parent && a.parent >= 0:
		return "sibling snapshot"
	case e.isAncestor(b, a):
		return "ancestor of the operated snapshot"
	case e.isAncestor(a, b):
		return "descendant snapshot of the operated trie"
	}
	return "other branch of the fork tree"
}

// isAncestor reports whether a is an ancestor of b in the snapshot tree.
func (e *env3) isAncestor(a, b *member) bool {
	for p := b.parent; p >= 0; p = e.ms[p].parent {
		if p == a.id {
			return true
		}
	}
	return false
}

// observeOwn records what the operated member shows after its own operation.
func (e *env3) observeOwn(m *member, predicted *vcommon.OrdMap, what string) {
	c := e.c
	h, err := m.t.Hash()
	if err != nil {
		e.violation("hash-error", fmt.Sprintf("T%d after %s: %v", m.id, what, err), e.witness(nil))
		return
	}
	if predicted != nil {
		c.Eval(1)
		if d := entriesDiff(m.t, predicted); d != "" {
			e.violation("own-content", fmt.Sprintf("T%d after %s does not hold what an independent trie would: %s", m.id, what, d),
				e.witness(map[string]any{"trie": firstStr(m.t.String(), 6000)}))
		}
	}
	m.want = mapFromEntries(m.t)
	for k := range m.flags {
		if _, ok := m.want.Get([]byte(k)); !ok {
			delete(m.flags, k)
		}
	}
	m.wantHash = h
	if m.pure() {
		c.Eval(1)
		c.Count("own_root_compared_with_spec", 1)
		if sr := vcommon.SpecRoot(m.want, m.ver); !bytes.Equal(sr[:], h[:]) {
			e.violation("own-root", fmt.Sprintf("T%d after %s: Hash()=%x but the spec root (V%d) of its content is %x", m.id, what, h[:], m.ver, sr[:]),
				e.witness(map[string]any{"content": mapDump(m.want)}))
		}
	} else {
		c.Count("own_root_mixed_versions_not_compared", 1)
	}
}

// checkOthers re-observes every other live member (or a random part of them).
func (e *env3) checkOthers(op *member, what string, r *vcommon.Rand, all bool) {
	c := e.c
	for _, m := range e.ms {
		if !m.alive || m == op {
			continue
		}
		if !all && r.Chance(1, 3) {
			continue // leave its caches untouched for a while
		}
		c.Eval(1)
		c.Count("isolation_observations", 1)
		h, err := m.t.Hash()
		d := entriesDiff(m.t, m.want)
		if err == nil && h == m.wantHash && d == "" {
			if m.pure() && c.Run.Thorough() {
				if sr := vcommon.SpecRoot(m.want, m.ver); !bytes.Equal(sr[:], h[:]) {
					e.violation("stale-root", fmt.Sprintf("T%d: Hash()=%x but the spec root of its content is %x", m.id, h[:], sr[:]), e.witness(nil))
				}
			}
			continue
		}
		rel, opid := "none (final observation)", -1
		if op != nil {
			rel, opid = e.relation(op, m), op.id
		}
		msg := fmt.Sprintf("%s on T%d changed T%d (%s): ", what, opid, m.id, rel)
		if d != "" {
			msg += "content: " + d + "; "
		}
		if err != nil {
			msg += "Hash error " + err.Error()
		} else if h != m.wantHash {
			msg += fmt.Sprintf("root %x -> %x", m.wantHash[:], h[:])
		}
		class := "isolation-content"
		if d == "" {
			class = "isolation-root"
		}
		e.violation(class, msg, e.witness(map[string]any{"operated": opid, "changed": m.id, "relation": rel,
			"expected_content": mapDump(m.want), "observed_content": mapDump(mapFromEntries(m.t))}))
		// continue from what is observed
		m.want = mapFromEntries(m.t)
		if err == nil {
			m.wantHash = h
		}
	}
}

func (e *env3) fork(m *member, n int) {
	for i := 0; i < n; i++ {
		ch := &member{id: len(e.ms), parent: m.id, t: m.t.Snapshot(), ver: m.ver, want: m.want.Clone(), wantHash: m.wantHash,
			flags: map[string]bool{}, alive: true}
		for k, v := range m.flags {
			ch.flags[k] = v
		}
		e.ms = append(e.ms, ch)
		e.log = append(e.log, fmt.Sprintf("T%d = T%d.Snapshot()", ch.id, m.id))
		e.c.Count("snapshots", 1)
		if m.parent >= 0 {
			e.c.Count("snapshots_of_snapshots", 1)
		}
	}
	m.forked = true
}

// mutate applies one operation to member m.
func (e *env3) mutate(m *member, o op2, r *vcommon.Rand, all bool) {
	c := e.c
	what := o.String()
	e.log = append(e.log, fmt.Sprintf("T%d: %s", m.id, what))
	c.Count("op_"+o.kind, 1)
	m.ops++
	var predicted *vcommon.OrdMap
	var err error
	switch o.kind {
	case "put":
		predicted = m.want.Clone()
		predicted.Put(o.key, o.val)
		if old, ok := m.want.Get(o.key); ok && bytes.Equal(old, o.val) {
			c.Count("reput_equal_value", 1)
			if m.flags[string(o.key)] != (m.ver == 1 && len(o.val) > 32) {
				c.Count("reput_equal_value_after_version_raise_over_32_bytes", 1)
			}
		}
		err = m.t.Put(o.key, o.val)
		m.flags[string(o.key)] = m.ver == 1 && len(o.val) > 32
	case "del":
		predicted = m.want.Clone()
		predicted.Delete(o.key)
		err = m.t.Delete(o.key)
	case "clear":
		if !zeroLowNibble(o.key) { // outside C02-K1
			predicted = m.want.Clone()
			predicted.ClearPrefix(o.key)
		}
		err = m.t.ClearPrefix(o.key)
	case "climit":
		_, _, err = m.t.ClearPrefixLimit(o.key, o.limit) // which keys go is C02's business; here only isolation
	case "flush":
		err = flushTrie(m.t) // StoreTrie: write out and mark clean; content and root must not move
		predicted = m.want.Clone()
	case "setv1":
		m.t.SetVersion(gtrie.V1)
		m.ver = 1
		c.Count("version_raised", 1)
		predicted = m.want.Clone()
	}
	if err != nil {
		e.violation("error", fmt.Sprintf("T%d %s: %v", m.id, what, err), e.witness(nil))
		return
	}
	e.observeOwn(m, predicted, what)
	if e.liveParent && m.forked {
		e.discardSnapshotsOf(m, what)
	}
	e.checkOthers(m, what, r, all || e.liveParent)
}

// discardSnapshotsOf handles the class that is measured but not asserted: m
// was written after snapshots had been taken from it. Snapshot() documents
// copy-on-write only for writes to the NEW trie ("will copy on write as
// modifications are done on this new trie"), the original shares its nodes
// of the current generation with the snapshots. The monitor counts the
// snapshots (direct and transitive) in which the write is visible and stops
// using all of them; every other trie of the fork tree stays asserted.
func (e *env3) discardSnapshotsOf(m *member, what string) {
	c := e.c
	for _, d := range e.ms {
		if !d.alive || !e.isAncestor(m, d) {
			continue
		}
		c.Count("snapshots_discarded_after_write_to_their_origin", 1)
		func() {
			defer func() {
				if recover() != nil {
					c.Count("discarded_snapshot_panics_when_observed", 1)
				}
			}()
			h, err := d.t.Hash()
			if err != nil || h != d.wantHash || entriesDiff(d.t, d.want) != "" {
				c.Count("write_to_origin_visible_in_its_snapshot", 1)
			}
		}()
		d.alive = false
		e.log = append(e.log, fmt.Sprintf("T%d discarded (T%d, from which it was taken, has been written)", d.id, m.id))
	}
	m.forked = false
}

func genValue3(r *vcommon.Rand) []byte {
	switch x := r.Intn(20); {
	case x < 4:
		return r.Bytes(r.Range(1, 3))
	case x < 8:
		return bytes.Repeat([]byte{byte(0xa0 + r.Intn(3))}, 32)
	case x < 14:
		return bytes.Repeat([]byte{byte(0xb0 + r.Intn(3))}, 33)
	case x < 17:
		return bytes.Repeat([]byte{byte(0xc0 + r.Intn(3))}, r.Range(34, 70))
	case x < 18:
		return []byte{}
	default:
		return r.Bytes(r.Range(0, 40))
	}
}

func (e *env3) genOp(m *member, r *vcommon.Rand, pool [][]byte) op2 {
	x := r.Intn(100)
	switch {
	case m.ver == 0 && x < 7:
		return op2{kind: "setv1"}
	case x >= 7 && x < 13:
		return op2{kind: "flush"}
	case x < 55 || m.want.Len() == 0:
		if m.want.Len() > 0 && r.Chance(2, 5) { // re-put of the value that is already there
			k := vcommon.Pick(r, m.want.Keys())
			v, _ := m.want.Get(k)
			return op2{kind: "put", key: k, val: append([]byte{}, v...)}
		}
		return op2{kind: "put", key: vcommon.Pick(r, pool), val: genValue3(r)}
	case x < 78:
		if r.Chance(3, 4) {
			return op2{kind: "del", key: vcommon.Pick(r, m.want.Keys())}
		}
		return op2{kind: "del", key: vcommon.Pick(r, pool)}
	case x < 88:
		k := vcommon.Pick(r, pool)
		return op2{kind: "clear", key: k[:r.Range(0, len(k))]}
	default:
		k := vcommon.Pick(r, pool)
		p := k[:r.Range(0, len(k))]
		return op2{kind: "climit", key: p, limit: uint32(r.Range(0, len(m.want.KeysWithPrefix(p))+1))}
	}
}

func (e *env3) liveMembers(writable bool) []*member {
	var out []*member
	for _, m := range e.ms {
		if m.alive && (!writable || !m.forked || e.liveParent) {
			out = append(out, m)
		}
	}
	return out
}

func (e *env3) run(r *vcommon.Rand, steps int) {
	c := e.c
	pool := genPool1(r)
	if len(pool) > 16 {
		pool = pool[:16]
	}
	ver := 0
	if r.Chance(1, 4) {
		ver = 1
	}
	root := &member{id: 0, parent: -1, t: newTrie(ver), ver: ver, want: vcommon.NewOrdMap(), flags: map[string]bool{}, alive: true}
	root.wantHash = gtrie.EmptyHash
	e.ms = append(e.ms, root)
	e.log = append(e.log, fmt.Sprintf("T0 = NewEmptyTrie(), version V%d", ver))
	all := r.Bool() // re-observe all others after each step, or a random part (caches stay dirty longer)
	for i := 0; i < r.Range(2, 12); i++ {
		e.mutate(root, op2{kind: "put", key: vcommon.Pick(r, pool), val: genValue3(r)}, r, all)
	}
	maxDepth := 0
	for s := 0; s < steps && e.nviol == 0; s++ {
		w := e.liveMembers(true)
		live := e.liveMembers(false)
		switch x := r.Intn(100); {
		case x < 14 && len(live) < 8 || len(w) == 0:
			m := vcommon.Pick(r, live)
			n := 1
			if r.Chance(1, 2) || len(w) <= 1 {
				n = 2
			}
			e.fork(m, n)
			d := 0
			for p := m.id; p >= 0; p = e.ms[p].parent {
				d++
			}
			if d > maxDepth {
				maxDepth = d
			}
		case x < 18 && len(live) > 3:
			m := vcommon.Pick(r, live)
			if m.id != 0 {
				m.alive = false // the snapshot is dropped; tries forked from it stay
				e.log = append(e.log, fmt.Sprintf("T%d dropped", m.id))
			}
		default:
			m := vcommon.Pick(r, w)
			if m.forked {
				c.Count("writes_to_forked_trie", 1)
			}
			e.mutate(m, e.genOp(m, r, pool), r, all)
		}
	}
	// final observation of everything
	e.checkOthers(nil, "final observation", r, true)
	sig := ""
	for _, m := range e.ms {
		sig += fmt.Sprintf("%d<%d:%d,", m.id, m.parent, m.ops)
	}
	c.Distinct(sig)
	c.Count("fork_tree_depth_ge_3", b2i(maxDepth >= 3))
	c.Count("members", len(e.ms))
	c.Sample(map[string]any{"members": len(e.ms), "depth": maxDepth, "actions": len(e.log), "first_actions": firstN(e.log, 14)})
}

func b2i(x bool) int {
	if x {
		return 1
	}
	return 0
}

// ---------------------------------------------------------------------------
// fixed corpus: minimal witnesses

type act3 struct {
	fork int // >=0: Tn = T<fork>.Snapshot()
	on   int
	op   op2
}

func runScript3(c *vcommon.Case, name string, ver int, acts []act3) {
	e := &env3{c: c}
	root := &member{id: 0, parent: -1, t: newTrie(ver), ver: ver, want: vcommon.NewOrdMap(), flags: map[string]bool{}, alive: true}
	root.wantHash = gtrie.EmptyHash
	e.ms = append(e.ms, root)
	e.log = append(e.log, "# "+name, fmt.Sprintf("T0 = NewEmptyTrie(), version V%d", ver))
	for _, a := range acts {
		if a.fork >= 0 {
			e.fork(e.ms[a.fork], 1)
			continue
		}
		e.mutate(e.ms[a.on], a.op, c.R, true)
	}
	c.Sample(map[string]any{"script": name, "actions": e.log})
}

func corpus3() (names []string, vers []int, scripts [][]act3) {
	v33 := rep(0xb1, 33)
	v40 := rep(0xc1, 40)
	on := func(i int, o op2) act3 { return act3{fork: -1, on: i, op: o} }
	fk := func(i int) act3 { return act3{fork: i} }
	add := func(n string, v int, a ...act3) {
		names = append(names, n)
		vers = append(vers, v)
		scripts = append(scripts, a)
	}
	add("re-put of an equal 33-byte leaf value on a snapshot raised to V1 changed the original's root (fixed 3202a9a16)", 0,
		on(0, op2{kind: "put", key: b(0x01), val: v33}), fk(0), on(1, op2{kind: "setv1"}), on(1, op2{kind: "put", key: b(0x01), val: v33}))
	add("same for a branch value (fixed 3202a9a16)", 0,
		on(0, op2{kind: "put", key: b(0x01), val: v33}), on(0, op2{kind: "put", key: b(0x01, 0x02), val: b(1)}), on(0, op2{kind: "put", key: b(0x01, 0x03), val: b(2)}),
		fk(0), on(1, op2{kind: "setv1"}), on(1, op2{kind: "put", key: b(0x01), val: v33}))
	add("same below the root, two sibling snapshots and a snapshot of a snapshot", 0,
		on(0, op2{kind: "put", key: b(0x01, 0x02), val: v40}), on(0, op2{kind: "put", key: b(0x01, 0x03), val: v33}), on(0, op2{kind: "put", key: b(0x02), val: b(7)}),
		fk(0), fk(0), on(1, op2{kind: "setv1"}), on(1, op2{kind: "put", key: b(0x01, 0x02), val: v40}), fk(1),
		on(3, op2{kind: "put", key: b(0x01, 0x03), val: v33}), on(2, op2{kind: "setv1"}), on(2, op2{kind: "put", key: b(0x01, 0x03), val: v33}),
		on(3, op2{kind: "del", key: b(0x01, 0x02)}), on(2, op2{kind: "clear", key: b(0x01)}))
	add("deletes, merges and limited clears on sibling snapshots", 1,
		on(0, op2{kind: "put", key: b(0x12, 0x34), val: v40}), on(0, op2{kind: "put", key: b(0x12, 0x35), val: b(1)}), on(0, op2{kind: "put", key: b(0x12), val: v33}), on(0, op2{kind: "put", key: b(0x77), val: b(2)}),
		fk(0), fk(0), on(1, op2{kind: "del", key: b(0x12, 0x34)}), on(2, op2{kind: "del", key: b(0x12)}), on(1, op2{kind: "climit", key: b(0x12), limit: 1}),
		on(2, op2{kind: "clear", key: b(0x12)}), on(1, op2{kind: "clear", key: b()}), on(2, op2{kind: "put", key: b(0x12, 0x34), val: b(9)}))
	return
}

// ---------------------------------------------------------------------------

func TestVerifC03(t *testing.T) {
	r := vcommon.Start(t, "C03")
	defer r.Finish()
	r.Floor("snapshots", 1000)
	r.Floor("snapshots_of_snapshots", 300)
	r.Floor("version_raised", 200)
	r.Floor("reput_equal_value_after_version_raise_over_32_bytes", 100)
	r.Floor("isolation_observations", 20000)
	r.Floor("fork_tree_depth_ge_3", 100)
	r.Floor("own_root_compared_with_spec", 1000)

	r.Floor("state_forks_cache_miss", 150)
	r.Floor("state_forks_cache_hit", 150)
	r.Floor("state_roots_with_sibling_forks", 50)
	r.Floor("state_forks_of_forks", 100)
	r.Floor("state_writes_inside_transaction", 200)
	r.Floor("state_writes_outside_transaction", 500)
	r.Floor("state_isolation_observations", 5000)

	r.Floor("child_isolation_observations", 20000)
	r.Floor("child_snapshots_of_origin_without_child_tries", 300)
	r.Floor("child_snapshots_of_origin_with_child_tries", 300)
	r.Floor("child_snapshots_of_snapshots", 300)
	r.Floor("child_ops_on_snapshot_of_snapshot", 1000)
	r.Floor("child_ops_on_snapshot_born_without_child_tries", 1000)
	r.Floor("child_clear_empties_child_trie", 200)
	r.Floor("child_write_while_other_member_holds_equal_child_root_created_independently", 100)
	r.Floor("child_write_while_sibling_holds_equal_child_root_created_independently", 50)
	r.Floor("child_root_compared_with_spec", 5000)

	names, vers, scripts := corpus3()
	r.Fixed("corpus", len(scripts), func(c *vcommon.Case) {
		if !specOK(c) {
			return
		}
		runScript3(c, names[c.Idx], vers[c.Idx], scripts[c.Idx])
	})

	// child tries of the members of a fork tree (c03_child_test.go)
	cnames, cscripts := corpusChild()
	r.Fixed("child-corpus", len(cscripts), func(c *vcommon.Case) {
		if !specOK(c) {
			return
		}
		runScriptChild(c, cnames[c.Idx], cscripts[c.Idx])
	})
	r.Cases("child-forks", r.Scale(600), func(c *vcommon.Case) {
		if !specOK(c) {
			return
		}
		e := &envC{c: c}
		e.run(c.R, c.R.Range(12, 60))
	})

	// production snapshot path: InmemoryStorageState.TrieState(root) on cache hits and cache misses
	r.Fixed("state-corpus", 3, func(c *vcommon.Case) { runStateScript(c, c.Idx) })
	r.Cases("state-forks", r.Scale(400), func(c *vcommon.Case) { runStateForks(c, false) })

	// asserted: by the contract of Snapshot() a trie is written only until snapshots are taken from it
	r.Cases("forks", r.Scale(1200), func(c *vcommon.Case) {
		if !specOK(c) {
			return
		}
		e := &env3{c: c}
		e.run(c.R, c.R.Range(10, 80))
	})

	// tries are also written after snapshots were taken from them: the snapshots of the written trie are
	// discarded (how many of them show the write is counted, not asserted), everything else is asserted
	r.Cases("live-parent", r.Scale(300), func(c *vcommon.Case) {
		if !specOK(c) {
			return
		}
		e := &env3{c: c, liveParent: true}
		e.run(c.R, c.R.Range(10, 60))
	})
}
