//go:build verif

package trie_test

import (
	"bytes"
	"encoding/hex"
	"fmt"
	"math"
	"strings"
	"testing"

	"github.com/ChainSafe/gossamer/lib/runtime/storage"
	gtrie "github.com/ChainSafe/gossamer/pkg/trie"
	"github.com/ChainSafe/gossamer/pkg/trie/inmemory"
	"github.com/ChainSafe/gossamer/pkg/trie/node"
	"github.com/ChainSafe/gossamer/zz_verif/vcommon"
)

// C01 on MIXED-version tries: the state of the block that enacts a V0 -> V1
// runtime upgrade. Production: Instance.SetContextStorage -> TrieState.SetVersion(V1)
// on a Snapshot() of the V0 parent trie, then Put / Delete / ClearPrefix through
// insertInLeaf / insertInBranch / handleDeletion.
//
// Semantics (Substrate state_version migration, trie-db Value::Inline / Value::NewNode):
// the layout decides the encoding of a value WHEN IT IS WRITTEN. A value written
// under V0 stays inlined, whatever its length, until it is written again; a value
// written (or re-written, also with identical content: trie-db compares
// Value::Inline(v) != Value::NewNode(_, v) and replaces) under V1 is stored by hash
// iff it is longer than 32 bytes. Structure nodes carry no version: a leaf that
// becomes a branch, a branch merged with its only child, a branch that turns into a
// leaf keep the encoding of each VALUE they carry.
//
// Oracle: specRootMixed over the shadow map (key -> value, writtenUnderV1), an
// independent builder (copy of vcommon's SpecTrie builder with the per-entry rule
// "hashed iff writtenUnderV1 && len > 32"), compared with Hash() after EVERY
// mutating step. For version-pure shadow maps the copy is itself compared with
// vcommon.SpecRoot (a difference makes the case inconclusive, never a violation).

// ---------------------------------------------------------------------------
// reference: spec root with a per-entry layout

type mixSpecEntry struct {
	nib, val []byte
	v1       bool
}

func mixSpecValue(e mixSpecEntry) (hashed bool, enc []byte) {
	if e.v1 && len(e.val) > 32 {
		h := vcommon.Blake256(e.val)
		return true, h[:]
	}
	return false, vcommon.ScaleBytes(e.val)
}

func mixSpecBuild(es []mixSpecEntry, depth int) []byte {
	if len(es) == 0 {
		return []byte{0}
	}
	if len(es) == 1 {
		nib := es[0].nib[depth:]
		hashed, v := mixSpecValue(es[0])
		var enc []byte
		if hashed {
			enc = vcommon.SpecHeader(0x20, 5, len(nib))
		} else {
			enc = vcommon.SpecHeader(0x40, 6, len(nib))
		}
		enc = append(enc, vcommon.SpecPartial(nib)...)
		return append(enc, v...)
	}
	a, z := es[0].nib, es[len(es)-1].nib // sorted: the common prefix of first and last is the common prefix of all
	l := depth
	for l < len(a) && l < len(z) && a[l] == z[l] {
		l++
	}
	partial := a[depth:l]
	rest := es
	var hasVal, hashed bool
	var v []byte
	if len(es[0].nib) == l {
		hasVal = true
		hashed, v = mixSpecValue(es[0])
		rest = es[1:]
	}
	var bitmap uint16
	var children []byte
	for i := 0; i < len(rest); {
		nb := rest[i].nib[l]
		j := i
		for j < len(rest) && rest[j].nib[l] == nb {
			j++
		}
		cenc := mixSpecBuild(rest[i:j], l+1)
		bitmap |= 1 << nb
		if len(cenc) < 32 {
			children = append(children, vcommon.ScaleBytes(cenc)...)
		} else {
			h := vcommon.Blake256(cenc)
			children = append(children, vcommon.ScaleBytes(h[:])...)
		}
		i = j
	}
	var enc []byte
	switch {
	case !hasVal:
		enc = vcommon.SpecHeader(0x80, 6, len(partial))
	case hashed:
		enc = vcommon.SpecHeader(0x10, 4, len(partial))
	default:
		enc = vcommon.SpecHeader(0xC0, 6, len(partial))
	}
	enc = append(enc, vcommon.SpecPartial(partial)...)
	enc = append(enc, byte(bitmap), byte(bitmap>>8))
	if hasVal {
		enc = append(enc, v...)
	}
	return append(enc, children...)
}

// specRootMixed: spec root of m where the value of key k was last written under
// V1 iff v1[k].
func specRootMixed(m *vcommon.OrdMap, v1 map[string]bool) (root [32]byte, rootEnc []byte) {
	ks, vs := m.Entries()
	es := make([]mixSpecEntry, len(ks))
	for i := range ks {
		es[i] = mixSpecEntry{vcommon.KeyToNibbles(ks[i]), vs[i], v1[string(ks[i])]}
	}
	rootEnc = mixSpecBuild(es, 0)
	return vcommon.Blake256(rootEnc), rootEnc
}

// ---------------------------------------------------------------------------
// the monitor

const (
	raiseDirect   = iota // t.SetVersion(V1) on the trie itself
	raiseSnapshot        // t.Snapshot().SetVersion(V1): the history goes on on the copy
	raiseState           // storage.NewTrieState(t.Snapshot()).SetVersion(V1); writes through the TrieState
	raiseStateTx         // same, writes inside storage transactions committed by TrieState.Root()
	nRaiseModes
)

var raiseNames = [nRaiseModes]string{"direct", "snapshot", "triestate", "triestate-tx"}

type envMix struct {
	c      *vcommon.Case
	t      *inmemory.InMemoryTrie
	ts     *storage.TrieState // set by the TrieState raise modes
	tx     bool               // a storage transaction is open
	m      *vcommon.OrdMap
	v1     map[string]bool // key -> last written under V1
	ver    int
	mode   int
	hist   []string
	nviol  int
	raised bool
	// the V0 parent a snapshot mode left behind: it must keep its own root
	parent     *inmemory.InMemoryTrie
	parentRoot [32]byte
}

func (e *envMix) dump() []string {
	ks, vs := e.m.Entries()
	out := make([]string, len(ks))
	for i := range ks {
		v := vcommon.Hex(vs[i])
		if len(vs[i]) > 6 {
			v = fmt.Sprintf("%s..(%dB)", vcommon.Hex(vs[i][:4]), len(vs[i]))
		}
		w := "V0"
		if e.v1[string(ks[i])] {
			w = "V1"
		}
		out[i] = vcommon.Hex(ks[i]) + "=" + v + " written under " + w
	}
	return out
}

func (e *envMix) witness(extra map[string]any) map[string]any {
	w := map[string]any{"raise_mode": raiseNames[e.mode], "trie_version_now": e.ver, "ops": append([]string{}, e.hist...), "map": e.dump()}
	for k, v := range extra {
		w[k] = v
	}
	return w
}

func (e *envMix) violation(class, msg string, w map[string]any) {
	e.nviol++
	e.c.Violation(class, msg, w)
}

// trieFlags lists key -> MustBeHashed of every value the trie holds (diagnosis only).
func trieFlags(n *node.Node, prefix []byte, out map[string]bool) {
	if n == nil {
		return
	}
	full := append(append([]byte{}, prefix...), n.PartialKey...)
	if n.StorageValue != nil && len(full)%2 == 0 {
		k := make([]byte, len(full)/2)
		for i := range k {
			k[i] = full[2*i]<<4 | full[2*i+1]
		}
		out[string(k)] = n.MustBeHashed
	}
	if n.Kind() != node.Branch {
		return
	}
	for i, ch := range n.Children {
		if ch != nil {
			trieFlags(ch, append(append([]byte{}, full...), byte(i)), out)
		}
	}
}

// explain names the keys whose encoding differs from the one their write version demands.
func (e *envMix) explain(got [32]byte) string {
	var d []string
	fl := map[string]bool{}
	trieFlags(rootNode(e.t), nil, fl)
	ks, vs := e.m.Entries()
	for i, k := range ks {
		want := e.v1[string(k)] && len(vs[i]) > 32
		if have, ok := fl[string(k)]; ok && have != want {
			d = append(d, fmt.Sprintf("%s (%d bytes, last written under V%d): node flag hashed=%v, spec hashed=%v", vcommon.Hex(k), len(vs[i]), b2i(e.v1[string(k)]), have, want))
		}
	}
	// which single re-interpretation of a write version reproduces the observed root?
	for i, k := range ks {
		if len(vs[i]) <= 32 {
			continue
		}
		alt := map[string]bool{}
		for kk, f := range e.v1 {
			alt[kk] = f
		}
		alt[string(k)] = !alt[string(k)]
		if r, _ := specRootMixed(e.m, alt); r == got {
			d = append(d, fmt.Sprintf("the observed root is the spec root with key %s encoded as if written under V%d", vcommon.Hex(k), b2i(alt[string(k)])))
		}
	}
	if len(d) > 6 {
		d = append(d[:6], "...")
	}
	return strings.Join(d, "; ")
}

func (e *envMix) pure() (pure bool, ver int) {
	n1 := 0
	long := 0
	ks, vs := e.m.Entries()
	for i, k := range ks {
		if len(vs[i]) > 32 {
			long++
			if e.v1[string(k)] {
				n1++
			}
		}
	}
	switch {
	case n1 == 0:
		return true, 0
	case n1 == long:
		return true, 1
	}
	return false, 0
}

// checkRoot is the oracle.
func (e *envMix) checkRoot(where string) {
	c := e.c
	c.Eval(1)
	got, err := e.t.Hash()
	if err != nil {
		e.violation("hash-error", where+": Hash(): "+err.Error(), e.witness(nil))
		return
	}
	want, rootEnc := specRootMixed(e.m, e.v1)
	if pure, v := e.pure(); pure {
		if ref := vcommon.SpecRoot(e.m, v); ref != want {
			c.Inconclusive(fmt.Sprintf("the mixed reference differs from vcommon.SpecRoot on a version-pure map (V%d): %x vs %x", v, want[:], ref[:]))
			e.nviol++
			return
		}
		c.Count("mixed_reference_cross_checked_on_pure_map", 1)
	} else if e.raised {
		c.Count("mixed_root_compared_on_mixed_map", 1)
	}
	if e.raised {
		c.Count("mixed_root_compared_after_raise", 1)
	}
	if got == want {
		return
	}
	if d := entriesDiff(e.t, e.m); d != "" {
		if e.ts != nil {
			// what a write through TrieState / storageDiff does to the content is C08's matter:
			// counted, the shadow map follows the trie (new keys count as written now)
			c.Count("mixed_triestate_content_diverged", 1)
			e.resync()
			if got2, _ := specRootMixed(e.m, e.v1); got2 == got {
				return
			}
			e.violation("mixed-root", fmt.Sprintf("%s: Hash()=%x differs from the mixed-version spec root of the listed content", where, got[:]), e.witness(nil))
			return
		}
		e.violation("mixed-content", fmt.Sprintf("%s: trie content differs from the map the history produces (%s)", where, d), e.witness(nil))
		e.resync()
		return
	}
	e.violation("mixed-root", fmt.Sprintf("%s: Hash()=%x, spec root of the same map with every value encoded by the layout it was last written under = %x; %s",
		where, got[:], want[:], e.explain(got)),
		e.witness(map[string]any{"spec_root_node": vcommon.Hex(rootEnc), "shape": shapeOf(e.t).sig.String()}))
}

// resync makes the shadow map follow the trie's content (flags of unchanged values stay).
func (e *envMix) resync() {
	nm := mapFromEntries(e.t)
	nf := map[string]bool{}
	ks, vs := nm.Entries()
	for i, k := range ks {
		if old, ok := e.m.Get(k); ok && bytes.Equal(old, vs[i]) {
			nf[string(k)] = e.v1[string(k)]
		} else {
			nf[string(k)] = e.ver == 1
		}
	}
	e.m, e.v1 = nm, nf
}

// ---- structural classification of the step about to happen (coverage only)

// locate walks to the node a key ends in / leaves the trie at.
// kind: "empty", "leaf-eq", "leaf-split", "branch-eq", "branch-split", "new-child".
func locate(root *node.Node, key []byte) (kind string, at, parent *node.Node) {
	n := root
	k := key
	for {
		if n == nil {
			if parent == nil {
				return "empty", nil, nil
			}
			return "new-child", nil, parent
		}
		if n.Kind() == node.Leaf {
			if bytes.Equal(n.PartialKey, k) {
				return "leaf-eq", n, parent
			}
			return "leaf-split", n, parent
		}
		if bytes.Equal(n.PartialKey, k) {
			return "branch-eq", n, parent
		}
		if !bytes.HasPrefix(k, n.PartialKey) {
			return "branch-split", n, parent
		}
		idx := k[len(n.PartialKey)]
		k = k[len(n.PartialKey)+1:]
		parent = n
		n = n.Children[idx]
	}
}

func childCount(n *node.Node) (cnt int, only *node.Node) {
	for _, ch := range n.Children {
		if ch != nil {
			cnt++
			only = ch
		}
	}
	return
}

func longInline(n *node.Node) bool { return n != nil && len(n.StorageValue) > 32 && !n.MustBeHashed }
func longHashed(n *node.Node) bool { return n != nil && len(n.StorageValue) > 32 && n.MustBeHashed }

func (e *envMix) countMoved(what string, n *node.Node) {
	e.c.Count(what, 1)
	switch {
	case longInline(n):
		e.c.Count(what+"_carrying_long_v0_inline_value", 1)
	case longHashed(n):
		e.c.Count(what+"_carrying_v1_hashed_value", 1)
	}
}

func (e *envMix) classifyPut(key, val []byte) {
	if !e.raised {
		return
	}
	kind, at, _ := locate(rootNode(e.t), vcommon.KeyToNibbles(key))
	switch kind {
	case "leaf-split":
		e.countMoved("mixed_leaf_to_branch_after_raise", at)
	case "branch-split":
		e.countMoved("mixed_branch_moved_below_new_branch_after_raise", at)
	case "leaf-eq", "branch-eq":
		if at.StorageValue != nil && bytes.Equal(at.StorageValue, val) {
			e.c.Count("mixed_equal_content_reput_after_raise", 1)
			if longInline(at) {
				e.c.Count("mixed_equal_content_reput_of_long_v0_value", 1) // must migrate to the hashed encoding
				if kind == "branch-eq" {
					e.c.Count("mixed_equal_content_reput_of_long_v0_branch_value", 1)
				}
			}
			if longHashed(at) {
				e.c.Count("mixed_equal_content_reput_of_v1_hashed_value", 1)
			}
		} else if longInline(at) && len(val) > 32 {
			e.c.Count("mixed_long_v0_value_overwritten_by_long_value", 1)
		}
	}
}

func (e *envMix) classifyDelete(key []byte) {
	if !e.raised {
		return
	}
	kind, at, parent := locate(rootNode(e.t), vcommon.KeyToNibbles(key))
	switch kind {
	case "leaf-eq":
		if parent == nil {
			return
		}
		cnt, _ := childCount(parent)
		if cnt == 2 && parent.StorageValue == nil {
			var sib *node.Node
			for _, ch := range parent.Children {
				if ch != nil && ch != at {
					sib = ch
				}
			}
			if sib != nil && sib.Kind() == node.Leaf {
				e.countMoved("mixed_merge_branch_into_leaf_after_raise", sib)
			} else {
				e.countMoved("mixed_merge_branch_into_child_branch_after_raise", sib)
			}
			e.c.Count("mixed_merge_after_raise", 1)
		} else if cnt == 1 && parent.StorageValue != nil {
			e.countMoved("mixed_branch_to_leaf_after_raise", parent)
		}
	case "branch-eq":
		if at.StorageValue == nil {
			return
		}
		if cnt, only := childCount(at); cnt == 1 {
			e.c.Count("mixed_merge_after_raise", 1)
			if only.Kind() == node.Leaf {
				e.countMoved("mixed_merge_branch_into_leaf_after_raise", only)
			} else {
				e.countMoved("mixed_merge_branch_into_child_branch_after_raise", only)
			}
		}
	}
}

// ---- operations

func (e *envMix) raise(mode int) {
	e.mode = mode
	e.hist = append(e.hist, "SetVersion(V1) ["+raiseNames[mode]+"]")
	e.c.Count("mixed_raise_"+strings.ReplaceAll(raiseNames[mode], "-", "_"), 1)
	ks, vs := e.m.Entries()
	for i := range ks {
		if len(vs[i]) > 32 {
			e.c.Count("mixed_long_v0_values_at_raise", 1)
		}
	}
	switch mode {
	case raiseDirect:
		e.t.SetVersion(gtrie.V1)
	default:
		if h, err := e.t.Hash(); err == nil {
			e.parent, e.parentRoot = e.t, h
		}
		e.t = e.t.Snapshot()
		if mode == raiseSnapshot {
			e.t.SetVersion(gtrie.V1)
		} else {
			e.ts = storage.NewTrieState(e.t)
			e.ts.SetVersion(gtrie.V1)
		}
	}
	e.ver, e.raised = 1, true
	e.checkRoot("right after SetVersion(V1)") // raising the version alone rewrites nothing
}

func (e *envMix) commit() {
	if !e.tx {
		return
	}
	e.tx = false
	e.hist = append(e.hist, "TrieState.Root() [commits the transaction]")
	e.c.Count("mixed_transactions_committed", 1)
	if _, err := e.ts.Root(); err != nil {
		e.violation("hash-error", "TrieState.Root(): "+err.Error(), e.witness(nil))
		return
	}
	e.checkRoot(fmt.Sprintf("after the transaction committed at op %d", len(e.hist)))
}

func (e *envMix) apply(o op2) {
	c := e.c
	if o.kind == "raise" {
		e.raise(int(o.limit))
		return
	}
	if e.mode == raiseStateTx && e.ts != nil && !e.tx {
		switch o.kind {
		case "put", "del", "clear":
			e.ts.StartTransaction()
			e.tx = true
			e.hist = append(e.hist, "StartTransaction")
		}
	}
	e.hist = append(e.hist, o.String())
	c.Count("mixed_op_"+o.kind, 1)
	var err error
	switch o.kind {
	case "put":
		val := o.val
		if val == nil {
			val = []byte{}
		}
		if !e.tx {
			e.classifyPut(o.key, val)
		}
		if e.ts != nil {
			err = e.ts.Put(o.key, o.val)
		} else {
			err = e.t.Put(o.key, o.val)
		}
		if err != nil {
			e.violation("error", o.String()+": "+err.Error(), e.witness(nil))
			return
		}
		if old, ok := e.m.Get(o.key); ok && e.raised && bytes.Equal(old, val) {
			c.Count("mixed_model_equal_content_reput", 1)
			if len(val) > 32 && !e.v1[string(o.key)] {
				c.Count("mixed_model_equal_content_reput_of_long_v0_value", 1)
			}
		}
		e.m.Put(o.key, val)
		e.v1[string(o.key)] = e.ver == 1
		if e.raised && len(val) > 32 {
			c.Count("mixed_long_value_written_under_v1", 1)
		}
	case "del":
		if !e.tx {
			e.classifyDelete(o.key)
		}
		if e.ts != nil {
			err = e.ts.Delete(o.key)
		} else {
			err = e.t.Delete(o.key)
		}
		if err != nil {
			e.violation("error", o.String()+": "+err.Error(), e.witness(nil))
			return
		}
		e.m.Delete(o.key)
		delete(e.v1, string(o.key))
	case "clear":
		if e.ts != nil {
			err = e.ts.ClearPrefix(o.key)
		} else {
			err = e.t.ClearPrefix(o.key)
		}
		if err != nil {
			e.violation("error", o.String()+": "+err.Error(), e.witness(nil))
			return
		}
		for _, k := range e.m.KeysWithPrefix(o.key) {
			delete(e.v1, string(k))
		}
		if e.raised && e.m.ClearPrefix(o.key) > 0 {
			c.Count("mixed_clear_prefix_removing_keys_after_raise", 1)
		}
	case "climit":
		// a limited clear on the trie itself; which keys go first is C02's matter (C02-K3):
		// the shadow map follows the keys the trie removed, the encodings of the rest stay asserted
		if e.ts != nil || e.tx {
			return
		}
		before := e.m.Len()
		if _, _, err = e.t.ClearPrefixLimit(o.key, o.limit); err != nil {
			e.violation("error", o.String()+": "+err.Error(), e.witness(nil))
			return
		}
		left := e.t.Entries()
		for _, k := range append([][]byte{}, e.m.Keys()...) {
			if _, ok := left[string(k)]; !ok && bytes.HasPrefix(k, o.key) {
				e.m.Delete(k)
				delete(e.v1, string(k))
			}
		}
		if e.raised && e.m.Len() < before {
			c.Count("mixed_limited_clear_removing_keys_after_raise", 1)
		}
	case "hash":
		if !e.tx {
			_, _ = e.t.Hash()
		}
		return
	case "flush":
		if !e.tx {
			if err := flushTrie(e.t); err != nil {
				e.violation("error", "WriteDirty: "+err.Error(), e.witness(nil))
			}
		}
		return
	case "snap":
		// continue on a snapshot (the next block's state); a TrieState wrapper follows
		if e.tx {
			return
		}
		e.t = e.t.Snapshot()
		if e.ts != nil {
			e.ts = storage.NewTrieState(e.t)
		}
		return
	case "commit":
		e.commit()
		return
	}
	if e.tx {
		return // compared when the transaction commits
	}
	e.checkRoot(fmt.Sprintf("after op %d (%s)", len(e.hist), o))
}

func (e *envMix) finish(sample bool) {
	c := e.c
	e.commit()
	e.checkRoot("at the end")
	if e.parent != nil && e.nviol == 0 {
		c.Eval(1)
		if h, err := e.parent.Hash(); err != nil || h != e.parentRoot {
			e.violation("mixed-parent-root", fmt.Sprintf("the V0 trie the raised snapshot was taken from had root %x, after the history on the snapshot it has %x err=%v", e.parentRoot[:], h[:], err), e.witness(nil))
		}
		c.Count("mixed_parent_root_rechecked", 1)
	}
	s := shapeOf(e.t)
	ks, vs := e.m.Entries()
	var untouched, migrated int
	for i, k := range ks {
		if len(vs[i]) > 32 {
			if e.v1[string(k)] {
				migrated++
			} else {
				untouched++
			}
		}
	}
	if e.raised {
		c.Count("mixed_histories_with_raise", 1)
		c.Count("mixed_final_long_v0_values_untouched", untouched)
		c.Count("mixed_final_long_values_written_under_v1", migrated)
		if untouched > 0 && migrated > 0 {
			c.Count("mixed_final_trie_holds_both_encodings", 1)
		}
	}
	if e.m.Len() >= 2 {
		var fl strings.Builder
		for _, k := range ks {
			if e.v1[string(k)] {
				fl.WriteByte('1')
			} else {
				fl.WriteByte('0')
			}
		}
		c.Distinct(fmt.Sprintf("mixed|%s|%s|%s", raiseNames[e.mode], s.sig.String(), fl.String()))
	}
	if sample {
		want, _ := specRootMixed(e.m, e.v1)
		c.Sample(map[string]any{"group": "mixed", "raise_mode": raiseNames[e.mode], "ops": len(e.hist), "keys": e.m.Len(),
			"long_values_still_inline_from_v0": untouched, "long_values_written_under_v1": migrated,
			"root": "0x" + hex.EncodeToString(want[:]), "shape": firstStr(s.sig.String(), 140)})
	}
}

// ---------------------------------------------------------------------------
// generation

func genValueMix(r *vcommon.Rand) []byte {
	switch x := r.Intn(20); {
	case x < 1:
		return []byte{}
	case x < 4:
		return r.Bytes(r.Range(1, 4))
	case x < 6:
		return r.Bytes(32)
	case x < 9:
		return r.Bytes(33)
	case x < 11:
		return r.Bytes(31)
	case x < 14:
		return r.Bytes(r.Range(34, 80))
	case x < 16:
		return bytes.Repeat([]byte{byte(r.Intn(2))}, r.Range(31, 40)) // equal content under different keys
	default:
		return r.Bytes(r.Range(0, 80))
	}
}

func (e *envMix) genOp(r *vcommon.Rand, pool [][]byte) op2 {
	present := e.m.Keys()
	switch x := r.Intn(100); {
	case x < 22 || len(present) == 0 && x < 75:
		return op2{kind: "put", key: vcommon.Pick(r, pool), val: genValueMix(r)}
	case x < 38 && len(present) > 0: // re-put of the content already stored
		k := vcommon.Pick(r, present)
		if e.raised && r.Chance(1, 3) { // prefer the long values still inlined from V0
			var cand [][]byte
			ks, vs := e.m.Entries()
			for i := range ks {
				if len(vs[i]) > 32 && !e.v1[string(ks[i])] {
					cand = append(cand, ks[i])
				}
			}
			if len(cand) > 0 {
				k = vcommon.Pick(r, cand)
			}
		}
		v, _ := e.m.Get(k)
		return op2{kind: "put", key: k, val: append([]byte{}, v...)}
	case x < 50 && len(present) > 0: // a key below / above a present key: leaf -> branch, branch split
		k := vcommon.Pick(r, present)
		switch r.Intn(3) {
		case 0:
			k = append(append([]byte{}, k...), r.Bytes(r.Range(1, 2))...)
		case 1:
			if len(k) > 0 {
				k = k[:len(k)-1]
			}
		default:
			if len(k) > 0 {
				k = append([]byte{}, k...)
				k[len(k)-1] ^= byte(1 << uint(r.Intn(8)))
			}
		}
		return op2{kind: "put", key: k, val: genValueMix(r)}
	case x < 78:
		if len(present) > 0 && r.Chance(5, 6) {
			return op2{kind: "del", key: vcommon.Pick(r, present)}
		}
		return op2{kind: "del", key: vcommon.Pick(r, pool)}
	case x < 84:
		k := vcommon.Pick(r, pool)
		p := k[:r.Range(0, len(k))]
		if !safePrefix(p) {
			return op2{kind: "hash"}
		}
		if r.Chance(1, 3) {
			lim := uint32(math.MaxUint32)
			if r.Bool() {
				lim = uint32(r.Range(1, 4))
			}
			return op2{kind: "climit", key: p, limit: lim}
		}
		return op2{kind: "clear", key: p}
	case x < 88:
		return op2{kind: "hash"}
	case x < 93:
		return op2{kind: "flush"}
	case x < 97:
		return op2{kind: "commit"}
	default:
		return op2{kind: "snap"}
	}
}

// ---------------------------------------------------------------------------
// fixed corpus: every script runs under each of the four raise modes

type scriptMix struct {
	name string
	ops  []op2
}

func corpusMix() []scriptMix {
	pv := func(k []byte, n int) op2 { return op2{kind: "put", key: k, val: rep(0xa0|byte(n&0xf), n)} }
	del := func(k []byte) op2 { return op2{kind: "del", key: k} }
	raise := op2{kind: "raise"}
	hash, flush := op2{kind: "hash"}, op2{kind: "flush"}
	return []scriptMix{
		{"raise only: long V0 values stay inlined", []op2{pv(b(0x01), 40), pv(b(0x01, 0x02), 80), pv(b(0x03), 33), raise}},
		{"equal-content re-put of a long leaf value under V1 migrates it", []op2{pv(b(0x01), 40), pv(b(0x02), 40), raise, pv(b(0x01), 40)}},
		{"equal-content re-put of a long branch value under V1 migrates it", []op2{pv(b(0x01), 40), pv(b(0x01, 0x02), 1), pv(b(0x01, 0x03), 50), raise, pv(b(0x01), 40), pv(b(0x01, 0x03), 50)}},
		{"equal-content re-put after the nodes were written out (clean nodes, cached Merkle values)", []op2{pv(b(0x01), 40), pv(b(0x01, 0x02), 41), pv(b(0x07), 42), flush, raise, pv(b(0x01, 0x02), 41), flush, pv(b(0x01), 40), pv(b(0x07), 42)}},
		{"equal-content re-put of short and 32-byte values changes nothing", []op2{pv(b(0x01), 32), pv(b(0x02), 3), pv(b(0x03), 33), raise, pv(b(0x01), 32), pv(b(0x02), 3)}},
		{"leaf with a long V0 value becomes a branch (key extended)", []op2{pv(b(0x12), 40), raise, pv(b(0x12, 0x34), 40), pv(b(0x12, 0x35), 2)}},
		{"leaf with a long V0 value moves below a new branch (keys diverge)", []op2{pv(b(0x12, 0x34), 40), raise, pv(b(0x12, 0x44), 50), pv(b(0x13), 33)}},
		{"leaf with a long V0 value moves below a new branch holding the new key", []op2{pv(b(0x12, 0x34), 40), raise, pv(b(0x12), 50)}},
		{"branch with a long V0 value moves below a new branch", []op2{pv(b(0x12, 0x34), 40), pv(b(0x12, 0x34, 0x01), 1), pv(b(0x12, 0x34, 0x02), 60), raise, pv(b(0x12, 0x44), 50), pv(b(0x10), 44), pv(b(), 35)}},
		{"delete merges a branch into its remaining leaf (long V0 value survives inlined)", []op2{pv(b(0x12, 0x34), 40), pv(b(0x12, 0x35), 2), raise, del(b(0x12, 0x35))}},
		{"delete merges a branch into its remaining leaf (value rewritten under V1 survives hashed)", []op2{pv(b(0x12, 0x34), 40), pv(b(0x12, 0x35), 2), raise, pv(b(0x12, 0x34), 40), del(b(0x12, 0x35))}},
		{"delete merges a branch into its remaining child branch (V0 and V1 values)", []op2{pv(b(0x12, 0x34), 1), pv(b(0x12, 0x35), 40), pv(b(0x12, 0x35, 0x01), 41), pv(b(0x12, 0x35, 0x02), 3), raise, pv(b(0x12, 0x35, 0x02), 42), del(b(0x12, 0x34)), pv(b(0x12, 0x34), 1), pv(b(0x12, 0x35), 40), del(b(0x12, 0x34))}},
		{"delete of a branch value merges the branch with its only child", []op2{pv(b(0x12), 40), pv(b(0x12, 0x34), 41), raise, del(b(0x12)), pv(b(0x12), 40), pv(b(0x12, 0x34), 41), del(b(0x12))}},
		{"branch with a long V0 value loses its children and becomes a leaf", []op2{pv(b(0x12), 40), pv(b(0x12, 0x34), 1), pv(b(0x12, 0x50), 50), raise, del(b(0x12, 0x34)), del(b(0x12, 0x50))}},
		{"branch with a value rewritten under V1 loses its children and becomes a leaf", []op2{pv(b(0x12), 40), pv(b(0x12, 0x34), 1), raise, pv(b(0x12), 40), del(b(0x12, 0x34)), pv(b(0x12), 40)}},
		{"clear prefix after the raise merges around long V0 values", []op2{pv(b(0x11, 0x01), 40), pv(b(0x11, 0x02), 41), pv(b(0x12, 0x01), 42), pv(b(0x12, 0x02), 1), pv(b(0x21), 43), raise, pv(b(0x11, 0x02), 41), {kind: "clear", key: b(0x12)}, {kind: "clear", key: b(0x11, 0x01)}, {kind: "climit", key: b(0x11), limit: math.MaxUint32}}},
		{"V1 value shrinks under and grows over the threshold next to V0 values", []op2{pv(b(0x01), 40), pv(b(0x02), 40), raise, pv(b(0x01), 32), hash, pv(b(0x01), 33), pv(b(0x01), 2), pv(b(0x01), 40)}},
		{"delete and re-put of the same content under V1", []op2{pv(b(0x01), 40), pv(b(0x01, 0x01), 41), pv(b(0x02), 42), raise, del(b(0x01)), pv(b(0x01), 40), del(b(0x02)), pv(b(0x02), 42)}},
		{"second raise is a no-op; snapshot after the raise keeps V1", []op2{pv(b(0x01), 40), raise, pv(b(0x02), 41), {kind: "snap"}, {kind: "raise", limit: 0}, pv(b(0x03), 42), pv(b(0x01), 40)}},
		{"long keys: hashed-value headers of 15/31 nibbles next to inlined V0 values", []op2{pv(cat(b(0x01), rep(0x33, 15)), 40), pv(cat(b(0x11), rep(0x33, 15)), 40), pv(rep(0x44, 8), 40), pv(cat(rep(0x44, 8), b(0x01)), 1), pv(cat(rep(0x44, 8), b(0x11)), 41), raise,
			pv(cat(b(0x01), rep(0x33, 15)), 40), pv(rep(0x44, 8), 40), del(cat(rep(0x44, 8), b(0x01))), pv(cat(b(0x12), rep(0x33, 15)), 40), del(cat(b(0x11), rep(0x33, 15)))}},
	}
}

func runScriptMix(c *vcommon.Case, s scriptMix, mode int) {
	e := &envMix{c: c, m: vcommon.NewOrdMap(), v1: map[string]bool{}, mode: mode}
	e.t = newTrie(0)
	e.hist = append(e.hist, "# "+s.name)
	first := true
	for _, o := range s.ops {
		if o.kind == "raise" {
			if first {
				o.limit = uint32(mode)
				first = false
			} else if e.ts != nil {
				e.commit()
				e.hist = append(e.hist, "TrieState.SetVersion(V1) again")
				e.ts.SetVersion(gtrie.V1)
				continue
			} else {
				e.hist = append(e.hist, "SetVersion(V1) again")
				e.t.SetVersion(gtrie.V1)
				continue
			}
		}
		e.apply(o)
		if e.tx { // scripts compare after every step: one transaction per write
			e.commit()
		}
	}
	e.finish(false)
}

// TestVerifC01Mixed decides the same property as TestVerifC01 (the engine's run
// pattern matches it; the driver merges counters and floors).
func TestVerifC01Mixed(t *testing.T) {
	r := vcommon.Start(t, "C01")
	defer r.Finish()
	r.Floor("mixed_histories_with_raise", 1000)
	r.Floor("mixed_raise_direct", 200)
	r.Floor("mixed_raise_snapshot", 200)
	r.Floor("mixed_raise_triestate", 200)
	r.Floor("mixed_raise_triestate_tx", 200)
	r.Floor("mixed_root_compared_after_raise", 15000)
	r.Floor("mixed_root_compared_on_mixed_map", 5000)
	r.Floor("mixed_reference_cross_checked_on_pure_map", 20000)
	r.Floor("mixed_long_v0_values_at_raise", 3000)
	r.Floor("mixed_final_long_v0_values_untouched", 600)
	r.Floor("mixed_final_trie_holds_both_encodings", 200)
	r.Floor("mixed_long_value_written_under_v1", 5000)
	r.Floor("mixed_merge_after_raise", 2000)
	r.Floor("mixed_merge_branch_into_leaf_after_raise_carrying_long_v0_inline_value", 200)
	r.Floor("mixed_merge_branch_into_leaf_after_raise_carrying_v1_hashed_value", 400)
	r.Floor("mixed_merge_branch_into_child_branch_after_raise", 700)
	r.Floor("mixed_merge_branch_into_child_branch_after_raise_carrying_long_v0_inline_value", 50)
	r.Floor("mixed_merge_branch_into_child_branch_after_raise_carrying_v1_hashed_value", 90)
	r.Floor("mixed_branch_to_leaf_after_raise", 400)
	r.Floor("mixed_branch_to_leaf_after_raise_carrying_long_v0_inline_value", 50)
	r.Floor("mixed_branch_to_leaf_after_raise_carrying_v1_hashed_value", 120)
	r.Floor("mixed_leaf_to_branch_after_raise", 2000)
	r.Floor("mixed_leaf_to_branch_after_raise_carrying_long_v0_inline_value", 250)
	r.Floor("mixed_leaf_to_branch_after_raise_carrying_v1_hashed_value", 600)
	r.Floor("mixed_branch_moved_below_new_branch_after_raise", 600)
	r.Floor("mixed_branch_moved_below_new_branch_after_raise_carrying_long_v0_inline_value", 40)
	r.Floor("mixed_equal_content_reput_after_raise", 2000)
	r.Floor("mixed_equal_content_reput_of_long_v0_value", 500)
	r.Floor("mixed_equal_content_reput_of_long_v0_branch_value", 120)
	r.Floor("mixed_equal_content_reput_of_v1_hashed_value", 500)
	r.Floor("mixed_model_equal_content_reput_of_long_v0_value", 700)
	r.Floor("mixed_long_v0_value_overwritten_by_long_value", 100)
	r.Floor("mixed_clear_prefix_removing_keys_after_raise", 400)
	r.Floor("mixed_limited_clear_removing_keys_after_raise", 80)
	r.Floor("mixed_transactions_committed", 1300)
	r.Floor("mixed_parent_root_rechecked", 500)

	corpus := corpusMix()
	r.Fixed("mixed-corpus", nRaiseModes*len(corpus), func(c *vcommon.Case) {
		if !specOK(c) {
			return
		}
		runScriptMix(c, corpus[c.Idx/nRaiseModes], c.Idx%nRaiseModes)
	})

	r.Cases("mixed", r.Scale(1400), func(c *vcommon.Case) {
		if !specOK(c) {
			return
		}
		rr := c.R
		pool := genPool1(rr)
		e := &envMix{c: c, m: vcommon.NewOrdMap(), v1: map[string]bool{}}
		e.t = newTrie(0)
		// phase 1: the V0 state (mostly puts, many long values)
		n0 := rr.Range(3, 36)
		for i := 0; i < n0 && e.nviol == 0; i++ {
			switch x := rr.Intn(10); {
			case x < 8 || e.m.Len() == 0:
				e.apply(op2{kind: "put", key: vcommon.Pick(rr, pool), val: genValueMix(rr)})
			case x < 9:
				e.apply(op2{kind: "del", key: vcommon.Pick(rr, e.m.Keys())})
			default:
				e.apply(op2{kind: "hash"})
			}
		}
		if rr.Chance(2, 3) { // the parent state was stored: clean nodes, cached Merkle values
			e.apply(op2{kind: "flush"})
		}
		// the runtime upgrade
		e.apply(op2{kind: "raise", limit: uint32(rr.Intn(nRaiseModes))})
		// phase 2: the blocks after it
		n1 := rr.Range(3, 45)
		for i := 0; i < n1 && e.nviol == 0; i++ {
			e.apply(e.genOp(rr, pool))
			if e.tx && rr.Chance(1, 3) {
				e.commit()
			}
		}
		e.finish(true)
	})
}
