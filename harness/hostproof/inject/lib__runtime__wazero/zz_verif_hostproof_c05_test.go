//go:build verif

package wazero_runtime

// C05 at the host boundary - storage read proofs are complete and sound.
//
// Driven: ext_trie_blake2_256_verify_proof_version_1 and _version_2, the only
// production callers of proof.Verify, called for real on a wazero api.Module
// (root, SCALE(Vec<Vec<u8>>) proof, key and value written into guest memory
// through the real allocator; the i32 result read back).
//
// Oracle: membership in the vcommon.OrdMap of the state that has the root.
//
//	soundness     for EVERY proof byte string and claim (k, v):
//	              return 1  =>  k is in the state and state[k] == v
//	              (at this boundary the value argument is a value: sp_io::trie::
//	              blake2_256_verify_proof checks (key, Some(value)), so an EMPTY
//	              value claims "k is stored with the empty value");
//	completeness  an honest complete proof (proof.Generate, or every node of the
//	              independent spec trie) of a present (k, v)  =>  return 1 from
//	              version_1 (state version 0) and from version_2 given the
//	              state's own version.
//
// Empty-value claims are judged in their own classes (DESIGN section 4 C05):
// (k absent, empty) confirmed -> violation `host-soundness-empty-value`;
// (k present with a NON-empty value, empty) confirmed -> known finding C05-K1
// (the host functions hand the empty value to proof.Verify, whose documented
// Go-level convention is "empty value = membership query").

import (
	"bytes"
	"encoding/hex"
	"fmt"
	"sort"
	"testing"

	"github.com/ChainSafe/gossamer/internal/database"
	"github.com/ChainSafe/gossamer/lib/common"
	"github.com/ChainSafe/gossamer/pkg/trie"
	inmemory_trie "github.com/ChainSafe/gossamer/pkg/trie/inmemory"
	"github.com/ChainSafe/gossamer/pkg/trie/inmemory/proof"
	"github.com/ChainSafe/gossamer/zz_verif/vcommon"
)

const hpK1 = "C05-K1"

// ---------------------------------------------------------------------------
// small helpers

func hpHx(b []byte) string { return vcommon.Hex(b) }

func hpHxs(bs [][]byte) []string {
	out := make([]string, len(bs))
	for i, b := range bs {
		out[i] = hpHx(b)
	}
	return out
}

func hpShort(b []byte) string {
	if len(b) <= 12 {
		return hpHx(b)
	}
	return fmt.Sprintf("%s..(%dB)", hpHx(b[:6]), len(b))
}

func hpRep(b byte, n int) []byte { return bytes.Repeat([]byte{b}, n) }

func hpClone(ns [][]byte) [][]byte {
	out := make([][]byte, len(ns))
	for i := range ns {
		out[i] = append([]byte{}, ns[i]...)
	}
	return out
}

func hpModelDump(m *vcommon.OrdMap) []string {
	ks, vs := m.Entries()
	out := make([]string, len(ks))
	for i := range ks {
		out[i] = hpHx(ks[i]) + "=" + hpHx(vs[i])
	}
	return out
}

// hpEncodeProof is SCALE(Vec<Vec<u8>>) written from the SCALE rules
// (vcommon.CompactLen), not with gossamer's encoder.
func hpEncodeProof(nodes [][]byte) []byte {
	out := vcommon.CompactLen(uint64(len(nodes)))
	for _, n := range nodes {
		out = append(out, vcommon.ScaleBytes(n)...)
	}
	return out
}

// ---------------------------------------------------------------------------
// generators (same families as engine triep)

var hpValueLens = []int{0, 1, 2, 3, 8, 27, 28, 29, 30, 31, 32, 33, 34, 40, 64, 100}

const (
	hpProfTiny = iota
	hpProfThreshold
	hpProfLarge
	hpProfMixed
	hpNProfiles
)

func hpGenValue(r *vcommon.Rand, prof int) []byte {
	var n int
	switch prof {
	case hpProfTiny:
		n = r.Intn(3)
	case hpProfThreshold:
		n = r.Range(27, 34)
	case hpProfLarge:
		n = vcommon.Pick(r, []int{33, 34, 40, 64, 100})
	default:
		n = vcommon.Pick(r, hpValueLens)
	}
	if n == 0 {
		return []byte{}
	}
	b := r.Bytes(n)
	if r.Chance(1, 4) {
		for i := range b {
			b[i] = byte(0xa0 + n%7)
		}
	}
	return b
}

func hpGenKeyPool(r *vcommon.Rand, want int) [][]byte {
	nibs := []byte{byte(r.Intn(16)), byte(r.Intn(16)), 0}
	if r.Bool() {
		nibs = append(nibs, 0xf)
	}
	rb := func() byte { return vcommon.Pick(r, nibs)<<4 | vcommon.Pick(r, nibs) }
	seen := map[string]bool{}
	var pool [][]byte
	add := func(k []byte) {
		if !seen[string(k)] && len(pool) < want {
			seen[string(k)] = true
			pool = append(pool, append([]byte{}, k...))
		}
	}
	for tries := 0; len(pool) < want*2/3 && tries < 200; tries++ {
		n := vcommon.Pick(r, []int{0, 1, 1, 2, 2, 2, 3, 3, 4})
		k := make([]byte, n)
		for i := range k {
			k[i] = rb()
		}
		add(k)
	}
	if r.Chance(1, 3) {
		stem := r.Bytes(r.Range(30, 36))
		for i := 0; i < r.Range(2, 4); i++ {
			add(append(append([]byte{}, stem...), rb()))
		}
		add(stem)
	}
	for tries := 0; len(pool) < want && tries < 200; tries++ {
		k := vcommon.Pick(r, pool)
		switch r.Intn(3) {
		case 0:
			if len(k) > 0 {
				add(k[:len(k)-1])
			}
		case 1:
			add(append(append([]byte{}, k...), rb()))
		default:
			if len(k) > 0 {
				s := append([]byte{}, k...)
				s[len(s)-1] ^= byte(1 << r.Intn(8))
				add(s)
			}
		}
	}
	return pool
}

func hpAbsentProbes(r *vcommon.Rand, m *vcommon.OrdMap, limit int) [][]byte {
	seen := map[string]bool{}
	var out [][]byte
	add := func(k []byte) {
		if _, ok := m.Get(k); ok || seen[string(k)] {
			return
		}
		seen[string(k)] = true
		out = append(out, append([]byte{}, k...))
	}
	add([]byte{})
	for _, k := range m.Keys() {
		for i := 0; i < len(k); i++ {
			add(k[:i])
		}
		add(append(append([]byte{}, k...), 0x00))
		add(append(append([]byte{}, k...), byte(r.Intn(256))))
		if len(k) > 0 {
			for _, bit := range []byte{0x01, 0x10, 0x80} {
				s := append([]byte{}, k...)
				s[len(s)-1] ^= bit
				add(s)
			}
			s := append([]byte{}, k...)
			s[r.Intn(len(s))] ^= vcommon.Pick(r, []byte{0x01, 0x10, 0x0f, 0xf0})
			add(s)
			if len(k) >= 2 {
				p := r.Intn(len(k) - 1)
				add(append(append([]byte{}, k[:p+1]...), k[p+2:]...))
			}
		}
	}
	if len(out) > limit {
		p := r.Perm(len(out))
		sel := make([][]byte, 0, limit)
		for _, i := range p[:limit] {
			sel = append(sel, out[i])
		}
		if _, ok := m.Get([]byte{}); !ok {
			sel[0] = []byte{}
		}
		out = sel
	}
	return out
}

// ---------------------------------------------------------------------------
// states

type hpState struct {
	ver   int
	model *vcommon.OrdMap
	tbl   database.Table
	root  common.Hash
	spec  vcommon.SpecNodes // nil when gossamer's root differs from the spec root (C01's business)
}

func (s *hpState) witness(extra map[string]any) map[string]any {
	w := map[string]any{"state_version": s.ver, "state": hpModelDump(s.model), "root": s.root.String()}
	for k, v := range extra {
		w[k] = v
	}
	return w
}

func hpBuildState(c *vcommon.Case, m *vcommon.OrdMap, ver int, tag string) (*hpState, bool) {
	tbl, err := hpCaseTable(c, tag)
	if err != nil {
		c.Inconclusive("cannot open the in-memory pebble database: " + err.Error())
		return nil, false
	}
	t := inmemory_trie.NewTrie(nil, tbl)
	if ver == 1 {
		t.SetVersion(trie.V1)
	} else {
		t.SetVersion(trie.V0)
	}
	ks, vs := m.Entries()
	for _, i := range c.R.Perm(len(ks)) {
		if err := t.Put(ks[i], vs[i]); err != nil {
			c.Inconclusive("Put failed (not a C05 matter): " + err.Error())
			return nil, false
		}
	}
	root, err := t.Hash()
	if err != nil {
		c.Inconclusive("Hash failed (not a C05 matter): " + err.Error())
		return nil, false
	}
	if err := t.WriteDirty(tbl); err != nil {
		c.Inconclusive("WriteDirty failed (C04's business): " + err.Error())
		return nil, false
	}
	st := &hpState{ver: ver, model: m, tbl: tbl, root: root}
	sr, _, nodes := vcommon.SpecRootNodes(m, ver, true)
	if common.Hash(sr) == root {
		st.spec = nodes
	} else {
		c.Count("host_note_root_ne_spec_root", 1)
	}
	return st, true
}

// specFullProof: every hashed node of the spec trie plus the raw values
// referenced by hash - an honest complete proof sharing no code with Generate.
func (s *hpState) specFullProof() [][]byte {
	if s.spec == nil {
		return nil
	}
	hs := make([]string, 0, len(s.spec))
	for h := range s.spec {
		hs = append(hs, h)
	}
	sort.Strings(hs)
	var out [][]byte
	for _, h := range hs {
		out = append(out, s.spec[h])
	}
	if s.ver == 1 {
		_, vs := s.model.Entries()
		seen := map[string]bool{}
		for _, v := range vs {
			if len(v) > 32 && !seen[string(v)] {
				seen[string(v)] = true
				out = append(out, v)
			}
		}
	}
	return out
}

// ---------------------------------------------------------------------------
// claims and proof byte strings

type hpClaim struct {
	k, v []byte
	kind string
}

// hpSet is one proof argument: a node list (SCALE-encoded by hpEncodeProof) or,
// when raw != nil, an arbitrary byte string put where the SCALE list belongs.
type hpSet struct {
	kind  string
	nodes [][]byte
	raw   []byte
}

func (s hpSet) enc() []byte {
	if s.raw != nil {
		return s.raw
	}
	return hpEncodeProof(s.nodes)
}

// hpTrue is the host-boundary truth of a claim: the pair is in the state.
func hpTrue(m *vcommon.OrdMap, k, v []byte) bool {
	have, ok := m.Get(k)
	return ok && bytes.Equal(have, v)
}

// hpFalseClaims builds claims about s that are NOT in the state, close to true ones.
func hpFalseClaims(c *vcommon.Case, s *hpState, foreign *vcommon.OrdMap, focus [][]byte) []hpClaim {
	r := c.R
	var out []hpClaim
	add := func(k, v []byte, kind string) {
		if hpTrue(s.model, k, v) {
			return
		}
		out = append(out, hpClaim{append([]byte{}, k...), append([]byte{}, v...), kind})
	}
	_, vs := s.model.Entries()
	anyVal := func() []byte {
		if len(vs) == 0 {
			return []byte{1}
		}
		return vcommon.Pick(r, vs)
	}
	for _, k := range focus {
		v, present := s.model.Get(k)
		if !present {
			add(k, nil, "absent-key-empty-value")
			add(k, anyVal(), "absent-key-with-a-stored-value")
			continue
		}
		add(k, nil, "present-key-empty-value") // false unless the stored value is empty
		h := vcommon.Blake256(v)
		add(k, h[:], "hash-of-the-value")
		add(k, append(append([]byte{}, v...), 0), "value-extended")
		if len(v) > 1 {
			add(k, v[:len(v)-1], "value-truncated")
			w := append([]byte{}, v...)
			w[r.Intn(len(w))] ^= 1 << r.Intn(8)
			add(k, w, "value-bit-flipped")
		}
		add(k, anyVal(), "value-of-another-key")
		if foreign != nil {
			if fv, ok := foreign.Get(k); ok {
				add(k, fv, "value-in-the-foreign-state")
			}
		}
		for i := 0; i < len(k); i++ {
			add(k[:i], v, "prefix-of-key")
			if i == 0 || i == len(k)-1 {
				add(k[:i], nil, "prefix-of-key-empty-value")
			}
		}
		add(append(append([]byte{}, k...), 0x00), v, "extension-of-key")
		add(append(append([]byte{}, k...), byte(r.Intn(256))), nil, "extension-of-key-empty-value")
		if len(k) > 0 {
			for _, bit := range []byte{0x01, 0x10} {
				sib := append([]byte{}, k...)
				sib[len(sib)-1] ^= bit
				add(sib, v, "sibling-key")
				add(sib, nil, "sibling-key-empty-value")
			}
			d := append([]byte{}, k...)
			d[r.Intn(len(d))] ^= vcommon.Pick(r, []byte{0x01, 0x10, 0x0f, 0xf0})
			add(d, v, "divergent-key")
			if len(k) >= 2 {
				p := r.Intn(len(k) - 1)
				drop := append(append([]byte{}, k[:p+1]...), k[p+2:]...)
				add(drop, v, "key-with-a-byte-dropped")
				add(drop, nil, "key-with-a-byte-dropped-empty-value")
			}
		}
	}
	if foreign != nil {
		fks, fvs := foreign.Entries()
		for i, k := range fks {
			add(k, fvs[i], "pair-of-the-foreign-state")
		}
	}
	return out
}

// hpHostileSets derives adversarial proof arguments from an honest proof.
func hpHostileSets(c *vcommon.Case, honest [][]byte, foreignProof, specAll, foreignAll [][]byte) []hpSet {
	r := c.R
	var sets []hpSet
	add := func(kind string, ns [][]byte) { sets = append(sets, hpSet{kind: kind, nodes: ns}) }
	raw := func(kind string, b []byte) {
		if b == nil {
			b = []byte{}
		}
		sets = append(sets, hpSet{kind: kind, raw: b})
	}
	add("honest", honest)
	if len(honest) > 1 {
		p := r.Perm(len(honest))
		ns := make([][]byte, len(honest))
		for i, j := range p {
			ns[i] = honest[j]
		}
		add("reordered", ns)
	}
	if len(honest) > 0 {
		add("duplicated", append(hpClone(honest), honest[r.Intn(len(honest))]))
		for i := range honest {
			if i >= 5 {
				break
			}
			add("one-node-omitted", append(hpClone(honest[:i]), honest[i+1:]...))
		}
		for n := 0; n < 5; n++ {
			ns := hpClone(honest)
			i := r.Intn(len(ns))
			if len(ns[i]) == 0 {
				continue
			}
			ns[i][r.Intn(len(ns[i]))] ^= 1 << r.Intn(8)
			add("bit-flipped", ns)
		}
		for n := 0; n < 2; n++ {
			ns := hpClone(honest)
			i := r.Intn(len(ns))
			if len(ns[i]) == 0 {
				continue
			}
			alt := append([]byte{}, ns[i]...)
			alt[r.Intn(len(alt))] ^= 1 << r.Intn(8)
			add("altered-copy-added", append(ns, alt))
		}
		{
			ns := hpClone(honest)
			i := r.Intn(len(ns))
			if len(ns[i]) > 1 {
				ns[i] = ns[i][:r.Range(1, len(ns[i])-1)]
				add("node-truncated", ns)
			}
		}
		add("junk-added", append(hpClone(honest), r.Bytes(r.Range(1, 80)), []byte{0}, []byte{}))
	}
	if len(foreignProof) > 0 {
		add("foreign-proof-only", foreignProof)
		add("honest-plus-foreign-proof", append(hpClone(honest), foreignProof...))
		if len(honest) > 1 {
			add("honest-root-foreign-rest", append([][]byte{honest[0]}, foreignProof...))
		}
	}
	if len(specAll) > 0 {
		add("all-nodes-of-the-state", specAll)
		if len(foreignAll) > 0 {
			add("all-nodes-of-both-states", append(hpClone(specAll), foreignAll...))
			add("all-nodes-of-foreign-state", foreignAll)
		}
	}
	add("empty-list", nil)

	// damage below the node level: the SCALE(Vec<Vec<u8>>) byte string itself
	enc := hpEncodeProof(honest)
	raw("scale-empty-span", nil)
	if len(enc) > 2 {
		raw("scale-truncated", append([]byte{}, enc[:r.Range(1, len(enc)-1)]...))
	}
	if n := len(honest); n > 0 && n < 60 {
		cl := len(vcommon.CompactLen(uint64(n)))
		up := append(vcommon.CompactLen(uint64(n+r.Range(1, 3))), enc[cl:]...)
		raw("scale-count-raised", up)
		down := append(vcommon.CompactLen(uint64(n-1)), enc[cl:]...)
		raw("scale-count-lowered", down)
		// two-byte (non canonical) compact for the same count
		raw("scale-count-noncanonical", append([]byte{byte(n<<2) | 1, byte(n >> 6)}, enc[cl:]...))
		// the last node declares more bytes than the input holds
		last := honest[n-1]
		body := enc[cl : len(enc)-len(vcommon.ScaleBytes(last))]
		over := append(vcommon.CompactLen(uint64(len(last)+r.Range(1, 5))), last...)
		raw("scale-last-length-raised", append(append(append([]byte{}, enc[:cl]...), body...), over...))
	}
	raw("scale-trailing-bytes", append(append([]byte{}, enc...), r.Bytes(r.Range(1, 40))...))
	{
		g := r.Bytes(r.Range(1, 60))
		for i := range g { // single-byte compact mode everywhere: no huge length is ever declared (C12's business)
			g[i] &= 0xfc
		}
		g[0] &= 0x3c
		raw("scale-garbage", g)
	}
	return sets
}

// ---------------------------------------------------------------------------
// calling the host functions

const (
	hpFn1 = "ext_trie_blake2_256_verify_proof_version_1"
	hpFn2 = "ext_trie_blake2_256_verify_proof_version_2"
)

type hpEnv struct {
	c  *vcommon.Case
	vc *hpCall
	st *hpState
	// per proof argument
	set       hpSet
	encoded   []byte
	rootPtr   uint32
	proofSpan uint64
	stop      bool
}

func (x *hpEnv) load(set hpSet) bool {
	x.vc.resetHeap()
	x.set = set
	x.encoded = set.enc()
	rp, _, err := x.vc.put(x.st.root[:])
	if err != nil {
		x.c.Inconclusive(err.Error())
		return false
	}
	_, ps, err := x.vc.put(x.encoded)
	if err != nil {
		x.c.Inconclusive(err.Error())
		return false
	}
	x.rootPtr, x.proofSpan = rp, ps
	return true
}

// invoke calls one host function; a panic on hostile bytes is not a
// confirmation: counted (decoder robustness is C07/C33's business).
func (x *hpEnv) invoke(fn string, verArg uint32, keySpan, valSpan uint64) (ret uint32) {
	defer func() {
		if p := recover(); p != nil {
			x.c.Count("host_note_panic_on_hostile_input", 1)
			ret = 0
		}
	}()
	if fn == hpFn1 {
		return ext_trie_blake2_256_verify_proof_version_1(x.vc.ctx, x.vc.h.mod, x.rootPtr, x.proofSpan, keySpan, valSpan)
	}
	return ext_trie_blake2_256_verify_proof_version_2(x.vc.ctx, x.vc.h.mod, x.rootPtr, x.proofSpan, keySpan, valSpan, verArg)
}

func (x *hpEnv) wit(fn string, verArg uint32, cl hpClaim) map[string]any {
	w := map[string]any{"function": fn, "key": hpHx(cl.k), "value": hpHx(cl.v), "claim_kind": cl.kind,
		"proof_kind": x.set.kind, "proof_scale_bytes": hpHx(x.encoded)}
	if fn == hpFn2 {
		w["version_argument"] = verArg
	}
	if x.set.raw == nil {
		w["nodes"] = hpHxs(x.set.nodes)
	}
	return x.st.witness(w)
}

// verArgFor picks the state version argument of version_2.
func (x *hpEnv) verArgFor(matching bool) (uint32, string) {
	r := x.c.R
	if matching || r.Chance(17, 20) {
		return uint32(x.st.ver), "match"
	}
	if r.Chance(2, 3) {
		return uint32(1 - x.st.ver), "other"
	}
	return vcommon.Pick(r, []uint32{2, 3, 255, 256, 257, 0xffffffff}), "outside"
}

// present presents one claim to both host functions and returns their answers.
// mustMatch forces the state's own version as version_2 argument.
func (x *hpEnv) present(cl hpClaim, mustMatch bool) (r1, r2 uint32, verArg uint32, verKind string, ok bool) {
	kp, ks, err := x.vc.put(cl.k)
	if err != nil {
		x.c.Inconclusive(err.Error())
		return 0, 0, 0, "", false
	}
	vp, vs, err := x.vc.put(cl.v)
	if err != nil {
		x.c.Inconclusive(err.Error())
		return 0, 0, 0, "", false
	}
	if len(cl.v) == 0 && x.c.R.Bool() {
		vs = 0 // an empty slice may come with any pointer, also 0
	}
	verArg, verKind = x.verArgFor(mustMatch)
	r1 = x.invoke(hpFn1, 0, ks, vs)
	r2 = x.invoke(hpFn2, verArg, ks, vs)
	x.c.Count("host_calls_version_1", 1)
	x.c.Count("host_calls_version_2_arg_"+verKind, 1)
	x.c.Count(fmt.Sprintf("host_calls_on_state_v%d", x.st.ver), 2)
	x.vc.free(vp)
	x.vc.free(kp)
	return r1, r2, verArg, verKind, true
}

// callOne presents (k, v) to one of the two functions.
func (x *hpEnv) callOne(fn string, verArg uint32, k, v []byte) (uint32, bool) {
	kp, ks, err := x.vc.put(k)
	if err != nil {
		return 0, false
	}
	vp, vs, err := x.vc.put(v)
	if err != nil {
		return 0, false
	}
	ret := x.invoke(fn, verArg, ks, vs)
	x.vc.free(vp)
	x.vc.free(kp)
	return ret, true
}

// judgeSound applies the soundness oracle to the two answers for one claim.
func (x *hpEnv) judgeSound(cl hpClaim) {
	c := x.c
	r1, r2, verArg, verKind, ok := x.present(cl, false)
	if !ok {
		x.stop = true
		return
	}
	have, present := x.st.model.Get(cl.k)
	truth := present && bytes.Equal(have, cl.v)
	for i, ret := range []uint32{r1, r2} {
		fn := hpFn1
		if i == 1 {
			fn = hpFn2
		}
		c.Eval(1)
		c.Count("host_soundness_decisions", 1)
		if ret > 1 {
			c.Violation("host-return", fmt.Sprintf("%s returned %d (neither 0 nor 1)", fn, ret), x.wit(fn, verArg, cl))
			x.stop = true
			return
		}
		if i == 1 && verKind == "outside" && ret == 1 {
			c.Count("host_note_version_outside_0_1_accepted", 1) // uint8 truncation of the argument; not C05's business
		}
		switch {
		case truth && ret == 1:
			c.Count("host_true_claims_confirmed", 1)
			c.Count("host_true_claims_confirmed_on_"+x.set.kind, 1)
		case truth:
			c.Count("host_true_claims_rejected_on_perturbed_proofs", 1)
		case ret == 0:
			c.Count("host_sound_reject_"+x.set.kind, 1)
			if len(cl.v) == 0 {
				if present {
					c.Count("host_empty_value_for_present_key_rejected", 1)
				} else {
					c.Count("host_empty_value_for_absent_key_rejected", 1)
				}
			}
		case len(cl.v) == 0 && present && len(have) > 0:
			// separately labelled class: the value argument is empty, the key is
			// present with a NON-empty value and the function answered 1
			c.Count("host_empty_value_for_present_key_confirmed", 1)
			// C05-K1 is exactly "an empty value argument is answered as a membership
			// query": then the stored value must be confirmed on the same proof too
			if again, ok := x.callOne(fn, verArg, cl.k, have); !ok || again != 1 {
				c.Violation("host-soundness-empty-value", fmt.Sprintf("%s confirmed (key %s, empty value) on proof %q but not the stored value %s on the same proof: not the membership-query reading of an empty value",
					fn, hpHx(cl.k), x.set.kind, hpShort(have)), x.wit(fn, verArg, cl))
				x.stop = true
				return
			}
			c.Known(hpK1, fmt.Sprintf("%s confirmed (key %s, EMPTY value) on proof %q although the state stores %s under that key: at the host boundary the value argument is a value, not a membership query",
				fn, hpHx(cl.k), x.set.kind, hpShort(have)), x.wit(fn, verArg, cl))
		case len(cl.v) == 0:
			c.Violation("host-soundness-empty-value", fmt.Sprintf("%s confirmed (key %s, empty value) on proof %q: the key is absent from the state (claim kind %q)",
				fn, hpHx(cl.k), x.set.kind, cl.kind), x.wit(fn, verArg, cl))
			x.stop = true
			return
		default:
			what := "a value that is not the stored one"
			state := "no such key"
			if !present {
				what = "a key that is absent from the state"
			} else {
				state = hpShort(have)
			}
			c.Violation("host-soundness", fmt.Sprintf("%s confirmed %s: key %s value %s (claim kind %q) on proof %q; state has %s",
				fn, what, hpHx(cl.k), hpShort(cl.v), cl.kind, x.set.kind, state), x.wit(fn, verArg, cl))
			x.stop = true
			return
		}
	}
}

// judgeComplete: honest complete proof of a present pair => 1 from version_1
// (judged on state version 0) and from version_2 given the state's version.
func (x *hpEnv) judgeComplete(k, v []byte, src string) {
	c := x.c
	cl := hpClaim{k, v, "true-pair"}
	r1, r2, verArg, _, ok := x.present(cl, true)
	if !ok {
		x.stop = true
		return
	}
	c.Eval(2)
	c.Count("host_completeness_decisions", 2)
	c.Count("host_complete_"+src, 1)
	if x.st.ver == 1 && len(v) > 32 {
		c.Count("host_complete_v1_hashed_value_pairs", 1)
	}
	if len(v) == 0 {
		c.Count("host_complete_empty_value_pairs", 1)
	}
	if len(v) == 32 || len(v) == 33 {
		c.Count("host_complete_value_len_32_33", 1)
	}
	if r2 != 1 {
		c.Violation("host-completeness", fmt.Sprintf("%s(version %d) returned %d for the present pair %s=%s with the honest %s proof",
			hpFn2, verArg, r2, hpHx(k), hpShort(v), src), x.wit(hpFn2, verArg, cl))
		x.stop = true
		return
	}
	if x.st.ver == 0 {
		if r1 != 1 {
			c.Violation("host-completeness", fmt.Sprintf("%s returned %d for the present pair %s=%s of a state-version-0 state with the honest %s proof",
				hpFn1, r1, hpHx(k), hpShort(v), src), x.wit(hpFn1, 0, cl))
			x.stop = true
		}
		return
	}
	// version_1 given a proof of a state-version-1 state: counted, not judged
	if r1 == 1 {
		c.Count("host_note_version_1_confirms_v1_state_pair", 1)
	} else {
		c.Count("host_note_version_1_rejects_v1_state_pair", 1)
	}
}

// ---------------------------------------------------------------------------

func hpCheck(c *vcommon.Case, vc *hpCall, st, foreign *hpState, req, absent [][]byte, extra []hpClaim) {
	x := &hpEnv{c: c, vc: vc, st: st}
	honest, err := proof.Generate(st.root[:], req, st.tbl)
	if err != nil {
		// judged by TestVerifC05 (class generate-error); nothing to present here
		c.Inconclusive(fmt.Sprintf("proof.Generate for present keys %v failed (judged by engine triep): %v", hpHxs(req), err))
		return
	}
	// ---- completeness
	if !x.load(hpSet{kind: "honest", nodes: honest}) {
		return
	}
	for _, k := range req {
		v, _ := st.model.Get(k)
		x.judgeComplete(k, v, "generated")
		if x.stop {
			return
		}
	}
	if len(honest) > 1 { // "the order of proofs is ignored" (verify.go)
		rev := make([][]byte, len(honest))
		for i := range honest {
			rev[len(honest)-1-i] = honest[i]
		}
		if !x.load(hpSet{kind: "honest-reversed", nodes: rev}) {
			return
		}
		for _, k := range req {
			v, _ := st.model.Get(k)
			x.judgeComplete(k, v, "generated_reversed")
			if x.stop {
				return
			}
		}
	}
	specAll := st.specFullProof()
	if specAll != nil {
		if !x.load(hpSet{kind: "all-nodes-of-the-state", nodes: specAll}) {
			return
		}
		ks, vs := st.model.Entries()
		for i, k := range ks {
			x.judgeComplete(k, vs[i], "spec_built")
			if x.stop {
				return
			}
		}
	}
	for _, n := range honest {
		if st.spec != nil {
			h := vcommon.Blake256(n)
			if _, isNode := st.spec[hex.EncodeToString(h[:])]; !isNode {
				c.Count("host_value_nodes_in_generated_proofs", 1)
			}
		}
	}

	// ---- soundness
	var foreignModel *vcommon.OrdMap
	var foreignProof, foreignAll [][]byte
	if foreign != nil {
		foreignModel = foreign.model
		var fkeys [][]byte
		for _, k := range append(append([][]byte{}, req...), absent...) {
			if _, ok := foreign.model.Get(k); ok {
				fkeys = append(fkeys, k)
			}
		}
		if len(fkeys) > 0 {
			if fp, err := proof.Generate(foreign.root[:], fkeys, foreign.tbl); err == nil {
				foreignProof = fp
			}
		}
		foreignAll = foreign.specFullProof()
	}
	focus := append(append([][]byte{}, req...), absent...)
	claims := hpFalseClaims(c, st, foreignModel, focus)
	claims = append(claims, extra...)
	// true claims ride along: either answer is sound on a perturbed proof
	for _, k := range req {
		v, _ := st.model.Get(k)
		claims = append(claims, hpClaim{k, v, "true-pair"})
	}
	for _, cl := range claims {
		c.Count("host_claims_"+cl.kind, 1)
	}
	sets := hpHostileSets(c, honest, foreignProof, specAll, foreignAll)
	c.Count("host_proof_arguments", len(sets))
	for _, set := range sets {
		c.Count("host_sets_"+set.kind, 1)
		if !x.load(set) {
			return
		}
		for _, cl := range claims {
			x.judgeSound(cl)
			if x.stop {
				return
			}
		}
	}
}

// ---------------------------------------------------------------------------
// fixed corpus

type hpFixed struct {
	name   string
	ver    int
	puts   [][2][]byte
	req    [][]byte
	absent [][]byte
	extra  []hpClaim
}

var hpCorpus = []hpFixed{
	{name: "k1-empty-value-for-a-present-key", ver: 0,
		puts:   [][2][]byte{{{0x12, 0x34, 0x5a}, hpRep(8, 40)}, {{0x12, 0x34, 0x6a}, {}}, {{0x77}, {1}}},
		req:    [][]byte{{0x12, 0x34, 0x5a}, {0x12, 0x34, 0x6a}, {0x77}},
		absent: [][]byte{{0x12, 0x5a}, {0x12, 0x34}, {}},
		extra:  []hpClaim{{[]byte{0x12, 0x34, 0x5a}, nil, "present-key-empty-value"}, {[]byte{0x12, 0x5a}, nil, "key-with-a-byte-dropped-empty-value"}}},
	{name: "k1-empty-value-for-a-present-key-v1-hashed", ver: 1,
		puts:   [][2][]byte{{{0x12, 0x34}, hpRep(7, 40)}, {{0x12, 0x34, 0x5a}, {2}}, {{0x12, 0x34, 0x6a}, {}}, {{0x77}, hpRep(1, 33)}},
		req:    [][]byte{{0x12, 0x34}, {0x77}, {0x12, 0x34, 0x6a}},
		absent: [][]byte{{0x12}, {0x12, 0x34, 0x7a}}},
	{name: "v1-hashed-leaf-value", ver: 1,
		puts: [][2][]byte{{{0x12, 0x34}, {1}}, {{0x12, 0x34, 0x5a}, hpRep(8, 40)}, {{0x77}, {1}}},
		req:  [][]byte{{0x12, 0x34, 0x5a}}},
	{name: "v1-hashed-branch-value", ver: 1,
		puts: [][2][]byte{{{0x12, 0x34}, hpRep(7, 40)}, {{0x12, 0x34, 0x5a}, {2}}, {{0x12, 0x34, 0x6a}, {3}}, {{0x77}, {1}}},
		req:  [][]byte{{0x12, 0x34}}},
	{name: "v1-hashed-root-leaf", ver: 1, puts: [][2][]byte{{{0xab}, hpRep(9, 33)}}, req: [][]byte{{0xab}}},
	{name: "inlined-leaf-with-empty-value", ver: 0,
		puts: [][2][]byte{{{0x12, 0x34}, hpRep(7, 40)}, {{0x12, 0x34, 0x6a}, {}}, {{0x77}, {1}}},
		req:  [][]byte{{0x12, 0x34, 0x6a}}},
	{name: "proof-for-0x12345a-presented-for-0x125a", ver: 0,
		puts:   [][2][]byte{{{0x12, 0x34, 0x5a}, hpRep(8, 40)}, {{0x12, 0x34, 0x6a}, hpRep(9, 40)}, {{0x77}, hpRep(1, 40)}},
		req:    [][]byte{{0x12, 0x34, 0x5a}},
		absent: [][]byte{{0x12, 0x5a}, {0x12, 0x34}, {0x12}, {}},
		extra:  []hpClaim{{[]byte{0x12, 0x5a}, hpRep(8, 40), "key-with-a-byte-dropped"}}},
	{name: "empty-key-vs-root-branch-value", ver: 0,
		puts:   [][2][]byte{{{0x12}, hpRep(1, 40)}, {{0x12, 0x34}, hpRep(2, 40)}, {{0x12, 0x35}, hpRep(3, 40)}},
		req:    [][]byte{{0x12}, {0x12, 0x34}},
		absent: [][]byte{{}},
		extra:  []hpClaim{{[]byte{}, hpRep(1, 40), "prefix-of-key"}, {[]byte{}, nil, "prefix-of-key-empty-value"}}},
	{name: "empty-key-present", ver: 1, puts: [][2][]byte{{{}, hpRep(5, 50)}, {{0x01}, {1}}, {{0xf1}, {2}}}, req: [][]byte{{}, {0x01}}},
	{name: "value-exactly-32-and-33-bytes-v1", ver: 1, puts: [][2][]byte{{{0xab}, hpRep(9, 32)}, {{0xac}, hpRep(9, 33)}}, req: [][]byte{{0xab}, {0xac}}},
	{name: "value-exactly-32-and-33-bytes-v0", ver: 0, puts: [][2][]byte{{{0xab}, hpRep(9, 32)}, {{0xac}, hpRep(9, 33)}}, req: [][]byte{{0xab}, {0xac}}},
}

func hpRunFixed(c *vcommon.Case, vc *hpCall, f hpFixed) {
	m := vcommon.NewOrdMap()
	for _, kv := range f.puts {
		m.Put(kv[0], kv[1])
	}
	st, ok := hpBuildState(c, m, f.ver, "p")
	if !ok {
		return
	}
	fm := m.Clone()
	if len(f.req) > 0 {
		fm.Put(f.req[0], append([]byte{0xee}, hpRep(0xee, 35)...))
	}
	fm.Put([]byte{0x12, 0x5a}, hpRep(8, 40))
	fs, ok := hpBuildState(c, fm, f.ver, "f")
	if !ok {
		return
	}
	c.Count(fmt.Sprintf("host_states_v%d", f.ver), 1)
	hpCheck(c, vc, st, fs, f.req, f.absent, f.extra)
	c.Sample(map[string]any{"corpus": f.name, "root": st.root.String()})
}

// ---------------------------------------------------------------------------

func TestVerifC05Host(t *testing.T) {
	r := vcommon.Start(t, "C05")
	defer r.Finish()
	if err := vcommon.SpecSelfCheck(); err != nil {
		r.Cases("host-selfcheck", 1, func(c *vcommon.Case) { c.Inconclusive(err.Error()) })
		return
	}
	h, err := getHpHost()
	if err != nil {
		r.Cases("host-setup", 1, func(c *vcommon.Case) { c.Inconclusive(err.Error()) })
		return
	}
	vc := h.newCall()

	r.Floor("host_calls_version_1", 30000)
	r.Floor("host_calls_version_2_arg_match", 25000)
	r.Floor("host_calls_version_2_arg_other", 1500)
	r.Floor("host_calls_version_2_arg_outside", 500)
	r.Floor("host_calls_on_state_v0", 20000)
	r.Floor("host_calls_on_state_v1", 20000)
	r.Floor("host_states_v0", 30)
	r.Floor("host_states_v1", 30)
	r.Floor("host_completeness_decisions", 1500)
	r.Floor("host_complete_generated", 120)
	r.Floor("host_complete_spec_built", 500)
	r.Floor("host_complete_v1_hashed_value_pairs", 100)
	r.Floor("host_complete_empty_value_pairs", 30)
	r.Floor("host_complete_value_len_32_33", 40)
	r.Floor("host_value_nodes_in_generated_proofs", 15)
	r.Floor("host_soundness_decisions", 50000)
	r.Floor("host_true_claims_confirmed", 1000)
	for _, k := range []string{"honest", "reordered", "duplicated", "one-node-omitted", "bit-flipped", "altered-copy-added",
		"node-truncated", "junk-added", "foreign-proof-only", "honest-plus-foreign-proof", "honest-root-foreign-rest",
		"all-nodes-of-the-state", "all-nodes-of-both-states", "all-nodes-of-foreign-state", "empty-list",
		"scale-empty-span", "scale-truncated", "scale-count-raised", "scale-count-lowered", "scale-count-noncanonical",
		"scale-last-length-raised", "scale-trailing-bytes", "scale-garbage"} {
		r.Floor("host_sound_reject_"+k, 500)
	}
	for _, k := range []string{"prefix-of-key", "extension-of-key", "sibling-key", "divergent-key", "key-with-a-byte-dropped",
		"hash-of-the-value", "value-truncated", "pair-of-the-foreign-state",
		"absent-key-empty-value", "present-key-empty-value", "sibling-key-empty-value"} {
		r.Floor("host_claims_"+k, 40)
	}
	r.Floor("host_claims_value-in-the-foreign-state", 20)
	// the empty-value classes
	r.Floor("host_empty_value_for_absent_key_rejected", 2000)

	r.Fixed("host-corpus", len(hpCorpus), func(c *vcommon.Case) { hpRunFixed(c, vc, hpCorpus[c.Idx]) })

	r.Cases("host", r.Scale(110), func(c *vcommon.Case) {
		ver := c.R.Intn(2)
		prof := c.R.Intn(hpNProfiles)
		pool := hpGenKeyPool(c.R, c.R.Range(3, 16))
		if c.R.Chance(1, 8) {
			pool = pool[:c.R.Range(1, 2)]
		}
		m := vcommon.NewOrdMap()
		for _, k := range pool {
			if c.R.Chance(4, 5) {
				m.Put(k, hpGenValue(c.R, prof))
			}
		}
		if m.Len() == 0 {
			m.Put(pool[0], hpGenValue(c.R, prof))
		}
		st, ok := hpBuildState(c, m, ver, "p")
		if !ok {
			return
		}
		c.Count(fmt.Sprintf("host_states_v%d", ver), 1)

		fm := m.Clone()
		ks := m.Keys()
		for i := 0; i < c.R.Range(1, 2); i++ {
			fm.Put(vcommon.Pick(c.R, ks), hpGenValue(c.R, c.R.Intn(hpNProfiles)))
		}
		probes := hpAbsentProbes(c.R, m, 40)
		if len(probes) > 0 {
			fm.Put(vcommon.Pick(c.R, probes), hpGenValue(c.R, prof))
		}
		if fm.Len() > 1 && c.R.Bool() {
			fm.Delete(vcommon.Pick(c.R, ks))
		}
		fs, ok := hpBuildState(c, fm, ver, "f")
		if !ok {
			return
		}

		var req [][]byte
		want := c.R.Range(1, 3)
		for _, i := range c.R.Perm(len(ks)) {
			if len(req) >= want {
				break
			}
			req = append(req, ks[i])
		}
		var absent [][]byte
		for i, n := 0, c.R.Intn(3); i < n && len(probes) > 0; i++ {
			absent = append(absent, vcommon.Pick(c.R, probes))
		}
		hpCheck(c, vc, st, fs, req, absent, nil)

		// structural fingerprint: version, size class, value-length classes, request sizes
		var cls [6]bool
		_, vs := m.Entries()
		for _, v := range vs {
			switch {
			case len(v) == 0:
				cls[0] = true
			case len(v) < 31:
				cls[1] = true
			case len(v) == 31 || len(v) == 32:
				cls[2] = true
			case len(v) == 33:
				cls[3] = true
			default:
				cls[4] = true
			}
		}
		for _, k := range ks {
			if len(k) >= 30 {
				cls[5] = true
			}
		}
		if m.Len() > 1 {
			c.Distinct(fmt.Sprintf("v%d|n%d|%v|req%d|abs%d|spec%d", ver, m.Len(), cls, len(req), len(absent), len(st.spec)))
		}
		c.Sample(map[string]any{"state_version": ver, "keys": m.Len(), "requested": hpHxs(req), "absent_near": hpHxs(absent), "hashed_nodes": len(st.spec)})
	})
}
