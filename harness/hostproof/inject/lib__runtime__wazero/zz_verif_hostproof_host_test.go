//go:build verif

package wazero_runtime

// Host scaffolding of engine `hostproof` (copied from engine `wazero`,
// zz_verif_host_test.go, with names of its own): a wazero api.Module
// instantiated from a 25-byte memory-only guest, a real
// FreeingBumpHeapAllocator and the context value the ext_* functions look up.

import (
	"context"
	"fmt"
	"sync"

	"github.com/ChainSafe/gossamer/internal/database"
	"github.com/ChainSafe/gossamer/internal/log"
	"github.com/ChainSafe/gossamer/lib/runtime"
	"github.com/ChainSafe/gossamer/lib/runtime/allocator"
	"github.com/ChainSafe/gossamer/lib/runtime/storage"
	inmemory_trie "github.com/ChainSafe/gossamer/pkg/trie/inmemory"
	"github.com/ChainSafe/gossamer/zz_verif/vcommon"
	"github.com/tetratelabs/wazero"
	"github.com/tetratelabs/wazero/api"
)

func init() {
	// proof.loadProof logs every node at Info level, the host functions log
	// every rejected proof at Error level
	log.Patch(log.SetLevel(log.Critical))
	logger.Patch(log.SetLevel(log.Critical))
}

// hpWasm is the hand-assembled binary of
//
//	(module (memory (export "memory") 20))
var hpWasm = []byte{
	0x00, 0x61, 0x73, 0x6d, // \0asm
	0x01, 0x00, 0x00, 0x00, // version 1
	0x05, 0x03, 0x01, 0x00, 0x14, // memory section: 1 memory, no max, min 20 pages
	0x07, 0x0a, 0x01, 0x06, 'm', 'e', 'm', 'o', 'r', 'y', 0x02, 0x00, // export "memory" = memory 0
}

const hpHeapBase = 4096

type hpHost struct {
	rt  wazero.Runtime
	mod api.Module
}

var (
	hpHostOnce sync.Once
	hpHostVal  *hpHost
	hpHostErr  error
)

func getHpHost() (*hpHost, error) {
	hpHostOnce.Do(func() {
		ctx := context.Background()
		rt := wazero.NewRuntimeWithConfig(ctx, wazero.NewRuntimeConfigInterpreter())
		mod, err := rt.Instantiate(ctx, hpWasm)
		if err != nil {
			hpHostErr = fmt.Errorf("instantiating the memory-only guest: %w", err)
			return
		}
		if mod.Memory() == nil {
			hpHostErr = fmt.Errorf("guest exports no memory")
			return
		}
		hpHostVal = &hpHost{rt: rt, mod: mod}
	})
	return hpHostVal, hpHostErr
}

// hpCall is the calling environment of the host functions: the context value
// they look up, a real allocator (replaced per node set: the guest heap is
// reused), a real TrieState (not touched by the verify functions).
type hpCall struct {
	h   *hpHost
	ctx context.Context
	rc  *runtime.Context
}

func (h *hpHost) newCall() *hpCall {
	rc := &runtime.Context{
		Storage:   storage.NewTrieState(inmemory_trie.NewEmptyTrie()),
		Allocator: allocator.NewFreeingBumpHeapAllocator(hpHeapBase),
	}
	return &hpCall{h: h, rc: rc, ctx: context.WithValue(context.Background(), runtimeContextKey, rc)}
}

// resetHeap starts a new guest heap at the heap base.
func (vc *hpCall) resetHeap() {
	vc.rc.Allocator = allocator.NewFreeingBumpHeapAllocator(hpHeapBase)
}

// put copies data into guest memory the way Instance.Exec does (through the
// runtime allocator) and returns the pointer and the pointer-size span.
func (vc *hpCall) put(data []byte) (uint32, uint64, error) {
	mem := vc.h.mod.Memory()
	ptr, err := vc.rc.Allocator.Allocate(mem, uint32(len(data)))
	if err != nil {
		return 0, 0, fmt.Errorf("allocating %d guest bytes: %w", len(data), err)
	}
	if !mem.Write(ptr, data) {
		return 0, 0, fmt.Errorf("guest write of %d bytes at %d out of range", len(data), ptr)
	}
	return ptr, newPointerSize(ptr, uint32(len(data))), nil
}

func (vc *hpCall) free(ptr uint32) {
	_ = vc.rc.Allocator.Deallocate(vc.h.mod.Memory(), ptr)
}

// ---------------------------------------------------------------------------
// database: one in-memory pebble per process, one key namespace per state

var (
	hpPebbleOnce sync.Once
	hpPebbleDB   *database.PebbleDB
	hpPebbleErr  error
	hpTableSeq   int
)

func hpCaseTable(c *vcommon.Case, tag string) (database.Table, error) {
	hpPebbleOnce.Do(func() { hpPebbleDB, hpPebbleErr = database.NewPebble("/verif-hostproof-mem", true) })
	if hpPebbleErr != nil {
		return nil, hpPebbleErr
	}
	hpTableSeq++
	return database.NewTable(hpPebbleDB, fmt.Sprintf("%s|%s|%d|", c.ID, tag, hpTableSeq)), nil
}
