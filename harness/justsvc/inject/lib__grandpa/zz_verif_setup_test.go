//go:build verif

package grandpa

// Reusable set-up helpers of the `grandpa` verification engine (C18, C21, C22).
//
//   verifTree            explicit generated block tree (parent links) + reference ancestry (written
//                        independently of lib/blocktree) + the real headers built from it
//   verifKeypairs        n deterministic ed25519 authorities
//   verifNewNode         a real *Service on a real state.BlockState / state.GrandpaState (in-memory pebble)
//                        holding every block of a verifTree; the BlockState is wrapped so that every
//                        SetFinalisedHash call is recorded; NextGrandpaAuthorityChange can be overridden
//   verifSignVote / verifVoteMessage / verifCommit   real signatures over FullVote{stage,vote,round,setID}
//   verifNetwork         fake Network recording (and optionally forwarding) every outgoing message

import (
	"encoding/binary"
	"encoding/json"
	"fmt"
	"io"
	"sort"
	"strings"
	"sync"
	"time"

	"github.com/ChainSafe/gossamer/dot/network"
	"github.com/ChainSafe/gossamer/dot/state"
	"github.com/ChainSafe/gossamer/dot/types"
	"github.com/ChainSafe/gossamer/internal/database"
	"github.com/ChainSafe/gossamer/internal/log"
	"github.com/ChainSafe/gossamer/lib/common"
	"github.com/ChainSafe/gossamer/lib/crypto/ed25519"
	"github.com/ChainSafe/gossamer/lib/runtime"
	"github.com/ChainSafe/gossamer/pkg/scale"
	"github.com/ChainSafe/gossamer/zz_verif/vcommon"
	"github.com/libp2p/go-libp2p/core/peer"
	"github.com/libp2p/go-libp2p/core/protocol"
)

// ---------------------------------------------------------------------------------------------
// explicit block tree

// verifTree is a block tree given by parent indexes. Block 0 is the genesis block.
// Parent[i] < i for i > 0, Parent[0] = -1.
type verifTree struct {
	Parent  []int
	Number  []uint
	Headers []*types.Header
	Hashes  []common.Hash
	index   map[common.Hash]int
}

// verifTreeFromParents builds the tree (and real headers) from parent indexes; salt makes the
// hashes of different trees differ.
func verifTreeFromParents(parents []int, salt uint64) *verifTree {
	t := &verifTree{index: map[common.Hash]int{}}
	for i, p := range parents {
		var parentHash common.Hash
		var num uint
		if i == 0 {
			p = -1
			parentHash = common.Hash{}
		} else {
			if p < 0 || p >= i {
				panic(fmt.Sprintf("verifTreeFromParents: bad parent %d of %d", p, i))
			}
			parentHash = t.Hashes[p]
			num = t.Number[p] + 1
		}
		var sr, er common.Hash
		binary.LittleEndian.PutUint64(sr[:8], salt)
		binary.LittleEndian.PutUint64(sr[8:16], uint64(i)+1)
		sr[31] = 0x5a
		er[0] = 0xee
		digest := types.NewDigest()
		if i > 0 {
			// BlockState.SetFinalisedHash needs the BABE slot number of block #1
			pd, err := types.NewBabeSecondaryPlainPreDigest(0, uint64(1000+i)).ToPreRuntimeDigest()
			if err != nil {
				panic(err)
			}
			if err = digest.Add(*pd); err != nil {
				panic(err)
			}
		}
		h := types.NewHeader(parentHash, sr, er, num, digest)
		t.Parent = append(t.Parent, p)
		t.Number = append(t.Number, num)
		t.Headers = append(t.Headers, h)
		t.Hashes = append(t.Hashes, h.Hash())
		t.index[h.Hash()] = i
	}
	return t
}

// verifGenTree generates a tree with nBlocks blocks (incl. genesis). forkPct is the chance (in %) that
// a new block is attached to a random earlier block rather than to the most recent one.
func verifGenTree(r *vcommon.Rand, nBlocks, forkPct int, salt uint64) *verifTree {
	if nBlocks < 1 {
		nBlocks = 1
	}
	parents := make([]int, nBlocks)
	parents[0] = -1
	for i := 1; i < nBlocks; i++ {
		if r.Intn(100) < forkPct {
			parents[i] = r.Intn(i)
		} else {
			parents[i] = i - 1
		}
	}
	return verifTreeFromParents(parents, salt)
}

// Len returns the number of blocks.
func (t *verifTree) Len() int { return len(t.Parent) }

// Index returns the index of a hash (-1 when unknown).
func (t *verifTree) Index(h common.Hash) int {
	if i, ok := t.index[h]; ok {
		return i
	}
	return -1
}

// IsAncestorOrEqual reports whether block a is b or an ancestor of b (reference ancestry by parent links).
func (t *verifTree) IsAncestorOrEqual(a, b int) bool {
	if a < 0 || b < 0 {
		return false
	}
	for b > a {
		b = t.Parent[b]
	}
	return a == b
}

// LCA returns the lowest common ancestor.
func (t *verifTree) LCA(a, b int) int {
	for a != b {
		if a > b {
			a = t.Parent[a]
		} else {
			b = t.Parent[b]
		}
	}
	return a
}

// AncestorAt returns the ancestor-or-self of b with the given number (-1 if number is above b).
func (t *verifTree) AncestorAt(b int, number uint) int {
	if b < 0 || t.Number[b] < number {
		return -1
	}
	for t.Number[b] > number {
		b = t.Parent[b]
	}
	return b
}

// Children returns the child indexes of b.
func (t *verifTree) Children(b int) []int {
	var out []int
	for i := b + 1; i < t.Len(); i++ {
		if t.Parent[i] == b {
			out = append(out, i)
		}
	}
	return out
}

// Descendants returns b and every descendant of b.
func (t *verifTree) Descendants(b int) []int {
	var out []int
	for i := b; i < t.Len(); i++ {
		if t.IsAncestorOrEqual(b, i) {
			out = append(out, i)
		}
	}
	return out
}

// Leaves returns the blocks without children.
func (t *verifTree) Leaves() []int {
	has := make([]bool, t.Len())
	for i := 1; i < t.Len(); i++ {
		has[t.Parent[i]] = true
	}
	var out []int
	for i := range has {
		if !has[i] {
			out = append(out, i)
		}
	}
	return out
}

// Vote returns the (hash, number) vote for block i.
func (t *verifTree) Vote(i int) Vote {
	return Vote{Hash: t.Hashes[i], Number: uint32(t.Number[i])} //nolint:gosec
}

// Shape renders the parent vector ("-1,0,1,1,3").
func (t *verifTree) Shape() string {
	s := make([]string, len(t.Parent))
	for i, p := range t.Parent {
		s[i] = fmt.Sprint(p)
	}
	return strings.Join(s, ",")
}

// ---------------------------------------------------------------------------------------------
// authorities and signatures

// verifKeypairs returns n deterministic ed25519 key pairs (seed derived from tag and index).
func verifKeypairs(tag uint64, n int) []*ed25519.Keypair {
	out := make([]*ed25519.Keypair, n)
	for i := range out {
		seed := make([]byte, 32)
		binary.LittleEndian.PutUint64(seed[:8], tag)
		binary.LittleEndian.PutUint64(seed[8:16], uint64(i)+1)
		seed[31] = 0xa7
		kp, err := ed25519.NewKeypairFromSeed(seed)
		if err != nil {
			panic(err)
		}
		out[i] = kp
	}
	return out
}

// verifVoters turns key pairs into the voter list (weight/ID = index).
func verifVoters(kps []*ed25519.Keypair) []Voter {
	out := make([]Voter, len(kps))
	for i, kp := range kps {
		out[i] = Voter{Key: *kp.Public().(*ed25519.PublicKey), ID: uint64(i)} //nolint:gosec
	}
	return out
}

func verifPub(kp *ed25519.Keypair) ed25519.PublicKeyBytes {
	return kp.Public().(*ed25519.PublicKey).AsBytes()
}

// verifSignature signs FullVote{stage, vote, round, setID}.
func verifSignature(kp *ed25519.Keypair, stage Subround, vote Vote, round, setID uint64) [64]byte {
	msg, err := scale.Marshal(FullVote{Stage: stage, Vote: vote, Round: round, SetID: setID})
	if err != nil {
		panic(err)
	}
	sig, err := kp.Sign(msg)
	if err != nil {
		panic(err)
	}
	return ed25519.NewSignatureBytes(sig)
}

// verifSignVote returns the signed vote of kp.
func verifSignVote(kp *ed25519.Keypair, stage Subround, vote Vote, round, setID uint64) SignedVote {
	return SignedVote{Vote: vote, Signature: verifSignature(kp, stage, vote, round, setID), AuthorityID: verifPub(kp)}
}

// verifVoteMessage returns the network vote message of kp (signature over signRound/signSetID, envelope
// carrying round/setID: they differ only for deliberately malformed messages).
func verifVoteMessage(kp *ed25519.Keypair, stage Subround, vote Vote, round, setID uint64) *VoteMessage {
	return &VoteMessage{Round: round, SetID: setID, Message: SignedMessage{
		Stage: stage, BlockHash: vote.Hash, Number: vote.Number,
		Signature: verifSignature(kp, stage, vote, round, setID), AuthorityID: verifPub(kp),
	}}
}

// verifCommit assembles a commit message from signed precommits.
func verifCommit(round, setID uint64, target Vote, pcs []SignedVote) *CommitMessage {
	cm := &CommitMessage{Round: round, SetID: setID, Vote: target}
	for _, pc := range pcs {
		cm.Precommits = append(cm.Precommits, pc.Vote)
		cm.AuthData = append(cm.AuthData, AuthData{Signature: pc.Signature, AuthorityID: pc.AuthorityID})
	}
	return cm
}

// ---------------------------------------------------------------------------------------------
// fakes / wrappers around the real state

type verifTelemetry struct{}

func (verifTelemetry) SendMessage(_ json.Marshaler) {}

// verifNetwork is a fake Network: it records what the service sends; OnGossip / OnSend (optional)
// let a simulation forward the messages.
type verifNetwork struct {
	mu       sync.Mutex
	Gossiped []GrandpaMessage
	Sent     []GrandpaMessage
	OnGossip func(msg GrandpaMessage)
	OnSend   func(to peer.ID, msg GrandpaMessage)
}

func (n *verifNetwork) GossipMessage(msg NotificationsMessage) {
	cm, ok := msg.(*ConsensusMessage)
	if !ok {
		return
	}
	gm, err := decodeMessage(cm)
	if err != nil {
		return
	}
	n.mu.Lock()
	if len(n.Gossiped) < 4096 {
		n.Gossiped = append(n.Gossiped, gm)
	}
	f := n.OnGossip
	n.mu.Unlock()
	if f != nil {
		f(gm)
	}
}

func (n *verifNetwork) SendMessage(to peer.ID, msg NotificationsMessage) error {
	cm, ok := msg.(*ConsensusMessage)
	if !ok {
		return nil
	}
	gm, err := decodeMessage(cm)
	if err != nil {
		return nil
	}
	n.mu.Lock()
	if len(n.Sent) < 4096 {
		n.Sent = append(n.Sent, gm)
	}
	f := n.OnSend
	n.mu.Unlock()
	if f != nil {
		f(to, gm)
	}
	return nil
}

func (*verifNetwork) RegisterNotificationsProtocol(_ protocol.ID, _ network.MessageType,
	_ network.HandshakeGetter, _ network.HandshakeDecoder, _ network.HandshakeValidator,
	_ network.MessageDecoder, _ network.NotificationsMessageHandler,
	_ network.NotificationsMessageBatchHandler, _ uint64) error {
	return nil
}

// verifRuntime is the runtime instance stored for the genesis block: a real node always has one and
// reportEquivocation dereferences it. Only the two GRANDPA equivocation calls are implemented; they
// record what the service reported.
type verifRuntime struct {
	runtime.Instance
	mu      sync.Mutex
	Reports []types.GrandpaEquivocationProof
}

func (*verifRuntime) GrandpaGenerateKeyOwnershipProof(_ uint64, _ ed25519.PublicKeyBytes) (
	types.GrandpaOpaqueKeyOwnershipProof, error) {
	return types.GrandpaOpaqueKeyOwnershipProof{1}, nil
}

func (r *verifRuntime) GrandpaSubmitReportEquivocationUnsignedExtrinsic(
	p types.GrandpaEquivocationProof, _ types.GrandpaOpaqueKeyOwnershipProof) error {
	r.mu.Lock()
	r.Reports = append(r.Reports, p)
	r.mu.Unlock()
	return nil
}

func (*verifRuntime) Stop() {}

// verifFinalisation is one observed BlockState.SetFinalisedHash call.
type verifFinalisation struct {
	Hash  common.Hash
	Round uint64
	SetID uint64
	Err   error
}

// verifBlockState wraps the real BlockState and records SetFinalisedHash calls.
type verifBlockState struct {
	*state.BlockState
	mu    sync.Mutex
	Calls []verifFinalisation
	// OnFinalise (optional) is called after every SetFinalisedHash call.
	OnFinalise func(f verifFinalisation)
}

func (b *verifBlockState) SetFinalisedHash(h common.Hash, round, setID uint64) error {
	err := b.BlockState.SetFinalisedHash(h, round, setID)
	f := verifFinalisation{Hash: h, Round: round, SetID: setID, Err: err}
	b.mu.Lock()
	b.Calls = append(b.Calls, f)
	cb := b.OnFinalise
	b.mu.Unlock()
	if cb != nil {
		cb(f)
	}
	return err
}

// NumCalls returns the number of SetFinalisedHash calls seen so far.
func (b *verifBlockState) NumCalls() int {
	b.mu.Lock()
	defer b.mu.Unlock()
	return len(b.Calls)
}

// verifGrandpaState wraps the real GrandpaState; NextChange (optional) replaces
// NextGrandpaAuthorityChange so that a pending authority change can be presented to the voter.
type verifGrandpaState struct {
	*state.GrandpaState
	NextChange func(hash common.Hash, number uint) (uint, error)
}

func (g *verifGrandpaState) NextGrandpaAuthorityChange(h common.Hash, number uint) (uint, error) {
	if g.NextChange != nil {
		return g.NextChange(h, number)
	}
	return g.GrandpaState.NextGrandpaAuthorityChange(h, number)
}

// ---------------------------------------------------------------------------------------------
// node

// verifNodeOpts configures verifNewNode.
type verifNodeOpts struct {
	Self      int           // index of the key pair the service votes with
	SetID     uint64        // authority set id to start in (the set is installed through SetNextChange/IncrementSetID)
	Interval  time.Duration // gossip interval (0 = 1s; only relevant when Start() is used)
	SkipBlock func(i int) bool
}

// verifNode is one real GRANDPA service with its own real state.
type verifNode struct {
	Service *Service
	Block   *verifBlockState
	Grandpa *verifGrandpaState
	Net     *verifNetwork
	Runtime *verifRuntime
	DB      database.Database
	Tree    *verifTree
	Keys    []*ed25519.Keypair
}

var verifQuietOnce sync.Once

// verifQuiet silences the gossamer loggers (the harness decides from observations, not from logs).
func verifQuiet() {
	verifQuietOnce.Do(func() {
		log.Patch(log.SetLevel(log.Critical), log.SetWriter(io.Discard))
		logger.Patch(log.SetLevel(log.Critical), log.SetWriter(io.Discard))
	})
}

// verifNewNode builds a Service (authority, not started) whose BlockState holds every block of tree and
// whose voter set is kps. The caller must Close() it.
func verifNewNode(tree *verifTree, kps []*ed25519.Keypair, opts verifNodeOpts) (*verifNode, error) {
	verifQuiet()
	db, err := database.LoadDatabase("/verif-mem", true)
	if err != nil {
		return nil, fmt.Errorf("in-memory db: %w", err)
	}
	tel := verifTelemetry{}
	bs, err := state.NewBlockStateFromGenesis(db, state.NewTries(), tree.Headers[0], tel)
	if err != nil {
		_ = db.Close()
		return nil, fmt.Errorf("block state: %w", err)
	}
	rt := &verifRuntime{}
	bs.StoreRuntime(tree.Hashes[0], rt)
	for i := 1; i < tree.Len(); i++ {
		if opts.SkipBlock != nil && opts.SkipBlock(i) {
			continue
		}
		blk := &types.Block{Header: *tree.Headers[i], Body: types.Body{}}
		if err = bs.AddBlock(blk); err != nil {
			_ = db.Close()
			return nil, fmt.Errorf("add block %d: %w", i, err)
		}
	}
	voters := verifVoters(kps)
	gs, err := state.NewGrandpaStateFromGenesis(db, bs, voters, tel)
	if err != nil {
		_ = db.Close()
		return nil, fmt.Errorf("grandpa state: %w", err)
	}
	for id := uint64(0); id < opts.SetID; id++ {
		if err = gs.SetNextChange(voters, 0); err != nil {
			_ = db.Close()
			return nil, fmt.Errorf("set next change: %w", err)
		}
		if _, err = gs.IncrementSetID(); err != nil {
			_ = db.Close()
			return nil, fmt.Errorf("increment set id: %w", err)
		}
	}
	n := &verifNode{
		Block:   &verifBlockState{BlockState: bs},
		Grandpa: &verifGrandpaState{GrandpaState: gs},
		Net:     &verifNetwork{},
		Runtime: rt,
		DB:      db, Tree: tree, Keys: kps,
	}
	svc, err := NewService(&Config{
		LogLvl: log.Critical, BlockState: n.Block, GrandpaState: n.Grandpa, Network: n.Net,
		Voters: voters, Keypair: kps[opts.Self], Authority: true, Interval: opts.Interval, Telemetry: tel,
	})
	if err != nil {
		_ = db.Close()
		return nil, fmt.Errorf("new service: %w", err)
	}
	n.Service = svc
	return n, nil
}

// Close stops the service and releases the database.
func (n *verifNode) Close() {
	if n.Service != nil {
		_ = n.Service.Stop()
	}
	if n.DB != nil {
		_ = n.DB.Close()
	}
}

// FinalisedIndex returns the tree index of the highest finalised block as the real BlockState reports it.
func (n *verifNode) FinalisedIndex() int {
	h, err := n.Block.GetHighestFinalisedHeader()
	if err != nil {
		return -1
	}
	return n.Tree.Index(h.Hash())
}

// verifStateDigest is what the harness observes of a node's finality state.
type verifStateDigest struct {
	Finalised    string
	HighestRound uint64
	HighestSetID uint64
	Best         string
	Leaves       string
	SvcRound     uint64
	SvcSetID     uint64
	SvcHead      string
	Calls        int
}

// Digest snapshots the observable finality state.
func (n *verifNode) Digest() verifStateDigest {
	d := verifStateDigest{Calls: n.Block.NumCalls()}
	if h, err := n.Block.GetHighestFinalisedHeader(); err == nil {
		d.Finalised = h.Hash().String()
	}
	d.HighestRound, d.HighestSetID, _ = n.Block.GetHighestRoundAndSetID()
	d.Best = n.Block.BestBlockHash().String()
	lv := n.Block.Leaves()
	ls := make([]string, len(lv))
	for i, l := range lv {
		ls[i] = l.String()
	}
	sort.Strings(ls)
	d.Leaves = strings.Join(ls, ",")
	d.SvcRound = n.Service.state.round
	d.SvcSetID = n.Service.state.setID
	if n.Service.head != nil {
		d.SvcHead = n.Service.head.Hash().String()
	}
	return d
}
