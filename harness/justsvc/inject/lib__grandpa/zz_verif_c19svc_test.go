//go:build verif

package grandpa

// C19 at the lib/grandpa entry point (engine `justsvc`, second binary of property C19, registered as extra_runs of
// engine fgjust).
//
// Service.VerifyBlockJustification(hash, number, encoded) is what dot/sync's blockImporter calls for EVERY justified
// block a syncing node imports, before BlockState.SetFinalisedHash. It picks the authority set from the block NUMBER
// (GrandpaState.GetSetIDByBlockNumber), loads GetAuthorities(setID), gives every listed key weight 1, casts the
// number to uint32 and delegates to DecodeGrandpaJustificationVerifyFinalizes; it returns (round, setID, err).
//
// Workload ("world"): a real Service (verifNewNode) on a real GrandpaState holding 1-3 authority sets (set ids 0..2)
// whose set-id change blocks are recorded through the real API (HandleGRANDPADigest(scheduled change) +
// ApplyScheduledChanges(header of the effective block), or SetNextChange + IncrementSetID), and a real BlockState
// holding one chain from genesis plus the fork blocks of the generated scenario trees. Justifications come from the
// fgjust generator (zz_verif_c19svc_scen_test.go) for targets in the different sets.
//
// Oracle: the fgjust reference verdict (brute-force Tally of zz_verif/fg) evaluated with the authority set that the
// HARNESS' OWN bookkeeping of the set boundaries attributes to the presented block's number (change k recorded at
// block N_k: numbers <= N_k belong to the older set, N_k+1 is the first block of set k). Accepted => the returned
// set id is that set and the returned round is the justification's round.

import (
	"encoding/hex"
	"fmt"
	"runtime/debug"
	"strings"
	"testing"

	"github.com/ChainSafe/gossamer/dot/types"
	"github.com/ChainSafe/gossamer/internal/primitives/core/hash"
	pruntime "github.com/ChainSafe/gossamer/internal/primitives/runtime"
	"github.com/ChainSafe/gossamer/internal/primitives/runtime/generic"
	"github.com/ChainSafe/gossamer/lib/crypto/ed25519"
	"github.com/ChainSafe/gossamer/pkg/scale"
	"github.com/ChainSafe/gossamer/zz_verif/fg"
	"github.com/ChainSafe/gossamer/zz_verif/vcommon"
)

// ---------------------------------------------------------------- world

type c19Change struct {
	At       uint   `json:"recorded_at_block"` // last block of the older set
	How      string `json:"recorded_through"`  // "digest": HandleGRANDPADigest + ApplyScheduledChanges; "api": SetNextChange + IncrementSetID
	Announce uint   `json:"announced_at_block,omitempty"`
	Delay    uint32 `json:"delay,omitempty"`
}

type c19World struct {
	Sets    [][]int     `json:"authority_sets"` // per set id: key pool indexes in listing order (a key may be listed twice)
	Changes []c19Change `json:"set_changes"`    // Changes[k-1] introduces set k
	StemLen int         `json:"chain_length"`   // blocks 0..StemLen-1 form the chain; world block index == number there
	Scens   []*c19Scen  `json:"scenarios,omitempty"`
	Parents []int       `json:"world_parents,omitempty"`
}

// setOf is the harness' bookkeeping: the authority set a block number belongs to.
func (w *c19World) setOf(n uint) uint64 {
	var id uint64
	for _, ch := range w.Changes {
		if n > ch.At {
			id++
		}
	}
	return id
}

func (w *c19World) rangeOf(set int) (lo, hi uint) {
	if set > 0 {
		lo = w.Changes[set-1].At + 1
	}
	hi = uint(w.StemLen - 1)
	if set < len(w.Changes) {
		hi = w.Changes[set].At
	}
	return lo, hi
}

// place maps the blocks of the scenario tree onto world blocks: the root is the chain block with number RootNum, a
// first child continues the chain when Stem is set and the chain goes on, every other block is a new fork block.
func (w *c19World) place(s *c19Scen) {
	s.init()
	if w.Parents == nil {
		w.Parents = make([]int, w.StemLen)
		for i := range w.Parents {
			w.Parents[i] = i - 1
		}
	}
	n := s.tree.N()
	s.World = make([]int, n)
	s.World[0] = int(s.RootNum)
	claimed := map[int]bool{}
	for i := 1; i < n; i++ {
		p := s.World[s.Parents[i]]
		if s.Stem && p+1 < w.StemLen && !claimed[p+1] {
			s.World[i] = p + 1
			claimed[p+1] = true
			continue
		}
		w.Parents = append(w.Parents, p)
		s.World[i] = len(w.Parents) - 1
	}
}

var c19LibKeys = func() []*ed25519.Keypair {
	var out []*ed25519.Keypair
	for _, seed := range c19Seeds {
		kp, err := ed25519.NewKeypairFromSeed(seed[:])
		if err != nil {
			panic(err)
		}
		out = append(out, kp)
	}
	return out
}()

func c19Voters(listing []int) []types.GrandpaVoter {
	var out []types.GrandpaVoter
	for i, k := range listing {
		out = append(out, types.GrandpaVoter{Key: *c19LibKeys[k].Public().(*ed25519.PublicKey), ID: uint64(i)})
	}
	return out
}

type c19Live struct {
	w         *c19World
	node      *verifNode
	gen       map[int]pruntime.Header[uint32, hash.H256]
	enacted   int          // number of set changes enacted so far (= current set id)
	announced map[int]bool // digest changes already handed to HandleGRANDPADigest
}

// c19Open builds the node of world w: every block is in the BlockState, set 0 is current, no change is recorded yet.
func c19Open(w *c19World, salt uint64) (*c19Live, error) {
	for k := range c19Pairs {
		pub := c19Pub(k)
		if string(pub[:]) != string(c19LibKeys[k].Public().Encode()) {
			return nil, fmt.Errorf("key pool: the two ed25519 packages derive different public keys from seed %d", k)
		}
	}
	tree := verifTreeFromParents(w.Parents, salt)
	var kps []*ed25519.Keypair
	for _, k := range w.Sets[0] {
		kps = append(kps, c19LibKeys[k])
	}
	node, err := verifNewNode(tree, kps, verifNodeOpts{Self: 0})
	if err != nil {
		return nil, err
	}
	return &c19Live{w: w, node: node, gen: map[int]pruntime.Header[uint32, hash.H256]{}, announced: map[int]bool{}}, nil
}

// announce hands the scheduled-change digest of change k (index into Changes) to the GrandpaState, as the digest
// handler does when the announcing block is imported.
func (l *c19Live) announce(k int) error {
	ch, tree := l.w.Changes[k], l.node.Tree
	if ch.How != "digest" || l.announced[k] {
		return nil
	}
	next := c19Voters(l.w.Sets[k+1])
	var raw []types.GrandpaAuthoritiesRaw
	for i := range next {
		raw = append(raw, types.GrandpaAuthoritiesRaw{Key: [32]byte(next[i].PublicKeyBytes()), ID: next[i].ID})
	}
	d := types.NewGrandpaConsensusDigest()
	if err := d.SetValue(types.GrandpaScheduledChange{Auths: raw, Delay: ch.Delay}); err != nil {
		return err
	}
	l.announced[k] = true
	return l.node.Grandpa.GrandpaState.HandleGRANDPADigest(tree.Headers[ch.Announce], d)
}

// enact records set change k the way production does: ApplyScheduledChanges with the header of the effective block
// (what the digest handler does when that block is finalised), or SetNextChange + IncrementSetID.
func (l *c19Live) enact(k int) error {
	ch, gs := l.w.Changes[k], l.node.Grandpa.GrandpaState
	var err error
	switch ch.How {
	case "digest":
		if err = l.announce(k); err == nil {
			err = gs.ApplyScheduledChanges(l.node.Tree.Headers[ch.At])
		}
	default:
		if err = gs.SetNextChange(c19Voters(l.w.Sets[k+1]), ch.At); err == nil {
			_, err = gs.IncrementSetID()
		}
	}
	if err != nil {
		return fmt.Errorf("recording set change %d (%+v): %w", k+1, ch, err)
	}
	cur, err := gs.GetCurrentSetID()
	if err != nil || cur != uint64(k+1) {
		return fmt.Errorf("set change %d (%+v) was not enacted: current set id %d, err %v", k+1, ch, cur, err)
	}
	l.enacted = k + 1
	return nil
}

func (l *c19Live) hashOf(wb int) hash.H256 { return hash.H256(l.node.Tree.Hashes[wb].ToBytes()) }

// headerOf re-decodes the real header of world block wb as the generic header type justifications carry.
func (l *c19Live) headerOf(wb int) pruntime.Header[uint32, hash.H256] {
	if h, ok := l.gen[wb]; ok {
		return h
	}
	enc, err := scale.Marshal(*l.node.Tree.Headers[wb])
	if err != nil {
		panic(err)
	}
	gh := new(generic.Header[uint32, hash.H256, pruntime.BlakeTwo256])
	if err = scale.Unmarshal(enc, gh); err != nil {
		panic(fmt.Sprintf("generic header of world block %d: %v", wb, err))
	}
	if gh.Hash() != l.hashOf(wb) {
		panic(fmt.Sprintf("generic header of world block %d hashes differently from the dot/types header", wb))
	}
	l.gen[wb] = gh
	return gh
}

// ---------------------------------------------------------------- generation of a world

var c19SetPool = 12 // keys 0..11 may be authorities; 12..15 never are

func c19GenSets(r *vcommon.Rand, n int) [][]int {
	pick := func(k int, avoid map[int]bool) []int {
		var out []int
		for _, x := range r.Perm(c19SetPool) {
			if len(out) < k && !avoid[x] {
				out = append(out, x)
			}
		}
		return out
	}
	size := func() int {
		if r.Chance(1, 5) {
			return r.Range(1, 2)
		}
		return r.Range(3, 6)
	}
	sets := [][]int{pick(size(), nil)}
	for len(sets) < n {
		prev := sets[len(sets)-1]
		in := map[int]bool{}
		for _, k := range prev {
			in[k] = true
		}
		var next []int
		switch x := r.Intn(100); {
		case x < 25: // identical keys, new set id
			next = append(next, prev...)
		case x < 45: // disjoint
			next = pick(size(), in)
		case x < 70: // overlapping: replace 1-2 members
			next = append(next, prev...)
			for i := r.Range(1, 2); i > 0; i-- {
				next[r.Intn(len(next))] = pick(1, in)[0]
			}
		case x < 85: // superset
			next = append(append(next, prev...), pick(r.Range(1, 2), in)...)
		default: // subset
			next = append(next, prev...)
			if len(next) > 1 {
				i := r.Intn(len(next))
				next = append(next[:i:i], next[i+1:]...)
			}
		}
		// a replacement may have produced a repeated key by accident: keep it, repeated listings are part of the input space
		if r.Chance(1, 2) {
			p := r.Perm(len(next))
			sh := make([]int, len(next))
			for i, j := range p {
				sh[i] = next[j]
			}
			next = sh
		}
		sets = append(sets, next)
	}
	for i := range sets {
		if r.Chance(1, 10) { // a key listed twice (weights are summed)
			sets[i] = append(sets[i], vcommon.Pick(r, sets[i]))
		}
	}
	return sets
}

func c19Outsiders(listing []int) []int {
	in := map[int]bool{}
	for _, k := range listing {
		in[k] = true
	}
	var out []int
	for k := 0; k < c19PoolSize; k++ {
		if !in[k] {
			out = append(out, k)
		}
	}
	return out
}

func c19GenWorld(r *vcommon.Rand) *c19World {
	nSets := 3
	switch x := r.Intn(100); {
	case x < 12:
		nSets = 1
	case x < 42:
		nSets = 2
	}
	w := &c19World{Sets: c19GenSets(r, nSets)}
	at := uint(0)
	for k := 1; k < nSets; k++ {
		lowest := at + 1 // announced after the previous change was enacted
		at += uint(r.Range(1, 5))
		ch := c19Change{At: at, How: "digest"}
		if r.Chance(3, 10) {
			ch.How = "api"
		} else {
			lo := lowest
			if at > 3 && at-3 > lo {
				lo = at - 3
			}
			ch.Announce = uint(r.Range(int(lo), int(at)))
			ch.Delay = uint32(at - ch.Announce)
		}
		w.Changes = append(w.Changes, ch)
	}
	w.StemLen = int(at) + r.Range(3, 6)
	last := nSets - 1
	for i := r.Range(6, 10); i > 0; i-- {
		st := r.Intn(nSets)
		keysOf, signed, kind := st, uint64(st), "own-set"
		if nSets == 1 {
			if r.Chance(1, 10) {
				signed, kind = 1, "own-keys-other-set-id"
			}
		} else {
			other := func() int {
				if st == 0 || (st < last && r.Bool()) {
					return st + 1
				}
				return st - 1
			}
			switch x := r.Intn(100); {
			case x < 50:
			case x < 62:
				st = r.Range(1, last)
				keysOf, signed, kind = st-1, uint64(st-1), "previous-set-signs-block-of-next-set"
			case x < 74:
				st = r.Range(0, last-1)
				keysOf, signed, kind = st+1, uint64(st+1), "next-set-signs-block-of-previous-set"
			case x < 84:
				keysOf, signed, kind = st, uint64(other()), "own-keys-other-set-id"
			case x < 94:
				keysOf, signed, kind = other(), uint64(st), "other-keys-own-set-id"
			}
		}
		lo, hi := w.rangeOf(st)
		num := uint(r.Range(int(lo), int(hi)))
		switch x := r.Intn(100); {
		case x < 35 && st < last:
			num = hi // last block of the set: the block the change is recorded at
		case x < 70 && st > 0:
			num = lo // first block of the set
		}
		s := c19GenScen(r, 7, w.Sets[keysOf], keysOf, signed, uint64(num), c19Outsiders(w.Sets[keysOf]), true)
		s.Kind = kind
		w.place(s)
		w.Scens = append(w.Scens, s)
	}
	return w
}

// ---------------------------------------------------------------- checking one scenario

func c19CrossLabel(s *c19Scen, set uint64) string {
	k, id := uint64(s.KeysOf), s.SetID //nolint:gosec
	switch {
	case k == set && id == set:
		return "own-set"
	case k == id && id+1 == set:
		return "previous-set-signs-block-of-next-set"
	case k == id && id == set+1:
		return "next-set-signs-block-of-previous-set"
	case k == set:
		return "own-keys-other-set-id"
	case id == set:
		return "other-keys-own-set-id"
	}
	return "other-keys-other-set-id"
}

// presented is the world block whose hash and number the caller (block importer) hands in.
func (l *c19Live) presented(s *c19Scen) int {
	if !s.OtherFin {
		return s.World[s.Target]
	}
	if n := s.tree.N(); n > 1 {
		return s.World[(s.Target+1)%n]
	}
	if int(s.RootNum)+1 < l.w.StemLen {
		return int(s.RootNum) + 1
	}
	return int(s.RootNum) - 1
}

// c19SvcCheck verifies scenario si in the node's present state. early = not every set change is enacted yet (the
// caller only passes scenarios whose presented number is not above the next change block): fewer orders, and only
// the svc_early_* counters are fed.
func c19SvcCheck(c *vcommon.Case, l *c19Live, si int, perms int, early, nextAnnounced bool) {
	w, s, tree := l.w, l.w.Scens[si], l.node.Tree
	s.init()
	for i, wb := range s.World {
		if uint64(tree.Number[wb]) != s.num(i) {
			c.Inconclusive(fmt.Sprintf("harness: scenario %d block %d placed on world block %d with number %d, want %d", si, i, wb, tree.Number[wb], s.num(i)))
			return
		}
	}
	pb := l.presented(s)
	pn := tree.Number[pb]
	set := w.setOf(pn)
	view := s.viewFor(set, w.Sets[set])
	mw, tw := view.memberWeights(), view.totalWeight()
	strict, lenient := view.justVerdict(true, mw, tw), view.justVerdict(false, mw, tw)
	ambiguous := strict.ambiguous || lenient.ambiguous
	undecided := ambiguous || strict.ok != lenient.ok
	if s.Want != "" && (undecided || (s.Want == "accept") != strict.ok) {
		c.Inconclusive(fmt.Sprintf("harness: reference verdict of corpus scenario %d is %v/%v (%s), hand-computed: %s", si, strict.ok, lenient.ok, strict.reason, s.Want))
		return
	}
	b := c19Build(s, l.hashOf, l.headerOf)
	orders := [][]int{c19Identity(len(s.PCs)), c19Reversed(len(s.PCs)), s.descending()}
	if early {
		orders = orders[:1]
	}
	for i := 0; i < perms; i++ {
		orders = append(orders, c.R.Perm(len(s.PCs)))
	}
	cur, _ := l.node.Grandpa.GetCurrentSetID()
	label := c19CrossLabel(s, set)
	last := uint64(len(w.Changes))
	isLast := set < last && pn == w.Changes[set].At
	isFirst := set > 0 && pn == w.Changes[set-1].At+1
	wit := func(order, hdrOrder []int, enc []byte, got, want any, err error) map[string]any {
		return map[string]any{"world": map[string]any{"authority_sets": w.Sets, "set_changes": w.Changes, "chain_length": w.StemLen, "current_set_id": cur},
			"scenario": s, "presented_block_number": pn, "presented_block_hash": tree.Hashes[pb].String(),
			"set_of_presented_number_per_harness_bookkeeping": set, "authority_listing_of_that_set": w.Sets[set],
			"kind": label, "precommit_order": order, "header_order": hdrOrder, "justification_hex": hex.EncodeToString(enc),
			"observed": got, "expected": want, "expected_reason": strict.reason, "error": fmt.Sprint(err),
			"threshold": fg.Threshold(tw), "total_weight": tw}
	}
	var first *bool
	for oi, order := range orders {
		hdrOrder := c19Identity(len(s.Headers))
		if oi%2 == 1 {
			hdrOrder = c.R.Perm(len(s.Headers))
		}
		enc, err := scale.Marshal(b.justification(s, order, hdrOrder))
		if err != nil {
			c.Inconclusive("harness: cannot encode the justification: " + err.Error())
			return
		}
		round, gotSet, err := l.node.Service.VerifyBlockJustification(tree.Hashes[pb], pn, enc)
		got := err == nil
		c.Eval(1)
		if early {
			c.Count("svc_early_calls", 1)
		} else {
			c.Count("svc_verify_block_justification_calls", 1)
		}
		if got && (gotSet != set || round != s.Round) {
			c.Violation("svc-wrong-set-or-round-returned", fmt.Sprintf("VerifyBlockJustification(#%d) accepted and returned round=%d setID=%d; block #%d belongs to set %d and the justification is of round %d",
				pn, round, gotSet, pn, set, s.Round), wit(order, hdrOrder, enc, []uint64{round, gotSet}, []uint64{s.Round, set}, err))
			return
		}
		if ambiguous {
			continue
		}
		if undecided {
			// the reading of the property is open here (fgjust's scoping), but the order must still not matter
			if first == nil {
				v := got
				first = &v
			} else if *first != got {
				c.Violation("svc-justification-order-dependent", fmt.Sprintf("VerifyBlockJustification(#%d) accepted=%v but another order gave %v (err=%v)", pn, got, *first, err),
					wit(order, hdrOrder, enc, got, *first, err))
				return
			}
			continue
		}
		if got != strict.ok {
			cls := "svc-justification-accepted-invalid"
			if strict.ok {
				cls = "svc-justification-rejected-valid"
			}
			if label != "own-set" {
				cls += "+cross-set"
			}
			c.Violation(cls, fmt.Sprintf("VerifyBlockJustification(#%d, set %d per bookkeeping, %s) accepted=%v (err=%v), definition: %v (%s)", pn, set, label, got, err, strict.ok, strict.reason),
				wit(order, hdrOrder, enc, got, strict.ok, err))
			return
		}
	}
	// ---- what was seen
	if early {
		if undecided {
			return
		}
		verdict := "rejected"
		if strict.ok {
			verdict = "accepted"
		}
		if set == cur {
			c.Count("svc_early_block_of_the_current_set_"+verdict, 1)
		} else {
			c.Count("svc_early_block_of_an_older_set_"+verdict, 1)
		}
		if pn == w.Changes[l.enacted].At {
			c.Count("svc_early_change_block_before_its_change_is_enacted_"+verdict, 1)
		}
		if nextAnnounced {
			c.Count("svc_early_while_the_next_change_is_announced_"+verdict, 1)
		}
		if label != "own-set" {
			c.Count("svc_early_cross_set_"+verdict, 1)
		}
		return
	}
	verdict := "rejected"
	switch {
	case ambiguous:
		c.Count("svc_scenarios_ghost_not_unique", 1)
		return
	case undecided:
		c.Count("svc_justification_reading_open(non-member/bad-signature precommit not needed for supermajority)", 1)
		c.Count("svc_"+label+"_open", 1)
		return
	case strict.ok:
		verdict = "accepted"
		c.Count("svc_justifications_valid", 1)
		if len(s.Headers) > 0 {
			c.Count("svc_justifications_valid_with_ancestry", 1)
		}
	default:
		c.Count("svc_justification_invalid:"+strict.reason, 1)
	}
	c.Count(fmt.Sprintf("svc_set%d_%s", set, verdict), 1)
	c.Count("svc_"+label+"_"+verdict, 1)
	if verdict == "rejected" && label != "own-set" && label != "other-keys-own-set-id" {
		c.Count("svc_cross_set_rejected", 1)
	}
	if set != cur {
		c.Count("svc_block_of_a_set_that_is_not_the_current_one_"+verdict, 1)
	}
	if isLast {
		c.Count("svc_boundary_last_block_of_a_set_"+verdict, 1)
	}
	if isFirst {
		c.Count("svc_boundary_first_block_of_a_set_"+verdict, 1)
	}
	crosses := false
	for _, pc := range s.PCs {
		if w.setOf(uint(s.num(pc.Target))) != set {
			crosses = true
		}
	}
	if crosses && strict.ok {
		c.Count("svc_valid_with_precommits_on_blocks_numbered_into_the_next_set", 1)
	}
	mwSeen := false
	for _, x := range mw {
		if x > 1 {
			mwSeen = true
		}
	}
	if mwSeen {
		c.Count("svc_verifying_set_lists_a_key_twice_"+verdict, 1)
	}
}

func c19RunWorld(c *vcommon.Case, w *c19World, perms int) {
	l, err := c19Open(w, c.R.Uint64())
	if err != nil {
		c.Inconclusive("harness: cannot build the world: " + err.Error())
		return
	}
	defer l.node.Close()
	c.Count(fmt.Sprintf("svc_worlds_with_%d_sets", len(w.Sets)), 1)
	for _, ch := range w.Changes {
		c.Count("svc_set_changes_recorded_through_"+ch.How, 1)
	}
	for k := 1; k < len(w.Sets); k++ {
		if fmt.Sprint(c19Sorted(w.Sets[k])) == fmt.Sprint(c19Sorted(w.Sets[k-1])) {
			c.Count("svc_consecutive_sets_with_identical_keys", 1)
		}
	}
	// early stages: the node has enacted `stage` changes, as a syncing node that has not reached the later change
	// blocks yet. Only blocks up to the next change block (inclusive: it is verified BEFORE its change is enacted) are
	// presented; their set is the same in the final bookkeeping.
	for stage := 0; stage < len(w.Changes); stage++ {
		nextAnnounced := false
		if w.Changes[stage].How == "digest" && c.R.Bool() {
			if err = l.announce(stage); err != nil {
				c.Inconclusive("harness: cannot announce a set change: " + err.Error())
				return
			}
			nextAnnounced = true
		}
		for si, s := range w.Scens {
			if c.Failed() {
				return
			}
			s.init()
			if l.node.Tree.Number[l.presented(s)] <= w.Changes[stage].At {
				c19SvcCheck(c, l, si, 1, true, nextAnnounced)
			}
		}
		if err = l.enact(stage); err != nil {
			c.Inconclusive("harness: " + err.Error())
			return
		}
	}
	for si := range w.Scens {
		if c.Failed() {
			return
		}
		c19SvcCheck(c, l, si, perms, false, false)
	}
}

func c19Sorted(x []int) []int {
	out := append([]int(nil), x...)
	for i := range out {
		for j := i + 1; j < len(out); j++ {
			if out[j] < out[i] {
				out[i], out[j] = out[j], out[i]
			}
		}
	}
	return out
}

// ---------------------------------------------------------------- corpus

func c19Chain(n int) []int {
	p := make([]int, n)
	for i := range p {
		p[i] = i - 1
	}
	return p
}

func c19Corpus() []*c19World {
	all := func(keys []int, target int) []c19PC {
		var out []c19PC
		for _, k := range keys {
			out = append(out, c19PC{Key: k, Target: target})
		}
		return out
	}
	bad := func(pcs []c19PC, fault int) []c19PC {
		for i := range pcs {
			pcs[i].Bad = fault
		}
		return pcs
	}
	k4 := []int{0, 1, 2, 3}
	ws := []*c19World{
		// A: one authority set
		{Sets: [][]int{k4}, StemLen: 5, Scens: []*c19Scen{
			// the repository's own example shape: 3 of 4 on a(#1), one of them on the child b(#2); header of b supplied
			{Parents: c19Chain(2), RootNum: 1, PCs: []c19PC{{Key: 0, Target: 0}, {Key: 1, Target: 0}, {Key: 2, Target: 1}}, Target: 0, Headers: []int{1}, Round: 1, Stem: true, Want: "accept"},
			{Parents: c19Chain(2), RootNum: 1, SetID: 1, PCs: []c19PC{{Key: 0, Target: 0}, {Key: 1, Target: 0}, {Key: 2, Target: 1}}, Target: 0, Headers: []int{1}, Round: 1, Stem: true, Want: "reject"},
			{Parents: c19Chain(2), RootNum: 1, PCs: []c19PC{{Key: 0, Target: 0}, {Key: 1, Target: 1}}, Target: 0, Headers: []int{1}, Round: 1, Want: "reject"},
			{Parents: c19Chain(3), RootNum: 1, PCs: []c19PC{{Key: 2, Target: 2}, {Key: 1, Target: 1}, {Key: 0, Target: 0}}, Target: 0, Headers: []int{1, 2}, Round: 7, Stem: true, Want: "accept"},
			{Parents: c19Chain(1), RootNum: 0, PCs: all(k4, 0), Target: 0, Round: 2, Want: "accept"}, // genesis
			{Parents: c19Chain(1), RootNum: 3, PCs: all(k4, 0), Target: 0, Round: 2, OtherFin: true, Want: "reject"},
			{Parents: c19Chain(1), RootNum: 3, PCs: all(k4, 0), Target: 0, NumOff: 1, Round: 2, Want: "reject"},
		}},
		// B: three sets with IDENTICAL keys: only the set id inside the signed payload tells them apart.
		// set 0 = #0..#3, set 1 = #4..#6, set 2 = #7..
		{Sets: [][]int{k4, k4, k4}, StemLen: 10,
			Changes: []c19Change{{At: 3, How: "digest", Announce: 1, Delay: 2}, {At: 6, How: "api"}}, Scens: []*c19Scen{
				{Parents: c19Chain(1), RootNum: 3, KeysOf: 0, SetID: 0, PCs: all(k4[:3], 0), Target: 0, Round: 4, Want: "accept"}, // last block of set 0
				{Parents: c19Chain(1), RootNum: 4, KeysOf: 1, SetID: 1, PCs: all(k4[:3], 0), Target: 0, Round: 1, Want: "accept"}, // first block of set 1
				{Parents: c19Chain(1), RootNum: 4, KeysOf: 0, SetID: 0, PCs: all(k4, 0), Target: 0, Round: 5, Want: "reject"},     // previous set signs for the next set's block
				{Parents: c19Chain(1), RootNum: 3, KeysOf: 1, SetID: 1, PCs: all(k4, 0), Target: 0, Round: 1, Want: "reject"},     // next set signs for the previous set's block
				{Parents: c19Chain(1), RootNum: 6, KeysOf: 1, SetID: 1, PCs: all(k4[1:], 0), Target: 0, Round: 9, Want: "accept"}, // last block of set 1
				{Parents: c19Chain(1), RootNum: 7, KeysOf: 2, SetID: 2, PCs: all(k4[1:], 0), Target: 0, Round: 1, Want: "accept"}, // first block of set 2
				{Parents: c19Chain(1), RootNum: 7, KeysOf: 1, SetID: 1, PCs: all(k4, 0), Target: 0, Round: 10, Want: "reject"},
				{Parents: c19Chain(1), RootNum: 6, KeysOf: 2, SetID: 2, PCs: all(k4, 0), Target: 0, Round: 1, Want: "reject"},
				// block #2 of set 0 justified by precommits on its descendants #3 (set 0), #5 (numbered into set 1), all signed by set 0
				{Parents: c19Chain(4), RootNum: 2, KeysOf: 0, SetID: 0, PCs: []c19PC{{Key: 0, Target: 3}, {Key: 1, Target: 1}, {Key: 2, Target: 0}}, Target: 0, Headers: []int{1, 2, 3}, Round: 3, Stem: true, Want: "accept"},
				{Parents: c19Chain(1), RootNum: 9, KeysOf: 2, SetID: 2, PCs: all(k4[:3], 0), Target: 0, Round: 2, Want: "accept"},
				// every signature made with set id 0+1: valid for the first block of set 1
				{Parents: c19Chain(1), RootNum: 4, KeysOf: 0, SetID: 0, PCs: bad(all(k4[:3], 0), c19SigWrongSet), Target: 0, Round: 1, Want: "accept"},
				{Parents: c19Chain(1), RootNum: 1, KeysOf: 0, SetID: 0, PCs: all(k4[:3], 0), Target: 0, Round: 1, Want: "accept"}, // old set while set 2 is current
				{Parents: c19Chain(1), RootNum: 1, KeysOf: 2, SetID: 2, PCs: all(k4, 0), Target: 0, Round: 1, Want: "reject"},     // current set signs for a block of set 0
			}},
		// C: different keys per set, both changes through digests. set 0 = #0..#2 {0,1,2}, set 1 = #3..#4 {3,4,5,6}, set 2 = #5.. {2,3,4,7,8}
		{Sets: [][]int{{0, 1, 2}, {3, 4, 5, 6}, {2, 3, 4, 7, 8}}, StemLen: 8,
			Changes: []c19Change{{At: 2, How: "digest", Announce: 2, Delay: 0}, {At: 4, How: "digest", Announce: 3, Delay: 1}}, Scens: []*c19Scen{
				{Parents: c19Chain(1), RootNum: 1, KeysOf: 0, SetID: 0, PCs: all([]int{0, 1, 2}, 0), Target: 0, Round: 1, Want: "accept"},
				{Parents: c19Chain(1), RootNum: 3, KeysOf: 1, SetID: 1, PCs: all([]int{3, 4, 5}, 0), Target: 0, Round: 1, Want: "accept"},
				{Parents: c19Chain(1), RootNum: 3, KeysOf: 0, SetID: 1, PCs: all([]int{0, 1, 2}, 0), Target: 0, Round: 1, Want: "reject"}, // former authorities sign with the new id
				{Parents: c19Chain(1), RootNum: 5, KeysOf: 2, SetID: 2, PCs: all([]int{2, 3, 4, 7}, 0), Target: 0, Round: 1, Want: "accept"},
				{Parents: c19Chain(1), RootNum: 5, KeysOf: 1, SetID: 2, PCs: all([]int{3, 4, 5, 6}, 0), Target: 0, Round: 1, Want: "reject"}, // only 3, 4 are members: 2 of 5
				{Parents: c19Chain(1), RootNum: 4, KeysOf: 2, SetID: 2, PCs: all([]int{2, 3, 4, 7, 8}, 0), Target: 0, Round: 1, Want: "reject"},
				{Parents: c19Chain(1), RootNum: 2, KeysOf: 0, SetID: 0, PCs: all([]int{0, 1}, 0), Target: 0, Round: 1, Want: "reject"}, // 2 of 3
				{Parents: c19Chain(1), RootNum: 2, KeysOf: 0, SetID: 0, PCs: all([]int{0, 1, 2}, 0), Target: 0, Round: 6, Want: "accept"},
				{Parents: c19Chain(1), RootNum: 3, KeysOf: 0, SetID: 0, PCs: all([]int{0, 1, 2}, 0), Target: 0, Round: 6, Want: "reject"},
			}},
		// D: key 0 listed twice (weight 2 of 4, threshold 3); set 1 lists it once (threshold 3 of 3)
		{Sets: [][]int{{0, 1, 2, 0}, {0, 1, 2}}, StemLen: 6, Changes: []c19Change{{At: 2, How: "api"}}, Scens: []*c19Scen{
			{Parents: c19Chain(1), RootNum: 2, KeysOf: 0, SetID: 0, PCs: all([]int{0, 1}, 0), Target: 0, Round: 1, Want: "accept"},
			{Parents: c19Chain(1), RootNum: 2, KeysOf: 0, SetID: 0, PCs: all([]int{1, 2}, 0), Target: 0, Round: 1, Want: "reject"},
			{Parents: c19Chain(1), RootNum: 3, KeysOf: 1, SetID: 1, PCs: all([]int{0, 1}, 0), Target: 0, Round: 1, Want: "reject"},
			{Parents: c19Chain(1), RootNum: 3, KeysOf: 1, SetID: 1, PCs: all([]int{0, 1, 2}, 0), Target: 0, Round: 1, Want: "accept"},
		}},
	}
	for _, w := range ws {
		for _, s := range w.Scens {
			w.place(s)
		}
	}
	return ws
}

// ---------------------------------------------------------------- test

func TestVerifC19Svc(t *testing.T) {
	r := vcommon.Start(t, "C19")
	defer r.Finish()
	defer debug.SetGCPercent(debug.SetGCPercent(400))
	if bad := fg.SelfCheck(); len(bad) > 0 {
		r.Cases("svc-selfcheck", 1, func(c *vcommon.Case) {
			c.Inconclusive("reference Tally failed its self-validation: " + strings.Join(bad, ","))
		})
		return
	}
	r.Floor("svc_verify_block_justification_calls", 10000)
	r.Floor("svc_justifications_valid", 400)
	r.Floor("svc_justifications_valid_with_ancestry", 200)
	for set := 0; set < 3; set++ {
		r.Floor(fmt.Sprintf("svc_set%d_accepted", set), 60)
		r.Floor(fmt.Sprintf("svc_set%d_rejected", set), 200)
	}
	r.Floor("svc_block_of_a_set_that_is_not_the_current_one_accepted", 200)
	r.Floor("svc_block_of_a_set_that_is_not_the_current_one_rejected", 600)
	r.Floor("svc_previous-set-signs-block-of-next-set_rejected", 150)
	r.Floor("svc_next-set-signs-block-of-previous-set_rejected", 150)
	r.Floor("svc_own-keys-other-set-id_rejected", 150)
	r.Floor("svc_other-keys-own-set-id_rejected", 100)
	r.Floor("svc_other-keys-own-set-id_accepted", 15)
	r.Floor("svc_boundary_last_block_of_a_set_accepted", 100)
	r.Floor("svc_boundary_last_block_of_a_set_rejected", 300)
	r.Floor("svc_boundary_first_block_of_a_set_accepted", 100)
	r.Floor("svc_boundary_first_block_of_a_set_rejected", 300)
	r.Floor("svc_valid_with_precommits_on_blocks_numbered_into_the_next_set", 50)
	r.Floor("svc_set_changes_recorded_through_digest", 250)
	r.Floor("svc_set_changes_recorded_through_api", 80)
	r.Floor("svc_consecutive_sets_with_identical_keys", 60)
	r.Floor("svc_verifying_set_lists_a_key_twice_accepted", 30)
	r.Floor("svc_justification_invalid:no-supermajority", 300)
	r.Floor("svc_justification_invalid:ghost-is-not-the-target", 50)
	r.Floor("svc_justification_invalid:not-the-expected-target", 100)
	r.Floor("svc_justification_invalid:wrong-target-number", 50)
	r.Floor("svc_justification_invalid:unused-header", 40)
	r.Floor("svc_justification_invalid:bad-signature", 200)
	r.Floor("svc_justification_invalid:precommit-not-connected-to-base", 100)

	r.Floor("svc_early_calls", 3000)
	r.Floor("svc_early_block_of_the_current_set_accepted", 150)
	r.Floor("svc_early_block_of_the_current_set_rejected", 400)
	r.Floor("svc_early_block_of_an_older_set_accepted", 30)
	r.Floor("svc_early_change_block_before_its_change_is_enacted_accepted", 60)
	r.Floor("svc_early_change_block_before_its_change_is_enacted_rejected", 150)
	r.Floor("svc_early_while_the_next_change_is_announced_accepted", 40)
	r.Floor("svc_early_cross_set_rejected", 150)

	cw := c19Corpus()
	r.Fixed("svc-corpus", len(cw), func(c *vcommon.Case) {
		c19RunWorld(c, cw[c.Idx], 4)
		c.Distinct(fmt.Sprint("svc-corpus", c.Idx))
		c.Sample(map[string]any{"world": cw[c.Idx]})
	})
	r.Cases("svc", r.Scale(500), func(c *vcommon.Case) {
		w := c19GenWorld(c.R)
		c19RunWorld(c, w, 2)
		for _, s := range w.Scens {
			c.Distinct(fmt.Sprint(w.Sets, w.Changes, s.Parents, s.RootNum, s.PCs, s.Target, s.Headers, s.SetID, s.KeysOf, s.OtherFin, s.NumOff))
		}
		if c.Idx%32 == 0 {
			c.Sample(map[string]any{"world": w})
		}
	})
}
