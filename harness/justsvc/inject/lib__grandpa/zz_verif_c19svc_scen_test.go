//go:build verif

package grandpa

// C19 through the lib/grandpa Service: scenario, reference verdict, generator and justification encoder.
//
// FAITHFUL COPY of the corresponding parts of /verif/harness/fgjust/c19_test.go (engine fgjust, package
// zz_verif/fgjust), renamed with the prefix c19 because this file lives inside package grandpa. The reference Tally
// itself is NOT copied: it is imported from zz_verif/fg (engine.json "uses": ["fg"]).
//
// Differences to the original, all forced by the entry point (Service.VerifyBlockJustification takes its authority
// list from the GrandpaState and presents real blocks):
//   - the authority list of a scenario is not generated: c19Scen.viewFor(set) fills Auth from the authority set the
//     harness' own bookkeeping attributes to the presented block's number (one entry of weight 1 per listing of a
//     key) and marks every precommit whose signature is not valid for (round, THAT set id) as inv;
//   - signers are drawn from the authority set c19Scen.KeysOf and sign with the set id c19Scen.SetID (both may differ
//     from the set of the presented block: cross-set kinds);
//   - block numbers are the real numbers of blocks of one generated chain that starts at genesis (RootNum is the
//     number of the chain block the scenario tree hangs on), so the 2^14..2^32 number classes and the uint64 width of
//     the original are not generated here (the original keeps driving them);
//   - the level-A (ValidateCommit with string hashes) part, the NewVoterSet group and the authority-list mutations
//     (repeat-authority, zero-weight-authority) are left out;
//   - headers are the real dot/types headers of the blocks held by the BlockState, re-decoded as generic headers.

import (
	"fmt"
	"sort"
	"strings"

	primitives "github.com/ChainSafe/gossamer/internal/primitives/consensus/grandpa"
	ced25519 "github.com/ChainSafe/gossamer/internal/primitives/core/ed25519"
	"github.com/ChainSafe/gossamer/internal/primitives/core/hash"
	pruntime "github.com/ChainSafe/gossamer/internal/primitives/runtime"
	"github.com/ChainSafe/gossamer/internal/primitives/runtime/generic"
	fgrandpa "github.com/ChainSafe/gossamer/pkg/finality-grandpa"
	"github.com/ChainSafe/gossamer/zz_verif/fg"
	"github.com/ChainSafe/gossamer/zz_verif/vcommon"
)

// ---------------------------------------------------------------- scenario

type c19Auth struct {
	Key    int    `json:"key"`
	Weight uint64 `json:"weight"`
}

// signature faults
const (
	c19SigGood = iota
	c19SigWrongRound
	c19SigWrongSet // signed with SetID+1
	c19SigOtherKey
	c19SigBitFlip
	c19SigOtherNumber
)

type c19PC struct {
	Key    int `json:"key"`    // index into the key pool
	Target int `json:"target"` // block index of the scenario tree
	Bad    int `json:"bad"`    // signature fault

	inv bool // (view only) the signature is not valid for the round and the set id the verifier must use
}

type c19Scen struct {
	Parents   []int     `json:"parents"`
	RootNum   uint64    `json:"root_number"`
	Auth      []c19Auth `json:"authority_list_of_the_verifying_set,omitempty"` // filled by viewFor
	PCs       []c19PC   `json:"precommits"`
	Target    int       `json:"commit_target"`
	NumOff    int       `json:"commit_target_number_offset"` // 0 = the target's true number
	Headers   []int     `json:"ancestry_headers"`            // block indexes; -1-k = header k of a block outside the tree
	Round     uint64    `json:"round"`
	SetID     uint64    `json:"signed_set_id"`    // set id inside the signed payloads
	KeysOf    int       `json:"signers_from_set"` // authority set the signers were drawn from
	OtherFin  bool      `json:"caller_presents_other_block"`
	Stem      bool      `json:"first_children_follow_the_chain"`
	Kind      string    `json:"generated_kind"`
	Mutations string    `json:"mutations"`
	World     []int     `json:"world_block_of_each_tree_block"`
	Want      string    `json:"hand_computed_verdict,omitempty"` // corpus only: cross-check of the reference verdict

	tree fg.Tree
	info *fg.TreeInfo
}

func (s *c19Scen) init() {
	if s.info == nil {
		s.tree = fg.Tree{Parent: s.Parents}
		s.info = fg.NewTreeInfo(s.tree)
	}
}

func (s *c19Scen) num(b int) uint64 { return s.RootNum + uint64(s.tree.Depth(b)) }

// summed weight per key
func (s *c19Scen) memberWeights() map[int]uint64 {
	m := map[int]uint64{}
	for _, a := range s.Auth {
		if a.Weight == 0 {
			continue
		}
		m[a.Key] += a.Weight
	}
	return m
}

func (s *c19Scen) totalWeight() uint64 {
	var t uint64
	for _, a := range s.Auth {
		t += a.Weight
	}
	return t
}

// ---------------------------------------------------------------- oracle (copy)

type c19Verdict struct {
	ok        bool
	reason    string
	ambiguous bool // GHOST not unique (equivocators above the tolerated weight): no verdict is asserted
}

func (s *c19Scen) known() map[int]bool {
	k := map[int]bool{}
	for _, h := range s.Headers {
		if h >= 0 {
			k[h] = true
		}
	}
	return k
}

// route walks from block x up to base through supplied headers only. It
// returns the visited blocks (x included, base excluded).
func (s *c19Scen) route(known map[int]bool, base, x int) ([]int, bool) {
	var out []int
	for x != base {
		if x < 0 || !known[x] {
			return nil, false
		}
		out = append(out, x)
		x = s.tree.Parent[x]
	}
	return out, true
}

// commitVerdict: the definition of a valid commit over precommits pcs, with
// member weights mw (total weight tw): base = lowest precommit of a member,
// every member precommit descends from base (through supplied headers), the
// precommit-GHOST from base exists and is the commit target.
func (s *c19Scen) commitVerdict(pcs []c19PC, mw map[int]uint64, tw uint64) c19Verdict {
	known := s.known()
	var keys []int
	for k := range mw {
		keys = append(keys, k)
	}
	sort.Ints(keys)
	idx := map[int]int{}
	w := make([]uint64, len(keys))
	for i, k := range keys {
		idx[k] = i
		w[i] = mw[k]
	}
	base := -1
	for _, pc := range pcs {
		if _, m := idx[pc.Key]; !m {
			continue
		}
		if base < 0 || s.num(pc.Target) < s.num(base) {
			base = pc.Target
		}
	}
	if base < 0 {
		return c19Verdict{reason: "no-precommit-from-a-member"}
	}
	ta := fg.NewTallyInfo(s.info, w)
	ta.Total, ta.Thr = tw, fg.Threshold(tw)
	for _, pc := range pcs {
		v, m := idx[pc.Key]
		if !m {
			continue
		}
		if _, ok := s.route(known, base, pc.Target); !ok {
			return c19Verdict{reason: "precommit-not-connected-to-base"}
		}
		ta.Add(fg.Precommit, v, pc.Target, fmt.Sprint(pc.Target, "/", pc.Bad))
	}
	g, amb := ta.GhostFrom(fg.Precommit, base)
	if g < 0 {
		return c19Verdict{reason: "no-supermajority"}
	}
	if amb || ta.EquivWeight(fg.Precommit) >= ta.Thr {
		return c19Verdict{ambiguous: true, reason: "ghost-not-unique"}
	}
	if g != s.Target {
		return c19Verdict{reason: "ghost-is-not-the-target"}
	}
	if s.NumOff != 0 {
		return c19Verdict{reason: "wrong-target-number"}
	}
	return c19Verdict{ok: true, reason: "valid"}
}

// justVerdict: commit valid, signatures valid, every precommit routed to the
// lowest one through the supplied headers, no header unused. strict = every
// listed precommit (also of non-members) must be signed and routed, as
// Substrate does; lenient = precommits of non-members and with bad signatures
// are simply not counted. Where the two readings differ the property text
// does not decide and no verdict is asserted.
// (copy; `pc.Bad == sigGood` of the original reads `!pc.inv` here: validity for the verifying set, see viewFor)
func (s *c19Scen) justVerdict(strict bool, mw map[int]uint64, tw uint64) c19Verdict {
	if s.OtherFin {
		return c19Verdict{reason: "not-the-expected-target"}
	}
	pcs := s.PCs
	if !strict {
		pcs = nil
		for _, pc := range s.PCs {
			if mw[pc.Key] > 0 && !pc.inv {
				pcs = append(pcs, pc)
			}
		}
	}
	cv := s.commitVerdict(pcs, mw, tw)
	if !cv.ok {
		return cv
	}
	base := -1
	for _, pc := range pcs {
		if pc.inv {
			return c19Verdict{reason: "bad-signature"}
		}
		if base < 0 || s.num(pc.Target) < s.num(base) {
			base = pc.Target
		}
	}
	known := s.known()
	visited := map[int]bool{}
	for _, pc := range pcs {
		rt, ok := s.route(known, base, pc.Target)
		if !ok {
			return c19Verdict{reason: "precommit-not-routed-to-base"}
		}
		for _, b := range rt {
			visited[b] = true
		}
	}
	for _, h := range s.Headers {
		if h < 0 || !visited[h] {
			return c19Verdict{reason: "unused-header"}
		}
	}
	return c19Verdict{ok: true, reason: "valid"}
}

// viewFor returns the scenario as the verifier of authority set `set` (authority listing auth, one entry per
// listing of a key) must see it: Auth = that listing with weight 1 per entry, and every precommit marked inv whose
// signed payload is not (Round, set, the precommit itself) signed by the key it names.
func (s *c19Scen) viewFor(set uint64, listing []int) *c19Scen {
	v := *s
	v.Auth = nil
	for _, k := range listing {
		v.Auth = append(v.Auth, c19Auth{Key: k, Weight: 1})
	}
	v.PCs = make([]c19PC, len(s.PCs))
	for i, pc := range s.PCs {
		signedSet := s.SetID
		switch pc.Bad {
		case c19SigGood:
			pc.inv = signedSet != set
		case c19SigWrongSet:
			pc.inv = signedSet+1 != set
		default:
			pc.inv = true
		}
		v.PCs[i] = pc
	}
	return &v
}

// ---------------------------------------------------------------- keys (copy; 16 instead of 12 pairs)

const c19PoolSize = 16

var c19Seeds = func() [][32]byte {
	var out [][32]byte
	for i := 0; i < c19PoolSize; i++ {
		var seed [32]byte
		for j := range seed {
			seed[j] = byte(i*31 + j*7 + 1)
		}
		out = append(out, seed)
	}
	return out
}()

var c19Pairs = func() []ced25519.Pair {
	var out []ced25519.Pair
	for _, seed := range c19Seeds {
		out = append(out, ced25519.NewPairFromSeed(seed))
	}
	return out
}()

func c19Pub(k int) ced25519.Public { return c19Pairs[k].Public().(ced25519.Public) }

// ---------------------------------------------------------------- justification (copy, uint32 only)

type c19Built struct {
	hashes  []hash.H256
	headers []pruntime.Header[uint32, hash.H256] // per scenario block: the real header of its world block
	aliens  []pruntime.Header[uint32, hash.H256]
	pcs     []fgrandpa.SignedPrecommit[hash.H256, uint32, primitives.AuthoritySignature, primitives.AuthorityID]
}

func c19H32(tag byte, i int) hash.H256 {
	b := make([]byte, 32)
	b[0], b[1], b[2] = tag, byte(i), byte(i>>8)
	b[31] = 0x5a
	return hash.H256(b)
}

// c19Build signs the precommits; hashes/headers are those of the world blocks (worldHash / worldHeader).
func c19Build(s *c19Scen, worldHash func(int) hash.H256, worldHeader func(int) pruntime.Header[uint32, hash.H256]) *c19Built {
	b := &c19Built{hashes: make([]hash.H256, s.tree.N()), headers: make([]pruntime.Header[uint32, hash.H256], s.tree.N())}
	for i := 0; i < s.tree.N(); i++ {
		b.hashes[i] = worldHash(s.World[i])
		b.headers[i] = worldHeader(s.World[i])
	}
	for k := 0; k < 3; k++ {
		b.aliens = append(b.aliens, generic.NewHeader[uint32, hash.H256, pruntime.BlakeTwo256](uint32(s.RootNum+1), c19H32(0xc3, k), c19H32(0xd4, k), c19H32(0xef, k), pruntime.Digest{}))
	}
	for _, pc := range s.PCs {
		p := fgrandpa.Precommit[hash.H256, uint32]{TargetHash: b.hashes[pc.Target], TargetNumber: uint32(s.num(pc.Target))}
		round, set, signer, signed := s.Round, s.SetID, pc.Key, p
		switch pc.Bad {
		case c19SigWrongRound:
			round++
		case c19SigWrongSet:
			set++
		case c19SigOtherKey:
			signer = (pc.Key + 1) % len(c19Pairs)
		case c19SigOtherNumber:
			signed.TargetNumber++
		}
		payload := primitives.NewLocalizedPayload(primitives.RoundNumber(round), primitives.SetID(set), fgrandpa.NewMessage(signed))
		sig := c19Pairs[signer].Sign(payload)
		if pc.Bad == c19SigBitFlip {
			sig[17] ^= 0x04
		}
		b.pcs = append(b.pcs, fgrandpa.SignedPrecommit[hash.H256, uint32, primitives.AuthoritySignature, primitives.AuthorityID]{
			Precommit: p, Signature: sig, ID: c19Pub(pc.Key),
		})
	}
	return b
}

func (b *c19Built) justification(s *c19Scen, order, hdrOrder []int) primitives.GrandpaJustification[hash.H256, uint32] {
	j := primitives.GrandpaJustification[hash.H256, uint32]{
		Round: s.Round,
		Commit: primitives.Commit[hash.H256, uint32]{
			TargetHash:   b.hashes[s.Target],
			TargetNumber: uint32(int64(s.num(s.Target)) + int64(s.NumOff)),
		},
		VoteAncestries: []pruntime.Header[uint32, hash.H256]{},
	}
	for _, i := range order {
		j.Commit.Precommits = append(j.Commit.Precommits, b.pcs[i])
	}
	for _, i := range hdrOrder {
		h := s.Headers[i]
		if h >= 0 {
			j.VoteAncestries = append(j.VoteAncestries, b.headers[h])
		} else {
			j.VoteAncestries = append(j.VoteAncestries, b.aliens[(-1-h)%len(b.aliens)])
		}
	}
	return j
}

// ---------------------------------------------------------------- generator (copy, adapted as listed in the header)

func c19RandTree(r *vcommon.Rand, n int) fg.Tree {
	p := make([]int, n)
	p[0] = -1
	style := r.Intn(3)
	for i := 1; i < n; i++ {
		switch style {
		case 0:
			p[i] = r.Intn(i)
		case 1:
			if r.Chance(3, 4) {
				p[i] = i - 1
			} else {
				p[i] = r.Intn(i)
			}
		default:
			if i >= 3 && r.Chance(1, 3) {
				p[i] = i - 2
			} else {
				p[i] = i - 1
			}
		}
	}
	return fg.Tree{Parent: p}
}

// exactHeaders: the headers of every block on a route from a precommit target to the lowest precommit.
func (s *c19Scen) exactHeaders() []int {
	base := -1
	for _, pc := range s.PCs {
		if base < 0 || s.num(pc.Target) < s.num(base) {
			base = pc.Target
		}
	}
	seen := map[int]bool{}
	var out []int
	for _, pc := range s.PCs {
		for x := pc.Target; x >= 0 && x != base; x = s.tree.Parent[x] {
			if s.tree.Depth(x) <= s.tree.Depth(base) {
				break // not a descendant of base: no finite route; leave it unconnected
			}
			if !seen[x] {
				seen[x] = true
				out = append(out, x)
			}
		}
	}
	return out
}

func (s *c19Scen) subtree(b int) []int {
	var out []int
	for x := 0; x < s.tree.N(); x++ {
		if s.tree.IsAncOrEq(b, x) {
			out = append(out, x)
		}
	}
	return out
}

// c19GenScen generates one scenario. signers = listing of the authority set the signers are drawn from (KeysOf),
// signedSet = the set id they sign with, targetNum = the block number the commit target is aimed at (the tree is
// hung so that the aimed block has this number), outsiders = keys that are not in signers.
func c19GenScen(r *vcommon.Rand, maxBlocks int, signers []int, keysOf int, signedSet uint64, targetNum uint64, outsiders []int, mutate bool) *c19Scen {
	n := r.Range(1, maxBlocks)
	s := &c19Scen{tree: c19RandTree(r, n), Round: uint64(r.Range(0, 5)), SetID: signedSet, KeysOf: keysOf, Stem: r.Bool()}
	s.Parents = s.tree.Parent
	s.info = fg.NewTreeInfo(s.tree)
	// generation-time authority list: the signers' own set (the verdict asserted later uses the verifying set)
	var members []int
	seenKey := map[int]bool{}
	for _, k := range signers {
		s.Auth = append(s.Auth, c19Auth{k, 1})
		if !seenKey[k] {
			seenKey[k] = true
			members = append(members, k)
		}
	}
	// aimed block: a random one that is not deeper than the aimed number allows
	T := r.Intn(n)
	for uint64(s.tree.Depth(T)) > targetNum {
		T = s.tree.Parent[T]
	}
	s.RootNum = targetNum - uint64(s.tree.Depth(T))
	sub := s.subtree(T)
	pAbsent, pIn := r.Range(0, 30), r.Range(40, 100)
	for _, k := range members {
		x := r.Intn(100)
		var tg int
		switch {
		case x < pAbsent:
			continue
		case x < pAbsent+pIn:
			tg = T
			if r.Bool() {
				tg = vcommon.Pick(r, sub)
			}
		default:
			tg = r.Intn(n)
		}
		s.PCs = append(s.PCs, c19PC{Key: k, Target: tg})
		if r.Chance(1, 14) { // equivocation
			s.PCs = append(s.PCs, c19PC{Key: k, Target: r.Intn(n)})
		} else if r.Chance(1, 14) { // exact duplicate
			s.PCs = append(s.PCs, c19PC{Key: k, Target: tg})
		}
	}
	// commit target: the GHOST of what was generated if there is one
	s.Target = T
	s.Headers = s.exactHeaders()
	if v := s.commitVerdict(s.PCs, s.memberWeights(), s.totalWeight()); v.reason == "ghost-is-not-the-target" || v.ok {
		mw := s.memberWeights()
		for cand := 0; cand < n; cand++ {
			s.Target = cand
			if s.commitVerdict(s.PCs, mw, s.totalWeight()).ok {
				break
			}
			s.Target = T
		}
	}
	if !mutate {
		s.Auth = nil
		return s
	}
	var muts []string
	nm := 0
	switch x := r.Intn(100); {
	case x < 35:
	case x < 85:
		nm = 1
	default:
		nm = 2
	}
	for ; nm > 0; nm-- {
		switch r.Intn(10) {
		case 0:
			if len(s.Headers) > 0 {
				i := r.Intn(len(s.Headers))
				s.Headers = append(s.Headers[:i:i], s.Headers[i+1:]...)
				muts = append(muts, "drop-header")
			}
		case 1:
			switch r.Intn(4) {
			case 0:
				s.Headers = append(s.Headers, -1-r.Intn(3))
				muts = append(muts, "extra-alien-header")
			case 1:
				b := r.Intn(n)
				s.Headers = append(s.Headers, b)
				muts = append(muts, "extra-or-repeated-header")
			default: // header of the lowest precommit itself
				base := -1
				for _, pc := range s.PCs {
					if base < 0 || s.num(pc.Target) < s.num(base) {
						base = pc.Target
					}
				}
				if base >= 0 {
					s.Headers = append(s.Headers, base)
					muts = append(muts, "extra-base-header")
				}
			}
		case 2:
			switch r.Intn(3) {
			case 0:
				if s.Target > 0 {
					s.Target = s.tree.Parent[s.Target]
				}
			case 1:
				if ch := s.info.T.Children()[s.Target]; len(ch) > 0 {
					s.Target = vcommon.Pick(r, ch)
				}
			default:
				s.Target = r.Intn(n)
			}
			muts = append(muts, "move-commit-target")
		case 3:
			s.NumOff = 1
			if r.Bool() && s.num(s.Target) > 0 {
				s.NumOff = -1
			}
			muts = append(muts, "wrong-target-number")
		case 4:
			if len(s.PCs) > 0 {
				i := r.Intn(len(s.PCs))
				bad := r.Range(1, 5)
				// exact duplicates must stay exact duplicates
				for j := range s.PCs {
					if s.PCs[j].Key == s.PCs[i].Key && s.PCs[j].Target == s.PCs[i].Target {
						s.PCs[j].Bad = bad
					}
				}
				muts = append(muts, "bad-signature")
			}
		case 5, 6:
			out := c19PC{Key: vcommon.Pick(r, outsiders), Target: r.Intn(n)}
			if len(s.Headers) > 0 && r.Bool() {
				out.Target = vcommon.Pick(r, s.Headers)
				if out.Target < 0 {
					out.Target = 0
				}
			}
			if r.Chance(1, 3) {
				out.Bad = r.Range(1, 5)
			}
			s.PCs = append(s.PCs, out)
			if r.Bool() {
				s.Headers = s.exactHeaders()
			}
			muts = append(muts, "non-member-precommit")
		case 7:
			if len(s.PCs) > 0 {
				i := r.Intn(len(s.PCs))
				s.PCs = append(s.PCs[:i:i], s.PCs[i+1:]...)
				if r.Bool() {
					s.Headers = s.exactHeaders()
				}
				muts = append(muts, "remove-precommit")
			}
		case 8:
			s.OtherFin = true
			muts = append(muts, "caller-presents-other-block")
		default:
			if len(s.PCs) > 0 { // a member precommits below everything else: the base moves
				k := s.PCs[r.Intn(len(s.PCs))].Key
				s.PCs = append(s.PCs, c19PC{Key: k, Target: 0})
				if r.Bool() {
					s.Headers = s.exactHeaders()
				}
				muts = append(muts, "second-vote-on-root")
			}
		}
	}
	s.Mutations = strings.Join(muts, ",")
	s.Auth = nil
	return s
}

func c19Identity(n int) []int {
	p := make([]int, n)
	for i := range p {
		p[i] = i
	}
	return p
}

func c19Reversed(n int) []int {
	p := make([]int, n)
	for i := range p {
		p[i] = n - 1 - i
	}
	return p
}

// descending orders precommit indexes by descending target number (the order that
// defeats a comparator which never returns a negative value).
func (s *c19Scen) descending() []int {
	p := c19Identity(len(s.PCs))
	sort.SliceStable(p, func(a, b int) bool { return s.num(s.PCs[p[a]].Target) > s.num(s.PCs[p[b]].Target) })
	return p
}
